(* C20  Logging is observationally transparent (PARTIAL: skeleton level).
   Only statements here; proofs live in coq/proofs/LogEraseP.v, LogSkeletonP.v, LogEncP.v. *)
From Coq Require Import String.
From AQ Require Import lib.Base model.LogErase model.LogEnc gen.LogSkeleton
  proofs.LogEraseP proofs.LogSkeletonP proofs.LogEncP
  model.LogVal proofs.LogValP gen.LogEncoders proofs.LogEncodersP
  model.LogRec proofs.LogRecP gen.LogRecords proofs.LogRecordsP proofs.LogCoverP.

(* Generic, proved once by induction on programs of the Core/Log language of model/LogErase.v.
   For any callee environment in which (1) the callees accepted inside Log code only touch logger-owned
   locations and do not raise and (2) the callees of Core code do not depend on logger-owned locations:
   if Core code never reads a logger-owned location and every Log block writes only logger-owned
   locations, calls only accepted callees and contains no return/raise/break/continue (prog_ok), then
   the core projection of a run equals, on every location, the core projection of the run of the ERASED
   program started from the core projection, and control leaves both at the same point. *)
Theorem erasure_noninterference : forall (fenv : fn -> fsem) (meths : list string),
  (forall f args s, fn_log_ok meths f = true ->
     snd (fenv f args s) = false /\ (forall l, log_owned l = false -> fst (fst (fenv f args s)) l = s l)) ->
  (forall f args s1 s2, fn_reads_log f = false -> core_eq s1 s2 ->
     core_eq (fst (fst (fenv f args s1))) (fst (fst (fenv f args s2))) /\
     snd (fst (fenv f args s1)) = snd (fst (fenv f args s2)) /\
     snd (fenv f args s1) = snd (fenv f args s2)) ->
  forall p s, prog_ok meths p = true ->
    (forall l, proj_core (fst (run fenv p s)) l = proj_core (fst (run fenv (erase p) (proj_core s))) l) /\
    snd (run fenv p s) = snd (run fenv (erase p) (proj_core s)).
Proof. exact erasure_ni_proj. Qed.
Print Assumptions erasure_noninterference.

(* the same, relationally: from stores that agree outside the logger, p and erase p end in stores that agree
   outside the logger *)
Theorem erasure_noninterference_rel : forall (fenv : fn -> fsem) (meths : list string),
  (forall f args s, fn_log_ok meths f = true ->
     snd (fenv f args s) = false /\ (forall l, log_owned l = false -> fst (fst (fenv f args s)) l = s l)) ->
  (forall f args s1 s2, fn_reads_log f = false -> core_eq s1 s2 ->
     core_eq (fst (fst (fenv f args s1))) (fst (fst (fenv f args s2))) /\
     snd (fst (fenv f args s1)) = snd (fst (fenv f args s2)) /\
     snd (fenv f args s1) = snd (fenv f args s2)) ->
  forall p s1 s2, prog_ok meths p = true -> core_eq s1 s2 ->
    core_eq (fst (run fenv p s1)) (fst (run fenv (erase p) s2)) /\
    snd (run fenv p s1) = snd (run fenv (erase p) s2).
Proof. exact erasure_ni_rel. Qed.
Print Assumptions erasure_noninterference_rel.

(* Finite, by vm_compute on coq/gen/LogSkeleton.v (regenerated from the current source on every run):
   every method of logger.py's QuicLoggerTrace, every statement guarded by a test on a logger-owned name in
   connection.py, recovery.py, packet_builder.py, congestion/*.py, h3/connection.py (with the methods they call
   inlined), and every other mention of a logger-owned name meets the side conditions. *)
Theorem skeleton_wf : skeleton_ok logger_methods guarded_blocks unguarded_uses = true.
Proof. exact skeleton_ok_now. Qed.
Print Assumptions skeleton_wf.

(* Both combined (skeleton level): any program made of Core code that never looks at logger-owned locations and
   of Log blocks taken from the generated skeleton is unaffected, on its core state and control flow, by erasing
   the Log blocks -- PROVIDED the accepted callees do not raise, which encoders_http3_headers_refuted shows to be
   false for encode_http3_headers_frame / encode_http3_push_promise_frame. *)
Theorem logging_transparent_partial : forall (fenv : fn -> fsem),
  (forall f args s, fn_log_ok checked_methods f = true ->
     snd (fenv f args s) = false /\ (forall l, log_owned l = false -> fst (fst (fenv f args s)) l = s l)) ->
  (forall f args s1 s2, fn_reads_log f = false -> core_eq s1 s2 ->
     core_eq (fst (fst (fenv f args s1))) (fst (fst (fenv f args s2))) /\
     snd (fst (fenv f args s1)) = snd (fst (fenv f args s2)) /\
     snd (fenv f args s1) = snd (fenv f args s2)) ->
  forall p s, core_ok p = true -> built_from_skeleton p ->
    (forall l, proj_core (fst (run fenv p s)) l = proj_core (fst (run fenv (erase p) (proj_core s))) l) /\
    snd (run fenv p s) = snd (run fenv (erase p) (proj_core s)).
Proof. exact transparent_skeleton. Qed.
Print Assumptions logging_transparent_partial.

(* encoders_total, by raising primitive.  PACKET_TYPE_NAMES[...]: every QuicPacketType member has a name. *)
Theorem encoders_total_packet_type : forall m, In m packet_type_members ->
  packet_type_lookup packet_type_name_keys m = Ok m.
Proof. exact packet_type_total. Qed.
Print Assumptions encoders_total_packet_type.

(* hexdump (connection ids, tokens, path challenge data, transport parameters, ODCID) never raises on bytes *)
Theorem encoders_total_hexdump : forall b, bytes_ok b -> hexdump b = Ok (hexlify b).
Proof. exact hexdump_total. Qed.
Print Assumptions encoders_total_hexdump.

(* _encode_http3_headers: exact outcome; total on ASCII; on the receive path (validated names) it raises exactly
   when some header VALUE is not UTF-8 *)
Theorem encoders_http3_headers_outcome : forall hs,
  encode_http3_headers hs = (if forallb header_utf8 hs then Ok hs else Err UnicodeDecodeError).
Proof. exact encode_http3_headers_spec. Qed.
Print Assumptions encoders_http3_headers_outcome.

Theorem encoders_total_http3_ascii : forall hs, Forall (fun h => ascii_ok (fst h) /\ ascii_ok (snd h)) hs ->
  encode_http3_headers hs = Ok hs.
Proof. exact ascii_headers_total. Qed.
Print Assumptions encoders_total_http3_ascii.

Theorem encoders_http3_received_outcome : forall hs,
  Forall (fun h => bytes_ok (fst h) /\ validate_header_name (fst h) = true) hs ->
  encode_http3_headers hs = (if forallb (fun h => utf8_valid (snd h)) hs then Ok hs else Err UnicodeDecodeError).
Proof. exact received_headers_outcome. Qed.
Print Assumptions encoders_http3_received_outcome.

(* the repair direction: with a total decoder (errors="replace", latin-1, ...) the header encoder is total *)
Theorem encoders_total_http3_lenient : forall hs, encode_http3_headers_with false hs = Ok hs.
Proof. exact lenient_total. Qed.
Print Assumptions encoders_total_http3_lenient.

(* REFUTED (finding F7): a header that validate_header_name / validate_header_value accept makes the
   HEADERS and PUSH_PROMISE encoders raise UnicodeDecodeError (witness x: \x80). *)
Theorem encoders_http3_headers_refuted :
  exists name value,
    bytes_ok name /\ bytes_ok value /\
    validate_header_name name = true /\ validate_header_value value = true /\
    encode_http3_headers_frame 3 [(name, value)] 0 = Err UnicodeDecodeError /\
    encode_http3_push_promise_frame 3 [(name, value)] 0 0 = Err UnicodeDecodeError.
Proof. exact http3_headers_not_total. Qed.
Print Assumptions encoders_http3_headers_refuted.

(* ======================================================================================================
   "logging never raises" for ALL encoders, "the qlog document is serialisable as JSON",
   "one packet record per packet sent and received" *)

(* Generic (model/LogVal.v): a method whose body passes the type checker does not raise on ANY argument vector of
   its parameter types, and what it returns is a JSON value (None/bool/int/float/str, lists, str-keyed dicts). *)
Theorem encoder_typing_sound : forall T m args, meth_ok T m = true ->
  Forall2 (fun t v => vty T t v = true) (map snd (m_params m)) args ->
  exists v, call T m args = Ok v /\ is_json v = true.
Proof. exact meth_sound. Qed.
Print Assumptions encoder_typing_sound.

(* encoders_total_all: EVERY method of logger.py's QuicLoggerTrace (every encode_*, packet_type, encode_time,
   _encode_http3_headers, log_event, to_dict) and hexdump -- bodies generated from the current source -- on every
   argument vector of the types of its annotations: no exception, JSON result.  (This pins the lenient header
   decoder of fix 0c5337e: with a strict .decode("utf8") the type checker rejects _encode_http3_headers.) *)
Theorem encoders_total_all : forall m, In m enc_methods ->
  forall vs, Forall2 (fun t v => vty enc_tabs t v = true) (map snd (m_params m)) vs ->
  exists v, call enc_tabs m vs = Ok v /\ is_json v = true.
Proof. exact encoders_total_all_l. Qed.
Print Assumptions encoders_total_all.

(* premise (1) of erasure_noninterference, its "do not raise" half, DISCHARGED for the QuicLoggerTrace callees: every
   callee `FLogger m` that the skeleton checker accepts inside Log code is one of the generated method bodies, and
   does not raise on its domain *)
Theorem flogger_callees_total : forall m, fn_log_ok checked_methods (FLogger m) = true ->
  exists me, In me enc_methods /\ same_method m me = true /\
    forall vs, Forall2 (fun t v => vty enc_tabs t v = true) (map snd (m_params me)) vs ->
      exists v, call enc_tabs me vs = Ok v /\ is_json v = true.
Proof. exact flogger_callees_total_l. Qed.
Print Assumptions flogger_callees_total.

(* ... and at every call site (connection.py, recovery.py, packet_builder.py, h3/connection.py), on every argument
   vector of the types INFERRED for the argument expressions of that site (annotations of logger.py not used) *)
Theorem encoders_total_at_sites : forall s, In s enc_sites ->
  exists m, find_meth (s_meth s) enc_methods = Some m /\
    forall vs, Forall2 (fun t v => vty enc_tabs t v = true) (s_args s) vs ->
      exists v, call enc_tabs m vs = Ok v /\ is_json v = true.
Proof. exact encoders_total_at_sites_l. Qed.
Print Assumptions encoders_total_at_sites.

(* every `data` handed to log_event (33 sites; get_log_data of each congestion controller spliced in) is a JSON
   value for all values of its leaf expressions of their inferred types, and building it does not raise *)
Theorem qlog_record_data_json : forall r, In r event_records ->
  forall vs, Forall2 (fun t v => vty enc_tabs t v = true) (map snd (m_params r)) vs ->
  exists v, call enc_tabs r vs = Ok v /\ is_json v = true.
Proof. exact qlog_record_data_json_l. Qed.
Print Assumptions qlog_record_data_json.

(* log_event on a trace whose events were all built by log_event from JSON data: no exception, JSON record *)
Theorem log_event_total : forall odcid vp evs m category event data time,
  forallb byte_okb odcid = true -> is_json vp = true -> reachable_events odcid vp evs ->
  find_meth "log_event" enc_methods = Some m -> is_json data = true ->
  exists v, call enc_tabs m [trace_obj odcid evs vp; VStr category; VStr event; data; VFloat time] = Ok v /\ is_json v = true.
Proof. exact log_event_total_l. Qed.
Print Assumptions log_event_total.

(* qlog_json_serialisable: to_dict of such a trace does not raise and is a JSON value (what json.dump accepts
   without a default= hook).  NOT claimed: absence of NaN/Infinity (json_strict; see encode_time_inf in
   proofs/LogEncodersP.v and docs/C20.md). *)
Theorem qlog_json_serialisable : forall odcid vp evs m,
  forallb byte_okb odcid = true -> is_json vp = true -> reachable_events odcid vp evs ->
  find_meth "to_dict" enc_methods = Some m ->
  exists doc, call enc_tabs m [trace_obj odcid evs vp] = Ok doc /\ is_json doc = true.
Proof. exact qlog_json_serialisable_l. Qed.
Print Assumptions qlog_json_serialisable.

(* Generic (model/LogRec.v): a control skeleton accepted by the checker for a record automaton: for EVERY decision
   sequence the events of the run are accepted, and the unit is left (end / return / continue / raise) only in a
   state where that is allowed. *)
Theorem record_automaton_sound : forall D q0 s, unit_ok D q0 s = true ->
  forall fuel ds t ds' o, wrun fuel s ds = Some (t, ds', o) ->
  exists q', dfa_exec D q0 t = Some q' /\ accept D q' (match o with Fall => "end" | Exited k => k end) = true.
Proof. exact unit_sound. Qed.
Print Assumptions record_automaton_sound.

(* one_record_per_packet, SEND, frames: in every run of every frame writer of connection.py (skeletons generated;
   decisions = branches, iterations, whether start_frame raises QuicPacketBuilderStop) frames and frame records
   alternate with matching kinds: as many `quic_logger_frames.append` as frames written, in the same order *)
Theorem one_record_per_packet_send_frames : forall name w, In (name, w) writers ->
  forall fuel ds t ds' o, wrun fuel w ds = Some (t, ds', o) ->
  (exists q', dfa_exec (writer_dfa frame_enc_pairs) q0 t = Some q' /\ fst q' = 0) /\
  count "frame" t = count "log" t.
Proof. exact writer_records_l. Qed.
Print Assumptions one_record_per_packet_send_frames.

(* SEND, packets: one iteration of datagrams_to_send's loop over the packets builder.flush() returned logs exactly
   one packet_sent record (carrying packet.quic_logger_frames: pinned by the translator) *)
Theorem one_record_per_packet_sent : forall fuel ds t ds' o, wrun fuel sent_iteration ds = Some (t, ds', o) ->
  exists q', dfa_exec sent_dfa q0 t = Some q' /\ fst q' = 3.
Proof. exact sent_records_l. Qed.
Print Assumptions one_record_per_packet_sent.

(* SEND, builder: _end_packet appends the packet to the list flush() returns at most once, and the PADDING it adds
   is recorded before *)
Theorem one_record_per_packet_end_packet : forall fuel ds t ds' o, wrun fuel end_packet ds = Some (t, ds', o) ->
  exists q', dfa_exec end_packet_dfa q0 t = Some q' /\ fst q' <> 1.
Proof. exact end_packet_records_l. Qed.
Print Assumptions one_record_per_packet_end_packet.

(* RECEIVE: every run of one iteration of receive_datagram's packet loop has exactly one packet record (a
   packet_dropped with a trigger of the fixed sets, a packet_received, or the VN / Retry handler which logs exactly
   one itself), never both, and it is a packet_received exactly when decryption succeeded -- also when the
   reserved-bits check then closes the connection (fix 45f3c9a) *)
Theorem one_record_per_packet_recv : forall fuel ds t ds' o, wrun fuel recv_iteration ds = Some (t, ds', o) ->
  (exists q', dfa_exec (packet_dfa pre_triggers fail_triggers) q0 t = Some q' /\ fst q' = 3) /\
  records t = 1 /\ count "recv" t = count "decrypt_ok" t.
Proof. exact (fun fuel ds t ds' o H => conj (recv_records_l fuel ds t ds' o H) (recv_counts_l fuel ds t ds' o H)). Qed.
Print Assumptions one_record_per_packet_recv.

Theorem one_record_per_packet_recv_handlers : forall h, h = vn_handler \/ h = retry_handler ->
  forall fuel ds t ds' o, wrun fuel h ds = Some (t, ds', o) ->
  exists q', dfa_exec one_record_dfa q0 t = Some q' /\ fst q' = 3.
Proof. exact recv_handlers_l. Qed.
Print Assumptions one_record_per_packet_recv_handlers.

(* RECEIVE, frames: a frame handler appends at most one frame record, exactly one whenever it does not raise *)
Theorem one_record_per_frame_recv : forall name w, In (name, w) handlers ->
  forall fuel ds t ds' o, wrun fuel w ds = Some (t, ds', o) ->
  exists q', dfa_exec handler_dfa q0 t = Some q' /\ (o <> Exited "raise" -> fst q' = 1).
Proof. exact handler_records_l. Qed.
Print Assumptions one_record_per_frame_recv.
