From AQ Require Import lib.Base gen.C13Consts model.Builder model.Amplification
  proofs.BuilderProofs proofs.BuilderPadding proofs.BuilderPadding2 proofs.AmplificationProofs.

(* every flushed datagram <= max_datagram_size: all configurations, all op sequences (API misuse included) *)
Theorem datagram_le_max :
  forall (c : cfg) (pn : Z) (ops : list op),
    Forall (fun n => n <= c_mds c) (snd (run c (init_st c pn) ops)) /\
    Forall (fun d => d_len d <= c_mds c) (g_log (fst (run c (init_st c pn) ops))).
Proof. exact datagram_le_max_all. Qed.
Print Assumptions datagram_le_max.

(* bytes of one builder <= max_total_bytes, for every caller-disciplined history (strict since fix e93c691: start_frame
   reserves room for the header-protection sample padding of a one-byte packet) *)
Theorem total_le_budget :
  forall (c : cfg) (mt pn : Z) (ops : list op),
    c_max_total c = Some mt -> wf_cfg c -> crypto_fits c ->
    disciplined c (init_st c pn) ops = true ->
    zsum (snd (run c (init_st c pn) ops)) <= Z.max 0 mt.
Proof. exact total_le_budget_strict. Qed.
Print Assumptions total_le_budget.

(* while a path is unvalidated: sent <= 3 * received, invariant over all receive / send / terminate histories
   whose send rounds go through the budgeted branch of datagrams_to_send *)
Theorem amplification_bound :
  forall (a : acfg) (l : list aop) (s : ast),
    wf_acfg a -> Forall P (as_paths s) -> aok a s l = true -> no_close l = true ->
    Forall P (as_paths (arun a s l)).
Proof. exact amplification_bound_strict. Qed.
Print Assumptions amplification_bound.

(* the _close_pending round is unbudgeted (open finding C13-F13c) *)
Theorem amplification_bound_close_refuted :
  exists (a : acfg) (l : list aop),
    wf_acfg a /\ aok a (mkAst [] false) l = true /\
    as_paths (arun a (mkAst [] false) l) = [mkPath 1 1200 3648 false].
Proof. exact amplification_close_refuted. Qed.
Print Assumptions amplification_bound_close_refuted.

(* Initial-carrying datagrams have length max(bytes written, flight capacity at flush) *)
Theorem initial_padded :
  forall (c : cfg) (pn : Z) (ops : list op),
    wf_cfg c -> no_buffer_error c (init_st c pn) ops = true ->
    Forall (fun d => d_init d = true ->
                     d_len d = Z.max (d_raw d) (d_fcap d) /\
                     (SMALLEST_MAX_DATAGRAM_SIZE <= d_len d <->
                      SMALLEST_MAX_DATAGRAM_SIZE <= d_fcap d \/ SMALLEST_MAX_DATAGRAM_SIZE <= d_raw d))
           (g_log (fst (run c (init_st c pn) ops))).
Proof. exact initial_padded_char. Qed.
Print Assumptions initial_padded.

Theorem initial_padded_1200_refuted :
  exists (c : cfg) (ops : list op),
    wf_cfg c /\ c_mds c = 1200 /\ c_client c = true /\ disciplined c (init_st c 0) ops = true /\
    no_buffer_error c (init_st c 0) ops = true /\
    exists d, In d (g_log (fst (run c (init_st c 0) ops))) /\ d_init d = true /\ d_len d = 55.
Proof. exact initial_padded_refuted. Qed.
Print Assumptions initial_padded_1200_refuted.
