From AQ Require Import lib.Base model.Builder model.Amplification.
Theorem placeholder13 : True.
Proof. exact I. Qed.
Print Assumptions placeholder13.
