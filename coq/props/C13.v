From AQ Require Import lib.Base gen.C13Consts model.Builder model.Amplification
  proofs.BuilderProofs proofs.BuilderPadding proofs.BuilderPadding2 proofs.AmplificationProofs.
From AQ Require gen.C13Writers model.Writers proofs.BuilderFlight proofs.WritersBase proofs.WritersFrames proofs.WritersProofs
  proofs.WritersCorollaries proofs.WritersFlight proofs.FlightBudget model.RecBase model.Recovery proofs.RecoveryProofs.
From AQ Require gen.C05Paths model.ConnPaths proofs.TlsSitesP proofs.ConnPathsP.

(* every flushed datagram <= max_datagram_size: all configurations, all op sequences (API misuse included) *)
Theorem datagram_le_max :
  forall (c : cfg) (pn : Z) (ops : list op),
    Forall (fun n => n <= c_mds c) (snd (run c (init_st c pn) ops)) /\
    Forall (fun d => d_len d <= c_mds c) (g_log (fst (run c (init_st c pn) ops))).
Proof. exact datagram_le_max_all. Qed.
Print Assumptions datagram_le_max.

(* bytes of one builder <= max_total_bytes, for every caller-disciplined history (strict since fix e93c691: start_frame
   reserves room for the header-protection sample padding of a one-byte packet) *)
Theorem total_le_budget :
  forall (c : cfg) (mt pn : Z) (ops : list op),
    c_max_total c = Some mt -> wf_cfg c -> crypto_fits c ->
    disciplined c (init_st c pn) ops = true ->
    zsum (snd (run c (init_st c pn) ops)) <= Z.max 0 mt.
Proof. exact total_le_budget_strict. Qed.
Print Assumptions total_le_budget.

(* while a path is unvalidated: sent <= 3 * received, invariant over all receive / send / terminate histories
   whose send rounds go through the budgeted branch of datagrams_to_send *)
Theorem amplification_bound :
  forall (a : acfg) (l : list aop) (s : ast),
    wf_acfg a -> Forall P (as_paths s) -> aok a s l = true -> no_close l = true ->
    Forall P (as_paths (arun a s l)).
Proof. exact amplification_bound_strict. Qed.
Print Assumptions amplification_bound.

(* the _close_pending round is unbudgeted (open finding C13-F13c) *)
Theorem amplification_bound_close_refuted :
  exists (a : acfg) (l : list aop),
    wf_acfg a /\ aok a (mkAst [] false) l = true /\
    as_paths (arun a (mkAst [] false) l) = [mkPath 1 1200 3648 false].
Proof. exact amplification_close_refuted. Qed.
Print Assumptions amplification_bound_close_refuted.

(* Initial-carrying datagrams have length max(bytes written, flight capacity at flush) *)
Theorem initial_padded :
  forall (c : cfg) (pn : Z) (ops : list op),
    wf_cfg c -> no_buffer_error c (init_st c pn) ops = true ->
    Forall (fun d => d_init d = true ->
                     d_len d = Z.max (d_raw d) (d_fcap d) /\
                     (SMALLEST_MAX_DATAGRAM_SIZE <= d_len d <->
                      SMALLEST_MAX_DATAGRAM_SIZE <= d_fcap d \/ SMALLEST_MAX_DATAGRAM_SIZE <= d_raw d))
           (g_log (fst (run c (init_st c pn) ops))).
Proof. exact initial_padded_char. Qed.
Print Assumptions initial_padded.

Theorem initial_padded_1200_refuted :
  exists (c : cfg) (ops : list op),
    wf_cfg c /\ c_mds c = 1200 /\ c_client c = true /\ disciplined c (init_st c 0) ops = true /\
    no_buffer_error c (init_st c 0) ops = true /\
    exists d, In d (g_log (fst (run c (init_st c 0) ops))) /\ d_init d = true /\ d_len d = 55.
Proof. exact initial_padded_refuted. Qed.
Print Assumptions initial_padded_1200_refuted.

(* ---------- the callers of the builder: connection.py's frame writers, _write_handshake, _write_application and the
   builder part of datagrams_to_send (model/Writers.v; frame types, capacities and push sequences generated from the source
   by tools/gen/c13_writers.py).  dts_trace c pn d = the builder op history of one datagrams_to_send call with decision
   inputs d (which frames are pending, their field values, the C10 stream senders get_frame is called on);
   dts_ok d = the field values are in their wire ranges (varints < 2^62, connection ids <= 20 bytes, senders reachable
   by a legitimate C10 history and not reset). ---------- *)

(* the caller discipline is a theorem of the writer model: every start_frame is inside an open packet with a capacity that
   covers its type, every push follows a start_frame and fits remaining_buffer_space -- in particular no writer pushes
   more than the capacity it declared (or, CRYPTO / STREAM, more than the space it measured) *)
Theorem writers_disciplined :
  forall (c : cfg) (pn : Z) (d : Writers.dts_in),
    WritersProofs.dts_ok d -> disciplined c (init_st c pn) (Writers.dts_trace c pn d) = true.
Proof. exact WritersProofs.writers_disciplined_all. Qed.
Print Assumptions writers_disciplined.

(* ... and C08's three flight clauses hold as well (ACK / CONNECTION_CLOSE are the first frame of their packet in every
   packet loop since fix 7b299f1) *)
Theorem writers_flight_disciplined :
  forall (c : cfg) (pn : Z) (d : Writers.dts_in),
    WritersProofs.dts_ok d ->
    BuilderFlight.fl_disciplined c (init_st c pn) (Writers.dts_trace c pn d) = true.
Proof. exact WritersProofs.writers_flight_disciplined_all. Qed.
Print Assumptions writers_flight_disciplined.

(* the FORMER order of _write_application (PATH_CHALLENGE before ACK; finding C08-F14, fixed by 7b299f1), as an explicit
   builder op history: inside C13's discipline, outside the flight clauses; with max_flight_bytes = 36 the packet
   PATH_CHALLENGE + ACK is 49 bytes, in flight and ack-eliciting *)
Theorem former_order_flight_refuted :
  c_max_flight WritersCorollaries.refute_cfg = Some 36 /\ wf_cfg WritersCorollaries.refute_cfg /\
  crypto_fits WritersCorollaries.refute_cfg /\
  disciplined WritersCorollaries.refute_cfg (init_st WritersCorollaries.refute_cfg 0) WritersCorollaries.former_order_trace = true /\
  BuilderFlight.fl_disciplined WritersCorollaries.refute_cfg (init_st WritersCorollaries.refute_cfg 0)
    WritersCorollaries.former_order_trace = false /\
  snd (BuilderFlight.run_pk WritersCorollaries.refute_cfg (init_st WritersCorollaries.refute_cfg 0)
         WritersCorollaries.former_order_trace) = [(PT_ONE_RTT, 49, true, true, false, 0)].
Proof. exact WritersCorollaries.former_order_flight_refuted_w. Qed.
Print Assumptions former_order_flight_refuted.

(* the C13 statements for op histories generated by the writer model: no discipline hypothesis left *)
Theorem datagram_le_max_connection :
  forall (c : cfg) (pn : Z) (d : Writers.dts_in),
    Forall (fun n => n <= c_mds c) (snd (run c (init_st c pn) (Writers.dts_trace c pn d))).
Proof. exact WritersCorollaries.datagram_le_max_conn. Qed.
Print Assumptions datagram_le_max_connection.

Theorem total_le_budget_connection :
  forall (c : cfg) (mt pn : Z) (d : Writers.dts_in),
    c_max_total c = Some mt -> wf_cfg c -> crypto_fits c -> WritersProofs.dts_ok d ->
    zsum (snd (run c (init_st c pn) (Writers.dts_trace c pn d))) <= Z.max 0 mt.
Proof. exact WritersCorollaries.total_le_budget_conn. Qed.
Print Assumptions total_le_budget_connection.

(* sent <= 3 * received on every unvalidated path, over all histories of receive / datagrams_to_send (normal branch,
   decisions in range) / terminate *)
Theorem amplification_bound_connection :
  forall (a : acfg) (l : list WritersCorollaries.cop) (s : ast),
    wf_acfg a -> Forall P (as_paths s) -> Forall WritersCorollaries.cop_ok l ->
    Forall P (as_paths (arun a s (WritersCorollaries.to_aops a s l))).
Proof. exact WritersCorollaries.amplification_bound_conn. Qed.
Print Assumptions amplification_bound_connection.

(* C08 flight budget, builder level: all in-flight packets of one datagrams_to_send call <= max(0, max_flight_bytes) *)
Theorem flight_le_budget_connection :
  forall (c : cfg) (mf pn : Z) (d : Writers.dts_in),
    c_max_flight c = Some mf -> wf_cfg c -> crypto_fits c -> WritersProofs.dts_ok d ->
    BuilderFlight.fl_sum (snd (BuilderFlight.run_pk c (init_st c pn) (Writers.dts_trace c pn d))) +
    BuilderFlight.fl_sum (b_pkts (fst (BuilderFlight.run_pk c (init_st c pn) (Writers.dts_trace c pn d)))) <= Z.max 0 mf.
Proof. exact WritersCorollaries.flight_le_budget_conn. Qed.
Print Assumptions flight_le_budget_connection.

(* ... composed with on_packet_sent for any recovery state and any controller satisfying cc_spec (C08's flight_budget) *)
Theorem flight_budget_connection :
  forall (T C : Type) (cc : RecBase.ccops T C), RecoveryProofs.cc_spec cc ->
  forall (st : Recovery.rec (T:=T) (C:=C)) sp now c mf pn d,
  (forall t, (sp t < length (Recovery.r_spaces st))%nat) ->
  c_max_flight c = Some mf -> wf_cfg c -> crypto_fits c -> WritersProofs.dts_ok d ->
  RecBase.cc_bif cc (Recovery.r_cc (FlightBudget.register cc sp now st (FlightBudget.built c pn (Writers.dts_trace c pn d)))) =
    RecBase.cc_bif cc (Recovery.r_cc st) + BuilderFlight.fl_sum (FlightBudget.built c pn (Writers.dts_trace c pn d)) /\
  RecBase.cc_bif cc (Recovery.r_cc (FlightBudget.register cc sp now st (FlightBudget.built c pn (Writers.dts_trace c pn d))))
    <= RecBase.cc_bif cc (Recovery.r_cc st) + Z.max 0 mf.
Proof. exact WritersFlight.flight_budget_conn. Qed.
Print Assumptions flight_budget_connection.

(* the 3x budget is switched off by `network_path.is_validated`: the statements of connection.py that write that flag (and the
   network-path table they index) are exactly the listings the path ledger model was written against -- receive_datagram under
   `epoch == HANDSHAKE`, the PATH_RESPONSE handler, the client's first path.  Generated from the current source
   (tools/gen/c05_paths.py); another place or another guard that validates a path stops this theorem. *)
Theorem validation_sites_pinned :
  AQ.proofs.TlsSitesP.sites_eqb AQ.gen.C05Paths.paths_sites AQ.model.ConnPaths.paths_sites_expected = true.
Proof. exact AQ.proofs.ConnPathsP.paths_sites_known. Qed.
Print Assumptions validation_sites_pinned.
