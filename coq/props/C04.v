(* C04  Native helpers never access memory out of bounds.
   Statements only; proofs in proofs/CMemProofs.v, proofs/CMemCalls.v; the memory model
   gen/CMem.v is regenerated from the C sources of the tree under check on every run. *)
From Coq Require Import ZArith List Bool.
From AQ Require Import model.CMemBase gen.CMem model.CMemSpec proofs.CMemProofs proofs.CMemCalls.
Local Open Scope Z_scope.

(* Every Buffer method sequence with well-typed arguments, from any state satisfying
   base <= pos <= end: every access in bounds, invariant preserved, rejected calls leave pos unchanged. *)
Theorem buffer_safe : forall ops s, binv s -> Forall op_typed ops ->
  Forall (fun so => binv (fst so) /\ step_ok (fst so) (snd so)) (run_ops s ops).
Proof. exact buffer_safe_seq. Qed.
Print Assumptions buffer_safe.

(* The constructor: safe for all arguments, or refuted by concrete arguments (status of this tree). *)
Theorem buffer_init_safe_or_refuted : if unconditional_Buffer_init then buffer_init_safe_all else ~ buffer_init_safe_all.
Proof. exact buffer_init_status. Qed.
Print Assumptions buffer_init_safe_or_refuted.

Theorem crypto_safe_under_contract :
  (forall data_len associated_len pn parsed i f1 outlen f2 outlen2 f3 f4 f5,
    R_AEAD_encrypt data_len associated_len pn parsed i f1 outlen f2 outlen2 f3 f4 f5 ->
    Kspec_AEAD_encrypt data_len ->
    events_safe (ev_AEAD_encrypt data_len associated_len pn parsed i f1 outlen f2 outlen2 f3 f4 f5)) /\
  (forall data_len associated_len pn parsed i f1 f2 outlen f3 outlen2 f4 f5,
    R_AEAD_decrypt data_len associated_len pn parsed i f1 f2 outlen f3 outlen2 f4 f5 ->
    Kspec_AEAD_decrypt data_len ->
    events_safe (ev_AEAD_decrypt data_len associated_len pn parsed i f1 f2 outlen f3 outlen2 f4 f5)) /\
  (forall header_len payload_len parsed pnl0 f1 b80 i,
    R_HeaderProtection_apply header_len payload_len parsed pnl0 f1 b80 i ->
    Kspec_HP_apply header_len payload_len pnl0 ->
    events_safe (ev_HeaderProtection_apply header_len payload_len parsed pnl0 f1 b80 i)) /\
  (forall packet_len pn_offset parsed f1 b80 pnl0 i,
    R_HeaderProtection_remove packet_len pn_offset parsed f1 b80 pnl0 i ->
    Kspec_HP_remove packet_len pn_offset ->
    events_safe (ev_HeaderProtection_remove packet_len pn_offset parsed f1 b80 pnl0 i)).
Proof. exact crypto_safe_under_contract_all. Qed.
Print Assumptions crypto_safe_under_contract.

(* Does the C code enforce each contract itself?  Per function: safe for ALL arguments, or refuted. *)
Theorem crypto_self_enforcing_or_refuted :
  (if unconditional_AEAD_encrypt then aead_encrypt_safe_all else ~ aead_encrypt_safe_all) /\
  (if unconditional_AEAD_decrypt then aead_decrypt_safe_all else ~ aead_decrypt_safe_all) /\
  (if unconditional_HeaderProtection_apply then hp_apply_safe_all else ~ hp_apply_safe_all) /\
  (if unconditional_HeaderProtection_remove then hp_remove_safe_all else ~ hp_remove_safe_all).
Proof. exact (conj aead_encrypt_status (conj aead_decrypt_status (conj hp_apply_status hp_remove_status))). Qed.
Print Assumptions crypto_self_enforcing_or_refuted.

(* Calls the library itself makes.  max_datagram_size <= 1500: sealing calls meet the contracts. *)
Theorem library_seal_calls_meet_contract_upto_1500 :
  forall mds start H S, seal_call mds start H S -> mds <= 1500 ->
    Kspec_AEAD_encrypt (S - H) /\ Kspec_HP_apply H (S - H + 16) 1.
Proof. exact seal_calls_meet_contract_upto_1500. Qed.
Print Assumptions library_seal_calls_meet_contract_upto_1500.

(* All max_datagram_size >= 1200 and all received packets: the contracts are NOT met by the callers ... *)
Theorem library_calls_meet_contract_refuted :
  (exists mds start H S, seal_call mds start H S /\ ~ (Kspec_AEAD_encrypt (S - H) /\ Kspec_HP_apply H (S - H + 16) 1)) /\
  (exists L e, open_call L e /\ ~ Kspec_HP_remove L e /\ e + 20 > L) /\
  (exists L e, open_call L e /\ ~ Kspec_HP_remove L e /\ e + 4 > 1500).
Proof. exact (conj seal_calls_contract_refuted open_calls_contract_refuted). Qed.
Print Assumptions library_calls_meet_contract_refuted.

(* ... so the calls are safe exactly when the C code rejects contract violations itself (status of this tree). *)
Theorem library_calls_safe_or_refuted :
  (if unconditional_AEAD_encrypt && unconditional_HeaderProtection_apply then seal_calls_safe else ~ seal_calls_safe) /\
  (if unconditional_HeaderProtection_remove then open_calls_safe else ~ open_calls_safe).
Proof. exact (conj library_seal_status library_open_status). Qed.
Print Assumptions library_calls_safe_or_refuted.
