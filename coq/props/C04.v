(* C04  Native helpers never access memory out of bounds.
   Statements only; proofs in proofs/CMemProofs.v, proofs/CMemCalls.v; the memory model
   gen/CMem.v is regenerated from the C sources of the tree under check on every run; the caller model
   gen/CCallers.v is regenerated from crypto.py / packet_builder.py / connection.py / packet.py
   (proofs/CCallersP.v, proofs/CCallersBuilder.v). *)
From Coq Require Import ZArith List Bool.
From AQ Require Import model.CMemBase gen.CMem model.CMemSpec proofs.CMemProofs proofs.CMemCalls.
From AQ Require Import lib.Base gen.C13Consts model.Builder model.CCallBase gen.CCallers model.CCallSpec
  proofs.CCallersP proofs.BuilderProofs proofs.CCallersBuilder.
Local Open Scope Z_scope.

(* Every Buffer method sequence with well-typed arguments, from any state satisfying
   base <= pos <= end: every access in bounds, invariant preserved, rejected calls leave pos unchanged. *)
Theorem buffer_safe : forall ops s, binv s -> Forall op_typed ops ->
  Forall (fun so => binv (fst so) /\ step_ok (fst so) (snd so)) (run_ops s ops).
Proof. exact buffer_safe_seq. Qed.
Print Assumptions buffer_safe.

(* The constructor: safe for all arguments, or refuted by concrete arguments (status of this tree). *)
Theorem buffer_init_safe_or_refuted : if unconditional_Buffer_init then buffer_init_safe_all else ~ buffer_init_safe_all.
Proof. exact buffer_init_status. Qed.
Print Assumptions buffer_init_safe_or_refuted.

Theorem crypto_safe_under_contract :
  (forall data_len associated_len pn parsed i f1 outlen f2 outlen2 f3 f4 f5,
    R_AEAD_encrypt data_len associated_len pn parsed i f1 outlen f2 outlen2 f3 f4 f5 ->
    Kspec_AEAD_encrypt data_len ->
    events_safe (ev_AEAD_encrypt data_len associated_len pn parsed i f1 outlen f2 outlen2 f3 f4 f5)) /\
  (forall data_len associated_len pn parsed i f1 f2 outlen f3 outlen2 f4 f5,
    R_AEAD_decrypt data_len associated_len pn parsed i f1 f2 outlen f3 outlen2 f4 f5 ->
    Kspec_AEAD_decrypt data_len ->
    events_safe (ev_AEAD_decrypt data_len associated_len pn parsed i f1 f2 outlen f3 outlen2 f4 f5)) /\
  (forall header_len payload_len parsed pnl0 f1 b80 i,
    R_HeaderProtection_apply header_len payload_len parsed pnl0 f1 b80 i ->
    Kspec_HP_apply header_len payload_len pnl0 ->
    events_safe (ev_HeaderProtection_apply header_len payload_len parsed pnl0 f1 b80 i)) /\
  (forall packet_len pn_offset parsed f1 b80 pnl0 i,
    R_HeaderProtection_remove packet_len pn_offset parsed f1 b80 pnl0 i ->
    Kspec_HP_remove packet_len pn_offset ->
    events_safe (ev_HeaderProtection_remove packet_len pn_offset parsed f1 b80 pnl0 i)).
Proof. exact crypto_safe_under_contract_all. Qed.
Print Assumptions crypto_safe_under_contract.

(* Does the C code enforce each contract itself?  Per function: safe for ALL arguments, or refuted. *)
Theorem crypto_self_enforcing_or_refuted :
  (if unconditional_AEAD_encrypt then aead_encrypt_safe_all else ~ aead_encrypt_safe_all) /\
  (if unconditional_AEAD_decrypt then aead_decrypt_safe_all else ~ aead_decrypt_safe_all) /\
  (if unconditional_HeaderProtection_apply then hp_apply_safe_all else ~ hp_apply_safe_all) /\
  (if unconditional_HeaderProtection_remove then hp_remove_safe_all else ~ hp_remove_safe_all).
Proof. exact (conj aead_encrypt_status (conj aead_decrypt_status (conj hp_apply_status hp_remove_status))). Qed.
Print Assumptions crypto_self_enforcing_or_refuted.

(* Calls the library itself makes.  max_datagram_size <= 1500: sealing calls meet the contracts. *)
Theorem library_seal_calls_meet_contract_upto_1500 :
  forall mds start H S, seal_call mds start H S -> mds <= 1500 ->
    Kspec_AEAD_encrypt (S - H) /\ Kspec_HP_apply H (S - H + 16) 1.
Proof. exact seal_calls_meet_contract_upto_1500. Qed.
Print Assumptions library_seal_calls_meet_contract_upto_1500.

(* All max_datagram_size >= 1200 and all received packets: the contracts are NOT met by the callers ... *)
Theorem library_calls_meet_contract_refuted :
  (exists mds start H S, seal_call mds start H S /\ ~ (Kspec_AEAD_encrypt (S - H) /\ Kspec_HP_apply H (S - H + 16) 1)) /\
  (exists L e, open_call L e /\ ~ Kspec_HP_remove L e /\ e + 20 > L) /\
  (exists L e, open_call L e /\ ~ Kspec_HP_remove L e /\ e + 4 > 1500).
Proof. exact (conj seal_calls_contract_refuted open_calls_contract_refuted). Qed.
Print Assumptions library_calls_meet_contract_refuted.

(* ... so the calls are safe exactly when the C code rejects contract violations itself (status of this tree). *)
Theorem library_calls_safe_or_refuted :
  (if unconditional_AEAD_encrypt && unconditional_HeaderProtection_apply then seal_calls_safe else ~ seal_calls_safe) /\
  (if unconditional_HeaderProtection_remove then open_calls_safe else ~ open_calls_safe).
Proof. exact (conj library_seal_status library_open_status). Qed.
Print Assumptions library_calls_safe_or_refuted.

(* ===== current tree (length checks of fbe2b66 / f35cfc1 / 4635ed4 in the C code): positive forms ===== *)

(* For ALL argument lengths / offsets, no contract needed: every access of the four entry points is in bounds. *)
Theorem crypto_safe_all_arguments :
  aead_encrypt_safe_all /\ aead_decrypt_safe_all /\ hp_apply_safe_all /\ hp_remove_safe_all.
Proof. exact crypto_safe_all. Qed.
Print Assumptions crypto_safe_all_arguments.

(* Every call is memory safe; inside the contract it returns (unless OpenSSL reports a failure); outside the contract it
   is REJECTED with CryptoError by the helper's own guard: the guards are exactly the contracts. *)
Theorem crypto_self_enforcing : forall pnl0 c, ncall_typed pnl0 c ->
  ncall_safe c /\ (ncall_in_contract pnl0 c -> ncall_returns pnl0 c) /\ (~ ncall_in_contract pnl0 c -> ncall_rejected pnl0 c).
Proof. exact crypto_self_enforcing_all. Qed.
Print Assumptions crypto_self_enforcing.

(* The call sites TRANSLATED from the Python sources produce the argument sizes of the hand-written models. *)
Theorem callers_as_modelled :
  (forall mds tell ps hs cl ae ini dg rt rfs,
     fst (fst (end_packet_site tell ps hs cl ae ini dg rt rfs)) = true ->
     1200 <= mds -> 0 <= ps -> 3 <= hs ->
     ps + end_packet_size tell ps hs cl ae ini dg rt rfs + 16 <= mds ->
     seal_call mds ps (snd (fst (end_packet_site tell ps hs cl ae ini dg rt rfs)))
                      (snd (fst (end_packet_site tell ps hs cl ae ini dg rt rfs)) + snd (end_packet_site tell ps hs cl ae ini dg rt rfs))) /\
  (forall data_len t0 t1 rest pl,
     0 <= t0 -> t0 < t1 -> t1 <= data_len -> 0 <= rest -> data_len <= 65535 ->
     pull_header_post t0 t1 rest data_len pl ->
     open_call (fst (receive_datagram_site data_len t0 t1 pl)) (snd (receive_datagram_site data_len t0 t1 pl))).
Proof. exact callers_as_modelled_all. Qed.
Print Assumptions callers_as_modelled.

(* Every native call the library makes (translated chains _end_packet -> encrypt_packet, receive_datagram ->
   decrypt_packet), for ALL values of the quantities the sizes depend on (any max_datagram_size, any datagram): in bounds. *)
Theorem library_calls_safe :
  (forall tell ps hs cl ae ini dg rt rfs ret, Forall ncall_safe (snd (seal_chain tell ps hs cl ae ini dg rt rfs ret))) /\
  (forall data_len t0 t1 pl ret, Forall ncall_safe (open_chain data_len t0 t1 pl ret)).
Proof. exact library_calls_safe_all. Qed.
Print Assumptions library_calls_safe.

(* Sealing calls of a packet that fits its datagram, max_datagram_size <= 1500: inside the contracts (never rejected). *)
Theorem library_seal_calls_meet_contract :
  forall mds tell ps hs cl ae ini dg rt rfs,
  fst (fst (end_packet_site tell ps hs cl ae ini dg rt rfs)) = true ->
  0 <= ps -> end_packet_pnl0 + 1 <= hs -> mds <= 1500 ->
  ps + end_packet_size tell ps hs cl ae ini dg rt rfs + 16 <= mds ->
  let plen := snd (end_packet_site tell ps hs cl ae ini dg rt rfs) in
  Forall (ncall_in_contract end_packet_pnl0) (snd (seal_chain tell ps hs cl ae ini dg rt rfs (plen + 16))).
Proof. exact seal_chain_in_contract. Qed.
Print Assumptions library_seal_calls_meet_contract.

(* ... where "fits its datagram" is the Buffer check of C13's builder model: every _end_packet that completes. *)
Theorem library_seal_calls_meet_contract_builder : forall c s p s',
  c_mds c <= 1500 -> 0 <= p_start p -> 3 <= p_hdr p ->
  breach c s p = true -> end_packet c s p = (ODone, s') ->
  Forall (ncall_in_contract end_packet_pnl0)
    (snd (seal_chain (b_tell s) (p_start p) (p_hdr p) (c_client c) (p_ackel p) (p_type p =? PT_INITIAL) (b_dgpad s)
                     (p_type p =? PT_ONE_RTT) (remaining_flight_space s) (snd (bsite c s p) + 16))).
Proof. exact builder_seal_calls_in_contract. Qed.
Print Assumptions library_seal_calls_meet_contract_builder.

(* ... in every state the builder reaches from its initial state, for ANY op sequence (API misuse included). *)
Theorem library_seal_calls_meet_contract_reachable : forall c pn ops p s',
  wf_cfg c -> c_mds c <= 1500 ->
  let s := fst (run c (init_st c pn) ops) in
  b_cur s = Some p -> breach c s p = true -> end_packet c s p = (ODone, s') ->
  Forall (ncall_in_contract end_packet_pnl0)
    (snd (seal_chain (b_tell s) (p_start p) (p_hdr p) (c_client c) (p_ackel p) (p_type p =? PT_INITIAL) (b_dgpad s)
                     (p_type p =? PT_ONE_RTT) (remaining_flight_space s) (snd (bsite c s p) + 16))).
Proof. exact reachable_seal_calls_in_contract. Qed.
Print Assumptions library_seal_calls_meet_contract_reachable.

(* C13's builder model and the translation agree on the size handed to encrypt_packet. *)
Theorem builder_model_seals_translated_size : forall c s p m,
  breach c s p = true -> c_cmax c = Some m -> p_start p + bsize c s p <= c_mds c ->
  (fst (end_packet c s p) = OCrypto <-> bsize c s p + 16 > m).
Proof. exact end_packet_crypto_threshold. Qed.
Print Assumptions builder_model_seals_translated_size.

(* Each contract is the weakest one: outside it some access of the function body is out of bounds once the guards are ignored. *)
Theorem contracts_weakest :
  (forall d a pn parsed i f1 outlen f2 f3 f4 f5, len_ok d -> ~ Kspec_AEAD_encrypt d ->
     stripped_oob (ev_AEAD_encrypt d a pn parsed i f1 outlen f2 d f3 f4 f5) = true) /\
  (forall h p parsed pnl0 f1 b80 i, len_ok h -> len_ok p -> 0 <= pnl0 <= 3 -> ~ Kspec_HP_apply h p pnl0 ->
     stripped_oob (ev_HeaderProtection_apply h p parsed pnl0 f1 b80 i) = true) /\
  (forall L e parsed f1 b80 q i, len_ok L -> -2147483648 <= e <= 2147483647 -> 0 <= q <= 3 -> ~ Kspec_HP_remove L e ->
     stripped_oob (ev_HeaderProtection_remove L e parsed f1 b80 q i) = true).
Proof. exact contracts_weakest_all. Qed.
Print Assumptions contracts_weakest.
