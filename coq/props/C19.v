(* C19  asyncio adapter stays consistent under any event-loop schedule (model level; see docs/C19.md).
   fx = the checked tree has the repair of finding F4 (transmit() drains the event queue after sending); the
   harness probes it on the running code.  The adapter theorems hold for both values. *)
From AQ Require Import lib.Base model.Adapter model.Router model.ServerComp proofs.AdapterProofs proofs.RouterProofs proofs.ServerCompProofs proofs.AdapterReaderProofs.
From AQ Require Import gen.C19Shield model.AdapterCancel proofs.AdapterCancelProofs.

(* waiter_exactly_once, part 1: for every sequence of callbacks, API calls and event lists, no step ever
   resolves a future twice (set_result/set_exception never raises InvalidStateError). *)
Theorem waiter_never_resolved_twice : forall fx ops o,
  fst (fst (step fx (run fx st_init ops) o)) <> Some X_INVALID_STATE.
Proof. exact waiter_never_resolved_twice_l. Qed.
Print Assumptions waiter_never_resolved_twice.

(* waiter_exactly_once, part 2: once a datagram / timer callback has processed ConnectionTerminated, every
   future created so far (connect waiter, ping waiters) is resolved. *)
Theorem waiter_all_resolved_at_termination : forall fx ops evs gt etx out s',
  uids_fresh fx st_init ops ->
  let s := run fx st_init ops in
  In (EvTerminated 0) (evq s ++ evs) ->
  step fx s (ORecv evs gt etx) = (None, out, s') ->
  forall i, nth_error (futs s') i <> Some FPending.
Proof. exact waiter_all_resolved_at_termination_l. Qed.
Print Assumptions waiter_all_resolved_at_termination.

Theorem waiter_all_resolved_at_termination_timer : forall fx ops w now evs gt etx out s',
  uids_fresh fx st_init ops ->
  let s := run fx st_init ops in
  In (EvTerminated 0) (evq s ++ evs) ->
  step fx s (OTimer w now evs gt etx) = (None, out, s') ->
  forall i, nth_error (futs s') i <> Some FPending.
Proof. exact waiter_all_resolved_at_termination_timer_l. Qed.
Print Assumptions waiter_all_resolved_at_termination_timer.

(* ... and from then on none is pending ever again: whenever the closed event is set, at any point of any
   schedule, no future is pending (with C19-fix-1; before the fix a ping() issued after termination stayed
   pending forever -- docs/C19.md F1). *)
Theorem no_waiter_pending_once_closed : forall fx ops, uids_fresh fx st_init ops ->
  closed (run fx st_init ops) = true -> forall i, nth_error (futs (run fx st_init ops)) i <> Some FPending.
Proof. exact no_waiter_pending_once_closed_l. Qed.
Print Assumptions no_waiter_pending_once_closed.

(* every waiter "created" after termination finishes immediately: ping() raises ConnectionError without
   creating a future or touching the state, wait_connected() returns or raises ConnectionError, a reader
   from create_stream() is already at EOF *)
Theorem api_after_termination : forall fx s, closed s = true ->
  (forall uid gt e, step fx s (OPing uid gt e) = (Some X_CONNECTION_ERROR, [], s)) /\
  (cwait s = None -> step fx s OWaitConnected = (if connected s then (None, [1], s) else (Some X_CONNECTION_ERROR, [], s))) /\
  (forall sid out s', step fx s (OCreateStream sid) = (None, out, s') ->
     exists r, rd_get sid (readers s') = Some r /\ rd_eof r = true /\ rd_buf r = []).
Proof. exact api_after_termination_l. Qed.
Print Assumptions api_after_termination.

(* the loop holds exactly the timer handle _timer refers to (never two), with deadline _timer_at, and
   _handle_timer never runs with _timer_at = None *)
Theorem timer_single : forall fx ops,
  let s := run fx st_init ops in
  ltimers s = match timer s with Some w => [w] | None => [] end /\
  (forall w, timer s = Some w -> timer_at s = Some w) /\
  forall o, fst (fst (step fx s o)) <> Some X_TIMER_NONE.
Proof. exact timer_single_l. Qed.
Print Assumptions timer_single.

(* transmit_not_lost: while written stream data has not been followed by transmit(), a call_soon(transmit)
   handle is pending in the loop, and running it transmits (with the F4 repair a handler may raise during the
   drain that follows the sending; the data has left by then) *)
Theorem transmit_not_lost : forall fx ops,
  let s := run fx st_init ops in
  (dirty s = true -> soon s <> O) /\
  (soon s <> O -> forall gt e, exists x out s', step fx s (ORunSoon gt e) = (x, out, s') /\ dirty s' = false /\
                                              (fx = false -> x = None)).
Proof. exact transmit_not_lost_l. Qed.
Print Assumptions transmit_not_lost.

(* routing_invariant: with fresh generated connection ids, the table routes c to p exactly when p is live
   and owns c (first-datagram cid, initial host cid, issued and not retired) *)
Theorem routing_invariant : forall ops, fresh rst_init ops ->
  forall c p, t_get c (tbl (rrun rst_init ops)) = Some p <-> In (c, p) (lrun rst_init [] ops).
Proof. exact routing_invariant_l. Qed.
Print Assumptions routing_invariant.

Theorem no_entry_after_terminated : forall ops p c,
  let s := rrun rst_init ops in
  t_get c (tbl (snd (rstep s (RTerminated p)))) <> Some p.
Proof. exact no_entry_after_terminated_l. Qed.
Print Assumptions no_entry_after_terminated.

Theorem no_entry_stays_gone : forall ops s p, NoDup (keys (tbl s)) -> p < nprot s -> Forall (silent p) ops ->
  (forall c, t_get c (tbl s) <> Some p) -> forall c, t_get c (tbl (rrun s ops)) <> Some p.
Proof. exact stays_gone. Qed.
Print Assumptions no_entry_stays_gone.

(* exactly when the assert/del in _connection_id_retired fails *)
Theorem retire_ok_iff : forall s p c,
  fst (fst (rstep s (RRetired p c))) = None <-> t_get c (tbl s) = Some p.
Proof. exact retire_ok_iff_routed. Qed.
Print Assumptions retire_ok_iff.

Theorem retire_keyerror_iff : forall s p c,
  fst (fst (rstep s (RRetired p c))) = Some RX_KEYERROR <-> t_get c (tbl s) = None.
Proof. exact retire_keyerror_iff_absent. Qed.
Print Assumptions retire_keyerror_iff.

Theorem retire_owned_never_fails : forall ops p c, fresh rst_init ops ->
  In (c, p) (lrun rst_init [] ops) ->
  fst (fst (rstep (rrun rst_init ops) (RRetired p c))) = None.
Proof. exact retire_owned_ok_l. Qed.
Print Assumptions retire_owned_never_fails.

(* a connection announcing the retirement of a cid it never announced as issued: KeyError *)
Theorem retire_unannounced_refuted :
  exists ops p c, fresh rst_init ops /\ ~ In (c, p) (lrun rst_init [] ops) /\
                  fst (fst (rstep (rrun rst_init ops) (RRetired p c))) = Some RX_KEYERROR.
Proof. exact retire_unannounced_refuted_l. Qed.
Print Assumptions retire_unannounced_refuted.

(* retry: state is created only for a non-empty token that validates for the sender's address, i.e. (oracle
   hypothesis: validate accepts only minted tokens) a token minted for exactly that address *)
Theorem retry_state_only_for_valid_token :
  forall (mk : Z -> Z -> Z -> Z) (validate : Z -> Z -> option (Z * Z)),
  (forall a t o r, validate a t = Some (o, r) -> t = mk a o r) ->
  forall s d, d_retry d = true -> d_tokres d = validate (d_addr d) (d_token d) ->
  created s d = true ->
  d_token d <> 0 /\ exists o r, d_token d = mk (d_addr d) o r.
Proof. exact retry_state_only_for_valid_token_l. Qed.
Print Assumptions retry_state_only_for_valid_token.

(* ---- the composition QuicServer + its protocols (coq/model/ServerComp.v), finding F4 and its repair ---- *)

(* announced_cid_routable (tree WITH the repair, fx = true): in every reachable state of the composition, when a
   step that runs transmit() of protocol p (datagram_received, _handle_timer, the deferred transmit, transmit(),
   close(), ping()) returns normally, every connection ID p has put into a NEW_CONNECTION_ID frame handed to the
   transport -- not seen retired by the server, p not terminated, server not closed -- is routed to p.
   sfresh: cids named by ConnectionIdIssued events / registered at creation do not collide with cids announced by
   or waiting in ANOTHER protocol (os.urandom; example sfresh_example in ServerCompProofs.v). *)
Theorem announced_cid_routable : forall ops o out s',
  sfresh true sst_init (ops ++ [o]) ->
  let s := srun true sst_init ops in
  sstep true s o = (None, out, s') -> s_closed s' = false ->
  forall p, transmitter s o = Some p ->
  forall c, In (c, p) (s_ann s') -> t_get c (s_tbl s') = Some p.
Proof. exact announced_cid_routable_l. Qed.
Print Assumptions announced_cid_routable.

(* both trees: an announced connection ID is routed, or its ConnectionIdIssued event is still waiting inside the
   protocol's connection (without the repair that is where it stays until the next callback: F4; with the repair
   only after a handler raised) *)
Theorem announced_cid_routed_or_queued : forall fx ops, sfresh fx sst_init ops ->
  let s := srun fx sst_init ops in
  s_closed s = false ->
  forall c p, In (c, p) (s_ann s) ->
    t_get c (s_tbl s) = Some p \/ exists a, p_get p (s_prots s) = Some a /\ In c (issued_cids (evq a)).
Proof. exact announced_cid_routed_or_queued_l. Qed.
Print Assumptions announced_cid_routed_or_queued.

(* F4 at model level: without the repair announced_cid_routable fails on the first flight of a connection
   (protocol 0 announces cid 7, its transmit() returns, 7 is not routed); same trace with the repair: routed *)
Theorem announced_cid_unroutable_without_repair :
  sfresh false sst_init f4_trace /\
  let s := srun false sst_init f4_trace in
  s_closed s = false /\ In (7, 0) (s_ann s) /\ t_get 7 (s_tbl s) = None /\
  t_get 7 (s_tbl (srun true sst_init f4_trace)) = Some 0.
Proof. exact announced_cid_unroutable_without_repair_l. Qed.
Print Assumptions announced_cid_unroutable_without_repair.

(* reader_prefix_then_eof: for every schedule and both trees, with lg the history of the run (the events
   _process_events() popped, in order, handled or raised, and the create_stream() calls): the reader of stream sid
   holds exactly what the specification computes from lg alone -- the concatenation, in order, of the data of the
   StreamDataReceived(sid) events handled since the reader was created; at EOF iff an end marker or
   ConnectionTerminated was handled (or it was created after termination) --, and no event fed bytes to a reader
   already at EOF (rs_bad = false: such a feed_data raises and feeds nothing). *)
Theorem reader_prefix_then_eof : forall fx ops sid,
  let lg := fst (hrun fx st_init [] ops) in
  let s := run fx st_init ops in
  view sid s = rs_rd (spec sid lg) /\ rs_bad (spec sid lg) = false /\ rs_term (spec sid lg) = closed s.
Proof. exact reader_prefix_then_eof_l. Qed.
Print Assumptions reader_prefix_then_eof.

(* ---------- cancellation of the application coroutines that await the adapter's waiters ----------------------
   model/AdapterCancel.v: a schedule is a list of adapter steps interleaved AT ANY POSITION with `CCancel i` (the task
   awaiting future i -- ping waiter or connected waiter -- is cancelled: task.cancel(), wait_for / timeout deadline),
   `CCancelClosed` (a task in wait_closed()) and `CResume i`.  `waiters_shielded` (gen/C19Shield.v) is read from the
   source of the checked tree by tools/gen/c19_shield.py: every await of a registered waiter is
   `await asyncio.shield(waiter)` and no code outside the event loop touches the waiter tables.  The proofs are
   about `true`: on a tree that awaits a registered waiter bare, or pops it in a `finally`, they no longer check. *)

(* waiter_never_resolved_twice over schedules with cancellation steps: no step raises InvalidStateError *)
Theorem waiter_never_resolved_twice_under_cancellation : forall fx cops o,
  fst (fst (cstep waiters_shielded fx (crun waiters_shielded fx cinit cops) o)) <> Some X_INVALID_STATE.
Proof. exact cancel_never_resolved_twice_l. Qed.
Print Assumptions waiter_never_resolved_twice_under_cancellation.

(* waiter_all_resolved_at_termination over schedules with cancellation steps (datagram / timer callback) *)
Theorem waiter_all_resolved_at_termination_under_cancellation : forall fx cops evs gt etx out c',
  uids_fresh fx st_init (erase cops) ->
  let c := crun waiters_shielded fx cinit cops in
  In (EvTerminated 0) (evq (base c) ++ evs) ->
  cstep waiters_shielded fx c (CBase (ORecv evs gt etx)) = (None, out, c') ->
  forall i, nth_error (futs (base c')) i <> Some FPending.
Proof. exact cancel_all_resolved_at_termination_l. Qed.
Print Assumptions waiter_all_resolved_at_termination_under_cancellation.

Theorem waiter_all_resolved_at_termination_timer_under_cancellation : forall fx cops w now evs gt etx out c',
  uids_fresh fx st_init (erase cops) ->
  let c := crun waiters_shielded fx cinit cops in
  In (EvTerminated 0) (evq (base c) ++ evs) ->
  cstep waiters_shielded fx c (CBase (OTimer w now evs gt etx)) = (None, out, c') ->
  forall i, nth_error (futs (base c')) i <> Some FPending.
Proof. exact cancel_all_resolved_at_termination_timer_l. Qed.
Print Assumptions waiter_all_resolved_at_termination_timer_under_cancellation.

Theorem no_waiter_pending_once_closed_under_cancellation : forall fx cops, uids_fresh fx st_init (erase cops) ->
  closed (base (crun waiters_shielded fx cinit cops)) = true ->
  forall i, nth_error (futs (base (crun waiters_shielded fx cinit cops))) i <> Some FPending.
Proof. exact cancel_no_waiter_pending_once_closed_l. Qed.
Print Assumptions no_waiter_pending_once_closed_under_cancellation.

(* cancellation_is_harmless: insert cancellation steps anywhere into any schedule `ops` of the adapter: every adapter
   step returns / raises what it did without them and leaves the same adapter state (hence the same state of every
   future, after every step), and the inserted steps raise nothing and leave the adapter untouched *)
Theorem cancellation_is_harmless : forall fx ops cops, erase cops = ops ->
  ctrace waiters_shielded fx cinit cops = trace fx st_init ops /\
  base (crun waiters_shielded fx cinit cops) = run fx st_init ops /\
  (forall c o, (forall b, o <> CBase b) ->
     fst (fst (cstep waiters_shielded fx c o)) = None /\ snd (fst (cstep waiters_shielded fx c o)) = [] /\
     base (snd (cstep waiters_shielded fx c o)) = base c).
Proof. exact cancellation_is_harmless_l. Qed.
Print Assumptions cancellation_is_harmless.

(* a cancelled caller gets CancelledError and nothing else; any other caller gets the outcome its future has in
   the schedule without the cancellations *)
Theorem caller_outcome_under_cancellation : forall fx cops i,
  caller_outcome (crun waiters_shielded fx cinit cops) i =
  if has_cancel i cops then OCancelled else outcome_of (nth_error (futs (run fx st_init (erase cops))) i).
Proof. exact caller_outcome_l. Qed.
Print Assumptions caller_outcome_under_cancellation.

(* the unshielded variant (`await waiter`, with or without `finally: _ping_waiters.pop(uid, None)`):
   [ping a; ping b; cancel a's caller; ConnectionTerminated] -> set_exception on a cancelled future: InvalidStateError
   escapes the callback, b's waiter stays pending and registered, the closed event is not set; the same schedule under
   the shield discipline: no exception, both futures failed, table empty, closed set, a's caller cancelled, b's caller
   ConnectionError *)
Theorem unshielded_cancellation_refuted : forall fx,
  let r := cstep false fx (crun false fx cinit unshielded_witness) terminate_op in
  let r' := cstep true fx (crun true fx cinit unshielded_witness) terminate_op in
  (fst (fst r) = Some X_INVALID_STATE /\
   closed (base (snd r)) = false /\
   nth_error (futs (base (snd r))) 1 = Some FPending /\
   pings (base (snd r)) <> []) /\
  (fst (fst r') = None /\
   closed (base (snd r')) = true /\
   futs (base (snd r')) = [FErr; FErr] /\
   pings (base (snd r')) = [] /\
   caller_outcome (snd r') 0 = OCancelled /\ caller_outcome (snd r') 1 = OConnectionError).
Proof. exact unshielded_cancellation_refuted_l. Qed.
Print Assumptions unshielded_cancellation_refuted.

(* finding F6 (docs/C19.md): after a wait_connected() caller gave up -- its waiter stays registered, nobody awaits it --
   the next wait_connected() on the still-open, not yet connected protocol ends with AssertionError ("already awaiting
   connected"): a connect waiter that finishes with neither success nor a connection error *)
Theorem wait_connected_after_cancel_refuted : forall sh fx,
  let c := crun sh fx cinit wc_after_cancel_witness in
  caller_outcome c 0 = OCancelled /\
  closed (base c) = false /\ connected (base c) = false /\
  fst (fst (cstep sh fx c (CBase OWaitConnected))) = Some X_ALREADY_AWAITING.
Proof. exact wait_connected_after_cancel_refuted_l. Qed.
Print Assumptions wait_connected_after_cancel_refuted.
