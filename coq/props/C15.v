From AQ Require Import lib.Base model.H3Validate proofs.H3ValidateSpec proofs.H3ValidateProofs.
Theorem validate_outcomes : forall k hs, (exists ecl, validate k hs = VOk ecl) \/ validate k hs = PErr H3_MESSAGE_ERROR.
Proof. exact validate_outcomes_proof. Qed.
Print Assumptions validate_outcomes.
Theorem validated_implies_wellformed : forall k hs ecl, validate k hs = VOk ecl -> wellformed k hs.
Proof. exact validated_implies_wellformed_proof. Qed.
Print Assumptions validated_implies_wellformed.
