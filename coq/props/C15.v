From AQ Require Import lib.Base model.H3Validate proofs.H3ValidateSpec proofs.H3ValidateProofs proofs.H3StreamProofs.
Theorem validate_outcomes : forall k hs, (exists ecl, validate k hs = VOk ecl) \/ validate k hs = PErr H3_MESSAGE_ERROR.
Proof. exact validate_outcomes_proof. Qed.
Print Assumptions validate_outcomes.
Theorem validated_implies_wellformed : forall k hs ecl, validate k hs = VOk ecl -> wellformed k hs.
Proof. exact validated_implies_wellformed_proof. Qed.
Print Assumptions validated_implies_wellformed.
Theorem content_length_matches : forall c ops evs r, stream_run c sstate_init ops = (evs, r) -> content_length_respected evs.
Proof. exact content_length_matches_proof. Qed.
Print Assumptions content_length_matches.
Theorem content_length_mismatch_is_message_error : forall A (st : sstate) (k : vres A) e,
  s_ecl st = Some e -> s_cl st <> e -> check_content_length st k = PErr H3_MESSAGE_ERROR.
Proof. exact H3StreamProofs.content_length_mismatch_is_message_error. Qed.
Print Assumptions content_length_mismatch_is_message_error.
