From AQ Require Import lib.Base model.H3Validate proofs.H3ValidateSpec proofs.H3ValidateProofs proofs.H3StreamProofs.
Theorem validate_outcomes : forall k hs, (exists ecl, validate k hs = VOk ecl) \/ validate k hs = PErr H3_MESSAGE_ERROR.
Proof. exact validate_outcomes_proof. Qed.
Print Assumptions validate_outcomes.
Theorem validated_implies_wellformed : forall k hs ecl, validate k hs = VOk ecl -> wellformed k hs.
Proof. exact validated_implies_wellformed_proof. Qed.
Print Assumptions validated_implies_wellformed.
Theorem content_length_matches : forall c ops evs r, stream_run c sstate_init ops = (evs, r) -> content_length_respected evs.
Proof. exact content_length_matches_proof. Qed.
Print Assumptions content_length_matches.
Theorem content_length_mismatch_is_message_error : forall A (st : sstate) (k : vres A) e,
  s_ecl st = Some e -> s_cl st <> e -> check_content_length st k = PErr H3_MESSAGE_ERROR.
Proof. exact H3StreamProofs.content_length_mismatch_is_message_error. Qed.
Print Assumptions content_length_mismatch_is_message_error.
From AQ Require Import model.H3Parse model.H3Events proofs.H3EventsSpec proofs.H3EventsProofs proofs.H3EventsLoop proofs.H3EventsConn proofs.H3EventsThm.
Theorem events_respect_spec : forall fx hdrs client dgram tr,
  fx_pushblock fx = true -> trace_ok (map fst tr) ->
  all_ok client hdrs [] (events_of (h3_run fx hdrs (conn_init client dgram) tr)).
Proof. exact events_respect_spec_proof. Qed.
Print Assumptions events_respect_spec.
Theorem events_wellformed : forall fx hdrs client dgram tr,
  fx_pushblock fx = true -> trace_ok (map fst tr) ->
  forall pre sid p hid fin post,
  events_of (h3_run fx hdrs (conn_init client dgram) tr) = pre ++ H3Parse.EHeaders sid p hid fin :: post ->
  wellformed (kind_at client sid pre) (hdrs hid) /\ headers_count sid pre <= 1.
Proof. exact events_wellformed_proof. Qed.
Print Assumptions events_wellformed.
Theorem push_promises_wellformed : forall fx hdrs client dgram tr,
  fx_pushblock fx = true -> trace_ok (map fst tr) ->
  forall pre sid pid hid post,
  events_of (h3_run fx hdrs (conn_init client dgram) tr) = pre ++ EPush sid pid hid :: post ->
  client = true /\ wellformed KPushPromise (hdrs hid).
Proof. exact push_promises_wellformed_proof. Qed.
Print Assumptions push_promises_wellformed.
Theorem events_content_length : forall fx hdrs client dgram tr,
  fx_pushblock fx = true -> trace_ok (map fst tr) ->
  forall pre e post hid n,
  events_of (h3_run fx hdrs (conn_init client dgram) tr) = pre ++ e :: post -> ev_fin e = true ->
  first_block (ev_sid e) (pre ++ [e]) = Some hid -> declares (hdrs hid) n ->
  body_of (ev_sid e) (pre ++ [e]) = n.
Proof. exact events_content_length_proof. Qed.
Print Assumptions events_content_length.
Theorem data_only_after_headers : forall fx hdrs client dgram tr,
  fx_pushblock fx = true -> trace_ok (map fst tr) ->
  forall pre sid p d fin post,
  events_of (h3_run fx hdrs (conn_init client dgram) tr) = pre ++ H3Parse.EData sid p d fin :: post ->
  d <> [] -> headers_count sid pre = 1.
Proof. exact data_only_after_headers_proof. Qed.
Print Assumptions data_only_after_headers.
Theorem trailers_after_headers : forall fx hdrs client dgram tr,
  fx_pushblock fx = true -> trace_ok (map fst tr) ->
  forall pre sid p hid fin post,
  events_of (h3_run fx hdrs (conn_init client dgram) tr) = pre ++ H3Parse.EHeaders sid p hid fin :: post ->
  wellformed (kind_at client sid pre) (hdrs hid) /\ headers_count sid pre <= 1.
Proof. exact events_wellformed_proof. Qed.
Print Assumptions trailers_after_headers.
Theorem h3parse_refines_stream_model : forall hdrs client fx Q st0 data fin g evs st',
  sinv client g st0 -> cur_ok st0 ->
  rq_recv fx (with_validators hdrs Q) client st0 data fin = RVal evs st' ->
  chain hdrs client (s_id st0) g evs /\ sinv client (gl hdrs g evs) st' /\ cur_ok st'
  /\ s_id st' = s_id st0 /\ H3Parse.s_ended st' = H3Parse.s_ended st0 || fin.
Proof. exact H3EventsLoop.rq_recv_post. Qed.
Print Assumptions h3parse_refines_stream_model.
Theorem malformed_headers_closes : forall hdrs fx Q client data st ended hid,
  H3Parse.s_hstate st = 0 \/ H3Parse.s_hstate st = 1 ->
  decoded Q data st = DHeaders hid ->
  ~ wellformed (if H3Parse.s_hstate st =? 0 then rolekind client else KTrailers) (hdrs hid) ->
  handle_rp_frame fx (with_validators hdrs Q) client 1 data st ended = HErr H3Parse.H3_MESSAGE_ERROR.
Proof. exact H3EventsThm.malformed_headers_closes. Qed.
Print Assumptions malformed_headers_closes.
Theorem malformed_push_promise_closes : forall hdrs fx Q client d pid rest st ended hid,
  client = true -> s_push st = None -> pull_uint_var d = Some (pid, rest) ->
  o_dec Q (s_id st) rest = DHeaders hid -> ~ wellformed KPushPromise (hdrs hid) ->
  handle_rp_frame fx (with_validators hdrs Q) client 5 (Some d) st ended = HErr H3Parse.H3_MESSAGE_ERROR.
Proof. exact H3EventsThm.malformed_push_promise_closes. Qed.
Print Assumptions malformed_push_promise_closes.
Theorem content_length_mismatch_closes : forall fx client O t data st evs st1,
  fx_endmark fx = true ->
  handle_rp_frame fx O client t data st false = HVal evs st1 -> check_cl st1 = false ->
  handle_rp_frame fx O client t data st true = HErr H3Parse.H3_MESSAGE_ERROR.
Proof. exact H3EventsThm.mismatch_at_end_closes. Qed.
Print Assumptions content_length_mismatch_closes.
Theorem data_out_of_order_is_frame_unexpected : forall fx client O data st ended,
  H3Parse.s_hstate st <> 1 -> handle_rp_frame fx O client 0 data st ended = HErr H3_FRAME_UNEXPECTED.
Proof. exact H3EventsThm.data_before_headers_or_after_trailers. Qed.
Print Assumptions data_out_of_order_is_frame_unexpected.
Theorem headers_after_trailers_is_frame_unexpected : forall fx client O data st ended,
  H3Parse.s_hstate st = 2 -> handle_rp_frame fx O client 1 data st ended = HErr H3_FRAME_UNEXPECTED.
Proof. exact H3EventsThm.headers_after_trailers. Qed.
Print Assumptions headers_after_trailers_is_frame_unexpected.
Theorem end_marker_without_headers :
  exists tr, trace_ok (map fst tr) /\
    events_of (h3_run all_fixed ex_hdrs (conn_init false true) tr) = [H3Parse.EData 0 None [] true].
Proof. exact end_marker_without_headers_proof. Qed.
Print Assumptions end_marker_without_headers.
From AQ Require Import proofs.H3EventsAbs.
Theorem handler_refines_stream_model_data : forall hdrs fx O client d st ended,
  abs_hres hdrs (handle_rp_frame fx O client 0 (Some d) st ended) = Some (handle_data (abs_state st) (Zlen d) ended).
Proof. exact handler_refines_data. Qed.
Print Assumptions handler_refines_stream_model_data.
Theorem handler_refines_stream_model_headers : forall hdrs fx Q client data st ended hid,
  0 <= H3Parse.s_hstate st <= 2 -> (H3Parse.s_hstate st = 0 -> s_expect st = None) ->
  (match data with Some d => o_dec Q (s_id st) d | None => o_resume Q (s_id st) end) = DHeaders hid ->
  abs_hres hdrs (handle_rp_frame fx (with_validators hdrs Q) client 1 data st ended)
  = Some (handle_headers client (abs_state st) (hdrs hid) ended).
Proof. exact handler_refines_headers. Qed.
Print Assumptions handler_refines_stream_model_headers.
Theorem delivery_refines_ofin : forall hdrs fx Q client, fx_trunc fx = true -> forall st, at_op st ->
  abs_rres hdrs (rq_recv fx (with_validators hdrs Q) client st [] true) = Some (stream_step client (abs_state st) OFin).
Proof. exact sim_fin. Qed.
Print Assumptions delivery_refines_ofin.
Theorem delivery_refines_odatacont : forall hdrs fx Q client, fx_trunc fx = true ->
  forall st r data fin, at_op st -> s_cur st = Some (0, r) -> 0 < r -> Zlen data <= r ->
  abs_rres hdrs (rq_recv fx (with_validators hdrs Q) client st data fin)
  = Some (stream_step client (abs_state st) (ODataCont (Zlen data) fin)).
Proof. exact sim_data_cont. Qed.
Print Assumptions delivery_refines_odatacont.
Theorem delivery_refines_odatastart : forall hdrs fx Q client, fx_trunc fx = true ->
  forall st data size payload fin, at_op st -> s_cur st = None ->
  rq_hdr st data = Some (0, size, payload) -> is_nil data = false -> Zlen payload <= size ->
  abs_rres hdrs (rq_recv fx (with_validators hdrs Q) client st data fin)
  = Some (stream_step client (abs_state st) (ODataStart size (Zlen payload) fin)).
Proof. exact sim_data_start. Qed.
Print Assumptions delivery_refines_odatastart.
Theorem delivery_refines_oheaders : forall hdrs fx Q client, fx_trunc fx = true ->
  forall st data n block fin hid, at_op st -> s_cur st = None ->
  0 <= H3Parse.s_hstate st <= 2 -> (H3Parse.s_hstate st = 0 -> s_expect st = None) ->
  rq_hdr st data = Some (1, n, block) -> is_nil data = false -> Zlen block = n ->
  o_dec Q (s_id st) block = DHeaders hid ->
  abs_rres hdrs (rq_recv fx (with_validators hdrs Q) client st data fin)
  = Some (stream_step client (abs_state st) (OHeaders (hdrs hid) fin)).
Proof. exact sim_headers. Qed.
Print Assumptions delivery_refines_oheaders.
