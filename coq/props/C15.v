From AQ Require Import lib.Base model.H3Validate.
Theorem placeholder : True.
Proof. exact I. Qed.
Print Assumptions placeholder.
