(* C18  Connection-ID lifecycle honours the peer's instructions.
   Only statements here; proofs live in coq/proofs/CidP.v, the model in coq/model/Cid.v.

   [reach c l s x] (proofs/CidP.v): s is reachable from a fresh connection of role c (true = client) whose
   handshake completed with the peer advertising active_connection_id_limit = l, by ANY sequence of: 1-RTT packets
   addressed to any host ID carrying NEW_CONNECTION_ID (any sequence number, retire_prior_to, length; duplicates,
   reordering) / RETIRE_CONNECTION_ID (any sequence number) frames, local change_connection_id(), peer DCID
   switches, datagrams_to_send, and delivery outcomes ACKED / LOST of the frames written (a RETIRE outcome only for
   a frame really outstanding -- premise from C08).  x = an IndexError escaped receive_datagram on the way. *)
From AQ Require Import lib.Base gen.C18Consts model.Cid proofs.CidP.

(* dcid_not_retired.  As long as no IndexError escaped: the current destination ID and every spare one are at or
   above the largest retire_prior_to processed, so the next packet written is addressed to such an ID. *)
Theorem dcid_not_retired : forall c l s, reach c l s false ->
  rpt s <= cur s /\ Forall (fun q => rpt s <= q) (avail s) /\ rpt s <= fst (fst (fst (send s))).
Proof. exact dcid_not_retired_l. Qed.
Print Assumptions dcid_not_retired.

(* ... `_consume_peer_cid` pops an empty list EXACTLY when a well-formed NEW_CONNECTION_ID(q, r) has r above the
   current and every spare sequence number while q was seen before ... *)
Theorem consume_empty_iff_thm : forall c l s q r n, reach c l s false ->
  (fst (recv_newcid s q r n) = OExnIndex <->
   (closed s = None /\ pkt s <> None /\ (n =? 0) || (n >? CONNECTION_ID_MAX_SIZE) = false /\ r <= q /\
    cur s < r /\ (forall a, In a (avail s) -> a < r) /\ In q (seen s))).
Proof. exact consume_empty_iff. Qed.
Print Assumptions consume_empty_iff_thm.

(* ... i.e. q repeats a sequence number that was already abandoned; no other operation raises. *)
Theorem consume_empty_repeats_retired_thm : forall c l s q r n, reach c l s false ->
  fst (recv_newcid s q r n) = OExnIndex -> In q (pend s) \/ In q (outs s) \/ In q (ackd s).
Proof. exact consume_empty_repeats_retired. Qed.
Print Assumptions consume_empty_repeats_retired_thm.

Theorem only_newcid_raises_thm : forall s o, is_exn (fst (step s o)) = true -> exists q r n, o = RecvNewCid q r n.
Proof. exact only_newcid_raises. Qed.
Print Assumptions only_newcid_raises_thm.

(* REFUTED as stated (candidate finding F1): a reachable, not closing state whose current destination ID -- the one
   the next packet is sent to -- is below the processed retire_prior_to, although its retirement is queued. *)
Theorem dcid_not_retired_refuted :
  exists s x, reach true 8 s x /\ closed s = None /\ x = true /\
    cur s < rpt s /\ fst (fst (fst (send s))) < rpt s /\ In (cur s) (pend s).
Proof. exact dcid_not_retired_refuted_l. Qed.
Print Assumptions dcid_not_retired_refuted.

(* peer_ids_bounded: unless the connection is closing, current + spare peer IDs never exceed the advertised limit;
   a NEW_CONNECTION_ID that is accepted leaves at most min(4 * limit, MAX_PENDING_RETIRES) retirements pending, and
   one that would leave more IDs than the limit is answered with a connection error. *)
Theorem peer_ids_bounded : forall c l s x, reach c l s x -> closed s = None ->
  1 + Zlen (avail s) <= LOCAL_ACTIVE_CID_LIMIT.
Proof. exact peer_ids_bounded_l. Qed.
Print Assumptions peer_ids_bounded.

Theorem newcid_accepted_bounds : forall s q r n, fst (recv_newcid s q r n) = OOk ->
  1 + Zlen (avail (snd (recv_newcid s q r n))) <= LOCAL_ACTIVE_CID_LIMIT /\
  Zlen (pend (snd (recv_newcid s q r n))) <= Z.min (LOCAL_ACTIVE_CID_LIMIT * PENDING_RETIRES_FACTOR) MAX_PENDING_RETIRES.
Proof. exact newcid_ok_bounds. Qed.
Print Assumptions newcid_accepted_bounds.

Theorem newcid_over_limit_is_error_thm : forall s q r n, closed s = None ->
  LOCAL_ACTIVE_CID_LIMIT < 1 + Zlen (avail (snd (recv_newcid s q r n))) ->
  fst (recv_newcid s q r n) = OIgn \/ exists code, fst (recv_newcid s q r n) = OQErr code.
Proof. exact newcid_over_limit_is_error. Qed.
Print Assumptions newcid_over_limit_is_error_thm.

(* issued_bounded + retired_replaced: after the handshake the endpoint always has exactly min(8, peer limit) host
   IDs (so never more than the peer allows, and a retired one is replaced within the same frame handler) ... *)
Theorem issued_bounded : forall c l s x, 1 <= l -> reach c l s x ->
  Zlen (hosts s) = Z.min REPLENISH_CAP l /\ Zlen (hosts s) <= l.
Proof. exact issued_bounded_l. Qed.
Print Assumptions issued_bounded.

(* ... and every host ID not yet announced is announced by the next datagrams_to_send. *)
Theorem retired_replaced_announced : forall s h, closed s = None -> In h (hosts s) -> h_sent h = false ->
  In (h_seq h) (snd (fst (fst (send s)))) /\ Forall (fun h' => h_sent h' = true) (hosts (snd (send s))).
Proof. exact unsent_are_announced. Qed.
Print Assumptions retired_replaced_announced.

(* issued_accepted: a packet addressed to any host ID still held passes the destination-ID check; an ID the peer
   retired is not held any more. *)
Theorem issued_accepted : forall s h, closed s = None -> In h (hosts s) -> fst (recv_packet s (h_seq h)) = OOk.
Proof. exact issued_accepted_l. Qed.
Print Assumptions issued_accepted.

Theorem retired_not_held : forall c l s x q, 1 <= l -> reach c l s x ->
  fst (step s (RecvRetire q)) = OOk -> has_host q (hosts (snd (step s (RecvRetire q)))) = false.
Proof. exact retired_not_accepted. Qed.
Print Assumptions retired_not_held.

(* retirement_announced, PARTIAL: every sequence number the endpoint ADOPTED is the current one, spare, pending
   retirement, in an outstanding RETIRE frame, or acknowledged; LOST re-queues; datagrams_to_send writes all. *)
Theorem retirement_announced_partial : forall c l s x q, reach c l s x -> In q (seen s) ->
  q = cur s \/ In q (avail s) \/ In q (pend s) \/ In q (outs s) \/ In q (ackd s).
Proof. exact retirement_accounted. Qed.
Print Assumptions retirement_announced_partial.

Theorem lost_retire_requeued : forall s q, In q (pend (retire_delivery s q false)).
Proof. exact lost_requeued. Qed.
Print Assumptions lost_retire_requeued.

Theorem pending_retires_written : forall s, closed s = None ->
  snd (fst (send s)) = pend s /\ pend (snd (send s)) = [] /\ forall q, In q (pend s) -> In q (outs (snd (send s))).
Proof. exact pending_all_written. Qed.
Print Assumptions pending_retires_written.

(* REFUTED for every RECEIVED sequence number (candidate finding F2): NEW_CONNECTION_ID(seq 1) arriving after
   retire_prior_to = 2 was processed is dropped silently -- never retired (RFC 9000 5.1.2 requires RETIRE). *)
Theorem retirement_announced_refuted :
  exists s q, reach true 8 s false /\ closed s = None /\ In q (recvd s) /\ q < rpt s /\
    q <> cur s /\ ~ In q (avail s) /\ ~ In q (pend s) /\ ~ In q (outs s) /\ ~ In q (ackd s).
Proof. exact retirement_announced_refuted_l. Qed.
Print Assumptions retirement_announced_refuted.

(* REFUTED (candidate finding F3): the peer can retire a host ID whose NEW_CONNECTION_ID was never written; the
   endpoint emits ConnectionIdRetired for an ID it never announced with ConnectionIdIssued. *)
Theorem retired_event_without_issued_refuted :
  exists s q, reach false 8 s false /\ closed s = None /\ In q (retiredev s) /\ ~ In q (issued s).
Proof. exact retired_event_without_issued_l. Qed.
Print Assumptions retired_event_without_issued_refuted.

(* F1 needs a misbehaving peer: [reachH c l s x H] (proofs/CidP.v) is [reach] restricted to peers that never send two
   NEW_CONNECTION_ID frames with the same sequence number and different retire_prior_to (retransmissions are
   verbatim copies, RFC 9000 19.15).  For such peers no operation ever raises, hence dcid_not_retired holds
   unconditionally. *)
Theorem verbatim_peer_never_raises : forall c l s x H, reachH c l s x H -> x = false.
Proof. exact verbatim_reach_no_exn. Qed.
Print Assumptions verbatim_peer_never_raises.

Theorem dcid_not_retired_verbatim_peer : forall c l s x H, reachH c l s x H ->
  rpt s <= cur s /\ Forall (fun q => rpt s <= q) (avail s) /\ rpt s <= fst (fst (fst (send s))).
Proof. exact dcid_not_retired_verbatim. Qed.
Print Assumptions dcid_not_retired_verbatim_peer.
