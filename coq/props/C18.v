(* C18  Connection-ID lifecycle honours the peer's instructions.
   Only statements here; proofs live in coq/proofs/CidP.v, the model in coq/model/Cid.v (the tree WITH the three
   C18 fixes, docs/C18.md F1-F3).

   [reach c l s] (proofs/CidP.v): s is reachable from a fresh connection of role c (true = client) whose handshake
   completed with the peer advertising active_connection_id_limit = l, by ANY sequence of: 1-RTT packets addressed
   to any host ID carrying NEW_CONNECTION_ID (any sequence number, retire_prior_to, length; duplicates, reordering) /
   RETIRE_CONNECTION_ID (any sequence number) frames, local change_connection_id(), peer DCID switches,
   datagrams_to_send -- each call with ANY builder budget b: the number of NEW_/RETIRE_CONNECTION_ID frames
   builder.start_frame() accepts before it raises QuicPacketBuilderStop (packet full, congestion window exhausted,
   pacer), an input of the model -- and delivery outcomes ACKED / LOST of the frames written (a RETIRE outcome only
   for a frame really outstanding -- premise from C08).  The outcome type of the model has no "exception escaped" case: every
   operation returns Ok, a connection error (close), Drop or Ignored -- the tie checks that against the code. *)
From AQ Require Import lib.Base gen.C13Consts gen.C13Writers model.Builder model.Writers proofs.WritersBase proofs.WritersFrames.
From AQ Require Import lib.Base gen.C18Consts model.Cid proofs.CidP.
From AQ Require Import model.CidSend proofs.CidSendP proofs.CidBounds.

(* dcid_not_retired: unless the connection is closing, the current destination ID and every spare one are at or
   above the largest retire_prior_to processed, so the next packet written is addressed to such an ID ... *)
Theorem dcid_not_retired : forall c l s b, reach c l s -> closed s = None ->
  rpt s <= cur s /\ Forall (fun q => rpt s <= q) (avail s) /\ rpt s <= fst (fst (fst (send s b))).
Proof. exact dcid_not_retired_l. Qed.
Print Assumptions dcid_not_retired.

(* ... in particular right after a NEW_CONNECTION_ID(q, r) that was accepted: r is in force and honoured. *)
Theorem newcid_accepted_dcid : forall c l s q r n, reach c l s -> fst (recv_newcid s q r n) = OOk ->
  let s' := snd (recv_newcid s q r n) in r <= rpt s' /\ rpt s' <= cur s' /\ closed s' = None.
Proof. exact newcid_ok_dcid. Qed.
Print Assumptions newcid_accepted_dcid.

(* the history that used to pop an empty list (F1) now closes the connection with PROTOCOL_VIOLATION *)
Theorem no_cid_left_closes_thm : forall s q r n d, closed s = None -> pkt s = Some d ->
  (n =? 0) || (n >? CONNECTION_ID_MAX_SIZE) = false -> r <= q ->
  cur s < r -> (forall a, In a (avail s) -> a < r) -> In q (seen s) ->
  fst (recv_newcid s q r n) = OQErr E_PROTOCOL_VIOLATION /\
  closed (snd (recv_newcid s q r n)) = Some E_PROTOCOL_VIOLATION.
Proof. exact no_cid_left_closes. Qed.
Print Assumptions no_cid_left_closes_thm.

(* peer_ids_bounded: unless the connection is closing, current + spare peer IDs never exceed the advertised limit;
   a NEW_CONNECTION_ID that is accepted leaves at most min(4 * limit, MAX_PENDING_RETIRES) retirements pending, and
   one that would leave more IDs than the limit is answered with a connection error. *)
Theorem peer_ids_bounded : forall c l s, reach c l s -> closed s = None ->
  1 + Zlen (avail s) <= LOCAL_ACTIVE_CID_LIMIT.
Proof. exact peer_ids_bounded_l. Qed.
Print Assumptions peer_ids_bounded.

Theorem newcid_accepted_bounds : forall s q r n, fst (recv_newcid s q r n) = OOk ->
  1 + Zlen (avail (snd (recv_newcid s q r n))) <= LOCAL_ACTIVE_CID_LIMIT /\
  Zlen (pend (snd (recv_newcid s q r n))) <= Z.min (LOCAL_ACTIVE_CID_LIMIT * PENDING_RETIRES_FACTOR) MAX_PENDING_RETIRES.
Proof. exact newcid_ok_bounds. Qed.
Print Assumptions newcid_accepted_bounds.

Theorem newcid_over_limit_is_error_thm : forall s q r n, closed s = None ->
  LOCAL_ACTIVE_CID_LIMIT < 1 + Zlen (avail (snd (recv_newcid s q r n))) ->
  fst (recv_newcid s q r n) = OIgn \/ exists code, fst (recv_newcid s q r n) = OQErr code.
Proof. exact newcid_over_limit_is_error. Qed.
Print Assumptions newcid_over_limit_is_error_thm.

(* issued_bounded + retired_replaced: after the handshake the endpoint always has exactly min(8, peer limit) host
   IDs (so never more than the peer allows, and a retired one is replaced within the same frame handler) ... *)
Theorem issued_bounded : forall c l s, 1 <= l -> reach c l s ->
  Zlen (hosts s) = Z.min REPLENISH_CAP l /\ Zlen (hosts s) <= l.
Proof. exact issued_bounded_l. Qed.
Print Assumptions issued_bounded.

(* ... and every host ID not yet announced is announced by the next datagrams_to_send whose builder accepts the
   owed NEW_CONNECTION_ID frames (the frames a smaller budget refuses stay owed: cid_frames_progress). *)
Theorem retired_replaced_announced : forall s h b, closed s = None -> In h (hosts s) -> h_sent h = false ->
  Zlen (unsent (hosts s)) <= b ->
  In (h_seq h) (snd (fst (fst (send s b)))) /\ Forall (fun h' => h_sent h' = true) (hosts (snd (send s b))).
Proof. exact unsent_are_announced. Qed.
Print Assumptions retired_replaced_announced.

(* issued_accepted: a packet addressed to any host ID still held passes the destination-ID check; an ID the peer
   retired is not held any more. *)
Theorem issued_accepted : forall s h, closed s = None -> In h (hosts s) -> fst (recv_packet s (h_seq h)) = OOk.
Proof. exact issued_accepted_l. Qed.
Print Assumptions issued_accepted.

Theorem retired_not_held : forall c l s q, 1 <= l -> reach c l s ->
  fst (step s (RecvRetire q)) = OOk -> has_host q (hosts (snd (step s (RecvRetire q)))) = false.
Proof. exact retired_not_accepted. Qed.
Print Assumptions retired_not_held.

(* retirement_announced: EVERY sequence number received in a well-formed NEW_CONNECTION_ID frame (also one that
   arrives below the retire_prior_to already in force, F2) is the current one, spare, pending retirement, in an
   outstanding RETIRE frame, or acknowledged -- for all op sequences AND all builder budgets, so a frame the
   builder refuses never loses the retirement; LOST re-queues. *)
Theorem retirement_announced : forall c l s q, reach c l s -> In q (recvd s) ->
  q = cur s \/ In q (avail s) \/ In q (pend s) \/ In q (outs s) \/ In q (ackd s).
Proof. exact retirement_announced_l. Qed.
Print Assumptions retirement_announced.

Theorem lost_retire_requeued : forall s q, In q (pend (retire_delivery s q false)).
Proof. exact lost_requeued. Qed.
Print Assumptions lost_retire_requeued.

(* one datagrams_to_send, any budget: the pending list is split IN ORDER into the RETIRE frames written (from then on
   outstanding) and the retirements that stay pending; nothing is dropped. *)
Theorem refused_retire_stays_pending : forall s b,
  pend s = snd (fst (send s b)) ++ pend (snd (send s b)) /\ outs (snd (send s b)) = outs s ++ snd (fst (send s b)).
Proof. exact refused_stays_pending. Qed.
Print Assumptions refused_retire_stays_pending.

(* a budget that covers everything owed: every pending retirement is written by this call *)
Theorem pending_retires_written : forall s b, closed s = None -> Zlen (unsent (hosts s)) + Zlen (pend s) <= b ->
  snd (fst (send s b)) = pend s /\ pend (snd (send s b)) = [] /\ forall q, In q (pend s) -> In q (outs (snd (send s b))).
Proof. exact pending_all_written. Qed.
Print Assumptions pending_retires_written.

(* whenever the builder accepts one frame beyond the owed NEW_CONNECTION_ID frames, the OLDEST pending retirement is
   written ... *)
Theorem oldest_pending_retire_written : forall s b q t, closed s = None -> pend s = q :: t ->
  Zlen (unsent (hosts s)) < b -> exists w, snd (fst (send s b)) = q :: w.
Proof. exact oldest_pending_written. Qed.
Print Assumptions oldest_pending_retire_written.

(* ... in general the call writes exactly min(b, owed) CID frames and what is owed shrinks by that much ... *)
Theorem cid_frames_progress : forall s b,
  Zlen (snd (fst (fst (send s b)))) + Zlen (snd (fst (send s b))) = Z.min (Z.max 0 b) (owed s) /\
  owed (snd (send s b)) = owed s - Z.min (Z.max 0 b) (owed s).
Proof. exact send_progress. Qed.
Print Assumptions cid_frames_progress.

(* ... so once the window is open again (every call accepts at least one frame) as many calls as frames are owed
   leave no retirement pending and no NEW_CONNECTION_ID owed. *)
Theorem fair_sends_drain_thm : forall bs s, closed s = None -> Forall (fun b => 1 <= b) bs -> owed s <= Zlen bs ->
  pend (run s (map Send bs)) = [] /\ unsent (hosts (run s (map Send bs))) = [].
Proof. exact fair_sends_drain. Qed.
Print Assumptions fair_sends_drain_thm.

(* ConnectionIdRetired only after ConnectionIdIssued (or for the initial ID, which the server registers itself):
   the routing table of aioquic.asyncio.server never meets an unknown ID (F3) ... *)
Theorem retired_after_issued : forall c l s q, 1 <= l -> reach c l s -> In q (retiredev s) -> In q (issued s).
Proof. exact retired_after_issued_l. Qed.
Print Assumptions retired_after_issued.

(* ... because RETIRE_CONNECTION_ID for a host ID whose NEW_CONNECTION_ID was never written is a connection error
   that leaves the host IDs untouched. *)
Theorem retire_never_sent_is_error_thm : forall s q d h, closed s = None -> pkt s = Some d ->
  In h (hosts s) -> h_seq h = q -> h_sent h = false -> hsent s < q ->
  fst (recv_retire s q) = OQErr E_PROTOCOL_VIOLATION /\ hosts (snd (recv_retire s q)) = hosts s.
Proof. exact retire_never_sent_is_error. Qed.
Print Assumptions retire_never_sent_is_error_thm.

(* ====================================================================================================================
   d18 -- the builder budget is no longer an input: it is DERIVED from the packet-builder / frame-writer models of C13
   (model/Builder.v, model/Writers.v, gen/C13Writers.v).  model/CidSend.v: [room bs] = min(remaining_buffer_space,
   remaining_flight_space) of the builder state bs in which the CID loops of _write_application start; [cid_budget] = the
   number of NEW_CONNECTION_ID (declared capacity 54, real size 20 + len(cid) + varint sizes) and then
   RETIRE_CONNECTION_ID (capacity 9, real size 1 + varint) frames start_frame() accepts; [w_cid] = the two loops as the
   writer model runs them; [send_built bs cl s] = Cid.send s (budget_of bs cl s); [OI c bs] (proofs/WritersBase.v) = bs is a
   state of the builder model inside an open packet (the invariant the writer model maintains). *)

(* cid_budget_from_builder: for EVERY open-packet builder state and EVERY connection-ID state the loops of the writer
   model write exactly the frames of Cid.send with the computed budget (same sequence numbers, same order, NEW_CONNECTION_ID
   before RETIRE_CONNECTION_ID: the op trace is given literally), stop with QuicPacketBuilderStop iff the budget does not
   cover what is owed -- the refused start_frame is the last op --, and leave the room the budget function predicts. *)
Theorem cid_budget_from_builder : forall c (bs : Builder.st) cl (s : st),
  OI c bs -> 0 <= cl <= C13Writers.CONNECTION_ID_MAX_SIZE -> Forall vok (unsent (hosts s)) -> Forall vok (pend s) ->
  let b := budget_of bs cl s in
  let r := fst (send s b) in
  exists bs',
    w_cid c bs cl s = (if b <? owed s then OStop else ODone, bs',
                       flat_map (ncid_ops cl) (snd (fst r)) ++ flat_map ret_ops (snd r) ++
                       (if b <? owed s then [refused_op s b] else [])) /\
    OI c bs' /\ room bs' = cid_room_after (room bs) cl (unsent (hosts s)) (pend s) /\ 0 <= b <= owed s.
Proof. exact cid_budget_from_builder_l. Qed.
Print Assumptions cid_budget_from_builder.

(* the same inside a whole packet of _write_application (Writers.w_app_iter): after the frames that precede the loops
   (ACK, PATH_CHALLENGE, HANDSHAKE_DONE, PATH_RESPONSE; builder state s1) the packet carries exactly Cid.send's frames for
   the budget computed from s1; a refusal ends the pass there, otherwise the rest of the packet follows. *)
Theorem app_packet_cid_frames : forall c (s0 : Builder.st) d cl (cs : st) (s1 : Builder.st) tr0,
  ai_new_cids d = cid_news_in cl cs -> ai_retire d = pend cs ->
  0 <= cl <= C13Writers.CONNECTION_ID_MAX_SIZE -> Forall vok (unsent (hosts cs)) -> Forall vok (pend cs) ->
  w_cid_prefix c s0 d = (ODone, s1, tr0) -> OI c s1 ->
  let b := budget_of s1 cl cs in
  let cidtr := flat_map (ncid_ops cl) (snd (fst (fst (send cs b)))) ++ flat_map ret_ops (snd (fst (send cs b))) in
  exists s2, OI c s2 /\
    w_app_iter c s0 d =
      if b <? owed cs then (OStop, s2, tr0 ++ cidtr ++ [refused_op cs b])
      else let '(o3, s3, tr3) := w_cid_suffix c s2 d in (o3, s3, tr0 ++ cidtr ++ tr3).
Proof. exact app_packet_cid_frames_l. Qed.
Print Assumptions app_packet_cid_frames.

(* the budget in closed form, from below: floor(room / 54) frames are accepted whatever the mix (or everything owed) ... *)
Theorem cid_budget_at_least : forall rm cl news rets, 0 <= cl <= C13Writers.CONNECTION_ID_MAX_SIZE ->
  Z.min (Zlen news + Zlen rets) (rm / W_new_connection_id_frame_0_cap) <= cid_budget rm cl news rets.
Proof. exact cid_budget_lower. Qed.
Print Assumptions cid_budget_at_least.

(* ... exactly, when every owed sequence number is below 64 (one-byte varints; NEW_CONNECTION_ID frames then take
   20 + len(cid) bytes, RETIRE_CONNECTION_ID frames 2): n1 = min(#new, (room - 54) / (20 + len(cid)) + 1) frames of the first
   loop and, if that is all of them, min(#retire, (room' - 9) / 2 + 1) of the second ... *)
Theorem cid_budget_closed_form : forall rm cl news rets, 0 <= cl <= C13Writers.CONNECTION_ID_MAX_SIZE ->
  Forall (fun q => 0 <= q < 64) news -> Forall (fun q => 0 <= q < 64) rets ->
  let n1 := Z.min (Zlen news) (if rm <? 54 then 0 else (rm - 54) / (20 + cl) + 1) in
  let r1 := rm - (20 + cl) * n1 in
  cid_budget rm cl news rets =
    if n1 <? Zlen news then n1 else n1 + Z.min (Zlen rets) (if r1 <? 9 then 0 else (r1 - 9) / 2 + 1).
Proof. exact cid_budget_small_seqs. Qed.
Print Assumptions cid_budget_closed_form.

(* ... and the first frame owed decides between progress and none: room below its declared capacity -> nothing is written
   and nothing changes; room for it -> at least one frame is written and what is owed shrinks. *)
Theorem built_send_progress : forall (bs : Builder.st) cl (s : st), owed s <> 0 ->
  let cap := match unsent (hosts s) with _ :: _ => W_new_connection_id_frame_0_cap | [] => W_retire_connection_id_frame_0_cap end in
  (room bs < cap -> budget_of bs cl s = 0 /\ owed (snd (send_built bs cl s)) = owed s) /\
  (cap <= room bs -> 1 <= budget_of bs cl s /\ owed (snd (send_built bs cl s)) < owed s).
Proof. exact send_built_first_frame. Qed.
Print Assumptions built_send_progress.

(* the composed model ([breach]: every datagrams_to_send is a BSend whose budget is computed from a builder state; the
   free-budget Send is excluded) -- retirement_announced, refused_retire_stays_pending and fair_sends_drain re-stated *)
Theorem retirement_announced_built : forall c l (s : st) q, breach c l s -> In q (recvd s) ->
  q = cur s \/ In q (avail s) \/ In q (pend s) \/ In q (outs s) \/ In q (ackd s).
Proof. exact retirement_announced_built_l. Qed.
Print Assumptions retirement_announced_built.

Theorem refused_retire_stays_pending_built : forall (s : st) (bs : Builder.st) cl,
  pend s = snd (fst (send_built bs cl s)) ++ pend (snd (send_built bs cl s)) /\
  outs (snd (send_built bs cl s)) = outs s ++ snd (fst (send_built bs cl s)).
Proof. exact refused_stays_pending_built. Qed.
Print Assumptions refused_retire_stays_pending_built.

(* liveness with the derived budget: if every call starts its CID loops with room for k >= 1 frames (k <= floor(room/54)),
   ceil(owed / k) calls leave no retirement pending and no NEW_CONNECTION_ID owed ... *)
Theorem fair_sends_drain_built : forall k cl, 1 <= k -> 0 <= cl <= C13Writers.CONNECTION_ID_MAX_SIZE ->
  forall (bss : list Builder.st) (s : st),
  closed s = None -> Forall (fun bs => k <= frames_per_room (room bs)) bss -> owed s <= k * Zlen bss ->
  let s' := brun s (map (fun bs => BSend bs cl) bss) in pend s' = [] /\ unsent (hosts s') = [].
Proof. exact fair_sends_drain_built_l. Qed.
Print Assumptions fair_sends_drain_built.

(* ... the 1-RTT packet a fresh builder opens (max_datagram_size >= 1200, no flight / anti-amplification budget below it)
   is an open-packet state with room = max_datagram_size - 3 - len(peer_cid) - 16 >= 1161, i.e. k = 21 ... *)
Theorem full_packet_room : forall c pn,
  SMALLEST_MAX_DATAGRAM_SIZE <= c_mds c -> 0 <= c_peer c <= C13Writers.CONNECTION_ID_MAX_SIZE ->
  (forall m, c_max_flight c = Some m -> c_mds c <= m) -> (forall m, c_max_total c = Some m -> c_mds c <= m) ->
  exists bs, fresh_packet c pn = Some bs /\ OI c bs /\
             room bs = c_mds c - (SHORT_HEADER_FIXED + c_peer c) - AEAD_TAG_SIZE /\ 21 <= frames_per_room (room bs).
Proof. exact fresh_packet_room. Qed.
Print Assumptions full_packet_room.

(* ... so with full-size empty packets ceil(owed / 21) calls drain everything. *)
Theorem full_packets_drain : forall cl (bss : list Builder.st) (s : st),
  0 <= cl <= C13Writers.CONNECTION_ID_MAX_SIZE -> closed s = None ->
  Forall (fun bs => exists c pn, SMALLEST_MAX_DATAGRAM_SIZE <= c_mds c /\ 0 <= c_peer c <= C13Writers.CONNECTION_ID_MAX_SIZE /\
                      (forall m, c_max_flight c = Some m -> c_mds c <= m) /\ (forall m, c_max_total c = Some m -> c_mds c <= m) /\
                      fresh_packet c pn = Some bs) bss ->
  owed s <= 21 * Zlen bss ->
  let s' := brun s (map (fun bs => BSend bs cl) bss) in pend s' = [] /\ unsent (hosts s') = [].
Proof. exact full_packets_drain_l. Qed.
Print Assumptions full_packets_drain.

(* ====================================================================================================================
   d18 -- global bounds (proofs/CidBounds.v), for ALL op sequences and builder budgets ([reach]) *)

(* _host_cid_seq counts the connection IDs ever created: it equals IDs held + IDs the peer retired = min(8, limit) +
   retired; _host_cids is strictly increasing and below it (sequence numbers are never reused). *)
Theorem host_seq_counts : forall c l (s : st), 1 <= l -> reach c l s ->
  hseq s = Zlen (hosts s) + Zlen (retiredev s) /\ hseq s = Z.min REPLENISH_CAP l + Zlen (retiredev s) /\
  Sorted.StronglySorted Z.lt (hseqs (hosts s)) /\ Forall (fun q => q < hseq s) (hseqs (hosts s)).
Proof. exact host_seq_counts_l. Qed.
Print Assumptions host_seq_counts.

Theorem issued_below_seq : forall c l (s : st) q, 1 <= l -> reach c l s -> In q (issued s) -> q < hseq s.
Proof. exact issued_below_seq_l. Qed.
Print Assumptions issued_below_seq.

(* ConnectionIdRetired at most once per sequence number, never for an ID still held. *)
Theorem retired_once : forall c l (s : st), 1 <= l -> reach c l s ->
  NoDup (retiredev s) /\ forall q, In q (retiredev s) -> has_host q (hosts s) = false /\ q < hseq s.
Proof. exact retired_once_l. Qed.
Print Assumptions retired_once.

(* the peer's active_connection_id_limit counted ON THE WIRE: sequence numbers announced (NEW_CONNECTION_ID written, or the
   initial ID) and not yet retired by a processed RETIRE_CONNECTION_ID are all still held; any duplicate-free list of them
   has at most min(8, limit) <= limit entries, at every point of every history. *)
Theorem wire_active_bounded : forall c l (s : st) L, 1 <= l -> reach c l s -> NoDup L ->
  (forall q, In q L -> In q (issued s) /\ ~ In q (retiredev s)) ->
  incl L (hseqs (hosts s)) /\ Zlen L <= Z.min REPLENISH_CAP l /\ Zlen L <= l.
Proof. exact wire_active_bounded_l. Qed.
Print Assumptions wire_active_bounded.

(* peer-issued IDs: a sequence number is in at most ONE of spare / pending retirement / outstanding RETIRE / acknowledged
   RETIRE, at most once (no retirement is queued or announced twice), and -- unless closing -- none of them is the
   current destination ID. *)
Theorem retire_once : forall c l (s : st), reach c l s ->
  NoDup (avail s ++ pend s ++ outs s ++ ackd s) /\
  (closed s = None -> ~ In (cur s) (avail s ++ pend s ++ outs s ++ ackd s)).
Proof. exact retire_once_l. Qed.
Print Assumptions retire_once.

(* the global bound on _retire_connection_ids (the code has no cap of its own outside the NEW_CONNECTION_ID handler):
   spare + pending + outstanding + acknowledged (+ the current ID) <= |_peer_cid_sequence_numbers| <= 1 + number of
   well-formed NEW_CONNECTION_ID frames processed. *)
Theorem pending_global_bound : forall c l (s : st), reach c l s ->
  Zlen (avail s) + Zlen (pend s) + Zlen (outs s) + Zlen (ackd s) + (if closed s then 0 else 1) <= Zlen (seen s) /\
  Zlen (seen s) <= Zlen (recvd s).
Proof. exact pending_global_bound_l. Qed.
Print Assumptions pending_global_bound.

(* _peer_cid_sequence_numbers has no duplicates and grows by at most one entry per NEW_CONNECTION_ID frame; no other
   operation touches it. *)
Theorem seen_growth : forall (s : st) o, Zlen (seen (snd (step s o))) <= Zlen (seen s) + 1 /\
  (match o with RecvNewCid _ _ _ | Handshake _ => True | _ => seen (snd (step s o)) = seen s end).
Proof. exact seen_growth_l. Qed.
Print Assumptions seen_growth.

Theorem seen_nodup : forall c l (s : st), reach c l s -> NoDup (seen s).
Proof. exact seen_nodup_l. Qed.
Print Assumptions seen_nodup.

(* a NEW_CONNECTION_ID that repeats a known sequence number -- whatever connection ID / stateless reset token it carries --
   adds no ID (the first one received stays): only its retire_prior_to acts.  RFC 9000 19.15 lets an endpoint treat a
   conflicting repetition as PROTOCOL_VIOLATION (MAY); the code ignores it silently. *)
Theorem duplicate_seq_adds_nothing : forall (s : st) q r n, In q (seen s) ->
  let s' := snd (recv_newcid s q r n) in
  seen s' = seen s /\ (forall a, In a (avail s') -> In a (avail s)) /\ (cur s' = cur s \/ In (cur s') (avail s)).
Proof. exact duplicate_seq_adds_nothing_l. Qed.
Print Assumptions duplicate_seq_adds_nothing.
