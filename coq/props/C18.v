(* C18  Connection-ID lifecycle honours the peer's instructions.
   Only statements here; proofs live in coq/proofs/CidP.v, the model in coq/model/Cid.v (the tree WITH the three
   C18 fixes, docs/C18.md F1-F3).

   [reach c l s] (proofs/CidP.v): s is reachable from a fresh connection of role c (true = client) whose handshake
   completed with the peer advertising active_connection_id_limit = l, by ANY sequence of: 1-RTT packets addressed
   to any host ID carrying NEW_CONNECTION_ID (any sequence number, retire_prior_to, length; duplicates, reordering) /
   RETIRE_CONNECTION_ID (any sequence number) frames, local change_connection_id(), peer DCID switches,
   datagrams_to_send -- each call with ANY builder budget b: the number of NEW_/RETIRE_CONNECTION_ID frames
   builder.start_frame() accepts before it raises QuicPacketBuilderStop (packet full, congestion window exhausted,
   pacer), an input of the model -- and delivery outcomes ACKED / LOST of the frames written (a RETIRE outcome only
   for a frame really outstanding -- premise from C08).  The outcome type of the model has no "exception escaped" case: every
   operation returns Ok, a connection error (close), Drop or Ignored -- the tie checks that against the code. *)
From AQ Require Import lib.Base gen.C18Consts model.Cid proofs.CidP.

(* dcid_not_retired: unless the connection is closing, the current destination ID and every spare one are at or
   above the largest retire_prior_to processed, so the next packet written is addressed to such an ID ... *)
Theorem dcid_not_retired : forall c l s b, reach c l s -> closed s = None ->
  rpt s <= cur s /\ Forall (fun q => rpt s <= q) (avail s) /\ rpt s <= fst (fst (fst (send s b))).
Proof. exact dcid_not_retired_l. Qed.
Print Assumptions dcid_not_retired.

(* ... in particular right after a NEW_CONNECTION_ID(q, r) that was accepted: r is in force and honoured. *)
Theorem newcid_accepted_dcid : forall c l s q r n, reach c l s -> fst (recv_newcid s q r n) = OOk ->
  let s' := snd (recv_newcid s q r n) in r <= rpt s' /\ rpt s' <= cur s' /\ closed s' = None.
Proof. exact newcid_ok_dcid. Qed.
Print Assumptions newcid_accepted_dcid.

(* the history that used to pop an empty list (F1) now closes the connection with PROTOCOL_VIOLATION *)
Theorem no_cid_left_closes_thm : forall s q r n d, closed s = None -> pkt s = Some d ->
  (n =? 0) || (n >? CONNECTION_ID_MAX_SIZE) = false -> r <= q ->
  cur s < r -> (forall a, In a (avail s) -> a < r) -> In q (seen s) ->
  fst (recv_newcid s q r n) = OQErr E_PROTOCOL_VIOLATION /\
  closed (snd (recv_newcid s q r n)) = Some E_PROTOCOL_VIOLATION.
Proof. exact no_cid_left_closes. Qed.
Print Assumptions no_cid_left_closes_thm.

(* peer_ids_bounded: unless the connection is closing, current + spare peer IDs never exceed the advertised limit;
   a NEW_CONNECTION_ID that is accepted leaves at most min(4 * limit, MAX_PENDING_RETIRES) retirements pending, and
   one that would leave more IDs than the limit is answered with a connection error. *)
Theorem peer_ids_bounded : forall c l s, reach c l s -> closed s = None ->
  1 + Zlen (avail s) <= LOCAL_ACTIVE_CID_LIMIT.
Proof. exact peer_ids_bounded_l. Qed.
Print Assumptions peer_ids_bounded.

Theorem newcid_accepted_bounds : forall s q r n, fst (recv_newcid s q r n) = OOk ->
  1 + Zlen (avail (snd (recv_newcid s q r n))) <= LOCAL_ACTIVE_CID_LIMIT /\
  Zlen (pend (snd (recv_newcid s q r n))) <= Z.min (LOCAL_ACTIVE_CID_LIMIT * PENDING_RETIRES_FACTOR) MAX_PENDING_RETIRES.
Proof. exact newcid_ok_bounds. Qed.
Print Assumptions newcid_accepted_bounds.

Theorem newcid_over_limit_is_error_thm : forall s q r n, closed s = None ->
  LOCAL_ACTIVE_CID_LIMIT < 1 + Zlen (avail (snd (recv_newcid s q r n))) ->
  fst (recv_newcid s q r n) = OIgn \/ exists code, fst (recv_newcid s q r n) = OQErr code.
Proof. exact newcid_over_limit_is_error. Qed.
Print Assumptions newcid_over_limit_is_error_thm.

(* issued_bounded + retired_replaced: after the handshake the endpoint always has exactly min(8, peer limit) host
   IDs (so never more than the peer allows, and a retired one is replaced within the same frame handler) ... *)
Theorem issued_bounded : forall c l s, 1 <= l -> reach c l s ->
  Zlen (hosts s) = Z.min REPLENISH_CAP l /\ Zlen (hosts s) <= l.
Proof. exact issued_bounded_l. Qed.
Print Assumptions issued_bounded.

(* ... and every host ID not yet announced is announced by the next datagrams_to_send whose builder accepts the
   owed NEW_CONNECTION_ID frames (the frames a smaller budget refuses stay owed: cid_frames_progress). *)
Theorem retired_replaced_announced : forall s h b, closed s = None -> In h (hosts s) -> h_sent h = false ->
  Zlen (unsent (hosts s)) <= b ->
  In (h_seq h) (snd (fst (fst (send s b)))) /\ Forall (fun h' => h_sent h' = true) (hosts (snd (send s b))).
Proof. exact unsent_are_announced. Qed.
Print Assumptions retired_replaced_announced.

(* issued_accepted: a packet addressed to any host ID still held passes the destination-ID check; an ID the peer
   retired is not held any more. *)
Theorem issued_accepted : forall s h, closed s = None -> In h (hosts s) -> fst (recv_packet s (h_seq h)) = OOk.
Proof. exact issued_accepted_l. Qed.
Print Assumptions issued_accepted.

Theorem retired_not_held : forall c l s q, 1 <= l -> reach c l s ->
  fst (step s (RecvRetire q)) = OOk -> has_host q (hosts (snd (step s (RecvRetire q)))) = false.
Proof. exact retired_not_accepted. Qed.
Print Assumptions retired_not_held.

(* retirement_announced: EVERY sequence number received in a well-formed NEW_CONNECTION_ID frame (also one that
   arrives below the retire_prior_to already in force, F2) is the current one, spare, pending retirement, in an
   outstanding RETIRE frame, or acknowledged -- for all op sequences AND all builder budgets, so a frame the
   builder refuses never loses the retirement; LOST re-queues. *)
Theorem retirement_announced : forall c l s q, reach c l s -> In q (recvd s) ->
  q = cur s \/ In q (avail s) \/ In q (pend s) \/ In q (outs s) \/ In q (ackd s).
Proof. exact retirement_announced_l. Qed.
Print Assumptions retirement_announced.

Theorem lost_retire_requeued : forall s q, In q (pend (retire_delivery s q false)).
Proof. exact lost_requeued. Qed.
Print Assumptions lost_retire_requeued.

(* one datagrams_to_send, any budget: the pending list is split IN ORDER into the RETIRE frames written (from then on
   outstanding) and the retirements that stay pending; nothing is dropped. *)
Theorem refused_retire_stays_pending : forall s b,
  pend s = snd (fst (send s b)) ++ pend (snd (send s b)) /\ outs (snd (send s b)) = outs s ++ snd (fst (send s b)).
Proof. exact refused_stays_pending. Qed.
Print Assumptions refused_retire_stays_pending.

(* a budget that covers everything owed: every pending retirement is written by this call *)
Theorem pending_retires_written : forall s b, closed s = None -> Zlen (unsent (hosts s)) + Zlen (pend s) <= b ->
  snd (fst (send s b)) = pend s /\ pend (snd (send s b)) = [] /\ forall q, In q (pend s) -> In q (outs (snd (send s b))).
Proof. exact pending_all_written. Qed.
Print Assumptions pending_retires_written.

(* whenever the builder accepts one frame beyond the owed NEW_CONNECTION_ID frames, the OLDEST pending retirement is
   written ... *)
Theorem oldest_pending_retire_written : forall s b q t, closed s = None -> pend s = q :: t ->
  Zlen (unsent (hosts s)) < b -> exists w, snd (fst (send s b)) = q :: w.
Proof. exact oldest_pending_written. Qed.
Print Assumptions oldest_pending_retire_written.

(* ... in general the call writes exactly min(b, owed) CID frames and what is owed shrinks by that much ... *)
Theorem cid_frames_progress : forall s b,
  Zlen (snd (fst (fst (send s b)))) + Zlen (snd (fst (send s b))) = Z.min (Z.max 0 b) (owed s) /\
  owed (snd (send s b)) = owed s - Z.min (Z.max 0 b) (owed s).
Proof. exact send_progress. Qed.
Print Assumptions cid_frames_progress.

(* ... so once the window is open again (every call accepts at least one frame) as many calls as frames are owed
   leave no retirement pending and no NEW_CONNECTION_ID owed. *)
Theorem fair_sends_drain_thm : forall bs s, closed s = None -> Forall (fun b => 1 <= b) bs -> owed s <= Zlen bs ->
  pend (run s (map Send bs)) = [] /\ unsent (hosts (run s (map Send bs))) = [].
Proof. exact fair_sends_drain. Qed.
Print Assumptions fair_sends_drain_thm.

(* ConnectionIdRetired only after ConnectionIdIssued (or for the initial ID, which the server registers itself):
   the routing table of aioquic.asyncio.server never meets an unknown ID (F3) ... *)
Theorem retired_after_issued : forall c l s q, 1 <= l -> reach c l s -> In q (retiredev s) -> In q (issued s).
Proof. exact retired_after_issued_l. Qed.
Print Assumptions retired_after_issued.

(* ... because RETIRE_CONNECTION_ID for a host ID whose NEW_CONNECTION_ID was never written is a connection error
   that leaves the host IDs untouched. *)
Theorem retire_never_sent_is_error_thm : forall s q d h, closed s = None -> pkt s = Some d ->
  In h (hosts s) -> h_seq h = q -> h_sent h = false -> hsent s < q ->
  fst (recv_retire s q) = OQErr E_PROTOCOL_VIOLATION /\ hosts (snd (recv_retire s q)) = hosts s.
Proof. exact retire_never_sent_is_error. Qed.
Print Assumptions retire_never_sent_is_error_thm.
