(* C01  Reliable, ordered, exactly-once stream delivery over any lossy network.
   Only statements here; proofs live in coq/proofs/NetSysP.v and NetSysP2.v.

   [nreach s]: s is reachable in the network system model/NetSys.v from the initial state by ANY
   sequence of enabled data steps (write, emit with arbitrary caps, deliver ANY emitted frame -- so
   loss, delay, duplication and reordering are all just schedules --, ACKED/LOST outcome for an emitted
   frame without outcome, ACKED only if it was delivered; pop / sync of the event queue).
   [n_dbytes] / [n_ends]: concatenation of the bytes / number of end markers reported to the application. *)
From AQ Require Import lib.Base model.RangeSet model.StreamRecv model.StreamSpec model.StreamSend model.NetSys
  proofs.StreamSendP proofs.NetSysP proofs.NetSysP2 proofs.NetSysP3.

(* the bytes reported are a prefix of the bytes written, in every reachable state; the end marker is
   reported at most once and only when a FIN was written and all written bytes have been reported *)
Theorem delivery_is_prefix_thm : forall s, nreach s ->
  (exists rest, n_written s = n_dbytes s ++ rest) /\
  0 <= n_ends s <= 1 /\
  (n_ends s = 1 -> eof s /\ n_dbytes s = n_written s).
Proof. exact delivery_is_prefix. Qed.
Print Assumptions delivery_is_prefix_thm.

(* delivering any emitted frame, at any time and any number of times, never yields FinalSizeError *)
Theorem no_spurious_final_size_error_thm : forall s i o s',
  nreach s -> net_step s (NDeliver i) = Some (o, s') -> o <> OFinalSizeError.
Proof. exact no_spurious_final_size_error. Qed.
Print Assumptions no_spurious_final_size_error_thm.

(* every written offset and a written FIN is acknowledged, pending, or carried by an emitted frame
   that has had no outcome yet (the safety core of liveness) *)
Theorem nothing_forgotten_thm : forall s, nreach s ->
  (forall o, 0 <= o < Zlen (n_written s) ->
     ackedb (n_send s) o = 1 \/ contains o (s_pending (n_send s)) = true \/
     exists f, In f (n_emitted s) /\ ef_out f = None /\ ef_off f <= o < ef_off f + Zlen (ef_data f)) /\
  (eof s ->
     s_pending_eof (n_send s) = true \/ s_acked_fin (n_send s) = true \/
     exists f, In f (n_emitted s) /\ ef_out f = None /\ ef_fin f = true).
Proof. exact nothing_forgotten. Qed.
Print Assumptions nothing_forgotten_thm.

(* every schedule of data steps stays inside the invariant (the composition discharges the premise of the
   C10 sender theorems: outcomes are only given to emitted frames without outcome) *)
Theorem every_schedule_reachable_thm : forall ops s s',
  nreach s -> Forall data_op ops -> run_sched s ops = Some s' -> nreach s'.
Proof. exact run_sched_reach. Qed.
Print Assumptions every_schedule_reachable_thm.

(* the sender reports is_finished only after the receiver has reported every written byte and the end
   marker (rests on the guard of NOutcome: ACKED only for a frame that was delivered) *)
Theorem finished_implies_delivered_thm : forall s, nreach s -> s_finished (n_send s) = true ->
  n_dbytes s = n_written s /\ n_ends s = 1 /\ eof s.
Proof. exact finished_implies_delivered. Qed.
Print Assumptions finished_implies_delivered_thm.
