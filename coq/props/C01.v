(* C01  Reliable, ordered, exactly-once stream delivery over any lossy network.
   Only statements here; proofs live in coq/proofs/NetSysP.v, NetSysP2.v, NetSysP3.v (safety on the data steps),
   NetSysP4.v (liveness by construction), NetSysP5.v (fairness as accounting), NetSysP6.v (reset steps).

   [nreach s]: s is reachable in the network system model/NetSys.v from the initial state by ANY
   sequence of enabled data steps (write, emit with arbitrary caps, deliver ANY emitted frame -- so
   loss, delay, duplication and reordering are all just schedules --, ACKED/LOST outcome for an emitted
   frame without outcome, ACKED only if it was delivered; pop / sync of the event queue).
   [n_dbytes] / [n_ends]: concatenation of the bytes / number of end markers reported to the application. *)
From AQ Require Import lib.Base model.RangeSet model.StreamRecv model.StreamSpec model.StreamSend model.NetSys model.NetSysLive
  proofs.StreamSendP proofs.NetSysP proofs.NetSysP2 proofs.NetSysP3 proofs.NetSysP4 proofs.NetSysP5 proofs.NetSysP6 proofs.NetSysP7
  model.NetSysFC gen.C01Consts proofs.NetSysFCP proofs.NetSysFCCode.

(* the bytes reported are a prefix of the bytes written, in every reachable state; the end marker is
   reported at most once and only when a FIN was written and all written bytes have been reported *)
Theorem delivery_is_prefix_thm : forall s, nreach s ->
  (exists rest, n_written s = n_dbytes s ++ rest) /\
  0 <= n_ends s <= 1 /\
  (n_ends s = 1 -> eof s /\ n_dbytes s = n_written s).
Proof. exact delivery_is_prefix. Qed.
Print Assumptions delivery_is_prefix_thm.

(* delivering any emitted frame, at any time and any number of times, never yields FinalSizeError *)
Theorem no_spurious_final_size_error_thm : forall s i o s',
  nreach s -> net_step s (NDeliver i) = Some (o, s') -> o <> OFinalSizeError.
Proof. exact no_spurious_final_size_error. Qed.
Print Assumptions no_spurious_final_size_error_thm.

(* every written offset and a written FIN is acknowledged, pending, or carried by an emitted frame
   that has had no outcome yet (the safety core of liveness) *)
Theorem nothing_forgotten_thm : forall s, nreach s ->
  (forall o, 0 <= o < Zlen (n_written s) ->
     ackedb (n_send s) o = 1 \/ contains o (s_pending (n_send s)) = true \/
     exists f, In f (n_emitted s) /\ ef_out f = None /\ ef_off f <= o < ef_off f + Zlen (ef_data f)) /\
  (eof s ->
     s_pending_eof (n_send s) = true \/ s_acked_fin (n_send s) = true \/
     exists f, In f (n_emitted s) /\ ef_out f = None /\ ef_fin f = true).
Proof. exact nothing_forgotten. Qed.
Print Assumptions nothing_forgotten_thm.

(* every schedule of data steps stays inside the invariant (the composition discharges the premise of the
   C10 sender theorems: outcomes are only given to emitted frames without outcome) *)
Theorem every_schedule_reachable_thm : forall ops s s',
  nreach s -> Forall data_op ops -> run_sched s ops = Some s' -> nreach s'.
Proof. exact run_sched_reach. Qed.
Print Assumptions every_schedule_reachable_thm.

(* the sender reports is_finished only after the receiver has reported every written byte and the end
   marker (rests on the guard of NOutcome: ACKED only for a frame that was delivered) *)
Theorem finished_implies_delivered_thm : forall s, nreach s -> s_finished (n_send s) = true ->
  n_dbytes s = n_written s /\ n_ends s = 1 /\ eof s.
Proof. exact finished_implies_delivered. Qed.
Print Assumptions finished_implies_delivered_thm.

(* ------------------------------------------------------------------------------------------------
   Liveness.  [complete ms s] (proofs/NetSysP4.v) is a Gallina function computing a continuation
   schedule from the state alone: LOST for every emitted frame without outcome, then rounds of
   emit-with-budget-ms / deliver / ACKED.  From EVERY reachable state it runs, uses data steps only,
   and ends with every written byte reported in order, exactly one end marker iff a FIN was written,
   the sender is_finished iff a FIN was written, no frame left without outcome.  Its length is bounded
   by |emitted| + 3 * rounds, where rounds = sum over the ranges pending after the losses of
   ceil(len / ms), + 1 for a pending FIN; rounds <= unacknowledged span + 1 and
   rounds <= number of pending ranges + pending bytes / ms + 1.
   (Executed by vm_compute on a mid-way state: NetSysP4.complete_example.) *)
Theorem fair_schedule_completes_thm : forall s ms, nreach s -> 0 < ms ->
  exists s', run_sched s (complete ms s) = Some s' /\ Forall data_op (complete ms s) /\
    n_written s' = n_written s /\ n_dbytes s' = n_written s /\
    (eof s -> n_ends s' = 1 /\ s_finished (n_send s') = true) /\
    (~ eof s -> n_ends s' = 0 /\ s_finished (n_send s') = false) /\
    quiet s' /\
    Z.of_nat (length (complete ms s)) <= Zlen (n_emitted s) + 3 * rounds ms (n_send (after_loss s)) /\
    rounds ms (n_send (after_loss s)) <= Zlen (n_written s) - s_start (n_send s) + 1 /\
    rounds ms (n_send (after_loss s)) <=
      Zlen (s_pending (n_send (after_loss s))) + psize (s_pending (n_send (after_loss s))) / ms + 1.
Proof. exact fair_schedule_completes. Qed.
Print Assumptions fair_schedule_completes_thm.

(* Fairness as accounting, for EVERY schedule of data steps (any interleaving of writes, emits with any
   caps, deliveries of any frame any number of times, LOST / ACKED outcomes):
   unacked(after) + #useful acknowledgements <= unacked(before) + bytes and FINs written by the schedule.
   [unacked s] = written bytes not yet acknowledged + 1 for a written, not yet acknowledged FIN;
   an acknowledgement is useful when its frame carries >= 1 byte, or a FIN while no FIN was acknowledged. *)
Theorem schedule_accounting_thm : forall ops s s', nreach s -> Forall data_op ops -> run_sched s ops = Some s' ->
  unacked s' + useful_acks s ops <= unacked s + wcosts ops.
Proof. exact schedule_accounting. Qed.
Print Assumptions schedule_accounting_thm.

Theorem unacked_bound_thm : forall s, nreach s -> 0 <= unacked s <= Zlen (n_written s) - s_start (n_send s) + 1.
Proof. exact (fun s R => conj (unacked_nonneg s) (unacked_bound s R)). Qed.
Print Assumptions unacked_bound_thm.

(* A fair run = a sequence of rounds; a round is ANY schedule of data steps without writes that, as executed,
   contains at least one useful acknowledgement.  After k >= unacked s rounds (so after at most
   "unacknowledged bytes + 1" rounds) the stream is complete -- and then k = unacked s exactly. *)
Theorem fair_rounds_complete_thm : forall s segs s', nreach s -> fair_rounds s segs s' -> unacked s <= Z.of_nat (length segs) ->
  n_written s' = n_written s /\ n_dbytes s' = n_written s /\
  (eof s' -> n_ends s' = 1 /\ s_finished (n_send s') = true) /\ (~ eof s' -> n_ends s' = 0) /\
  Z.of_nat (length segs) = unacked s.
Proof. exact fair_rounds_complete. Qed.
Print Assumptions fair_rounds_complete_thm.

(* ... and progress is always possible: from every reachable state that is not complete there is such a round,
   of at most |emitted| + 3 steps (LOST for the frames without outcome, emit, deliver, ACKED) *)
Theorem fair_round_exists_thm : forall s ms, nreach s -> 0 < ms -> 0 < unacked s ->
  exists s', run_sched s (fair_round ms s) = Some s' /\ Forall nowrite_op (fair_round ms s) /\
    1 <= useful_acks s (fair_round ms s) /\
    Z.of_nat (length (fair_round ms s)) <= Zlen (n_emitted s) + 3.
Proof. exact fair_round_exists. Qed.
Print Assumptions fair_round_exists_thm.

Theorem unacked_zero_complete_thm : forall s, nreach s -> unacked s = 0 ->
  n_dbytes s = n_written s /\
  (eof s -> n_ends s = 1 /\ s_finished (n_send s) = true) /\ (~ eof s -> n_ends s = 0).
Proof. exact unacked_zero_complete. Qed.
Print Assumptions unacked_zero_complete_thm.

(* ------------------------------------------------------------------------------------------------
   Resets.  [xreach s]: reachable by ANY sequence of enabled steps, reset steps included (reset_stream /
   STOP_SENDING, RESET_STREAM emitted, delivered any number of times, ACKED / LOST). *)
Theorem every_schedule_xreachable_thm : forall ops s s', xreach s -> run_sched s ops = Some s' -> xreach s'.
Proof. exact run_sched_xreach. Qed.
Print Assumptions every_schedule_xreachable_thm.

(* prefix delivery and at-most-one end marker, with resets *)
Theorem delivery_is_prefix_resets_thm : forall s, xreach s ->
  (exists rest, n_written s = n_dbytes s ++ rest) /\ 0 <= n_ends s <= 1 /\
  (n_ends s = 1 -> eof s /\ n_dbytes s = n_written s).
Proof. exact x_delivery_is_prefix. Qed.
Print Assumptions delivery_is_prefix_resets_thm.

(* no step of any schedule -- delivery of any STREAM frame or of any RESET_STREAM frame, before or after an
   accepted reset -- yields FinalSizeError *)
Theorem no_spurious_final_size_error_resets_thm : forall s op o s',
  xreach s -> net_step s op = Some (o, s') -> o <> OFinalSizeError.
Proof. exact x_no_spurious_final_size_error. Qed.
Print Assumptions no_spurious_final_size_error_resets_thm.

(* highest_offset never exceeds the written length and bounds the end of every emitted frame; the final size of
   every RESET_STREAM frame is that highest offset, and it is the only final size the receiver ever holds *)
Theorem highest_offset_sound_thm : forall s, xreach s ->
  0 <= s_highest (n_send s) <= Zlen (n_written s) /\
  (forall f, In f (n_emitted s) -> ef_off f + Zlen (ef_data f) <= s_highest (n_send s)).
Proof. exact highest_offset_sound. Qed.
Print Assumptions highest_offset_sound_thm.

Theorem reset_final_size_sound_thm : forall s fs, xreach s -> In fs (n_resets s) ->
  fs = s_highest (n_send s) /\ 0 <= fs <= Zlen (n_written s) /\
  (forall f, In f (n_emitted s) -> ef_off f + Zlen (ef_data f) <= fs) /\
  (forall f, r_final (n_recv s) = Some f -> f = fs).
Proof. exact reset_final_size_sound. Qed.
Print Assumptions reset_final_size_sound_thm.

(* with resets the sender reports is_finished only after a RESET_STREAM frame was acknowledged or the receiver has
   reported every written byte and the end marker *)
Theorem finished_implies_resets_thm : forall s, xreach s -> s_finished (n_send s) = true ->
  (n_racked s = true /\ n_resets s <> []) \/ (n_dbytes s = n_written s /\ n_ends s = 1 /\ eof s).
Proof. exact x_finished_implies. Qed.
Print Assumptions finished_implies_resets_thm.

(* liveness after reset(): from every reachable state in which reset() was called, three steps (emit RESET_STREAM,
   deliver it, acknowledge it) make the sender is_finished and the receive half finished; they report exactly one
   StreamReset unless the receive half had finished before.  While reset() has not been called every reachable state
   is a data-step state, so the liveness theorems above apply to it. *)
Theorem reset_completes_thm : forall s, xreach s -> s_reset (n_send s) <> None ->
  exists s', run_sched s (reset_round s) = Some s' /\
    s_finished (n_send s') = true /\ n_racked s' = true /\ n_rreset s' = true /\ r_finished (n_recv s') = true /\
    n_resets s' = n_resets s ++ [s_highest (n_send s)] /\
    sched_events s (reset_round s) = (if r_finished (n_recv s) then [] else [RReset]).
Proof. exact reset_completes. Qed.
Print Assumptions reset_completes_thm.

Theorem xreach_noreset_nreach_thm : forall s, xreach s -> s_reset (n_send s) = None -> nreach s.
Proof. exact xreach_noreset_nreach. Qed.
Print Assumptions xreach_noreset_nreach_thm.

(* after the receiver accepted a reset nothing more is reported, whatever step follows *)
Theorem nothing_after_reset_thm : forall s op o s', xreach s -> n_rreset s = true -> net_step s op = Some (o, s') ->
  n_dbytes s' = n_dbytes s /\ n_ends s' = n_ends s /\ n_rreset s' = true /\ queued s op s' = [].
Proof. exact nothing_after_reset. Qed.
Print Assumptions nothing_after_reset_thm.

(* the event stream of EVERY schedule from the initial state (resets included): the ghost fields n_dbytes / n_ends
   are exactly the bytes / end markers of the queued events; a terminal event (end marker or StreamReset) is the last
   event, so there is at most one of them -- the StreamReset is reported at most once and nothing after it --;
   next_event() pops exactly the queued events in order *)
Theorem event_stream_thm : forall ops s', run_sched net_init ops = Some s' ->
  xreach s' /\
  n_dbytes s' = bytes_all (sched_events net_init ops) /\ n_ends s' = ends_of (sched_events net_init ops) /\
  term_last (sched_events net_init ops) /\
  Zlen (filter is_term (sched_events net_init ops)) <= 1 /\
  sched_popped net_init ops ++ n_queue s' = sched_events net_init ops.
Proof. exact events_from_init. Qed.
Print Assumptions event_stream_thm.

(* ---------- liveness under a binding connection-level flow-control window (model/NetSysFC.v) ----------
   [fc_reach b w s]: s is reachable in NetSys + connection credit (initial window w at both ends) by ANY sequence of
   writes, emits (max_offset = BASE + _remote_max_data - _remote_max_data_used, BASE chosen by b), deliveries of any
   emitted frame (FLOW_CONTROL_ERROR when used + newly_received > value), ACKED / LOST outcomes, the receiver's
   MAX_DATA rule (double when used * 2 > value) and arrivals of any advertised MAX_DATA value.
   [code_fc_base] is read from the source tree on every run (tools/gen/c01_consts.py -> gen/C01Consts.v). *)

(* a lost range below highest_offset is re-emitted whatever the credit is -- also with credit 0 -- and nothing is charged *)
Theorem retransmission_needs_no_credit_thm : forall w s ms start rstop rest,
  0 < w -> fc_reach code_fc_base w s -> 0 < ms ->
  s_pending (n_send (f_net s)) = (start, rstop) :: rest -> start < s_highest (n_send (f_net s)) ->
  exists d fin s', fc_step code_fc_base s (FEmit ms) = Some (FOk (OFrame start d fin), s') /\ 0 < Zlen d /\
    Zlen d = Z.min rstop (Z.min (start + ms) (s_highest (n_send (f_net s)) + (f_max s - f_used s))) - start /\
    (start + Zlen d <= s_highest (n_send (f_net s)) -> f_used s' = f_used s).
Proof. exact retransmission_needs_no_credit_code. Qed.
Print Assumptions retransmission_needs_no_credit_thm.

(* the sender never exceeds the receiver's limit: no schedule produces FLOW_CONTROL_ERROR *)
Theorem no_flow_control_error_thm : forall w s op o s', 0 < w -> fc_reach code_fc_base w s ->
  fc_step code_fc_base s op = Some (o, s') -> o <> FFlowControlError.
Proof. exact no_flow_control_error_code. Qed.
Print Assumptions no_flow_control_error_thm.

(* from EVERY reachable state -- credit exhausted or not, any part of the window lost -- the continuation fc_complete
   (LOST for the frames without outcome, then rounds: receiver applies its MAX_DATA rule, sender learns the limit, emits
   with the max_offset the code computes, frame delivered and acknowledged) runs without FLOW_CONTROL_ERROR /
   FINAL_SIZE_ERROR and ends with every written byte reported, one end marker and is_finished iff a FIN was written *)
Theorem fair_schedule_completes_fc_thm : forall w s ms, 0 < w -> fc_reach code_fc_base w s -> 0 < ms ->
  exists s', run_fc code_fc_base s (fc_complete code_fc_base ms s) = Some s' /\
    n_written (f_net s') = n_written (f_net s) /\ n_dbytes (f_net s') = n_written (f_net s) /\
    (eof (f_net s) -> n_ends (f_net s') = 1 /\ s_finished (n_send (f_net s')) = true) /\
    (~ eof (f_net s) -> n_ends (f_net s') = 0 /\ s_finished (n_send (f_net s')) = false).
Proof. exact fair_schedule_completes_fc_code. Qed.
Print Assumptions fair_schedule_completes_fc_thm.

(* the twin for BASE = next_offset is false: a reachable state (window 4: write 4 bytes + FIN, emit, the frame is lost)
   that every schedule not containing the late arrival of the dropped frame leaves unchanged: nothing is ever reported *)
Theorem fair_schedule_completes_fc_next_refuted_thm :
  exists w s, 0 < w /\ fc_reach BaseNext w s /\ n_dbytes (f_net s) <> n_written (f_net s) /\
    forall ops s', ~ In (FDeliver 0) ops -> run_fc BaseNext s ops = Some s' ->
      s' = s /\ n_dbytes (f_net s') = [] /\ s_finished (n_send (f_net s')) = false.
Proof. exact fair_schedule_completes_fc_next_refuted. Qed.
Print Assumptions fair_schedule_completes_fc_next_refuted_thm.
