From AQ Require Import gen.C13Consts gen.C16Close model.Builder model.CloseFrame proofs.BuilderProofs proofs.CloseEmit proofs.CloseRound.
From AQ Require Import lib.Base model.H3Parse model.H0 proofs.H3Total.

(* For every event sequence (any stream ids, bytes, chunking, datagrams) and all oracle answers obeying the
   QPACK contract, H3Connection.handle_event (model of the code with docs/C16-fix-1..3.patch) returns events or
   closes with an error code; no exception escapes. *)
Theorem h3_handle_event_total : forall tr client dgram,
  trace_ok all_fixed (conn_init client dgram) tr ->
  forall o, In o (run all_fixed (conn_init client dgram) tr) -> forall k, o <> Raised k.
Proof. exact h3_total. Qed.
Print Assumptions h3_handle_event_total.

(* the same for every model variant that has the three C16 fixes, from every connection state *)
Theorem h3_handle_event_total_any_state : forall fx tr c,
  c16_fixed fx -> trace_ok fx c tr ->
  forall o, In o (run fx c tr) -> exists r, o = Events (fst r) \/ o = Closed (snd r).
Proof. exact run_total. Qed.
Print Assumptions h3_handle_event_total_any_state.

(* On the code as pinned the statement is false: four inputs (obeying the contract) make an exception escape. *)
Theorem h3_handle_event_total_refuted :
  run unfixed (conn_init false true) witness_maxpush_assert = [Raised X_MAXPUSH_ASSERT] /\
  run unfixed (conn_init false true) witness_maxpush_read = [Raised X_MAXPUSH_READ] /\
  run unfixed (conn_init false true) witness_settings = [Raised X_SETTINGS_READ] /\
  run unfixed (conn_init true true) witness_pushpromise = [Raised X_PUSHPROMISE_READ] /\
  trace_ok unfixed (conn_init false true) witness_maxpush_assert /\
  trace_ok unfixed (conn_init false true) witness_maxpush_read /\
  trace_ok unfixed (conn_init false true) witness_settings /\
  trace_ok unfixed (conn_init true true) witness_pushpromise.
Proof. exact h3_total_refuted. Qed.
Print Assumptions h3_handle_event_total_refuted.

Theorem h0_handle_event_total : forall tr c o k, In o (h0_run true c tr) -> o <> H0Raised k.
Proof. exact h0_total. Qed.
Print Assumptions h0_handle_event_total.

Theorem h0_handle_event_total_refuted :
  h0_run false (h0_init false) [(0, [71; 69; 84; 13; 10], false)] = [H0Raised 51].
Proof. exact h0_total_refuted. Qed.
Print Assumptions h0_handle_event_total_refuted.

(* The exit of H3Connection._get_or_create_stream never removes a stream that still waits for the encoder stream,
   so the stream looked up by the resume loop (self._stream[stream_id], the KeyError site) is present whenever
   the decoder reports it unblocked after a feed_header that raised StreamBlocked. *)
Theorem blocked_stream_never_dropped : forall c sid x s,
  find_stream x (c_streams c) = Some s -> s_blocked s = true -> has_stream (c_streams (pop_if_ended c sid)) x.
Proof. exact pop_keeps_blocked. Qed.
Print Assumptions blocked_stream_never_dropped.

(* CLOSE FRAME EMITTABLE ("after such a close the transport can still emit its closing packet, whatever text the error
   message contains"): the closing round of QuicConnection.datagrams_to_send with _write_connection_close_frame
   (model/CloseFrame.v, over C13's model of QuicPacketBuilder), handshake confirmed (one 1-RTT packet), builder as that
   round creates it (close_cfg_ok: max_datagram_size >= 1200, connection ids <= 20 bytes, no flight / total budget, the
   CryptoPair can encrypt a full datagram).  For EVERY error code and frame type below 2^62 and EVERY reason phrase -- any
   number of characters of any UTF-8 width 1..4 -- the round returns normally (no QuicPacketBuilderStop, BufferWriteError,
   ValueError, ... escapes) and hands back exactly one datagram with one 1-RTT packet of
   header + 1 + varint(code) [+ varint(frame type)] + varint(length) + shortened reason + AEAD tag bytes, which is at most
   max_datagram_size.  short_len = the reason shortened to what fits behind a TRANSPORT_CLOSE header (fix 146fc24). *)
Theorem close_frame_emittable : forall c pn, close_cfg_ok c ->
  forall code ftype reason,
  0 <= code < 4611686018427387904 ->
  match ftype with Some ft => 0 <= ft < 4611686018427387904 | None => True end ->
  widths_ok reason ->
  exists n1 n2 n3, 1 <= n1 <= 8 /\ 1 <= n2 <= 8 /\ 0 <= n3 <= 8 /\
    let len := SHORT_HEADER_FIXED + c_peer c + 1 + n1 + n2 + n3 + short_len c reason + AEAD_TAG_SIZE in
    close_round c pn [PT_ONE_RTT] code ftype reason = (ODone, [len], [(PT_ONE_RTT, len, false, false, false, pn)]) /\
    len <= c_mds c.
Proof. exact close_1rtt. Qed.
Print Assumptions close_frame_emittable.

(* ... and the closing round IN GENERAL (handshake not confirmed: a CONNECTION_CLOSE goes into every packet number space
   whose send keys are valid): any sequence of INITIAL / HANDSHAKE packets followed by the 1-RTT packet, client or server,
   any Retry token length (a packet type whose header leaves no room for the frame is skipped: QuicPacketBuilderStop is
   caught), every code / frame type / reason: the round returns normally -- no QuicPacketBuilderStop, BufferWriteError,
   AssertionError, ValueError, CryptoError escapes --, hands back at least one datagram (the 1-RTT packet always carries
   its frame), and no datagram exceeds max_datagram_size. *)
Theorem close_frame_emittable_any_round : forall c, close_cfg_ok c ->
  forall pn pre code ftype reason,
  Forall (fun t => t = PT_INITIAL \/ t = PT_HANDSHAKE) pre -> args_ok code ftype reason ->
  exists d pk, close_round c pn (pre ++ [PT_ONE_RTT]) code ftype reason = (ODone, d, pk) /\
               d <> [] /\ Forall (fun n => n <= c_mds c) d.
Proof. exact close_round_general. Qed.
Print Assumptions close_frame_emittable_any_round.

(* every error code the HTTP/3 layer can close with (error_code of ProtocolError and its subclasses, read from the
   source by tools/gen/c16_close.py) is in range, and every raise site of the source uses one of them *)
Theorem h3_close_codes_in_range :
  Forall (fun k => 0 <= k < 4611686018427387904) H3_CLOSE_CODES /\
  Forall (fun s => In (fst (fst s)) H3_CLOSE_CODES) H3_CLOSE_SITES.
Proof. exact (conj h3_codes_varint h3_sites_codes). Qed.
Print Assumptions h3_close_codes_in_range.
