From AQ Require Import lib.Base model.H3Parse model.H0 proofs.H3Total.

(* For every event sequence (any stream ids, bytes, chunking, datagrams) and all oracle answers obeying the
   QPACK contract, H3Connection.handle_event (model of the code with docs/C16-fix-1..3.patch) returns events or
   closes with an error code; no exception escapes. *)
Theorem h3_handle_event_total : forall tr client dgram,
  trace_ok all_fixed (conn_init client dgram) tr ->
  forall o, In o (run all_fixed (conn_init client dgram) tr) -> forall k, o <> Raised k.
Proof. exact h3_total. Qed.
Print Assumptions h3_handle_event_total.

(* the same for every model variant that has the three C16 fixes, from every connection state *)
Theorem h3_handle_event_total_any_state : forall fx tr c,
  c16_fixed fx -> trace_ok fx c tr ->
  forall o, In o (run fx c tr) -> exists r, o = Events (fst r) \/ o = Closed (snd r).
Proof. exact run_total. Qed.
Print Assumptions h3_handle_event_total_any_state.

(* On the code as pinned the statement is false: four inputs (obeying the contract) make an exception escape. *)
Theorem h3_handle_event_total_refuted :
  run unfixed (conn_init false true) witness_maxpush_assert = [Raised X_MAXPUSH_ASSERT] /\
  run unfixed (conn_init false true) witness_maxpush_read = [Raised X_MAXPUSH_READ] /\
  run unfixed (conn_init false true) witness_settings = [Raised X_SETTINGS_READ] /\
  run unfixed (conn_init true true) witness_pushpromise = [Raised X_PUSHPROMISE_READ] /\
  trace_ok unfixed (conn_init false true) witness_maxpush_assert /\
  trace_ok unfixed (conn_init false true) witness_maxpush_read /\
  trace_ok unfixed (conn_init false true) witness_settings /\
  trace_ok unfixed (conn_init true true) witness_pushpromise.
Proof. exact h3_total_refuted. Qed.
Print Assumptions h3_handle_event_total_refuted.

Theorem h0_handle_event_total : forall tr c o k, In o (h0_run true c tr) -> o <> H0Raised k.
Proof. exact h0_total. Qed.
Print Assumptions h0_handle_event_total.

Theorem h0_handle_event_total_refuted :
  h0_run false (h0_init false) [(0, [71; 69; 84; 13; 10], false)] = [H0Raised 51].
Proof. exact h0_total_refuted. Qed.
Print Assumptions h0_handle_event_total_refuted.

(* The exit of H3Connection._get_or_create_stream never removes a stream that still waits for the encoder stream,
   so the stream looked up by the resume loop (self._stream[stream_id], the KeyError site) is present whenever
   the decoder reports it unblocked after a feed_header that raised StreamBlocked. *)
Theorem blocked_stream_never_dropped : forall c sid x s,
  find_stream x (c_streams c) = Some s -> s_blocked s = true -> has_stream (c_streams (pop_if_ended c sid)) x.
Proof. exact pop_keeps_blocked. Qed.
Print Assumptions blocked_stream_never_dropped.
