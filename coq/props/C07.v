(* C07  Receive-side limits are enforced and buffering stays bounded.
   Only statements here; proofs live in coq/proofs/ConnLimitsP.v and ConnLimitsRefuted.v. *)
From AQ Require Import lib.Base model.RangeSet model.StreamRecv model.ConnLimits model.ConnLimitsSpec
  gen.C07Consts proofs.RangeSetP proofs.ConnLimitsP proofs.ConnLimitsAdv proofs.ConnLimitsRefuted.

(* over_limit_closes, part 1: in EVERY state, a STREAM / RESET_STREAM / MAX_STREAM_DATA / STREAM_DATA_BLOCKED
   frame that would create a peer-initiated stream beyond the current MAX_STREAMS value is answered with
   STREAM_LIMIT_ERROR (this check comes before the flow-control checks, whatever the frame carries). *)
Theorem over_limit_closes_new_stream : forall c sid,
  is_new c sid -> sid / 4 + 1 > l_value (stream_limit_of c sid) ->
  (forall ft off data, off + Zlen data <= UINT_VAR_MAX -> can_receive c sid = true ->
     fst (handle_stream c ft sid off data) = OErr E_STREAM_LIMIT_ERROR ft) /\
  (forall fs, can_receive c sid = true -> fst (handle_reset_stream c sid fs) = OErr E_STREAM_LIMIT_ERROR FT_RESET_STREAM) /\
  (forall ft, (if ft =? FT_MAX_STREAM_DATA then can_send c sid else can_receive c sid) = true ->
     fst (handle_touch c ft sid) = OErr E_STREAM_LIMIT_ERROR ft).
Proof. exact new_stream_over_limit. Qed.
Print Assumptions over_limit_closes_new_stream.

(* over_limit_closes, part 2: in EVERY state, for a well-formed STREAM frame on a stream whose state exists or
   may be created (s = that stream: the stored one, or a fresh one with the configured limit), exactly this
   order and these codes: stream data limit -> FLOW_CONTROL_ERROR; connection data limit charged with
   newly_received = max(0, end - highest_offset) -> FLOW_CONTROL_ERROR; final-size conflict -> FINAL_SIZE_ERROR;
   otherwise the frame is accepted. *)
Theorem over_limit_closes_stream : forall c ft sid off data s c1,
  off + Zlen data <= UINT_VAR_MAX -> can_receive c sid = true -> get_or_create c sid = GStream s c1 ->
  let e := off + Zlen data in
  let newly := Z.max 0 (e - r_highest (sm_recv s)) in
  let out := fst (handle_stream c ft sid off data) in
  (e > sm_msd s -> out = OErr E_FLOW_CONTROL_ERROR ft) /\
  (e <= sm_msd s -> l_used (c_data c) + newly > l_value (c_data c) -> out = OErr E_FLOW_CONTROL_ERROR ft) /\
  (e <= sm_msd s -> l_used (c_data c) + newly <= l_value (c_data c) -> fs_conflict (sm_recv s) e (Z.odd ft) ->
     out = OErr E_FINAL_SIZE_ERROR ft) /\
  (e <= sm_msd s -> l_used (c_data c) + newly <= l_value (c_data c) -> ~ fs_conflict (sm_recv s) e (Z.odd ft) ->
     exists ev, out = OOk ev).
Proof. exact stream_frame_checks. Qed.
Print Assumptions over_limit_closes_stream.

(* which stream get_or_create hands to the checks above *)
Theorem over_limit_closes_which_stream : forall c sid s c1, get_or_create c sid = GStream s c1 ->
  c_data c1 = c_data c /\
  ((sget sid (c_streams c) = Some s /\ c1 = c) \/
   (is_new c sid /\ sid / 4 + 1 <= l_value (stream_limit_of c sid) /\
    s = mkStrm (c_msd c) (c_msd c) (unidirectional sid) recv_init)).
Proof. exact goc_cases. Qed.
Print Assumptions over_limit_closes_which_stream.

(* over_limit_closes, part 3: the same table for RESET_STREAM (final size against the stream limit, then the
   connection limit, then against a final size fixed earlier). *)
Theorem over_limit_closes_reset : forall c sid fs s c1,
  can_receive c sid = true -> get_or_create c sid = GStream s c1 ->
  let newly := Z.max 0 (fs - r_highest (sm_recv s)) in
  let out := fst (handle_reset_stream c sid fs) in
  let ft := FT_RESET_STREAM in
  (fs > sm_msd s -> out = OErr E_FLOW_CONTROL_ERROR ft) /\
  (fs <= sm_msd s -> l_used (c_data c) + newly > l_value (c_data c) -> out = OErr E_FLOW_CONTROL_ERROR ft) /\
  (fs <= sm_msd s -> l_used (c_data c) + newly <= l_value (c_data c) ->
     (exists f, r_final (sm_recv s) = Some f /\ f <> fs) -> out = OErr E_FINAL_SIZE_ERROR ft) /\
  (fs <= sm_msd s -> l_used (c_data c) + newly <= l_value (c_data c) ->
     ~ (exists f, r_final (sm_recv s) = Some f /\ f <> fs) -> out = OOk RReset).
Proof. exact reset_stream_checks. Qed.
Print Assumptions over_limit_closes_reset.

(* buffer_bounded: after EVERY sequence of operations (frames from the peer, write passes, lost MAX_* frames,
   local stream opens) on a fresh connection:
   - each stream's reassembly buffer holds at most highest_offset - delivered <= max_stream_data_local bytes;
   - the buffers of all streams together hold at most max_data.used <= max_data.value bytes;
   - the CRYPTO reassembly buffer holds at most MAX_PENDING_CRYPTO bytes;
   - at most MAX_REMOTE_CHALLENGES path challenges are queued (per path), MAX_LOCAL_CHALLENGES local ones,
     min(4 * active_connection_id_limit, MAX_PENDING_RETIRES) retirements, active_connection_id_limit peer CIDs. *)
Theorem buffer_bounded : forall cl msd md cb ops os c,
  0 <= msd -> 0 <= md -> 0 <= cb ->
  run (conn_init cl msd md cb) ops = (os, c) ->
  (forall sid s, In (sid, s) (c_streams c) ->
     0 <= r_start (sm_recv s) /\
     Zlen (r_buf (sm_recv s)) <= r_highest (sm_recv s) - r_start (sm_recv s) /\
     r_highest (sm_recv s) <= sm_msd s) /\
  sum_buf (c_streams c) <= sum_hi (c_streams c) /\
  sum_hi (c_streams c) <= l_used (c_data c) /\
  l_used (c_data c) <= l_value (c_data c) /\
  Zlen (r_buf (c_crypto c)) <= MAX_PENDING_CRYPTO /\
  Zlen (c_chal c) <= MAX_REMOTE_CHALLENGES /\
  Zlen (c_lchal c) <= MAX_LOCAL_CHALLENGES /\
  Zlen (c_retire c) <= Z.min (LOCAL_ACTIVE_CID_LIMIT * 4) MAX_PENDING_RETIRES /\
  1 + Zlen (c_cid_avail c) <= LOCAL_ACTIVE_CID_LIMIT.
Proof. exact buffer_bounded_run. Qed.
Print Assumptions buffer_bounded.

(* the receiver bound used above, for every frame in every receiver state satisfying RB *)
Theorem receiver_buffer_step : forall st off data fin, RB st ->
  let '(o, st') := handle_frame st off data fin in
  RB st' /\ r_start st <= r_start st' /\ top st' <= Z.max (top st) (off + Zlen data) /\
  (o = RFinalSizeError -> st' = st) /\
  (o <> RFinalSizeError -> r_highest st' = Z.max (r_highest st) (off + Zlen data)).
Proof. exact hf_bounds. Qed.
Print Assumptions receiver_buffer_step.

(* The value the connection-level checks use (max_data, max_streams_bidi, max_streams_uni) is, after EVERY op
   sequence, exactly the last value written to the wire in a MAX_DATA / MAX_STREAMS frame -- or the transport
   parameter if none was written: "exceeding the advertised value" and "exceeding .value" are the same thing,
   also when MAX_* frames are lost and re-sent.  (adv scans the outcomes of the run for the frames written.) *)
Theorem advertised_is_enforced : forall cl msd md cb ops os c,
  run (conn_init cl msd md cb) ops = (os, c) ->
  l_value (c_data c) = adv FT_MAX_DATA 0 os md /\
  l_value (c_bidi c) = adv FT_MAX_STREAMS_BIDI 0 os INIT_MAX_STREAMS_BIDI /\
  l_value (c_uni c) = adv FT_MAX_STREAMS_UNI 0 os INIT_MAX_STREAMS_UNI.
Proof. exact advertised_is_enforced. Qed.
Print Assumptions advertised_is_enforced.

(* within_limit_never_accused is REFUTED by the faithful model: a peer that stays within every limit advertised
   on the wire and is final-size consistent (model/ConnLimitsSpec.v) is answered with FLOW_CONTROL_ERROR.
   Witness: RESET_STREAM(0, 100) twice (or once, followed by late STREAM data below the final size), then
   RESET_STREAM(4, 3900) with max_data = 4000: the bytes of stream 0 are charged twice. *)
Theorem within_limit_never_accused_refuted :
  exists client msd md ops, 0 <= msd /\ 0 <= md /\ accused (conn_init client msd md 0) (peer_init msd md) ops = true.
Proof. exact never_accused_refuted. Qed.
Print Assumptions within_limit_never_accused_refuted.

(* "max_data.used = sum over streams of what the peer has committed" is REFUTED (same cause) *)
Theorem used_accounting_refuted :
  exists client msd md ops, 0 <= msd /\ 0 <= md /\
    l_used (c_data (snd (run (conn_init client msd md 0) ops))) > peer_total (peer_init msd md) ops.
Proof. exact used_accounting_refuted. Qed.
Print Assumptions used_accounting_refuted.
