(* C07  Receive-side limits are enforced and buffering stays bounded.
   Only statements here; proofs live in coq/proofs/ConnLimitsP.v and ConnLimitsRefuted.v. *)
From AQ Require Import lib.Base model.RangeSet model.StreamRecv model.ConnLimits model.ConnLimitsSpec
  gen.C07Consts proofs.RangeSetP proofs.ConnLimitsP proofs.ConnLimitsAdv proofs.ConnLimitsUsed proofs.ConnLimitsSim
  proofs.ConnLimitsDeliv proofs.ConnLimitsMsd model.ConnLimitsCut proofs.ConnLimitsCutP proofs.ConnLimitsCutInv
  proofs.ConnLimitsCutEq proofs.ConnLimitsCutOver proofs.ConnLimitsBurst.

(* over_limit_closes, part 1: in EVERY state, a STREAM / RESET_STREAM / MAX_STREAM_DATA / STREAM_DATA_BLOCKED
   frame that would create a peer-initiated stream beyond the current MAX_STREAMS value is answered with
   STREAM_LIMIT_ERROR (this check comes before the flow-control checks, whatever the frame carries). *)
Theorem over_limit_closes_new_stream : forall c sid,
  is_new c sid -> sid / 4 + 1 > l_value (stream_limit_of c sid) ->
  (forall ft off data, off + Zlen data <= UINT_VAR_MAX -> can_receive c sid = true ->
     fst (handle_stream c ft sid off data) = OErr E_STREAM_LIMIT_ERROR ft) /\
  (forall fs, can_receive c sid = true -> fst (handle_reset_stream c sid fs) = OErr E_STREAM_LIMIT_ERROR FT_RESET_STREAM) /\
  (forall ft, (if ft =? FT_MAX_STREAM_DATA then can_send c sid else can_receive c sid) = true ->
     fst (handle_touch c ft sid) = OErr E_STREAM_LIMIT_ERROR ft).
Proof. exact new_stream_over_limit. Qed.
Print Assumptions over_limit_closes_new_stream.

(* over_limit_closes, part 2: in EVERY state, for a well-formed STREAM frame on a stream whose state exists or
   may be created (s = that stream: the stored one, or a fresh one with the configured limit), exactly this
   order and these codes: stream data limit -> FLOW_CONTROL_ERROR; connection data limit charged with
   newly_received = max(0, end - highest_offset) -> FLOW_CONTROL_ERROR; final-size conflict -> FINAL_SIZE_ERROR;
   otherwise the frame is accepted. *)
Theorem over_limit_closes_stream : forall c ft sid off data s c1,
  off + Zlen data <= UINT_VAR_MAX -> can_receive c sid = true -> get_or_create c sid = GStream s c1 ->
  let e := off + Zlen data in
  let newly := Z.max 0 (e - r_highest (sm_recv s)) in
  let out := fst (handle_stream c ft sid off data) in
  (e > sm_msd s -> out = OErr E_FLOW_CONTROL_ERROR ft) /\
  (e <= sm_msd s -> l_used (c_data c) + newly > l_value (c_data c) -> out = OErr E_FLOW_CONTROL_ERROR ft) /\
  (e <= sm_msd s -> l_used (c_data c) + newly <= l_value (c_data c) -> fs_conflict (sm_recv s) e (Z.odd ft) ->
     out = OErr E_FINAL_SIZE_ERROR ft) /\
  (e <= sm_msd s -> l_used (c_data c) + newly <= l_value (c_data c) -> ~ fs_conflict (sm_recv s) e (Z.odd ft) ->
     exists ev, out = OOk ev).
Proof. exact stream_frame_checks. Qed.
Print Assumptions over_limit_closes_stream.

(* which stream get_or_create hands to the checks above *)
Theorem over_limit_closes_which_stream : forall c sid s c1, get_or_create c sid = GStream s c1 ->
  c_data c1 = c_data c /\
  ((sget sid (c_streams c) = Some s /\ c1 = c) \/
   (is_new c sid /\ sid / 4 + 1 <= l_value (stream_limit_of c sid) /\
    s = mkStrm (c_msd c) (c_msd c) (unidirectional sid) recv_init)).
Proof. exact goc_cases. Qed.
Print Assumptions over_limit_closes_which_stream.

(* over_limit_closes, part 3: the same table for RESET_STREAM (final size against the stream limit, then the
   connection limit, then against a final size fixed earlier). *)
Theorem over_limit_closes_reset : forall c sid fs s c1,
  can_receive c sid = true -> get_or_create c sid = GStream s c1 ->
  let newly := Z.max 0 (fs - r_highest (sm_recv s)) in
  let out := fst (handle_reset_stream c sid fs) in
  let ft := FT_RESET_STREAM in
  (fs > sm_msd s -> out = OErr E_FLOW_CONTROL_ERROR ft) /\
  (fs <= sm_msd s -> l_used (c_data c) + newly > l_value (c_data c) -> out = OErr E_FLOW_CONTROL_ERROR ft) /\
  (fs <= sm_msd s -> l_used (c_data c) + newly <= l_value (c_data c) ->
     (exists f, r_final (sm_recv s) = Some f /\ f <> fs) -> out = OErr E_FINAL_SIZE_ERROR ft) /\
  (fs <= sm_msd s -> l_used (c_data c) + newly <= l_value (c_data c) ->
     ~ (exists f, r_final (sm_recv s) = Some f /\ f <> fs) -> out = OOk RReset).
Proof. exact reset_stream_checks. Qed.
Print Assumptions over_limit_closes_reset.

(* buffer_bounded: after EVERY sequence of operations (frames from the peer on any path, write passes, lost MAX_*
   frames, local stream opens) on a fresh connection:
   - each stream's reassembly buffer holds at most highest_offset - delivered <= max_stream_data_local bytes;
   - the buffers of all streams together hold at most max_data.used <= max_data.value bytes
     (c_gone: ghost total of the highest offsets of discarded streams);
   - the CRYPTO reassembly buffer holds at most MAX_PENDING_CRYPTO bytes, and the TLS handshake-message
     reassembly buffer fewer than max(4, MAX_HANDSHAKE_MESSAGE_SIZE) bytes;
   - at most MAX_REMOTE_CHALLENGES path challenges are queued per path and, over all remembered paths,
     at most MAX_NETWORK_PATHS * MAX_REMOTE_CHALLENGES;
   - MAX_LOCAL_CHALLENGES local challenges, min(4 * active_connection_id_limit, MAX_PENDING_RETIRES) retirements,
     active_connection_id_limit peer CIDs. *)
Theorem buffer_bounded : forall cl msd md cb ops os c,
  0 <= msd -> 0 <= md -> 0 <= cb ->
  run (conn_init cl msd md cb) ops = (os, c) ->
  (forall sid s, In (sid, s) (c_streams c) ->
     0 <= r_start (sm_recv s) /\
     Zlen (r_buf (sm_recv s)) <= r_highest (sm_recv s) - r_start (sm_recv s) /\
     r_highest (sm_recv s) <= sm_msd s) /\
  sum_buf (c_streams c) <= sum_hi (c_streams c) /\
  sum_hi (c_streams c) + c_gone c <= l_used (c_data c) /\ 0 <= c_gone c /\
  l_used (c_data c) <= l_value (c_data c) /\
  Zlen (r_buf (c_crypto c)) <= MAX_PENDING_CRYPTO /\
  (forall m, TLS_MESSAGE_CAP = Some m -> Zlen (c_tls c) < Z.max 4 m) /\
  Zlen (c_chal c) <= MAX_REMOTE_CHALLENGES /\
  (forall m, NETWORK_PATHS_CAP = Some m -> 1 <= m ->
     Zlen (c_chal c) + sum_chal (c_paths c) <= m * MAX_REMOTE_CHALLENGES) /\
  Zlen (c_lchal c) <= MAX_LOCAL_CHALLENGES /\
  Zlen (c_retire c) <= Z.min (LOCAL_ACTIVE_CID_LIMIT * 4) MAX_PENDING_RETIRES /\
  1 + Zlen (c_cid_avail c) <= LOCAL_ACTIVE_CID_LIMIT.
Proof. exact buffer_bounded_run. Qed.
Print Assumptions buffer_bounded.

(* the two caps of buffer_bounded exist in the tree under test, and an accepted RESET_STREAM advances highest_offset
   (the three are probed from the source by tools/gen/c07_consts.py; this does not check on a tree without the fixes) *)
Theorem limits_present :
  (exists m, TLS_MESSAGE_CAP = Some m) /\ (exists m, NETWORK_PATHS_CAP = Some m /\ 1 <= m) /\ RESET_ADVANCES_HIGHEST = true.
Proof. exact caps_present. Qed.
Print Assumptions limits_present.

(* used_is_sum_of_highest: after EVERY op sequence (RESET_STREAM, duplicates, late data, discarded streams included)
   max_data.used is exactly the sum of highest_offset over all streams, live and discarded. *)
Theorem used_is_sum_of_highest : forall cl msd md cb ops os c,
  0 <= msd -> 0 <= md -> 0 <= cb ->
  run (conn_init cl msd md cb) ops = (os, c) ->
  l_used (c_data c) = sum_hi (c_streams c) + c_gone c.
Proof. exact used_exact. Qed.
Print Assumptions used_is_sum_of_highest.

(* within_limit_never_accused (FULL strength): for EVERY op sequence (peer frames, write passes, lost MAX_* frames, local
   opens, ...), a peer whose frames stay within EVERY limit AS ADVERTISED ON THE WIRE so far -- connection: initial_max_data,
   then MAX_DATA frames; per stream: initial_max_stream_data_*, then the MAX_STREAM_DATA frames written for that stream;
   stream count: initial_max_streams_*, then MAX_STREAMS frames (the ledger of model/ConnLimitsSpec.v, `accused true`) --
   and that is final-size consistent, is never answered with FLOW_CONTROL_ERROR, STREAM_LIMIT_ERROR or FINAL_SIZE_ERROR.
   Proof: simulation Sim (ConnLimitsSim.v) + invariant MSim (ConnLimitsMsd.v): p_adv_msd(sid) <= max_stream_data_local(sid)
   for every receivable stream whose state was not discarded (a frame for any other stream is answered with
   STREAM_STATE_ERROR or ignored).  Non-vacuity: never_accused_full_nonvacuous. *)
Theorem within_limit_never_accused : forall cl msd md cb ops,
  0 <= msd -> 0 <= md -> 0 <= cb ->
  accused true (conn_init cl msd md cb) (peer_init msd md) ops = false.
Proof. exact never_accused_full. Qed.
Print Assumptions within_limit_never_accused.

(* the complement: the same for a peer that stays within the per-stream limit the endpoint currently ENFORCES
   (max_stream_data_local, `accused false`), which is never below the wire value (MSim) *)
Theorem within_enforced_limit_never_accused : forall cl msd md cb ops,
  0 <= msd -> 0 <= md -> 0 <= cb ->
  accused false (conn_init cl msd md cb) (peer_init msd md) ops = false.
Proof. exact never_accused_partial. Qed.
Print Assumptions within_enforced_limit_never_accused.

(* the receiver bound used above, for every frame in every receiver state satisfying RB *)
Theorem receiver_buffer_step : forall st off data fin, RB st ->
  let '(o, st') := handle_frame st off data fin in
  RB st' /\ r_start st <= r_start st' /\ top st' <= Z.max (top st) (off + Zlen data) /\
  (o = RFinalSizeError -> st' = st) /\
  (o <> RFinalSizeError -> r_highest st' = Z.max (r_highest st) (off + Zlen data)).
Proof. exact hf_bounds. Qed.
Print Assumptions receiver_buffer_step.

(* The value the connection-level checks use (max_data, max_streams_bidi, max_streams_uni) is, after EVERY op
   sequence, exactly the last value written to the wire in a MAX_DATA / MAX_STREAMS frame -- or the transport
   parameter if none was written: "exceeding the advertised value" and "exceeding .value" are the same thing,
   also when MAX_* frames are lost and re-sent.  (adv scans the outcomes of the run for the frames written.) *)
Theorem advertised_is_enforced : forall cl msd md cb ops os c,
  run (conn_init cl msd md cb) ops = (os, c) ->
  l_value (c_data c) = adv FT_MAX_DATA 0 os md /\
  l_value (c_bidi c) = adv FT_MAX_STREAMS_BIDI 0 os INIT_MAX_STREAMS_BIDI /\
  l_value (c_uni c) = adv FT_MAX_STREAMS_UNI 0 os INIT_MAX_STREAMS_UNI.
Proof. exact advertised_is_enforced. Qed.
Print Assumptions advertised_is_enforced.


(* Delivery outcomes of the packets that advertised limits.  within_limit_never_accused and advertised_is_enforced
   above already quantify over op sequences that contain LimitLost / StreamLimitLost at ANY position (a MAX_DATA /
   MAX_STREAMS / MAX_STREAM_DATA frame declared lost, with peer frames before the re-advertisement): the limit in force
   for a check is the largest value ever written to the wire, whatever happened to the packet.  The two statements
   below say why, per frame and in EVERY state:
   verdict_reads_credit_only: two states that agree on the credit granted (Limit.value / .used of the three limits,
   max_stream_data_local and the receiver of every stream, the discarded streams) give the same verdict on every STREAM /
   RESET_STREAM / MAX_STREAM_DATA / STREAM_DATA_BLOCKED frame -- Limit.sent and max_stream_data_local_sent are never read;
   lost_advertisement_changes_no_verdict: so declaring any advertisement lost changes no verdict. *)
Theorem verdict_reads_credit_only : forall c c' o, credit_eq c c' -> limited_frame o = true ->
  fst (step c o) = fst (step c' o).
Proof. exact verdict_reads_credit_only. Qed.
Print Assumptions verdict_reads_credit_only.

Theorem lost_advertisement_changes_no_verdict : forall c o, limited_frame o = true ->
  (forall k, fst (step (limit_lost c k) o) = fst (step c o)) /\
  (forall sid, fst (step (stream_limit_lost c sid) o) = fst (step c o)).
Proof. exact lost_advertisement_no_verdict. Qed.
Print Assumptions lost_advertisement_changes_no_verdict.

(* the tree under test has this shape: each of the five receive-side checks (connection data limit in the STREAM and the
   RESET_STREAM handler, stream data limit in both, stream count in _get_or_create_stream) compares against the granted
   value (code 0: Limit.value / max_stream_data_local; 1 would be the "sent" bookkeeping field, 2 .used), and the LOST
   branch of the two delivery callbacks assigns nothing but the "sent" field (probed with ast on every run by
   tools/gen/c07_consts.py; this stops checking on a tree where a check reads another field) *)
Theorem limit_checks_read_granted_value :
  CHECK_FIELD_CONN_STREAM = 0 /\ CHECK_FIELD_CONN_RESET = 0 /\ CHECK_FIELD_MSD_STREAM = 0 /\ CHECK_FIELD_MSD_RESET = 0 /\
  CHECK_FIELD_COUNT = 0 /\ LOST_LIMIT_TOUCHES_ONLY_SENT = true.
Proof. exact checks_read_granted. Qed.
Print Assumptions limit_checks_read_granted_value.


(* ---- write passes cut short by QuicPacketBuilderStop (model/ConnLimitsCut.v: builder budget as an input, as in C18) ----
   over_advertised_limit_closes_refuted: in the tree under test the limit writers assign the raised value BEFORE
   builder.start_frame() (RAISE_BEFORE_START_FRAME = true, probed from the source on every run and recorded in the evidence; in a
   tree that assigns the value only after start_frame() returned the premise is false and these statements are vacuous), so a MAX_DATA /
   MAX_STREAM_DATA / MAX_STREAMS frame refused for lack of congestion window leaves the raised value in force while nothing
   was advertised: there are histories in which a STREAM frame BEYOND every limit the peer ever saw on the wire is accepted
   (tolerated ... = true) -- the first sentence of C07 fails there.  Witnesses for the three kinds of limit:
   cut_pass_tolerates_witnesses; replayed on the real QuicConnection (docs/C07.md, F-C07-4). *)
Theorem over_advertised_limit_closes_refuted : RAISE_BEFORE_START_FRAME = true -> exists cl msd md ops,
  0 <= msd /\ 0 <= md /\ tolerated (conn_init cl msd md 0) (peer_init msd md) ops = true.
Proof. exact over_advertised_refuted. Qed.
Print Assumptions over_advertised_limit_closes_refuted.

Theorem cut_pass_tolerates_witnesses : RAISE_BEFORE_START_FRAME = true ->
  tolerated (conn_init false 3000 2000 0) (peer_init 3000 2000) w_cut_data = true /\
  tolerated (conn_init false 1000 4000 0) (peer_init 1000 4000) w_cut_stream = true /\
  tolerated (conn_init false 1000 4000 0) (peer_init 1000 4000) w_cut_count = true.
Proof. exact cut_pass_tolerates. Qed.
Print Assumptions cut_pass_tolerates_witnesses.

(* The other direction holds in EVERY state, cut or not: whatever a pass writes is what is enforced afterwards and no limit
   ever goes down -- the endpoint never enforces LESS than a value it has put on the wire, and Limit.sent /
   max_stream_data_local_sent are only assigned when the frame is in the packet. *)
Theorem cut_pass_writes_what_it_enforces : forall ft l b, 0 <= l_value l ->
  let '(l', w, r) := raise_limit_b ft l b in
  l_value l <= l_value l' /\ l_used l' = l_used l /\
  Forall (fun x => x = W ft 0 (l_value l')) w /\
  (w <> [] -> l_sent l' = l_value l') /\ (r = None -> w = [] /\ l_sent l' = l_sent l).
Proof. exact raise_limit_b_sound. Qed.
Print Assumptions cut_pass_writes_what_it_enforces.

Theorem cut_pass_stream_frames_carry_enforced_limit : forall l, Forall (fun p => 0 <= sm_msd (snd p)) l -> forall b,
  let '(l', w, r) := raise_streams_b l b in
  Forall2 (fun p p' => fst p' = fst p /\ strm_le (snd p) (snd p')) l l' /\
  Forall (fun x => match x with W ft a v => ft = FT_MAX_STREAM_DATA /\
                     exists s', In (a, s') l' /\ v = sm_msd s' /\ sm_sent s' = v end) w.
Proof. exact raise_streams_b_sound. Qed.
Print Assumptions cut_pass_stream_frames_carry_enforced_limit.


(* ---- histories that CONTAIN cut passes (round 5) ----
   within_limit_never_accused_cut: within_limit_never_accused for EVERY sequence of the extended operations -- peer frames,
   complete passes, passes cut by the builder after any number b of frames with any keep list (WriteCut b keepl), lost MAX_*
   frames at any position, local opens, ... -- in ANY tree (whatever RAISE_BEFORE_START_FRAME is): a peer within every limit
   written on the wire so far and final-size consistent is never answered with FLOW_CONTROL_ERROR / STREAM_LIMIT_ERROR /
   FINAL_SIZE_ERROR.  Proof: the invariants CInv, Sim, MSim through the six stages of a cut pass (relation Pass of
   proofs/ConnLimitsCutInv.v, reflexive and transitive) and discard.  Non-vacuity: xnever_accused_nonvacuous. *)
Theorem within_limit_never_accused_cut : forall cl msd md cb ops,
  0 <= msd -> 0 <= md -> 0 <= cb ->
  xaccused (conn_init cl msd md cb) (peer_init msd md) ops = false.
Proof. exact xnever_accused. Qed.
Print Assumptions within_limit_never_accused_cut.

(* buffer_bounded for the same histories (connection-level bound: max_data.value; buffer_bounded_cut below states it against the
   advertised value) *)
Theorem buffer_bounded_cut_value : forall cl msd md cb ops os c,
  0 <= msd -> 0 <= md -> 0 <= cb ->
  xrun (conn_init cl msd md cb) ops = (os, c) ->
  (forall sid s, In (sid, s) (c_streams c) ->
     0 <= r_start (sm_recv s) /\
     Zlen (r_buf (sm_recv s)) <= r_highest (sm_recv s) - r_start (sm_recv s) /\
     r_highest (sm_recv s) <= sm_msd s) /\
  sum_buf (c_streams c) <= sum_hi (c_streams c) /\
  sum_hi (c_streams c) + c_gone c <= l_used (c_data c) /\ 0 <= c_gone c /\
  l_used (c_data c) <= l_value (c_data c) /\
  Zlen (r_buf (c_crypto c)) <= MAX_PENDING_CRYPTO /\
  (forall m, TLS_MESSAGE_CAP = Some m -> Zlen (c_tls c) < Z.max 4 m) /\
  Zlen (c_chal c) <= MAX_REMOTE_CHALLENGES /\
  (forall m, NETWORK_PATHS_CAP = Some m -> 1 <= m ->
     Zlen (c_chal c) + sum_chal (c_paths c) <= m * MAX_REMOTE_CHALLENGES) /\
  Zlen (c_lchal c) <= MAX_LOCAL_CHALLENGES /\
  Zlen (c_retire c) <= Z.min (LOCAL_ACTIVE_CID_LIMIT * 4) MAX_PENDING_RETIRES /\
  1 + Zlen (c_cid_avail c) <= LOCAL_ACTIVE_CID_LIMIT.
Proof. exact buffer_bounded_xrun. Qed.
Print Assumptions buffer_bounded_cut_value.

(* enforced_is_advertised: in a tree that assigns a raised limit only next to the written frame (RAISE_BEFORE_START_FRAME = false,
   probed from the source; /repo since 825d3fa) the value every check reads EQUALS the largest value written on the wire, at every
   point of every history with cut passes: max_data, both stream-count limits, the limit of every stream that is live (receivable,
   state not discarded), and the configured limit for a stream not created yet.  adv_ledger folds the peer's ledger over the
   frames of all passes (transport parameters first; every MAX_* frame raises the entry to max(old, value)).
   Proof: invariant AdvEq (proofs/ConnLimitsCutEq.v) through the six stages of a cut pass and discard. *)
Theorem enforced_is_advertised : RAISE_BEFORE_START_FRAME = false -> forall cl msd md cb ops os c,
  0 <= msd -> 0 <= md -> 0 <= cb ->
  xrun (conn_init cl msd md cb) ops = (os, c) ->
  enforced_eq_ledger c (adv_ledger (peer_init msd md) os).
Proof. exact enforced_is_advertised_x. Qed.
Print Assumptions enforced_is_advertised.

(* the exact per-stream analogue of advertised_is_enforced, for histories of COMPLETE passes in ANY tree: every live stream's
   max_stream_data_local equals the largest MAX_STREAM_DATA value written for it (the transport parameter if none), the three
   connection-level limits likewise, and max_stream_data_local_sent is max_stream_data_local or 0 for every stream *)
Theorem advertised_is_enforced_per_stream : forall cl msd md cb ops os c,
  0 <= msd -> 0 <= md -> 0 <= cb ->
  run (conn_init cl msd md cb) ops = (os, c) ->
  enforced_eq_ledger c (adv_ledger (peer_init msd md) os) /\
  Forall (fun q => sm_sent (snd q) = sm_msd (snd q) \/ sm_sent (snd q) = 0) (c_streams c).
Proof. exact enforced_is_advertised_complete. Qed.
Print Assumptions advertised_is_enforced_per_stream.

(* in every state whose sent fields are in {value, 0} (all reachable ones) a complete pass IS a cut pass with enough budget and an
   empty keep list *)
Theorem complete_pass_is_cut_pass_with_room : forall c b, SentAll c -> pass_budget c <= b ->
  write c = write_b c b [] /\ exists c1 w b', limit_stages c b = (c1, w, Some b').
Proof. exact write_is_write_b. Qed.
Print Assumptions complete_pass_is_cut_pass_with_room.

(* buffer_bounded_cut: the buffering bounds against the ADVERTISED limits, for every history with cut passes (same tree):
   the bytes committed to the connection window never exceed the largest MAX_DATA written (initial_max_data if none), each live
   stream's highest offset never exceeds the largest MAX_STREAM_DATA written for it, the stream counts the largest MAX_STREAMS *)
Theorem buffer_bounded_cut : RAISE_BEFORE_START_FRAME = false -> forall cl msd md cb ops os c,
  0 <= msd -> 0 <= md -> 0 <= cb ->
  xrun (conn_init cl msd md cb) ops = (os, c) ->
  let p := adv_ledger (peer_init msd md) os in
  sum_buf (c_streams c) <= sum_hi (c_streams c) /\
  sum_hi (c_streams c) + c_gone c <= l_used (c_data c) /\ 0 <= c_gone c /\
  l_used (c_data c) <= p_adv_data p /\
  (forall sid s, sget sid (c_streams c) = Some s -> existsb (Z.eqb sid) (c_done c) = false -> can_receive c sid = true ->
     0 <= r_start (sm_recv s) /\
     Zlen (r_buf (sm_recv s)) <= r_highest (sm_recv s) - r_start (sm_recv s) /\
     r_highest (sm_recv s) <= p_adv_msd p sid) /\
  0 <= l_used (c_bidi c) <= p_adv_bidi p /\ 0 <= l_used (c_uni c) <= p_adv_uni p.
Proof. exact buffer_bounded_advertised. Qed.
Print Assumptions buffer_bounded_cut.

(* over_advertised_limit_closes_cut -- the direction F-C07-4 broke, now for EVERY history with cut passes, on a tree that assigns a
   raised limit only next to the written frame: after a prefix in which every STREAM / RESET_STREAM frame was within every limit
   written on the wire so far and final-size consistent, the first frame BEYOND a limit written on the wire (stream count, that
   stream's data limit, or the connection data limit charged with the bytes the peer has committed) is answered with
   FLOW_CONTROL_ERROR or STREAM_LIMIT_ERROR whenever the endpoint gets as far as the limit checks (judged: well-formed, a stream
   the peer may send on, state not discarded, stream exists or is the peer's to open); a frame that is not judged is ignored or
   refused with FRAME_ENCODING_ERROR / STREAM_STATE_ERROR, never accepted (model/ConnLimitsCut.v: over_ok, xunanswered).
   Proof: AdvEq (enforced = advertised) + XInv (max_data.used = the bytes the peer committed; every live peer-initiated stream is
   below the advertised count).  over_advertised_limit_closes_refuted above keeps describing a tree that raises before
   start_frame(); cut_pass_unanswered_witnesses: there the same three witnesses make xunanswered true. *)
Theorem over_advertised_limit_closes_cut : RAISE_BEFORE_START_FRAME = false -> RESET_ADVANCES_HIGHEST = true ->
  forall cl msd md cb ops, 0 <= msd -> 0 <= md -> 0 <= cb ->
  xunanswered (conn_init cl msd md cb) (peer_init msd md) ops = false.
Proof. exact xunanswered_init. Qed.
Print Assumptions over_advertised_limit_closes_cut.

Theorem cut_pass_unanswered_witnesses : RAISE_BEFORE_START_FRAME = true ->
  xunanswered (conn_init false 3000 2000 0) (peer_init 3000 2000) w_cut_data = true /\
  xunanswered (conn_init false 1000 4000 0) (peer_init 1000 4000) w_cut_stream = true /\
  xunanswered (conn_init false 1000 4000 0) (peer_init 1000 4000) w_cut_count = true.
Proof. exact cut_witnesses_unanswered. Qed.
Print Assumptions cut_pass_unanswered_witnesses.

(* in every state satisfying the invariants, frame by frame: what "beyond a limit written on the wire" forces *)
Theorem over_advertised_stream_frame : forall c p ft sid off data r c', Sim c p -> AdvEq c p -> XInv c p ->
  handle_stream c ft sid off data = (r, c') -> within_wire_limits (c_client c) p sid (off + Zlen data) = false ->
  over_ok c sid (off + Zlen data) r = true.
Proof. exact over_stream. Qed.
Print Assumptions over_advertised_stream_frame.

Theorem over_advertised_reset_frame : forall c p sid fs r c', Sim c p -> AdvEq c p -> XInv c p ->
  handle_reset_stream c sid fs = (r, c') -> within_wire_limits (c_client c) p sid fs = false ->
  over_ok c sid fs r = true.
Proof. exact over_reset. Qed.
Print Assumptions over_advertised_reset_frame.

(* ---- bursts that arrive faster than the endpoint drains its queues (round 6) ---------------------------------------
   buffer_bounded's bound on pending retirements rests on WHERE _handle_new_connection_id_frame evaluates its cap; the
   position is probed from the source on every run (NCID_RETIRE_CAP_ONLY_WHEN_RAISED = false: a statement of the
   handler's body, after everything that can grow the list, on every path) and used by proofs/ConnLimitsP.v. *)
Theorem retire_cap_is_evaluated_on_every_path : NCID_RETIRE_CAP_ONLY_WHEN_RAISED = false.
Proof. exact retire_cap_on_every_path. Qed.
Print Assumptions retire_cap_is_evaluated_on_every_path.

(* the late-arrival path (a never-seen sequence number below the processed Retire Prior To is retired at once and does
   not move Retire Prior To), in EVERY state whose connection IDs are at or above Retire Prior To: one more pending
   retirement, or CONNECTION_ID_LIMIT_ERROR when that exceeds min(4 * active_connection_id_limit, MAX_PENDING_RETIRES) *)
Theorem late_arrival_is_capped : forall c seq rpt,
  NCID_RETIRE_CAP_ONLY_WHEN_RAISED = false -> NCID_LATE_RETIRED = true ->
  rpt <= seq -> seq < c_cid_rpt c -> existsb (Z.eqb seq) (c_cid_seen c) = false ->
  c_cid_rpt c <= c_cid_active c -> forallb (fun q => c_cid_rpt c <=? q) (c_cid_avail c) = true ->
  1 + Zlen (c_cid_avail c) <= LOCAL_ACTIVE_CID_LIMIT ->
  handle_new_cid c seq rpt =
    if Zlen (c_retire c) + 1 >? retire_cap then (OErr E_CONNECTION_ID_LIMIT_ERROR FT_NEW_CONNECTION_ID, c)
    else (OOk RNone, set_cids c (c_cid_active c) (c_cid_avail c) (seq :: c_cid_seen c) (c_cid_rpt c) (c_retire c ++ [seq])).
Proof. exact late_arrival_step. Qed.
Print Assumptions late_arrival_is_capped.

(* NEW_CONNECTION_ID(1000, 1000), then 30 never-seen sequence numbers below it, no write pass: the 25th closes *)
Theorem late_arrival_burst_closes :
  NCID_RETIRE_CAP_ONLY_WHEN_RAISED = false -> NCID_LATE_RETIRED = true ->
  Zlen (fst (run after_handshake (late_burst 1000 30))) = 26 /\
  last (fst (run after_handshake (late_burst 1000 30))) OExn = OErr E_CONNECTION_ID_LIMIT_ERROR FT_NEW_CONNECTION_ID /\
  Zlen (c_retire (snd (run after_handshake (late_burst 1000 30)))) = retire_cap.
Proof. exact late_burst_capped. Qed.
Print Assumptions late_arrival_burst_closes.

(* conditional description of a tree that evaluates the cap only when the frame moved Retire Prior To forward: the bound is
   false there (vacuous on the tree under test when retire_cap_is_evaluated_on_every_path checks) *)
Theorem retire_cap_skipped_unbounded_refuted :
  NCID_RETIRE_CAP_ONLY_WHEN_RAISED = true -> NCID_LATE_RETIRED = true ->
  exists ops, forallb (fun o => negb (closes o)) (fst (run after_handshake ops)) = true /\
              Zlen (c_retire (snd (run after_handshake ops))) > retire_cap.
Proof. exact ConnLimitsBurst.retire_cap_skipped_unbounded_refuted. Qed.
Print Assumptions retire_cap_skipped_unbounded_refuted.
