(* C11  TLS handshake messages are accepted only in protocol order.
   Model: model/TlsSM.v over the dispatch table, enum values and handler skeletons GENERATED from
   the current tls.py (gen/TlsDispatch.v).  Specs: legal_next (proofs/TlsDispatchLegal.v),
   client_legal / server_legal (proofs/TlsNoSkip.v), ckey_ok / skey_ok (proofs/TlsKeys.v). *)
From AQ Require Import lib.Base gen.TlsDispatch model.TlsSM.
From AQ Require Import proofs.TlsDispatchLegal proofs.TlsNoSkip proofs.TlsKeys proofs.TlsSkel proofs.TlsExamples.
From AQ Require Import model.StreamRecv gen.TlsQuicGen model.TlsQuic.
From AQ Require Import proofs.TlsQuicSkel proofs.TlsQuicP proofs.TlsQuicEpoch proofs.TlsQuicStream proofs.TlsQuicFrag proofs.TlsQuicBytes.

(* all 13 states x all 256 type bytes: the generated table is TLS 1.3's legal-next relation; every
   other pair is refused with unexpected_message (10), state and keys unchanged *)
Theorem dispatch_legal :
  forall s t, 0 <= t < 256 ->
    dispatch s t = legal_next s t /\
    (legal_next s t = DUnexpected ->
     forall c st m, s_state st = s -> m_type m = t ->
       step c st m = (OAlert 10, st, [])).
Proof. exact dispatch_legal_lemma. Qed.
Print Assumptions dispatch_legal.

(* every message sequence, every oracle valuation: a client that reaches CLIENT_POST_HANDSHAKE
   accepted exactly SH EE [CR] Cert CV Fin (signature, certificate and MAC verified, no PSK
   selected) or SH(psk) EE Fin (PSK offered, selected as offered, MAC verified), then only
   NewSessionTickets *)
Theorem no_skip :
  forall c ms,
    let tr := run c (client_started c) ms in
    s_state (final (client_started c) tr) = CLIENT_POST_HANDSHAKE ->
    client_legal c (accepted tr).
Proof. exact no_skip_client_lemma. Qed.
Print Assumptions no_skip.

Theorem no_skip_finished_needs_certificate_verify_or_psk :
  forall c ms,
    let tr := run c (client_started c) ms in
    s_state (final (client_started c) tr) = CLIENT_POST_HANDSHAKE ->
    (exists cv, In cv (accepted tr) /\ m_type cv = 15 /\ m_sig cv = true /\ (c_verify c = true -> m_cert cv = 0)) \/
    (c_psk c = true /\ exists sh, In sh (accepted tr) /\ m_type sh = 2 /\ m_psk sh = true /\ m_psk_ok sh = true).
Proof. exact finished_needs_cv_or_psk. Qed.
Print Assumptions no_skip_finished_needs_certificate_verify_or_psk.

(* server: CH [Cert [CV]] Fin *)
Theorem no_skip_server :
  forall c ms,
    let tr := run c init_server ms in
    s_state (final init_server tr) = SERVER_POST_HANDSHAKE ->
    server_legal c (accepted tr).
Proof. exact no_skip_server_lemma. Qed.
Print Assumptions no_skip_server.

(* every key callback of every run is made by the handler of the message that authenticates it *)
Theorem keys_after_authentication :
  forall c ms pre m o s' ks post,
    (run c (client_started c) ms = pre ++ (m, o, s', ks) :: post ->
     Forall (ckey_ok c (accepted pre) m o) ks) /\
    (run c init_server ms = pre ++ (m, o, s', ks) :: post ->
     Forall (skey_ok c (accepted pre) m o) ks).
Proof. exact keys_after_authentication_lemma. Qed.
Print Assumptions keys_after_authentication.

(* tie of the hand-written handlers to the current source: the extracted handler skeletons are the
   ones the model was transcribed from, and the model handlers follow them *)
Theorem handler_skeletons_as_modelled :
  (forall h, skeleton h = modelled_skeleton h) /\
  (forall h c s m, follows h s (run_handler h c s m) = true).
Proof. exact (conj skeleton_as_modelled model_follows_skeleton). Qed.
Print Assumptions handler_skeletons_as_modelled.

(* ================= connection level (model/TlsQuic.v) ======================================================= *)

(* tie of the connection-level model to the current source: _handle_crypto_frame, _update_traffic_key, _discard_epoch and
   tls.Context.handle_message are, statement for statement (logging aside), the ones the model was transcribed from;
   get_epoch is the identity on Initial / 0-RTT / Handshake and maps everything else to 1-RTT; CRYPTO frames are accepted
   in Initial, Handshake and 1-RTT packets only *)
Theorem quic_skeletons_as_modelled :
  sk_handle_crypto_frame = pinned_handle_crypto_frame /\
  sk_update_traffic_key = pinned_update_traffic_key /\
  sk_discard_epoch = pinned_discard_epoch /\
  sk_handle_message = pinned_handle_message /\
  get_epoch_table = [(0, 0); (1, 1); (2, 2); (3, 3); (4, 3); (5, 3)] /\
  crypto_frame_epochs = [0; 2; 3] /\
  MAX_HANDSHAKE_MESSAGE_SIZE <= MAX_PENDING_CRYPTO /\ QEC_CRYPTO_ERROR = 256.
Proof. exact quic_skeletons_as_modelled_lemma. Qed.
Print Assumptions quic_skeletons_as_modelled.

(* every run of the connection (either variant of the model, client or server, any configuration, any oracle answers,
   any packets): its TLS engine only makes TlsSM steps from the start state of the theorems above; a packet protection
   key other than the Initial ones is installed only by a key callback of such a step, to which keys_after_authentication
   applies (ckey_ok / skey_ok); the 1-RTT receive key and HandshakeCompleted only after the legal flight; until then every
   1-RTT packet is dropped *)
Theorem keys_after_authentication_quic :
  forall patched cl cfg0 orcs ops,
    let c := run_conn patched (conn_init cl cfg0 orcs) ops in
    let s0 := start_of cl cfg0 in
    tls_log c = run cfg0 s0 (map ev_msg (tls_log c)) /\ q_tls c = final s0 (tls_log c) /\
    (forall e, e <> EP_INITIAL -> kget (q_rk c) e = true ->
       exists pre m o s' ks post d, tls_log c = pre ++ (m, o, s', ks) :: post /\ In (d, e) ks /\ d <> DIR_ENCRYPT /\
         if cl then ckey_ok cfg0 (accepted pre) m o (d, e) else skey_ok cfg0 (accepted pre) m o (d, e)) /\
    (forall e, e = EP_HANDSHAKE \/ e = EP_ONE_RTT -> kget (q_sk c) e = true ->
       exists pre m o s' ks post, tls_log c = pre ++ (m, o, s', ks) :: post /\ In (DIR_ENCRYPT, e) ks /\
         if cl then ckey_ok cfg0 (accepted pre) m o (DIR_ENCRYPT, e) else skey_ok cfg0 (accepted pre) m o (DIR_ENCRYPT, e)) /\
    (kget (q_rk c) EP_ONE_RTT = true -> role_legal cl cfg0 (accepted (tls_log c))) /\
    (q_complete c = true -> role_legal cl cfg0 (accepted (tls_log c))) /\
    (kget (q_rk c) EP_ONE_RTT = false -> q_closed c = None ->
       forall frames, receive_packet patched c PT_ONE_RTT frames = (PDropped, c)).
Proof. exact keys_after_authentication_quic_lemma. Qed.
Print Assumptions keys_after_authentication_quic.

(* the epoch rule (RFC 9001 4.1.3: every handshake message from the CRYPTO stream of the level the TLS state expects)
   does NOT hold for the tree as it is: a client completes on ServerHello .. Finished carried by Initial packets only, a
   server on a client Finished in an Initial packet *)
Theorem crypto_epoch_isolated_refuted :
  ~ crypto_epoch_isolated_stmt false /\
  (exists cfg0 orcs ops, let c := run_conn false (conn_init true cfg0 orcs) ops in
     Forall (fun op => fst op = PT_INITIAL) ops /\ q_complete c = true /\ s_state (q_tls c) = CLIENT_POST_HANDSHAKE /\
     kget (q_rk c) EP_ONE_RTT = true /\ map (fun x => m_type (ev_msg (snd x))) (q_log c) = [2; 8; 11; 15; 20] /\
     Forall (fun x => fst x = EP_INITIAL) (q_log c)) /\
  (exists cfg0 orcs ops, let c := run_conn false (conn_init false cfg0 orcs) ops in
     Forall (fun op => fst op = PT_INITIAL) ops /\ q_complete c = true /\ s_state (q_tls c) = SERVER_POST_HANDSHAKE /\
     kget (q_rk c) EP_ONE_RTT = true /\ map (fun x => m_type (ev_msg (snd x))) (q_log c) = [1; 20] /\
     Forall (fun x => fst x = EP_INITIAL) (q_log c)).
Proof. exact crypto_epoch_isolated_refuted_lemma. Qed.
Print Assumptions crypto_epoch_isolated_refuted.

(* ... and holds for the repaired handle_message (docs/C11-fix-1.patch), for every run *)
Theorem crypto_epoch_isolated_patched :
  forall cl cfg0 orcs ops,
    epochs_ok (start_of cl cfg0) (q_log (run_conn true (conn_init cl cfg0 orcs) ops)).
Proof. exact crypto_epoch_isolated_patched_lemma. Qed.
Print Assumptions crypto_epoch_isolated_patched.

(* (every packet sent so far carried bytes: ops_bytes; the stream of epoch e has delivered all it received: flat base)
   any cutting of a byte string B into CRYPTO frames of one packet -- any order, overlaps, repetitions, as long as every
   frame carries B's bytes for its offsets and every offset is covered -- has the TLS outcome of B in one frame: same
   verdict / close code, same Context.state, same dispatched messages with their outcomes and key callbacks (through the
   C10 receiver refinement frame_refines and the chunk-independence of handle_message's loop) *)
Theorem fragmentation_independent :
  forall patched cl cfg0 orcs ops e base B fs,
    let c := run_conn patched (conn_init cl cfg0 orcs) ops in
    ops_bytes ops -> stream_of c e = flat base -> 0 <= base ->
    bytes_ok B -> B <> [] -> base + Zlen B <= UINT_VAR_MAX -> Zlen B <= MAX_PENDING_CRYPTO ->
    Forall (fun f => slice_of B base (fst f) (snd f)) fs ->
    (forall o, base <= o < base + Zlen B -> Exists (covers o) fs) ->
    fview (frames_loop patched e c fs) = fview (frames_loop patched e c [(base, B)]).
Proof. exact fragmentation_independent_reach. Qed.
Print Assumptions fragmentation_independent.

(* the same when the frames are spread over several PACKETS: a client that receives Handshake packets (its Handshake
   receive key installed, no close pending) ends, packet after packet, where it ends on B in one frame of one packet: the
   same close state / close code and the same TLS state, dispatched messages, outcomes, key callbacks *)
Theorem fragmentation_independent_packets :
  forall patched cfg0 orcs ops base B pkts,
    let c := run_conn patched (conn_init true cfg0 orcs) ops in
    ops_bytes ops -> q_closed c = None -> kget (q_rk c) EP_HANDSHAKE = true ->
    stream_of c EP_HANDSHAKE = flat base -> 0 <= base ->
    bytes_ok B -> B <> [] -> base + Zlen B <= UINT_VAR_MAX -> Zlen B <= MAX_PENDING_CRYPTO ->
    Forall (fun f : list (Z * list Z) => f <> []) pkts ->
    Forall (fun f => slice_of B base (fst f) (snd f)) (concat pkts) ->
    (forall o, base <= o < base + Zlen B -> Exists (covers o) (concat pkts)) ->
    let W := frames_loop patched EP_HANDSHAKE c [(base, B)] in
    let cf := run_conn patched c (map (fun f => (PT_HANDSHAKE, f)) pkts) in
    match fst W with
    | FOk => q_closed cf = None /\ tlsproj cf = tlsproj (snd W)
    | FClose code => q_closed cf = Some code /\ tlsproj (forget cf) = tlsproj (forget (snd W))
    | FExn _ => True
    end.
Proof. exact fragmentation_independent_packets_reach. Qed.
Print Assumptions fragmentation_independent_packets.
