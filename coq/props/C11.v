(* C11  TLS handshake messages are accepted only in protocol order.
   Model: model/TlsSM.v over the dispatch table, enum values and handler skeletons GENERATED from
   the current tls.py (gen/TlsDispatch.v).  Specs: legal_next (proofs/TlsDispatchLegal.v),
   client_legal / server_legal (proofs/TlsNoSkip.v), ckey_ok / skey_ok (proofs/TlsKeys.v). *)
From AQ Require Import lib.Base gen.TlsDispatch model.TlsSM.
From AQ Require Import proofs.TlsDispatchLegal proofs.TlsNoSkip proofs.TlsKeys proofs.TlsSkel proofs.TlsExamples.

(* all 13 states x all 256 type bytes: the generated table is TLS 1.3's legal-next relation; every
   other pair is refused with unexpected_message (10), state and keys unchanged *)
Theorem dispatch_legal :
  forall s t, 0 <= t < 256 ->
    dispatch s t = legal_next s t /\
    (legal_next s t = DUnexpected ->
     forall c st m, s_state st = s -> m_type m = t ->
       step c st m = (OAlert 10, st, [])).
Proof. exact dispatch_legal_lemma. Qed.
Print Assumptions dispatch_legal.

(* every message sequence, every oracle valuation: a client that reaches CLIENT_POST_HANDSHAKE
   accepted exactly SH EE [CR] Cert CV Fin (signature, certificate and MAC verified, no PSK
   selected) or SH(psk) EE Fin (PSK offered, selected as offered, MAC verified), then only
   NewSessionTickets *)
Theorem no_skip :
  forall c ms,
    let tr := run c (client_started c) ms in
    s_state (final (client_started c) tr) = CLIENT_POST_HANDSHAKE ->
    client_legal c (accepted tr).
Proof. exact no_skip_client_lemma. Qed.
Print Assumptions no_skip.

Theorem no_skip_finished_needs_certificate_verify_or_psk :
  forall c ms,
    let tr := run c (client_started c) ms in
    s_state (final (client_started c) tr) = CLIENT_POST_HANDSHAKE ->
    (exists cv, In cv (accepted tr) /\ m_type cv = 15 /\ m_sig cv = true /\ (c_verify c = true -> m_cert cv = 0)) \/
    (c_psk c = true /\ exists sh, In sh (accepted tr) /\ m_type sh = 2 /\ m_psk sh = true /\ m_psk_ok sh = true).
Proof. exact finished_needs_cv_or_psk. Qed.
Print Assumptions no_skip_finished_needs_certificate_verify_or_psk.

(* server: CH [Cert [CV]] Fin *)
Theorem no_skip_server :
  forall c ms,
    let tr := run c init_server ms in
    s_state (final init_server tr) = SERVER_POST_HANDSHAKE ->
    server_legal c (accepted tr).
Proof. exact no_skip_server_lemma. Qed.
Print Assumptions no_skip_server.

(* every key callback of every run is made by the handler of the message that authenticates it *)
Theorem keys_after_authentication :
  forall c ms pre m o s' ks post,
    (run c (client_started c) ms = pre ++ (m, o, s', ks) :: post ->
     Forall (ckey_ok c (accepted pre) m o) ks) /\
    (run c init_server ms = pre ++ (m, o, s', ks) :: post ->
     Forall (skey_ok c (accepted pre) m o) ks).
Proof. exact keys_after_authentication_lemma. Qed.
Print Assumptions keys_after_authentication.

(* tie of the hand-written handlers to the current source: the extracted handler skeletons are the
   ones the model was transcribed from, and the model handlers follow them *)
Theorem handler_skeletons_as_modelled :
  (forall h, skeleton h = modelled_skeleton h) /\
  (forall h c s m, follows h s (run_handler h c s m) = true).
Proof. exact (conj skeleton_as_modelled model_follows_skeleton). Qed.
Print Assumptions handler_skeletons_as_modelled.
