From AQ Require Import lib.Base gen.TlsDispatch model.TlsSM.
Theorem placeholder_c11 : True.
Proof. exact I. Qed.
Print Assumptions placeholder_c11.
