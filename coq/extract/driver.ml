(* Generic driver for the extracted models.  One case per input line:
     <model-name> <tok> <tok> ...
   tokens are hex integers with optional leading '-'.  Output: one line of tokens per case.
   Z stays the extracted inductive (no OCaml int arithmetic on model data). *)
open Models

let pos_of_hex (s : string) : positive option =
  (* s: hex digits, no sign *)
  let acc = ref None in
  String.iter (fun c ->
    let v = match c with
      | '0'..'9' -> Char.code c - 48
      | 'a'..'f' -> Char.code c - 87
      | 'A'..'F' -> Char.code c - 55
      | _ -> failwith "bad hex" in
    for i = 3 downto 0 do
      let b = (v lsr i) land 1 = 1 in
      acc := (match !acc with
        | None -> if b then Some XH else None
        | Some p -> Some (if b then XI p else XO p))
    done) s;
  !acc

let z_of_tok (s : string) : z =
  let neg = String.length s > 0 && s.[0] = '-' in
  let body = if neg then String.sub s 1 (String.length s - 1) else s in
  match pos_of_hex body with
  | None -> Z0
  | Some p -> if neg then Zneg p else Zpos p

let hex_of_pos (p : positive) : string =
  (* collect bits lsb first *)
  let bits = ref [] in
  let rec go p = match p with
    | XH -> bits := 1 :: !bits
    | XO q -> bits := 0 :: !bits; go q
    | XI q -> bits := 1 :: !bits; go q in
  go p;
  (* !bits is msb first *)
  let l = !bits in
  let n = List.length l in
  let pad = (4 - n mod 4) mod 4 in
  let l = (List.init pad (fun _ -> 0)) @ l in
  let buf = Buffer.create (n / 4 + 1) in
  let rec emit = function
    | a :: b :: c :: d :: t ->
        Buffer.add_char buf "0123456789abcdef".[a * 8 + b * 4 + c * 2 + d]; emit t
    | [] -> ()
    | _ -> assert false in
  emit l;
  Buffer.contents buf

let tok_of_z = function
  | Z0 -> "0"
  | Zpos p -> hex_of_pos p
  | Zneg p -> "-" ^ hex_of_pos p

let () =
  let out = Buffer.create 65536 in
  (try
    while true do
      let line = input_line stdin in
      match String.split_on_char ' ' (String.trim line) with
      | [] | [""] -> ()
      | name :: toks ->
          let f = try List.assoc name Table.table
            with Not_found -> failwith ("unknown model " ^ name) in
          let toks = List.filter (fun s -> s <> "") toks in
          let res = f (List.map z_of_tok toks) in
          Buffer.add_string out (String.concat " " (List.map tok_of_z res));
          Buffer.add_char out '\n';
          if Buffer.length out > 60000 then (print_string (Buffer.contents out); Buffer.clear out)
    done
  with End_of_file -> ());
  print_string (Buffer.contents out)
