(* reader_prefix_then_eof: what a stream reader has been fed, for every schedule of the adapter model. *)
From AQ Require Import lib.Base model.Adapter proofs.AdapterProofs.
From Coq Require Import Lia.

(* the history of a run, as far as readers are concerned: every event _process_events() popped, with whether its
   handling returned (LEv) or raised (LFail), and every create_stream() *)
Inductive lent := LEv (e : event) | LFail (e : event) | LCreate (sid : Z).

(* _process_events() with the history written down (same loop as Adapter.process) *)
Fixpoint hprocess (q : list event) (lg : list lent) (s : st) : option Z * list lent * st :=
  match q with
  | [] => (None, lg, with_evq s [])
  | e :: rest =>
      match handle_event e (with_evq s rest) with
      | (Some x, s') => (Some x, lg ++ [LFail e], s')
      | (None, s') => hprocess rest (lg ++ [LEv e]) s'
      end
  end.
Definition hproc (lg : list lent) (s : st) : option Z * list lent * st := hprocess (evq s) lg s.
Definition hstep (fx : bool) (s : st) (lg : list lent) (o : op) : option Z * list Z * list lent * st :=
  run_plan hproc (fun w _ => w) fx (match o with OCreateStream sid => lg ++ [LCreate sid] | _ => lg end) (prepare s o).
Fixpoint hrun (fx : bool) (s : st) (lg : list lent) (ops : list op) : list lent * st :=
  match ops with
  | [] => (lg, s)
  | o :: t => let '(_, _, lg', s') := hstep fx s lg o in hrun fx s' lg' t
  end.

(* the specification, a function of the history alone, for the stream sid:
   rs_term: ConnectionTerminated has been handled; rs_rd: the reader (if one exists): the bytes fed so far and whether
   feed_eof was called; rs_bad: some StreamDataReceived fed bytes to a reader that was already at EOF *)
Record rspec := mkRS { rs_term : bool; rs_rd : option (list Z * bool); rs_bad : bool }.
Definition nonempty (d : list Z) : bool := match d with [] => false | _ => true end.
Definition cur (r : rspec) : list Z * bool := match rs_rd r with Some be => be | None => ([], rs_term r) end.
Definition upd (sid : Z) (r : rspec) (l : lent) : rspec :=
  match l with
  | LCreate s => if s =? sid then mkRS (rs_term r) (Some ([], rs_term r)) (rs_bad r) else r   (* new reader; at EOF if terminated *)
  | LEv (EvTerminated _) =>
      mkRS true (match rs_rd r with Some (b, _) => Some (b, true) | None => None end) (rs_bad r)   (* feed_eof on every reader *)
  | LEv (EvStream s d fin) =>
      if s =? sid then mkRS (rs_term r) (Some (fst (cur r) ++ d, snd (cur r) || fin)) (rs_bad r || (snd (cur r) && nonempty d))
      else r
  | LFail (EvStream s d fin) =>
      if s =? sid then mkRS (rs_term r) (Some (cur r)) (rs_bad r) else r     (* the reader may have been created; nothing fed *)
  | _ => r
  end.
Definition spec (sid : Z) (lg : list lent) : rspec := fold_left (upd sid) lg (mkRS false None false).

Lemma spec_snoc : forall sid lg l, spec sid (lg ++ [l]) = upd sid (spec sid lg) l.
Proof. intros. unfold spec. rewrite fold_left_app. reflexivity. Qed.

(* ---------- the instrumented run is the run ------------------------------------------------------------- *)
Lemma hprocess_proj : forall q lg s x lg' s', hprocess q lg s = (x, lg', s') -> process q s = (x, s').
Proof.
  induction q as [|e rest IH]; intros lg s x lg' s' H; simpl in *.
  - inv_pair H. reflexivity.
  - destruct (handle_event e (with_evq s rest)) as [[y|] s1]; [inv_pair H; reflexivity|eapply IH; eauto].
Qed.

Lemma hstep_proj : forall fx s lg o x out lg' s', hstep fx s lg o = (x, out, lg', s') -> step fx s o = (x, out, s').
Proof.
  intros fx s lg o x out lg' s' H. rewrite step_unfold. unfold hstep, run_plan, hproc in H.
  destruct (prepare s o) as [x0 extra s0|extra s0 pe gt etx]; [inv_pair H; reflexivity|].
  set (lg0 := match o with OCreateStream sid => lg ++ [LCreate sid] | _ => lg end) in *.
  assert (forall lg1 s1,
            (if fx then let '(x2, w3, s3) := hprocess (evq (transmit_core s1 gt etx)) lg1 (transmit_core s1 gt etx) in (x2, extra, w3, s3)
             else (None, extra, lg1, transmit_core s1 gt etx)) = (x, out, lg', s') ->
            (if fx then let '(x2, s3) := process_events (transmit_core s1 gt etx) in (x2, extra, s3)
             else (None, extra, transmit_core s1 gt etx)) = (x, out, s')) as K.
  { intros lg1 s1 H1. destruct fx; [|inv_pair H1; reflexivity].
    destruct (hprocess _ lg1 _) as [[x2 w3] s3] eqn:E. inv_pair H1. apply hprocess_proj in E.
    unfold process_events. rewrite E. reflexivity. }
  destruct pe.
  - destruct (hprocess (evq s0) lg0 s0) as [[x1 w1] s1] eqn:E. apply hprocess_proj in E.
    unfold process_events at 1. rewrite E. destruct x1 as [y|]; [inv_pair H; reflexivity|]. eapply K; eauto.
  - eapply K; eauto.
Qed.

Lemma hrun_proj : forall fx ops s lg, snd (hrun fx s lg ops) = run fx s ops.
Proof.
  induction ops as [|o t IH]; intros s lg; simpl; [reflexivity|].
  destruct (hstep fx s lg o) as [[[x out] lg'] s'] eqn:E. rewrite (hstep_proj _ _ _ _ _ _ _ _ E). apply IH.
Qed.

(* ---------- readers ----------------------------------------------------------------------------------------- *)
Definition view (sid : Z) (s : st) : option (list Z * bool) :=
  match rd_get sid (readers s) with Some r => Some (rd_buf r, rd_eof r) | None => None end.

Lemma rd_get_set : forall l r sid, rd_get sid (rd_set r l) = if rd_sid r =? sid then Some r else rd_get sid l.
Proof.
  induction l as [|x t IH]; intros r sid; simpl; [reflexivity|].
  destruct (rd_sid x =? rd_sid r) eqn:E; simpl.
  - destruct (rd_sid r =? sid) eqn:E1; [reflexivity|]. destruct (rd_sid x =? sid) eqn:E2; [lia|reflexivity].
  - rewrite IH. destruct (rd_sid x =? sid) eqn:E2; [|reflexivity]. destruct (rd_sid r =? sid) eqn:E1; [lia|reflexivity].
Qed.

Lemma rd_get_sid : forall l sid r, rd_get sid l = Some r -> rd_sid r = sid.
Proof.
  induction l as [|x t IH]; intros sid r H; simpl in H; [discriminate|].
  destruct (rd_sid x =? sid) eqn:E; [inversion H; subst; lia|eapply IH; eauto].
Qed.

Lemma rd_get_eof_all : forall l sid, rd_get sid (feed_eof_all l) =
  match rd_get sid l with Some r => Some (mkReader (rd_sid r) (rd_buf r) true) | None => None end.
Proof.
  induction l as [|x t IH]; intros sid; simpl; [reflexivity|]. destruct (rd_sid x =? sid); [reflexivity|apply IH].
Qed.

(* RI: the state agrees with the specification computed from the history *)
Definition RI (sid : Z) (s : st) (lg : list lent) : Prop :=
  rs_term (spec sid lg) = closed s /\ rs_rd (spec sid lg) = view sid s /\ rs_bad (spec sid lg) = false.

Lemma with_evq_view : forall sid s q, view sid (with_evq s q) = view sid s.
Proof. reflexivity. Qed.

Definition ent (x : option Z) (e : event) : lent := match x with None => LEv e | Some _ => LFail e end.

Lemma upd_stream_same : forall sid r x d fin,
  upd sid r (ent x (EvStream sid d fin)) =
  match x with
  | None => mkRS (rs_term r) (Some (fst (cur r) ++ d, snd (cur r) || fin)) (rs_bad r || (snd (cur r) && nonempty d))
  | Some _ => mkRS (rs_term r) (Some (cur r)) (rs_bad r)
  end.
Proof. intros. destruct x; simpl; rewrite Z.eqb_refl; reflexivity. Qed.

Lemma upd_stream_other : forall sid r x s0 d fin, (s0 =? sid) = false -> upd sid r (ent x (EvStream s0 d fin)) = r.
Proof. intros. destruct x; simpl; rewrite H; reflexivity. Qed.

Lemma on_stream_ri : forall sid s lg s0 d fin x s',
  RI sid s lg -> on_stream s s0 d fin = (x, s') -> RI sid s' (lg ++ [ent x (EvStream s0 d fin)]).
Proof.
  intros sid s lg s0 d fin x s' [T [V B]] H. unfold RI. rewrite spec_snoc. unfold on_stream in H. unfold view in *.
  destruct (s0 =? sid) eqn:ES.
  - assert (s0 = sid) by lia. subst s0. rewrite upd_stream_same.
    assert (cur (spec sid lg) = match rd_get sid (readers s) with Some r => (rd_buf r, rd_eof r) | None => ([], closed s) end) as CU.
    { unfold cur. rewrite V, T. destruct (rd_get sid (readers s)); reflexivity. }
    destruct (rd_get sid (readers s)) as [r|] eqn:G.
    + destruct d as [|b0 d0].
      * inv_pair H. cbn [rs_term rs_rd rs_bad closed readers with_readers]. rewrite CU. cbn [fst snd nonempty].
        rewrite rd_get_set. cbn [rd_sid rd_buf rd_eof]. rewrite Z.eqb_refl, app_nil_r, B, andb_false_r. repeat split; cbn [rd_sid rd_buf rd_eof]; congruence.
      * destruct (rd_eof r) eqn:EO; inv_pair H; cbn [rs_term rs_rd rs_bad closed readers with_readers]; rewrite CU.
        -- rewrite G, EO. repeat split; cbn [rd_sid rd_buf rd_eof]; congruence.
        -- cbn [fst snd nonempty]. rewrite rd_get_set. cbn [rd_sid rd_buf rd_eof]. rewrite Z.eqb_refl, B. repeat split; cbn [rd_sid rd_buf rd_eof]; congruence.
    + cbn [fst snd] in H. destruct d as [|b0 d0].
      * inv_pair H. cbn [rs_term rs_rd rs_bad closed readers with_readers]. rewrite CU. cbn [fst snd nonempty].
        rewrite !rd_get_set. cbn [rd_sid rd_buf rd_eof]. rewrite Z.eqb_refl, B, andb_false_r. repeat split; cbn [rd_sid rd_buf rd_eof]; congruence.
      * cbn [rd_eof] in H. destruct (closed s) eqn:CL; inv_pair H; cbn [rs_term rs_rd rs_bad closed readers with_readers]; rewrite CU.
        -- rewrite rd_get_set. cbn [rd_sid rd_buf rd_eof]. rewrite Z.eqb_refl. repeat split; cbn [rd_sid rd_buf rd_eof]; congruence.
        -- cbn [fst snd nonempty]. rewrite !rd_get_set. cbn [rd_sid rd_buf rd_eof]. rewrite Z.eqb_refl, B. repeat split; cbn [rd_sid rd_buf rd_eof]; congruence.
  - rewrite upd_stream_other by exact ES.
    assert (forall l r, rd_sid r = s0 -> rd_get sid (rd_set r l) = rd_get sid l) as NS.
    { intros l r E. rewrite rd_get_set. rewrite E, ES. reflexivity. }
    destruct (rd_get s0 (readers s)) as [r|] eqn:G.
    + destruct d as [|b0 d0]; [|destruct (rd_eof r)]; inv_pair H; cbn [closed readers with_readers]; rewrite ?NS by reflexivity; repeat split; congruence.
    + cbn [fst snd rd_eof] in H. destruct d as [|b0 d0]; [|destruct (closed s) eqn:CL]; inv_pair H; cbn [closed readers with_readers];
        rewrite ?NS by reflexivity; repeat split; congruence.
Qed.

Lemma upd_other : forall sid r x e, (forall s d f, e <> EvStream s d f) -> (x = None -> forall hx, e <> EvTerminated hx) ->
  upd sid r (ent x e) = r.
Proof.
  intros sid r x e NS NT. destruct x as [y|]; simpl.
  - destruct e; try reflexivity. exfalso. eapply NS; reflexivity.
  - destruct e; try reflexivity; exfalso; [eapply NT; reflexivity|eapply NS; reflexivity].
Qed.

(* what a non-stream event does to readers and the closed flag *)
Lemma handle_event_readers : forall e s x s', (forall s0 d f, e <> EvStream s0 d f) -> handle_event e s = (x, s') ->
  (readers s' = readers s /\ closed s' = closed s /\ (x = None -> forall hx, e <> EvTerminated hx)) \/
  (x = None /\ (exists hx, e = EvTerminated hx) /\ readers s' = feed_eof_all (readers s) /\ closed s' = true).
Proof.
  intros e s x s' NS H. destruct e as [|hx|uid|sid d fin|cid hx|cid hx|]; simpl in H.
  - left. destruct (cwait s); simpl in H; [destruct (resolve _ _ _)|]; inv_pair H; repeat split; intros; discriminate.
  - destruct (hx =? 0); simpl in H; [|inv_pair H; left; repeat split; intros; discriminate].
    destruct (cwait s); simpl in H.
    + destruct (resolve _ _ _); simpl in H; [|inv_pair H; left; repeat split; intros; discriminate].
      destruct (fail_all _ _) as [[y|] f]; inv_pair H; [left; repeat split; intros; discriminate|].
      right. split; [reflexivity|]. split; [eauto|]. split; reflexivity.
    + destruct (fail_all _ _) as [[y|] f]; inv_pair H; [left; repeat split; intros; discriminate|].
      right. split; [reflexivity|]. split; [eauto|]. split; reflexivity.
  - left. destruct (ping_get uid (pings s)); simpl in H; [destruct (resolve _ _ _)|]; inv_pair H; repeat split; intros; discriminate.
  - exfalso. eapply NS; reflexivity.
  - left. destruct (hx =? 0); inv_pair H; repeat split; intros; discriminate.
  - left. destruct (hx =? 0); inv_pair H; repeat split; intros; discriminate.
  - left. inv_pair H; repeat split; intros; discriminate.
Qed.

Lemma handle_event_ri : forall sid e s lg x s', RI sid s lg -> handle_event e s = (x, s') -> RI sid s' (lg ++ [ent x e]).
Proof.
  intros sid e s lg x s' R H.
  destruct e as [|hx|uid|s0 d fin|cid hx|cid hx|] eqn:EE;
    try (simpl in H; eapply on_stream_ri; eassumption);
    rewrite <- EE in *;
    (assert (forall s0 d f, e <> EvStream s0 d f) as NS by (intros; rewrite EE; discriminate));
    destruct (handle_event_readers e s x s' NS H) as [[A [B C]]|[-> [[hx' ->] [A B]]]].
  all: try (destruct R as [T [V Bd]]; unfold RI; rewrite spec_snoc, (upd_other sid _ x e NS C); unfold view in *; rewrite A, B; auto).
  all: destruct R as [T [V Bd]]; unfold RI; rewrite spec_snoc; simpl; unfold view in *; rewrite A, B, rd_get_eof_all; rewrite V;
       destruct (rd_get sid (readers s)); auto.
Qed.

Lemma hprocess_ri : forall sid q lg s x lg' s', RI sid s lg -> hprocess q lg s = (x, lg', s') -> RI sid s' lg'.
Proof.
  intros sid. induction q as [|e rest IH]; intros lg s x lg' s' R H; simpl in H.
  - inv_pair H. exact R.
  - destruct (handle_event e (with_evq s rest)) as [[y|] s1] eqn:E.
    + inv_pair H. apply (handle_event_ri sid e (with_evq s rest) lg (Some y) s'); assumption.
    + eapply IH; [|exact H]. apply (handle_event_ri sid e (with_evq s rest) lg None s1); assumption.
Qed.

Lemma transmit_core_readers : forall s gt e, readers (transmit_core s gt e) = readers s /\ closed (transmit_core s gt e) = closed s.
Proof.
  intros. unfold transmit_core. destruct (timer s); [destruct (negb (oz_eqb (timer_at s) gt))|]; destruct gt; auto.
Qed.

Lemma transmit_soon_readers : forall s, readers (transmit_soon s) = readers s /\ closed (transmit_soon s) = closed s.
Proof. intros. unfold transmit_soon. destruct (ttask s); auto. Qed.

Lemma prepare_ri : forall sid s lg o, RI sid s lg ->
  RI sid (match prepare s o with PDone _ _ s0 => s0 | PGo _ s0 _ _ _ => s0 end)
         (match o with OCreateStream c => lg ++ [LCreate c] | _ => lg end).
Proof.
  intros sid s lg o R. destruct o; simpl; try exact R.
  - destruct (memz w (ltimers s)); simpl; [|exact R]. destruct (timer_at s); exact R.
  - destruct (soon s); exact R.
  - destruct (closed s); exact R.
  - destruct (cwait s); [exact R|]. destruct (connected s); [exact R|]. destruct (closed s); exact R.
  - destruct R as [T [V B]]. unfold RI, view in *. destruct (transmit_soon_readers (set_dirty s)) as [A C]. rewrite A, C. auto.
  - destruct (memz sid0 (wclosing s)); [exact R|]. destruct R as [T [V B]]. unfold RI, view in *.
    match goal with |- context [transmit_soon ?S0] => destruct (transmit_soon_readers S0) as [A C]; rewrite A, C end. auto.
  - destruct R as [T [V B]]. unfold RI, view in *. rewrite spec_snoc. simpl. rewrite rd_get_set. simpl.
    destruct (sid0 =? sid) eqn:E; simpl; [rewrite T; auto|auto].
  - destruct R as [T [V B]]. unfold RI, view in *. destruct (transmit_soon_readers s) as [A C]. rewrite A, C. auto.
Qed.

Lemma hstep_ri : forall sid fx s lg o x out lg' s', RI sid s lg -> hstep fx s lg o = (x, out, lg', s') -> RI sid s' lg'.
Proof.
  intros sid fx s lg o x out lg' s' R H. unfold hstep, run_plan, hproc in H.
  pose proof (prepare_ri sid s lg o R) as PR.
  set (lg0 := match o with OCreateStream c => lg ++ [LCreate c] | _ => lg end) in *.
  destruct (prepare s o) as [x0 extra s0|extra s0 pe gt etx]; [inv_pair H; exact PR|].
  assert (forall lg1 s1, RI sid s1 lg1 ->
            (if fx then let '(x2, w3, s3) := hprocess (evq (transmit_core s1 gt etx)) lg1 (transmit_core s1 gt etx) in (x2, extra, w3, s3)
             else (None, extra, lg1, transmit_core s1 gt etx)) = (x, out, lg', s') -> RI sid s' lg') as K.
  { intros lg1 s1 [T [V B]] H1.
    assert (RI sid (transmit_core s1 gt etx) lg1) as R2.
    { unfold RI, view in *. destruct (transmit_core_readers s1 gt etx) as [A C]. rewrite A, C. auto. }
    destruct fx; [|inv_pair H1; exact R2].
    destruct (hprocess _ lg1 _) as [[x2 w3] s3] eqn:E. inv_pair H1. eapply hprocess_ri; eauto. }
  destruct pe.
  - destruct (hprocess (evq s0) lg0 s0) as [[x1 w1] s1] eqn:E.
    assert (RI sid s1 w1) as R1 by (eapply hprocess_ri; eauto).
    destruct x1 as [y|]; [inv_pair H; exact R1|]. eapply K; eauto.
  - eapply K; eauto.
Qed.

Lemma hrun_ri : forall sid fx ops s lg, RI sid s lg -> RI sid (snd (hrun fx s lg ops)) (fst (hrun fx s lg ops)).
Proof.
  intros sid fx. induction ops as [|o t IH]; intros s lg R; simpl; [exact R|].
  destruct (hstep fx s lg o) as [[[x out] lg'] s'] eqn:E. apply IH. eapply hstep_ri; eauto.
Qed.

(* reader_prefix_then_eof: for every schedule (op sequence) and both trees, with lg the history of the run (events
   handled, in order, and create_stream() calls): the reader of stream sid holds exactly the bytes the specification
   computes from lg -- the concatenation, in order, of the data of the StreamDataReceived events for sid handled since the
   reader was created --, is at EOF iff an end marker or ConnectionTerminated was handled (or it was created after
   termination), and no event fed bytes to a reader already at EOF (rs_bad = false: such a feed raises and feeds nothing). *)
Lemma reader_prefix_then_eof_l : forall fx ops sid,
  let lg := fst (hrun fx st_init [] ops) in
  let s := run fx st_init ops in
  view sid s = rs_rd (spec sid lg) /\ rs_bad (spec sid lg) = false /\ rs_term (spec sid lg) = closed s.
Proof.
  intros fx ops sid lg s.
  assert (RI sid st_init []) as R0 by (unfold RI, view; simpl; auto).
  pose proof (hrun_ri sid fx ops st_init [] R0) as [T [V B]]. rewrite hrun_proj in *. fold s in T, V. fold lg in T, V, B. auto.
Qed.

(* the specification on a concrete history: bytes in order, EOF once, empty chunk with the end marker repeated *)
Example spec_example :
  spec 4 [LEv (EvStream 4 [1; 2] false); LEv EvHandshake; LEv (EvStream 8 [9] true); LEv (EvStream 4 [3] true);
          LFail (EvStream 4 [7] false); LEv (EvStream 4 [] true); LEv (EvTerminated 0)]
  = mkRS true (Some ([1; 2; 3], true)) false.
Proof. reflexivity. Qed.
