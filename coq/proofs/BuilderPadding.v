(* initial_padded: characterisation of the length of Initial-carrying datagrams (coq/model/Builder.v). *)
From Coq Require Import ZArith List Bool Lia ZifyBool.
From AQ Require Import lib.Base lib.Tok gen.C13Consts model.Builder proofs.BuilderProofs.
Import ListNotations.
Open Scope Z_scope.

(* no op of the history raised BufferWriteError or CryptoError (both leave _end_packet half-way: the padding flag
   already cleared, the packet not written; the theorem does not need the caller discipline itself) *)
Definition not_bw (o : outcome) : bool := match o with OBufferWrite | OCrypto => false | _ => true end.
Fixpoint no_buffer_error (c : cfg) (s : st) (ops : list op) : bool :=
  match ops with
  | [] => true
  | o :: t => let '(r, s', _) := step c s o in not_bw r && no_buffer_error c s' t
  end.

Definition padded_ok (d : dgram) : Prop := d_init d = true -> d_len d = Z.max (d_raw d) (d_fcap d).

Ltac finQ H1 :=
  repeat split; auto; try lia; try discriminate;
  try (match goal with H : None = Some _ |- _ => discriminate H end);
  try (match goal with H : b_cur _ = Some ?p |- _ => apply (H1 p H) end);
  try (match goal with H : Some _ = Some _ |- _ => inversion H; subst; simpl; auto; lia end).

Section Pad.
Variable c : cfg.
Hypothesis Hwf : wf_cfg c.

Definition Q (s : st) : Prop :=
  0 <= b_tell s /\
  (forall p, b_cur s = Some p -> 0 <= p_start p /\ 0 <= p_hdr p) /\
  (g_hasinit s = true -> b_dgpad s = true) /\
  Forall padded_ok (g_log s).

Lemma flush_current_Q' s o s' :
  0 <= b_tell s -> (g_hasinit s = true -> b_dgpad s = true \/ b_fcap s <= b_tell s) -> Forall padded_ok (g_log s) ->
  flush_current c s = (o, s') ->
  (o = ODone \/ o = OBufferWrite) /\
  0 <= b_tell s' /\ b_cur s' = b_cur s /\ Forall padded_ok (g_log s') /\ b_dgpad s' = b_dgpad s /\
  (b_tell s <> 0 -> o = ODone -> g_hasinit s' = false) /\ (b_tell s = 0 -> s' = s).
Proof.
  unfold flush_current. intros H0 HQ HL E. cbv zeta in E.
  destruct (b_tell s =? 0) eqn:T0.
  { inversion E; subst. repeat split; auto; try lia; congruence. }
  destruct (b_dgpad s) eqn:DP; [destruct (b_fcap s - b_tell s >? 0) eqn:X|simpl in E];
  match type of E with context[if ?b then _ else _] => destruct b eqn:G end;
  inversion E; subst; clear E; simpl; repeat split; auto; try lia; try congruence;
  try (apply Forall_app; split; auto; constructor; auto; unfold padded_ok; simpl; intros HI;
       specialize (HQ HI); destruct HQ; try discriminate; lia).
Qed.

Lemma flush_current_Q s o s' : Q s -> flush_current c s = (o, s') -> o <> OBufferWrite -> Q s'.
Proof.
  intros (H0&H1&H2&H3) E NE.
  destruct (flush_current_Q' s o s' H0 (fun h => or_introl (H2 h)) H3 E) as (OO&F0&F1&F2&F3&F4&F5).
  destruct OO as [ -> | -> ]; [|congruence].
  destruct (Z.eq_dec (b_tell s) 0) as [Z0|NZ].
  - rewrite (F5 Z0). repeat split; auto; apply (H1 _ H).
  - unfold Q. rewrite F1, F3. repeat split; auto; try (apply (H1 _ H)). rewrite (F4 NZ eq_refl). discriminate.
Qed.

Lemma end_packet_Q s p o s' :
  Q s -> b_cur s = Some p -> end_packet c s p = (o, s') -> o <> OBufferWrite -> o <> OCrypto -> Q s'.
Proof.
  intros (H0&H1&H2&H3) Hc E NE NC. destruct (H1 p Hc) as [P0 P1].
  assert (Hnone : forall (PP : pkt -> Prop) q, @None pkt = Some q -> PP q) by (intros; discriminate).
  unfold end_packet in E.
  destruct (b_tell s - p_start p >? p_hdr p) eqn:SZ.
  2:{ inversion E; subst; clear E. unfold Q, set_cur, set_tell; simpl. finQ H1. }
  cbv zeta in E.
  set (is_init := (c_client c || p_ackel p) && (p_type p =? PT_INITIAL)) in *.
  set (pad1 := b_dgpad s || is_init) in *.
  match type of E with context[let '(_, _) := ?X in _] => destruct X as [padding pad2] eqn:PP end.
  assert (PA : ((p_type p =? PT_ONE_RTT) = false -> pad2 = pad1) /\
               (pad1 = true -> (p_type p =? PT_ONE_RTT) = true ->
                b_fcap s <= b_tell s + Z.max padding 0 + AEAD_TAG_SIZE)).
  { unfold remaining_flight_space in PP. split.
    - intros T1. rewrite T1, andb_false_r in PP. apply pair_equal_spec in PP; destruct PP as [_ <-]. reflexivity.
    - intros HP T1. rewrite HP, T1 in PP. simpl in PP.
      destruct (_ >? _) eqn:RF in PP; apply pair_equal_spec in PP; destruct PP as [<- _]; lia. }
  destruct PA as [PA1 PA2]. clear PP.
  destruct ((padding >? 0) && (b_tell s + padding >? c_mds c)) eqn:PE; [inversion E; subst; congruence|].
  match type of E with context[let '(_, _) := ?X in _] => destruct X as [psz infl] eqn:PS end.
  assert (PZ : psz = b_tell s - p_start p + Z.max padding 0).
  { destruct (padding >? 0) eqn:G in PS; apply pair_equal_spec in PS; destruct PS as [<- <-]; lia. }
  clear PS.
  destruct (match c_cmax c with Some m => psz + AEAD_TAG_SIZE >? m | None => false end) eqn:CE;
    [inversion E; subst; congruence|]. clear CE.
  destruct (p_start p + (psz + AEAD_TAG_SIZE) >? c_mds c) eqn:EE; [inversion E; subst; congruence|].
  assert (HG : (g_hasinit s || is_init) = true -> pad1 = true).
  { unfold pad1. intros G. apply orb_true_iff in G. destruct G as [G|G]; [rewrite (H2 G)|rewrite G, orb_true_r]; reflexivity. }
  destruct (p_type p =? PT_ONE_RTT) eqn:T1.
  - match type of E with context[flush_current c ?X] => remember X as s2 eqn:ES2 end.
    destruct (flush_current c s2) as [o3 s3] eqn:F.
    unfold AEAD_TAG_SIZE in *.
    assert (A0 : 0 <= b_tell s2) by (subst s2; cbn; lia).
    assert (A1 : g_hasinit s2 = true -> b_dgpad s2 = true \/ b_fcap s2 <= b_tell s2).
    { subst s2; cbn. intros G; right; specialize (PA2 (HG G) eq_refl); lia. }
    assert (A2 : Forall padded_ok (g_log s2)) by (subst s2; cbn; auto).
    assert (A3 : b_tell s2 <> 0) by (subst s2; cbn; lia).
    destruct (flush_current_Q' s2 o3 s3 A0 A1 A2 F) as (OO&F0&F1&F2&F3&F4&F5).
    destruct OO as [ -> | -> ]; [|inversion E; subst; congruence].
    inversion E; subst s'; clear E. unfold Q; cbn. finQ H1.
    all: rewrite (F4 A3 eq_refl); discriminate.
  - inversion E; subst; clear E. unfold Q; simpl. finQ H1.
    all: try (rewrite (PA1 eq_refl)); try exact HG; auto; unfold AEAD_TAG_SIZE; lia.
Qed.

Lemma end_current_Q s o s' : Q s -> end_current c s = (o, s') -> o <> OBufferWrite -> o <> OCrypto -> Q s'.
Proof.
  unfold end_current. intros HQ E NE NC. destruct (b_cur s) eqn:Hc; [eapply end_packet_Q; eauto|inversion E; subst; auto].
Qed.

End Pad.
