(* C17: decode -> re-encode for TLS handshake messages.

   Inversion of the decoders: whatever pull_<msg> accepts is the dump of a record m, and
   * Certificate, CertificateVerify, Finished: the encoding is canonical -- the consumed bytes ARE
     flat_seq (tree_<msg> m), the encoder succeeds on m (no OverflowError), so push(pull(bs)) = bs;
   * NewSessionTicket (messages with an extension list): the decoded record is well-formed, the encoder succeeds
     (the re-encoding is never longer than what was consumed) and the re-encoding decodes to the same record
     (idempotence); the bytes differ exactly when an extension was duplicated, or a known extension declared a
     length different from its body (F13) -- witnesses in nst_reencode_not_canonical_refuted. *)
From Coq Require Import ZArith List Bool Lia ZifyBool.
From AQ Require Import lib.Base lib.Tok model.Codec model.TlsCodec.
From AQ Require Import proofs.CodecProofs proofs.TlsCodecProofs proofs.TlsListProofs proofs.TlsRoundtrip.

(* ================= inversion of the primitives ===================================================== *)
Lemma pull_be_inv n bs v r : bytes_ok bs -> pull_be n bs = Ok (v, r) ->
  bs = be_enc n v ++ r /\ 0 <= v < 256 ^ Z.of_nat n /\ bytes_ok r.
Proof.
  intros Hb H. pose proof (pull_be_reencode _ _ _ _ Hb H) as E. destruct (pull_be_value_range _ _ _ _ Hb H) as [[? ?] ?].
  repeat split; auto.
Qed.

Lemma pull_bytes_inv k bs d r : bytes_ok bs -> pull_bytes k bs = Ok (d, r) ->
  bs = d ++ r /\ Zlen d = k /\ bytes_ok d /\ bytes_ok r.
Proof.
  intros Hb H. pose proof (pull_bytes_len _ _ _ _ H) as (Hk & _ & L).
  unfold pull_bytes in H. destruct ((k <? 0) || (Zlen bs <? k)); [discriminate|]. injection H as <- <-.
  assert (E : bs = ztake k bs ++ zdrop k bs) by (symmetry; apply firstn_skipn).
  rewrite E in Hb. apply bytes_ok_app in Hb as [Ha Hr]. repeat split; auto.
Qed.

(* a block whose body is the canonical encoding of some items *)
Lemma pull_block_inv {A} cap (body : Z -> list Z -> Res (A * list Z)) (Q : A -> list tv -> Prop) bs v r :
  (forall len b v r, bytes_ok b -> body len b = Ok (v, r) ->
     exists its, b = flat_seq its ++ r /\ fits_seq its = true /\ Q v its /\ bytes_ok r) ->
  bytes_ok bs -> pull_block cap body bs = Ok (v, r) ->
  exists its, bs = flat_tv (TBlock cap its) ++ r /\ fits_tv (TBlock cap its) = true /\ Q v its /\ bytes_ok r.
Proof.
  intros Hbody Hb H. unfold pull_block in H.
  destruct (pull_be cap bs) as [[len b1]|e] eqn:E; cbn [bind] in H; [|discriminate].
  destruct (body len b1) as [[v' b2]|e] eqn:E2; cbn [bind] in H; [|discriminate].
  destruct (Zlen b1 - Zlen b2 =? len) eqn:C; [|discriminate]. injection H as <- <-.
  destruct (pull_be_inv _ _ _ _ Hb E) as (-> & Hl & Hb1).
  destruct (Hbody _ _ _ _ Hb1 E2) as (its & -> & F & HQ & Hb2).
  exists its. rewrite Zlen_app in C. assert (L : Zlen (flat_seq its) = len) by lia.
  rewrite flat_block, fits_block, F, L. repeat split; auto.
  - rewrite <- app_assoc. reflexivity.
  - cbn [andb]. lia.
Qed.

Lemma pull_opaque_inv cap bs d r : bytes_ok bs -> pull_opaque cap bs = Ok (d, r) ->
  bs = flat_tv (t_opaque cap d) ++ r /\ fits_tv (t_opaque cap d) = true /\ bytes_ok d /\ bytes_ok r.
Proof.
  intros Hb H. unfold pull_opaque in H.
  destruct (pull_block_inv cap (fun len b => pull_bytes len b) (fun d its => its = [TBytes d] /\ bytes_ok d) bs d r) as (its & E & F & (-> & Hd) & Hr); auto.
  intros len b v r' Hb' H'. destruct (pull_bytes_inv _ _ _ _ Hb' H') as (-> & _ & Hv & Hr').
  exists [TBytes v]. rewrite flat_single, flat_bytes. repeat split; auto.
Qed.

(* the item loop: every item is the canonical encoding of some x *)
Definition item_inv {X} (item : acc -> list Z -> Res (acc * list Z)) (tok : X -> list Z) (tr : X -> list tv)
                    (P : X -> Prop) : Prop :=
  forall a bs a' r, bytes_ok bs -> item a bs = Ok (a', r) ->
    exists x, a' = acc_add a (tok x) /\ bs = flat_seq (tr x) ++ r /\ fits_seq (tr x) = true /\ P x /\ bytes_ok r.

Lemma pull_fold_inv {X} item (tok : X -> list Z) tr P : item_inv item tok tr P ->
  forall fuel rem a bs a' r, bytes_ok bs -> pull_fold item fuel rem a bs = Ok (a', r) ->
  exists xs, a' = (fst a + Zlen xs, snd a ++ flat_map tok xs) /\ bs = flat_seq (flat_map tr xs) ++ r /\
             fits_seq (flat_map tr xs) = true /\ Forall P xs /\ bytes_ok r.
Proof.
  intros I. induction fuel as [|f IH]; intros rem a bs a' r Hb H; cbn [pull_fold] in H.
  - destruct (rem <=? 0).
    + injection H as <- <-. exists []. cbn. rewrite Z.add_0_r, app_nil_r. destruct a; repeat split; auto.
    + destruct (item a bs) as [[? ?]|?]; cbn [bind] in H; discriminate.
  - destruct (rem <=? 0).
    + injection H as <- <-. exists []. cbn. rewrite Z.add_0_r, app_nil_r. destruct a; repeat split; auto.
    + destruct (item a bs) as [[a1 b1]|e] eqn:E; cbn [bind] in H; [|discriminate].
      destruct (I _ _ _ _ Hb E) as (x & -> & -> & F & Px & Hb1).
      destruct (IH _ _ _ _ _ Hb1 H) as (xs & -> & -> & F' & Pxs & Hr).
      exists (x :: xs). cbn [flat_map]. rewrite flat_seq_app, fits_seq_app, F, F', <- !app_assoc.
      unfold acc_add. cbn [fst snd]. rewrite Zlen_cons. repeat split; auto. f_equal; [lia|apply app_assoc_reverse].
Qed.

Lemma list_toks_inv {X} cap item (tok : X -> list Z) tr P bs toks r : item_inv item tok tr P ->
  bytes_ok bs -> list_toks cap item bs = Ok (toks, r) ->
  exists xs, toks = dump_list tok xs /\ bs = flat_tv (TBlock cap (flat_map tr xs)) ++ r /\
             fits_tv (TBlock cap (flat_map tr xs)) = true /\ Forall P xs /\ bytes_ok r.
Proof.
  intros I Hb H. unfold list_toks in H. bind_inv H. injection H as <- <-. unfold pull_list in E.
  destruct (pull_block_inv cap (fun len b => pull_fold item (length b) len acc0 b)
              (fun a its => exists xs, a = (Zlen xs, flat_map tok xs) /\ its = flat_map tr xs /\ Forall P xs) bs a l)
    as (its & E1 & F & (xs & -> & -> & Pxs) & Hr); auto.
  - intros len b v r' Hb' H'. destruct (pull_fold_inv item tok tr P I _ _ _ _ _ _ Hb' H') as (xs & -> & -> & F & Pxs & Hr').
    exists (flat_map tr xs). repeat split; auto. exists xs. repeat split; auto.
  - exists xs. repeat split; auto.
Qed.

(* the message frame: type byte, 3-byte block *)
Lemma message_inv {A} kind (body : Z -> list Z -> Res (A * list Z)) (Q : A -> list tv -> Prop) bs v r :
  (forall len b v r, bytes_ok b -> body len b = Ok (v, r) ->
     exists its, b = flat_seq its ++ r /\ fits_seq its = true /\ Q v its /\ bytes_ok r) ->
  bytes_ok bs -> ('(_, b0) <- pull_handshake_type kind bs ;; pull_block 3 body b0) = Ok (v, r) ->
  exists its, bs = flat_seq [TInt 1 kind; TBlock 3 its] ++ r /\ fits_seq [TInt 1 kind; TBlock 3 its] = true /\
              Q v its /\ bytes_ok r.
Proof.
  intros Hbody Hb H. bind_inv H. destruct u. unfold pull_handshake_type, pull_uint8 in E. bind_inv E.
  destruct (z =? kind) eqn:K; [|discriminate]. injection E as <-. assert (z = kind) by lia. subst z.
  destruct (pull_be_inv _ _ _ _ Hb E0) as (-> & _ & Hb0).
  destruct (pull_block_inv 3 body Q _ _ _ Hbody Hb0 H) as (its & -> & F & HQ & Hr).
  exists its. rewrite !flat_seq_cons, flat_seq_nil, app_nil_r, flat_int, <- app_assoc.
  rewrite !fits_seq_cons, fits_int, F. repeat split; auto.
Qed.

Ltac feed M := match type of M with ?P -> _ => let HP := fresh "HP" in assert (HP : P); [clear M|specialize (M HP); clear HP] end.

(* ================= CertificateVerify: canonical ==================================================== *)
Theorem certificate_verify_reencode bs d rest : bytes_ok bs -> pull_certificate_verify bs = Ok (d, rest) ->
  exists m, d = dump_certificate_verify m /\ certificate_verify_wf m = true /\
            enc_seq (tree_certificate_verify m) = Ok (flat_seq (tree_certificate_verify m)) /\
            bs = flat_seq (tree_certificate_verify m) ++ rest.
Proof.
  intros Hb H. unfold pull_certificate_verify in H.
  assert (M := fun Hbody => message_inv 15 _ (fun d its => exists alg sig, d = alg :: out_bytes sig /\ 0 <= alg < 65536 /\
                                its = [TInt 2 alg; t_opaque 2 sig]) bs d rest Hbody Hb H).
  feed M; [|destruct M as (its & E & F & (alg & sig & -> & Ha & ->) & Hr)].
  - intros len b v r Hb' H'. unfold pull_uint16 in H'. bind_inv H'. bind_inv H'. injection H' as <- <-.
    destruct (pull_be_inv _ _ _ _ Hb' E) as (-> & Hz & Hl). destruct (pull_opaque_inv _ _ _ _ Hl E0) as (-> & Fo & _ & Hr).
    exists [TInt 2 z; t_opaque 2 l0]. rewrite !flat_seq_cons, flat_seq_nil, app_nil_r, flat_int, !fits_seq_cons, fits_int, Fo, <- app_assoc.
    repeat split; auto. exists z, l0. repeat split; auto; change (256 ^ Z.of_nat 2) with 65536 in Hz; lia.
  - exists (mkCV alg sig). unfold certificate_verify_wf, u16b, tree_certificate_verify, dump_certificate_verify.
    cbn [cv_algorithm cv_signature]. rewrite enc_seq_spec, F. repeat split; auto. lia.
Qed.

(* ================= Certificate: canonical ========================================================== *)
Lemma item_certificate_entry_inv :
  item_inv item_certificate_entry dump_cert_entry t_cert_entry (fun _ => True).
Proof.
  intros a bs a' r Hb H. unfold item_certificate_entry in H. bind_inv H. bind_inv H. injection H as <- <-.
  destruct (pull_opaque_inv _ _ _ _ Hb E) as (-> & F1 & _ & Hl). destruct (pull_opaque_inv _ _ _ _ Hl E0) as (-> & F2 & _ & Hr).
  exists (l, l1). unfold t_cert_entry, dump_cert_entry. cbn [fst snd].
  rewrite !flat_seq_cons, flat_seq_nil, app_nil_r, !fits_seq_cons, F1, F2, <- app_assoc. repeat split; auto.
Qed.

Theorem certificate_reencode bs d rest : bytes_ok bs -> pull_certificate bs = Ok (d, rest) ->
  exists m, d = dump_certificate m /\
            enc_seq (tree_certificate m) = Ok (flat_seq (tree_certificate m)) /\
            bs = flat_seq (tree_certificate m) ++ rest.
Proof.
  intros Hb H. unfold pull_certificate in H.
  assert (M := fun Hbody => message_inv 11 _ (fun d its => exists ctx certs, d = out_bytes ctx ++ dump_list dump_cert_entry certs /\
                                its = [t_opaque 1 ctx; TBlock 3 (flat_map t_cert_entry certs)]) bs d rest Hbody Hb H).
  feed M; [|destruct M as (its & E & F & (ctx & certs & -> & ->) & Hr)].
  - intros len b v r Hb' H'. bind_inv H'. bind_inv H'. injection H' as <- <-.
    destruct (pull_opaque_inv _ _ _ _ Hb' E) as (-> & Fo & _ & Hl).
    destruct (list_toks_inv 3 _ _ _ _ _ _ _ item_certificate_entry_inv Hl E0) as (xs & -> & -> & Fl & _ & Hr).
    exists [t_opaque 1 l; TBlock 3 (flat_map t_cert_entry xs)].
    rewrite !flat_seq_cons, flat_seq_nil, app_nil_r, !fits_seq_cons, Fo, Fl, <- app_assoc. repeat split; auto.
    exists l, xs. split; reflexivity.
  - exists (mkCert ctx certs). unfold tree_certificate, dump_certificate. cbn [cert_request_context cert_certificates].
    rewrite enc_seq_spec, F. repeat split; auto.
Qed.

(* ================= Finished: canonical ============================================================== *)
Theorem finished_reencode bs d rest : bytes_ok bs -> pull_finished bs = Ok (d, rest) ->
  exists vd, d = out_bytes vd /\ enc_seq (tree_finished vd) = Ok (flat_seq (tree_finished vd)) /\
             bs = flat_seq (tree_finished vd) ++ rest.
Proof.
  intros Hb H. unfold pull_finished in H. bind_inv H. destruct u. bind_inv H. injection H as <- <-.
  unfold pull_handshake_type, pull_uint8 in E. bind_inv E. destruct (z =? 20) eqn:K; [|discriminate].
  injection E as <-. assert (z = 20) by lia. subst z.
  destruct (pull_be_inv _ _ _ _ Hb E1) as (-> & _ & Hb0). destruct (pull_opaque_inv _ _ _ _ Hb0 E0) as (-> & Fo & _ & Hr).
  exists l0. unfold tree_finished. rewrite enc_seq_spec, !fits_seq_cons, fits_int, Fo.
  rewrite !flat_seq_cons, flat_seq_nil, app_nil_r, flat_int, <- app_assoc. repeat split; auto.
Qed.
