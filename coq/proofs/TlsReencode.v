(* C17: decode -> re-encode for TLS handshake messages.

   Inversion of the decoders: whatever pull_<msg> accepts is the dump of a record m, and
   * Certificate, CertificateVerify, Finished: the encoding is canonical -- the consumed bytes ARE
     flat_seq (tree_<msg> m), the encoder succeeds on m (no OverflowError), so push(pull(bs)) = bs;
   * NewSessionTicket (messages with an extension list): the decoded record is well-formed, the encoder succeeds
     (the re-encoding is never longer than what was consumed) and the re-encoding decodes to the same record
     (idempotence); the bytes differ exactly when an extension was duplicated, or a known extension declared a
     length different from its body (F13) -- witnesses in nst_reencode_not_canonical_refuted. *)
From Coq Require Import ZArith List Bool Lia ZifyBool.
From AQ Require Import lib.Base lib.Tok model.Codec model.TlsCodec.
From AQ Require Import proofs.CodecProofs proofs.TlsCodecProofs proofs.TlsListProofs proofs.TlsRoundtrip.

(* ================= inversion of the primitives ===================================================== *)
Lemma pull_be_inv n bs v r : bytes_ok bs -> pull_be n bs = Ok (v, r) ->
  bs = be_enc n v ++ r /\ 0 <= v < 256 ^ Z.of_nat n /\ bytes_ok r.
Proof.
  intros Hb H. pose proof (pull_be_reencode _ _ _ _ Hb H) as E. destruct (pull_be_value_range _ _ _ _ Hb H) as [[? ?] ?].
  repeat split; auto.
Qed.

Lemma pull_bytes_inv k bs d r : bytes_ok bs -> pull_bytes k bs = Ok (d, r) ->
  bs = d ++ r /\ Zlen d = k /\ bytes_ok d /\ bytes_ok r.
Proof.
  intros Hb H. pose proof (pull_bytes_len _ _ _ _ H) as (Hk & _ & L).
  unfold pull_bytes in H. destruct ((k <? 0) || (Zlen bs <? k)); [discriminate|]. injection H as <- <-.
  assert (E : bs = ztake k bs ++ zdrop k bs) by (symmetry; apply firstn_skipn).
  rewrite E in Hb. apply bytes_ok_app in Hb as [Ha Hr]. repeat split; auto.
Qed.

(* a block whose body is the canonical encoding of some items *)
Lemma pull_block_inv {A} cap (body : Z -> list Z -> Res (A * list Z)) (Q : A -> list tv -> Prop) bs v r :
  (forall len b v r, bytes_ok b -> body len b = Ok (v, r) ->
     exists its, b = flat_seq its ++ r /\ fits_seq its = true /\ Q v its /\ bytes_ok r) ->
  bytes_ok bs -> pull_block cap body bs = Ok (v, r) ->
  exists its, bs = flat_tv (TBlock cap its) ++ r /\ fits_tv (TBlock cap its) = true /\ Q v its /\ bytes_ok r.
Proof.
  intros Hbody Hb H. unfold pull_block in H.
  destruct (pull_be cap bs) as [[len b1]|e] eqn:E; cbn [bind] in H; [|discriminate].
  destruct (body len b1) as [[v' b2]|e] eqn:E2; cbn [bind] in H; [|discriminate].
  destruct (Zlen b1 - Zlen b2 =? len) eqn:C; [|discriminate]. injection H as <- <-.
  destruct (pull_be_inv _ _ _ _ Hb E) as (-> & Hl & Hb1).
  destruct (Hbody _ _ _ _ Hb1 E2) as (its & -> & F & HQ & Hb2).
  exists its. rewrite Zlen_app in C. assert (L : Zlen (flat_seq its) = len) by lia.
  rewrite flat_block, fits_block, F, L. repeat split; auto.
  - rewrite <- app_assoc. reflexivity.
  - cbn [andb]. lia.
Qed.

Lemma pull_opaque_inv cap bs d r : bytes_ok bs -> pull_opaque cap bs = Ok (d, r) ->
  bs = flat_tv (t_opaque cap d) ++ r /\ fits_tv (t_opaque cap d) = true /\ bytes_ok d /\ bytes_ok r.
Proof.
  intros Hb H. unfold pull_opaque in H.
  destruct (pull_block_inv cap (fun len b => pull_bytes len b) (fun d its => its = [TBytes d] /\ bytes_ok d) bs d r) as (its & E & F & (-> & Hd) & Hr); auto.
  intros len b v r' Hb' H'. destruct (pull_bytes_inv _ _ _ _ Hb' H') as (-> & _ & Hv & Hr').
  exists [TBytes v]. rewrite flat_single, flat_bytes. repeat split; auto.
Qed.

(* the item loop: every item is the canonical encoding of some x *)
Definition item_inv {X} (item : acc -> list Z -> Res (acc * list Z)) (tok : X -> list Z) (tr : X -> list tv)
                    (P : X -> Prop) : Prop :=
  forall a bs a' r, bytes_ok bs -> item a bs = Ok (a', r) ->
    exists x, a' = acc_add a (tok x) /\ bs = flat_seq (tr x) ++ r /\ fits_seq (tr x) = true /\ P x /\ bytes_ok r.

Lemma pull_fold_inv {X} item (tok : X -> list Z) tr P : item_inv item tok tr P ->
  forall fuel rem a bs a' r, bytes_ok bs -> pull_fold item fuel rem a bs = Ok (a', r) ->
  exists xs, a' = (fst a + Zlen xs, snd a ++ flat_map tok xs) /\ bs = flat_seq (flat_map tr xs) ++ r /\
             fits_seq (flat_map tr xs) = true /\ Forall P xs /\ bytes_ok r.
Proof.
  intros I. induction fuel as [|f IH]; intros rem a bs a' r Hb H; cbn [pull_fold] in H.
  - destruct (rem <=? 0).
    + injection H as <- <-. exists []. cbn. rewrite Z.add_0_r, app_nil_r. destruct a; repeat split; auto.
    + destruct (item a bs) as [[? ?]|?]; cbn [bind] in H; discriminate.
  - destruct (rem <=? 0).
    + injection H as <- <-. exists []. cbn. rewrite Z.add_0_r, app_nil_r. destruct a; repeat split; auto.
    + destruct (item a bs) as [[a1 b1]|e] eqn:E; cbn [bind] in H; [|discriminate].
      destruct (I _ _ _ _ Hb E) as (x & -> & -> & F & Px & Hb1).
      destruct (IH _ _ _ _ _ Hb1 H) as (xs & -> & -> & F' & Pxs & Hr).
      exists (x :: xs). cbn [flat_map]. rewrite flat_seq_app, fits_seq_app, F, F', <- !app_assoc.
      unfold acc_add. cbn [fst snd]. rewrite Zlen_cons. repeat split; auto. f_equal; [lia|apply app_assoc_reverse].
Qed.

Lemma list_toks_inv {X} cap item (tok : X -> list Z) tr P bs toks r : item_inv item tok tr P ->
  bytes_ok bs -> list_toks cap item bs = Ok (toks, r) ->
  exists xs, toks = dump_list tok xs /\ bs = flat_tv (TBlock cap (flat_map tr xs)) ++ r /\
             fits_tv (TBlock cap (flat_map tr xs)) = true /\ Forall P xs /\ bytes_ok r.
Proof.
  intros I Hb H. unfold list_toks in H. bind_inv H. injection H as <- <-. unfold pull_list in E.
  destruct (pull_block_inv cap (fun len b => pull_fold item (length b) len acc0 b)
              (fun a its => exists xs, a = (Zlen xs, flat_map tok xs) /\ its = flat_map tr xs /\ Forall P xs) bs a l)
    as (its & E1 & F & (xs & -> & -> & Pxs) & Hr); auto.
  - intros len b v r' Hb' H'. destruct (pull_fold_inv item tok tr P I _ _ _ _ _ _ Hb' H') as (xs & -> & -> & F & Pxs & Hr').
    exists (flat_map tr xs). repeat split; auto. exists xs. repeat split; auto.
  - exists xs. repeat split; auto.
Qed.

(* the message frame: type byte, 3-byte block *)
Lemma message_inv {A} kind (body : Z -> list Z -> Res (A * list Z)) (Q : A -> list tv -> Prop) bs v r :
  (forall len b v r, bytes_ok b -> body len b = Ok (v, r) ->
     exists its, b = flat_seq its ++ r /\ fits_seq its = true /\ Q v its /\ bytes_ok r) ->
  bytes_ok bs -> ('(_, b0) <- pull_handshake_type kind bs ;; pull_block 3 body b0) = Ok (v, r) ->
  exists its, bs = flat_seq [TInt 1 kind; TBlock 3 its] ++ r /\ fits_seq [TInt 1 kind; TBlock 3 its] = true /\
              Q v its /\ bytes_ok r.
Proof.
  intros Hbody Hb H. bind_inv H. destruct u. unfold pull_handshake_type, pull_uint8 in E. bind_inv E.
  destruct (z =? kind) eqn:K; [|discriminate]. injection E as <-. assert (z = kind) by lia. subst z.
  destruct (pull_be_inv _ _ _ _ Hb E0) as (-> & _ & Hb0).
  destruct (pull_block_inv 3 body Q _ _ _ Hbody Hb0 H) as (its & -> & F & HQ & Hr).
  exists its. rewrite !flat_seq_cons, flat_seq_nil, app_nil_r, flat_int, <- app_assoc.
  rewrite !fits_seq_cons, fits_int, F. repeat split; auto.
Qed.

Ltac feed M := match type of M with ?P -> _ => let HP := fresh "HP" in assert (HP : P); [clear M|specialize (M HP); clear HP] end.

(* ================= CertificateVerify: canonical ==================================================== *)
Theorem certificate_verify_reencode bs d rest : bytes_ok bs -> pull_certificate_verify bs = Ok (d, rest) ->
  exists m, d = dump_certificate_verify m /\ certificate_verify_wf m = true /\
            enc_seq (tree_certificate_verify m) = Ok (flat_seq (tree_certificate_verify m)) /\
            bs = flat_seq (tree_certificate_verify m) ++ rest.
Proof.
  intros Hb H. unfold pull_certificate_verify in H.
  assert (M := fun Hbody => message_inv 15 _ (fun d its => exists alg sig, d = alg :: out_bytes sig /\ 0 <= alg < 65536 /\
                                its = [TInt 2 alg; t_opaque 2 sig]) bs d rest Hbody Hb H).
  feed M; [|destruct M as (its & E & F & (alg & sig & -> & Ha & ->) & Hr)].
  - intros len b v r Hb' H'. unfold pull_uint16 in H'. bind_inv H'. bind_inv H'. injection H' as <- <-.
    destruct (pull_be_inv _ _ _ _ Hb' E) as (-> & Hz & Hl). destruct (pull_opaque_inv _ _ _ _ Hl E0) as (-> & Fo & _ & Hr).
    exists [TInt 2 z; t_opaque 2 l0]. rewrite !flat_seq_cons, flat_seq_nil, app_nil_r, flat_int, !fits_seq_cons, fits_int, Fo, <- app_assoc.
    repeat split; auto. exists z, l0. repeat split; auto; change (256 ^ Z.of_nat 2) with 65536 in Hz; lia.
  - exists (mkCV alg sig). unfold certificate_verify_wf, u16b, tree_certificate_verify, dump_certificate_verify.
    cbn [cv_algorithm cv_signature]. rewrite enc_seq_spec, F. repeat split; auto. lia.
Qed.

(* ================= Certificate: canonical ========================================================== *)
Lemma item_certificate_entry_inv :
  item_inv item_certificate_entry dump_cert_entry t_cert_entry (fun _ => True).
Proof.
  intros a bs a' r Hb H. unfold item_certificate_entry in H. bind_inv H. bind_inv H. injection H as <- <-.
  destruct (pull_opaque_inv _ _ _ _ Hb E) as (-> & F1 & _ & Hl). destruct (pull_opaque_inv _ _ _ _ Hl E0) as (-> & F2 & _ & Hr).
  exists (l, l1). unfold t_cert_entry, dump_cert_entry. cbn [fst snd].
  rewrite !flat_seq_cons, flat_seq_nil, app_nil_r, !fits_seq_cons, F1, F2, <- app_assoc. repeat split; auto.
Qed.

Theorem certificate_reencode bs d rest : bytes_ok bs -> pull_certificate bs = Ok (d, rest) ->
  exists m, d = dump_certificate m /\
            enc_seq (tree_certificate m) = Ok (flat_seq (tree_certificate m)) /\
            bs = flat_seq (tree_certificate m) ++ rest.
Proof.
  intros Hb H. unfold pull_certificate in H.
  assert (M := fun Hbody => message_inv 11 _ (fun d its => exists ctx certs, d = out_bytes ctx ++ dump_list dump_cert_entry certs /\
                                its = [t_opaque 1 ctx; TBlock 3 (flat_map t_cert_entry certs)]) bs d rest Hbody Hb H).
  feed M; [|destruct M as (its & E & F & (ctx & certs & -> & ->) & Hr)].
  - intros len b v r Hb' H'. bind_inv H'. bind_inv H'. injection H' as <- <-.
    destruct (pull_opaque_inv _ _ _ _ Hb' E) as (-> & Fo & _ & Hl).
    destruct (list_toks_inv 3 _ _ _ _ _ _ _ item_certificate_entry_inv Hl E0) as (xs & -> & -> & Fl & _ & Hr).
    exists [t_opaque 1 l; TBlock 3 (flat_map t_cert_entry xs)].
    rewrite !flat_seq_cons, flat_seq_nil, app_nil_r, !fits_seq_cons, Fo, Fl, <- app_assoc. repeat split; auto.
    exists l, xs. split; reflexivity.
  - exists (mkCert ctx certs). unfold tree_certificate, dump_certificate. cbn [cert_request_context cert_certificates].
    rewrite enc_seq_spec, F. repeat split; auto.
Qed.

(* ================= Finished: canonical ============================================================== *)
Theorem finished_reencode bs d rest : bytes_ok bs -> pull_finished bs = Ok (d, rest) ->
  exists vd, d = out_bytes vd /\ enc_seq (tree_finished vd) = Ok (flat_seq (tree_finished vd)) /\
             bs = flat_seq (tree_finished vd) ++ rest.
Proof.
  intros Hb H. unfold pull_finished in H. bind_inv H. destruct u. bind_inv H. injection H as <- <-.
  unfold pull_handshake_type, pull_uint8 in E. bind_inv E. destruct (z =? 20) eqn:K; [|discriminate].
  injection E as <-. assert (z = 20) by lia. subst z.
  destruct (pull_be_inv _ _ _ _ Hb E1) as (-> & _ & Hb0). destruct (pull_opaque_inv _ _ _ _ Hb0 E0) as (-> & Fo & _ & Hr).
  exists l0. unfold tree_finished. rewrite enc_seq_spec, !fits_seq_cons, fits_int, Fo.
  rewrite !flat_seq_cons, flat_seq_nil, app_nil_r, flat_int, <- app_assoc. repeat split; auto.
Qed.

(* ================= NewSessionTicket: idempotent, canonical up to the extension list ================= *)
Definition oweight (l : list ext) : Z := fold_right (fun e s => 4 + Zlen (snd e) + s) 0 l.

Lemma oweight_app a b : oweight (a ++ b) = oweight a + oweight b.
Proof. unfold oweight. induction a as [|e t IH]; cbn [app fold_right]; [reflexivity|]. rewrite IH. lia. Qed.

Lemma oweight_nonneg l : 0 <= oweight l.
Proof. induction l as [|e t IH]; cbn [oweight fold_right]; [lia|]. fold (oweight t). pose proof (Zlen_nonneg (snd e)). lia. Qed.

Lemma flat_others_len l : Zlen (flat_seq (t_others l)) = oweight l.
Proof.
  induction l as [|e t IH]; [reflexivity|]. unfold t_others in *. cbn [flat_map]. rewrite flat_seq_app, Zlen_app, IH, flat_ext.
  rewrite !Zlen_app, !be_enc_Zlen, flat_single, flat_bytes. cbn [oweight fold_right]. fold (oweight t). lia.
Qed.

Lemma fits_others l : oweight l < 65536 -> fits_seq (t_others l) = true.
Proof.
  induction l as [|e t IH]; intros H; [reflexivity|]. unfold t_others in *. cbn [flat_map]. cbn [oweight fold_right] in H.
  fold (oweight t) in H. pose proof (oweight_nonneg t). pose proof (Zlen_nonneg (snd e)).
  rewrite fits_seq_app, IH by lia. rewrite fits_ext, flat_single, flat_bytes, fits_single, fits_bytes. cbn [andb]. lia.
Qed.

Definition nst_known (med : option Z) : list (Z * list Z) := match med with Some v => [(42, [v])] | None => [] end.
Definition nst_medw (med : option Z) : Z := match med with Some _ => 8 | None => 0 end.

Definition nst_inv (st : est) (w : Z) : Prop :=
  exists med others,
    e_known st = nst_known med /\ opt_b u32b med = true /\
    e_other st = (Zlen others, flat_map dump_ext others) /\ forallb (ext_wf [42]) others = true /\
    nst_medw med + oweight others <= w.

Lemma nst_ext_item_inv st w bs st' r : bytes_ok bs -> nst_inv st w ->
  ext_item parse_nst_ext false st bs = Ok (st', r) ->
  nst_inv st' (w + (Zlen bs - Zlen r)) /\ bytes_ok r.
Proof.
  intros Hb (med & others & K & M & O & W & S) H. unfold ext_item in H. cbn [andb] in H.
  unfold pull_uint16 in H. bind_inv H. bind_inv H.
  destruct (pull_be_inv _ _ _ _ Hb E) as (-> & Hty & Hb1). destruct (pull_be_inv _ _ _ _ Hb1 E0) as (-> & Hlen & Hb2).
  change (256 ^ Z.of_nat 2) with 65536 in *. rewrite !Zlen_app, !be_enc_Zlen. change (Z.of_nat 2) with 2.
  unfold parse_nst_ext in H. destruct (z =? 42) eqn:T.
  - unfold pull_uint32 in H. bind_inv H. bind_inv E1. injection E1 as <- <-. injection H as <- <-.
    destruct (pull_be_inv _ _ _ _ Hb2 E2) as (-> & Hv & Hr). change (256 ^ Z.of_nat 4) with 4294967296 in Hv.
    rewrite Zlen_app, be_enc_Zlen. change (Z.of_nat 4) with 4. split; [|exact Hr].
    exists (Some z1), others. cbn [e_known e_other]. repeat split; auto.
    + rewrite K. assert (z = 42) by lia. subst z. destruct med; reflexivity.
    + unfold opt_b, u32b. change (2 ^ 32) with 4294967296. lia.
    + cbn [nst_medw]. pose proof (oweight_nonneg others). destruct med; cbn [nst_medw] in S; lia.
  - bind_inv H. injection H as <- <-. destruct (pull_bytes_inv _ _ _ _ Hb2 E1) as (-> & L & _ & Hr).
    rewrite Zlen_app. split; [|exact Hr].
    exists med, (others ++ [(z, l)]). cbn [e_known e_other]. repeat split; auto.
    + rewrite O. unfold acc_add. cbn [fst snd]. rewrite Zlen_app, flat_map_app. cbn [flat_map dump_ext fst snd].
      rewrite app_nil_r. reflexivity.
    + rewrite forallb_app, W. cbn [forallb]. unfold ext_wf, u16b. cbn [fst existsb]. rewrite T. cbn. lia.
    + rewrite oweight_app. cbn [oweight fold_right snd]. lia.
Qed.

Lemma nst_fold_inv fuel : forall rem st w bs st' r, bytes_ok bs -> nst_inv st w ->
  pull_fold (ext_item parse_nst_ext false) fuel rem st bs = Ok (st', r) ->
  nst_inv st' (w + (Zlen bs - Zlen r)) /\ bytes_ok r.
Proof.
  induction fuel as [|f IH]; intros rem st w bs st' r Hb I H; cbn [pull_fold] in H.
  - destruct (rem <=? 0).
    + injection H as <- <-. rewrite Z.sub_diag, Z.add_0_r. auto.
    + destruct (ext_item parse_nst_ext false st bs) as [[? ?]|?]; cbn [bind] in H; discriminate.
  - destruct (rem <=? 0).
    + injection H as <- <-. rewrite Z.sub_diag, Z.add_0_r. auto.
    + destruct (ext_item parse_nst_ext false st bs) as [[st1 b1]|e] eqn:E; cbn [bind] in H; [|discriminate].
      destruct (nst_ext_item_inv _ _ _ _ _ Hb I E) as (I1 & Hb1).
      destruct (IH _ _ _ _ _ _ Hb1 I1 H) as (I2 & Hr). split; [|exact Hr].
      replace (w + (Zlen bs - Zlen r)) with (w + (Zlen bs - Zlen b1) + (Zlen b1 - Zlen r)) by lia. exact I2.
Qed.

Theorem new_session_ticket_reencode bs d rest : bytes_ok bs -> pull_new_session_ticket bs = Ok (d, rest) ->
  exists m bytes', d = dump_new_session_ticket m /\ new_session_ticket_wf m = true /\
    enc_seq (tree_new_session_ticket m) = Ok bytes' /\ Zlen bytes' + Zlen rest <= Zlen bs /\
    forall rest', pull_new_session_ticket (bytes' ++ rest') = Ok (d, rest').
Proof.
  intros Hb H.
  assert (X : exists m, d = dump_new_session_ticket m /\ new_session_ticket_wf m = true /\
                fits_seq (tree_new_session_ticket m) = true /\
                Zlen (flat_seq (tree_new_session_ticket m)) + Zlen rest <= Zlen bs).
  { unfold pull_new_session_ticket in H.
    destruct (pull_handshake_type 4 bs) as [[[] b0]|e] eqn:E0; cbn [bind] in H; [|discriminate].
    unfold pull_block in H.
    destruct (pull_be 3 b0) as [[len b1]|e] eqn:E1; cbn [bind] in H; [|discriminate]. cbv beta in H.
    destruct (pull_uint32 b1) as [[lt b2]|e] eqn:E2; cbn [bind] in H; [|discriminate].
    destruct (pull_uint32 b2) as [[aa b3]|e] eqn:E3; cbn [bind] in H; [|discriminate].
    destruct (pull_opaque 1 b3) as [[nonce b4]|e] eqn:E4; cbn [bind] in H; [|discriminate].
    destruct (pull_opaque 2 b4) as [[ticket b5]|e] eqn:E5; cbn [bind] in H; [|discriminate].
    destruct (pull_extensions parse_nst_ext false b5) as [[st b6]|e] eqn:E6; cbn [bind] in H; [|discriminate].
    destruct (Zlen b1 - Zlen b6 =? len) eqn:C; [|discriminate]. injection H as <- <-.
    unfold pull_handshake_type, pull_uint8 in E0.
    destruct (pull_be 1 bs) as [[t b0']|e] eqn:E0'; cbn [bind] in E0; [|discriminate].
    destruct (t =? 4) eqn:K; [|discriminate]. injection E0 as ->.
    destruct (pull_be_inv _ _ _ _ Hb E0') as (-> & _ & Hb0).
    destruct (pull_be_inv _ _ _ _ Hb0 E1) as (-> & Hlen & Hb1).
    unfold pull_uint32 in E2, E3.
    destruct (pull_be_inv _ _ _ _ Hb1 E2) as (-> & Hlt & Hb2).
    destruct (pull_be_inv _ _ _ _ Hb2 E3) as (-> & Haa & Hb3).
    destruct (pull_opaque_inv _ _ _ _ Hb3 E4) as (-> & Fn & _ & Hb4).
    destruct (pull_opaque_inv _ _ _ _ Hb4 E5) as (-> & Ft & _ & Hb5).
    unfold pull_extensions, pull_list, pull_block in E6.
    destruct (pull_be 2 b5) as [[elen b7]|e] eqn:E7; cbn [bind] in E6; [|discriminate].
    destruct (pull_fold (ext_item parse_nst_ext false) (length b7) elen est0 b7) as [[st' b8]|e] eqn:E8; cbn [bind] in E6; [|discriminate].
    destruct (Zlen b7 - Zlen b8 =? elen) eqn:C2; [|discriminate]. injection E6 as <- <-.
    destruct (pull_be_inv _ _ _ _ Hb5 E7) as (-> & Hel & Hb7).
    assert (I0 : nst_inv est0 0).
    { exists None, []. repeat split; cbn; lia. }
    destruct (nst_fold_inv _ _ _ _ _ _ _ Hb7 I0 E8) as ((med & others & Kn & M & O & W & S) & Hr).
    change (256 ^ Z.of_nat 4) with 4294967296 in *. change (256 ^ Z.of_nat 2) with 65536 in *.
    change (256 ^ Z.of_nat 3) with 16777216 in *.
    exists (mkNST lt aa nonce ticket med others).
    pose proof (oweight_nonneg others) as ON.
    assert (EX : Zlen (flat_seq (nst_exts (mkNST lt aa nonce ticket med others))) = nst_medw med + oweight others).
    { unfold nst_exts. cbn [nst_max_early_data_size nst_other_extensions]. rewrite flat_seq_app, Zlen_app, flat_others_len.
      destruct med; cbn [t_opt nst_medw]; [|reflexivity].
      rewrite flat_ext, !Zlen_app, !be_enc_Zlen, flat_single, flat_int, be_enc_Zlen. reflexivity. }
    assert (FX : fits_seq (nst_exts (mkNST lt aa nonce ticket med others)) = true).
    { unfold nst_exts. cbn [nst_max_early_data_size nst_other_extensions]. rewrite fits_seq_app, fits_others by (destruct med; cbn [nst_medw] in S; lia).
      destruct med; cbn [t_opt]; [|reflexivity]. rewrite fits_ext, flat_single, flat_int, be_enc_Zlen. reflexivity. }
    repeat split.
    - unfold dump_new_session_ticket. cbn [nst_lifetime nst_age_add nst_nonce nst_ticket nst_max_early_data_size nst_other_extensions].
      unfold out_est, NST_ORDER. cbn [flat_map]. rewrite Kn, O. unfold out_acc, dump_list. cbn [fst snd].
      destruct med; cbn; repeat rewrite <- app_assoc; reflexivity.
    - unfold new_session_ticket_wf. cbn [nst_lifetime nst_age_add nst_max_early_data_size nst_other_extensions].
      rewrite M, W. unfold u32b. change (2 ^ 32) with 4294967296. lia.
    - unfold tree_new_session_ticket. rewrite !fits_seq_cons, fits_block, !fits_seq_cons, !fits_int, fits_seq_nil.
      cbn [nst_lifetime nst_age_add nst_nonce nst_ticket]. rewrite Fn, Ft, fits_block, FX, EX.
      rewrite !flat_seq_cons, flat_seq_nil, !flat_int, flat_block, EX, !Zlen_app, !be_enc_Zlen.
      rewrite !Zlen_app, !be_enc_Zlen in C. cbn [andb]. change (Zlen (@nil Z)) with 0.
      change (256 ^ Z.of_nat 3) with 16777216. change (256 ^ Z.of_nat 2) with 65536.
      pose proof (Zlen_nonneg (flat_tv (t_opaque 1 nonce))). pose proof (Zlen_nonneg (flat_tv (t_opaque 2 ticket))).
      lia.
    - unfold tree_new_session_ticket. cbn [nst_lifetime nst_age_add nst_nonce nst_ticket].
      rewrite !flat_seq_cons, flat_seq_nil, flat_int, flat_block, !flat_seq_cons, flat_seq_nil, !flat_int, flat_block, ?app_nil_r.
      rewrite !Zlen_app, !be_enc_Zlen in C.
      repeat rewrite ?Zlen_app, ?be_enc_Zlen, ?EX. change (Zlen (@nil Z)) with 0 in *. lia. }
  destruct X as (m & -> & Wf & F & L). exists m, (flat_seq (tree_new_session_ticket m)).
  rewrite enc_seq_spec, F. repeat split; auto.
  intros rest'. apply new_session_ticket_roundtrip; [exact Wf|]. rewrite enc_seq_spec, F. reflexivity.
Qed.

(* where the encoding is NOT canonical: a duplicated extension (the last one wins) and a known extension whose declared
   length differs from its body (F13) are accepted and re-encode to different bytes *)
Definition reenc_nst (bs : list Z) : option (list Z) :=
  match pull_new_session_ticket bs with
  | Ok (d, _) => match enc_seq (tree_new_session_ticket (tk_new_session_ticket d)) with Ok b => Some b | Err _ => None end
  | Err _ => None
  end.

Theorem nst_reencode_not_canonical_refuted :
  (* max_early_data_size twice: 4096 then 8192 *)
  (let bs := [4; 0; 0; 30; 0; 0; 0; 1; 0; 0; 0; 2; 0; 0; 1; 7; 0; 16; 0; 42; 0; 4; 0; 0; 16; 0; 0; 42; 0; 4; 0; 0; 32; 0] in
   exists b, reenc_nst bs = Some b /\ b <> bs /\ Zlen b < Zlen bs) /\
  (* F13: declared extension_length 0, body read anyway; re-encoded with length 4 *)
  (let bs := [4; 0; 0; 22; 0; 0; 0; 1; 0; 0; 0; 2; 0; 0; 1; 7; 0; 8; 0; 42; 0; 0; 0; 0; 16; 0] in
   exists b, reenc_nst bs = Some b /\ b <> bs /\ Zlen b = Zlen bs).
Proof.
  split; eexists; (split; [vm_compute; reflexivity|split; [intros X; discriminate X|reflexivity]]).
Qed.
