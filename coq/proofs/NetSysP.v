(* C01: invariants of the network system model/NetSys.v, for EVERY schedule (= every sequence of
   enabled steps: which emitted frame is delivered when, how often, in which order, or never; which
   outcome each emitted frame gets).  Builds on the C10 lemmas (frame_refines, reach_inv,
   send_frames_exact, send_partition, finished_iff); none of them is re-proved here.

   Scope: schedules without stream reset (NReset / NEmitReset / NDeliverReset / NResetOutcome are part
   of the executable model and of the replayed traces, the theorems below quantify over the data
   steps -- see docs/C01.md). *)
From Coq Require Import ZArith List Bool Lia ZifyBool Permutation.
From AQ Require Import lib.Base model.RangeSet model.StreamRecv model.StreamSpec model.StreamSend model.NetSys model.NetSysLive
  proofs.RangeSetP proofs.ListZ proofs.StreamRecvP proofs.StreamSendP.

(* ---------- list helpers ---------- *)
Lemma ztake_succ (w : list Z) o : 0 <= o < Zlen w -> ztake (o + 1) w = ztake o w ++ [nthZ w o].
Proof.
  unfold ztake, nthZ, Zlen. intros H. replace (Z.to_nat (o + 1)) with (S (Z.to_nat o)) by lia.
  assert (E : (Z.to_nat o < length w)%nat) by lia. revert E. generalize (Z.to_nat o). clear.
  intros n. revert w. induction n as [|n IH]; intros w E; destruct w as [|a w]; cbn in E; try lia.
  - reflexivity.
  - change (a :: firstn (S n) w = (a :: firstn n w) ++ [nth n w 0]). cbn [app]. f_equal. apply IH. lia.
Qed.

Lemma nthZ_slice (w : list Z) a b i : 0 <= a -> a <= b -> b <= Zlen w -> 0 <= i < b - a ->
  nthZ (slice w a b) i = nthZ w (a + i).
Proof.
  intros Ha Hab Hb Hi. unfold slice. rewrite nthZ_ztake by lia. rewrite nthZ_zdrop by lia. f_equal. lia.
Qed.

Lemma ztake_app_l {A} (l1 l2 : list A) n : n <= Zlen l1 -> ztake n (l1 ++ l2) = ztake n l1.
Proof.
  unfold ztake, Zlen. intros H. rewrite firstn_app. replace (Z.to_nat n - length l1)%nat with 0%nat by lia.
  cbn. apply app_nil_r.
Qed.

Lemma slice_app_l (w d : list Z) a b : 0 <= a -> a <= b -> b <= Zlen w -> slice (w ++ d) a b = slice w a b.
Proof.
  intros Ha Hab Hb. unfold slice. rewrite zdrop_app_l by lia. apply ztake_app_l. rewrite Zlen_zdrop. lia.
Qed.

Lemma ztake_ztake_all {A} (l : list A) : ztake (Zlen l) l = l.
Proof. apply ztake_all. lia. Qed.

Lemma Zlen_ztake_le {A} (l : list A) n : 0 <= n <= Zlen l -> Zlen (ztake n l) = n.
Proof. intros H. rewrite Zlen_ztake. lia. Qed.

(* a run of a map whose defined entries all agree with w extends the delivered prefix of w *)
Lemma run_prefix (w : list Z) (m : Z -> option Z) : forall fuel o,
  (forall o' b, o <= o' -> m o' = Some b -> o' < Zlen w /\ b = nthZ w o') -> 0 <= o <= Zlen w ->
  o + Zlen (run m o fuel) <= Zlen w /\ ztake (o + Zlen (run m o fuel)) w = ztake o w ++ run m o fuel.
Proof.
  induction fuel as [|fuel IH]; intros o H Ho; cbn [run].
  - rewrite Zlen_nil, Z.add_0_r, app_nil_r. split; [lia|reflexivity].
  - destruct (m o) as [b|] eqn:E.
    + destruct (H o b ltac:(lia) E) as (Hlt & Hb). subst b.
      destruct (IH (o + 1)) as (I1 & I2).
      * intros o' b Ho' Hm. apply H; [lia|exact Hm].
      * lia.
      * assert (EL : Zlen (nthZ w o :: run m (o + 1) fuel) = 1 + Zlen (run m (o + 1) fuel)) by (unfold Zlen; cbn [length]; lia).
        rewrite EL. split; [lia|].
        replace (o + (1 + Zlen (run m (o + 1) fuel))) with (o + 1 + Zlen (run m (o + 1) fuel)) by lia.
        rewrite I2, ztake_succ by lia. rewrite <- app_assoc. reflexivity.
    + rewrite Zlen_nil, Z.add_0_r, app_nil_r. split; [lia|reflexivity].
Qed.

(* ---------- frames consistent with one byte string ---------- *)
Definition consistent (w : list Z) (eofp : Prop) (off : Z) (data : list Z) (fin : bool) : Prop :=
  0 <= off /\ off + Zlen data <= Zlen w /\ data = slice w off (off + Zlen data) /\
  (fin = true -> eofp /\ off + Zlen data = Zlen w).

(* what the receive half's abstract state knows is true of the written bytes *)
Record SpecOk (w : list Z) (eofp : Prop) (sp : rspec) : Prop := {
  so_map : forall o b, sp_del sp <= o -> sp_map sp o = Some b -> o < Zlen w /\ b = nthZ w o;
  so_final : forall f, sp_final sp = Some f -> eofp /\ f = Zlen w;
  so_del : 0 <= sp_del sp <= Zlen w
}.

Lemma spec_frame_consistent w eofp sp off data fin :
  SpecOk w eofp sp -> consistent w eofp off data fin ->
  let '(o, sp') := spec_frame sp off data fin in
  SpecOk w eofp sp' /\ sp_del sp <= sp_del sp' /\
  ((o = RNone /\ sp_del sp' = sp_del sp /\ opt_eqb (sp_final sp') (sp_del sp') = false) \/
   (exists d, o = RData d (opt_eqb (sp_final sp') (sp_del sp')) /\
              ztake (sp_del sp') w = ztake (sp_del sp) w ++ d)) /\
  (opt_eqb (sp_final sp) (sp_del sp) = true -> sp_del sp' = sp_del sp /\ opt_eqb (sp_final sp') (sp_del sp') = true).
Proof.
  intros S (C1 & C2 & C3 & C4). pose proof (Zlen_nonneg data) as Hdl.
  pose proof (so_del _ _ _ S) as Hdel.
  unfold spec_frame. set (e := off + Zlen data).
  assert (Ebad : match sp_final sp with Some f => (e >? f) || (fin && negb (e =? f)) | None => false end = false).
  { destruct (sp_final sp) as [f|] eqn:F; [|reflexivity]. destruct (so_final _ _ _ S f F) as (_ & Hf).
    destruct fin; [destruct (C4 eq_refl) as (_ & C5); unfold e; lia|unfold e; lia]. }
  rewrite Ebad.
  set (final' := if fin then Some e else sp_final sp).
  set (hi' := if e >? sp_hi sp then e else sp_hi sp).
  set (m' := fun o => if (off <=? o) && (o <? e) && (sp_del sp <=? o) then Some (nthZ data (o - off)) else sp_map sp o).
  assert (Hm' : forall o b, sp_del sp <= o -> m' o = Some b -> o < Zlen w /\ b = nthZ w o).
  { intros o b Ho. unfold m'. destruct ((off <=? o) && (o <? e) && (sp_del sp <=? o)) eqn:E1.
    - intros Hb. inversion Hb; subst b. split; [unfold e in *; lia|].
      rewrite C3. rewrite nthZ_slice by (unfold e in *; lia). f_equal. lia.
    - apply (so_map _ _ _ S o b Ho). }
  destruct (run_prefix w m' (Z.to_nat (hi' - sp_del sp)) (sp_del sp) Hm' Hdel) as (R1 & R2).
  set (d := run m' (sp_del sp) (Z.to_nat (hi' - sp_del sp))) in *.
  pose proof (Zlen_nonneg d) as Hd.
  assert (Hfinal' : forall f, final' = Some f -> eofp /\ f = Zlen w).
  { unfold final'. destruct fin; [intros f Hf; inversion Hf; subst f; destruct (C4 eq_refl); split; [assumption|unfold e; lia]|exact (so_final _ _ _ S)]. }
  cbn [sp_del sp_final sp_map sp_hi].
  split; [|split; [lia|split]].
  - constructor; cbn [sp_del sp_final sp_map].
    + intros o b Ho. apply Hm'. lia.
    + exact Hfinal'.
    + lia.
  - destruct d as [|b0 d0] eqn:Ed.
    + rewrite Zlen_nil, Z.add_0_r in *. destruct (opt_eqb final' (sp_del sp)) eqn:Ec.
      * right. exists []. rewrite app_nil_r. split; reflexivity.
      * left. repeat split; reflexivity.
    + right. exists (b0 :: d0). split; [destruct (opt_eqb final' (sp_del sp + Zlen (b0 :: d0))); reflexivity|exact R2].
  - (* already complete: nothing more can be delivered *)
    intros Hfin. destruct (sp_final sp) as [f|] eqn:F; [|discriminate]. cbn [opt_eqb] in Hfin.
    destruct (so_final _ _ _ S f F) as (_ & Hf).
    assert (Zlen d = 0) by lia.
    assert (final' = Some f).
    { unfold final'. destruct fin; [|reflexivity]. destruct (C4 eq_refl) as (_ & C5). f_equal. unfold e. lia. }
    split; [lia|]. rewrite H0. cbn [opt_eqb]. lia.
Qed.

(* ---------- no stream reset: the data steps ---------- *)
Definition data_op (op : nop) : Prop :=
  match op with NReset _ | NEmitReset | NDeliverReset _ | NResetOutcome _ => False | _ => True end.

Inductive nreach : net -> Prop :=
| nreach_init : nreach net_init
| nreach_step s op o s' : nreach s -> data_op op -> net_step s op = Some (o, s') -> nreach s'.

Definition outs_of (l : list eframe) : list frame := map ef_key (filter noout l).
Definition eof (s : net) : Prop := s_fin (n_send s) <> None.

Record NInv (s : net) : Prop := {
  ni_reach : exists outs, reach (n_send s) (mkGhost (n_written s) outs false) /\ Permutation outs (outs_of (n_emitted s));
  ni_noreset : s_reset (n_send s) = None /\ n_resets s = [] /\ n_rreset s = false /\ n_racked s = false;
  ni_emitted : forall f, In f (n_emitted s) -> consistent (n_written s) (eof s) (ef_off f) (ef_data f) (ef_fin f);
  ni_recv : exists sp, Inv true (n_recv s) sp /\ SpecOk (n_written s) (eof s) sp /\
                       n_dbytes s = ztake (sp_del sp) (n_written s) /\
                       n_ends s = b2z (r_finished (n_recv s))
}.

(* ---------- the sender's operations keep FIN / reset bookkeeping ---------- *)
Ltac split_ifs :=
  repeat match goal with
         | |- context [match ?x with _ => _ end] => destruct x eqn:?
         end.

Lemma get_frame_keeps st ms mo :
  s_fin (snd (get_frame st ms mo)) = s_fin st /\ s_reset (snd (get_frame st ms mo)) = s_reset st.
Proof. unfold get_frame, set_empty. split_ifs; cbn; auto. Qed.

Lemma deliv_keeps st k a b f :
  s_fin (snd (on_data_delivery st k a b f)) = s_fin st /\ s_reset (snd (on_data_delivery st k a b f)) = s_reset st.
Proof. unfold on_data_delivery. split_ifs; cbn; auto. Qed.

Lemma write_keeps st d f : s_reset (snd (write st d f)) = s_reset st /\
  (s_fin st = None -> s_reset st = None -> s_fin (snd (write st d f)) = if f then Some (s_stop st + (if negb (Zlen d =? 0) then Zlen d else 0)) else None).
Proof.
  unfold write. split.
  - split_ifs; cbn; auto.
  - intros H1 H2. rewrite H1, H2. destruct (negb (Zlen d =? 0)); destruct f; cbn; try rewrite H1; auto; f_equal; lia.
Qed.

(* ---------- emitted-list bookkeeping ---------- *)
Lemma nthE_split l i f : nthE l i = Some f ->
  exists l1 l2, l = l1 ++ f :: l2 /\ forall f', set_nth i f' l = l1 ++ f' :: l2.
Proof.
  unfold nthE, set_nth. destruct (i <? 0); [discriminate|]. generalize (Z.to_nat i). clear i.
  intros n. revert l. induction n as [|n IH]; intros l H; destruct l as [|a l]; cbn in H; try discriminate.
  - inversion H; subst. exists [], l. split; [reflexivity|]. intros f'. reflexivity.
  - destruct (IH l H) as (l1 & l2 & E & S). exists (a :: l1), l2. split; [cbn; rewrite E; reflexivity|].
    intros f'. specialize (S f'). cbn [firstn skipn app] in *. rewrite S. reflexivity.
Qed.

Lemma nthE_In l i f : nthE l i = Some f -> In f l.
Proof. intros H. destruct (nthE_split l i f H) as (l1 & l2 & E & _). rewrite E. apply in_or_app. right. left. reflexivity. Qed.

Lemma outs_of_app l1 l2 : outs_of (l1 ++ l2) = outs_of l1 ++ outs_of l2.
Proof. unfold outs_of. rewrite filter_app, map_app. reflexivity. Qed.

Lemma remove_one_perm x l : In x l -> Permutation l (x :: remove_one x l).
Proof.
  induction l as [|y t IH]; cbn [In remove_one]; [tauto|]. intros H.
  destruct (frame_eqb x y) eqn:E.
  - apply frame_eqb_eq in E. subst y. reflexivity.
  - destruct H as [H|H]; [subst y; assert (frame_eqb x x = true) by (apply frame_eqb_eq; reflexivity); congruence|].
    eapply perm_trans; [apply perm_skip, IH, H|apply perm_swap].
Qed.

(* ---------- preservation ---------- *)
Lemma consistent_same w eofp f f' : ef_off f' = ef_off f -> ef_data f' = ef_data f -> ef_fin f' = ef_fin f ->
  consistent w eofp (ef_off f) (ef_data f) (ef_fin f) -> consistent w eofp (ef_off f') (ef_data f') (ef_fin f').
Proof. intros -> -> ->. auto. Qed.

Lemma ninv_init : NInv net_init.
Proof.
  constructor; cbn.
  - exists []. split; [apply reach_init|constructor].
  - auto.
  - tauto.
  - exists rspec_init. split; [apply inv_init|]. split; [|split; reflexivity].
    constructor; cbn; [discriminate|discriminate|lia].
Qed.

Lemma ninv_write s d fin o s' : NInv s -> net_step s (NWrite d fin) = Some (o, s') -> NInv s'.
Proof.
  intros I H. cbn [net_step] in H.
  destruct (is_noneb (s_fin (n_send s)) && is_noneb (s_reset (n_send s))) eqn:G; [|discriminate].
  assert (Gf : s_fin (n_send s) = None) by (destruct (s_fin (n_send s)); [discriminate|reflexivity]).
  assert (Gr : s_reset (n_send s) = None) by (destruct (s_reset (n_send s)); [rewrite andb_false_r in G; discriminate|reflexivity]).
  destruct (write (n_send s) d fin) as [so st'] eqn:W. inversion H; subst o s'. clear H.
  assert (Est : st' = snd (write (n_send s) d fin)) by (rewrite W; reflexivity).
  destruct (write_keeps (n_send s) d fin) as (K1 & K2). specialize (K2 Gf Gr). rewrite <- Est in K1, K2.
  destruct (ni_reach _ I) as (outs & R & P). destruct (ni_noreset _ I) as (N1 & N2 & N3 & N4).
  assert (Hnofin : forall f, In f (n_emitted s) -> ef_fin f = false).
  { intros f Hf. destruct (ef_fin f) eqn:E; [|reflexivity]. destruct (ni_emitted _ I f Hf) as (_ & _ & _ & C4).
    destruct (C4 E) as (X & _). unfold eof in X. congruence. }
  constructor; cbn [n_send n_recv n_written n_racked n_emitted n_resets n_rreset n_dbytes n_ends].
  - exists outs. split; [|exact P].
    pose proof (reach_step _ _ (WWrite d fin) R (conj Gf Gr)) as R'. cbn [send_step ghost_step g_written g_outs g_reset_acked] in R'.
    rewrite <- Est in R'. exact R'.
  - rewrite K1. auto.
  - intros f Hf. destruct (ni_emitted _ I f Hf) as (C1 & C2 & C3 & C4). pose proof (Zlen_nonneg (ef_data f)).
    repeat split; try lia;
      try (exfalso; match goal with H : ef_fin f = true |- _ => rewrite (Hnofin f Hf) in H; discriminate end).
    + rewrite Zlen_app. pose proof (Zlen_nonneg d). lia.
    + rewrite slice_app_l by lia. exact C3.
  - destruct (ni_recv _ I) as (sp & V & S & D & E). exists sp. split; [exact V|]. pose proof (so_del _ _ _ S) as Hdel.
    split; [|split; [|exact E]].
    + constructor.
      * intros o0 b Ho Hm. destruct (so_map _ _ _ S o0 b Ho Hm) as (A & B). split; [rewrite Zlen_app; pose proof (Zlen_nonneg d); lia|].
        rewrite nthZ_app_l by lia. exact B.
      * intros f Hf. destruct (so_final _ _ _ S f Hf) as (X & _). unfold eof in X. congruence.
      * rewrite Zlen_app. pose proof (Zlen_nonneg d). lia.
    + rewrite ztake_app_l by lia. exact D.
Qed.
