(* C07: a peer within the limits is never accused -- simulation between the endpoint model and the peer's ledger. *)
From Coq Require Import ZArith List Bool Lia ZifyBool.
From AQ Require Import lib.Base model.RangeSet model.StreamRecv model.ConnLimits model.ConnLimitsSpec gen.C07Consts
  proofs.RangeSetP proofs.ListZ proofs.ConnLimitsP proofs.ConnLimitsAdv.

(* ---------- association-list facts ---------- *)
Lemma sget_sset k sid s' l old : sget sid l = Some old ->
  sget k (sset sid s' l) = if k =? sid then Some s' else sget k l.
Proof.
  induction l as [|[k0 s0] t IH]; cbn [sget sset]; [discriminate|]. destruct (k0 =? sid) eqn:E.
  - intros _. cbn [sget]. destruct (k =? sid) eqn:E2.
    + assert (k0 =? k = true) by lia. rewrite H. reflexivity.
    + assert (k0 =? k = false) by lia. rewrite H. reflexivity.
  - intros H. cbn [sget]. rewrite (IH H). destruct (k0 =? k) eqn:E2; [|reflexivity].
    assert (k =? sid = false) by lia. rewrite H0. reflexivity.
Qed.

Lemma sget_app1 k l sid s : sget k (l ++ [(sid, s)]) =
  match sget k l with Some x => Some x | None => if sid =? k then Some s else None end.
Proof. induction l as [|[k0 s0] t IH]; cbn [app sget]; [reflexivity|]. destruct (k0 =? k); [reflexivity|exact IH]. Qed.

Lemma sget_notin k l : ~ In k (map fst l) -> sget k l = None.
Proof.
  induction l as [|[k0 s0] t IH]; cbn; [reflexivity|]. intros H. destruct (k0 =? k) eqn:E; [exfalso; apply H; left; lia|].
  apply IH. tauto.
Qed.

Lemma sget_in k l s : sget k l = Some s -> In k (map fst l).
Proof. intros H. apply sget_In in H. apply (in_map fst) in H. exact H. Qed.

Lemma keys_sset sid s' l old : sget sid l = Some old -> map fst (sset sid s' l) = map fst l.
Proof.
  induction l as [|[k0 s0] t IH]; cbn [sget sset]; [discriminate|]. destruct (k0 =? sid); cbn; [reflexivity|].
  intros H. rewrite (IH H). reflexivity.
Qed.

Lemma keys_raise l : map fst (fst (raise_streams l)) = map fst l.
Proof.
  induction l as [|[k s] t IH]; cbn; [reflexivity|]. destruct (raise_stream k s). destruct (raise_streams t). cbn in *. rewrite IH. reflexivity.
Qed.

Lemma raise_stream_recv sid s : sm_recv (fst (raise_stream sid s)) = sm_recv s.
Proof. unfold raise_stream. match goal with |- context[if negb (?a =? ?b) then _ else _] => destruct (negb (a =? b)) end; reflexivity. Qed.

Lemma sget_raise k l : sget k (fst (raise_streams l)) = option_map (fun s => fst (raise_stream k s)) (sget k l).
Proof.
  induction l as [|[k0 s0] t IH]; cbn [raise_streams sget]; [reflexivity|].
  destruct (raise_stream k0 s0) as [s' w] eqn:R. destruct (raise_streams t) as [t' w']. cbn [fst sget] in *.
  destruct (k0 =? k) eqn:E; [|exact IH]. assert (k = k0) by lia. subst k. cbn [option_map]. rewrite R. reflexivity.
Qed.

Lemma NoDup_filter_keys f (l : list (Z * strm)) : NoDup (map fst l) -> NoDup (map fst (filter f l)).
Proof.
  induction l as [|p t IH]; cbn; [auto|]. intros H. inversion H; subst. destruct (f p); cbn; [|auto].
  constructor; [|auto]. intros Hin. apply H2. clear -Hin. induction t as [|q t IH]; cbn in *; [tauto|].
  destruct (f q); cbn in *; tauto.
Qed.

Lemma sget_filter f k l : NoDup (map fst l) ->
  sget k (filter f l) = match sget k l with Some s => if f (k, s) then Some s else None | None => None end.
Proof.
  induction l as [|[k0 s0] t IH]; cbn [filter sget map]; [reflexivity|]. intros H. inversion H; subst.
  destruct (k0 =? k) eqn:E.
  - assert (k0 = k) by lia. subst. destruct (f (k, s0)); cbn [sget]; [rewrite Z.eqb_refl; reflexivity|].
    rewrite (IH H3), (sget_notin _ _ H2). reflexivity.
  - destruct (f (k0, s0)); cbn [sget]; rewrite ?E; apply IH, H3.
Qed.

Lemma existsb_eqb_app k l1 l2 : existsb (Z.eqb k) (l1 ++ l2) = existsb (Z.eqb k) l1 || existsb (Z.eqb k) l2.
Proof. apply existsb_app. Qed.

Lemma existsb_keys_filter k f (l : list (Z * strm)) : NoDup (map fst l) ->
  existsb (Z.eqb k) (map fst (filter f l)) = match sget k l with Some s => f (k, s) | None => false end.
Proof.
  induction l as [|[k0 s0] t IH]; cbn [filter sget map]; [reflexivity|]. intros H. inversion H; subst.
  destruct (k0 =? k) eqn:E.
  - assert (k0 = k) by lia. subst. destruct (f (k, s0)) eqn:F; cbn [map existsb fst].
    + rewrite Z.eqb_refl. reflexivity.
    + rewrite (IH H3), (sget_notin _ _ H2). reflexivity.
  - destruct (f (k0, s0)); cbn [map existsb fst]; rewrite ?(IH H3); [|reflexivity].
    assert (k =? k0 = false) by lia. rewrite H0. reflexivity.
Qed.

(* ---------- what peer_see changes ---------- *)
Definition wok (Xd Xb Xu : Z) (x : wire) : Prop :=
  match x with W ft a v =>
    (ft = FT_MAX_DATA -> v <= Xd) /\ (ft = FT_MAX_STREAMS_BIDI -> v <= Xb) /\ (ft = FT_MAX_STREAMS_UNI -> v <= Xu) end.

Lemma peer_see_props Xd Xb Xu w : Forall (wok Xd Xb Xu) w -> forall p,
  p_adv_data p <= Xd -> p_adv_bidi p <= Xb -> p_adv_uni p <= Xu ->
  let p' := peer_see p w in
  p_adv_data p' <= Xd /\ p_adv_bidi p' <= Xb /\ p_adv_uni p' <= Xu /\
  p_hi p' = p_hi p /\ p_final p' = p_final p /\ p_total p' = p_total p.
Proof.
  induction 1 as [|[ft a v] t H _ IH]; intros p H1 H2 H3; cbn [peer_see fold_left]; [auto 10|].
  destruct H as (A & B & C). unfold peer_see in IH.
  assert (G : let q := peer_see1 p (W ft a v) in
              p_adv_data q <= Xd /\ p_adv_bidi q <= Xb /\ p_adv_uni q <= Xu /\ p_hi q = p_hi p /\ p_final q = p_final p /\ p_total q = p_total p).
  { cbn [peer_see1]. destruct (ft =? FT_MAX_DATA) eqn:E1; [cbn; specialize (A ltac:(lia)); repeat split; lia|].
    destruct (ft =? FT_MAX_STREAM_DATA) eqn:E2; [cbn; repeat split; lia|].
    destruct (ft =? FT_MAX_STREAMS_BIDI) eqn:E3; [cbn; specialize (B ltac:(lia)); repeat split; lia|].
    destruct (ft =? FT_MAX_STREAMS_UNI) eqn:E4; [cbn; specialize (C ltac:(lia)); repeat split; lia|].
    repeat split; lia. }
  cbv zeta in G. destruct G as (G1 & G2 & G3 & G4 & G5 & G6).
  destruct (IH (peer_see1 p (W ft a v)) G1 G2 G3) as (I1 & I2 & I3 & I4 & I5 & I6).
  rewrite I4, I5, I6. auto 10.
Qed.

(* ---------- the simulation relation ---------- *)
Record Sim (c : conn) (p : peer) : Prop := {
  s_data : p_adv_data p <= l_value (c_data c);
  s_bidi : p_adv_bidi p <= l_value (c_bidi c);
  s_uni : p_adv_uni p <= l_value (c_uni c);
  s_used : l_used (c_data c) <= p_total p;
  s_live : forall sid s, sget sid (c_streams c) = Some s -> existsb (Z.eqb sid) (c_done c) = false ->
             r_highest (sm_recv s) = p_hi p sid /\ r_final (sm_recv s) = p_final p sid;
  s_fresh : forall sid, sget sid (c_streams c) = None -> existsb (Z.eqb sid) (c_done c) = false ->
              p_hi p sid = 0 /\ p_final p sid = None;
  s_nodup : NoDup (map fst (c_streams c))
}.

Lemma Sim_init cl msd md cb : Sim (conn_init cl msd md cb) (peer_init msd md).
Proof. constructor; cbn; try lia; try discriminate; auto. constructor. Qed.

(* steps that leave the streams, the discarded set, the limit values and used alone *)
Lemma Sim_same c c2 p : Sim c p ->
  c_streams c2 = c_streams c -> c_done c2 = c_done c ->
  l_value (c_data c) <= l_value (c_data c2) -> l_value (c_bidi c) <= l_value (c_bidi c2) -> l_value (c_uni c) <= l_value (c_uni c2) ->
  l_used (c_data c2) = l_used (c_data c) -> Sim c2 p.
Proof. intros S E1 E2 V1 V2 V3 U. destruct S. constructor; rewrite ?E1, ?E2, ?U; auto; lia. Qed.

Lemma sget_some_of_in k l : In k (map fst l) -> exists s, sget k l = Some s.
Proof.
  induction l as [|[k0 s0] t IH]; cbn; [tauto|]. intros [H|H].
  - subst. rewrite Z.eqb_refl. eexists; reflexivity.
  - destruct (k0 =? k); [eexists; reflexivity|apply IH, H].
Qed.

Lemma NoDup_snoc {A} (l : list A) a : NoDup l -> ~ In a l -> NoDup (l ++ [a]).
Proof.
  induction l as [|x t IH]; cbn; intros H N; [constructor; [tauto|constructor]|].
  inversion H; subst. constructor; [rewrite in_app_iff; cbn; intros [Hx|[Hx|[]]]; [tauto|subst; tauto]|apply IH; tauto].
Qed.

Lemma goc_shape c sid s c1 : get_or_create c sid = GStream s c1 ->
  existsb (Z.eqb sid) (c_done c) = false /\
  ((sget sid (c_streams c) = Some s /\ c1 = c) \/
   (sget sid (c_streams c) = None /\
    s = mkStrm (c_msd c) (c_msd c) (unidirectional sid) recv_init /\
    c_streams c1 = c_streams c ++ [(sid, s)] /\ c_done c1 = c_done c /\ c_data c1 = c_data c /\
    c_client c1 = c_client c /\ c_msd c1 = c_msd c /\
    l_value (c_bidi c1) = l_value (c_bidi c) /\ l_value (c_uni c1) = l_value (c_uni c))).
Proof.
  unfold get_or_create.
  destruct (existsb (Z.eqb sid) (c_done c)); [discriminate|]. intros G0. split; [reflexivity|]. revert G0.
  destruct (sget sid (c_streams c)) as [s0|]; [intros H; inversion H; subst; left; auto|].
  destruct (Bool.eqb (client_initiated sid) (c_client c)); [discriminate|].
  destruct (unidirectional sid); (destruct (_ >? _); [discriminate|]); intros H; inversion H; subst; right; cbn;
    match goal with |- context[if ?b then _ else _] => destruct b end; cbn; auto 12.
Qed.

Lemma goc_sim c p sid s c1 : Sim c p -> get_or_create c sid = GStream s c1 ->
  Sim c1 p /\ sget sid (c_streams c1) = Some s /\
  r_highest (sm_recv s) = p_hi p sid /\ r_final (sm_recv s) = p_final p sid /\
  sm_msd s = local_msd c sid /\ c_data c1 = c_data c /\ c_client c1 = c_client c.
Proof.
  intros S G. destruct (goc_shape _ _ _ _ G) as (D & [(G1 & E)|(G1 & Es & E1 & E2 & E3 & E4 & E5 & E6 & E7)]).
  - subst c1. destruct (s_live _ _ S _ _ G1 D) as (L1 & L2). unfold local_msd. rewrite G1. auto 10.
  - destruct (s_fresh _ _ S sid G1 D) as (F1 & F2).
    assert (Hs : r_highest (sm_recv s) = 0 /\ r_final (sm_recv s) = None) by (subst s; cbn; auto).
    destruct Hs as (Hs1 & Hs2).
    split; [|rewrite E1, sget_app1, G1, Z.eqb_refl; unfold local_msd; rewrite G1; subst s; cbn; rewrite ?F1, ?F2; auto 10].
    destruct S. constructor; rewrite ?E1, ?E2, ?E3, ?E6, ?E7; auto.
    + intros k s1. rewrite sget_app1. destruct (sget k (c_streams c)) as [x|] eqn:Gk.
      * intros H; inversion H; subst. apply s_live0, Gk.
      * destruct (sid =? k) eqn:E; [|discriminate]. intros H _; inversion H; subst. assert (k = sid) by lia. subst k.
        rewrite Hs1, Hs2, F1, F2. auto.
    + intros k. rewrite sget_app1. destruct (sget k (c_streams c)) eqn:Gk; [discriminate|].
      destruct (sid =? k); [discriminate|]. intros _. apply s_fresh0, Gk.
    + rewrite map_app. cbn. apply NoDup_snoc; [exact s_nodup0|]. intros Hin.
      destruct (sget_some_of_in _ _ Hin) as (x & Hx). congruence.
Qed.

Lemma sim_accept c1 p sid s r'' e (fin : bool) :
  Sim c1 p -> sget sid (c_streams c1) = Some s ->
  r_highest r'' = Z.max e (p_hi p sid) ->
  r_final r'' = (if fin then Some e else p_final p sid) ->
  Sim (add_used (set_streams c1 (sset sid (with_recv s r'') (c_streams c1))) (Z.max 0 (e - p_hi p sid))) (peer_upd p sid e fin).
Proof.
  intros S G Hh Hf. destruct S. constructor; cbn; auto; try lia.
  - intros k s1. rewrite (sget_sset _ _ _ _ _ G). unfold fupd. destruct (k =? sid) eqn:E.
    + intros H _; inversion H; subst. assert (k = sid) by lia. subst k. cbn [with_recv sm_recv]. rewrite Hh, Hf. destruct fin; unfold fupd; rewrite ?E; auto.
    + intros H Hd. destruct (s_live0 _ _ H Hd) as (L1 & L2). destruct fin; unfold fupd; rewrite ?E; auto.
  - intros k. rewrite (sget_sset _ _ _ _ _ G). unfold fupd. destruct (k =? sid) eqn:E; [discriminate|].
    intros H1 H2. destruct (s_fresh0 _ H1 H2). destruct fin; unfold fupd; rewrite ?E; auto.
  - rewrite (keys_sset _ _ _ _ G). exact s_nodup0.
Qed.

Lemma pull_data_final st : r_final (snd (pull_data st)) = r_final st.
Proof. unfold pull_data. destruct (r_ranges st) as [|[a b] t]; [reflexivity|]. destruct (a =? r_start st); reflexivity. Qed.

Lemma hf_final st off data fin :
  fst (handle_frame st off data fin) <> RFinalSizeError ->
  r_final (snd (handle_frame st off data fin)) = if fin then Some (off + Zlen data) else r_final st.
Proof.
  unfold handle_frame.
  match goal with |- context[if ?b then (RFinalSizeError, st) else _] => destruct b end; [cbn; intros H; exfalso; apply H; reflexivity|].
  intros _.
  match goal with |- context[if ?b then (RData data fin, _) else _] => destruct b end; [reflexivity|].
  destruct (off - r_start st <? 0);
    match goal with |- context[pull_data ?x] => pose proof (pull_data_final x) as PF; destruct (pull_data x) as [out st1] end;
    cbn [snd r_final] in PF; destruct out; destruct (opt_eqb (r_final st1) (r_start st1)); cbn [snd r_final]; exact PF.
Qed.

Lemma sim_ignored c p sid e fin : Sim c p -> existsb (Z.eqb sid) (c_done c) = true -> Sim c (peer_upd p sid e fin).
Proof.
  intros S D. destruct S. constructor; cbn; auto; try lia.
  - intros k s Hk Hd. assert (E : k =? sid = false) by (destruct (k =? sid) eqn:E; [assert (k = sid) by lia; congruence|reflexivity]).
    destruct (s_live0 _ _ Hk Hd). destruct fin; unfold fupd; rewrite ?E; auto.
  - intros k Hk Hd. assert (E : k =? sid = false) by (destruct (k =? sid) eqn:E; [assert (k = sid) by lia; congruence|reflexivity]).
    destruct (s_fresh0 _ Hk Hd). destruct fin; unfold fupd; rewrite ?E; auto.
Qed.

Lemma goc_err c sid code : get_or_create c sid = GErr code ->
  code = E_STREAM_STATE_ERROR \/
  (code = E_STREAM_LIMIT_ERROR /\ Bool.eqb (client_initiated sid) (c_client c) = false /\
   sid / 4 + 1 > l_value (if unidirectional sid then c_uni c else c_bidi c)).
Proof.
  unfold get_or_create. destruct (existsb (Z.eqb sid) (c_done c)); [discriminate|].
  destruct (sget sid (c_streams c)); [discriminate|].
  destruct (Bool.eqb (client_initiated sid) (c_client c)); [intros H; inversion H; auto|].
  destruct (unidirectional sid); (destruct (_ >? _) eqn:E; [|discriminate]); intros H; inversion H; right; repeat split; lia.
Qed.

Lemma acc_state : accusation E_STREAM_STATE_ERROR = false. Proof. reflexivity. Qed.
Lemma acc_enc : accusation E_FRAME_ENCODING_ERROR = false. Proof. reflexivity. Qed.

Definition good (r : outcome) (P : Prop) : Prop :=
  match r with OErr code _ => accusation code = false | OExn => True | _ => P end.

Lemma within_count c p lim sid e fin code : Sim c p ->
  peer_within (c_client c) p lim sid e fin = true -> get_or_create c sid = GErr code -> accusation code = false.
Proof.
  intros S W G. destruct (goc_err _ _ _ G) as [H|(H1 & H2 & H3)]; [subst; reflexivity|].
  exfalso. unfold peer_within in W. rewrite H2 in W. cbn [orb] in W.
  pose proof (s_bidi _ _ S). pose proof (s_uni _ _ S). destruct (unidirectional sid); lia.
Qed.

Lemma step_stream c p ft sid off data r c' :
  CInv c -> Sim c p -> handle_stream c ft sid off data = (r, c') ->
  peer_within (c_client c) p (local_msd c sid) sid (off + Zlen data) (Z.odd ft) = true ->
  good r (Sim c' (peer_upd p sid (off + Zlen data) (Z.odd ft))).
Proof.
  intros I S H W. unfold handle_stream in H. set (e := off + Zlen data) in *.
  destruct (e >? UINT_VAR_MAX); [inversion H; subst; exact acc_enc|].
  destruct (negb (can_receive c sid)); [inversion H; subst; exact acc_state|].
  destruct (get_or_create c sid) as [s c1| |code] eqn:G.
  - destruct (goc_sim _ _ _ _ _ S G) as (S1 & G1 & L1 & L2 & Lm & D & Cl).
    destruct (goc_inv _ _ _ _ I G) as (I1 & _ & (B & Hm) & _).
    assert (W' := W). unfold peer_within in W'. rewrite <- Lm in W'.
    apply andb_prop in W'. destruct W' as (W' & W4). apply andb_prop in W'. destruct W' as (W' & W3).
    apply andb_prop in W'. destruct W' as (W1 & W2).
    destruct (e >? sm_msd s) eqn:E1; [lia|].
    pose proof (s_data _ _ S1). pose proof (s_used _ _ S1).
    destruct (l_used (c_data c1) + Z.max 0 (e - r_highest (sm_recv s)) >? l_value (c_data c1)) eqn:E2; [rewrite L1 in E2; lia|].
    pose proof (hf_conflict (sm_recv s) off data (Z.odd ft)) as (_ & C2).
    pose proof (hf_bounds (sm_recv s) off data (Z.odd ft) B) as HB.
    pose proof (hf_final (sm_recv s) off data (Z.odd ft)) as HF.
    assert (NC : ~ fs_conflict (sm_recv s) (off + Zlen data) (Z.odd ft)).
    { unfold fs_conflict. rewrite L2. fold e. destruct (p_final p sid) as [f|]; [|tauto]. destruct (Z.odd ft); cbn in W4; lia. }
    specialize (C2 NC). specialize (HF C2).
    destruct (handle_frame (sm_recv s) off data (Z.odd ft)) as [o r']. cbn [fst snd] in *.
    destruct HB as (_ & _ & _ & _ & Hh). specialize (Hh C2).
    assert (A : Sim (add_used (set_streams c1 (sset sid (with_recv s r') (c_streams c1))) (Z.max 0 (e - r_highest (sm_recv s))))
                    (peer_upd p sid e (Z.odd ft))).
    { rewrite L1. apply sim_accept; [exact S1|exact G1|fold e in Hh; rewrite Hh, L1; lia|rewrite HF, L2; reflexivity]. }
    destruct o; inversion H; subst; try exact A. exfalso; apply C2; reflexivity.
  - assert (Dn : existsb (Z.eqb sid) (c_done c) = true).
    { unfold get_or_create in G. destruct (existsb (Z.eqb sid) (c_done c)); [reflexivity|].
      destruct (sget sid (c_streams c)); [discriminate|]. destruct (Bool.eqb _ _); [discriminate|].
      destruct (unidirectional sid); destruct (_ >? _); discriminate. }
    inversion H; subst. cbn. apply sim_ignored; assumption.
  - inversion H; subst. cbn. eapply within_count; eassumption.
Qed.

Lemma step_reset c p sid fs r c' :
  RESET_ADVANCES_HIGHEST = true ->
  CInv c -> Sim c p -> handle_reset_stream c sid fs = (r, c') ->
  peer_within (c_client c) p (local_msd c sid) sid fs true = true ->
  good r (Sim c' (peer_upd p sid fs true)).
Proof.
  intros Flag I S H W. unfold handle_reset_stream in H.
  destruct (negb (can_receive c sid)); [inversion H; subst; exact acc_state|].
  destruct (get_or_create c sid) as [s c1| |code] eqn:G.
  - destruct (goc_sim _ _ _ _ _ S G) as (S1 & G1 & L1 & L2 & Lm & D & Cl).
    destruct (goc_inv _ _ _ _ I G) as (I1 & _ & (B & Hm) & _).
    assert (W' := W). unfold peer_within in W'. rewrite <- Lm in W'.
    apply andb_prop in W'. destruct W' as (W' & W4). apply andb_prop in W'. destruct W' as (W' & W3).
    apply andb_prop in W'. destruct W' as (W1 & W2).
    destruct (fs >? sm_msd s) eqn:E1; [lia|].
    pose proof (s_data _ _ S1). pose proof (s_used _ _ S1).
    destruct (l_used (c_data c1) + Z.max 0 (fs - r_highest (sm_recv s)) >? l_value (c_data c1)) eqn:E2; [rewrite L1 in E2; lia|].
    pose proof (hr_bounds (sm_recv s) fs B) as HB.
    assert (HR : handle_reset (sm_recv s) fs =
                 (RReset, mkRecv (r_highest (sm_recv s)) true (r_buf (sm_recv s)) (r_start (sm_recv s)) (Some fs) (r_ranges (sm_recv s)))).
    { unfold handle_reset. rewrite L2. destruct (p_final p sid) as [f|]; [|reflexivity].
      cbn in W4. assert (f =? fs = true) by lia. rewrite H2. reflexivity. }
    rewrite HR in H, HB. destruct HB as (B' & _).
    destruct (bump_bounds _ fs B') as (_ & _ & _ & _ & Hx). specialize (Hx Flag).
    inversion H; subst. cbn [good]. rewrite L1. apply sim_accept; [exact S1|exact G1| |].
    + rewrite L1 in Hx. rewrite Hx. cbn. lia.
    + unfold bump_highest. match goal with |- context[if ?b then _ else _] => destruct b end; reflexivity.
  - assert (Dn : existsb (Z.eqb sid) (c_done c) = true).
    { unfold get_or_create in G. destruct (existsb (Z.eqb sid) (c_done c)); [reflexivity|].
      destruct (sget sid (c_streams c)); [discriminate|]. destruct (Bool.eqb _ _); [discriminate|].
      destruct (unidirectional sid); destruct (_ >? _); discriminate. }
    inversion H; subst. cbn. apply sim_ignored; assumption.
  - inversion H; subst. cbn. eapply within_count; eassumption.
Qed.

Lemma raise_limit_w ft l : Forall (fun x => x = W ft 0 (l_value (fst (raise_limit ft l)))) (snd (raise_limit ft l)).
Proof.
  unfold raise_limit. match goal with |- context[if negb (?a =? ?b) then _ else _] => destruct (negb (a =? b)) end; cbn; repeat constructor.
Qed.

Lemma write_sim c p w c' : CInv c -> Sim c p -> write c = (OWrote w, c') -> Sim c' (peer_see p w).
Proof.
  intros I S. unfold write.
  assert (Hu : 0 <= l_used (c_data c)).
  { pose proof (sum_hi_nonneg _ (ci_streams _ I)). pose proof (ci_sum _ I). pose proof (ci_gone _ I). lia. }
  pose proof (raise_limit_props FT_MAX_DATA (c_data c) ltac:(pose proof (ci_used _ I); lia)) as PD.
  pose proof (raise_limit_props FT_MAX_STREAMS_BIDI (c_bidi c) (ci_bidi _ I)) as PB.
  pose proof (raise_limit_props FT_MAX_STREAMS_UNI (c_uni c) (ci_uni _ I)) as PU.
  pose proof (raise_limit_w FT_MAX_DATA (c_data c)) as WD.
  pose proof (raise_limit_w FT_MAX_STREAMS_BIDI (c_bidi c)) as WB.
  pose proof (raise_limit_w FT_MAX_STREAMS_UNI (c_uni c)) as WU.
  pose proof (raise_streams_ft (c_streams c)) as WS.
  pose proof (keys_raise (c_streams c)) as KR.
  pose proof (sget_raise) as SR. specialize (fun k => SR k (c_streams c)).
  destruct (raise_limit FT_MAX_DATA (c_data c)) as [d wd].
  destruct (raise_limit FT_MAX_STREAMS_BIDI (c_bidi c)) as [b wb].
  destruct (raise_limit FT_MAX_STREAMS_UNI (c_uni c)) as [u wu].
  destruct (raise_streams (c_streams c)) as [ss ws]. cbv zeta in PD, PB, PU. cbn [fst snd] in *.
  destruct PD as (PD1 & PD2 & PD3). destruct PB as (PB1 & PB2 & PB3). destruct PU as (PU1 & PU2 & PU3).
  intros H; inversion H; subst; clear H.
  assert (WOK : Forall (wok (l_value d) (l_value b) (l_value u))
                  (map (fun d0 => W FT_PATH_RESPONSE 0 d0) (c_chal c) ++ map (fun q => W FT_RETIRE_CONNECTION_ID 0 q) (c_retire c) ++ wd ++ wb ++ wu ++ ws)).
  { repeat (apply Forall_app; split).
    - apply Forall_forall. intros x Hx. apply in_map_iff in Hx. destruct Hx as (y & Hy & _). subst x. cbn.
      repeat split; intros E; vm_compute in E; discriminate.
    - apply Forall_forall. intros x Hx. apply in_map_iff in Hx. destruct Hx as (y & Hy & _). subst x. cbn.
      repeat split; intros E; vm_compute in E; discriminate.
    - eapply Forall_impl; [|exact WD]. intros x Hx. cbv beta in Hx. subst x. cbn. repeat split; intros E; try lia; vm_compute in E; discriminate.
    - eapply Forall_impl; [|exact WB]. intros x Hx. cbv beta in Hx. subst x. cbn. repeat split; intros E; try lia; vm_compute in E; discriminate.
    - eapply Forall_impl; [|exact WU]. intros x Hx. cbv beta in Hx. subst x. cbn. repeat split; intros E; try lia; vm_compute in E; discriminate.
    - eapply Forall_impl; [|exact WS]. intros [ft a v] Hx. cbn in *. subst ft. repeat split; intros E; vm_compute in E; discriminate. }
  pose proof (s_data _ _ S). pose proof (s_bidi _ _ S). pose proof (s_uni _ _ S).
  destruct (peer_see_props _ _ _ _ WOK p ltac:(lia) ltac:(lia) ltac:(lia)) as (A1 & A2 & A3 & A4 & A5 & A6).
  pose proof (s_nodup _ _ S) as ND. assert (NDs : NoDup (map fst ss)) by (rewrite KR; exact ND).
  constructor; cbn [c_data c_bidi c_uni c_streams c_done]; rewrite ?A4, ?A5, ?A6; auto.
  - rewrite PD1. apply (s_used _ _ S).
  - intros k s'. rewrite (sget_filter _ _ _ NDs), SR. rewrite existsb_eqb_app.
    destruct (sget k (c_streams c)) as [s0|] eqn:G; cbn [option_map]; [|discriminate].
    destruct (negb (stream_finished (snd (k, fst (raise_stream k s0))))); [|discriminate].
    intros Hs Hd. inversion Hs; subst. rewrite raise_stream_recv. apply orb_false_elim in Hd. apply (s_live _ _ S _ _ G), Hd.
  - intros k. rewrite (sget_filter _ _ _ NDs), SR. rewrite existsb_eqb_app. intros Hn Hd. apply orb_false_elim in Hd. destruct Hd as (Hd1 & Hd2).
    destruct (sget k (c_streams c)) as [s0|] eqn:G; cbn [option_map] in Hn; [|apply (s_fresh _ _ S _ G Hd1)].
    exfalso. rewrite (existsb_keys_filter _ _ _ NDs), SR, G in Hd2. cbn [option_map] in Hd2. cbn [snd] in *.
    destruct (stream_finished (fst (raise_stream k s0))); cbn in *; discriminate.
  - apply NoDup_filter_keys, NDs.
Qed.

Lemma step_other c p o r c' :
  CInv c -> Sim c p -> frame_end o = None -> step c o = (r, c') ->
  match r with OWrote w => Sim c' (peer_see p w) | OErr _ _ | OExn => True | _ => Sim c' p end.
Proof.
  intros I S FE. destruct o; cbn in FE; try discriminate; cbn [step].
  - unfold handle_touch. destruct (negb _); [intros H; inversion H; subst; exact Logic.I|].
    destruct (get_or_create c sid) as [s c1| |code] eqn:G; intros H; inversion H; subst; try exact S; try exact Logic.I.
    apply (goc_sim _ _ _ _ _ S G).
  - intros H; inversion H; subst. unfold local_open. destruct (negb (can_send c sid)); [exact S|]. destruct (sget sid (c_streams c)) eqn:G; [exact S|].
    destruct (negb (Bool.eqb (client_initiated sid) (c_client c))); [exact S|].
    destruct S. constructor; cbn; auto.
    + intros k s1. rewrite sget_app1. destruct (sget k (c_streams c)) eqn:Gk; [intros H1; inversion H1; subst; apply s_live0, Gk|].
      destruct (sid =? k) eqn:E; [|discriminate]. intros H1 Hd; inversion H1; subst. assert (k = sid) by lia. subst k. cbn.
      destruct (s_fresh0 _ G Hd) as (F1 & F2). rewrite F1, F2. auto.
    + intros k. rewrite sget_app1. destruct (sget k (c_streams c)) eqn:Gk; [discriminate|]. destruct (sid =? k); [discriminate|].
      intros _. apply s_fresh0, Gk.
    + rewrite map_app. cbn. apply NoDup_snoc; [exact s_nodup0|]. intros Hin. destruct (sget_some_of_in _ _ Hin) as (x & Hx). congruence.
  - intros H. pose proof H as H'. unfold write in H'.
    repeat match type of H' with (let '(_, _) := ?x in _) = _ => destruct x end. inversion H'; subst. clear H'.
    eapply write_sim; eassumption.
  - intros H; inversion H; subst. unfold limit_lost. destruct (which =? 0); [|destruct (which =? 1)]; apply (Sim_same c _ p S); cbn; auto; lia.
  - intros H; inversion H; subst. unfold stream_limit_lost. destruct (sget sid (c_streams c)) as [s|] eqn:G; [|exact S].
    destruct S. constructor; cbn; auto.
    + intros k s1. rewrite (sget_sset _ _ _ _ _ G). destruct (k =? sid) eqn:E; [|apply s_live0].
      intros H1 Hd; inversion H1; subst. assert (k = sid) by lia. subst k. cbn. apply (s_live0 _ _ G Hd).
    + intros k. rewrite (sget_sset _ _ _ _ _ G). destruct (k =? sid); [discriminate|]. apply s_fresh0.
    + rewrite (keys_sset _ _ _ _ G). exact s_nodup0.
  - unfold handle_crypto.
    destruct (_ >? UINT_VAR_MAX); [intros H; inversion H; subst; exact Logic.I|].
    destruct (_ >? MAX_PENDING_CRYPTO); [intros H; inversion H; subst; exact Logic.I|].
    destruct (handle_frame (c_crypto c) off data false) as [o r'].
    destruct o as [|d0 f0| |]; try (intros H; inversion H; subst; try exact Logic.I; apply (Sim_same c _ p S); cbn; auto; lia).
    destruct (tls_parse _ _); intros H; inversion H; subst; try exact Logic.I; apply (Sim_same c _ p S); cbn; auto; lia.
  - unfold handle_path_challenge. intros H; inversion H; subst. destruct (Zlen (c_chal c) <? MAX_REMOTE_CHALLENGES); [|exact S].
    apply (Sim_same c _ p S); cbn; auto; lia.
  - intros H; inversion H; subst. apply (Sim_same c _ p S); cbn; auto; lia.
  - unfold handle_new_cid.
    destruct (rpt >? seq); [intros H; inversion H; subst; exact Logic.I|].
    match goal with |- context[match ?x with Some _ => _ | None => _ end] => destruct x as [[active' avail3]|] end;
      [|destruct NCID_EMPTY_CLOSES; intros H; inversion H; subst; exact Logic.I].
    destruct (1 + Zlen avail3 >? LOCAL_ACTIVE_CID_LIMIT); [intros H; inversion H; subst; exact Logic.I|].
    match goal with |- context[if over_retire_cap ?q ?q2 then _ else _] => destruct (over_retire_cap q q2) end; [intros H; inversion H; subst; exact Logic.I|].
    intros H; inversion H; subst. apply (Sim_same c _ p S); cbn; auto; lia.
  - unfold handle_path_packet. destruct (pfind addr (c_paths c)); intros H; inversion H; subst; apply (Sim_same c _ p S); cbn; auto; lia.
Qed.

(* within_limit_never_accused (partial: the per-stream data limit is the endpoint's current one, see docs/C07.md) *)
Lemma never_accused_from : RESET_ADVANCES_HIGHEST = true ->
  forall ops c p, CInv c -> Sim c p -> accused false c p ops = false.
Proof.
  intros Flag. induction ops as [|o t IH]; intros c p I S; cbn [accused]; [reflexivity|].
  destruct (step c o) as [r c'] eqn:St. pose proof (step_inv _ _ _ _ I St) as I'.
  destruct (frame_end o) as [[[sid e] fin]|] eqn:FE.
  - destruct (peer_within (c_client c) p (local_msd c sid) sid e fin) eqn:W; [|reflexivity].
    destruct o; cbn in FE; try discriminate; inversion FE; subst; cbn [step] in St.
    + pose proof (step_stream _ _ _ _ _ _ _ _ I S St W) as G. destruct r; cbn [good] in G; auto.
    + pose proof (step_reset _ _ _ _ _ _ Flag I S St W) as G. destruct r; cbn [good] in G; auto.
  - pose proof (step_other _ _ _ _ _ I S FE St) as G. destruct r; auto.
Qed.

Lemma never_accused_partial : forall cl msd md cb ops,
  0 <= msd -> 0 <= md -> 0 <= cb ->
  accused false (conn_init cl msd md cb) (peer_init msd md) ops = false.
Proof.
  intros. apply (never_accused_from eq_refl); [apply CInv_init; assumption|apply Sim_init].
Qed.
