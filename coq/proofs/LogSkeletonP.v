(* C20  The skeleton generated from the current source satisfies the side conditions of
   erasure non-interference (finite check, by computation), and the combination of both. *)
From Coq Require Import String.
From AQ Require Import lib.Base model.LogErase gen.LogSkeleton proofs.LogEraseP.
Open Scope string_scope.
Open Scope Z_scope.

Definition checked_methods : list string := map fst logger_methods.

(* every QuicLoggerTrace method, every logger-guarded block and every other mention of a logger-owned
   name found in the current source is acceptable *)
Lemma skeleton_ok_now : skeleton_ok logger_methods guarded_blocks unguarded_uses = true.
Proof. vm_compute. reflexivity. Qed.

Lemma guarded_block_ok : forall b, In b guarded_blocks -> log_stmt_ok checked_methods (snd b) = true.
Proof.
  intros b Hb. pose proof skeleton_ok_now as H. unfold skeleton_ok in H.
  apply andb_prop in H. destruct H as [H _]. apply andb_prop in H. destruct H as [_ H].
  rewrite forallb_forall in H. exact (H b Hb).
Qed.

Lemma logger_method_ok : forall b, In b logger_methods -> log_stmt_ok checked_methods (snd b) = true.
Proof.
  intros b Hb. pose proof skeleton_ok_now as H. unfold skeleton_ok in H.
  apply andb_prop in H. destruct H as [H _]. apply andb_prop in H. destruct H as [H _].
  rewrite forallb_forall in H. exact (H b Hb).
Qed.

Lemma unguarded_use_ok : forall u, In u unguarded_uses -> use_ok (snd u) = true.
Proof.
  intros u Hu. pose proof skeleton_ok_now as H. unfold skeleton_ok in H.
  apply andb_prop in H. destruct H as [_ H]. rewrite forallb_forall in H. exact (H u Hu).
Qed.

(* a program is assembled from arbitrary Core code and Log blocks taken from the generated skeleton *)
Definition built_from_skeleton (p : stmt) : Prop :=
  forall a, In a (log_blocks p) -> exists b, In b guarded_blocks /\ snd b = SLog a.

Lemma built_prog_ok : forall p, core_ok p = true -> built_from_skeleton p -> prog_ok checked_methods p = true.
Proof.
  intros p Hc Hb. unfold prog_ok. rewrite Hc. simpl. apply forallb_forall. intros a Ha.
  destruct (Hb a Ha) as [b [Hin Heq]]. pose proof (guarded_block_ok b Hin) as H. rewrite Heq in H. exact H.
Qed.

(* skeleton-level transparency: for every program made of Core code that never looks at logger-owned
   locations and of the Log blocks extracted from the CURRENT source, under the two callee premises,
   erasing the Log blocks changes neither the core part of the final store nor the control outcome *)
Lemma transparent_skeleton : forall (fenv : fn -> fsem),
  (forall f args s, fn_log_ok checked_methods f = true ->
     snd (fenv f args s) = false /\ (forall l, log_owned l = false -> fst (fst (fenv f args s)) l = s l)) ->
  (forall f args s1 s2, fn_reads_log f = false -> core_eq s1 s2 ->
     core_eq (fst (fst (fenv f args s1))) (fst (fst (fenv f args s2))) /\
     snd (fst (fenv f args s1)) = snd (fst (fenv f args s2)) /\
     snd (fenv f args s1) = snd (fenv f args s2)) ->
  forall p s, core_ok p = true -> built_from_skeleton p ->
    (forall l, proj_core (fst (run fenv p s)) l = proj_core (fst (run fenv (erase p) (proj_core s))) l) /\
    snd (run fenv p s) = snd (run fenv (erase p) (proj_core s)).
Proof.
  intros fenv H1 H2 p s Hc Hb.
  apply (erasure_ni_proj fenv checked_methods H1 H2 p s). apply built_prog_ok; assumption.
Qed.

(* non-vacuity: the skeleton is not empty and a program built from its first block qualifies *)
Example skeleton_nonempty : (length guarded_blocks >= 40)%nat /\ (length logger_methods >= 25)%nat.
Proof. vm_compute. split; repeat constructor. Qed.
