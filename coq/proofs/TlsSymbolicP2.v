(* C03, theorems transcript_agreement, tamper_detected, no_common_option and the QUIC version lemmas.
   Cryptography is idealised by explicit Section hypotheses on the oracle record:
     H-HASH  o_hash injective (per algorithm),
     H-MAC   o_hmac injective in algorithm, key and message,
     H-KDF   o_expand (HKDF-Expand-Label) injective in algorithm, secret, label and context,
     H-CODEC parse_fin (build_fin v) = v.
   "Finished provenance" (the Finished an endpoint accepts was computed by the honest peer - what MAC
   unforgeability under a key the adversary does not hold gives) is a premise of the statements: the accepted
   message is [o_build_fin O (ks_finished O kS eS)] for the peer's schedule kS and key eS. *)
From AQ Require Import lib.Base gen.TlsDispatch model.TlsSymbolic proofs.TlsDispatchLegal proofs.TlsSymbolicP1.

Lemma beqb_eq : forall a b, beqb a b = true -> a = b.
Proof.
  induction a as [| x a IH]; destruct b as [| y b]; simpl; intro H; try discriminate; [reflexivity |].
  apply andb_true_iff in H. destruct H as [H1 H2]. apply Z.eqb_eq in H1. subst. f_equal. auto.
Qed.
Lemma beqb_refl : forall a, beqb a a = true.
Proof. induction a; simpl; [reflexivity |]. rewrite Z.eqb_refl, IHa. reflexivity. Qed.

(* ---------- framing: handshake messages are self-delimiting ------------------------------------------------ *)
Definition framed (m : bytes) : Prop := framedb m = true.

Lemma framed_len : forall m, framed m -> Zlen m = 4 + be24 m.
Proof. intros m H. unfold framed, framedb in H. apply Z.eqb_eq in H. exact H. Qed.

Lemma be24_app : forall m r, (4 <= length m)%nat -> be24 (m ++ r) = be24 m.
Proof.
  intros m r H. destruct m as [| a [| b [| c [| d m]]]]; simpl in H; try lia. reflexivity.
Qed.

Lemma framed_ge4 : forall m, framed m -> (4 <= length m)%nat.
Proof.
  intros m H. pose proof (framed_len m H) as L. unfold Zlen in L.
  destruct m as [| a [| b [| c [| d m]]]]; simpl in *; lia.
Qed.

Lemma framed_prefix_eq : forall m m' r r', framed m -> framed m' -> m ++ r = m' ++ r' -> m = m' /\ r = r'.
Proof.
  intros m m' r r' F F' E.
  assert (L : length m = length m').
  { pose proof (framed_len m F) as A. pose proof (framed_len m' F') as B.
    pose proof (framed_ge4 m F) as G. pose proof (framed_ge4 m' F') as G'.
    assert (X : be24 m = be24 m') by (rewrite <- (be24_app m r G), <- (be24_app m' r' G'), E; reflexivity).
    unfold Zlen in *. lia. }
  assert (M : m = m').
  { apply (f_equal (firstn (length m))) in E. rewrite firstn_app, Nat.sub_diag, firstn_all in E. simpl in E.
    rewrite app_nil_r in E. rewrite L in E. rewrite firstn_app, Nat.sub_diag, firstn_all in E. simpl in E.
    rewrite app_nil_r in E. exact E. }
  split; [exact M |]. subst m'. apply app_inv_head in E. exact E.
Qed.

(* a message altered in place changes the transcript *)
Lemma altered_message_changes_transcript : forall pre m m' post post',
  framed m -> framed m' -> m <> m' -> pre ++ m ++ post <> pre ++ m' ++ post'.
Proof.
  intros pre m m' post post' F F' N E. apply app_inv_head in E.
  apply framed_prefix_eq in E; auto. destruct E; contradiction.
Qed.

Section P2.
Variable O : oracles.
Hypothesis Hhash : forall a x y, o_hash O a x = o_hash O a y -> x = y.
Hypothesis Hmac : forall a k m a' k' m', o_hmac O a k m = o_hmac O a' k' m' -> a = a' /\ k = k' /\ m = m'.
Hypothesis Hkdf : forall a s l h a' s' l' h',
  o_expand O a s l h = o_expand O a' s' l' h' -> a = a' /\ s = s' /\ l = l' /\ h = h'.
Hypothesis Hfin : forall vd, o_parse_fin O (o_build_fin O vd) = POk vd.

(* ---------- the Finished MAC binds algorithm, key and the whole transcript --------------------------------- *)
Lemma finished_binds_transcript_lemma : forall k e k' e',
  ks_finished O k e = ks_finished O k' e' -> k_alg k = k_alg k' /\ e = e' /\ k_tr k = k_tr k'.
Proof.
  intros k e k' e' H. unfold ks_finished, ks_hashval in H.
  apply Hmac in H. destruct H as (A & K & M).
  apply Hkdf in K. destruct K as (_ & S & _ & _).
  split; [exact A |]. split; [exact S |]. rewrite A in M. apply Hhash in M. exact M.
Qed.

(* two schedules that agree on hash algorithm, generation, transcript and secret derive the same values *)
Definition ks_eqv (k k' : ksched) : Prop :=
  k_alg k = k_alg k' /\ k_gen k = k_gen k' /\ k_tr k = k_tr k' /\ k_secret k = k_secret k'.

Lemma eqv_update : forall k k' d, ks_eqv k k' -> ks_eqv (ks_update k d) (ks_update k' d).
Proof. intros k k' d (A & G & T & S). unfold ks_eqv, k_alg in *. simpl. rewrite T. auto. Qed.
Lemma eqv_extract : forall k k' km, ks_eqv k k' -> ks_eqv (ks_extract O k km) (ks_extract O k' km).
Proof.
  intros k k' km (A & G & T & S). unfold ks_eqv, ks_extract, k_alg in *. simpl.
  fold (k_alg k) (k_alg k'). unfold k_alg. rewrite A, G, T, S. auto.
Qed.
Lemma eqv_derive : forall k k' l, ks_eqv k k' -> ks_derive O k l = ks_derive O k' l.
Proof. intros k k' l (A & G & T & S). unfold ks_derive, ks_hashval. rewrite A, T, S. reflexivity. Qed.
Lemma eqv_finished : forall k k' e, ks_eqv k k' -> ks_finished O k e = ks_finished O k' e.
Proof. intros k k' e (A & G & T & S). unfold ks_finished, ks_hashval. rewrite A, T. reflexivity. Qed.

(* ---------- client: accepting the server's Finished ----------------------------------------------------------- *)
(* shape of the handshake traffic secret: HKDF-Expand-Label(handshake secret, "s hs traffic", some transcript hash) *)
Definition hs_key_of (k : ksched) (e : bytes) : Prop :=
  exists h, e = o_expand O (k_alg k) (k_secret k) L_s_hs_traffic h.

Lemma client_accepts_finished : forall c s m o s' out,
  client_handle_finished O c s m = (o, s', out) -> o = OOk ->
  exists vd, o_parse_fin O m = POk vd /\ vd = ks_finished O (the_ks s) (t_dec s) /\ k_gen (the_ks s) = 2.
Proof.
  intros c s m o s' out H Ho. subst o. unfold client_handle_finished in H.
  destruct (o_parse_fin O m) as [vd | d | e] eqn:P; cbn [with_parse] in H; try discriminate. cbv zeta in H.
  destruct (beqb vd (ks_finished O (the_ks s) (t_dec s))) eqn:B; cbn [negb] in H; [| discriminate].
  destruct (k_gen (ks_update (the_ks s) m) =? 2) eqn:G; cbn [negb] in H; [| discriminate].
  exists vd. split; [reflexivity |]. split; [apply beqb_eq; exact B |].
  apply Z.eqb_eq in G. exact G.
Qed.

(* what a client that accepted a Finished releases: both application traffic secrets, derived from its schedule
   after the Finished *)
Lemma client_finished_keys : forall c s m s' out,
  client_handle_finished O c s m = (OOk, s', out) ->
  let k2 := ks_extract O (ks_update (the_ks s) m) None in
  exists suite suite', t_keys s' = t_keys s ++ [(DIR_DECRYPT, EP_ONE_RTT, suite, ks_derive O k2 L_s_ap_traffic);
                                                 (DIR_ENCRYPT, EP_ONE_RTT, suite', ks_derive O k2 L_c_ap_traffic)].
Proof.
  intros c s m s' out H k2. unfold client_handle_finished in H.
  destruct (o_parse_fin O m) as [vd | d | e] eqn:P; cbn [with_parse] in H; try discriminate. cbv zeta in H.
  destruct (negb (beqb vd (ks_finished O (the_ks s) (t_dec s)))); [discriminate |].
  destruct (negb (k_gen (ks_update (the_ks s) m) =? 2)); [discriminate |].
  match type of H with (let '(k3, msgs) := ?X in _) = _ => destruct X as [k3 msgs] end.
  inversion H; subst s' out; clear H.
  eexists; eexists. cbn [t_keys set_state set_ks add_key]. rewrite <- app_assoc. reflexivity.
Qed.

Lemma transcript_agreement_client_lemma : forall c s m s' out kS eS,
  client_handle_finished O c s m = (OOk, s', out) ->
  m = o_build_fin O (ks_finished O kS eS) ->                          (* provenance: the honest server's Finished *)
  (* the server computed it over kS with its "s hs traffic" secret eS *)
  k_tr (the_ks s) = k_tr kS /\ k_alg (the_ks s) = k_alg kS /\ t_dec s = eS /\
  (* and if both hold the handshake traffic secret in the key-schedule form, the schedules coincide, hence every
     later secret: the application traffic secrets the client releases are those the server derives *)
  (hs_key_of (the_ks s) (t_dec s) -> hs_key_of kS eS -> k_gen kS = 2 ->
   ks_eqv (the_ks s) kS /\
   forall l, ks_derive O (ks_extract O (ks_update (the_ks s) m) None) l = ks_derive O (ks_extract O (ks_update kS m) None) l).
Proof.
  intros c s m s' out kS eS H Hm.
  destruct (client_accepts_finished c s m OOk s' out H eq_refl) as (vd & P & V & G).
  subst m. rewrite Hfin in P. injection P as E0. rewrite V in E0. symmetry in E0.
  apply finished_binds_transcript_lemma in E0. destruct E0 as (A & E & T).
  split; [exact T |]. split; [exact A |]. split; [exact E |].
  intros [h Hc] [h' Hs] Gs.
  assert (Q : ks_eqv (the_ks s) kS).
  { unfold ks_eqv. split; [exact A |]. split; [lia |]. split; [exact T |].
    rewrite Hc, Hs in E. apply Hkdf in E. tauto. }
  split; [exact Q |]. intro l. apply eqv_derive. apply eqv_extract. apply eqv_update. exact Q.
Qed.

(* ---------- server: accepting the client's Finished ------------------------------------------------------------ *)
Lemma server_accepts_finished : forall c s m s' out,
  server_handle_finished O c s m = (OOk, s', out) ->
  exists vd, o_parse_fin O m = POk vd /\ vd = t_expected s /\
             t_keys s' = t_keys s ++ [(DIR_DECRYPT, EP_ONE_RTT, k_suite (the_ks s), t_next_dec s)].
Proof.
  intros c s m s' out H. unfold server_handle_finished in H.
  destruct (o_parse_fin O m) as [vd | d | e] eqn:P; simpl in H; try discriminate.
  destruct (beqb vd (t_expected s)) eqn:B; simpl in H; [| discriminate].
  inversion H; subst. exists vd. split; [reflexivity |]. split; [apply beqb_eq; exact B | reflexivity].
Qed.

(* _server_expect_finished: the value the server will compare with, and the transcript it assumes *)
Lemma server_expect_finished_spec : forall s,
  let s' := server_expect_finished O s in
  t_state s' = SERVER_EXPECT_FINISHED /\
  t_expected s' = ks_finished O (the_ks s) (t_dec s) /\
  the_ks s' = ks_update (the_ks s) (o_build_fin O (t_expected s')) /\
  t_dec s' = t_dec s /\ t_next_dec s' = t_next_dec s /\ t_keys s' = t_keys s.
Proof. intro s. unfold server_expect_finished. cbn. repeat split; reflexivity. Qed.

Lemma transcript_agreement_server_lemma : forall c s0 m s' out kC eC,
  server_handle_finished O c (server_expect_finished O s0) m = (OOk, s', out) ->
  m = o_build_fin O (ks_finished O kC eC) ->                          (* provenance: the honest client's Finished *)
  k_tr (the_ks s0) = k_tr kC /\ k_alg (the_ks s0) = k_alg kC /\ t_dec s0 = eC.
Proof.
  intros c s0 m s' out kC eC H Hm.
  destruct (server_accepts_finished c _ m s' out H) as (vd & P & V & _).
  subst m. rewrite Hfin in P. injection P as E0. rewrite V in E0.
  destruct (server_expect_finished_spec s0) as (_ & X & _). rewrite X in E0.
  symmetry in E0. apply finished_binds_transcript_lemma in E0. destruct E0 as (A & E & T). auto.
Qed.

(* ---------- tamper_detected -------------------------------------------------------------------------------------- *)
(* the receiver's transcript differs from the sender's in one message: the sender's Finished is refused *)
Lemma client_finished_state : forall c s m o s' out,
  client_handle_finished O c s m = (o, s', out) -> o = OOk \/ t_state s' = t_state s.
Proof.
  intros c s m o s' out H. unfold client_handle_finished in H.
  apply with_parse_inv in H. destruct H as [(vd & _ & H) | [-> _]]; [| right; reflexivity]. cbv zeta in H.
  destruct (negb (beqb vd (ks_finished O (the_ks s) (t_dec s)))); [inversion H; right; reflexivity |].
  destruct (negb (k_gen (ks_update (the_ks s) m) =? 2)); [inversion H; subst; right; reflexivity |].
  match type of H with (let '(k3, msgs) := ?X in _) = _ => destruct X as [k3 msgs] end.
  inversion H. left; reflexivity.
Qed.

Lemma tamper_detected_client_lemma : forall c s kS eS pre m m' post post',
  k_tr kS = pre ++ m ++ post ->                      (* what the honest server sent and hashed *)
  k_tr (the_ks s) = pre ++ m' ++ post' ->            (* what the client received and hashed *)
  framed m -> framed m' -> m <> m' ->
  forall o s' out, client_handle_finished O c s (o_build_fin O (ks_finished O kS eS)) = (o, s', out) ->
  o <> OOk /\ t_state s' = t_state s.
Proof.
  intros c s kS eS pre m m' post post' TS TC F F' N o s' out H.
  assert (No : o <> OOk).
  { intro Eo. subst o.
    destruct (transcript_agreement_client_lemma c s _ s' out kS eS H eq_refl) as (T & _).
    rewrite TS, TC in T. symmetry in T. revert T. apply altered_message_changes_transcript; assumption. }
  split; [exact No |]. destruct (client_finished_state c s _ o s' out H) as [E | E]; [contradiction | exact E].
Qed.

Lemma tamper_detected_server_lemma : forall c s0 kC eC pre m m' post post',
  k_tr kC = pre ++ m ++ post ->                      (* what the honest client sent / received and hashed *)
  k_tr (the_ks s0) = pre ++ m' ++ post' ->           (* the server's view *)
  framed m -> framed m' -> m <> m' ->
  forall o s' out,
    server_handle_finished O c (server_expect_finished O s0) (o_build_fin O (ks_finished O kC eC)) = (o, s', out) ->
    o = OAlert AD_decrypt_error /\ s' = server_expect_finished O s0.
Proof.
  intros c s0 kC eC pre m m' post post' TC TS F F' N o s' out H.
  unfold server_handle_finished in H. rewrite Hfin in H. cbn [with_parse] in H.
  destruct (beqb (ks_finished O kC eC) (t_expected (server_expect_finished O s0))) eqn:B; cbn [negb] in H.
  - exfalso. apply beqb_eq in B. destruct (server_expect_finished_spec s0) as (_ & X & _). rewrite X in B.
    apply finished_binds_transcript_lemma in B. destruct B as (_ & _ & T).
    rewrite TS, TC in T. revert T. apply altered_message_changes_transcript; assumption.
  - inversion H; subst. split; reflexivity.
Qed.

End P2.

(* ---------- no_common_option (no cryptographic premise) --------------------------------------------------------- *)
Lemma negotiate_none : forall A (mem : A -> list A -> bool) sup off,
  negotiate mem sup off = None <-> (forall x, In x sup -> mem x off = false).
Proof.
  intros A mem sup off. induction sup as [| c r IH]; simpl.
  - split; [intros _ x [] | reflexivity].
  - destruct (mem c off) eqn:E.
    + split; [discriminate |]. intro H. specialize (H c (or_introl eq_refl)). congruence.
    + rewrite IH. split.
      * intros H x [-> | Hx]; auto.
      * intros H x Hx. apply H. right. exact Hx.
Qed.

Lemma negotiate_some : forall A (mem : A -> list A -> bool) sup off x,
  negotiate mem sup off = Some x -> In x sup /\ mem x off = true.
Proof.
  intros A mem sup off x. induction sup as [| c r IH]; simpl; [discriminate |].
  destruct (mem c off) eqn:E.
  - intro H. inversion H; subst. auto.
  - intro H. destruct (IH H). auto.
Qed.

Section P3.
Variable O : oracles.

(* what "no common option" means for a ClientHello view against a server configuration *)
Definition no_common (c : cfg) (v : ch_view) : Prop :=
  negotiate memz (f_suites c) (ch_suites v) = None \/
  negotiate_opt memz (f_key_sigalgs c) (ch_sigalgs v) = None \/
  negotiate_opt memz (f_versions c) (ch_versions v) = None \/
  (exists l, f_alpn c = Some l /\ negotiate_opt memb l (ch_alpn v) = None).

Lemma server_hello_no_common : forall c s m v,
  o_parse_ch O m = POk v -> no_common c v ->
  exists d, server_handle_hello O c s m = (OAlert d, s, []).
Proof.
  intros c s m v P N. unfold server_handle_hello. rewrite P. cbn [with_parse].
  destruct (negotiate memz (f_suites c) (ch_suites v)) as [suite |] eqn:E1; [| eexists; reflexivity].
  destruct (negotiate memz (f_comp c) (ch_comp v)) as [comp |] eqn:E2; [| eexists; reflexivity].
  destruct (negotiate_opt memz (f_key_sigalgs c) (ch_sigalgs v)) as [sa |] eqn:E3; [| eexists; reflexivity].
  destruct (negotiate_opt memz (f_versions c) (ch_versions v)) as [ver |] eqn:E4; [| eexists; reflexivity].
  destruct N as [N | [N | [N | (l & Hl & N)]]]; try congruence.
  rewrite Hl, N. cbn [with_parse]. eexists; reflexivity.
Qed.

(* a server never leaves SERVER_EXPECT_CLIENT_HELLO as long as every ClientHello it is given shares no option *)
Lemma no_common_option_server_lemma : forall c ms s,
  t_state s = SERVER_EXPECT_CLIENT_HELLO ->
  (forall m v, In m ms -> o_parse_ch O m = POk v -> no_common c v) ->
  run O c s ms = s.
Proof.
  intros c ms. induction ms as [| m r IH]; intros s Hs Hall; simpl; [reflexivity |].
  assert (E : step O c s m = (fst (fst (step O c s m)), s, snd (step O c s m))).
  { unfold step. rewrite Hs. destruct (negb (framedb m)); [reflexivity |].
    rewrite dispatch_all. cbn [legal_next].
    destruct (msg_type m =? 1); [| reflexivity]. cbn [run_handler].
    destruct (o_parse_ch O m) as [v | d | e] eqn:P.
    - destruct (server_hello_no_common c s m v P (Hall m v (or_introl eq_refl) P)) as [d ->]. reflexivity.
    - unfold server_handle_hello. rewrite P. reflexivity.
    - unfold server_handle_hello. rewrite P. reflexivity. }
  rewrite E. apply IH; [exact Hs |]. intros m0 v0 Hin. apply Hall. right. exact Hin.
Qed.

(* the client refuses a ServerHello whose suite / version it did not offer: no state change *)
Lemma client_refuses_unoffered : forall c s m v,
  o_parse_sh O m = POk v ->
  (memz (sh_suite v) (f_suites c) = false \/
   match sh_version v with Some x => memz x (f_versions c) = false | None => True end) ->
  exists d, client_handle_hello O c s m = (OAlert d, s, []).
Proof.
  intros c s m v P N. unfold client_handle_hello. rewrite P. cbn [with_parse].
  destruct (negotiate memz (f_suites c) [sh_suite v]) as [suite |] eqn:E1; [| eexists; reflexivity].
  destruct (negb (memz (sh_comp v) (f_comp c))); [eexists; reflexivity |].
  destruct N as [N | N].
  - apply negotiate_some in E1. destruct E1 as [I M]. simpl in M. rewrite orb_false_r in M.
    apply Z.eqb_eq in M. subst suite. exfalso.
    assert (X : memz (sh_suite v) (f_suites c) = true).
    { unfold memz. apply existsb_exists. exists (sh_suite v). split; [exact I | apply Z.eqb_refl]. }
    congruence.
  - destruct (sh_version v) as [x |]; [rewrite N |]; eexists; reflexivity.
Qed.

End P3.

(* ---------- QUIC versions ----------------------------------------------------------------------------------------- *)
Lemma memz_in : forall x l, memz x l = true <-> In x l.
Proof.
  intros x l. unfold memz. rewrite existsb_exists. split.
  - intros (y & I & E). apply Z.eqb_eq in E. subst. exact I.
  - intro I. exists x. split; [exact I | apply Z.eqb_refl].
Qed.

(* Version Negotiation: the client either ignores the packet, gives up (no common version), or continues with a
   version that it supports AND the server listed *)
Lemma client_vn_sound : forall supported current vn,
  match client_receive_vn supported current vn with
  | None => In current vn
  | Some None => forall v, In v supported -> ~ In v vn
  | Some (Some v) => In v supported /\ In v vn
  end.
Proof.
  intros supported current vn. unfold client_receive_vn.
  destruct (memz current vn) eqn:E; [apply memz_in; exact E |].
  destruct (filter (fun x => memz x vn) supported) as [| v r] eqn:F.
  - intros v I J. assert (X : In v (filter (fun x => memz x vn) supported)).
    { apply filter_In. split; [exact I | apply memz_in; exact J]. }
    rewrite F in X. exact X.
  - assert (X : In v (filter (fun x => memz x vn) supported)) by (rewrite F; left; reflexivity).
    apply filter_In in X. destruct X as [I J]. split; [exact I | apply memz_in; exact J].
Qed.

(* the server's negotiated version is the current one or one it supports, that the client listed, compatible *)
Lemma server_choose_version_sound : forall supported current avail,
  let v := server_choose_version supported current avail in
  v = current \/ (In v supported /\ In v avail /\ is_version_compatible current v = true).
Proof.
  intros supported current avail. induction avail as [| a r IH]; simpl; [left; reflexivity |].
  destruct (a =? current) eqn:E; [left; reflexivity |].
  destruct (memz a supported && is_version_compatible current a) eqn:F.
  - right. apply andb_true_iff in F. destruct F as [F1 F2]. split; [apply memz_in; exact F1 |]. split; [left; reflexivity | exact F2].
  - destruct IH as [IH | (A & B & D)]; [left; exact IH | right; split; [exact A | split; [right; exact B | exact D]]].
Qed.

(* version agreement: the client adopts the version of the packet that carried the ServerHello
   (crypto_packet_version) and accepts the server's transport parameters only if their chosen_version is that
   version; the server's chosen_version is its negotiated version: both sides end with the same version, and it is
   the one authenticated inside EncryptedExtensions *)
Lemma version_agreement_lemma : forall remote_iscid odcid rscid cpv tp chosen avail,
  tp_check true remote_iscid odcid rscid cpv tp = 0 -> tp_vi tp = Some (chosen, avail) ->
  chosen = cpv /\ obeqb (tp_iscid tp) remote_iscid = true /\ obeqb (tp_odcid tp) odcid = true /\
  obeqb (tp_rscid tp) rscid = true.
Proof.
  intros remote_iscid odcid rscid cpv tp chosen avail H V. unfold tp_check in H. rewrite V in H. simpl in H.
  destruct (obeqb (tp_iscid tp) remote_iscid); simpl in H; [| discriminate].
  destruct (obeqb (tp_odcid tp) odcid); simpl in H; [| discriminate].
  destruct (obeqb (tp_rscid tp) rscid); simpl in H; [| discriminate].
  destruct (chosen =? cpv) eqn:E; simpl in H; [| discriminate].
  apply Z.eqb_eq in E. auto.
Qed.

(* a server refuses transport parameters whose chosen_version is not the version of the packet, or not listed *)
Lemma server_tp_version_lemma : forall remote_iscid cpv tp chosen avail,
  tp_check false remote_iscid None None cpv tp = 0 -> tp_vi tp = Some (chosen, avail) ->
  chosen = cpv /\ In chosen avail.
Proof.
  intros remote_iscid cpv tp chosen avail H V. unfold tp_check in H. rewrite V in H. simpl in H.
  destruct (tp_odcid tp), (tp_rscid tp); simpl in H; try discriminate.
  destruct (obeqb (tp_iscid tp) remote_iscid); simpl in H; [| discriminate].
  destruct (memz chosen avail) eqn:M; simpl in H; [| discriminate].
  destruct (chosen =? cpv) eqn:E; simpl in H; [| discriminate].
  apply Z.eqb_eq in E. split; [exact E | apply memz_in; exact M].
Qed.
