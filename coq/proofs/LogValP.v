(* C20  Soundness of the type checker of model/LogVal.v: a well-typed expression / statement / method does not
   raise on any environment of the declared types, and what it returns is a JSON value. *)
From Coq Require Import String Ascii PrimFloat.
From AQ Require Import lib.Base model.LogEnc model.LogVal proofs.LogEncP.
Open Scope string_scope.
Open Scope Z_scope.

Definition env_ok (T : tabs) (G : tenv) (rho : env) : Prop :=
  forall x t, lookup x G = Some t -> exists v, lookup x rho = Some v /\ vty T t v = true.

Definition ext (G G' : tenv) : Prop := forall x t, lookup x G = Some t -> lookup x G' = Some t.

Lemma env_ok_cons : forall T G rho x t v,
  env_ok T G rho -> vty T t v = true -> env_ok T ((x, t) :: G) ((x, v) :: rho).
Proof.
  intros T G rho x t v H Hv y ty. simpl. destruct (String.eqb y x).
  - intros E. inversion E; subst. eauto.
  - apply H.
Qed.

Lemma env_ok_ext : forall T G G' rho, ext G G' -> env_ok T G' rho -> env_ok T G rho.
Proof. intros T G G' rho He H x t Hx. apply H. apply He. exact Hx. Qed.

Lemma env_ok_narrow : forall T G rho x t v,
  env_ok T G rho -> lookup x rho = Some v -> vty T t v = true -> env_ok T ((x, t) :: G) rho.
Proof.
  intros T G rho x t v H Hl Hv y ty. simpl. destruct (String.eqb y x) eqn:E.
  - apply String.eqb_eq in E. subst. intros E. inversion E; subst. eauto.
  - apply H.
Qed.

Lemma lookup_In : forall A x (l : list (string * A)) a, lookup x l = Some a -> In (x, a) l.
Proof.
  induction l as [|[y b] l IH]; simpl; intros a H; [discriminate|].
  destruct (String.eqb x y) eqn:E.
  - apply String.eqb_eq in E. inversion H; subst. left. reflexivity.
  - right. apply IH. exact H.
Qed.

Lemma ty_eqb_eq : forall a b, ty_eqb a b = true -> a = b.
Proof.
  destruct a, b; simpl; intros H; try discriminate; try reflexivity;
    apply String.eqb_eq in H; subst; reflexivity.
Qed.

Lemma ascii_byte : forall b, forallb ascii_okb b = true -> forallb byte_okb b = true.
Proof.
  intros b H. apply forallb_forall. intros x Hx.
  rewrite forallb_forall in H. specialize (H x Hx). unfold ascii_okb, byte_okb in *. lia.
Qed.

Lemma sub_sound : forall T a b v, sub a b = true -> vty T a v = true -> vty T b v = true.
Proof.
  intros T a b v H Hv. unfold sub in H. apply orb_true_iff in H. destruct H as [H|H].
  - apply ty_eqb_eq in H. subst. exact Hv.
  - destruct a, b; try discriminate; destruct v; simpl in *; try discriminate; auto using ascii_byte.
Qed.

Lemma join_sound : forall T a b t v, join a b = Some t ->
  (vty T a v = true -> vty T t v = true) /\ (vty T b v = true -> vty T t v = true).
Proof.
  intros T a b t v H. unfold join in H.
  destruct (sub a b) eqn:E1.
  - inversion H; subst. split; [apply sub_sound; exact E1 | auto].
  - destruct (sub b a) eqn:E2.
    + inversion H; subst. split; [auto | apply sub_sound; exact E2].
    + destruct (sub a TJson && sub b TJson) eqn:E3; [|discriminate].
      apply andb_true_iff in E3. destruct E3 as [Ea Eb]. inversion H; subst.
      split; apply sub_sound; assumption.
Qed.

Lemma eq_safe_simple : forall T t v, eq_safe t = true -> vty T t v = true -> is_simple v = true.
Proof.
  intros T t v H Hv. destruct t; try discriminate; destruct v; simpl in *; try discriminate; auto.
Qed.

Lemma hexlify_asciib : forall b, forallb byte_okb b = true -> forallb ascii_okb (hexlify b) = true.
Proof.
  intros b H. assert (Hb : bytes_ok b).
  { apply Forall_forall. intros x Hx. rewrite forallb_forall in H. specialize (H x Hx). unfold byte_okb in H. lia. }
  pose proof (hexlify_ascii b Hb) as Ha. apply forallb_forall. intros x Hx.
  unfold ascii_ok in Ha. rewrite Forall_forall in Ha. specialize (Ha x Hx). unfold ascii_okb. lia.
Qed.

Lemma json_list_cons : forall x l, is_json (VList (x :: l)) = is_json x && is_json (VList l).
Proof. reflexivity. Qed.

Lemma json_dict_cons : forall s x d, is_json (VDict ((VStr s, x) :: d)) = is_json x && is_json (VDict d).
Proof. reflexivity. Qed.

Lemma dict_set_json : forall key v d, is_json v = true -> is_json (VDict d) = true ->
  is_json (VDict (dict_set key v d)) = true.
Proof.
  induction d as [|[k x] d IH]; intros Hv Hd.
  - simpl. rewrite Hv. reflexivity.
  - destruct k; try (simpl in Hd; discriminate).
    rewrite json_dict_cons in Hd. apply andb_true_iff in Hd. destruct Hd as [Hx Hr].
    simpl dict_set. destruct (String.eqb key s).
    + rewrite json_dict_cons. rewrite Hv. exact Hr.
    + rewrite json_dict_cons. rewrite Hx. apply IH; assumption.
Qed.

Lemma narrow_wf : forall T tn v, narrow tn <> TUnknown -> vty T (narrow tn) v = true -> wf_shallow v = true.
Proof.
  intros T tn v Hn Hv. unfold narrow in *.
  destruct (String.eqb tn "bool"); [destruct v; simpl in *; try discriminate; reflexivity|].
  destruct (String.eqb tn "bytes"); [destruct v; simpl in *; try discriminate; exact Hv|].
  destruct (String.eqb tn "int"); [destruct v; simpl in *; try discriminate; reflexivity|].
  destruct (String.eqb tn "str"); [destruct v; simpl in *; try discriminate; reflexivity|].
  destruct (String.eqb tn "float"); [destruct v; simpl in *; try discriminate; reflexivity|].
  contradiction.
Qed.

Lemma narrow_isinst : forall T tn v, wf_shallow v = true -> isinst tn v = true -> narrow tn <> TUnknown ->
  vty T (narrow tn) v = true.
Proof.
  intros T tn v Hw Hi Hn. unfold narrow in *. unfold isinst in Hi.
  destruct (String.eqb tn "bool") eqn:E1.
  { apply String.eqb_eq in E1. subst. destruct v; simpl in *; try discriminate; reflexivity. }
  destruct (String.eqb tn "bytes") eqn:E2.
  { apply String.eqb_eq in E2. subst. destruct v; simpl in *; try discriminate; exact Hw. }
  destruct (String.eqb tn "int") eqn:E3.
  { apply String.eqb_eq in E3. subst. destruct v; simpl in *; try discriminate; reflexivity. }
  destruct (String.eqb tn "str") eqn:E4.
  { apply String.eqb_eq in E4. subst. destruct v; simpl in *; try discriminate; reflexivity. }
  destruct (String.eqb tn "float") eqn:E5.
  { apply String.eqb_eq in E5. subst. destruct v; simpl in *; try discriminate; reflexivity. }
  contradiction.
Qed.

Lemma field_simple : forall T t v, t <> TUnknown -> (forall c, t <> TObj c) -> (forall c, t <> TListObj c) ->
  vty_simple T t v = true -> vty T t v = true.
Proof.
  intros T t v H1 H2 H3 H. destruct t; simpl in *; auto; try congruence;
    try (exfalso; eapply H2; reflexivity); try (exfalso; eapply H3; reflexivity).
Qed.

Ltac dm H :=
  match type of H with
  | context [match ?x with _ => _ end] => destruct x eqn:?; try discriminate
  end.

Lemma existsb_eqb_In : forall m ms, existsb (String.eqb m) ms = true -> In m ms.
Proof.
  intros m ms H. apply existsb_exists in H. destruct H as (x & Hx & E). apply String.eqb_eq in E. subst. exact Hx.
Qed.

Lemma items_ok : forall attrs, forallb (fun av : string * pv => wf_shallow (snd av)) attrs = true ->
  forallb item_ok (map (fun av : string * pv => VTuple [VStr (fst av); snd av]) attrs) = true.
Proof.
  induction attrs as [|[a x] r IH]; simpl; intros H; [reflexivity|].
  apply andb_true_iff in H. destruct H as [Hx Hr]. rewrite Hx. simpl. apply IH. exact Hr.
Qed.

Theorem tc_sound : forall T e G rho t,
  tc T G e = Some t -> env_ok T G rho -> exists v, peval T rho e = Ok v /\ vty T t v = true.
Proof.
  intros T. induction e; intros G rho t Htc Henv; simpl in Htc.
  - (* ENone *) inversion Htc; subst. eexists; split; reflexivity.
  - inversion Htc; subst. eexists; split; reflexivity.
  - inversion Htc; subst. eexists; split; reflexivity.
  - inversion Htc; subst. eexists; split; reflexivity.
  - (* EEnum *) dm Htc. dm Htc. inversion Htc; subst. eexists; split; [reflexivity|].
    simpl. rewrite Heqo. rewrite String.eqb_refl. simpl. exact Heqb.
  - (* EVar *) destruct (lookup x G) eqn:E; [|discriminate].
    assert (t0 = t /\ t <> TUnknown) as [-> Hn] by (destruct t0; inversion Htc; subst; split; congruence).
    destruct (Henv _ _ E) as (v & Hv & Vt). exists v. simpl. rewrite Hv. auto.
  - (* EAttr *) destruct (tc T G e) eqn:E; [|discriminate]. destruct t0; try discriminate.
    destruct (lookup cls (t_classes T)) eqn:Ec; [|discriminate].
    destruct (lookup a l) eqn:Ea; [|destruct (lookup a l); discriminate].
    assert (t0 = t /\ t <> TUnknown /\ (forall c, t <> TObj c) /\ (forall c, t <> TListObj c)) as (-> & N1 & N2 & N3).
    { destruct t0; inversion Htc; subst; repeat split; congruence. }
    destruct (IHe _ _ _ E Henv) as (v & Ev & Vv). simpl. rewrite Ev. simpl.
    simpl in Vv. unfold obj_ok in Vv. destruct v; try discriminate. rewrite Ec in Vv.
    apply andb_true_iff in Vv. destruct Vv as [Vv Vf]. rewrite forallb_forall in Vf.
    specialize (Vf (a, t) (lookup_In _ _ _ _ Ea)). simpl in Vf.
    destruct (lookup a attrs) eqn:El; [|discriminate]. exists p. split; [reflexivity|].
    apply field_simple; assumption.
  - (* EIdx *) destruct (tc T G e) eqn:E; [|discriminate]. destruct t0; try discriminate.
    destruct ((i =? 0) || (i =? 1)) eqn:Ei; [|discriminate]. inversion Htc; subst.
    destruct (IHe _ _ _ E Henv) as (v & Ev & Vv). simpl. rewrite Ev. simpl.
    simpl in Vv. unfold pair_bytes_ok in Vv.
    destruct v; try discriminate. destruct l as [|a l]; try discriminate. destruct a; try discriminate.
    destruct l as [|c l]; try discriminate. destruct c; try discriminate. destruct l; try discriminate.
    apply andb_true_iff in Vv. destruct Vv as [Va Vb].
    apply orb_true_iff in Ei. destruct Ei as [Ei|Ei]; apply Z.eqb_eq in Ei; subst; simpl; eexists; split; try reflexivity; assumption.
  - (* ETable *) destruct (tc T G e) eqn:E; [|discriminate]. destruct t0; try discriminate.
    destruct (table_total T tb en) eqn:Et; [|discriminate]. inversion Htc; subst.
    destruct (IHe _ _ _ E Henv) as (v & Ev & Vv). simpl. rewrite Ev. simpl.
    simpl in Vv. destruct v; try discriminate. unfold table_total in Et.
    destruct (lookup tb (t_tables T)) eqn:Etb; [|discriminate].
    destruct (lookup en (t_enums T)) eqn:Een; [|discriminate].
    apply andb_true_iff in Vv. destruct Vv as [V1 V2]. apply String.eqb_eq in V1. subst en0.
    apply existsb_eqb_In in V2. rewrite forallb_forall in Et. specialize (Et m V2).
    destruct (table_find en m l) eqn:Ef; try discriminate. destruct a; try discriminate.
    eexists; split; reflexivity.
  - (* EBin *) destruct (tc T G e1) eqn:E1; [|discriminate]. destruct (tc T G e2) eqn:E2; [|destruct t0; discriminate].
    destruct (IHe1 _ _ _ E1 Henv) as (v1 & Ev1 & V1). destruct (IHe2 _ _ _ E2 Henv) as (v2 & Ev2 & V2).
    simpl. rewrite Ev1, Ev2. simpl.
    destruct t0; try discriminate; destruct t1; try discriminate.
    + inversion Htc; subst. destruct v1; try discriminate; destruct v2; try discriminate.
      destruct op; eexists; split; reflexivity.
    + destruct op; try discriminate. destruct e2; try discriminate.
      destruct (small z) eqn:Es; [|discriminate]. inversion Htc; subst.
      destruct v1; try discriminate. simpl in Ev2. inversion Ev2; subst. simpl. rewrite Es.
      eexists; split; reflexivity.
    + inversion Htc; subst. destruct v1; try discriminate; destruct v2; try discriminate.
      destruct op; eexists; split; reflexivity.
    + destruct op; try discriminate. inversion Htc; subst.
      destruct v1; try discriminate; destruct v2; try discriminate. eexists; split; reflexivity.
  - (* EEq *) destruct (tc T G e1) eqn:E1; [|discriminate]. destruct (tc T G e2) eqn:E2; [|discriminate].
    destruct (eq_safe t0 && eq_safe t1) eqn:Es; [|discriminate]. inversion Htc; subst.
    apply andb_true_iff in Es. destruct Es as [S1 S2].
    destruct (IHe1 _ _ _ E1 Henv) as (v1 & Ev1 & V1). destruct (IHe2 _ _ _ E2 Henv) as (v2 & Ev2 & V2).
    simpl. rewrite Ev1, Ev2. simpl. unfold eq_val.
    rewrite (eq_safe_simple _ _ _ S1 V1), (eq_safe_simple _ _ _ S2 V2). simpl.
    eexists; split; reflexivity.
  - (* EIsNone *) destruct (tc T G e) eqn:E; [|discriminate]. inversion Htc; subst.
    destruct (IHe _ _ _ E Henv) as (v & Ev & Vv). simpl. rewrite Ev. simpl. eexists; split; reflexivity.
  - destruct (tc T G e) eqn:E; [|discriminate]. inversion Htc; subst.
    destruct (IHe _ _ _ E Henv) as (v & Ev & Vv). simpl. rewrite Ev. simpl. eexists; split; reflexivity.
  - (* EIf *) destruct (tc T G e1) eqn:E1; [|discriminate]. destruct t0; try discriminate.
    destruct (tc T G e2) eqn:E2; [|discriminate]. destruct (tc T G e3) eqn:E3; [|discriminate].
    destruct (IHe1 _ _ _ E1 Henv) as (v1 & Ev1 & V1). simpl. rewrite Ev1. simpl.
    destruct v1; try discriminate. simpl.
    destruct (join_sound T t0 t1 t) with (v := VNone) as [_ _]; [exact Htc|].
    destruct b.
    + destruct (IHe2 _ _ _ E2 Henv) as (v2 & Ev2 & V2). exists v2. split; [exact Ev2|].
      apply (proj1 (join_sound T t0 t1 t v2 Htc)). exact V2.
    + destruct (IHe3 _ _ _ E3 Henv) as (v3 & Ev3 & V3). exists v3. split; [exact Ev3|].
      apply (proj2 (join_sound T t0 t1 t v3 Htc)). exact V3.
  - (* EDictNil *) inversion Htc; subst. eexists; split; reflexivity.
  - (* EDictCons *) destruct (tc T G e1) eqn:E1; [|discriminate]. destruct t0; try discriminate.
    destruct (tc T G e2) eqn:E2; [|discriminate]. destruct (tc T G e3) eqn:E3; [|discriminate].
    destruct t1; try discriminate. destruct (sub t0 TJson) eqn:Es; [|discriminate]. inversion Htc; subst.
    destruct (IHe1 _ _ _ E1 Henv) as (v1 & Ev1 & V1). destruct (IHe2 _ _ _ E2 Henv) as (v2 & Ev2 & V2).
    destruct (IHe3 _ _ _ E3 Henv) as (v3 & Ev3 & V3). simpl. rewrite Ev1, Ev2, Ev3. simpl.
    destruct v1; try discriminate. destruct v3; try discriminate.
    eexists; split; [reflexivity|]. pose proof (sub_sound _ _ _ _ Es V2) as J. simpl in J.
    change (is_json (VDict ((VStr s, v2) :: d)) = true). rewrite json_dict_cons. rewrite J. exact V3.
  - inversion Htc; subst. eexists; split; reflexivity.
  - (* EListCons *) destruct (tc T G e1) eqn:E1; [|discriminate]. destruct (tc T G e2) eqn:E2; [|discriminate].
    destruct t1; try discriminate. destruct (sub t0 TJson) eqn:Es; [|discriminate]. inversion Htc; subst.
    destruct (IHe1 _ _ _ E1 Henv) as (v1 & Ev1 & V1). destruct (IHe2 _ _ _ E2 Henv) as (v2 & Ev2 & V2).
    simpl. rewrite Ev1, Ev2. simpl. destruct v2; try discriminate.
    eexists; split; [reflexivity|]. pose proof (sub_sound _ _ _ _ Es V1) as J. simpl in J.
    change (is_json (VList (v1 :: l)) = true). rewrite json_list_cons. rewrite J. exact V2.
  - (* EComp *) destruct (tc T G e2) eqn:E2; [|discriminate].
    destruct (IHe2 _ _ _ E2 Henv) as (v2 & Ev2 & V2). simpl. rewrite Ev2. simpl.
    destruct t0; try discriminate.
    + destruct (tc T ((x, TObj cls) :: G) e1) eqn:E1; [|discriminate].
      destruct (sub t0 TJson) eqn:Es; [|discriminate]. inversion Htc; subst.
      simpl in V2. destruct v2; try discriminate. clear Ev2.
      assert (H : exists r, mapres (fun h => peval T ((x, h) :: rho) e1) l = Ok r /\ is_json (VList r) = true).
      { induction l as [|h l IHl]; [eexists; split; reflexivity|].
        simpl in V2. apply andb_true_iff in V2. destruct V2 as [Vh Vl].
        destruct (IHl Vl) as (r & Er & Jr).
        destruct (IHe1 _ ((x, h) :: rho) _ E1 (env_ok_cons _ _ _ x (TObj cls) h Henv Vh)) as (y & Ey & Vy).
        simpl. rewrite Ey. simpl. rewrite Er. simpl. eexists; split; [reflexivity|].
        pose proof (sub_sound _ _ _ _ Es Vy) as J. simpl in J. change (is_json y && is_json (VList r) = true). rewrite J. exact Jr. }
      destruct H as (r & Er & Jr). rewrite Er. simpl. eexists; split; [reflexivity|exact Jr].
    + destruct (tc T ((x, TPairBytes) :: G) e1) eqn:E1; [|discriminate].
      destruct (sub t0 TJson) eqn:Es; [|discriminate]. inversion Htc; subst.
      simpl in V2. destruct v2; try discriminate. clear Ev2.
      assert (H : exists r, mapres (fun h => peval T ((x, h) :: rho) e1) l = Ok r /\ is_json (VList r) = true).
      { induction l as [|h l IHl]; [eexists; split; reflexivity|].
        simpl in V2. apply andb_true_iff in V2. destruct V2 as [Vh Vl].
        destruct (IHl Vl) as (r & Er & Jr).
        destruct (IHe1 _ ((x, h) :: rho) _ E1 (env_ok_cons _ _ _ x TPairBytes h Henv Vh)) as (y & Ey & Vy).
        simpl. rewrite Ey. simpl. rewrite Er. simpl. eexists; split; [reflexivity|].
        pose proof (sub_sound _ _ _ _ Es Vy) as J. simpl in J. change (is_json y && is_json (VList r) = true). rewrite J. exact Jr. }
      destruct H as (r & Er & Jr). rewrite Er. simpl. eexists; split; [reflexivity|exact Jr].
  - (* ELen *) destruct (tc T G e) eqn:E; [|discriminate].
    destruct (IHe _ _ _ E Henv) as (v & Ev & Vv). simpl. rewrite Ev. simpl.
    destruct t0; try discriminate; inversion Htc; subst; destruct v; try discriminate; eexists; split; reflexivity.
  - (* EIntOf *) destruct (tc T G e) eqn:E; [|discriminate].
    destruct (IHe _ _ _ E Henv) as (v & Ev & Vv). simpl. rewrite Ev. simpl.
    destruct t0; try discriminate; inversion Htc; subst; destruct v; try discriminate; eexists; split; reflexivity.
  - (* EHexlify *) destruct (tc T G e) eqn:E; [|discriminate].
    destruct (IHe _ _ _ E Henv) as (v & Ev & Vv). simpl. rewrite Ev. simpl.
    destruct t0; try discriminate; inversion Htc; subst; destruct v; try discriminate; simpl in Vv;
      (eexists; split; [reflexivity|]); simpl; apply hexlify_asciib; auto using ascii_byte.
  - (* EDecode *) destruct (tc T G e) eqn:E; [|destruct m; discriminate].
    destruct (IHe _ _ _ E Henv) as (v & Ev & Vv). simpl. rewrite Ev. simpl.
    destruct m; destruct t0; try discriminate; inversion Htc; subst; destruct v; try discriminate; simpl in Vv; simpl;
      try rewrite Vv; eexists; split; reflexivity.
  - (* EIsInstance *) destruct (tc T G e) eqn:E; [|discriminate]. inversion Htc; subst.
    destruct (IHe _ _ _ E Henv) as (v & Ev & Vv). simpl. rewrite Ev. simpl. eexists; split; reflexivity.
  - (* ELet *) destruct (tc T G e1) eqn:E1; [|discriminate].
    destruct (IHe1 _ _ _ E1 Henv) as (v1 & Ev1 & V1). simpl. rewrite Ev1. simpl.
    apply (IHe2 _ _ _ Htc). apply env_ok_cons; assumption.
  - (* EListOf *) destruct (tc T G e) eqn:E; [|discriminate]. destruct t0; try discriminate. inversion Htc; subst.
    destruct (IHe _ _ _ E Henv) as (v & Ev & Vv). simpl. rewrite Ev. simpl.
    simpl in Vv. destruct v; try discriminate. eexists; split; [reflexivity|exact Vv].
  - (* EItems *) destruct (tc T G e) eqn:E; [|discriminate]. destruct t0; try discriminate.
    destruct (lookup cls (t_classes T)) eqn:Ec; [|discriminate]. inversion Htc; subst.
    destruct (IHe _ _ _ E Henv) as (v & Ev & Vv). simpl. rewrite Ev. simpl.
    simpl in Vv. unfold obj_ok in Vv. destruct v; try discriminate. rewrite Ec in Vv.
    apply andb_true_iff in Vv. destruct Vv as [Vv _]. apply andb_true_iff in Vv. destruct Vv as [_ Vw].
    eexists; split; [reflexivity|]. simpl. apply items_ok. exact Vw.
Qed.

Lemma tcs_ext : forall T s G G', tcs T G s = Some G' -> ext G G'.
Proof.
  intros T. induction s; intros G G' H; simpl in H.
  - inversion H; subst. intros y ty0 Hy; exact Hy.
  - dm H. dm H. inversion H; subst. intros y ty0 Hy; exact Hy.
  - destruct (tc T G e); [|discriminate]. destruct (lookup x G) eqn:E.
    + dm H. inversion H; subst. intros y ty0 Hy; exact Hy.
    + inversion H; subst. intros y ty0 Hy. simpl. destruct (String.eqb y x) eqn:Ey; [|exact Hy].
      apply String.eqb_eq in Ey. subst. congruence.
  - repeat dm H. inversion H; subst. intros y ty0 Hy; exact Hy.
  - destruct (tcs T G s1) eqn:E1; [|discriminate]. intros y ty0 Hy. apply (IHs2 _ _ H). apply (IHs1 _ _ E1). exact Hy.
  - repeat dm H. inversion H; subst. intros y ty0 Hy; exact Hy.
  - repeat dm H; inversion H; subst; intros y ty0 Hy; exact Hy.
  - repeat dm H. inversion H; subst. intros y ty0 Hy; exact Hy.
Qed.

Definition post (T : tabs) (G' : tenv) (r : env * option pv) : Prop :=
  (snd r = None -> env_ok T G' (fst r)) /\ (forall v, snd r = Some v -> is_json v = true).

Theorem tcs_sound : forall T s G G' rho,
  tcs T G s = Some G' -> env_ok T G rho -> exists r, exec T rho s = Ok r /\ post T G' r.
Proof.
  intros T. induction s; intros G G' rho H Henv; simpl in H.
  - (* PSkip *) inversion H; subst. eexists; split; [reflexivity|]. split; simpl; [auto|discriminate].
  - (* PRet *) destruct (tc T G e) eqn:E; [|discriminate]. destruct (sub t TJson) eqn:Es; [|discriminate].
    inversion H; subst. destruct (tc_sound _ _ _ _ _ E Henv) as (v & Ev & Vv). simpl. rewrite Ev. simpl.
    eexists; split; [reflexivity|]. split; simpl; [discriminate|]. intros v0 E0. inversion E0; subst.
    apply (sub_sound _ _ _ _ Es Vv).
  - (* PAssign *) destruct (tc T G e) eqn:E; [|discriminate].
    destruct (tc_sound _ _ _ _ _ E Henv) as (v & Ev & Vv). simpl. rewrite Ev. simpl.
    eexists; split; [reflexivity|]. split; simpl; [|discriminate]. intros _.
    destruct (lookup x G) eqn:El.
    + destruct (sub t t0) eqn:Es; [|discriminate]. inversion H; subst.
      intros y ty Hy. simpl. destruct (String.eqb y x) eqn:Ey.
      * apply String.eqb_eq in Ey. subst. rewrite El in Hy. inversion Hy; subst.
        exists v. split; [reflexivity|]. apply (sub_sound _ _ _ _ Es Vv).
      * apply Henv. exact Hy.
    + inversion H; subst. apply env_ok_cons; assumption.
  - (* PSetItem *) destruct (lookup x G) eqn:El; [|discriminate]. destruct t; try discriminate.
    destruct (tc T G k) eqn:Ek; [|discriminate]. destruct t; try discriminate.
    destruct (tc T G e) eqn:Ee; [|discriminate]. destruct (sub t TJson) eqn:Es; [|discriminate]. inversion H; subst.
    destruct (tc_sound _ _ _ _ _ Ek Henv) as (kv & Ekv & Vk). destruct (tc_sound _ _ _ _ _ Ee Henv) as (v & Ev & Vv).
    destruct (Henv _ _ El) as (dv & Ed & Vd). simpl. rewrite Ev, Ekv. simpl. rewrite Ed.
    simpl in Vd. destruct dv; try discriminate. simpl in Vk. destruct kv; try discriminate.
    eexists; split; [reflexivity|]. split; simpl; [|discriminate]. intros _.
    intros y ty Hy. simpl. destruct (String.eqb y x) eqn:Ey.
    + apply String.eqb_eq in Ey. subst. rewrite El in Hy. inversion Hy; subst.
      eexists; split; [reflexivity|]. simpl. apply dict_set_json; [|exact Vd].
      pose proof (sub_sound _ _ _ _ Es Vv) as J. exact J.
    + apply Henv. exact Hy.
  - (* PSeq *) destruct (tcs T G s1) eqn:E1; [|discriminate].
    destruct (IHs1 _ _ _ E1 Henv) as (r1 & Er1 & [P1 Q1]). simpl. rewrite Er1. simpl.
    destruct (snd r1) eqn:Es.
    + eexists; split; [reflexivity|]. split; [rewrite Es; discriminate|]. intros v Hv. apply Q1. congruence.
    + apply (IHs2 _ _ _ H). apply P1. reflexivity.
  - (* PIf *) destruct (tc T G c) eqn:Ec; [|discriminate]. destruct t; try discriminate.
    destruct (tcs T G s1) eqn:E1; [|discriminate]. destruct (tcs T G s2) eqn:E2; [|discriminate]. inversion H; subst.
    destruct (tc_sound _ _ _ _ _ Ec Henv) as (v & Ev & Vv). simpl. rewrite Ev. simpl.
    destruct v; try discriminate. simpl. destruct b.
    + destruct (IHs1 _ _ _ E1 Henv) as (r & Er & [P Q]). exists r. split; [exact Er|]. split; [|exact Q].
      intros Hn. apply (env_ok_ext _ _ _ _ (tcs_ext _ _ _ _ E1)). apply P. exact Hn.
    + destruct (IHs2 _ _ _ E2 Henv) as (r & Er & [P Q]). exists r. split; [exact Er|]. split; [|exact Q].
      intros Hn. apply (env_ok_ext _ _ _ _ (tcs_ext _ _ _ _ E2)). apply P. exact Hn.
  - (* PIfInst *) destruct (lookup x G) eqn:El; [|discriminate]. destruct t; try discriminate.
    destruct (Henv _ _ El) as (v & Ev & Vv). simpl in Vv. simpl. rewrite Ev.
    assert (Hn : narrow tn <> TUnknown) by (intros E; rewrite E in H; discriminate).
    assert (H' : exists Ga Gb, tcs T ((x, narrow tn) :: G) s1 = Some Ga /\ tcs T G s2 = Some Gb /\ G' = G).
    { destruct (narrow tn); try contradiction;
        (destruct (tcs T ((x, _) :: G) s1) eqn:E1; [|discriminate]); (destruct (tcs T G s2) eqn:E2; [|discriminate]);
        inversion H; subst; eauto. }
    destruct H' as (Ga & Gb & E1 & E2 & ->).
    destruct (isinst tn v) eqn:Ei.
    + assert (Hen : env_ok T ((x, narrow tn) :: G) rho).
      { apply (env_ok_narrow _ _ _ _ _ v); auto. apply narrow_isinst; assumption. }
      destruct (IHs1 _ _ _ E1 Hen) as (r & Er & [P Q]). exists r. split; [exact Er|]. split; [|exact Q].
      intros Hr. specialize (P Hr). pose proof (env_ok_ext _ _ _ _ (tcs_ext _ _ _ _ E1) P) as P'.
      intros y ty Hy. destruct (String.eqb y x) eqn:Ey.
      * apply String.eqb_eq in Ey. subst y. rewrite El in Hy. inversion Hy; subst ty.
        destruct (P' x (narrow tn)) as (v' & Ev' & Vv'); [simpl; rewrite String.eqb_refl; reflexivity|].
        exists v'. split; [exact Ev'|]. simpl. apply (narrow_wf T tn); assumption.
      * apply P'. simpl. rewrite Ey. exact Hy.
    + destruct (IHs2 _ _ _ E2 Henv) as (r & Er & [P Q]). exists r. split; [exact Er|]. split; [|exact Q].
      intros Hr. apply (env_ok_ext _ _ _ _ (tcs_ext _ _ _ _ E2)). apply P. exact Hr.
  - (* PForPair *) destruct (tc T G e) eqn:Ee; [|discriminate]. destruct t; try discriminate.
    destruct (lookup kx G) eqn:Ekx; [discriminate|]. destruct (lookup vx G) eqn:Evx; [discriminate|].
    destruct (tcs T ((vx, TAny) :: (kx, TStr) :: G) s) eqn:Eb; [|discriminate]. inversion H. subst G'. clear H.
    destruct (tc_sound _ _ _ _ _ Ee Henv) as (v & Ev & Vv). simpl. rewrite Ev. simpl.
    simpl in Vv. destruct v; try discriminate.
    clear Ev. revert rho Henv. induction l as [|h l IHl]; intros rho Henv.
    + simpl. eexists; split; [reflexivity|]. split; simpl; [auto|discriminate].
    + simpl in Vv. apply andb_true_iff in Vv. destruct Vv as [Vh Vl].
      unfold item_ok in Vh. destruct h; try discriminate. destruct l0 as [|k l0]; try discriminate.
      destruct k; try discriminate. destruct l0 as [|xv l0]; try discriminate. destruct l0; try discriminate.
      assert (Hen : env_ok T ((vx, TAny) :: (kx, TStr) :: G) ((vx, xv) :: (kx, VStr s0) :: rho)).
      { apply env_ok_cons; [apply env_ok_cons; [exact Henv|reflexivity]|exact Vh]. }
      destruct (IHs _ _ _ Eb Hen) as (r & Er & [P Q]).
      simpl. rewrite Er. simpl. destruct (snd r) eqn:Es.
      * eexists; split; [reflexivity|]. split; [rewrite Es; discriminate|]. intros v0 Hv0. apply Q. congruence.
      * specialize (P eq_refl). pose proof (env_ok_ext _ _ _ _ (tcs_ext _ _ _ _ Eb) P) as P'.
        assert (Hg : env_ok T G (fst r)).
        { intros y ty Hy. apply P'. simpl.
          destruct (String.eqb y vx) eqn:E1; [apply String.eqb_eq in E1; subst; congruence|].
          destruct (String.eqb y kx) eqn:E2; [apply String.eqb_eq in E2; subst; congruence|]. exact Hy. }
        apply (IHl Vl (fst r) Hg).
Qed.

Lemma bind_args_ok : forall T (ps : list (string * ty)) args,
  Forall2 (fun t v => vty T t v = true) (map snd ps) args ->
  env_ok T ps (combine (map fst ps) args).
Proof.
  induction ps as [|[x t] ps IH]; intros args H.
  - intros y ty Hy. discriminate.
  - simpl in H. inversion H as [|? v ? vs Hv Hr]; subst. simpl.
    apply env_ok_cons; [apply IH; exact Hr | exact Hv].
Qed.

(* a method whose body type-checks does not raise on arguments of its declared parameter types, and returns JSON *)
Theorem meth_sound : forall T m args, meth_ok T m = true ->
  Forall2 (fun t v => vty T t v = true) (map snd (m_params m)) args ->
  exists v, call T m args = Ok v /\ is_json v = true.
Proof.
  intros T m args Hok Hargs. unfold meth_ok in Hok.
  destruct (tcs T (m_params m) (m_body m)) eqn:E; [|discriminate].
  destruct (tcs_sound _ _ _ _ _ E (bind_args_ok _ _ _ Hargs)) as (r & Er & [P Q]).
  unfold call, bind_args. rewrite Er. simpl. destruct (snd r) eqn:Es.
  - eexists; split; [reflexivity|]. apply Q. reflexivity.
  - eexists; split; reflexivity.
Qed.

Lemma find_meth_In : forall n ms m, find_meth n ms = Some m -> In m ms /\ m_name m = n.
Proof.
  induction ms as [|m0 ms IH]; simpl; intros m H; [discriminate|].
  destruct (String.eqb n (m_name m0)) eqn:E.
  - inversion H; subst. apply String.eqb_eq in E. auto.
  - destruct (IH _ H). auto.
Qed.

Lemma map_fst_combine : forall (A B : Type) (a : list A) (b : list B), length b = length a -> map fst (combine a b) = a.
Proof.
  induction a as [|x a IH]; destruct b as [|y b]; simpl; intros H; try discriminate; [reflexivity|].
  f_equal. apply IH. lia.
Qed.

Lemma map_snd_combine : forall (A B : Type) (a : list A) (b : list B), length b = length a -> map snd (combine a b) = b.
Proof.
  induction a as [|x a IH]; destruct b as [|y b]; simpl; intros H; try discriminate; [reflexivity|].
  f_equal. apply IH. lia.
Qed.

(* a call site: on every argument vector of the types inferred at the site the callee does not raise and
   returns JSON *)
Theorem site_sound : forall T ms s m vs,
  site_ok T ms s = true -> find_meth (s_meth s) ms = Some m ->
  Forall2 (fun t v => vty T t v = true) (s_args s) vs ->
  exists v, call T m vs = Ok v /\ is_json v = true.
Proof.
  intros T ms s m vs Hs Hf Hv. unfold site_ok in Hs. rewrite Hf in Hs.
  apply andb_true_iff in Hs. destruct Hs as [Hl Hok]. apply Nat.eqb_eq in Hl.
  assert (Hlen : length (s_args s) = length (map fst (m_params m))) by (rewrite map_length; exact Hl).
  destruct (meth_sound T (retype m (s_args s)) vs Hok) as (v & Ev & Jv).
  - unfold retype. simpl. rewrite map_snd_combine; [exact Hv | exact Hlen].
  - exists v. split; [|exact Jv]. unfold call, bind_args, retype in *. simpl in Ev.
    rewrite map_fst_combine in Ev; [exact Ev | exact Hlen].
Qed.
