(* C03: the generated fragment gen/TlsTranscript.v (re-extracted from the current tls.py / connection.py on every run)
   is the one the hand-written model model/TlsSymbolic.v was transcribed from.  A change of WHAT a handler gives to
   update_hash, of the position of an update_hash relative to a derivation / MAC / signature, of a label, of the
   preference order in a negotiate() call, of a comparison or of a table entry makes one of these lemmas fail.
   Reading guide (model function <- skeleton):  THash 0 = ks_update k m (whole received message), THash 1 = ks_update
   with the message just built (push_message), THash 2 / 3 = the binder split, THash 4 = the anticipated Finished;
   TExtract 0/1/2 = ks_extract None / shared / resumption secret; TKey d e L / TDerive L = ks_derive k L at that point;
   TFinVD 0/1/2 = ks_finished with _dec_key / _enc_key / binder key; TNegotiate s o a = negotiate (list s) (list o). *)
From AQ Require Import lib.Base gen.TlsDispatch gen.TlsTranscript model.TlsSymbolic.

Definition L_res_master : bytes := [114; 101; 115; 32; 109; 97; 115; 116; 101; 114].
Definition L_resumption : bytes := [114; 101; 115; 117; 109; 112; 116; 105; 111; 110].

Definition modelled_skeleton (h : thandler) : list tev :=
  match h with
  | T_client_send_hello =>
      [TIf 9 [TNewKs 1; TExtract 2; TDerive L_res_binder; TPush 7; THash 2; TFinVD 2; THash 3; TIf 8 [TDerive L_c_e_traffic; TKeyCb 1 1] []] [];
       TNewProxy;
       TExtract 0;
       TPush 7;
       THash 1;
       TSet CLIENT_EXPECT_SERVER_HELLO]
  | T_client_handle_hello =>
      [TPull 0;
       TNegotiate 1 3 (40);
       TIf 14 [TRaise 47] [];
       TIf 15 [TRaise 47] [];
       TIf 7 [TIf 13 [TRaise 47] []; TAssignKs 1; TResumed] [TSelect; TAssignKs 0];
       TIf 19 [TRaise 47] [];
       TIf 1001 [TRaise 47] [];
       TIf 20 [TRaise 47] [];
       THash 0;
       TExtract 1;
       TKey 0 2 L_s_hs_traffic;
       TSet CLIENT_EXPECT_ENCRYPTED_EXTENSIONS]
  | T_client_handle_encrypted_extensions =>
      [TPull 1;
       TAlpn;
       TIf 25 [TAlpnCb] [];
       TKey 1 2 L_c_hs_traffic;
       THash 0;
       TIf 1 [TSet CLIENT_EXPECT_FINISHED] [TSet CLIENT_EXPECT_CERTIFICATE_REQUEST_OR_CERTIFICATE]]
  | T_client_handle_certificate_request =>
      [TPull 2;
       THash 0;
       TSet CLIENT_EXPECT_CERTIFICATE]
  | T_client_handle_certificate =>
      [TPull 3;
       THash 0;
       TIf 18 [TRaise 50] [];
       TIf 1001 [TRaise 42] [];
       TSet CLIENT_EXPECT_CERTIFICATE_VERIFY]
  | T_client_handle_certificate_verify =>
      [TPull 4;
       TIf 16 [TRaise 51] [];
       TIf 1001 [TRaise 42] [];
       TIf 17 [TRaise 47] [];
       TCvData 2;
       TVerify;
       TIf 1002 [TRaise 51] [];
       TIf 2 [TCheckCert] [];
       THash 0;
       TSet CLIENT_EXPECT_FINISHED]
  | T_client_handle_finished =>
      [TPull 5;
       TFinVD 0;
       TIf 10 [TRaise 51] [];
       THash 0;
       TAssertGen;
       TExtract 0;
       TKey 0 3 L_s_ap_traffic;
       TDerive L_c_ap_traffic;
       TIf 3 [TIf 26 [TNegotiate 8 14 (-1)] []; TPush 3; THash 1; TIf 22 [TCvData 1; TSign; TPush 4; THash 1] []] [];
       TFinVD 1;
       TPush 5;
       THash 1;
       TAssignKey 1;
       TKeyCb 1 3;
       TSet CLIENT_POST_HANDSHAKE]
  | T_client_handle_new_session_ticket =>
      [TPull 6;
       TIf 28 [TDerive L_res_master; TExpand L_resumption] []]
  | T_server_handle_hello =>
      [TPull 7;
       TNegotiate 1 2 (40);
       TNegotiate 4 5 (40);
       TNegotiate 6 7 (-1);
       TNegotiate 8 9 (40);
       TNegotiate 10 11 (70);
       TIf 21 [TNegotiate 12 13 (40); TAlpn] [];
       TIf 25 [TAlpnCb] [];
       TIf 24 [TIf 23 [TNewKs 0; TAssignKs 0; TExtract 2; TDerive L_res_binder; THash 2; TFinVD 2; TIf 12 [TRaise 40] []; THash 3; TResumed; TIf 8 [TDerive L_c_e_traffic; TKeyCb 0 1] []] []] [];
       TIf 6 [TNewKs 0; TAssignKs 0; TExtract 0; THash 0] [];
       TIf 1001 [TRaise 47] [];
       TIf 20 [TRaise 40] [];
       TPush 0;
       THash 1;
       TExtract 1;
       TKey 1 2 L_s_hs_traffic;
       TKey 0 2 L_c_hs_traffic;
       TPush 1;
       THash 1;
       TIf 6 [TIf 5 [TPush 2; THash 1] []; TPush 3; THash 1; TCvData 0; TSign; TPush 4; THash 1] [];
       TFinVD 1;
       TPush 5;
       THash 1;
       TAssertGen;
       TExtract 0;
       TKey 1 3 L_s_ap_traffic;
       TDerive L_c_ap_traffic;
       TIf 5 [TSet SERVER_EXPECT_CERTIFICATE] [TFinVD 0; TPush 5; THash 4; TIf 27 [TPush 6; TDerive L_res_master; TExpand L_resumption] []; TSet SERVER_EXPECT_FINISHED]]
  | T_server_handle_certificate =>
      [TPull 3;
       THash 0;
       TIf 4 [TIf 18 [TRaise 50] []; TIf 1001 [TRaise 42] []; TSet SERVER_EXPECT_CERTIFICATE_VERIFY] [TFinVD 0; TPush 5; THash 4; TIf 27 [TPush 6; TDerive L_res_master; TExpand L_resumption] []; TSet SERVER_EXPECT_FINISHED]]
  | T_server_handle_certificate_verify =>
      [TPull 4;
       TIf 16 [TRaise 51] [];
       TIf 1001 [TRaise 42] [];
       TIf 17 [TRaise 47] [];
       TCvData 2;
       TVerify;
       TIf 1002 [TRaise 51] [];
       THash 0;
       TFinVD 0;
       TPush 5;
       THash 4;
       TIf 27 [TPush 6; TDerive L_res_master; TExpand L_resumption] [];
       TSet SERVER_EXPECT_FINISHED]
  | T_server_handle_finished =>
      [TPull 5;
       TIf 11 [TRaise 51] [];
       TAssignKey 0;
       TKeyCb 0 3;
       TSet SERVER_POST_HANDSHAKE]
  end.

Lemma transcript_skeleton_as_modelled : forall h, transcript_skeleton h = modelled_skeleton h.
Proof. destruct h; reflexivity. Qed.

(* CIPHER_SUITES: suite -> hash, exactly the three suites *)
Lemma cipher_suite_table :
  map fst gen_cipher_suites = [0x1301; 0x1302; 0x1303] /\
  forall p, In p gen_cipher_suites -> suite_alg (fst p) = snd p.
Proof. split; [reflexivity |]. intros p H. simpl in H. intuition; subst; reflexivity. Qed.

(* SIGNATURE_ALGORITHMS padding classes + the EdDSA branches of _check_certificate_verify_signature *)
Lemma sig_kind_table : forall p, In p gen_sig_kinds -> sig_kind (fst p) = snd p.
Proof. intros p H. simpl in H. intuition; subst; reflexivity. Qed.

Lemma context_strings :
  gen_server_context_string = SERVER_CONTEXT_STRING /\ gen_client_context_string = CLIENT_CONTEXT_STRING.
Proof. split; reflexivity. Qed.

(* _parse_transport_parameters: the identity / version raise sites, in order, with their error codes:
   (6) a client sent a server-only parameter, (1) initial_source_connection_id, (2) original_destination_connection_id,
   (3) retry_source_connection_id, (4) server: chosen not in available, (5) chosen_version <> version in use *)
Lemma tp_checks_as_modelled :
  gen_tp_checks = [(6, QE_TRANSPORT_PARAMETER_ERROR); (1, QE_TRANSPORT_PARAMETER_ERROR); (2, QE_TRANSPORT_PARAMETER_ERROR);
                   (3, QE_TRANSPORT_PARAMETER_ERROR); (4, QE_TRANSPORT_PARAMETER_ERROR); (5, QE_VERSION_NEGOTIATION_ERROR)].
Proof. reflexivity. Qed.

Lemma versions_as_modelled : gen_version_1 = V1 /\ gen_version_2 = V2.
Proof. split; reflexivity. Qed.

Lemma generated_fragment_as_modelled_lemma :
  (forall h, transcript_skeleton h = modelled_skeleton h) /\
  (map fst gen_cipher_suites = [0x1301; 0x1302; 0x1303] /\ forall p, In p gen_cipher_suites -> suite_alg (fst p) = snd p) /\
  (forall p, In p gen_sig_kinds -> sig_kind (fst p) = snd p) /\
  (gen_server_context_string = SERVER_CONTEXT_STRING /\ gen_client_context_string = CLIENT_CONTEXT_STRING) /\
  gen_tp_checks = [(6, QE_TRANSPORT_PARAMETER_ERROR); (1, QE_TRANSPORT_PARAMETER_ERROR); (2, QE_TRANSPORT_PARAMETER_ERROR);
                   (3, QE_TRANSPORT_PARAMETER_ERROR); (4, QE_TRANSPORT_PARAMETER_ERROR); (5, QE_VERSION_NEGOTIATION_ERROR)] /\
  (gen_version_1 = V1 /\ gen_version_2 = V2).
Proof.
  exact (conj transcript_skeleton_as_modelled (conj cipher_suite_table (conj sig_kind_table
        (conj context_strings (conj tp_checks_as_modelled versions_as_modelled))))).
Qed.
