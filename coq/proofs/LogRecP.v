(* C20  Soundness of the record-automaton checker of model/LogRec.v: if `check` accepts a skeleton then, for
   EVERY decision sequence, the events of the wrun are accepted by the automaton, a wrun that falls through ends in
   the state the checker computed, and a wrun that leaves (return / continue / raise) does so in a state where
   that exit is allowed. *)
From Coq Require Import String.
From AQ Require Import lib.Base model.LogRec.
Open Scope string_scope.
Open Scope Z_scope.

Lemma q_eqb_eq : forall a b, q_eqb a b = true -> a = b.
Proof.
  intros [a1 a2] [b1 b2] H. unfold q_eqb in H. simpl in H. apply andb_true_iff in H. destruct H as [H1 H2].
  apply Z.eqb_eq in H1. apply String.eqb_eq in H2. subst. reflexivity.
Qed.

Lemma dfa_exec_app : forall D t1 t2 q,
  dfa_exec D q (t1 ++ t2) = match dfa_exec D q t1 with Some q1 => dfa_exec D q1 t2 | None => None end.
Proof.
  induction t1 as [|e t1 IH]; intros t2 q; simpl; [reflexivity|].
  destruct (delta D q e); [apply IH | reflexivity].
Qed.

Lemma all_some_In : forall (A B : Type) (f : A -> option B) (l : list A) (r : list B) (a : A),
  all_some (map f l) = Some r -> In a l -> exists b, f a = Some b /\ In b r.
Proof.
  induction l as [|x l IH]; intros r a H Hin; [contradiction|].
  simpl in H. destruct (f x) as [y|] eqn:E; [|discriminate].
  destruct (all_some (map f l)) as [r'|] eqn:E'; [|discriminate]. inversion H; subst.
  destruct Hin as [->|Hin].
  - exists y. split; [exact E|left; reflexivity].
  - destruct (IH _ _ eq_refl Hin) as (b & Hb & Hi). exists b. split; [exact Hb|right; exact Hi].
Qed.

Lemma q_in_In : forall q S, q_in q S = true -> In q S.
Proof.
  intros q S H. unfold q_in in H. apply existsb_exists in H. destruct H as (x & Hx & E).
  apply q_eqb_eq in E. subst. exact Hx.
Qed.

Definition wpost (D : dfa) (S' : list Q) (q' : Q) (o : outcome) : Prop :=
  match o with Fall => In q' S' | Exited k => accept D q' k = true end.

Theorem check_sound : forall D fuel s S S' q ds t ds' o,
  check D s S = Some S' -> In q S -> wrun fuel s ds = Some (t, ds', o) ->
  exists q', dfa_exec D q t = Some q' /\ wpost D S' q' o.
Proof.
  intros D. induction fuel as [|f IH]; intros s S S' q ds t ds' o Hc Hq Hr; [discriminate|].
  destruct s; simpl in Hr, Hc.
  - (* WSkip *) inversion Hr; subst. inversion Hc; subst. exists q. split; [reflexivity|exact Hq].
  - (* WEv *) inversion Hr; subst.
    destruct (all_some_In _ _ (fun q => delta D q e) _ _ _ Hc Hq) as (q1 & E & Hi).
    exists q1. simpl. rewrite E. split; [reflexivity|exact Hi].
  - (* WSeq *)
    destruct (check D s1 S) as [S1|] eqn:Hca; [|discriminate].
    destruct (wrun f s1 ds) as [[[t1 ds1] o1]|] eqn:E1; [|discriminate].
    destruct (IH _ _ _ _ _ _ _ _ Hca Hq E1) as (q1 & X1 & P1).
    destruct o1 as [|k].
    + simpl in P1.
      destruct (wrun f s2 ds1) as [[[t2 ds2] o2]|] eqn:E2; [|discriminate]. inversion Hr; subst.
      destruct (IH _ _ _ _ _ _ _ _ Hc P1 E2) as (q2 & X2 & P2).
      exists q2. rewrite dfa_exec_app, X1. split; assumption.
    + inversion Hr; subst. exists q1. split; [exact X1|exact P1].
  - (* WIf *)
    destruct (check D s1 S) as [x|] eqn:Ea; [|discriminate]. destruct (check D s2 S) as [y|] eqn:Eb; [|discriminate].
    inversion Hc; subst. destruct (next ds) as [d ds1]. destruct d.
    + destruct (IH _ _ _ _ _ _ _ _ Ea Hq Hr) as (q' & X & P). exists q'. split; [exact X|].
      destruct o; [|exact P]. simpl in *. apply in_or_app. left. exact P.
    + destruct (IH _ _ _ _ _ _ _ _ Eb Hq Hr) as (q' & X & P). exists q'. split; [exact X|].
      destruct o; [|exact P]. simpl in *. apply in_or_app. right. exact P.
  - (* WLoop *)
    destruct (check D s S) as [S1|] eqn:Hcb; [|discriminate].
    destruct (forallb (fun q => q_in q S) S1) eqn:Hin; [|discriminate]. inversion Hc; subst S'.
    destruct (next ds) as [d ds1]. destruct d.
    + destruct (wrun f s ds1) as [[[t1 ds2] o1]|] eqn:E1; [|discriminate].
      destruct (IH _ _ _ _ _ _ _ _ Hcb Hq E1) as (q1 & X1 & P1).
      destruct o1 as [|k].
      * simpl in P1. rewrite forallb_forall in Hin. pose proof (q_in_In _ _ (Hin _ P1)) as Hq1.
        destruct (wrun f (WLoop s) ds2) as [[[t2 ds3] o2]|] eqn:E2; [|discriminate]. inversion Hr; subst.
        assert (Hc' : check D (WLoop s) S = Some S).
        { simpl. rewrite Hcb. rewrite (proj2 (forallb_forall _ _) Hin). reflexivity. }
        destruct (IH (WLoop s) S S q1 _ _ _ _ Hc' Hq1 E2) as (q2 & X2 & P2).
        exists q2. rewrite dfa_exec_app, X1. split; assumption.
      * inversion Hr; subst. exists q1. split; [exact X1|exact P1].
    + inversion Hr; subst. exists q. split; [reflexivity|exact Hq].
  - (* WExit *) inversion Hr; subst. destruct (forallb (fun q => accept D q k) S) eqn:E; [|discriminate].
    inversion Hc; subst. exists q. split; [reflexivity|]. simpl. rewrite forallb_forall in E. apply E. exact Hq.
Qed.

(* a unit that passes unit_ok: every complete wrun is accepted and ends / leaves in an allowed state *)
Theorem unit_sound : forall D q0 s, unit_ok D q0 s = true ->
  forall fuel ds t ds' o, wrun fuel s ds = Some (t, ds', o) ->
  exists q', dfa_exec D q0 t = Some q' /\ accept D q' (match o with Fall => "end" | Exited k => k end) = true.
Proof.
  intros D q0 s H fuel ds t ds' o Hr. unfold unit_ok in H.
  destruct (check D s [q0]) as [S|] eqn:E; [|discriminate].
  destruct (check_sound _ _ _ _ _ q0 _ _ _ _ E (or_introl eq_refl) Hr) as (q' & X & P). exists q'. split; [exact X|].
  destruct o; simpl in P.
  - rewrite forallb_forall in H. apply H. exact P.
  - exact P.
Qed.

(* ---- what acceptance means for the writer automaton: as many frame records as frames, in the same order ------ *)
Lemma writer_trace : forall pairs t q q', dfa_exec (writer_dfa pairs) q t = Some q' -> fst q' = 0 ->
  (fst q = 0 -> count "frame" t = count "log" t) /\ (fst q = 1 -> count "frame" t + 1 = count "log" t).
Proof.
  intros pairs. induction t as [|e t IH]; intros q q' H Hq'.
  - simpl in H. inversion H; subst. split; intros Hq; [reflexivity | lia].
  - simpl in H. destruct (String.eqb (fst e) "frame") eqn:Ef.
    + destruct (fst q =? 0) eqn:E0; [|discriminate]. apply Z.eqb_eq in E0.
      destruct (IH _ _ H Hq') as [_ I1]. specialize (I1 eq_refl).
      assert (El : String.eqb (fst e) "log" = false).
      { apply String.eqb_eq in Ef. rewrite Ef. reflexivity. }
      split; intros Hq; [|lia]. unfold count in *. simpl. rewrite Ef, El. simpl length. rewrite <- I1.
      unfold Zlen. simpl length. lia.
    + destruct (String.eqb (fst e) "log") eqn:El; [|discriminate].
      destruct ((fst q =? 1) && kind_ok pairs (snd q) (snd e)) eqn:E1; [|discriminate].
      apply andb_true_iff in E1. destruct E1 as [E1 _]. apply Z.eqb_eq in E1.
      destruct (IH _ _ H Hq') as [I0 _]. specialize (I0 eq_refl).
      split; intros Hq; [lia|]. unfold count in *. simpl. rewrite Ef, El. unfold Zlen in *. simpl length. lia.
Qed.
