(* C14: a HEADERS frame that waits for the encoder stream, PRECEDED by other frames in the same delivery (and on a stream
   in any state a delivery can leave behind): either order of the stream's delivery and the encoder-stream delivery. *)
From AQ Require Import lib.Base lib.Tok model.H3Parse proofs.H3Chunk proofs.H3Split proofs.H3Loop proofs.H3Recv proofs.H3Fin
  proofs.H3Uni proofs.H3Table proofs.H3Push proofs.H3Hdr proofs.H3Conn proofs.H3Inter.
From Coq Require Import ZifyBool.

Section Pre.
Variable fx : fixes.
Hypothesis Htr : fx_trunc fx = true.
Hypothesis Hem : fx_endmark fx = true.
Hypothesis Hpb : fx_pushblock fx = true.

(* the delivery = pre ++ (HEADERS frame ++ rest).  [pre] is parsed completely, identically before and after the encoder
   data is known (its header blocks, if any, do not need that data), and leaves the stream between two frames. *)
Theorem hd_interleave_prefix : forall c0 sid es pre data block rest fin encdata encpayload OA OB O2 ePre s1,
  c_done c0 = false -> c_sent_end c0 = [] -> is_uni sid = false -> is_uni es = true ->
  stream_ok (fst (get_or_create c0 sid)) -> enc_ready c0 es encdata encpayload ->
  rq_recv fx OB (c_client c0) (fst (get_or_create c0 sid)) pre false = RVal ePre s1 ->
  rq_recv fx O2 (c_client c0) (fst (get_or_create c0 sid)) pre false = RVal ePre s1 ->
  hd_boundary s1 ->
  frame_at data 1 block rest ->
  o_enc OA encpayload = EUnblocked [] ->
  o_dec OB sid block = DBlocked ->
  o_enc O2 encpayload = EUnblocked [sid] -> o_resume O2 sid = o_dec O2 sid block -> o_dec O2 sid block <> DBlocked ->
  exists eB1 oB oA,
    run fx c0 [(QStream sid (pre ++ data) fin, OB); (QStream es encdata false, O2)] = [Events eB1; oB] /\
    run fx c0 [(QStream es encdata false, OA); (QStream sid (pre ++ data) fin, O2)] = [Events []; oA] /\
    norm eB1 = norm ePre /\
    match hd_decoded fx O2 (c_client c0) s1 fin rest (o_dec O2 sid block) with
    | RVal eRes _ => oB = Events eRes /\ exists eA, oA = Events eA /\ norm eA = norm (ePre ++ eRes)
    | RErr k => oB = Closed k /\ oA = Closed k
    | RExn k => oB = Raised k /\ oA = Raised k
    end.
Proof.
  intros c0 sid es pre data block rest fin encdata encpayload OA OB O2 ePre s1
         Hd Hs Hus Hue Hok Henc HpB Hp2 Hb1 Hfr HoA HoB Ho2 Hres Hnb.
  assert (Hne : sid <> es) by (intros ->; congruence).
  set (s0 := fst (get_or_create c0 sid)) in *.
  assert (Id0 : s_id s0 = sid) by apply goc_id.
  assert (Id1 : s_id s1 = sid) by (rewrite (rq_recv_id fx OB _ _ _ _ _ _ HpB); exact Id0).
  set (cl := c_client c0) in *.
  set (R := hd_decoded fx O2 cl s1 fin rest (o_dec O2 sid block)).
  (* the stream's parser on the whole delivery, before and after the encoder data *)
  pose proof (two_chunks fx OB cl Htr Hem s0 pre data fin Hok) as TB. rewrite HpB in TB. cbn [rbind] in TB.
  rewrite (hd_recv fx Htr Hem Hpb OB cl s1 data block rest fin Hb1 Hfr) in TB. rewrite Id1, HoB in TB. cbn [prepend] in TB.
  pose proof (two_chunks fx O2 cl Htr Hem s0 pre data fin Hok) as T2. rewrite Hp2 in T2. cbn [rbind] in T2.
  rewrite (hd_recv fx Htr Hem Hpb O2 cl s1 data block rest fin Hb1 Hfr) in T2. rewrite Id1 in T2.
  assert (T2' : requiv (rq_recv fx O2 cl s0 (pre ++ data) fin) (prepend ePre R)).
  { subst R. destruct (o_dec O2 sid block); try exact T2. exfalso. apply Hnb. reflexivity. }
  clear T2.
  set (sB := set_buf (set_btype (set_blocked (hd_state s1 fin) true) (Some 1)) rest) in *.
  destruct (rq_recv fx OB cl s0 (pre ++ data) fin) as [eB1 sB'| |] eqn:EB; cbn [requiv] in TB; try tauto.
  destruct TB as (NB & ->).
  exists eB1.
  (* ---- stream first *)
  assert (HB : exists oB, run fx c0 [(QStream sid (pre ++ data) fin, OB); (QStream es encdata false, O2)] = [Events eB1; oB] /\
                 oB = to_hout R).
  { cbn [run]. rewrite (he_stream fx OB c0 sid (pre ++ data) fin Hd). unfold receive_stream_data.
    rewrite (recv_bidi fx OB c0 sid (pre ++ data) fin Hus). fold s0 cl. rewrite EB. cbn [to_rsd].
    assert (HsB : s_id sB = sid) by (subst sB; destruct s1; cbn in *; assumption).
    assert (HbB : s_blocked sB = true) by (subst sB; destruct s1; reflexivity).
    set (cg := snd (get_or_create c0 sid)).
    set (cB := set_streams cg (put_stream sB (c_streams cg))).
    assert (FB : find_stream sid (c_streams cB) = Some sB).
    { subst cB. cbn [c_streams set_streams]. rewrite <- HsB. apply find_put_same. }
    pose proof (goc_fields c0 sid) as (K1 & _ & K3 & _ & _ & _ & K7 & _). cbv zeta in K1, K3, K7. fold cg in K1, K3, K7.
    rewrite (pop_not_ended cB sid sB FB (is_ended_blocked _ _ HbB)).
    assert (DB : c_done cB = false) by (subst cB; cbn [c_done set_streams]; congruence).
    rewrite (he_stream fx O2 cB es encdata false DB). unfold receive_stream_data.
    assert (HencB : enc_ready cB es encdata encpayload).
    { apply (enc_ready_ext c0); [| subst cB; cbn [c_qenc set_streams]; congruence | assumption].
      subst cB. transitivity (find_stream es (c_streams cg)).
      - cbn [c_streams set_streams]. apply find_put_other. lia.
      - subst cg. apply goc_find_other. lia. }
    destruct (enc_step fx Htr Hem Hpb O2 cB es encdata encpayload [sid] Hue HencB Ho2) as (c1 & E1 & C1 & D1 & SE1 & F1 & (se' & G1 & G2)).
    rewrite E1.
    assert (CC : c_client c1 = cl) by (rewrite C1; subst cB cl; cbn [c_client set_streams]; congruence).
    assert (FF : find_stream (s_id s1) (c_streams c1) = Some sB) by (rewrite Id1, F1 by assumption; assumption).
    replace (unblock fx O2 c1 [sid] []) with (unblock fx O2 c1 [s_id s1] []) by (rewrite Id1; reflexivity).
    rewrite (hd_unblock fx Htr Hem Hpb O2 c1 s1 rest fin Hb1 FF). rewrite Id1, Hres, CC. fold R.
    eexists. split; [|reflexivity]. destruct R; reflexivity. }
  (* ---- encoder stream first *)
  assert (HA : exists oA, run fx c0 [(QStream es encdata false, OA); (QStream sid (pre ++ data) fin, O2)] = [Events []; oA] /\
                 oA = to_hout (rq_recv fx O2 cl s0 (pre ++ data) fin)).
  { cbn [run]. rewrite (he_stream fx OA c0 es encdata false Hd). unfold receive_stream_data.
    destruct (enc_step fx Htr Hem Hpb OA c0 es encdata encpayload [] Hue Henc HoA) as (c1 & E1 & C1 & D1 & SE1 & F1 & (se' & G1 & G2)).
    rewrite E1. cbn [unblock].
    rewrite (pop_not_ended c1 es se' G1 (is_ended_open _ _ G2)).
    rewrite (he_stream fx O2 c1 sid (pre ++ data) fin) by congruence. unfold receive_stream_data.
    rewrite (recv_bidi fx O2 c1 sid (pre ++ data) fin Hus).
    rewrite (goc_fst_ext c0 c1 sid) by (apply F1; assumption). fold s0. rewrite C1. fold cl.
    eexists. split; [|reflexivity].
    destruct (rq_recv fx O2 cl s0 (pre ++ data) fin); reflexivity. }
  destruct HB as (oB & RB & EoB). destruct HA as (oA & RA & EoA).
  exists oB, oA. split; [exact RB|]. split; [exact RA|]. split; [rewrite NB, norm_app; cbn [norm flat_map]; apply app_nil_r|].
  fold R. subst oB oA.
  destruct R as [eRes sR|k|k]; cbn [prepend to_hout] in *.
  - split; [reflexivity|].
    destruct (rq_recv fx O2 cl s0 (pre ++ data) fin) as [eA sA| |]; cbn [requiv to_hout] in *; try tauto.
    exists eA. split; [reflexivity|]. apply T2'.
  - destruct (rq_recv fx O2 cl s0 (pre ++ data) fin) as [eA sA| |]; cbn [requiv to_hout] in *; try tauto.
    split; congruence.
  - destruct (rq_recv fx O2 cl s0 (pre ++ data) fin) as [eA sA| |]; cbn [requiv to_hout] in *; try tauto.
    split; congruence.
Qed.

End Pre.
