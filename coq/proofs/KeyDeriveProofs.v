(* Proofs about coq/model/KeyDerive.v (HKDF labels and the key derivation of crypto.py). *)
From Coq Require Import String Ascii.
From AQ Require Import lib.Base lib.Tok gen.C02Keys model.Protect model.KeyDerive.
Local Open Scope Z_scope.

(* ------------------------------------------------------------------ the constants are the RFC's *)
Definition ascii_bytes (s : string) : list Z := map (fun c => Z.of_N (N_of_ascii c)) (list_ascii_of_string s).

(* Everything tools/gen/c02_keys.py read from the current source, compared with the value in the RFCs written out here.
   RFC 8446 7.1 (HkdfLabel, "tls13 "); RFC 9001 5.1 ("quic key", "quic iv", "quic hp"), 5.2 (initial_salt, "client in",
   "server in", AEAD_AES_128_GCM + SHA-256 for Initial packets), 5.3 (iv length 12), 5.8 (Retry key and nonce), 6.1 ("quic ku");
   RFC 9369 3.1 (version 0x6b3343cf), 3.3.1 (salt), 3.3.2 ("quicv2 key/iv/hp/ku"), 3.3.3 (Retry key and nonce);
   RFC 8446 B.4 (cipher suite code points and their hashes); RFC 9001 5.3 / RFC 8446: key length 16 for AES-128, 32 otherwise. *)
Definition constants_rfc : Prop :=
  HL_PREFIX = ascii_bytes "tls13 " /\
  (DK_V1_KEY_LABEL, DK_V1_IV_LABEL, DK_V1_HP_LABEL, KU_V1_LABEL)
    = (ascii_bytes "quic key", ascii_bytes "quic iv", ascii_bytes "quic hp", ascii_bytes "quic ku") /\
  (DK_V2_KEY_LABEL, DK_V2_IV_LABEL, DK_V2_HP_LABEL, KU_V2_LABEL)
    = (ascii_bytes "quicv2 key", ascii_bytes "quicv2 iv", ascii_bytes "quicv2 hp", ascii_bytes "quicv2 ku") /\
  (DK_V1_KEY_CTX, DK_V1_IV_CTX, DK_V1_HP_CTX, DK_V2_KEY_CTX, DK_V2_IV_CTX, DK_V2_HP_CTX, KU_CTX, IN_RECV_CTX, IN_SEND_CTX)
    = ([], [], [], [], [], [], [], [], []) /\
  (DK_V1_IV_LEN, DK_V2_IV_LEN, DK_KEY_SIZE_LISTED, DK_KEY_SIZE_OTHER) = (12, 12, 32, 16) /\
  (IN_CLIENT_SEND_LABEL, IN_CLIENT_RECV_LABEL, IN_SERVER_SEND_LABEL, IN_SERVER_RECV_LABEL)
    = (ascii_bytes "client in", ascii_bytes "server in", ascii_bytes "server in", ascii_bytes "client in") /\
  INITIAL_SALT_VERSION_1 = [0x38;0x76;0x2c;0xf7;0xf5;0x59;0x34;0xb3;0x4d;0x17;0x9a;0xe6;0xa4;0xc8;0x0c;0xad;0xcc;0xbb;0x7f;0x0a] /\
  INITIAL_SALT_VERSION_2 = [0x0d;0xed;0xe3;0xde;0xf7;0x00;0xa6;0xdb;0x81;0x93;0x81;0xbe;0x6e;0x26;0x9d;0xcb;0xf9;0xbd;0x2e;0xd9] /\
  RETRY_AEAD_KEY_VERSION_1 = [0xbe;0x0c;0x69;0x0b;0x9f;0x66;0x57;0x5a;0x1d;0x76;0x6b;0x54;0xe3;0x68;0xc8;0x4e] /\
  RETRY_AEAD_NONCE_VERSION_1 = [0x46;0x15;0x99;0xd3;0x5d;0x63;0x2b;0xf2;0x23;0x98;0x25;0xbb] /\
  RETRY_AEAD_KEY_VERSION_2 = [0x8f;0xb4;0xb0;0x1b;0x56;0xac;0x48;0xe2;0x60;0xfb;0xcb;0xce;0xad;0x7c;0xcc;0x92] /\
  RETRY_AEAD_NONCE_VERSION_2 = [0xd8;0x69;0x69;0xbc;0x2d;0x7c;0x6d;0x99;0x90;0xef;0xb0;0x4a] /\
  (RETRY_INTEGRITY_TAG_SIZE, RT_CAP_EXTRA, RT_PLAINTEXT) = (16, 1, []) /\
  (QUIC_VERSION_1, QUIC_VERSION_2) = (0x00000001, 0x6b3343cf) /\
  (CS_AES_128_GCM_SHA256, CS_AES_256_GCM_SHA384, CS_CHACHA20_POLY1305_SHA256, INITIAL_CIPHER_SUITE) = (0x1301, 0x1302, 0x1303, 0x1301) /\
  CIPHER_SUITE_HASHES = [(0x1301, (256, 32)); (0x1302, (384, 48)); (0x1303, (256, 32))].

Lemma constants_are_rfc_lemma : constants_rfc.
Proof. unfold constants_rfc. repeat split; reflexivity. Qed.

(* ------------------------------------------------------------------ list helpers *)
Lemma app_eq_len : forall {A} (a b x y : list A), length a = length b -> a ++ x = b ++ y -> a = b /\ x = y.
Proof.
  induction a as [|u a IH]; intros [|v b] x y L E; cbn in *; try discriminate; [auto|].
  injection E as -> E. destruct (IH b x y ltac:(lia) E) as [-> ->]. auto.
Qed.

Lemma Zlen_app : forall {A} (a b : list A), Zlen (a ++ b) = Zlen a + Zlen b.
Proof. intros. unfold Zlen. rewrite app_length. lia. Qed.

Lemma Zlen_nonneg : forall {A} (a : list A), 0 <= Zlen a.
Proof. intros. unfold Zlen. lia. Qed.

Lemma Zlen_ztake : forall {A} n (l : list A), 0 <= n <= Zlen l -> Zlen (ztake n l) = n.
Proof. intros A n l H. unfold Zlen, ztake in *. rewrite firstn_length. lia. Qed.

Lemma ztake_all : forall {A} n (l : list A), Zlen l <= n -> ztake n l = l.
Proof. intros A n l H. unfold Zlen, ztake in *. apply firstn_all2. lia. Qed.

(* ------------------------------------------------------------------ hkdf_label is injective *)
(* (label, context, length) |-> HkdfLabel bytes: wherever struct.pack does not raise, the three arguments can be read back.
   Distinct labels, contexts or lengths therefore never give the same HKDF info. *)
Lemma hkdf_label_injective_lemma : forall l1 c1 n1 l2 c2 n2 info,
  hkdf_label l1 c1 n1 = Some info -> hkdf_label l2 c2 n2 = Some info -> l1 = l2 /\ c1 = c2 /\ n1 = n2.
Proof.
  intros l1 c1 n1 l2 c2 n2 info H1 H2. unfold hkdf_label in *.
  remember HL_PREFIX as pre eqn:Hpre. clear Hpre.
  destruct ((0 <=? n1) && (n1 <=? 65535) && (Zlen (pre ++ l1) <=? 255) && (Zlen c1 <=? 255)) eqn:G1; [|discriminate].
  destruct ((0 <=? n2) && (n2 <=? 65535) && (Zlen (pre ++ l2) <=? 255) && (Zlen c2 <=? 255)) eqn:G2; [|discriminate].
  rewrite <- H2 in H1. injection H1 as Hd Hm Hl Hr.
  assert (n1 = n2) by (rewrite (Z.div_mod n1 256), (Z.div_mod n2 256) by lia; congruence).
  assert (L : length (pre ++ l1) = length (pre ++ l2)) by (unfold Zlen in Hl; lia).
  destruct (app_eq_len _ _ _ _ L Hr) as [Hp Hc]. apply app_inv_head in Hp. injection Hc as _ Hc. auto.
Qed.

(* the domain the statement is about, in the terms of the task: labels shorter than 250 bytes, context at most 255 bytes,
   length a uint16 -- there hkdf_label does not raise *)
Lemma hkdf_label_defined : forall l c n, Zlen l < 250 -> Zlen c <= 255 -> 0 <= n <= 65535 -> exists info, hkdf_label l c n = Some info.
Proof.
  intros l c n Hl Hc Hn. unfold hkdf_label.
  assert (Zlen (HL_PREFIX ++ l) <= 255) by (rewrite Zlen_app; change (Zlen HL_PREFIX) with 6; lia).
  destruct ((0 <=? n) && (n <=? 65535) && (Zlen (HL_PREFIX ++ l) <=? 255) && (Zlen c <=? 255)) eqn:G; [eauto|].
  exfalso. rewrite !Bool.andb_false_iff in G. rewrite !Z.leb_gt in G. lia.
Qed.

(* ------------------------------------------------------------------ one HMAC block *)
Section WithHmac.
  Variable hmac : Z -> list Z -> list Z -> list Z.

  (* every use in crypto.py asks for at most digest_size bytes: OKM = the first `length` bytes of HMAC(secret, info | 0x01) *)
  Lemma hkdf_expand_single : forall h dsz prk info n, 0 < n <= dsz ->
    hkdf_expand hmac (h, dsz) prk info n = Some (ztake n (hmac h prk (info ++ [1]))).
  Proof.
    intros h dsz prk info n Hn. unfold hkdf_expand.
    destruct (n >? 255 * dsz) eqn:G; [lia|].
    replace ((n + dsz - 1) / dsz) with 1 by (apply Z.div_unique with (r := n - 1); lia).
    change (Z.to_nat 1) with 1%nat. cbn [expand_blocks]. rewrite app_nil_r. reflexivity.
  Qed.

  Lemma expand_label_single : forall a secret label ctx n o, 0 < n <= snd a ->
    hkdf_expand_label hmac a secret label ctx n = Ok o ->
    exists info, hkdf_label label ctx n = Some info /\ o = ztake n (hmac (fst a) secret (info ++ [1])).
  Proof.
    intros [h dsz] secret label ctx n o Hn H. unfold hkdf_expand_label in H. cbn [fst snd] in *.
    destruct (hkdf_label label ctx n) as [info|]; [|discriminate].
    rewrite hkdf_expand_single in H by assumption. injection H as <-. eauto.
  Qed.

  Lemma expand_label_defined : forall a secret label ctx n, Zlen label < 250 -> Zlen ctx <= 255 -> 0 < n <= snd a -> snd a <= 65535 ->
    exists o, hkdf_expand_label hmac a secret label ctx n = Ok o.
  Proof.
    intros [h dsz] secret label ctx n Hl Hc Hn Hd. cbn [snd] in *. unfold hkdf_expand_label.
    destruct (hkdf_label_defined label ctx n Hl Hc ltac:(lia)) as [info ->].
    rewrite hkdf_expand_single by assumption. eauto.
  Qed.

  (* ---------------------------------------------------------------- the idealised HMAC *)
  (* H-HMAC: HMAC (also truncated, but to no less than 96 bits -- the shortest value derived is the 12-byte IV) has no
     collisions between keys of equal length: equal outputs => same hash, same key, same message.  (Keys of different
     length are excluded because HMAC zero-pads short keys.)  The real probability of a collision is about 2^-96 per pair
     of queries, not 0; this is the same idealisation as H-AEAD. *)
  Definition hmac_ideal : Prop := forall h1 k1 m1 h2 k2 m2 n, 12 <= n -> Zlen k1 = Zlen k2 ->
    ztake n (hmac h1 k1 m1) = ztake n (hmac h2 k2 m2) -> h1 = h2 /\ k1 = k2 /\ m1 = m2.
  (* the digest has the length the algorithm object announces *)
  Definition hmac_len : Prop := forall cs a k m, cipher_suite_hash cs = Some a -> Zlen (hmac (fst a) k m) = snd a.

  Hypothesis Hideal : hmac_ideal.
  Hypothesis Hlen : hmac_len.

  Lemma expand_label_len : forall cs a secret label ctx n o, cipher_suite_hash cs = Some a -> 0 < n <= snd a ->
    hkdf_expand_label hmac a secret label ctx n = Ok o -> Zlen o = n.
  Proof.
    intros cs a secret label ctx n o Hcs Hn H. destruct (expand_label_single _ _ _ _ _ _ Hn H) as (info & _ & ->).
    apply Zlen_ztake. rewrite (Hlen cs a) by assumption. lia.
  Qed.

  (* equal derived bytes => same hash, same secret, same label, same context, same length *)
  Lemma expand_label_injective : forall cs1 a1 s1 l1 c1 n1 cs2 a2 s2 l2 c2 n2 o,
    cipher_suite_hash cs1 = Some a1 -> cipher_suite_hash cs2 = Some a2 ->
    12 <= n1 <= snd a1 -> 12 <= n2 <= snd a2 -> Zlen s1 = Zlen s2 ->
    hkdf_expand_label hmac a1 s1 l1 c1 n1 = Ok o -> hkdf_expand_label hmac a2 s2 l2 c2 n2 = Ok o ->
    fst a1 = fst a2 /\ s1 = s2 /\ l1 = l2 /\ c1 = c2 /\ n1 = n2.
  Proof.
    intros cs1 a1 s1 l1 c1 n1 cs2 a2 s2 l2 c2 n2 o Hc1 Hc2 Hn1 Hn2 Hs H1 H2.
    assert (B1 : 0 < n1 <= snd a1) by lia. assert (B2 : 0 < n2 <= snd a2) by lia.
    pose proof (expand_label_len _ _ _ _ _ _ _ Hc1 B1 H1) as L1.
    pose proof (expand_label_len _ _ _ _ _ _ _ Hc2 B2 H2) as L2.
    assert (Hn : n2 = n1) by lia. clear L1 L2. subst n2.
    destruct (expand_label_single _ _ _ _ _ _ B1 H1) as (i1 & I1 & E1).
    destruct (expand_label_single _ _ _ _ _ _ B2 H2) as (i2 & I2 & E2).
    rewrite E1 in E2. destruct (Hideal _ _ _ _ _ _ n1 ltac:(lia) Hs E2) as (Hh & Hk & Hm).
    apply app_inj_tail in Hm. destruct Hm as [Hm _]. subst i2.
    destruct (hkdf_label_injective_lemma _ _ _ _ _ _ _ I1 I2) as (? & ? & ?). auto.
  Qed.

  (* ---------------------------------------------------------------- what is derived from a secret, by purpose *)
  Inductive purpose := PKey | PIv | PHp | PKu.

  Definition is_v2 (version : Z) : bool := version =? QUIC_VERSION_2.

  Definition purpose_label (version : Z) (p : purpose) : list Z :=
    match p, is_v2 version with
    | PKey, true => DK_V2_KEY_LABEL | PIv, true => DK_V2_IV_LABEL | PHp, true => DK_V2_HP_LABEL | PKu, true => KU_V2_LABEL
    | PKey, false => DK_V1_KEY_LABEL | PIv, false => DK_V1_IV_LABEL | PHp, false => DK_V1_HP_LABEL | PKu, false => KU_V1_LABEL
    end.
  Definition purpose_len (cs : Z) (a : alg) (p : purpose) : Z :=
    match p with PKey | PHp => key_size cs | PIv => 12 | PKu => snd a end.

  Definition derive (cs version : Z) (secret : list Z) (p : purpose) : Res (list Z) :=
    match cipher_suite_hash cs with
    | None => Err E_KEY
    | Some a => hkdf_expand_label hmac a secret (purpose_label version p) [] (purpose_len cs a p)
    end.

  (* derive_key_iv_hp and next_secret are exactly these four derivations *)
  Lemma derive_key_iv_hp_components : forall cs secret version,
    derive_key_iv_hp hmac cs secret version =
      (k <- derive cs version secret PKey ;; i <- derive cs version secret PIv ;; h <- derive cs version secret PHp ;; Ok (k, i, h)).
  Proof.
    intros. unfold derive_key_iv_hp, derive, purpose_label, purpose_len, is_v2.
    destruct (cipher_suite_hash cs); [|reflexivity]. destruct (version =? QUIC_VERSION_2); reflexivity.
  Qed.

  Lemma next_secret_is_derive : forall cs secret version, next_secret hmac cs secret version = derive cs version secret PKu.
  Proof.
    intros. unfold next_secret, derive, purpose_label, purpose_len, is_v2.
    destruct (cipher_suite_hash cs); [|reflexivity]. destruct (version =? QUIC_VERSION_2); reflexivity.
  Qed.

  (* the three suites the table knows, with the sizes that matter *)
  Lemma suite_cases : forall cs a, cipher_suite_hash cs = Some a ->
    (cs = CS_AES_128_GCM_SHA256 /\ a = (256, 32) /\ key_size cs = 16) \/
    (cs = CS_AES_256_GCM_SHA384 /\ a = (384, 48) /\ key_size cs = 32) \/
    (cs = CS_CHACHA20_POLY1305_SHA256 /\ a = (256, 32) /\ key_size cs = 32).
  Proof.
    intros cs a H. unfold cipher_suite_hash, CIPHER_SUITE_HASHES, assoc in H.
    destruct (cs =? 4865) eqn:E1; [apply Z.eqb_eq in E1; subst; injection H as <-; left; repeat split; reflexivity|].
    destruct (cs =? 4866) eqn:E2; [apply Z.eqb_eq in E2; subst; injection H as <-; right; left; repeat split; reflexivity|].
    destruct (cs =? 4867) eqn:E3; [apply Z.eqb_eq in E3; subst; injection H as <-; right; right; repeat split; reflexivity|].
    discriminate.
  Qed.

  Lemma purpose_len_bounds : forall cs a p, cipher_suite_hash cs = Some a -> 12 <= purpose_len cs a p <= snd a.
  Proof.
    intros cs a p H. destruct (suite_cases cs a H) as [(-> & -> & K) | [(-> & -> & K) | (-> & -> & K)]];
      destruct p; unfold purpose_len; rewrite ?K; cbn [snd]; lia.
  Qed.

  Lemma purpose_label_injective : forall v1 p1 v2 p2, purpose_label v1 p1 = purpose_label v2 p2 -> p1 = p2 /\ is_v2 v1 = is_v2 v2.
  Proof.
    intros v1 p1 v2 p2. unfold purpose_label. destruct (is_v2 v1), (is_v2 v2), p1, p2; intro H; try (split; reflexivity);
      exfalso; vm_compute in H; discriminate.
  Qed.

  (* key, iv, hp and the next secret, of either version, are pairwise separated: two derivations give the same bytes only
     if they are the same derivation -- same secret, same purpose, same version family (v2 / not v2), same hash and length *)
  Lemma derived_secrets_separated_lemma : forall cs1 v1 s1 p1 cs2 v2 s2 p2 o, Zlen s1 = Zlen s2 ->
    derive cs1 v1 s1 p1 = Ok o -> derive cs2 v2 s2 p2 = Ok o ->
    s1 = s2 /\ p1 = p2 /\ is_v2 v1 = is_v2 v2 /\ cipher_suite_hash cs1 = cipher_suite_hash cs2.
  Proof.
    intros cs1 v1 s1 p1 cs2 v2 s2 p2 o Hs H1 H2. unfold derive in *.
    destruct (cipher_suite_hash cs1) as [a1|] eqn:C1; [|discriminate].
    destruct (cipher_suite_hash cs2) as [a2|] eqn:C2; [|discriminate].
    destruct (expand_label_injective _ _ _ _ _ _ _ _ _ _ _ _ _ C1 C2 (purpose_len_bounds _ _ p1 C1) (purpose_len_bounds _ _ p2 C2) Hs H1 H2)
      as (Hh & -> & Hl & _ & _).
    destruct (purpose_label_injective _ _ _ _ Hl) as [-> Hv]. repeat split; try assumption.
    destruct (suite_cases _ _ C1) as [(_ & -> & _) | [(_ & -> & _) | (_ & -> & _)]];
      destruct (suite_cases _ _ C2) as [(_ & -> & _) | [(_ & -> & _) | (_ & -> & _)]]; cbn [fst] in Hh; try discriminate; reflexivity.
  Qed.

  (* in particular within ONE context: key, iv, hp and the next secret are four different byte strings *)
  Lemma one_context_separated : forall cs v s p1 p2 o, derive cs v s p1 = Ok o -> derive cs v s p2 = Ok o -> p1 = p2.
  Proof. intros cs v s p1 p2 o H1 H2. exact (proj1 (proj2 (derived_secrets_separated_lemma _ _ _ _ _ _ _ _ _ eq_refl H1 H2))). Qed.

  Lemma derive_len : forall cs v s p o, derive cs v s p = Ok o -> exists a, cipher_suite_hash cs = Some a /\ Zlen o = purpose_len cs a p.
  Proof.
    intros cs v s p o H. unfold derive in H. destruct (cipher_suite_hash cs) as [a|] eqn:C; [|discriminate].
    exists a. split; [reflexivity|]. pose proof (purpose_len_bounds cs a p C). eapply expand_label_len; eauto. lia.
  Qed.

  (* ---------------------------------------------------------------- Initial keys *)
  Definition role_label (is_client_label : bool) : list Z := if is_client_label then IN_CLIENT_SEND_LABEL else IN_SERVER_SEND_LABEL.
  Definition initial_salt (version : Z) : list Z := if is_v2 version then INITIAL_SALT_VERSION_2 else INITIAL_SALT_VERSION_1.
  (* the secret labelled "client in" (true) / "server in" (false) for a Destination Connection ID and a version *)
  Definition initial_secret_for (cid : list Z) (version : Z) (client_label : bool) : Res (list Z) :=
    hkdf_expand_label hmac (256, 32) (hmac 256 (initial_salt version) cid) (role_label client_label) [] 32.

  (* setup_initial: recv/send are set up from the "server in"/"client in" secrets (client) or the other way round (server) *)
  Lemma setup_initial_secrets : forall cid is_client version r s, setup_initial hmac cid is_client version = Ok (r, s) ->
    initial_secret_for cid version (negb is_client) = Ok (m_secret r) /\ initial_secret_for cid version is_client = Ok (m_secret s) /\
    ctx_setup hmac INITIAL_CIPHER_SUITE (m_secret r) version = Ok r /\ ctx_setup hmac INITIAL_CIPHER_SUITE (m_secret s) version = Ok s.
  Proof.
    intros cid is_client version r s H. unfold setup_initial in H.
    change (cipher_suite_hash INITIAL_CIPHER_SUITE) with (Some (256, 32)) in H.
    change IN_RECV_CTX with (@nil Z) in H. change IN_SEND_CTX with (@nil Z) in H.
    unfold initial_secret_for, initial_salt, is_v2, role_label, hkdf_extract in *. cbn [fst snd] in *.
    assert (sec : forall cs x v m, ctx_setup hmac cs x v = Ok m -> m_secret m = x).
    { intros cs x v m E. unfold ctx_setup in E. destruct (derive_key_iv_hp hmac cs x v) as [[[? ?] ?]|]; [injection E as <-; reflexivity | discriminate]. }
    destruct is_client; cbv beta iota zeta in H; cbn [negb];
      match type of H with bind ?x _ = _ => destruct x as [rs|] eqn:R; cbn [bind] in H; [|discriminate] end;
      match type of H with bind ?x _ = _ => destruct x as [r0|] eqn:CR; cbn [bind] in H; [|discriminate] end;
      match type of H with bind ?x _ = _ => destruct x as [ss|] eqn:S; cbn [bind] in H; [|discriminate] end;
      match type of H with bind ?x _ = _ => destruct x as [s0|] eqn:CS; cbn [bind] in H; [|discriminate] end;
      injection H as <- <-; rewrite (sec _ _ _ _ CR), (sec _ _ _ _ CS); auto.
  Qed.

  Lemma salts_differ : INITIAL_SALT_VERSION_1 <> INITIAL_SALT_VERSION_2.
  Proof. vm_compute. discriminate. Qed.
  Lemma role_labels_differ : IN_CLIENT_SEND_LABEL <> IN_SERVER_SEND_LABEL.
  Proof. vm_compute. discriminate. Qed.

  (* the Initial secrets are a function of (DCID, version family, client/server label) and of nothing less: two of them
     coincide only if all three coincide *)
  Lemma initial_secret_injective : forall cid1 v1 c1 cid2 v2 c2 o,
    initial_secret_for cid1 v1 c1 = Ok o -> initial_secret_for cid2 v2 c2 = Ok o -> cid1 = cid2 /\ is_v2 v1 = is_v2 v2 /\ c1 = c2.
  Proof.
    intros cid1 v1 c1 cid2 v2 c2 o H1 H2. unfold initial_secret_for in *.
    assert (C : cipher_suite_hash CS_AES_128_GCM_SHA256 = Some (256, 32)) by reflexivity.
    assert (L : forall k m, Zlen (hmac 256 k m) = 32) by (intros; exact (Hlen _ _ k m C)).
    assert (B : 12 <= 32 <= snd (256, 32)) by (cbn; lia).
    assert (LL : Zlen (hmac 256 (initial_salt v1) cid1) = Zlen (hmac 256 (initial_salt v2) cid2)) by (rewrite !L; reflexivity).
    destruct (expand_label_injective _ _ _ _ _ _ _ _ _ _ _ _ _ C C B B LL H1 H2) as (_ & Hx & Hl & _).
    assert (Hx' : ztake 32 (hmac 256 (initial_salt v1) cid1) = ztake 32 (hmac 256 (initial_salt v2) cid2))
      by (rewrite !ztake_all by (rewrite L; lia); exact Hx).
    assert (SL : Zlen (initial_salt v1) = Zlen (initial_salt v2)) by (unfold initial_salt; destruct (is_v2 v1), (is_v2 v2); reflexivity).
    destruct (Hideal _ _ _ _ _ _ 32 ltac:(lia) SL Hx') as (_ & Hsalt & Hcid).
    split; [exact Hcid|]. split.
    - unfold initial_salt in Hsalt. destruct (is_v2 v1), (is_v2 v2); try reflexivity; exfalso; [symmetry in Hsalt|]; exact (salts_differ Hsalt).
    - unfold role_label in Hl. destruct c1, c2; try reflexivity; exfalso; [|symmetry in Hl]; exact (role_labels_differ Hl).
  Qed.

  (* crypto.py level: whatever two setup_initial calls share -- a send secret, a send AEAD key, iv or hp key -- they were
     made for the same DCID, the same version family and the same role; and one side's send keys are the other side's
     receive keys only for the same DCID and version family and OPPOSITE roles *)
  Lemma ctx_setup_derive : forall cs s v m, ctx_setup hmac cs s v = Ok m ->
    derive cs v s PKey = Ok (m_key m) /\ derive cs v s PIv = Ok (m_iv m) /\ derive cs v s PHp = Ok (m_hp m) /\ m_secret m = s /\
    m_cs m = cs /\ m_version m = v.
  Proof.
    intros cs s v m H. unfold ctx_setup in H. rewrite derive_key_iv_hp_components in H.
    destruct (derive cs v s PKey) as [k|]; [|discriminate]. destruct (derive cs v s PIv) as [i|]; [|discriminate].
    destruct (derive cs v s PHp) as [h|]; [|discriminate]. cbn in H. injection H as <-. cbn. auto 7.
  Qed.

  Definition mat_of (m : kmat) (p : purpose) : list Z := match p with PKey => m_key m | PIv => m_iv m | PHp => m_hp m | PKu => m_secret m end.

  Lemma initial_secret_len : forall cid v c o, initial_secret_for cid v c = Ok o -> Zlen o = 32.
  Proof.
    intros cid v c o H. unfold initial_secret_for in H.
    assert (B : 0 < 32 <= snd (256, 32)) by (cbn; lia).
    exact (expand_label_len CS_AES_128_GCM_SHA256 _ _ _ _ _ _ eq_refl B H).
  Qed.

  Lemma initial_keys_depend_lemma : forall cid1 c1 v1 r1 s1 cid2 c2 v2 r2 s2 p,
    setup_initial hmac cid1 c1 v1 = Ok (r1, s1) -> setup_initial hmac cid2 c2 v2 = Ok (r2, s2) ->
    (mat_of s1 p = mat_of s2 p -> cid1 = cid2 /\ is_v2 v1 = is_v2 v2 /\ c1 = c2) /\
    (mat_of s1 p = mat_of r2 p -> cid1 = cid2 /\ is_v2 v1 = is_v2 v2 /\ c1 = negb c2).
  Proof.
    intros cid1 c1 v1 r1 s1 cid2 c2 v2 r2 s2 p H1 H2.
    destruct (setup_initial_secrets _ _ _ _ _ H1) as (R1 & S1 & CR1 & CS1).
    destruct (setup_initial_secrets _ _ _ _ _ H2) as (R2 & S2 & CR2 & CS2).
    pose proof (initial_secret_len _ _ _ _ S1) as LS1. pose proof (initial_secret_len _ _ _ _ S2) as LS2.
    pose proof (initial_secret_len _ _ _ _ R2) as LR2.
    destruct (ctx_setup_derive _ _ _ _ CS1) as (K1 & I1 & P1 & _). destruct (ctx_setup_derive _ _ _ _ CS2) as (K2 & I2 & P2 & _).
    destruct (ctx_setup_derive _ _ _ _ CR2) as (K3 & I3 & P3 & _).
    assert (LSS : Zlen (m_secret s1) = Zlen (m_secret s2)) by lia.
    assert (LSR : Zlen (m_secret s1) = Zlen (m_secret r2)) by lia.
    assert (secrets_ss : mat_of s1 p = mat_of s2 p -> m_secret s1 = m_secret s2).
    { destruct p; cbn [mat_of]; intro E; try exact E;
        [rewrite E in K1; exact (proj1 (derived_secrets_separated_lemma _ _ _ _ _ _ _ _ _ LSS K1 K2))
        |rewrite E in I1; exact (proj1 (derived_secrets_separated_lemma _ _ _ _ _ _ _ _ _ LSS I1 I2))
        |rewrite E in P1; exact (proj1 (derived_secrets_separated_lemma _ _ _ _ _ _ _ _ _ LSS P1 P2))]. }
    assert (secrets_sr : mat_of s1 p = mat_of r2 p -> m_secret s1 = m_secret r2).
    { destruct p; cbn [mat_of]; intro E; try exact E;
        [rewrite E in K1; exact (proj1 (derived_secrets_separated_lemma _ _ _ _ _ _ _ _ _ LSR K1 K3))
        |rewrite E in I1; exact (proj1 (derived_secrets_separated_lemma _ _ _ _ _ _ _ _ _ LSR I1 I3))
        |rewrite E in P1; exact (proj1 (derived_secrets_separated_lemma _ _ _ _ _ _ _ _ _ LSR P1 P3))]. }
    split; intro E.
    - apply secrets_ss in E. rewrite E in S1. exact (initial_secret_injective _ _ _ _ _ _ _ S1 S2).
    - apply secrets_sr in E. rewrite E in S1. exact (initial_secret_injective _ _ _ _ _ _ _ S1 R2).
  Qed.

  (* ---------------------------------------------------------------- the key-update chain *)
  (* n local/remote key updates of a context (next_key_phase + apply_key_phase, n times): the secret is secret_at n, the AEAD key
     and iv are derived from it, the header protection key is still the first one *)
  Lemma updates_chain : forall n m m', updates hmac n m = Ok m' ->
    secret_at hmac (m_cs m) (m_version m) (m_secret m) n = Ok (m_secret m') /\
    m_cs m' = m_cs m /\ m_version m' = m_version m /\ m_hp m' = m_hp m /\
    (n <> O -> derive (m_cs m) (m_version m) (m_secret m') PKey = Ok (m_key m') /\
               derive (m_cs m) (m_version m) (m_secret m') PIv = Ok (m_iv m')).
  Proof.
    assert (shift : forall n cs v s, secret_at hmac cs v s (S n) = (s1 <- next_secret hmac cs s v ;; secret_at hmac cs v s1 n)).
    { induction n as [|n IH]; intros cs v s.
      - cbn [secret_at bind]. destruct (next_secret hmac cs s v); reflexivity.
      - change (secret_at hmac cs v s (S (S n))) with (x <- secret_at hmac cs v s (S n) ;; next_secret hmac cs x v).
        rewrite IH. destruct (next_secret hmac cs s v) as [s1|]; [|reflexivity]. cbn [bind]. reflexivity. }
    induction n as [|n IH]; intros m m' H.
    - cbn in H. injection H as <-. cbn [secret_at]. repeat split; auto; congruence.
    - cbn [updates] in H. unfold next_key_phase in H.
      destruct (next_secret hmac (m_cs m) (m_secret m) (m_version m)) as [s1|] eqn:N; [|discriminate]. cbn [bind] in H.
      destruct (ctx_setup hmac (m_cs m) s1 (m_version m)) as [nx|] eqn:CS; [|discriminate]. cbn [bind] in H.
      destruct (ctx_setup_derive _ _ _ _ CS) as (K & I & _ & Hs & _ & _).
      specialize (IH _ _ H). cbn [apply_key_phase m_cs m_version m_secret m_hp m_key m_iv] in IH.
      destruct IH as (IH1 & IH2 & IH3 & IH4 & IH5).
      rewrite shift, N. cbn [bind]. rewrite Hs in IH1.
      split; [exact IH1|]. split; [exact IH2|]. split; [exact IH3|]. split; [exact IH4|].
      intros _. destruct n as [|n'].
      + cbn in H. injection H as <-. cbn [apply_key_phase m_secret m_key m_iv]. rewrite Hs. auto.
      + apply IH5. discriminate.
  Qed.

  Lemma secret_at_len : forall cs a v s0 n s, cipher_suite_hash cs = Some a -> Zlen s0 = snd a ->
    secret_at hmac cs v s0 n = Ok s -> Zlen s = snd a.
  Proof.
    intros cs a v s0 n s C L0. destruct n as [|n]; cbn [secret_at]; intro H; [injection H as <-; exact L0|].
    destruct (secret_at hmac cs v s0 n) as [s'|]; [|discriminate]. cbn [bind] in H.
    rewrite next_secret_is_derive in H. destruct (derive_len _ _ _ _ _ H) as (a' & C' & L). rewrite C in C'. injection C' as <-. exact L.
  Qed.

  (* generation n+1 is a function of generation n only, and the function is injective: equal next secrets => equal secrets *)
  Lemma next_secret_injective : forall cs v s1 s2 o, Zlen s1 = Zlen s2 ->
    next_secret hmac cs s1 v = Ok o -> next_secret hmac cs s2 v = Ok o -> s1 = s2.
  Proof.
    intros cs v s1 s2 o L H1 H2. rewrite next_secret_is_derive in *.
    exact (proj1 (derived_secrets_separated_lemma _ _ _ _ _ _ _ _ _ L H1 H2)).
  Qed.

  (* if the chain never comes back to its starting secret, no two generations share a secret *)
  Lemma key_chain_no_repeat : forall cs a v s0, cipher_suite_hash cs = Some a -> Zlen s0 = snd a ->
    (forall n, n <> O -> secret_at hmac cs v s0 n <> Ok s0) ->
    forall i j s, secret_at hmac cs v s0 i = Ok s -> secret_at hmac cs v s0 j = Ok s -> i = j.
  Proof.
    intros cs a v s0 C L0 Hfresh.
    assert (main : forall i d s, secret_at hmac cs v s0 i = Ok s -> secret_at hmac cs v s0 (i + d) = Ok s -> d = O).
    { induction i as [|i IH]; intros d s Hi Hj.
      - cbn in Hi. injection Hi as <-. destruct d; [reflexivity|]. exfalso. exact (Hfresh (S d) ltac:(discriminate) Hj).
      - change (S i + d)%nat with (S (i + d)) in Hj. cbn [secret_at] in Hi, Hj.
        destruct (secret_at hmac cs v s0 i) as [si|] eqn:Si; [|discriminate].
        destruct (secret_at hmac cs v s0 (i + d)) as [sj|] eqn:Sj; [|discriminate]. cbn [bind] in Hi, Hj.
        assert (si = sj).
        { eapply next_secret_injective; [|exact Hi|exact Hj].
          rewrite (secret_at_len _ _ _ _ _ _ C L0 Si), (secret_at_len _ _ _ _ _ _ C L0 Sj). reflexivity. }
        subst sj. exact (IH d si eq_refl Sj). }
    intros i j s Hi Hj. destruct (Nat.le_ge_cases i j) as [Le|Le].
    - replace j with (i + (j - i))%nat in Hj by lia. pose proof (main _ _ _ Hi Hj). lia.
    - replace i with (j + (i - j))%nat in Hi by lia. pose proof (main _ _ _ Hj Hi). lia.
  Qed.
End WithHmac.

(* ------------------------------------------------------------------ Retry *)
Lemma retry_keys_by_version : forall v,
  retry_key_nonce v = if v =? 0x6b3343cf then (RETRY_AEAD_KEY_VERSION_2, RETRY_AEAD_NONCE_VERSION_2)
                      else (RETRY_AEAD_KEY_VERSION_1, RETRY_AEAD_NONCE_VERSION_1).
Proof. reflexivity. Qed.

Lemma retry_keys_differ : forall v1 v2, (v1 =? QUIC_VERSION_2) <> (v2 =? QUIC_VERSION_2) ->
  fst (retry_key_nonce v1) <> fst (retry_key_nonce v2) /\ snd (retry_key_nonce v1) <> snd (retry_key_nonce v2).
Proof.
  intros v1 v2 H. unfold retry_key_nonce. destruct (v1 =? QUIC_VERSION_2), (v2 =? QUIC_VERSION_2); try congruence;
    cbn [fst snd]; split; vm_compute; discriminate.
Qed.

(* ------------------------------------------------------------------ the hypotheses are satisfiable *)
(* A collision-free "HMAC" over Z-valued bytes: every output byte is a Goedel number of (hash, key length, key, message);
   the digest has the announced length.  It satisfies hmac_ideal and hmac_len, so the theorems above are not vacuous.
   (No function into 32 REAL bytes is collision free; the hypotheses idealise, as H-AEAD does.) *)
Definition zn (z : Z) : Z := if 0 <=? z then 2 * z else - 2 * z - 1.
Fixpoint code (l : list Z) : Z := match l with [] => 0 | x :: t => 2 ^ (zn x) * (2 * code t + 1) end.
Definition toy_hmac (h : Z) (k m : list Z) : list Z :=
  repeat (code (h :: Zlen k :: k ++ m)) (Z.to_nat (if h =? 384 then 48 else 32)).

Lemma zn_nonneg : forall z, 0 <= zn z.
Proof. intro z. unfold zn. destruct (0 <=? z) eqn:E; [apply Z.leb_le in E | apply Z.leb_gt in E]; lia. Qed.

Lemma zn_inj : forall x y, zn x = zn y -> x = y.
Proof.
  intros x y. unfold zn. destruct (0 <=? x) eqn:E1; destruct (0 <=? y) eqn:E2;
    try apply Z.leb_le in E1; try apply Z.leb_gt in E1; try apply Z.leb_le in E2; try apply Z.leb_gt in E2; lia.
Qed.

Lemma code_nonneg : forall l, 0 <= code l.
Proof.
  induction l as [|x t IH]; cbn [code]; [lia|]. apply Z.mul_nonneg_nonneg; [|lia].
  apply Z.pow_nonneg. lia.
Qed.

Lemma code_cons_pos : forall x t, 0 < code (x :: t).
Proof.
  intros x t. cbn [code]. pose proof (code_nonneg t). apply Z.mul_pos_pos; [|lia].
  apply Z.pow_pos_nonneg; [lia | apply zn_nonneg].
Qed.

Lemma pow2_odd_unique : forall a, 0 <= a -> forall c b d, 0 <= c -> 0 <= b -> 0 <= d ->
  2 ^ a * (2 * b + 1) = 2 ^ c * (2 * d + 1) -> a = c /\ b = d.
Proof.
  intros a Ha. pattern a. apply natlike_ind; [| |exact Ha]; clear a Ha.
  - intros c b d Hc Hb Hd H. rewrite Z.pow_0_r in H.
    assert (c = 0 \/ 0 < c) as [-> | Hpos] by lia.
    + rewrite Z.pow_0_r in H. lia.
    + exfalso. replace c with (Z.succ (c - 1)) in H by lia. rewrite Z.pow_succ_r in H by lia.
      remember (2 ^ (c - 1) * (2 * d + 1)) as q. assert (2 * b + 1 = 2 * q) by (subst q; lia). lia.
  - intros a Ha IH c b d Hc Hb Hd H. rewrite Z.pow_succ_r in H by lia.
    assert (c = 0 \/ 0 < c) as [-> | Hpos] by lia.
    + exfalso. rewrite Z.pow_0_r in H. remember (2 ^ a * (2 * b + 1)) as q. assert (2 * q = 2 * d + 1) by (subst q; lia). lia.
    + replace c with (Z.succ (c - 1)) in H by lia. rewrite Z.pow_succ_r in H by lia.
      destruct (IH (c - 1) b d ltac:(lia) Hb Hd) as [E1 E2]; [lia|]. split; lia.
Qed.

Lemma code_inj : forall l1 l2, code l1 = code l2 -> l1 = l2.
Proof.
  induction l1 as [|x t IH]; intros [|y u] H.
  - reflexivity.
  - exfalso. pose proof (code_cons_pos y u). change (code []) with 0 in H. lia.
  - exfalso. pose proof (code_cons_pos x t). change (code []) with 0 in H. lia.
  - cbn [code] in H. destruct (pow2_odd_unique _ (zn_nonneg x) _ _ _ (zn_nonneg y) (code_nonneg t) (code_nonneg u) H) as [E1 E2].
    apply zn_inj in E1. apply IH in E2. congruence.
Qed.

Lemma toy_head : forall n c d, 1 <= n -> (1 <= d)%nat -> nth 0 (ztake n (repeat c d)) 0 = c.
Proof.
  intros n c d Hn Hd. unfold ztake. destruct (Z.to_nat n) as [|n'] eqn:E; [lia|]. destruct d as [|d']; [lia|]. reflexivity.
Qed.

Lemma toy_dsz_pos : forall h : Z, (1 <= Z.to_nat (if (h =? 384)%Z then 48%Z else 32%Z))%nat.
Proof. intro h. destruct (h =? 384); [change (Z.to_nat 48) with 48%nat | change (Z.to_nat 32) with 32%nat]; lia. Qed.

Example toy_hmac_ideal : hmac_ideal toy_hmac.
Proof.
  intros h1 k1 m1 h2 k2 m2 n Hn Hk H. apply (f_equal (fun l => nth 0 l 0)) in H. unfold toy_hmac in H.
  assert (Hn1 : 1 <= n) by lia.
  rewrite (toy_head n _ _ Hn1 (toy_dsz_pos h1)), (toy_head n _ _ Hn1 (toy_dsz_pos h2)) in H.
  apply code_inj in H. injection H as -> _ H. assert (L : length k1 = length k2) by (unfold Zlen in Hk; lia).
  destruct (app_eq_len _ _ _ _ L H) as [-> ->]. auto.
Qed.

Example toy_hmac_len : hmac_len toy_hmac.
Proof.
  intros cs a k m H. destruct (suite_cases cs a H) as [(_ & -> & _) | [(_ & -> & _) | (_ & -> & _)]];
    unfold toy_hmac, Zlen; rewrite repeat_length; reflexivity.
Qed.

(* every secret derived with the toy HMAC starts with a positive byte *)
Lemma toy_next_secret_head : forall cs s v o, next_secret toy_hmac cs s v = Ok o -> 0 < nth 0 o 0.
Proof.
  intros cs s v o H. unfold next_secret in H. destruct (cipher_suite_hash cs) as [a|] eqn:C; [|discriminate].
  assert (B : 0 < snd a <= snd a) by (destruct (suite_cases cs a C) as [(_ & -> & _) | [(_ & -> & _) | (_ & -> & _)]]; cbn; lia).
  destruct (expand_label_single toy_hmac _ _ _ _ _ _ B H) as (info & _ & ->). unfold toy_hmac.
  rewrite toy_head; [apply code_cons_pos | lia | apply toy_dsz_pos].
Qed.

(* so the chain started from the all-zero secret never comes back to it *)
Example toy_chain_fresh : forall cs v dsz n, n <> O -> 1 <= dsz -> secret_at toy_hmac cs v (zeros dsz) n <> Ok (zeros dsz).
Proof.
  intros cs v dsz n Hn Hd E. destruct n as [|n]; [contradiction|]. cbn [secret_at] in E.
  destruct (secret_at toy_hmac cs v (zeros dsz) n) as [s|]; [|discriminate]. cbn [bind] in E.
  apply toy_next_secret_head in E. unfold zeros in E. destruct (Z.to_nat dsz) eqn:D; [lia|]. cbn in E. lia.
Qed.
