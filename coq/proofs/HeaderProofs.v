(* Proofs about model/Header.v: pull_quic_header inverts the builder's header layout,
   encode_quic_retry and encode_quic_version_negotiation; it is total (header | BufferReadError |
   ValueError) and every field it returns is nested inside the datagram. *)
From AQ Require Import lib.Base model.Codec model.Varint model.Header
  proofs.CodecProofs proofs.VarintProofs.
From Coq Require Import ZifyBool.

(* ---- first byte: finite domains, by computation ------------------------------------------- *)
Lemma small_cases_4 t : 0 <= t < 4 -> t = 0 \/ t = 1 \/ t = 2 \/ t = 3.
Proof. lia. Qed.

Lemma small_cases_16 b : 0 <= b < 16 ->
  b = 0 \/ b = 1 \/ b = 2 \/ b = 3 \/ b = 4 \/ b = 5 \/ b = 6 \/ b = 7 \/
  b = 8 \/ b = 9 \/ b = 10 \/ b = 11 \/ b = 12 \/ b = 13 \/ b = 14 \/ b = 15.
Proof. lia. Qed.

Lemma long_first_byte t bits : 0 <= t < 4 -> 0 <= bits < 16 ->
  let f := Z.lor (Z.lor (Z.lor 128 64) (Z.shiftl t 4)) bits in
  0 <= f < 256 /\ is_long_header f = true /\ has_fixed_bit f = true /\ Z.shiftr (Z.land f 48) 4 = t.
Proof.
  intros Ht Hb.
  destruct (small_cases_4 t Ht) as [->|[->|[->| ->]]];
    destruct (small_cases_16 bits Hb) as [->|[->|[->|[->|[->|[->|[->|[->|[->|[->|[->|[->|[->|[->|[->| ->]]]]]]]]]]]]]]];
    vm_compute; repeat split; congruence.
Qed.

Lemma type_code_roundtrip version ptype : 0 <= ptype <= 3 ->
  exists t, encode_long_type version ptype = Ok t /\ 0 <= t < 4 /\ decode_long_type version t = ptype.
Proof.
  intros H. assert (ptype = 0 \/ ptype = 1 \/ ptype = 2 \/ ptype = 3) as [->|[->|[->| ->]]] by lia;
    unfold encode_long_type, decode_long_type; destruct (version =? VERSION_2);
    eexists; (split; [reflexivity|]); (split; [vm_compute; split; congruence | reflexivity]).
Qed.

Lemma vn_first_byte r : 0 <= r < 256 -> 0 <= Z.lor r 128 < 256 /\ is_long_header (Z.lor r 128) = true.
Proof.
  intros H. unfold is_long_header.
  assert (B : Z.land (Z.lor r 128) 128 = 128).
  { rewrite Z.land_lor_distr_l. change (Z.land 128 128) with 128.
    apply Z.bits_inj'. intros n Hn. rewrite Z.lor_spec, Z.land_spec.
    change 128 with (2 ^ 7). rewrite Z.pow2_bits_eqb by lia.
    destruct (7 =? n) eqn:E; [now rewrite andb_true_r, orb_true_r | now rewrite andb_false_r]. }
  split; [|rewrite B; reflexivity].
  split.
  - apply Z.lor_nonneg. lia.
  - assert (Z.lor r 128 < 2 ^ 8); [|lia].
    destruct (Z.eq_dec (Z.lor r 128) 0) as [->|NZ]; [lia|].
    apply Z.log2_lt_pow2; [pose proof (proj2 (Z.lor_nonneg r 128) ltac:(lia)); lia|].
    rewrite Z.log2_lor by lia. apply Z.max_lub_lt; [|reflexivity].
    destruct (Z.eq_dec r 0) as [->|Hr]; [reflexivity|]. apply Z.log2_lt_pow2; lia.
Qed.

Lemma short_first_byte spin kp : (spin = 0 \/ spin = 1) -> (kp = 0 \/ kp = 1) ->
  let f := Z.lor (Z.lor (Z.lor 64 (Z.shiftl spin 5)) (Z.shiftl kp 2)) 1 in
  0 <= f < 256 /\ is_long_header f = false /\ has_fixed_bit f = true.
Proof. intros [-> | ->] [-> | ->]; vm_compute; repeat split; congruence. Qed.

(* ---- length | 0x4000 and pn & 0xFFFF -------------------------------------------------------- *)
Lemma land_pow2_small a n : 0 <= n -> 0 <= a < 2 ^ n -> Z.land a (2 ^ n) = 0.
Proof.
  intros Hn Ha. apply Z.bits_inj'. intros m Hm.
  rewrite Z.land_spec, Z.bits_0, Z.pow2_bits_eqb by lia.
  destruct (n =? m) eqn:E; [|apply andb_false_r].
  assert (n = m) by lia. subst m. rewrite andb_true_r.
  apply Z.testbit_false; [lia|]. rewrite Z.div_small by lia. reflexivity.
Qed.

Lemma lor_pow2_small a n : 0 <= n -> 0 <= a < 2 ^ n -> Z.lor a (2 ^ n) = a + 2 ^ n.
Proof.
  intros Hn Ha. pose proof (land_pow2_small a n Hn Ha) as L.
  rewrite <- Z.lxor_lor by exact L. symmetry. apply Z.add_nocarry_lxor. exact L.
Qed.

Lemma length_field_is_varint len : 0 <= len < 16384 ->
  be_enc 2 (Z.lor len 16384) = with_prefix 64 (be_enc 2 len).
Proof.
  intros H. change 16384 with (2 ^ 14). rewrite lor_pow2_small by lia.
  cbn [be_enc with_prefix]. change (256 ^ Z.of_nat 1) with 256. change (256 ^ Z.of_nat 0) with 1.
  change (2 ^ 14) with (64 * 256).
  rewrite !Z.div_1_r. f_equal; [|f_equal]; Z.to_euclidean_division_equations; lia.
Qed.

Lemma pn_mask pn : Z.land pn 65535 = pn mod 2 ^ 16.
Proof. change 65535 with (Z.ones 16). apply Z.land_ones. lia. Qed.

(* ---- primitives on concatenations ------------------------------------------------------------ *)
Lemma pull_uint8_enc v rest : 0 <= v < 256 -> pull_uint8 (be_enc 1 v ++ rest) = Ok (v, rest).
Proof. intros. apply (pull_be_roundtrip 1). exact H. Qed.

Lemma pull_uint32_enc v rest : 0 <= v < 2 ^ 32 -> pull_uint32 (be_enc 4 v ++ rest) = Ok (v, rest).
Proof. intros. apply (pull_be_roundtrip 4). exact H. Qed.

Lemma pull_bytes_app a rest : pull_bytes (Zlen a) (a ++ rest) = Ok (a, rest).
Proof.
  unfold pull_bytes. rewrite Zlen_app. pose proof (Zlen_nonneg a). pose proof (Zlen_nonneg rest).
  destruct ((Zlen a <? 0) || (Zlen a + Zlen rest <? Zlen a)) eqn:E; [lia|].
  unfold ztake, zdrop, Zlen. rewrite Nat2Z.id, firstn_app_exact, skipn_app_exact. reflexivity.
Qed.

Lemma pull_bytes_all n a : n = Zlen a -> pull_bytes n a = Ok (a, []).
Proof. intros ->. rewrite <- (app_nil_r a) at 2. apply pull_bytes_app. Qed.

Definition u32_ok (v : Z) : Prop := 0 <= v < 2 ^ 32.

Lemma pull_versions_enc vs : Forall u32_ok vs ->
  exists bytes, flatten (map push_uint32 vs) = Ok bytes /\ pull_versions bytes = Ok vs.
Proof.
  induction 1 as [|v t Hv _ (bt & F & P)].
  - exists []. split; reflexivity.
  - exists (be_enc 4 v ++ bt). split.
    + cbn [map flatten]. unfold push_uint32 at 1. cbn [flatten]. rewrite F. reflexivity.
    + cbn [be_enc app pull_versions]. rewrite P. cbn [bind].
      change [_; _; _; _] with (be_enc 4 v). rewrite be_dec_enc.
      change (256 ^ Z.of_nat 4) with (2 ^ 32). unfold u32_ok in Hv. rewrite Z.mod_small by lia. reflexivity.
Qed.

(* the common prefix of every long header: first byte, version, DCID, SCID *)
Lemma pull_long_prefix f version dcid scid rest :
  0 <= f < 256 -> 0 <= version < 2 ^ 32 -> Zlen dcid <= 20 -> Zlen scid <= 20 ->
  let bs := be_enc 1 f ++ be_enc 4 version ++ be_enc 1 (Zlen dcid) ++ dcid ++ be_enc 1 (Zlen scid) ++ scid ++ rest in
  (pull_uint8 bs = Ok (f, be_enc 4 version ++ be_enc 1 (Zlen dcid) ++ dcid ++ be_enc 1 (Zlen scid) ++ scid ++ rest)) /\
  (pull_uint32 (be_enc 4 version ++ be_enc 1 (Zlen dcid) ++ dcid ++ be_enc 1 (Zlen scid) ++ scid ++ rest)
     = Ok (version, be_enc 1 (Zlen dcid) ++ dcid ++ be_enc 1 (Zlen scid) ++ scid ++ rest)) /\
  (pull_uint8 (be_enc 1 (Zlen dcid) ++ dcid ++ be_enc 1 (Zlen scid) ++ scid ++ rest)
     = Ok (Zlen dcid, dcid ++ be_enc 1 (Zlen scid) ++ scid ++ rest)) /\
  (pull_uint8 (be_enc 1 (Zlen scid) ++ scid ++ rest) = Ok (Zlen scid, scid ++ rest)).
Proof.
  intros Hf Hv Hd Hs bs. pose proof (Zlen_nonneg dcid). pose proof (Zlen_nonneg scid).
  repeat split; [apply pull_uint8_enc|apply pull_uint32_enc|apply pull_uint8_enc|apply pull_uint8_enc]; lia.
Qed.

Ltac long_prefix Hf Hv Hd Hs dcid scid rest :=
  let P1 := fresh in let P2 := fresh in let P3 := fresh in let P4 := fresh in
  destruct (pull_long_prefix _ _ _ _ rest Hf Hv Hd Hs) as (P1 & P2 & P3 & P4);
  unfold pull_quic_header; rewrite P1; cbn [bind]; rewrite P2; cbn [bind]; rewrite P3; cbn [bind];
  (destruct (Zlen dcid >? CONNECTION_ID_MAX_SIZE) eqn:?; [unfold CONNECTION_ID_MAX_SIZE in *; lia|]);
  rewrite pull_bytes_app; cbn [bind]; rewrite P4; cbn [bind];
  (destruct (Zlen scid >? CONNECTION_ID_MAX_SIZE) eqn:?; [unfold CONNECTION_ID_MAX_SIZE in *; lia|]);
  rewrite pull_bytes_app; cbn [bind].

(* ---- Retry ----------------------------------------------------------------------------------- *)
Theorem retry_roundtrip hcl version scid dcid token unused tag :
  0 < version < 2 ^ 32 -> Zlen dcid <= 20 -> Zlen scid <= 20 -> 0 <= unused < 16 -> Zlen tag = 16 ->
  exists bytes, flatten (encode_quic_retry version scid dcid token unused tag) = Ok bytes /\
    pull_quic_header hcl bytes =
      Ok (mkHeader (Some version) PT_RETRY (Zlen bytes) dcid scid token tag [], []).
Proof.
  intros Hv Hd Hs Hu Ht.
  destruct (type_code_roundtrip version PT_RETRY ltac:(unfold PT_RETRY; lia)) as (t & Et & Rt & Dt).
  destruct (long_first_byte t unused Rt Hu) as (Hf & L & F & T).
  unfold encode_quic_retry, encode_long_header_first_byte. rewrite Et. cbn [bind lift_first].
  eexists. split; [reflexivity|].
  set (f := Z.lor (Z.lor (Z.lor 128 64) (Z.shiftl t 4)) unused) in *.
  cbn [app]. rewrite app_nil_r.
  assert (Hv' : 0 <= version < 2 ^ 32) by lia.
  match goal with |- pull_quic_header _ ?b = _ => set (bytes := b) end.
  assert (Hb : bytes = be_enc 1 f ++ be_enc 4 version ++ be_enc 1 (Zlen dcid) ++ dcid ++ be_enc 1 (Zlen scid) ++ scid ++ token ++ tag) by reflexivity.
  rewrite Hb at 1.
  long_prefix Hf Hv' Hd Hs dcid scid (token ++ tag).
  rewrite L. destruct (version =? 0) eqn:E0; [lia|]. rewrite F. cbn [negb]. rewrite T, Dt.
  cbn [PT_RETRY PT_INITIAL PT_ZERO_RTT PT_HANDSHAKE Z.eqb Pos.eqb orb].
  unfold RETRY_INTEGRITY_TAG_SIZE. rewrite (Zlen_app token tag), Ht.
  replace (Zlen token + 16 - 16) with (Zlen token) by lia.
  rewrite pull_bytes_app. cbn [bind]. rewrite (pull_bytes_all 16 tag) by lia. cbn [bind].
  unfold finish_long. change (Zlen (@nil Z)) with 0. cbn [Z.gtb Z.compare]. rewrite Hb. repeat f_equal; lia.
Qed.

(* ---- Version Negotiation --------------------------------------------------------------------- *)
Theorem vn_roundtrip hcl r scid dcid versions :
  0 <= r < 256 -> Zlen dcid <= 20 -> Zlen scid <= 20 -> Forall u32_ok versions ->
  exists bytes, flatten (encode_quic_version_negotiation r scid dcid versions) = Ok bytes /\
    pull_quic_header hcl bytes =
      Ok (mkHeader (Some 0) PT_VERSION_NEGOTIATION (Zlen bytes) dcid scid [] [] versions, []).
Proof.
  intros Hr Hd Hs Hvs.
  destruct (vn_first_byte r Hr) as (Hf & L).
  destruct (pull_versions_enc versions Hvs) as (vb & Fv & Pv).
  unfold encode_quic_version_negotiation.
  exists (be_enc 1 (Z.lor r 128) ++ be_enc 4 0 ++ be_enc 1 (Zlen dcid) ++ dcid ++ be_enc 1 (Zlen scid) ++ scid ++ vb).
  split.
  - cbn [app]. unfold push_uint8, push_uint32 at 1, push_bytes. cbn [flatten]. rewrite Fv. cbn [bind]. reflexivity.
  - match goal with |- pull_quic_header _ ?b = _ => set (bytes := b) end.
    assert (Hb : bytes = be_enc 1 (Z.lor r 128) ++ be_enc 4 0 ++ be_enc 1 (Zlen dcid) ++ dcid ++ be_enc 1 (Zlen scid) ++ scid ++ vb) by reflexivity.
    rewrite Hb at 1.
    assert (H0 : 0 <= 0 < 2 ^ 32) by lia.
    long_prefix Hf H0 Hd Hs dcid scid vb.
    rewrite L. cbn [Z.eqb]. rewrite Pv. reflexivity.
Qed.

(* ---- the builder's long header (Initial / 0-RTT / Handshake) ------------------------------------ *)
Theorem builder_long_roundtrip hcl version ptype pcid hcid token len pn :
  0 < version < 2 ^ 32 -> 0 <= ptype <= 2 -> Zlen pcid <= 20 -> Zlen hcid <= 20 ->
  Zlen token < 2 ^ 62 -> 0 <= len < 16384 ->
  exists h0 pnb, flatten (builder_long_header version ptype pcid hcid token len pn) = Ok (h0 ++ pnb) /\
    Zlen pnb = 2 /\
    forall after, len <= Zlen (pnb ++ after) ->
      pull_quic_header hcl (h0 ++ pnb ++ after) =
        Ok (mkHeader (Some version) ptype (Zlen h0 + len) pcid hcid
                     (if ptype =? PT_INITIAL then token else []) [] [], pnb ++ after).
Proof.
  intros Hv Hp Hd Hs Htok Hlen.
  destruct (type_code_roundtrip version ptype ltac:(lia)) as (t & Et & Rt & Dt).
  destruct (long_first_byte t 1 Rt ltac:(lia)) as (Hf & L & F & T).
  set (f := Z.lor (Z.lor (Z.lor 128 64) (Z.shiftl t 4)) 1) in *.
  assert (Hv' : 0 <= version < 2 ^ 32) by lia.
  pose proof (Zlen_nonneg token) as Htn.
  destruct (varint_roundtrip (Zlen token) [] ltac:(lia)) as (tb & Etb & _).
  assert (Hlv : 0 <= len < 2 ^ 62) by lia.
  assert (LenEnc : forall rest, pull_uint_var (be_enc 2 (Z.lor len 16384) ++ rest) = Ok (len, rest)).
  { intros rest. rewrite length_field_is_varint by lia.
    apply (pull_var_prefixed 1 1); try reflexivity; try lia; (change (256 ^ Z.of_nat 1) with 256; lia). }
  unfold builder_long_header, encode_long_header_first_byte. rewrite Et. cbn [bind lift_first].
  destruct (ptype =? PT_INITIAL) eqn:EI.
  - (* INITIAL: token present *)
    exists (be_enc 1 f ++ be_enc 4 version ++ be_enc 1 (Zlen pcid) ++ pcid ++ be_enc 1 (Zlen hcid) ++ hcid ++
            tb ++ token ++ be_enc 2 (Z.lor len 16384)), (be_enc 2 (Z.land pn 65535)).
    split; [|split; [apply be_enc_Zlen|]].
    + cbn [app]. unfold push_uint8, push_uint32, push_uint16, push_bytes. rewrite Etb. cbn [flatten bind].
      rewrite app_nil_r, <- !app_assoc. reflexivity.
    + intros after Hafter. rewrite <- !app_assoc.
      set (total := Zlen (be_enc 1 f ++ be_enc 4 version ++ be_enc 1 (Zlen pcid) ++ pcid ++ be_enc 1 (Zlen hcid) ++ hcid ++
                          tb ++ token ++ be_enc 2 (Z.lor len 16384) ++ be_enc 2 (Z.land pn 65535) ++ after)).
      long_prefix Hf Hv' Hd Hs pcid hcid (tb ++ token ++ be_enc 2 (Z.lor len 16384) ++ be_enc 2 (Z.land pn 65535) ++ after).
      rewrite L. destruct (version =? 0) eqn:E0; [lia|]. rewrite F. cbn [negb]. rewrite T, Dt, EI.
      destruct (varint_roundtrip (Zlen token) (token ++ be_enc 2 (Z.lor len 16384) ++ be_enc 2 (Z.land pn 65535) ++ after) ltac:(lia))
        as (tb' & Etb' & Rtb). rewrite Etb in Etb'. injection Etb' as <-.
      rewrite Rtb. cbn [bind]. rewrite pull_bytes_app. cbn [bind]. rewrite LenEnc. cbn [bind].
      unfold finish_long. destruct (len >? Zlen (be_enc 2 (Z.land pn 65535) ++ after)) eqn:EL; [lia|].
      do 3 f_equal. fold total. unfold total. rewrite !Zlen_app. lia.
  - (* 0-RTT / Handshake *)
    exists (be_enc 1 f ++ be_enc 4 version ++ be_enc 1 (Zlen pcid) ++ pcid ++ be_enc 1 (Zlen hcid) ++ hcid ++
            be_enc 2 (Z.lor len 16384)), (be_enc 2 (Z.land pn 65535)).
    split; [|split; [apply be_enc_Zlen|]].
    + cbn [app]. unfold push_uint8, push_uint32, push_uint16, push_bytes. cbn [flatten bind].
      rewrite app_nil_r, <- !app_assoc. reflexivity.
    + intros after Hafter. rewrite <- !app_assoc.
      set (total := Zlen (be_enc 1 f ++ be_enc 4 version ++ be_enc 1 (Zlen pcid) ++ pcid ++ be_enc 1 (Zlen hcid) ++ hcid ++
                          be_enc 2 (Z.lor len 16384) ++ be_enc 2 (Z.land pn 65535) ++ after)).
      long_prefix Hf Hv' Hd Hs pcid hcid (be_enc 2 (Z.lor len 16384) ++ be_enc 2 (Z.land pn 65535) ++ after).
      rewrite L. destruct (version =? 0) eqn:E0; [lia|]. rewrite F. cbn [negb]. rewrite T, Dt, EI.
      unfold PT_INITIAL, PT_ZERO_RTT, PT_HANDSHAKE in *.
      destruct ((ptype =? 1) || (ptype =? 2)) eqn:E12; [|lia].
      rewrite LenEnc. cbn [bind].
      unfold finish_long. destruct (len >? Zlen (be_enc 2 (Z.land pn 65535) ++ after)) eqn:EL; [lia|].
      do 3 f_equal. fold total. unfold total. rewrite !Zlen_app. lia.
Qed.

Example builder_long_domain_example :
  0 < VERSION_2 < 2 ^ 32 /\ 0 <= PT_HANDSHAKE <= 2 /\ Zlen (repeat 7 20) <= 20 /\ 0 <= 1200 < 16384.
Proof. vm_compute. repeat split; congruence. Qed.

(* ---- the builder's short header --------------------------------------------------------------- *)
Theorem builder_short_roundtrip spin kp pcid pn after :
  (spin = 0 \/ spin = 1) -> (kp = 0 \/ kp = 1) ->
  exists h0 pnb, flatten (builder_short_header spin kp pcid pn) = Ok (h0 ++ pnb) /\ Zlen pnb = 2 /\
    pull_quic_header (Zlen pcid) (h0 ++ pnb ++ after) =
      Ok (mkHeader None PT_ONE_RTT (Zlen (h0 ++ pnb ++ after)) pcid [] [] [] [], pnb ++ after).
Proof.
  intros Hs Hk. destruct (short_first_byte spin kp Hs Hk) as (Hf & L & F).
  set (f := Z.lor (Z.lor (Z.lor 64 (Z.shiftl spin 5)) (Z.shiftl kp 2)) 1) in *.
  exists (be_enc 1 f ++ pcid), (be_enc 2 (Z.land pn 65535)).
  split; [|split; [apply be_enc_Zlen|]].
  - unfold builder_short_header, push_uint8, push_uint16, push_bytes. fold f. cbn [flatten bind].
    rewrite app_nil_r, <- !app_assoc. reflexivity.
  - rewrite <- !app_assoc. unfold pull_quic_header.
    rewrite pull_uint8_enc by lia. cbn [bind]. rewrite L, F. cbn [negb].
    rewrite pull_bytes_app. cbn [bind]. reflexivity.
Qed.

(* ---- decoder totality and nesting ---------------------------------------------------------------- *)
Definition suffix (rest bs : list Z) : Prop := exists used, bs = used ++ rest.

Lemma suffix_refl bs : suffix bs bs.
Proof. exists []. reflexivity. Qed.

Lemma suffix_trans a b c : suffix a b -> suffix b c -> suffix a c.
Proof. intros [u ->] [v ->]. exists (v ++ u). now rewrite app_assoc. Qed.

Lemma suffix_len a b : suffix a b -> Zlen a <= Zlen b.
Proof. intros [u ->]. rewrite Zlen_app. pose proof (Zlen_nonneg u). lia. Qed.

Lemma suffix_ok a b : suffix a b -> bytes_ok b -> bytes_ok a.
Proof. intros [u ->] H. now apply bytes_ok_app in H as [_ H]. Qed.

(* every primitive: Ok with a suffix left (and a value in range), or BufferReadError *)
Lemma pull_be_spec n bs : bytes_ok bs ->
  match pull_be n bs with
  | Ok (v, rest) => suffix rest bs /\ 0 <= v < 256 ^ Z.of_nat n
  | Err k => k = E_READ
  end.
Proof.
  intros Hb. destruct (pull_be_total n bs) as [(v & r & H1 & H2 & H3 & H4)|[H1 _]]; rewrite H1; auto.
  split; [eexists; eauto|]. eapply pull_be_value_range; eauto.
Qed.

Lemma pull_bytes_spec n bs :
  match pull_bytes n bs with
  | Ok (v, rest) => suffix rest bs /\ Zlen v = n /\ bs = v ++ rest
  | Err k => k = E_READ
  end.
Proof.
  unfold pull_bytes. destruct ((n <? 0) || (Zlen bs <? n)) eqn:E; auto.
  assert (S : bs = ztake n bs ++ zdrop n bs) by (symmetry; apply firstn_skipn).
  split; [eexists; eauto|]. split; auto.
  unfold ztake, Zlen in *. rewrite firstn_length_le; lia.
Qed.

Lemma pull_uint_var_spec bs : bytes_ok bs ->
  match pull_uint_var bs with
  | Ok (v, rest) => suffix rest bs /\ 0 <= v < 2 ^ 62
  | Err k => k = E_READ
  end.
Proof.
  intros Hb. destruct (varint_pull_total bs Hb) as [(v & r & u & H1 & H2 & H3 & _)|H1]; rewrite H1; auto.
  split; auto. eexists; eauto.
Qed.

Lemma pull_versions_spec bs :
  match pull_versions bs with Ok _ => True | Err k => k = E_READ end.
Proof.
  remember (length bs) as n eqn:Hn. revert bs Hn.
  induction n as [n IH] using lt_wf_ind. intros bs Hn.
  destruct bs as [|b0 [|b1 [|b2 [|b3 t]]]]; cbn [pull_versions]; auto.
  specialize (IH (length t) ltac:(subst n; cbn [length]; lia) t eq_refl).
  destruct (pull_versions t); cbn [bind]; auto.
Qed.

Definition header_nested (bs : list Z) (h : header) (rest : list Z) : Prop :=
  suffix rest bs /\ Zlen bs - Zlen rest <= h_length h <= Zlen bs /\
  (h_type h <> PT_ONE_RTT -> Zlen (h_dcid h) <= 20 /\ Zlen (h_scid h) <= 20).

Lemma finish_long_spec bs version ptype dcid scid token tag rl rest :
  suffix rest bs -> 0 <= rl -> Zlen dcid <= 20 -> Zlen scid <= 20 ->
  match finish_long (Zlen bs) version ptype dcid scid token tag rl rest with
  | Ok (h, r) => header_nested bs h r
  | Err k => k = E_VALUE
  end.
Proof.
  intros S Hr Hd Hs. unfold finish_long. destruct (rl >? Zlen rest) eqn:E; auto.
  unfold header_nested. cbn [h_length h_type h_dcid h_scid]. pose proof (suffix_len _ _ S).
  repeat split; auto; lia.
Qed.

Ltac step_be H :=
  match goal with
  | |- context [bind (?p ?b) _] =>
      let S := fresh "S" in let R := fresh "R" in
      pose proof (pull_be_spec _ b H) as S;
      change (pull_be _ b) with (p b) in S;
      destruct (p b) as [[? ?]|?]; cbn [bind]; [destruct S as [S R] | subst; auto]
  end.

(* pull_quic_header on ARBITRARY bytes: a header whose fields are nested in the datagram, or
   BufferReadError, or ValueError -- nothing else *)
Theorem header_pull_total hcl bs : bytes_ok bs ->
  match pull_quic_header hcl bs with
  | Ok (h, rest) => header_nested bs h rest
  | Err k => k = E_READ \/ k = E_VALUE
  end.
Proof.
  intros Hb. unfold pull_quic_header.
  pose proof (pull_be_spec 1 bs Hb) as S1. change (pull_be 1 bs) with (pull_uint8 bs) in S1.
  destruct (pull_uint8 bs) as [[first b1]|k]; cbn [bind]; [destruct S1 as [S1 R1]|auto].
  pose proof (suffix_ok _ _ S1 Hb) as B1.
  destruct (is_long_header first).
  2:{ destruct (has_fixed_bit first); cbn [negb]; auto.
      pose proof (pull_bytes_spec hcl b1) as S2.
      destruct (pull_bytes hcl b1) as [[dcid b2]|k]; cbn [bind]; [|auto].
      destruct S2 as (S2 & _). pose proof (suffix_trans _ _ _ S2 S1) as S.
      unfold header_nested. cbn [h_length h_type]. pose proof (suffix_len _ _ S). pose proof (Zlen_nonneg b2).
      repeat split; auto; try lia; try (unfold PT_ONE_RTT in *; congruence). }
  pose proof (pull_be_spec 4 b1 B1) as S2. change (pull_be 4 b1) with (pull_uint32 b1) in S2.
  destruct (pull_uint32 b1) as [[version b2]|k]; cbn [bind]; [destruct S2 as [S2 R2]|auto].
  pose proof (suffix_ok _ _ S2 B1) as B2.
  pose proof (pull_be_spec 1 b2 B2) as S3. change (pull_be 1 b2) with (pull_uint8 b2) in S3.
  destruct (pull_uint8 b2) as [[dl b3]|k]; cbn [bind]; [destruct S3 as [S3 R3]|auto].
  destruct (dl >? CONNECTION_ID_MAX_SIZE) eqn:Edl; [auto|]. unfold CONNECTION_ID_MAX_SIZE in *.
  pose proof (pull_bytes_spec dl b3) as S4.
  destruct (pull_bytes dl b3) as [[dcid b4]|k]; cbn [bind]; [destruct S4 as (S4 & L4 & _)|auto].
  pose proof (suffix_ok _ _ S4 (suffix_ok _ _ S3 B2)) as B4.
  pose proof (pull_be_spec 1 b4 B4) as S5. change (pull_be 1 b4) with (pull_uint8 b4) in S5.
  destruct (pull_uint8 b4) as [[sl b5]|k]; cbn [bind]; [destruct S5 as [S5 R5]|auto].
  destruct (sl >? 20) eqn:Esl; [auto|].
  pose proof (pull_bytes_spec sl b5) as S6.
  destruct (pull_bytes sl b5) as [[scid b6]|k]; cbn [bind]; [destruct S6 as (S6 & L6 & _)|auto].
  pose proof (suffix_ok _ _ S6 (suffix_ok _ _ S5 B4)) as B6.
  assert (S06 : suffix b6 bs) by (repeat (eapply suffix_trans; [eassumption|]); apply suffix_refl).
  assert (Hdl : Zlen dcid <= 20) by lia. assert (Hsl : Zlen scid <= 20) by lia.
  destruct (version =? 0).
  { pose proof (pull_versions_spec b6) as S7. destruct (pull_versions b6); cbn [bind]; auto.
    unfold header_nested. cbn [h_length h_type h_dcid h_scid]. change (Zlen []) with 0.
    repeat split; auto; try lia. exists bs. now rewrite app_nil_r. }
  destruct (has_fixed_bit first); cbn [negb]; auto.
  set (ptype := decode_long_type version (Z.shiftr (Z.land first 48) 4)).
  destruct (ptype =? PT_INITIAL).
  { pose proof (pull_uint_var_spec b6 B6) as S7.
    destruct (pull_uint_var b6) as [[tl b7]|k]; cbn [bind]; [destruct S7 as [S7 R7]|auto].
    pose proof (pull_bytes_spec tl b7) as S8.
    destruct (pull_bytes tl b7) as [[token b8]|k]; cbn [bind]; [destruct S8 as (S8 & _)|auto].
    pose proof (suffix_ok _ _ S8 (suffix_ok _ _ S7 B6)) as B8.
    pose proof (pull_uint_var_spec b8 B8) as S9.
    destruct (pull_uint_var b8) as [[rl b9]|k]; cbn [bind]; [destruct S9 as [S9 R9]|auto].
    assert (S09 : suffix b9 bs) by (repeat (eapply suffix_trans; [eassumption|]); apply suffix_refl).
    pose proof (finish_long_spec bs version ptype dcid scid token [] rl b9 S09 ltac:(lia) Hdl Hsl) as FS.
    destruct (finish_long _ _ _ _ _ _ _ _ _) as [[h r]|k]; auto. }
  destruct ((ptype =? PT_ZERO_RTT) || (ptype =? PT_HANDSHAKE)).
  { pose proof (pull_uint_var_spec b6 B6) as S7.
    destruct (pull_uint_var b6) as [[rl b7]|k]; cbn [bind]; [destruct S7 as [S7 R7]|auto].
    assert (S07 : suffix b7 bs) by (repeat (eapply suffix_trans; [eassumption|]); apply suffix_refl).
    pose proof (finish_long_spec bs version ptype dcid scid [] [] rl b7 S07 ltac:(lia) Hdl Hsl) as FS.
    destruct (finish_long _ _ _ _ _ _ _ _ _) as [[h r]|k]; auto. }
  pose proof (pull_bytes_spec (Zlen b6 - RETRY_INTEGRITY_TAG_SIZE) b6) as S7.
  destruct (pull_bytes (Zlen b6 - RETRY_INTEGRITY_TAG_SIZE) b6) as [[token b7]|k]; cbn [bind]; [destruct S7 as (S7 & _)|auto].
  pose proof (pull_bytes_spec RETRY_INTEGRITY_TAG_SIZE b7) as S8.
  destruct (pull_bytes RETRY_INTEGRITY_TAG_SIZE b7) as [[tag b8]|k]; cbn [bind]; [destruct S8 as (S8 & _)|auto].
  assert (S08 : suffix b8 bs) by (repeat (eapply suffix_trans; [eassumption|]); apply suffix_refl).
  pose proof (finish_long_spec bs version ptype dcid scid token tag 0 b8 S08 ltac:(lia) Hdl Hsl) as FS.
  destruct (finish_long _ _ _ _ _ _ _ _ _) as [[h r]|k]; auto.
Qed.

(* CID lengths 21..255 are rejected with ValueError *)
Example cid_21_rejected :
  pull_quic_header 8 ([0xC0; 0; 0; 0; 1; 21] ++ repeat 0 40) = Err E_VALUE /\
  pull_quic_header 8 ([0xC0; 0; 0; 0; 1; 0; 255] ++ repeat 0 300) = Err E_VALUE.
Proof. split; reflexivity. Qed.
