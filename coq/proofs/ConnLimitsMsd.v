(* C07: the per-stream limit a peer saw on the wire (transport parameter, then MAX_STREAM_DATA frames) never exceeds the
   max_stream_data_local the endpoint enforces -- and, for complete write passes, equals it.  With the simulation of
   ConnLimitsSim.v this gives within_limit_never_accused at full strength (every limit taken from the wire). *)
From Coq Require Import ZArith List Bool Lia ZifyBool.
From AQ Require Import lib.Base model.RangeSet model.StreamRecv model.ConnLimits model.ConnLimitsSpec gen.C07Consts
  proofs.RangeSetP proofs.ListZ proofs.ConnLimitsP proofs.ConnLimitsAdv proofs.ConnLimitsSim.

Definition done (c : conn) (sid : Z) : bool := existsb (Z.eqb sid) (c_done c).

(* wire <= enforced, for the streams whose frames are judged at all: receivable, state not discarded *)
Record MSim (c : conn) (p : peer) : Prop := {
  m_live : forall sid s, sget sid (c_streams c) = Some s -> done c sid = false -> can_receive c sid = true ->
             p_adv_msd p sid <= sm_msd s;
  m_fresh : forall sid, sget sid (c_streams c) = None -> done c sid = false -> p_adv_msd p sid <= c_msd c
}.

Lemma MSim_init cl msd md cb : MSim (conn_init cl msd md cb) (peer_init msd md).
Proof. constructor; cbn; intros; try discriminate; lia. Qed.

Lemma msim_local c p sid : MSim c p -> done c sid = false -> can_receive c sid = true ->
  p_adv_msd p sid <= local_msd c sid.
Proof.
  intros M D R. unfold local_msd. destruct (sget sid (c_streams c)) as [s|] eqn:G.
  - apply (m_live _ _ M _ _ G D R).
  - apply (m_fresh _ _ M _ G D).
Qed.

Lemma peer_within_mono cl p lim lim' sid e fin : lim <= lim' ->
  peer_within cl p lim sid e fin = true -> peer_within cl p lim' sid e fin = true.
Proof.
  intros L W. unfold peer_within in *.
  apply andb_prop in W. destruct W as (W & W4). apply andb_prop in W. destruct W as (W & W3).
  apply andb_prop in W. destruct W as (W1 & W2).
  rewrite W1, W3, W4. assert (E : e <=? lim' = true) by lia. rewrite E. reflexivity.
Qed.

Lemma MSim_upd c p sid e fin : MSim c p -> MSim c (peer_upd p sid e fin).
Proof. intros M. destruct M. constructor; cbn [peer_upd p_adv_msd]; assumption. Qed.

Lemma MSim_same c c2 p : MSim c p ->
  c_streams c2 = c_streams c -> c_done c2 = c_done c -> c_client c2 = c_client c -> c_msd c2 = c_msd c -> MSim c2 p.
Proof.
  intros M E1 E2 E3 E4. destruct M. constructor; unfold done, can_receive in *; rewrite ?E1, ?E2, ?E3, ?E4; assumption.
Qed.

(* replacing a stream by one whose limit is not lower *)
Lemma MSim_sset c c2 p sid s s' : MSim c p -> sget sid (c_streams c) = Some s -> sm_msd s <= sm_msd s' ->
  c_streams c2 = sset sid s' (c_streams c) -> c_done c2 = c_done c -> c_client c2 = c_client c -> c_msd c2 = c_msd c ->
  MSim c2 p.
Proof.
  intros M G L E1 E2 E3 E4. destruct M. constructor; unfold done, can_receive in *; rewrite ?E1, ?E2, ?E3, ?E4.
  - intros k s1. rewrite (sget_sset _ _ _ _ _ G). destruct (k =? sid) eqn:E.
    + intros H D R. inversion H; subst. assert (k = sid) by lia. subst k. pose proof (m_live0 _ _ G D R). lia.
    + apply m_live0.
  - intros k. rewrite (sget_sset _ _ _ _ _ G). destruct (k =? sid); [discriminate|]. apply m_fresh0.
Qed.

Lemma goc_msim c p sid s c1 : MSim c p -> get_or_create c sid = GStream s c1 -> MSim c1 p.
Proof.
  intros M G. destruct (goc_shape _ _ _ _ G) as (D & [(G1 & E)|(G1 & Es & E1 & E2 & E3 & E4 & E5 & E6 & E7)]); [subst; exact M|].
  destruct M. constructor; unfold done, can_receive in *; rewrite ?E1, ?E2, ?E4, ?E5.
  - intros k s1. rewrite sget_app1. destruct (sget k (c_streams c)) as [x|] eqn:Gk.
    + intros H; inversion H; subst. apply m_live0, Gk.
    + destruct (sid =? k) eqn:E; [|discriminate]. intros H Dk _. inversion H; subst. assert (k = sid) by lia. subst k.
      cbn [sm_msd]. apply m_fresh0; assumption.
  - intros k. rewrite sget_app1. destruct (sget k (c_streams c)) eqn:Gk; [discriminate|].
    destruct (sid =? k); [discriminate|]. intros _. apply m_fresh0, Gk.
Qed.

Lemma goc_static c sid s c1 : get_or_create c sid = GStream s c1 ->
  c_done c1 = c_done c /\ c_client c1 = c_client c /\ c_msd c1 = c_msd c.
Proof.
  intros G. destruct (goc_shape _ _ _ _ G) as (D & [(G1 & E)|(G1 & Es & E1 & E2 & E3 & E4 & E5 & E6 & E7)]); [subst; auto|auto].
Qed.

Lemma handle_stream_msim c p ft sid off data r c' :
  CInv c -> MSim c p -> handle_stream c ft sid off data = (r, c') -> MSim c' p.
Proof.
  intros I M. unfold handle_stream.
  destruct (off + Zlen data >? UINT_VAR_MAX); [intros H; inversion H; subst; exact M|].
  destruct (negb (can_receive c sid)); [intros H; inversion H; subst; exact M|].
  destruct (get_or_create c sid) as [s c1| |code] eqn:G; try (intros H; inversion H; subst; exact M).
  destruct (goc_inv _ _ _ _ I G) as (I1 & G1 & _ & _).
  pose proof (goc_msim _ _ _ _ _ M G) as M1.
  destruct (off + Zlen data >? sm_msd s); [intros H; inversion H; subst; exact M|].
  destruct (_ >? l_value (c_data c1)); [intros H; inversion H; subst; exact M|].
  destruct (handle_frame (sm_recv s) off data (Z.odd ft)) as [o r'].
  assert (U : MSim (add_used (set_streams c1 (sset sid (with_recv s r') (c_streams c1)))
                             (Z.max 0 (off + Zlen data - r_highest (sm_recv s)))) p).
  { eapply (MSim_sset c1 _ p sid s (with_recv s r') M1 G1); cbn; try reflexivity; lia. }
  destruct o; intros H; inversion H; subst; try exact M; exact U.
Qed.

Lemma handle_reset_stream_msim c p sid fs r c' :
  CInv c -> MSim c p -> handle_reset_stream c sid fs = (r, c') -> MSim c' p.
Proof.
  intros I M. unfold handle_reset_stream.
  destruct (negb (can_receive c sid)); [intros H; inversion H; subst; exact M|].
  destruct (get_or_create c sid) as [s c1| |code] eqn:G; try (intros H; inversion H; subst; exact M).
  destruct (goc_inv _ _ _ _ I G) as (I1 & G1 & _ & _).
  pose proof (goc_msim _ _ _ _ _ M G) as M1.
  destruct (fs >? sm_msd s); [intros H; inversion H; subst; exact M|].
  destruct (_ >? l_value (c_data c1)); [intros H; inversion H; subst; exact M|].
  destruct (handle_reset (sm_recv s) fs) as [o r'].
  assert (U : MSim (add_used (set_streams c1 (sset sid (with_recv s (bump_highest r' fs)) (c_streams c1)))
                             (Z.max 0 (fs - r_highest (sm_recv s)))) p).
  { eapply (MSim_sset c1 _ p sid s (with_recv s (bump_highest r' fs)) M1 G1); cbn; try reflexivity; lia. }
  destruct o; intros H; inversion H; subst; try exact M; exact U.
Qed.

(* ---------- what a list of written frames does to the peer's per-stream ledger ---------- *)
Definition msd_le (sid X : Z) (x : wire) : Prop :=
  match x with W ft a v => ft = FT_MAX_STREAM_DATA -> a = sid -> v <= X end.

Lemma see1_msd p ft a v sid :
  p_adv_msd (peer_see1 p (W ft a v)) sid =
  if (ft =? FT_MAX_STREAM_DATA) && (sid =? a) then Z.max v (p_adv_msd p a) else p_adv_msd p sid.
Proof.
  cbn [peer_see1].
  destruct (ft =? FT_MAX_DATA) eqn:E1.
  { assert (E : ft =? FT_MAX_STREAM_DATA = false) by (apply Z.eqb_eq in E1; subst; reflexivity). rewrite E. reflexivity. }
  destruct (ft =? FT_MAX_STREAM_DATA) eqn:E2; [cbn [p_adv_msd andb]; unfold fupd; reflexivity|].
  destruct (ft =? FT_MAX_STREAMS_BIDI); [reflexivity|]. destruct (ft =? FT_MAX_STREAMS_UNI); reflexivity.
Qed.

Lemma see_msd_le X sid w : Forall (msd_le sid X) w -> forall p, p_adv_msd p sid <= X -> p_adv_msd (peer_see p w) sid <= X.
Proof.
  induction 1 as [|[ft a v] t H _ IH]; intros p L; cbn [peer_see fold_left]; [exact L|].
  apply IH. rewrite see1_msd. cbn in H.
  destruct (ft =? FT_MAX_STREAM_DATA) eqn:E1; cbn [andb]; [|exact L].
  destruct (sid =? a) eqn:E2; [|exact L]. assert (a = sid) by lia. subst a. specialize (H ltac:(lia) eq_refl). lia.
Qed.

Lemma msd_le_other sid X w ftw : Forall (fun x => wire_ft x = ftw) w -> ftw <> FT_MAX_STREAM_DATA -> Forall (msd_le sid X) w.
Proof.
  intros F N. eapply Forall_impl; [|exact F]. intros [ft a v] Hx. cbn in *. intros E. congruence.
Qed.

(* every MAX_STREAM_DATA frame of a write pass carries the new limit of the live stream it names *)
Definition frame_of (l : list (Z * strm)) (x : wire) : Prop :=
  match x with W ft a v => exists s, sget a l = Some s /\ v = sm_msd (fst (raise_stream a s)) end.

Lemma raise_streams_frames l : NoDup (map fst l) -> Forall (frame_of l) (snd (raise_streams l)).
Proof.
  induction l as [|[k s] t IH]; cbn [raise_streams map fst]; intros ND; [constructor|].
  inversion ND as [|x xs Hnin ND']; subst.
  specialize (IH ND').
  assert (Tl : Forall (frame_of ((k, s) :: t)) (snd (raise_streams t))).
  { eapply Forall_impl; [|exact IH]. intros [ft a v] (s1 & G1 & Ev). cbn [frame_of sget].
    destruct (k =? a) eqn:E; [|exists s1; auto].
    exfalso. apply Hnin. assert (k = a) by lia. subst. eapply sget_in, G1. }
  destruct (raise_stream k s) as [s' w] eqn:R. destruct (raise_streams t) as [t' w']. cbn [snd] in *.
  apply Forall_app. split; [|exact Tl].
  unfold raise_stream in R.
  match type of R with (if ?b then _ else _) = _ => destruct b eqn:Eb end; inversion R; subst; [|constructor].
  constructor; [|constructor]. cbn [frame_of sget]. rewrite Z.eqb_refl. exists s. split; [reflexivity|].
  unfold raise_stream. rewrite Eb. reflexivity.
Qed.

Lemma raise_stream_msd_le sid s : 0 <= sm_msd s -> sm_msd s <= sm_msd (fst (raise_stream sid s)).
Proof.
  intros H. unfold raise_stream.
  destruct (negb (sm_msd s =? 0) && (r_highest (sm_recv s) * 2 >? sm_msd s));
    match goal with |- context[if ?b then _ else _] => destruct b end; cbn; lia.
Qed.

Lemma SOK_msd_nonneg s : SOK s -> 0 <= sm_msd s.
Proof.
  intros (B & Hm). destruct B. unfold top in *. pose proof (Zlen_nonneg (r_buf (sm_recv s))). lia.
Qed.

Lemma write_msim c p w c' : CInv c -> Sim c p -> MSim c p -> write c = (OWrote w, c') -> MSim c' (peer_see p w).
Proof.
  intros I S M. unfold write.
  pose proof (raise_limit_adv FT_MAX_DATA (c_data c)) as WD.
  pose proof (raise_limit_w FT_MAX_DATA (c_data c)) as WD'.
  pose proof (raise_limit_w FT_MAX_STREAMS_BIDI (c_bidi c)) as WB'.
  pose proof (raise_limit_w FT_MAX_STREAMS_UNI (c_uni c)) as WU'.
  pose proof (s_nodup _ _ S) as ND.
  pose proof (raise_streams_frames _ ND) as FR.
  pose proof (raise_streams_ft (c_streams c)) as WS.
  pose proof (keys_raise (c_streams c)) as KR.
  pose proof (sget_raise) as SR. specialize (fun k => SR k (c_streams c)).
  clear WD.
  destruct (raise_limit FT_MAX_DATA (c_data c)) as [d wd].
  destruct (raise_limit FT_MAX_STREAMS_BIDI (c_bidi c)) as [b wb].
  destruct (raise_limit FT_MAX_STREAMS_UNI (c_uni c)) as [u wu].
  destruct (raise_streams (c_streams c)) as [ss ws]. cbn [fst snd] in *.
  intros H; inversion H; subst; clear H.
  assert (NDs : NoDup (map fst ss)) by (rewrite KR; exact ND).
  (* the frames of the pass, seen from stream sid with bound X *)
  assert (FRM : forall sid X,
             (forall s0, sget sid (c_streams c) = Some s0 -> sm_msd (fst (raise_stream sid s0)) <= X) ->
             Forall (msd_le sid X)
               (map (fun d0 => W FT_PATH_RESPONSE 0 d0) (c_chal c) ++ map (fun q => W FT_RETIRE_CONNECTION_ID 0 q) (c_retire c) ++ wd ++ wb ++ wu ++ ws)).
  { intros sid X HX. repeat (apply Forall_app; split).
    - apply (msd_le_other sid X _ FT_PATH_RESPONSE); [|vm_compute; discriminate].
      apply Forall_forall. intros x Hx. apply in_map_iff in Hx. destruct Hx as (y & Hy & _). subst x. reflexivity.
    - apply (msd_le_other sid X _ FT_RETIRE_CONNECTION_ID); [|vm_compute; discriminate].
      apply Forall_forall. intros x Hx. apply in_map_iff in Hx. destruct Hx as (y & Hy & _). subst x. reflexivity.
    - apply (msd_le_other sid X _ FT_MAX_DATA); [|vm_compute; discriminate].
      eapply Forall_impl; [|exact WD']. intros x Hx. cbv beta in Hx. subst x. reflexivity.
    - apply (msd_le_other sid X _ FT_MAX_STREAMS_BIDI); [|vm_compute; discriminate].
      eapply Forall_impl; [|exact WB']. intros x Hx. cbv beta in Hx. subst x. reflexivity.
    - apply (msd_le_other sid X _ FT_MAX_STREAMS_UNI); [|vm_compute; discriminate].
      eapply Forall_impl; [|exact WU']. intros x Hx. cbv beta in Hx. subst x. reflexivity.
    - eapply Forall_impl; [|exact FR]. intros [ft a v] (s1 & G1 & Ev). cbn [msd_le]. intros _ Ea. subst a v. apply HX, G1. }
  constructor; unfold done, can_receive in *; cbn [c_streams c_done c_client c_msd].
  - intros k s'. rewrite (sget_filter _ _ _ NDs), SR, existsb_eqb_app.
    destruct (sget k (c_streams c)) as [s0|] eqn:G; cbn [option_map]; [|discriminate].
    destruct (negb (stream_finished (snd (k, fst (raise_stream k s0))))); [|discriminate].
    intros Hs Hd R. inversion Hs; subst. apply orb_false_elim in Hd. destruct Hd as (Hd1 & _).
    pose proof (ci_streams _ I) as F. rewrite Forall_forall in F. pose proof (F _ (sget_In _ _ _ G)) as SK. cbn [snd] in SK.
    pose proof (raise_stream_msd_le k s0 (SOK_msd_nonneg _ SK)) as Lm.
    apply see_msd_le.
    + apply FRM. intros s1 G1. rewrite G in G1. inversion G1; subst. lia.
    + pose proof (m_live _ _ M _ _ G Hd1 R). lia.
  - intros k. rewrite (sget_filter _ _ _ NDs), SR, existsb_eqb_app. intros Hn Hd. apply orb_false_elim in Hd. destruct Hd as (Hd1 & Hd2).
    destruct (sget k (c_streams c)) as [s0|] eqn:G; cbn [option_map] in Hn.
    + exfalso. rewrite (existsb_keys_filter _ _ _ NDs), SR, G in Hd2. cbn [option_map] in Hd2. cbn [snd] in *.
      destruct (stream_finished (fst (raise_stream k s0))); cbn in *; discriminate.
    + apply see_msd_le; [|apply (m_fresh _ _ M _ G Hd1)]. apply FRM. intros s1 G1. congruence.
Qed.

(* steps that are not STREAM / RESET_STREAM frames *)
Lemma step_other_msim c p o r c' :
  CInv c -> Sim c p -> MSim c p -> frame_end o = None -> step c o = (r, c') ->
  match r with OWrote w => MSim c' (peer_see p w) | OErr _ _ | OExn => True | _ => MSim c' p end.
Proof.
  intros I S M FE. destruct o; cbn in FE; try discriminate; cbn [step].
  - unfold handle_touch. destruct (negb _); [intros H; inversion H; subst; exact Logic.I|].
    destruct (get_or_create c sid) as [s c1| |code] eqn:G; intros H; inversion H; subst; try exact M; try exact Logic.I.
    apply (goc_msim _ _ _ _ _ M G).
  - intros H; inversion H; subst. unfold local_open.
    destruct (negb (can_send c sid)); [exact M|].
    destruct (sget sid (c_streams c)) eqn:G; [exact M|].
    destruct (Bool.eqb (client_initiated sid) (c_client c)) eqn:Own; cbn [negb]; [|exact M].
    destruct M. constructor; unfold done, can_receive in *; cbn [c_streams c_done c_client c_msd set_streams].
    + intros k s1. rewrite sget_app1. destruct (sget k (c_streams c)) eqn:Gk; [intros H1; inversion H1; subst; apply m_live0, Gk|].
      destruct (sid =? k) eqn:E; [|discriminate]. intros H1 Hd R; inversion H1; subst. assert (k = sid) by lia. subst k. cbn [sm_msd].
      rewrite Own in R. cbn [negb orb] in R. rewrite negb_true_iff in R. rewrite R. apply m_fresh0; assumption.
    + intros k. rewrite sget_app1. destruct (sget k (c_streams c)) eqn:Gk; [discriminate|]. destruct (sid =? k); [discriminate|].
      intros _. apply m_fresh0, Gk.
  - intros H. pose proof H as H'. unfold write in H'.
    repeat match type of H' with (let '(_, _) := ?x in _) = _ => destruct x end. inversion H'; subst. clear H'.
    eapply write_msim; eassumption.
  - intros H; inversion H; subst. unfold limit_lost. destruct (which =? 0); [|destruct (which =? 1)]; apply (MSim_same c _ p M); reflexivity.
  - intros H; inversion H; subst. unfold stream_limit_lost. destruct (sget sid (c_streams c)) as [s|] eqn:G; [|exact M].
    eapply (MSim_sset c _ p sid s (mkStrm (sm_msd s) 0 (sm_sendfin s) (sm_recv s)) M G); cbn; try reflexivity; lia.
  - unfold handle_crypto.
    destruct (_ >? UINT_VAR_MAX); [intros H; inversion H; subst; exact Logic.I|].
    destruct (_ >? MAX_PENDING_CRYPTO); [intros H; inversion H; subst; exact Logic.I|].
    destruct (handle_frame (c_crypto c) off data false) as [o r'].
    destruct o as [|d0 f0| |]; try (intros H; inversion H; subst; try exact Logic.I; apply (MSim_same c _ p M); reflexivity).
    destruct (tls_parse _ _); intros H; inversion H; subst; try exact Logic.I; apply (MSim_same c _ p M); reflexivity.
  - unfold handle_path_challenge. intros H; inversion H; subst. destruct (Zlen (c_chal c) <? MAX_REMOTE_CHALLENGES); [|exact M].
    apply (MSim_same c _ p M); reflexivity.
  - intros H; inversion H; subst. apply (MSim_same c _ p M); reflexivity.
  - unfold handle_new_cid.
    destruct (rpt >? seq); [intros H; inversion H; subst; exact Logic.I|].
    match goal with |- context[match ?x with Some _ => _ | None => _ end] => destruct x as [[active' avail3]|] end;
      [|destruct NCID_EMPTY_CLOSES; intros H; inversion H; subst; exact Logic.I].
    destruct (1 + Zlen avail3 >? LOCAL_ACTIVE_CID_LIMIT); [intros H; inversion H; subst; exact Logic.I|].
    match goal with |- context[if over_retire_cap ?q ?q2 then _ else _] => destruct (over_retire_cap q q2) end; [intros H; inversion H; subst; exact Logic.I|].
    intros H; inversion H; subst. apply (MSim_same c _ p M); reflexivity.
  - unfold handle_path_packet. destruct (pfind addr (c_paths c)); intros H; inversion H; subst; apply (MSim_same c _ p M); reflexivity.
Qed.

(* ---------- STREAM / RESET_STREAM judged against the WIRE limit ---------- *)
Lemma goc_finished c sid : existsb (Z.eqb sid) (c_done c) = true -> get_or_create c sid = GFinished.
Proof. intros D. unfold get_or_create. rewrite D. reflexivity. Qed.

Lemma full_stream c p ft sid off data r c' :
  CInv c -> Sim c p -> MSim c p -> handle_stream c ft sid off data = (r, c') ->
  peer_within (c_client c) p (p_adv_msd p sid) sid (off + Zlen data) (Z.odd ft) = true ->
  good r (Sim c' (peer_upd p sid (off + Zlen data) (Z.odd ft)) /\ MSim c' (peer_upd p sid (off + Zlen data) (Z.odd ft))).
Proof.
  intros I S M H W.
  destruct (can_receive c sid) eqn:CR; [destruct (done c sid) eqn:D|].
  - (* state discarded: ignored before any limit check *)
    unfold handle_stream in H. destruct (_ >? UINT_VAR_MAX); [inversion H; subst; exact acc_enc|].
    rewrite CR in H. cbn [negb] in H. rewrite (goc_finished _ _ D) in H. inversion H; subst. cbn [good].
    split; [apply sim_ignored; assumption|apply MSim_upd, M].
  - pose proof (msim_local _ _ _ M D CR) as L.
    pose proof (peer_within_mono _ _ _ _ _ _ _ L W) as W'.
    pose proof (step_stream _ _ _ _ _ _ _ _ I S H W') as G.
    pose proof (handle_stream_msim _ _ _ _ _ _ _ _ I M H) as GM.
    destruct r; cbn [good] in *; auto; (split; [exact G|apply MSim_upd, GM]).
  - unfold handle_stream in H. destruct (_ >? UINT_VAR_MAX); [inversion H; subst; exact acc_enc|].
    rewrite CR in H. cbn [negb] in H. inversion H; subst. exact acc_state.
Qed.

Lemma full_reset c p sid fs r c' :
  RESET_ADVANCES_HIGHEST = true ->
  CInv c -> Sim c p -> MSim c p -> handle_reset_stream c sid fs = (r, c') ->
  peer_within (c_client c) p (p_adv_msd p sid) sid fs true = true ->
  good r (Sim c' (peer_upd p sid fs true) /\ MSim c' (peer_upd p sid fs true)).
Proof.
  intros Flag I S M H W.
  destruct (can_receive c sid) eqn:CR; [destruct (done c sid) eqn:D|].
  - unfold handle_reset_stream in H. rewrite CR in H. cbn [negb] in H. rewrite (goc_finished _ _ D) in H. inversion H; subst. cbn [good].
    split; [apply sim_ignored; assumption|apply MSim_upd, M].
  - pose proof (msim_local _ _ _ M D CR) as L.
    pose proof (peer_within_mono _ _ _ _ _ _ _ L W) as W'.
    pose proof (step_reset _ _ _ _ _ _ Flag I S H W') as G.
    pose proof (handle_reset_stream_msim _ _ _ _ _ _ I M H) as GM.
    destruct r; cbn [good] in *; auto; (split; [exact G|apply MSim_upd, GM]).
  - unfold handle_reset_stream in H. rewrite CR in H. cbn [negb] in H. inversion H; subst. exact acc_state.
Qed.

(* within_limit_never_accused, full strength: EVERY limit is the one seen on the wire *)
Lemma never_accused_full_from : RESET_ADVANCES_HIGHEST = true ->
  forall ops c p, CInv c -> Sim c p -> MSim c p -> accused true c p ops = false.
Proof.
  intros Flag. induction ops as [|o t IH]; intros c p I S M; cbn [accused]; [reflexivity|].
  destruct (step c o) as [r c'] eqn:St. pose proof (step_inv _ _ _ _ I St) as I'.
  destruct (frame_end o) as [[[sid e] fin]|] eqn:FE.
  - destruct (peer_within (c_client c) p (p_adv_msd p sid) sid e fin) eqn:W; [|reflexivity].
    assert (G : good r (Sim c' (peer_upd p sid e fin) /\ MSim c' (peer_upd p sid e fin))).
    { destruct o; cbn in FE; try discriminate; inversion FE; subst; cbn [step] in St.
      - exact (full_stream _ _ _ _ _ _ _ _ I S M St W).
      - exact (full_reset _ _ _ _ _ _ Flag I S M St W). }
    destruct r; cbn [good] in G; auto; destruct G; auto.
  - pose proof (step_other _ _ _ _ _ I S FE St) as G. pose proof (step_other_msim _ _ _ _ _ I S M FE St) as GM.
    destruct r; auto.
Qed.

Lemma never_accused_full : forall cl msd md cb ops,
  0 <= msd -> 0 <= md -> 0 <= cb ->
  accused true (conn_init cl msd md cb) (peer_init msd md) ops = false.
Proof.
  intros. apply (never_accused_full_from eq_refl); [apply CInv_init; assumption|apply Sim_init|apply MSim_init].
Qed.

(* ---------- non-vacuity ---------- *)
(* every STREAM / RESET_STREAM frame of the sequence is within the ledger (wire limits) and nothing closes *)
Fixpoint all_within (c : conn) (p : peer) (ops : list op) : bool :=
  match ops with
  | [] => true
  | o :: t =>
      let '(r, c') := step c o in
      negb (closes r) &&
      match frame_end o with
      | Some (sid, e, fin) => peer_within (c_client c) p (p_adv_msd p sid) sid e fin && all_within c' (peer_upd p sid e fin) t
      | None => match r with OWrote w => all_within c' (peer_see p w) t | _ => all_within c' p t end
      end
  end.

(* server, max_stream_data 1000, max_data 4000: 600 bytes on stream 0; the write pass doubles the stream limit and
   writes MAX_STREAM_DATA(0, 2000); the packet is declared lost; the peer uses the limit it saw on the wire up to the
   last byte (end offset 2000 > the initial 1000) before any re-advertisement, opens a second stream, resets it within
   the connection limit: all within the ledger, all accepted.  One byte more is outside the ledger (premise false). *)
Example never_accused_full_nonvacuous :
  let c0 := conn_init false 1000 4000 0 in
  let p0 := peer_init 1000 4000 in
  let ops := [StreamFrame 10 0 0 (zeros 600); Write; StreamLimitLost 0;
              StreamFrame 14 0 1990 (zeros 10); StreamFrame 10 4 0 (zeros 100); ResetStream 4 1000; Write] in
  all_within c0 p0 ops = true /\
  accused true c0 p0 ops = false /\
  fst (run c0 ops) =
    [OOk (RData (zeros 600) false); OWrote [W FT_MAX_STREAM_DATA 0 2000]; OOk RNone;
     OOk RNone; OOk (RData (zeros 100) false); OOk RReset; OWrote [W FT_MAX_DATA 0 8000; W FT_MAX_STREAM_DATA 0 4000; W FT_MAX_STREAM_DATA 4 2000]] /\
  all_within c0 p0 [StreamFrame 10 0 0 (zeros 600); Write; StreamFrame 14 0 1991 (zeros 10)] = false.
Proof. cbv zeta. repeat split; vm_compute; reflexivity. Qed.
