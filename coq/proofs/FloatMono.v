(* C08, CUBIC window floor without the FloatAnomaly guard: IEEE-754 facts about the executable PrimFloat instance
   (model/RecoveryFloat.v), proved with Flocq from the standard library's specification of primitive floats
   (FloatAxioms: Prim2SF / SF2Prim correspondence and the *_spec equations) -- see docs/C08.md for the list of
   assumptions these bring (Print Assumptions output is in the evidence).

   - trunc_add_ge:   int(float(w) + d) >= L        for integers w >= L, 0 < L < 2^53, and any d with sign bit 0 or NaN
                     (monotonicity of round-to-nearest and of truncation; float(w) is correctly rounded for every w)
   - mul_sign / div_sign: products and quotients of floats with sign bit 0 have sign bit 0 (or are NaN)
   - trunc_mul15_ge: int(float(w) * 1.5) >= w      for every integer w >= 1 (relative error of rounding)
   In each statement int() returning None (inf / NaN: Python raises) is the excluded case. *)
From Coq Require Import ZArith Reals Lia Lra Bool Floats Uint63.
From Flocq Require Import Core.Core Relative IEEE754.BinarySingleNaN.
Require Flocq.IEEE754.PrimFloat.
From AQ Require Import model.RecBase model.RecoveryFloat.
Module FP := Flocq.IEEE754.PrimFloat.
Open Scope Z_scope.

Notation B := (binary_float prec emax).
Notation rnd := (round radix2 (fexp prec emax) (round_mode mode_NE)).

(* ---------- int(x) of a float whose value is at least a positive integer ---------- *)
Lemma trunc_ge (x : PrimFloat.float) (L z : Z) :
  0 < L -> (IZR L <= B2R (FP.Prim2B x))%R -> f_trunc x = Some z -> L <= z.
Proof.
  intros HL HR HT. unfold f_trunc in HT. rewrite <- FP.B2SF_Prim2B in HT.
  destruct (FP.Prim2B x) as [s|s| |s m e Hb]; simpl in *; try discriminate.
  - apply IZR_lt in HL. lra.
  - inversion HT; subst; clear HT.
    unfold F2R in HR. simpl in HR.
    destruct s; simpl in HR.
    + exfalso. assert (0 < bpow radix2 e)%R by apply bpow_gt_0.
      assert (IZR (Z.neg m) < 0)%R by (apply IZR_lt; lia). apply IZR_lt in HL. nra.
    + destruct (e >=? 0) eqn:E.
      * assert (0 <= e) by lia. rewrite <- IZR_Zpower in HR by auto. rewrite <- mult_IZR in HR.
        apply le_IZR in HR. simpl in HR. exact HR.
      * assert (e < 0) by lia. rewrite Z.shiftr_div_pow2 by lia.
        apply Z.div_le_lower_bound; [apply Z.pow_pos_nonneg; lia|].
        apply le_IZR. rewrite mult_IZR. rewrite (IZR_Zpower radix2) by lia.
        assert (Hb2 : (bpow radix2 (- e) * bpow radix2 e = 1)%R) by (rewrite <- bpow_plus; replace (- e + e) with 0 by lia; reflexivity).
        assert (0 < bpow radix2 (- e))%R by apply bpow_gt_0.
        replace (IZR (Z.pos m)) with (bpow radix2 (- e) * (IZR (Z.pos m) * bpow radix2 e))%R by (rewrite (Rmult_comm (IZR _)), <- Rmult_assoc, Hb2; ring).
        apply Rmult_le_compat_l; lra.
Qed.

Lemma trunc_some_finite (x : PrimFloat.float) z : f_trunc x = Some z -> is_finite (FP.Prim2B x) = true.
Proof.
  unfold f_trunc. rewrite <- FP.B2SF_Prim2B. destruct (FP.Prim2B x); simpl; auto; discriminate.
Qed.

(* a positive integer below 2^53 is a binary64 number *)
Lemma small_int_format (L : Z) : Z.abs L < 2 ^ 53 -> generic_format radix2 (fexp prec emax) (IZR L).
Proof.
  intros H. apply generic_format_FLT. exists (Float radix2 L 0).
  - unfold F2R. simpl. ring.
  - simpl. exact H.
  - simpl. unfold emin, emax, prec. lia.
Qed.

Lemma rnd_ge_int (L : Z) (r : R) : Z.abs L < 2 ^ 53 -> (IZR L <= r)%R -> (IZR L <= rnd r)%R.
Proof.
  intros H Hr.
  assert (E : rnd (IZR L) = IZR L).
  { apply round_generic; [auto with typeclass_instances|apply small_int_format; auto]. }
  rewrite <- E at 1.
  apply round_le; auto with typeclass_instances.
  apply fexp_correct. exact FP.Hprec.
Qed.

Local Instance vexp : Valid_exp (fexp prec emax) := fexp_correct prec emax FP.Hprec.
Local Existing Instance FP.Hprec.
Local Existing Instance FP.Hmax.

Lemma B2SF_inf (X : B) s : B2SF X = S754_infinity s -> X = B754_infinity s.
Proof. destruct X; simpl; intros H; try discriminate. inversion H; reflexivity. Qed.

Lemma overflow_NE s : binary_overflow prec emax mode_NE s = S754_infinity s.
Proof. reflexivity. Qed.

Definition posval (X : B) (L : Z) : Prop :=
  X = B754_infinity false \/ (is_finite X = true /\ (IZR L <= B2R X)%R).

(* float(w) for 0 <= w < 2^63 through of_uint63 *)
Lemma of_small (w : Z) : 0 <= w < 2 ^ 63 ->
  let X := FP.Prim2B (of_uint63 (of_Z w)) in
  Bsign X = false /\ (X = B754_infinity false \/ (is_finite X = true /\ B2R X = rnd (IZR w))).
Proof.
  intros Hw X. unfold X. rewrite FP.of_int63_equiv.
  rewrite Uint63.of_Z_spec. rewrite Z.mod_small by (unfold wB; simpl; lia).
  pose proof (binary_normalize_correct prec emax FP.Hprec FP.Hmax mode_NE w 0 false) as N.
  cbv zeta in N. unfold F2R in N. simpl Fnum in N. simpl Fexp in N. simpl bpow in N. rewrite Rmult_1_r in N.
  assert (0 <= IZR w)%R by (apply IZR_le; lia).
  destruct (Rlt_bool _ _).
  - destruct N as (N1 & N2 & N3). split.
    + rewrite N3. destruct (Rcompare_spec (IZR w) 0); auto. lra.
    + right. auto.
  - rewrite Rlt_bool_false in N by lra. rewrite overflow_NE in N. apply B2SF_inf in N. rewrite N. auto.
Qed.

Lemma hi_bounds (w : Z) : 2 ^ 62 <= w ->
  let k := Z.log2 w - 61 in
  let hi := Z.shiftr w k in
  let hi' := if Z.land w (Z.ones k) =? 0 then hi else Z.lor hi 1 in
  1 <= k /\ 2 ^ 61 <= hi' < 2 ^ 62.
Proof.
  intros Hw k hi hi'.
  assert (62 <= Z.log2 w) by (apply Z.log2_le_pow2; lia).
  assert (Hk : 1 <= k) by (unfold k; lia).
  assert (L1 : Z.log2 hi = 61).
  { unfold hi. rewrite Z.log2_shiftr by lia. unfold k. lia. }
  assert (L2 : Z.log2 hi' = 61).
  { unfold hi'. destruct (_ =? 0); auto. rewrite Z.log2_lor; [rewrite L1; simpl; lia| |lia].
    unfold hi. apply Z.shiftr_nonneg. lia. }
  split; auto.
  assert (0 < hi').
  { destruct (Z_lt_le_dec 0 hi'); auto. rewrite Z.log2_nonpos in L2 by auto. discriminate. }
  pose proof (Z.log2_spec hi' H0) as S. rewrite L2 in S. simpl in S. lia.
Qed.

Lemma of_nonneg_pos (w : Z) : 0 <= w ->
  let X := FP.Prim2B (f_of_nonneg w) in
  Bsign X = false /\ forall L, 0 < L <= w -> L < 2 ^ 53 -> posval X L.
Proof.
  intros Hw X. unfold X, f_of_nonneg. destruct (w <? two62) eqn:E.
  - unfold two62 in E. destruct (of_small w ltac:(lia)) as [S V]. split; auto.
    intros L HL HL2. destruct V as [V|[V1 V2]]; [left; auto|right]. split; auto.
    rewrite V2. apply rnd_ge_int; [lia|apply IZR_le; lia].
  - unfold two62 in E. assert (Hw2 : 2 ^ 62 <= w) by lia.
    destruct (hi_bounds w Hw2) as [Hk Hh]. cbv zeta in *.
    set (k := Z.log2 w - 61) in *.
    set (hi' := if Z.land w (Z.ones k) =? 0 then Z.shiftr w k else Z.lor (Z.shiftr w k) 1) in *.
    rewrite FP.ldexp_equiv.
    destruct (of_small hi' ltac:(lia)) as [S V].
    set (Y := FP.Prim2B (of_uint63 (of_Z hi'))) in *.
    destruct V as [V|[V1 V2]].
    + rewrite V. simpl. split; auto. intros; left; reflexivity.
    + pose proof (Bldexp_correct prec emax FP.Hprec FP.Hmax mode_NE Y k) as LD.
      destruct (Rlt_bool _ _).
      * destruct LD as (D1 & D2 & D3). split; [congruence|].
        intros L HL HL2. right. split; [congruence|]. rewrite D1.
        apply rnd_ge_int; [lia|].
        assert (IZR L <= B2R Y)%R by (rewrite V2; apply rnd_ge_int; [lia|apply IZR_le; lia]).
        assert (1 <= bpow radix2 k)%R by (change 1%R with (bpow radix2 0); apply bpow_le; lia).
        assert (0 < IZR L)%R by (apply IZR_lt; lia). nra.
      * rewrite S, overflow_NE in LD. apply B2SF_inf in LD. rewrite LD. split; auto. intros; left; reflexivity.
Qed.

Lemma ofZ_pos (w : Z) : 0 <= w ->
  let X := FP.Prim2B (f_ofZ w) in
  Bsign X = false /\ forall L, 0 < L <= w -> L < 2 ^ 53 -> posval X L.
Proof.
  intros Hw. unfold f_ofZ. destruct (w <? 0) eqn:E; [lia|]. apply of_nonneg_pos; auto.
Qed.

(* ---------- signs: products and quotients of non-negative floats are non-negative (or NaN) ---------- *)
Lemma finite_sign_cases (X : B) : is_nan X = false \/ X = B754_nan.
Proof. destruct X; simpl; auto. Qed.

Lemma mul_sign (x y : PrimFloat.float) :
  Bsign (FP.Prim2B x) = false -> Bsign (FP.Prim2B y) = false -> Bsign (FP.Prim2B (x * y)) = false.
Proof.
  intros Sx Sy. rewrite FP.mul_equiv.
  pose proof (Bmult_correct prec emax FP.Hprec FP.Hmax mode_NE (FP.Prim2B x) (FP.Prim2B y)) as M.
  rewrite Sx, Sy in M. simpl xorb in M.
  destruct (Rlt_bool _ _).
  - destruct M as (_ & _ & M). destruct (finite_sign_cases (Bmult mode_NE (FP.Prim2B x) (FP.Prim2B y))) as [N|N]; auto.
    rewrite N. reflexivity.
  - rewrite overflow_NE in M. apply B2SF_inf in M. rewrite M. reflexivity.
Qed.

Lemma div_sign (x y : PrimFloat.float) :
  Bsign (FP.Prim2B x) = false -> Bsign (FP.Prim2B y) = false -> Bsign (FP.Prim2B (x / y)) = false.
Proof.
  intros Sx Sy. rewrite FP.div_equiv.
  destruct (Req_dec (B2R (FP.Prim2B y)) 0) as [Z|Z].
  - (* y is zero, infinite or NaN: by definition of Bdiv *)
    destruct (FP.Prim2B y) as [sy|sy| |sy my ey Hy] eqn:EY; simpl in Sy; subst;
    destruct (FP.Prim2B x) as [sx|sx| |sx mx ex Hx] eqn:EX; simpl in Sx; subst; try reflexivity.
    exfalso. unfold B2R, F2R in Z. simpl in Z.
    assert (0 < bpow radix2 ey)%R by apply bpow_gt_0. assert (0 < IZR (Z.pos my))%R by (apply IZR_lt; lia). nra.
  - pose proof (Bdiv_correct prec emax FP.Hprec FP.Hmax mode_NE (FP.Prim2B x) (FP.Prim2B y) Z) as M.
    rewrite Sx, Sy in M. simpl xorb in M.
    destruct (Rlt_bool _ _).
    + destruct M as (_ & _ & M). destruct (finite_sign_cases (Bdiv mode_NE (FP.Prim2B x) (FP.Prim2B y))) as [N|N]; auto.
      rewrite N. reflexivity.
    + rewrite overflow_NE in M. apply B2SF_inf in M. rewrite M. reflexivity.
Qed.

(* ---------- int(x + d) >= L when x >= L (an integer below 2^53) and d is non-negative ---------- *)
Lemma trunc_none_inf (x : PrimFloat.float) s : FP.Prim2B x = B754_infinity s -> f_trunc x = None.
Proof. intros H. unfold f_trunc. rewrite <- FP.B2SF_Prim2B, H. reflexivity. Qed.
Lemma trunc_none_nan (x : PrimFloat.float) : FP.Prim2B x = B754_nan -> f_trunc x = None.
Proof. intros H. unfold f_trunc. rewrite <- FP.B2SF_Prim2B, H. reflexivity. Qed.

Lemma trunc_add_ge (x d : PrimFloat.float) (L z : Z) :
  0 < L < 2 ^ 53 -> posval (FP.Prim2B x) L -> Bsign (FP.Prim2B d) = false ->
  f_trunc (x + d) = Some z -> L <= z.
Proof.
  intros HL PX SD HT.
  assert (0 < IZR L)%R by (apply IZR_lt; lia).
  pose proof (FP.add_equiv x d) as EQ.
  destruct PX as [PX|[FX RX]].
  - (* x = +inf *)
    rewrite PX in EQ. destruct (FP.Prim2B d) as [sd|sd| |sd md ed Hd] eqn:ED; simpl in SD; subst; simpl in EQ.
    + rewrite (trunc_none_inf _ _ EQ) in HT. discriminate.
    + rewrite (trunc_none_inf _ _ EQ) in HT. discriminate.
    + rewrite (trunc_none_nan _ EQ) in HT. discriminate.
    + rewrite (trunc_none_inf _ _ EQ) in HT. discriminate.
  - destruct (FP.Prim2B d) as [sd|sd| |sd md ed Hd] eqn:ED; simpl in SD; subst.
    + (* d = +0 *)
      destruct (FP.Prim2B x) as [sx|sx| |sx mx ex Hx] eqn:EX; simpl in FX; try discriminate.
      * simpl in RX. lra.
      * simpl in EQ. apply (trunc_ge (x + d) L z); auto; try lia. rewrite EQ. exact RX.
    + destruct (FP.Prim2B x) as [sx|sx| |sx mx ex Hx] eqn:EX; simpl in FX; try discriminate;
      simpl in EQ; rewrite (trunc_none_inf _ _ EQ) in HT; discriminate.
    + destruct (FP.Prim2B x) as [sx|sx| |sx mx ex Hx] eqn:EX; simpl in FX; try discriminate;
      simpl in EQ; rewrite (trunc_none_nan _ EQ) in HT; discriminate.
    + pose proof (Bplus_correct prec emax FP.Hprec FP.Hmax mode_NE (FP.Prim2B x) (B754_finite false md ed Hd) FX eq_refl) as P.
      assert (0 <= B2R (B754_finite false md ed Hd))%R.
      { unfold B2R, F2R. simpl. assert (0 < bpow radix2 ed)%R by apply bpow_gt_0.
        assert (0 < IZR (Z.pos md))%R by (apply IZR_lt; lia). nra. }
      destruct (Rlt_bool _ _).
      * destruct P as (P1 & P2 & P3).
        apply (trunc_ge (x + d) L z); auto; try lia. rewrite EQ, P1.
        apply rnd_ge_int; [lia|lra].
      * destruct P as (P1 & P2). rewrite overflow_NE in P1. apply B2SF_inf in P1. rewrite <- EQ in P1.
        rewrite (trunc_none_inf _ _ P1) in HT. discriminate.
Qed.

(* ---------- relative error: used for int(float(w) * 1.5) >= w ---------- *)
Lemma rnd_ge_99 (r : R) : (1 <= r)%R -> (99 / 100 * r <= rnd r)%R.
Proof.
  intros Hr.
  pose proof (relative_error_N_FLT radix2 (SpecFloat.emin prec emax) prec FP.Hprec (fun x => negb (Z.even x)) r) as E.
  assert (B1 : (bpow radix2 (SpecFloat.emin prec emax + prec - 1) <= Rabs r)%R).
  { rewrite Rabs_pos_eq by lra. apply Rle_trans with (2 := Hr). change 1%R with (bpow radix2 0). apply bpow_le.
    unfold emin, emax, prec. lia. }
  specialize (E B1). rewrite (Rabs_pos_eq r) in E by lra.
  assert (B2 : (/ 2 * bpow radix2 (- prec + 1) <= 1 / 100)%R).
  { unfold prec. simpl. lra. }
  change (round radix2 (FLT_exp (SpecFloat.emin prec emax) prec) (Znearest (fun x : Z => negb (Z.even x))) r) with (rnd r) in E.
  apply Rabs_le_inv in E. nra.
Qed.

Lemma lor1_ge (a : Z) : 0 <= a -> a <= Z.lor a 1.
Proof. intros H. destruct a as [|p|p]; simpl; try lia. destruct p; simpl; lia. Qed.

Definition relval (X : B) (w : Z) : Prop :=
  X = B754_infinity false \/ (is_finite X = true /\ (97 / 100 * IZR w <= B2R X)%R).

Lemma of_nonneg_rel (w : Z) : 1 <= w -> relval (FP.Prim2B (f_of_nonneg w)) w.
Proof.
  intros Hw. unfold f_of_nonneg. destruct (w <? two62) eqn:E.
  - unfold two62 in E. destruct (of_small w ltac:(lia)) as [S V].
    destruct V as [V|[V1 V2]]; [left; auto|right]. split; auto.
    rewrite V2. assert (1 <= IZR w)%R by (apply IZR_le; lia).
    pose proof (rnd_ge_99 (IZR w) H). lra.
  - unfold two62 in E. assert (Hw2 : 2 ^ 62 <= w) by lia.
    destruct (hi_bounds w Hw2) as [Hk Hh]. cbv zeta in *.
    set (k := Z.log2 w - 61) in *.
    assert (Hhi : Z.shiftr w k <= (if Z.land w (Z.ones k) =? 0 then Z.shiftr w k else Z.lor (Z.shiftr w k) 1)).
    { destruct (_ =? 0); [lia|]. apply lor1_ge. apply Z.shiftr_nonneg. lia. }
    set (hi' := if Z.land w (Z.ones k) =? 0 then Z.shiftr w k else Z.lor (Z.shiftr w k) 1) in *.
    assert (Hwk : w < (hi' + 1) * 2 ^ k).
    { rewrite Z.shiftr_div_pow2 in Hhi by lia.
      assert (0 < 2 ^ k) by (apply Z.pow_pos_nonneg; lia).
      pose proof (Z.div_mod w (2 ^ k) ltac:(lia)). pose proof (Z.mod_pos_bound w (2 ^ k) H). nia. }
    rewrite FP.ldexp_equiv.
    destruct (of_small hi' ltac:(lia)) as [S V].
    set (Y := FP.Prim2B (of_uint63 (of_Z hi'))) in *.
    destruct V as [V|[V1 V2]].
    + rewrite V. simpl. left; reflexivity.
    + pose proof (Bldexp_correct prec emax FP.Hprec FP.Hmax mode_NE Y k) as LD.
      destruct (Rlt_bool _ _).
      * destruct LD as (D1 & D2 & D3). right. split; [congruence|]. rewrite D1.
        assert (H61 : (IZR (2 ^ 61) <= IZR hi')%R) by (apply IZR_le; lia).
        assert (P61 : (1 <= IZR (2 ^ 61))%R) by (apply IZR_le; lia).
        assert (Y1 : (99 / 100 * IZR hi' <= B2R Y)%R) by (rewrite V2; apply rnd_ge_99; lra).
        assert (K1 : (1 <= bpow radix2 k)%R) by (change 1%R with (bpow radix2 0); apply bpow_le; lia).
        assert (R1 : (99 / 100 * (B2R Y * bpow radix2 k) <= rnd (B2R Y * bpow radix2 k))%R) by (apply rnd_ge_99; nra).
        assert (W1 : (IZR w <= (IZR hi' + 1) * bpow radix2 k)%R).
        { rewrite <- (IZR_Zpower radix2) by lia. rewrite <- plus_IZR, <- mult_IZR. apply IZR_le. simpl. lia. }
        assert (W2 : (IZR hi' + 1 <= 101 / 100 * IZR hi')%R) by lra.
        assert (0 < bpow radix2 k)%R by lra.
        assert (W3 : (IZR w <= 101 / 100 * (IZR hi' * bpow radix2 k))%R) by nra.
        assert (Y2 : (99 / 100 * (IZR hi' * bpow radix2 k) <= B2R Y * bpow radix2 k)%R) by nra.
        assert (0 <= IZR hi' * bpow radix2 k)%R by nra.
        lra.
      * rewrite S, overflow_NE in LD. apply B2SF_inf in LD. rewrite LD. left; reflexivity.
Qed.

Definition f15 : PrimFloat.float := f_const C1_5.

Lemma f15_val : is_finite (FP.Prim2B f15) = true /\ B2R (FP.Prim2B f15) = (3 / 2)%R.
Proof.
  unfold FP.Prim2B.
  assert (E : Prim2SF f15 = S754_finite false 6755399441055744 (-52)) by (vm_compute; reflexivity).
  split.
  - rewrite is_finite_SF2B. rewrite E. reflexivity.
  - rewrite B2R_SF2B. rewrite E. unfold SF2R, F2R. simpl. lra.
Qed.

(* int(float(w) * 1.5) >= w *)
Lemma trunc_mul15_ge (w z : Z) : 1 <= w -> f_trunc (f_ofZ w * f15) = Some z -> w <= z.
Proof.
  intros Hw HT. unfold f_ofZ in HT. destruct (w <? 0) eqn:E; [lia|].
  pose proof (FP.mul_equiv (f_of_nonneg w) f15) as EQ.
  destruct f15_val as [F15 V15].
  assert (1 <= IZR w)%R by (apply IZR_le; lia).
  destruct (of_nonneg_rel w Hw) as [X|[FX RX]].
  - rewrite X in EQ. destruct (FP.Prim2B f15) as [s|s| |s m e Hb]; simpl in F15; try discriminate.
    + simpl in V15. lra.
    + simpl in EQ. rewrite (trunc_none_inf _ _ EQ) in HT. discriminate.
  - pose proof (Bmult_correct prec emax FP.Hprec FP.Hmax mode_NE (FP.Prim2B (f_of_nonneg w)) (FP.Prim2B f15)) as M.
    destruct (Rlt_bool _ _).
    + destruct M as (M1 & M2 & _). apply (trunc_ge (f_of_nonneg w * f15) w z); auto; try lia.
      rewrite EQ, M1, V15.
      assert (R1 : (99 / 100 * (B2R (FP.Prim2B (f_of_nonneg w)) * (3 / 2)) <= rnd (B2R (FP.Prim2B (f_of_nonneg w)) * (3 / 2)))%R)
        by (apply rnd_ge_99; lra).
      lra.
    + rewrite overflow_NE in M. apply B2SF_inf in M. rewrite <- EQ in M.
      rewrite (trunc_none_inf _ _ M) in HT. discriminate.
Qed.
