(* C03, two-party system (model/TlsTwoParty.v): groundwork.
   - knowledge is monotone in what was output;
   - one client step, classified: no progress / a handler succeeded (which, with its equation);
   - the server: what a successful _server_handle_hello emits, message by message (server_hello_detail), that a failing
     one either raises an alert (the connection closes) or leaves the state untouched, and what the later steps keep
     (srel). *)
From AQ Require Import lib.Base gen.TlsDispatch model.TlsSymbolic proofs.TlsDispatchLegal.
From AQ Require Import proofs.TlsSymbolicP1 proofs.TlsSymbolicP2 proofs.TlsSymbolicP4 proofs.TlsSymbolicP5.
From AQ Require Import model.TlsTwoParty.

Ltac fields := cbn [t_state t_ks t_kpsk t_kproxy t_resumed t_alpn t_early t_creq t_peer t_enc t_dec t_next_dec t_expected
                    t_recv_ext t_ext t_kex_mode t_keys set_state set_ks add_key log_key the_ks] in *.

Section K.
Variable O : oracles.
Variable adv : bytes -> Prop.

Lemma knows_mono : forall outs outs' x, (forall m, In m outs -> In m outs') -> knows O adv outs x -> knows O adv outs' x.
Proof.
  intros outs outs' x Hi H. induction H.
  - apply kn_out. auto.
  - apply kn_adv. assumption.
  - apply kn_app; assumption.
  - apply kn_take; assumption.
  - apply kn_drop; assumption.
  - apply kn_hash; assumption.
  - apply kn_hmac; assumption.
  - apply kn_extract; assumption.
  - apply kn_expand; assumption.
  - apply kn_pub; assumption.
  - eapply kn_dh; [ | | eassumption]; assumption.
  - apply kn_sign; assumption.
  - apply kn_build_ch; assumption.
  - apply kn_build_sh; assumption.
  - apply kn_build_ee; assumption.
  - apply kn_build_cr; assumption.
  - apply kn_build_ct; assumption.
  - apply kn_build_cv; assumption.
  - apply kn_build_fin; assumption.
  - eapply kn_parse_ch; eassumption.
  - eapply kn_parse_sh; eassumption.
  - eapply kn_parse_ee; eassumption.
  - eapply kn_parse_cr; eassumption.
  - eapply kn_parse_ct; eassumption.
  - eapply kn_parse_cv; eassumption.
  - eapply kn_parse_fin; eassumption.
Qed.

Lemma knows_app_l : forall outs more x, knows O adv outs x -> knows O adv (outs ++ more) x.
Proof. intros outs more x. apply knows_mono. intros m H. apply in_or_app. left. exact H. Qed.

End K.

Lemma with_parse_inv2 : forall A s (p : pres A) k o s' out0,
  with_parse s p k = (o, s', out0) ->
  (exists v, p = POk v /\ k v = (o, s', out0)) \/ (s' = s /\ o <> OOk /\ out0 = []).
Proof.
  intros A s p k o s' out0 H. destruct p; simpl in H.
  - left. eauto.
  - right. inversion H. split; [reflexivity | split; [discriminate | reflexivity]].
  - right. inversion H. split; [reflexivity | split; [discriminate | reflexivity]].
Qed.

Section S1.
Variable O : oracles.

Lemma run_snoc : forall c ms s m, run O c s (ms ++ [m]) = snd (fst (step O c (run O c s ms) m)).
Proof.
  intros c ms. induction ms as [| a r IH]; intros s m; simpl.
  - destruct (step O c s m) as [[o s1] out]. reflexivity.
  - destruct (step O c s a) as [[o s1] out]. apply IH.
Qed.

(* ---------- one client step ---------------------------------------------------------------------------------- *)
Definition quiet_state (x : State) : Prop :=
  x <> CLIENT_EXPECT_CERTIFICATE_VERIFY /\ x <> CLIENT_EXPECT_FINISHED /\ x <> CLIENT_POST_HANDSHAKE.

Inductive cstep (c : cfg) (s : tst) (m : bytes) (o : outcome) (s' : tst) (out0 : out) : Prop :=
| cs_none : out0 = [] -> t_state s' = t_state s -> (s' = s \/ quiet_state (t_state s)) -> cstep c s m o s' out0
| cs_early : o = OOk -> out0 = [] -> t_state s <> CLIENT_POST_HANDSHAKE ->
             t_state s' <> CLIENT_EXPECT_FINISHED -> t_state s' <> CLIENT_POST_HANDSHAKE ->
             cstep c s m o s' out0
| cs_ee_resumed : o = OOk -> out0 = [] -> t_state s = CLIENT_EXPECT_ENCRYPTED_EXTENSIONS ->
                  t_state s' = CLIENT_EXPECT_FINISHED -> t_resumed s' = true -> cstep c s m o s' out0
| cs_cv : o = OOk -> out0 = [] -> framed m -> t_state s = CLIENT_EXPECT_CERTIFICATE_VERIFY ->
          client_handle_certificate_verify O c s m = (OOk, s', []) -> t_state s' = CLIENT_EXPECT_FINISHED ->
          cstep c s m o s' out0
| cs_fin : o = OOk -> framed m -> t_state s = CLIENT_EXPECT_FINISHED ->
           client_handle_finished O c s m = (OOk, s', out0) -> t_state s' = CLIENT_POST_HANDSHAKE ->
           cstep c s m o s' out0.

Lemma quiet_of : forall x, x <> CLIENT_EXPECT_CERTIFICATE_VERIFY -> x <> CLIENT_EXPECT_FINISHED -> x <> CLIENT_POST_HANDSHAKE ->
  quiet_state x.
Proof. intros; repeat split; assumption. Qed.

Lemma client_step_cases : forall c s m o s' out0,
  cinv2 O c s -> step O c s m = (o, s', out0) -> cstep c s m o s' out0.
Proof.
  intros c s m o s' out0 I H.
  destruct (c2_client O c s I) as [Hc Hn].
  unfold step in H.
  destruct (t_state s) eqn:Es; try discriminate Hc; try congruence;
    (destruct (negb (framedb m)) eqn:Fm; [inversion H; subst; apply cs_none; auto |]);
    rewrite dispatch_all in H; cbn [legal_next] in H;
    repeat match type of H with
    | context [if ?b then _ else _] => destruct b
    end;
    cbn [run_handler] in H; try (inversion H; subst; apply cs_none; auto; fail);
    apply negb_false_iff in Fm.
  - (* ServerHello *)
    unfold client_handle_hello in H.
    apply with_parse_inv2 in H. destruct H as [(v & _ & H) | (-> & _ & ->)]; [| apply cs_none; auto].
    assert (Q : quiet_state (t_state s)) by (rewrite Es; apply quiet_of; discriminate).
    destruct (negotiate memz (f_suites c) [sh_suite v]) as [suite |]; [| inversion H; subst; apply cs_none; auto].
    destruct (negb (memz (sh_comp v) (f_comp c))); [inversion H; subst; apply cs_none; auto |].
    destruct (negb match sh_version v with Some x => memz x (f_versions c) | None => false end);
      [inversion H; subst; apply cs_none; auto |].
    apply with_parse_inv2 in H. destruct H as [([ks psk] & Hsel & H) | (-> & _ & ->)]; [| apply cs_none; auto].
    destruct (sh_key_share v) as [[g pk] |]; [| inversion H; subst; apply cs_none; fields; auto].
    destruct (o_decode O g pk =? 2); [inversion H; subst; apply cs_none; fields; auto |].
    destruct (if o_decode O g pk =? 1 then find_priv g (f_privs c) None else None) as [priv |];
      [| inversion H; subst; apply cs_none; fields; auto].
    destruct (o_dh O g priv pk) as [shared |]; [| inversion H; subst; apply cs_none; fields; auto].
    inversion H; subst o s' out0; clear H. apply cs_early; fields; rewrite ?Es; auto; discriminate.
  - (* EncryptedExtensions *)
    unfold client_handle_encrypted_extensions in H.
    apply with_parse_inv2 in H. destruct H as [(v & _ & H) | (-> & _ & ->)]; [| apply cs_none; auto].
    assert (Q : quiet_state (t_state s)) by (rewrite Es; apply quiet_of; discriminate).
    destruct (f_alpn_cb c (ee_alpn v) (ee_other v)) as [code newext].
    destruct (negb (code =? 0)); [inversion H; subst; apply cs_none; fields; auto |].
    inversion H; subst o s' out0; clear H.
    destruct (t_resumed s) eqn:Er.
    + apply cs_ee_resumed; fields; auto.
    + apply cs_early; fields; rewrite ?Es; auto; discriminate.
  - (* Certificate *)
    unfold client_handle_certificate in H.
    apply with_parse_inv2 in H. destruct H as [(v & _ & H) | (-> & _ & ->)]; [| apply cs_none; auto].
    assert (Q : quiet_state (t_state s)) by (rewrite Es; apply quiet_of; discriminate).
    apply with_parse_inv2 in H. destruct H as [(s2 & Hset & H) | (-> & _ & ->)]; [| apply cs_none; fields; auto].
    inversion H; subst o s' out0; clear H. apply cs_early; fields; rewrite ?Es; auto; discriminate.
  - (* CertificateRequest *)
    unfold client_handle_certificate_request in H.
    apply with_parse_inv2 in H. destruct H as [(v & _ & H) | (-> & _ & ->)]; [| apply cs_none; auto].
    inversion H; subst o s' out0; clear H. apply cs_early; fields; rewrite ?Es; auto; discriminate.
  - (* Certificate (after a request) *)
    unfold client_handle_certificate in H.
    apply with_parse_inv2 in H. destruct H as [(v & _ & H) | (-> & _ & ->)]; [| apply cs_none; auto].
    assert (Q : quiet_state (t_state s)) by (rewrite Es; apply quiet_of; discriminate).
    apply with_parse_inv2 in H. destruct H as [(s2 & Hset & H) | (-> & _ & ->)]; [| apply cs_none; fields; auto].
    inversion H; subst o s' out0; clear H. apply cs_early; fields; rewrite ?Es; auto; discriminate.
  - (* CertificateVerify *)
    pose proof H as H0.
    unfold client_handle_certificate_verify in H.
    apply with_parse_inv2 in H. destruct H as [(v & _ & H) | (-> & _ & ->)]; [| apply cs_none; auto].
    destruct (check_cv O c s v SERVER_CONTEXT_STRING); [inversion H; subst; apply cs_none; auto |].
    destruct (negb ((if f_verify c then o_cert_ok O (verify_name c) (t_peer s) else 0) =? 0));
      [inversion H; subst; apply cs_none; auto |].
    inversion H; subst o s' out0; clear H. apply cs_cv; fields; auto.
  - (* Finished *)
    pose proof H as H0.
    unfold client_handle_finished in H.
    apply with_parse_inv2 in H. destruct H as [(vd & _ & H) | (-> & _ & ->)]; [| apply cs_none; auto]. cbv zeta in H.
    destruct (negb (beqb vd (ks_finished O (the_ks s) (t_dec s)))); [inversion H; subst; apply cs_none; auto |].
    assert (G : k_gen (ks_update (the_ks s) m) = 2).
    { assert (Hh : hs_state (t_state s) = true) by (rewrite Es; reflexivity).
      destruct (c2_hs O c s I Hh) as [_ G]. exact G. }
    rewrite G in H. cbn [Z.eqb Pos.eqb negb] in H.
    match type of H with (let '(k3, msgs) := ?X in _) = _ => destruct X as [k3 msgs] end.
    inversion H; subst o s' out0. apply cs_fin; fields; auto.
  - (* NewSessionTicket *)
    unfold client_handle_new_session_ticket in H.
    apply with_parse_inv2 in H. destruct H as [(v & _ & H) | (-> & _ & ->)]; [| apply cs_none; auto].
    inversion H; subst. apply cs_none; auto.
Qed.

(* ---------- the server's hello step --------------------------------------------------------------------------- *)
Lemma server_select_psk_gen : forall c s2 v m suite kex x,
  server_select_psk O c s2 v m suite kex = POk (Some x) -> k_gen (the_ks x) = 1.
Proof.
  intros c s2 v m suite kex x H. unfold server_select_psk in H.
  repeat match type of H with
  | context [match ?y with _ => _ end] => destruct y eqn:?
  end; try discriminate; inversion H; subst x; clear H; reflexivity.
Qed.

Lemma server_select_psk_noexn : forall c s2 v m suite kex e,
  server_select_psk O c s2 v m suite kex <> PExn e.
Proof.
  intros c s2 v m suite kex e H. unfold server_select_psk in H.
  repeat match type of H with
  | context [match ?y with _ => _ end] => destruct y eqn:?
  end; discriminate.
Qed.

Lemma server_kex_pub : forall c l g pubk sh,
  server_kex O c l = POk (Some (g, pubk, sh)) ->
  pubk = o_pub O g (f_spriv c g) /\ exists pk, In (g, pk) l /\ o_dh O g (f_spriv c g) pk = Some sh.
Proof.
  intros c l. induction l as [| [g0 pk0] r IH]; intros g pubk sh H; simpl in H; [discriminate |].
  destruct (o_decode O g0 pk0 =? 2); [discriminate |].
  destruct (o_decode O g0 pk0 =? 1).
  - destruct (o_dh O g0 (f_spriv c g0) pk0) eqn:E; [| discriminate].
    inversion H; subst. split; [reflexivity |]. exists pk0. split; [left; reflexivity | exact E].
  - destruct (IH g pubk sh H) as [A (pk & B & D)]. split; [exact A |]. exists pk. split; [right; exact B | exact D].
Qed.

Definition sflight_shv (c : cfg) (sid : bytes) (suite comp version : Z) (psk : bool) (g : Z) (pubk : bytes) : sh_view :=
  mkSH (f_random c) sid suite comp (Some (g, pubk)) (if psk then Some 0 else None) (Some version).

(* the flight, message by message *)
Lemma server_flight_detail : forall c s5 sid suite comp sigalg version kex psk g pubk shared s' out0,
  server_flight O c s5 sid suite comp sigalg version kex psk g pubk shared = (OOk, s', out0) ->
  let shm := o_build_sh O (sflight_shv c sid suite comp version psk g pubk) in
  let k1 := ks_extract O (ks_update (the_ks s5) shm) (Some shared) in
  let eem := o_build_ee O (mkEE (t_alpn s5) (t_early s5) (t_ext s5)) in
  let eS := ks_derive O k1 L_s_hs_traffic in
  let cS := ks_derive O k1 L_c_hs_traffic in
  exists auth k3,
    map snd out0 = shm :: eem :: auth ++ [o_build_fin O (ks_finished O k3 eS)] /\
    k_tr k3 = k_tr (the_ks s5) ++ shm ++ eem ++ concat auth /\ k_suite k3 = k_suite (the_ks s5) /\
    k_secret k3 = k_secret k1 /\ k_gen k3 = 2 /\
    server_after O s' (t_keys s5) k3 eS cS (o_build_fin O (ks_finished O k3 eS)) /\
    k_suite (the_ks s') = k_suite (the_ks s5) /\ t_resumed s' = t_resumed s5 /\ t_alpn s' = t_alpn s5 /\
    t_early s' = t_early s5 /\
    (t_state s' = SERVER_EXPECT_CERTIFICATE \/ t_state s' = SERVER_EXPECT_FINISHED) /\
    (if psk then auth = [] else
       exists crl ctv kb,
         auth = crl ++ [o_build_ct O ctv;
                        o_build_cv O (mkCV sigalg (o_sign O (f_key c) sigalg (ks_cv_data O kb SERVER_CONTEXT_STRING)))] /\
         k_tr kb = k_tr (the_ks s5) ++ shm ++ eem ++ concat crl ++ o_build_ct O ctv /\
         k_suite kb = k_suite (the_ks s5) /\
         (crl = [] \/ exists v, crl = [o_build_cr O v])).
Proof.
  intros c s5 sid suite comp sigalg version kex psk g pubk shared s' out0 H shm k1 eem eS cS.
  unfold server_flight in H. cbv zeta in H. fold (sflight_shv c sid suite comp version psk g pubk) in H.
  fold shm in H. fold k1 in H.
  match type of H with (let '(k3, authmsgs) := ?X in _) = _ => destruct X as [k3 authmsgs] eqn:E3 end.
  match type of H with (if negb (k_gen ?k4 =? 2) then _ else _) = _ => destruct (k_gen k4 =? 2) eqn:G end;
    cbn [negb] in H; [| destruct (f_reqcert c); discriminate].
  apply Z.eqb_eq in G. cbn [k_gen ks_update] in G.
  exists authmsgs, k3.
  assert (K3 : k_tr k3 = k_tr (the_ks s5) ++ shm ++ eem ++ concat authmsgs /\ k_suite k3 = k_suite (the_ks s5) /\
               k_secret k3 = k_secret k1 /\
               (if psk then authmsgs = [] else
                exists crl ctv kb,
                  authmsgs = crl ++ [o_build_ct O ctv;
                      o_build_cv O (mkCV sigalg (o_sign O (f_key c) sigalg (ks_cv_data O kb SERVER_CONTEXT_STRING)))] /\
                  k_tr kb = k_tr (the_ks s5) ++ shm ++ eem ++ concat crl ++ o_build_ct O ctv /\
                  k_suite kb = k_suite (the_ks s5) /\
                  (crl = [] \/ exists v, crl = [o_build_cr O v]))).
  { destruct psk.
    - inversion E3; subst k3 authmsgs. cbn [concat]. rewrite app_nil_r.
      split; [cbn; rewrite <- app_assoc; reflexivity |]. split; [reflexivity |]. split; reflexivity.
    - destruct (f_reqcert c); inversion E3; subst k3 authmsgs; clear E3.
      + split; [cbn; rewrite ?app_nil_r, <- ?app_assoc; reflexivity |]. split; [reflexivity |]. split; [reflexivity |].
        eexists [_], _, _. split; [reflexivity |]. split; [cbn; rewrite ?app_nil_r, <- ?app_assoc; reflexivity |].
        split; [reflexivity |]. right. eexists. reflexivity.
      + split; [cbn; rewrite ?app_nil_r, <- ?app_assoc; reflexivity |]. split; [reflexivity |]. split; [reflexivity |].
        exists [], (mkCT [] (map (fun d => (d, [])) (f_chain c))). eexists. split; [reflexivity |].
        split; [cbn; rewrite ?app_nil_r, <- ?app_assoc; reflexivity |]. split; [reflexivity |]. left. reflexivity. }
  destruct K3 as (KT & KS & KSec & KA).
  assert (Hout : map snd out0 = shm :: eem :: authmsgs ++ [o_build_fin O (ks_finished O k3 eS)]).
  { destruct (f_reqcert c); inversion H; subst out0; cbn [map snd app]; rewrite map_map; cbn [snd]; rewrite map_id;
      reflexivity. }
  split; [exact Hout |]. split; [exact KT |]. split; [exact KS |]. split; [exact KSec |]. split; [exact G |].
  destruct (f_reqcert c); inversion H; subst s' out0; clear H.
  - split.
    { unfold server_after. fields. split; [| split; reflexivity].
      eexists; eexists; eexists. rewrite <- !app_assoc. reflexivity. }
    fields. cbn [k_suite ks_extract ks_update]. repeat split; auto.
  - split.
    { unfold server_after, server_expect_finished. fields. split; [| split; reflexivity].
      eexists; eexists; eexists. rewrite <- !app_assoc. reflexivity. }
    unfold server_expect_finished. fields. cbn [k_suite ks_extract ks_update]. repeat split; auto.
Qed.

Lemma server_hello_detail : forall c s m s' out0,
  t_resumed s = false ->
  server_handle_hello O c s m = (OOk, s', out0) ->
  exists s5 sid suite comp sigalg version kex psk g shared pk,
    server_flight O c s5 sid suite comp sigalg version kex psk g (o_pub O g (f_spriv c g)) shared = (OOk, s', out0) /\
    k_tr (the_ks s5) = m /\ k_suite (the_ks s5) = suite /\ t_resumed s5 = psk /\
    o_dh O g (f_spriv c g) pk = Some shared.
Proof.
  intros c s m s' out0 Hr0 H. unfold server_handle_hello in H.
  apply with_parse_inv2 in H. destruct H as [(v & _ & H) | (_ & X & _)]; [| congruence].
  destruct (negotiate memz (f_suites c) (ch_suites v)) as [suite |]; [| discriminate].
  destruct (negotiate memz (f_comp c) (ch_comp v)) as [comp |]; [| discriminate].
  destruct (negotiate_opt memz (f_key_sigalgs c) (ch_sigalgs v)) as [sigalg |]; [| discriminate].
  destruct (negotiate_opt memz (f_versions c) (ch_versions v)) as [version |]; [| discriminate].
  apply with_parse_inv2 in H. destruct H as [(alpn & _ & H) | (_ & X & _)]; [| congruence].
  cbv zeta in H.
  destruct (f_alpn_cb c alpn (ch_other v)) as [code newext].
  destruct (negb (code =? 0)); [discriminate |].
  apply with_parse_inv2 in H. destruct H as [(pskst & Hpsk & H) | (_ & X & _)]; [| congruence].
  apply with_parse_inv2 in H. destruct H as [(kx & Hkx & H) | (_ & X & _)]; [| congruence].
  destruct kx as [[[g pubk] shared] |]; [| discriminate].
  apply server_kex_pub in Hkx. destruct Hkx as [-> (pk & _ & Hdh)].
  do 10 eexists. exists pk. split; [exact H |].
  destruct pskst as [x |].
  - apply server_select_psk_spec in Hpsk. destruct Hpsk as (A & B & C & D).
    split; [exact B |]. split; [exact C |]. split; [exact D | exact Hdh].
  - cbv beta iota zeta delta [the_ks set_ks t_ks t_resumed k_tr k_suite ks_update ks_extract ks_new].
    split; [reflexivity |]. split; [reflexivity |]. split; [exact Hr0 | exact Hdh].
Qed.

(* a ClientHello the server does not answer: nothing is emitted, and either an alert closes the connection or the
   state is untouched *)
Lemma server_flight_fail : forall c s5 sid suite comp sigalg version kex psk g pubk shared o s' out0,
  k_gen (the_ks s5) = 1 ->
  server_flight O c s5 sid suite comp sigalg version kex psk g pubk shared = (o, s', out0) -> o = OOk.
Proof.
  intros c s5 sid suite comp sigalg version kex psk g pubk shared o s' out0 G1 H.
  unfold server_flight in H. cbv zeta in H.
  match type of H with (let '(k3, authmsgs) := ?X in _) = _ => destruct X as [k3 authmsgs] eqn:E3 end.
  assert (G : k_gen k3 = 2).
  { destruct psk.
    - inversion E3. cbn [k_gen ks_update ks_extract]. rewrite G1. reflexivity.
    - destruct (f_reqcert c); inversion E3; cbn [k_gen ks_update ks_extract]; rewrite G1; reflexivity. }
  cbn [k_gen ks_update] in H. rewrite G in H. cbn [Z.eqb Pos.eqb negb] in H.
  destruct (f_reqcert c); inversion H; reflexivity.
Qed.

Lemma server_hello_fail : forall c s m o s' out0,
  server_handle_hello O c s m = (o, s', out0) -> o <> OOk ->
  out0 = [] /\ t_state s' = t_state s /\ (s' = s \/ fatal o = true).
Proof.
  intros c s m o s' out0 H No. unfold server_handle_hello in H.
  apply with_parse_inv2 in H. destruct H as [(v & _ & H) | (-> & _ & ->)].
  2:{ auto. }
  destruct (negotiate memz (f_suites c) (ch_suites v)) as [suite |]; [| inversion H; subst; auto].
  destruct (negotiate memz (f_comp c) (ch_comp v)) as [comp |]; [| inversion H; subst; auto].
  destruct (negotiate_opt memz (f_key_sigalgs c) (ch_sigalgs v)) as [sigalg |]; [| inversion H; subst; auto].
  destruct (negotiate_opt memz (f_versions c) (ch_versions v)) as [version |]; [| inversion H; subst; auto].
  match type of H with with_parse s ?p _ = _ => destruct p as [alpn | d | e] eqn:Ea end; cbn [with_parse] in H;
    [| inversion H; subst; auto | ].
  2:{ destruct (f_alpn c); [destruct (negotiate_opt memb l (ch_alpn v)) |]; discriminate. }
  cbv zeta in H.
  destruct (f_alpn_cb c alpn (ch_other v)) as [code newext].
  destruct (negb (code =? 0)); [inversion H; subst; fields; auto |].
  match type of H with with_parse ?s2 ?p _ = _ => destruct p as [pskst | d | e] eqn:Ep end; cbn [with_parse] in H.
  2:{ inversion H; subst; fields; auto. }
  2:{ exfalso. eapply server_select_psk_noexn; eauto. }
  assert (S5 : forall x, pskst = Some x -> t_state x = t_state s /\ k_gen (the_ks x) = 1).
  { intros x Hx. subst pskst. split.
    - apply server_select_psk_spec in Ep. destruct Ep as [A _]. exact A.
    - eapply server_select_psk_gen; eauto. }
  match type of H with with_parse ?s5 ?p _ = _ => set (s5v := s5) in *; destruct p as [kx | d | e] eqn:Ek end;
    cbn [with_parse] in H.
  2:{ inversion H; subst. split; [reflexivity |]. split; [| right; reflexivity].
      subst s5v. destruct pskst; [apply S5; reflexivity | reflexivity]. }
  2:{ exfalso. clear - Ek. revert Ek. generalize (match ch_key_share v with Some l => l | None => [] end).
      induction l as [| [g0 pk0] r IH]; simpl; [discriminate |].
      destruct (o_decode O g0 pk0 =? 2); [discriminate |].
      destruct (o_decode O g0 pk0 =? 1); [destruct (o_dh O g0 (f_spriv c g0) pk0); discriminate | exact IH]. }
  destruct kx as [[[g pubk] shared] |].
  - exfalso. apply No. eapply server_flight_fail; [| exact H].
    subst s5v. destruct pskst; [apply S5; reflexivity | reflexivity].
  - inversion H; subst. split; [reflexivity |]. split; [| right; reflexivity].
    subst s5v. destruct pskst; [apply S5; reflexivity | reflexivity].
Qed.

(* ---------- what the server keeps after its flight ---------------------------------------------------------------- *)
Definition after_hello (x : State) : bool :=
  match x with
  | SERVER_EXPECT_CERTIFICATE | SERVER_EXPECT_CERTIFICATE_VERIFY | SERVER_EXPECT_FINISHED | SERVER_POST_HANDSHAKE => true
  | _ => false
  end.

Record srel (ss1 s : tst) : Prop := mkSrel {
  sr_state : after_hello (t_state s) = true;
  sr_suite : k_suite (the_ks s) = k_suite (the_ks ss1);
  sr_res : t_resumed s = t_resumed ss1;
  sr_alpn : t_alpn s = t_alpn ss1;
  sr_early : t_early s = t_early ss1;
  sr_pre : t_state s <> SERVER_POST_HANDSHAKE -> t_keys s = t_keys ss1 /\ t_next_dec s = t_next_dec ss1;
  sr_post : t_state s = SERVER_POST_HANDSHAKE ->
            t_keys s = t_keys ss1 ++ [(DIR_DECRYPT, EP_ONE_RTT, k_suite (the_ks ss1), t_next_dec ss1)]
}.

Lemma srel_refl : forall s, after_hello (t_state s) = true -> t_state s <> SERVER_POST_HANDSHAKE -> srel s s.
Proof. intros s A B. constructor; auto. intro E. contradiction. Qed.

Lemma srel_same : forall ss1 s s',
  srel ss1 s -> t_state s' = t_state s -> k_suite (the_ks s') = k_suite (the_ks s) -> t_resumed s' = t_resumed s ->
  t_alpn s' = t_alpn s -> t_early s' = t_early s -> t_keys s' = t_keys s -> t_next_dec s' = t_next_dec s -> srel ss1 s'.
Proof.
  intros ss1 s s' R A B C D E F G. destruct R. constructor; rewrite ?A, ?B, ?C, ?D, ?E, ?F, ?G; auto.
Qed.

Lemma srel_move : forall ss1 s s' x,
  srel ss1 s -> t_state s <> SERVER_POST_HANDSHAKE -> t_state s' = x -> after_hello x = true -> x <> SERVER_POST_HANDSHAKE ->
  k_suite (the_ks s') = k_suite (the_ks s) -> t_resumed s' = t_resumed s ->
  t_alpn s' = t_alpn s -> t_early s' = t_early s -> t_keys s' = t_keys s -> t_next_dec s' = t_next_dec s -> srel ss1 s'.
Proof.
  intros ss1 s s' x R N A A1 A2 B C D E F G. destruct R. constructor; rewrite ?A, ?B, ?C, ?D, ?E, ?F, ?G; auto.
  intro Q. contradiction.
Qed.

Lemma srel_step : forall c ss1 s m o s' out0, srel ss1 s -> step O c s m = (o, s', out0) -> srel ss1 s' /\ out0 = [].
Proof.
  intros c ss1 s m o s' out0 R H. pose proof (sr_state _ _ R) as Hs.
  unfold step in H.
  destruct (t_state s) eqn:Es; try discriminate Hs;
    (destruct (negb (framedb m)); [inversion H; subst; split; [exact R | reflexivity] |]);
    rewrite dispatch_all in H; cbn [legal_next] in H;
    repeat match type of H with
    | context [if ?b then _ else _] => destruct b
    end;
    cbn [run_handler] in H;
    try (inversion H; subst; split; [exact R | reflexivity]).
  - (* Certificate *)
    unfold server_handle_certificate in H.
    apply with_parse_inv2 in H. destruct H as [(v & _ & H) | (-> & _ & ->)].
    2:{ split; auto. }
    cbv zeta in H. destruct (ct_certs v) as [| e r].
    + inversion H; subst. split; [| reflexivity].
      eapply (srel_move ss1 s _ SERVER_EXPECT_FINISHED R); try reflexivity; try discriminate; rewrite ?Es; try discriminate.
    + match type of H with with_parse ?s1 ?p _ = _ => destruct p as [s2 | d | e0] eqn:Ep end; cbn [with_parse] in H;
        inversion H; subst; (split; [| reflexivity]).
      * unfold set_peer in Ep. destruct (forallb (fun e0 => o_load O (fst e0)) (e :: r)); [| discriminate].
        inversion Ep; subst s2.
        eapply (srel_move ss1 s _ SERVER_EXPECT_CERTIFICATE_VERIFY R); try reflexivity; try discriminate;
          rewrite ?Es; try discriminate.
      * eapply (srel_same ss1 s _ R); try reflexivity.
      * eapply (srel_same ss1 s _ R); try reflexivity.
  - (* CertificateVerify *)
    unfold server_handle_certificate_verify in H.
    apply with_parse_inv2 in H. destruct H as [(v & _ & H) | (-> & _ & ->)].
    2:{ split; auto. }
    destruct (check_cv O c s v CLIENT_CONTEXT_STRING); inversion H; subst; (split; [| reflexivity]).
    + exact R.
    + eapply (srel_move ss1 s _ SERVER_EXPECT_FINISHED R); try reflexivity; try discriminate; rewrite ?Es; try discriminate.
  - (* Finished *)
    unfold server_handle_finished in H.
    apply with_parse_inv2 in H. destruct H as [(v & _ & H) | (-> & _ & ->)].
    2:{ split; auto. }
    destruct (negb (beqb v (t_expected s))); inversion H; subst; (split; [| reflexivity]).
    + exact R.
    + assert (N : t_state s <> SERVER_POST_HANDSHAKE) by (rewrite Es; discriminate).
      destruct (sr_pre _ _ R N) as [K1 K2]. destruct R. constructor; fields; auto.
      * intro Q; exfalso; apply Q; reflexivity.
      * intros _. rewrite K1, K2, sr_suite0. reflexivity.
Qed.

End S1.
