(* C01: fairness as accounting.  [unacked s] = number of written bytes not yet acknowledged (+ 1 for a written,
   not yet acknowledged FIN).  For EVERY schedule of data steps: writes add to it, nothing else raises it, and every
   "useful" acknowledgement (ACKED outcome of an emitted frame that carries at least one byte, or a FIN while no FIN
   was acknowledged yet) lowers it by at least one.  Hence any schedule made of k rounds, each containing one useful
   acknowledgement, completes the stream as soon as k >= unacked; and from every reachable incomplete state such a
   round exists (declare the frames without outcome LOST, emit, deliver, acknowledge). *)
From Coq Require Import ZArith List Bool Lia ZifyBool Permutation.
From AQ Require Import lib.Base model.RangeSet model.StreamRecv model.StreamSpec model.StreamSend model.NetSys model.NetSysLive
  proofs.RangeSetP proofs.ListZ proofs.StreamRecvP proofs.StreamSendP proofs.NetSysP proofs.NetSysP2 proofs.NetSysP3
  proofs.NetSysP4.

(* ---------- sums over an interval of Z ---------- *)
Fixpoint zsum (f : Z -> Z) (lo : Z) (n : nat) : Z :=
  match n with O => 0 | S n => f lo + zsum f (lo + 1) n end.

Lemma zsum_ext f g : forall n lo, (forall o, lo <= o < lo + Z.of_nat n -> f o = g o) -> zsum f lo n = zsum g lo n.
Proof.
  induction n as [|n IH]; intros lo H; cbn [zsum]; [reflexivity|].
  rewrite (H lo) by lia. rewrite (IH (lo + 1)); [reflexivity|]. intros o Ho. apply H. lia.
Qed.

Lemma zsum_plus f g : forall n lo, zsum (fun o => f o + g o) lo n = zsum f lo n + zsum g lo n.
Proof. induction n as [|n IH]; intros lo; cbn [zsum]; [reflexivity|]. rewrite IH. lia. Qed.

Lemma zsum_app f : forall n m lo, zsum f lo (n + m) = zsum f lo n + zsum f (lo + Z.of_nat n) m.
Proof.
  induction n as [|n IH]; intros m lo; cbn [zsum plus].
  - replace (lo + Z.of_nat 0) with lo by lia. lia.
  - rewrite IH. replace (lo + 1 + Z.of_nat n) with (lo + Z.of_nat (S n)) by lia. lia.
Qed.

Lemma zsum_nonneg f : forall n lo, (forall o, lo <= o < lo + Z.of_nat n -> 0 <= f o) -> 0 <= zsum f lo n.
Proof.
  induction n as [|n IH]; intros lo H; cbn [zsum]; [lia|].
  pose proof (H lo ltac:(lia)). assert (0 <= zsum f (lo + 1) n) by (apply IH; intros o Ho; apply H; lia). lia.
Qed.

Lemma zsum_le1 f : forall n lo, (forall o, lo <= o < lo + Z.of_nat n -> f o <= 1) -> zsum f lo n <= Z.of_nat n.
Proof.
  induction n as [|n IH]; intros lo H; cbn [zsum]; [lia|].
  pose proof (H lo ltac:(lia)). assert (zsum f (lo + 1) n <= Z.of_nat n) by (apply IH; intros o Ho; apply H; lia). lia.
Qed.

Lemma zsum_zero_all f : forall n lo, (forall o, lo <= o < lo + Z.of_nat n -> 0 <= f o) -> zsum f lo n = 0 ->
  forall o, lo <= o < lo + Z.of_nat n -> f o = 0.
Proof.
  induction n as [|n IH]; intros lo H Hz o Ho; [lia|]. cbn [zsum] in Hz.
  pose proof (H lo ltac:(lia)). assert (0 <= zsum f (lo + 1) n) by (apply zsum_nonneg; intros o' Ho'; apply H; lia).
  destruct (Z.eq_dec o lo) as [->|Hne]; [lia|]. apply (IH (lo + 1)); [intros o' Ho'; apply H; lia|lia|lia].
Qed.

Lemma zsum_inr a b : forall n lo, zsum (inr a b) lo n = Z.max 0 (Z.min b (lo + Z.of_nat n) - Z.max a lo).
Proof.
  induction n as [|n IH]; intros lo; cbn [zsum]; [lia|]. rewrite IH. unfold inr.
  destruct ((a <=? lo) && (lo <? b)) eqn:E; lia.
Qed.

(* ---------- the measure ---------- *)
Definition unacked_at (st : send) (o : Z) : Z := 1 - ackedb st o.
Definition finbit (st : send) : Z :=
  match s_fin st with Some _ => if s_acked_fin st then 0 else 1 | None => 0 end.
Definition unacked (s : net) : Z :=
  zsum (unacked_at (n_send s)) 0 (Z.to_nat (Zlen (n_written s))) + finbit (n_send s).

Lemma unacked_at_range st o : 0 <= unacked_at st o <= 1.
Proof. unfold unacked_at, ackedb. destruct (o <? s_start st); [lia|]. destruct (contains o (s_acked st)); cbn; lia. Qed.

Lemma finbit_range st : 0 <= finbit st <= 1.
Proof. unfold finbit. destruct (s_fin st); [destruct (s_acked_fin st)|]; lia. Qed.

Lemma unacked_nonneg s : 0 <= unacked s.
Proof.
  unfold unacked. pose proof (finbit_range (n_send s)).
  assert (0 <= zsum (unacked_at (n_send s)) 0 (Z.to_nat (Zlen (n_written s)))) by (apply zsum_nonneg; intros o _; apply unacked_at_range).
  lia.
Qed.

(* the measure only depends on the acknowledgement state *)
Lemma unacked_same s' s : same_acks s' s -> unacked s' = unacked s.
Proof.
  intros (_ & A2 & A3 & A4 & A5 & A6). unfold unacked, finbit. rewrite A2, A4, A6. f_equal.
  apply zsum_ext. intros o _. unfold unacked_at, ackedb. rewrite A3, A5. reflexivity.
Qed.

Lemma unacked_bound s : nreach s -> unacked s <= Zlen (n_written s) - s_start (n_send s) + 1.
Proof.
  intros R. pose proof (nreach_inv _ R) as I. destruct (ni_reach _ I) as (outs & Rs & _). pose proof (reach_inv _ _ Rs) as V.
  pose proof (v_start _ _ V) as Hst. pose proof (v_stop _ _ V) as Hsp. cbn [g_written] in Hsp.
  unfold unacked. pose proof (finbit_range (n_send s)).
  pose proof (Zlen_nonneg (n_written s)) as Hw.
  replace (Z.to_nat (Zlen (n_written s))) with (Z.to_nat (s_start (n_send s)) + Z.to_nat (Zlen (n_written s) - s_start (n_send s)))%nat by lia.
  rewrite zsum_app.
  assert (E1 : zsum (unacked_at (n_send s)) 0 (Z.to_nat (s_start (n_send s))) = 0).
  { rewrite (zsum_ext _ (inr 0 0)); [rewrite zsum_inr; lia|]. intros o Ho. unfold unacked_at, ackedb, inr.
    assert (E : o <? s_start (n_send s) = true) by lia. rewrite E. destruct ((0 <=? o) && (o <? 0)) eqn:E'; lia. }
  pose proof (zsum_le1 (unacked_at (n_send s)) (Z.to_nat (Zlen (n_written s) - s_start (n_send s)))
                (0 + Z.of_nat (Z.to_nat (s_start (n_send s)))) (fun o _ => proj2 (unacked_at_range (n_send s) o))) as E2.
  lia.
Qed.

(* ---------- exact effect of one acknowledgement ---------- *)
Lemma ack_exact st g a b fin : reach st g -> s_reset st = None -> In (a, b, fin) (g_outs g) ->
  (forall o, 0 <= o -> ackedb (snd (on_data_delivery st true a b fin)) o = ackedb st o + inr a b o) /\
  s_fin (snd (on_data_delivery st true a b fin)) = s_fin st /\
  s_acked_fin (snd (on_data_delivery st true a b fin)) = (if fin then true else s_acked_fin st) /\
  a <= b <= Zlen (g_written g) /\ (a < b -> 0 <= a) /\ (fin = true -> s_fin st <> None).
Proof.
  intros R ER Hin. pose proof (reach_inv _ _ R) as V.
  destruct (outstanding_facts st g a b fin V Hin) as (Hab & Hge & Hpart & Hfin).
  pose proof (v_stop _ _ V) as Hsp. pose proof (v_start _ _ V) as Hst.
  destruct (deliv_keeps st true a b fin) as (K1 & _).
  split; [|split; [exact K1|split; [|split; [lia|split; [intros Hlt; specialize (Hge Hlt); lia|intros ->; rewrite (Hfin eq_refl); discriminate]]]]].
  - unfold on_data_delivery.
    assert (Eassert : fin && negb (match s_fin st with Some f => b =? f | None => false end) = false).
    { destruct fin; [|reflexivity]. rewrite (Hfin eq_refl). cbn. lia. }
    rewrite Eassert, ER.
    destruct (Z_lt_dec a b) as [Hlt|Hnlt].
    + specialize (Hge Hlt).
      destruct (advance_spec (s_acked st) (s_start st) a b (s_buf st) (v_awf _ _ V) Hge ltac:(lia)) as (acked' & s' & Heq & Hs' & Wa' & Ma' & Mb').
      rewrite Heq. cbn [snd]. unfold ackedb. cbn [s_start s_acked]. intros o Ho.
      pose proof (mem_contains_z o (s_acked st)) as (D1 & D0).
      assert (Hr01 : b2z (contains o (s_acked st)) = 0 \/ b2z (contains o (s_acked st)) = 1) by (destruct (contains o (s_acked st)); cbn; lia).
      assert (Hin0 : a <= o < b -> b2z (contains o (s_acked st)) = 0) by (intros Hx; destruct (Hpart o Hx) as (_ & X & _); exact X).
      unfold inr. destruct (o <? s') eqn:E1.
      * destruct (o <? s_start st) eqn:E2.
        -- assert (E3 : (a <=? o) && (o <? b) = false) by lia. rewrite E3. lia.
        -- destruct ((a <=? o) && (o <? b)) eqn:E3.
           ++ rewrite Hin0 by lia. lia.
           ++ destruct (Mb' o ltac:(lia)) as [Hx|Hx]; [lia|]. apply D1 in Hx. lia.
      * assert (E2 : o <? s_start st = false) by lia. rewrite E2.
        rewrite (contains_eq_of_iff o acked' ((a <=? o) && (o <? b)) (b2z (contains o (s_acked st)))).
        -- destruct ((a <=? o) && (o <? b)) eqn:E3; [rewrite Hin0 by lia; lia|lia].
        -- rewrite (Ma' o ltac:(lia)), D1. split; (intros [Hx|Hx]; [left; lia|right; exact Hx]).
        -- exact Hr01.
    + assert (E : b >? a = false) by lia. rewrite E. cbn [snd]. unfold ackedb. cbn [s_start s_acked]. intros o Ho.
      unfold inr. assert (E3 : (a <=? o) && (o <? b) = false) by lia. rewrite E3. lia.
  - unfold on_data_delivery.
    assert (Eassert : fin && negb (match s_fin st with Some f => b =? f | None => false end) = false).
    { destruct fin; [|reflexivity]. rewrite (Hfin eq_refl). cbn. lia. }
    rewrite Eassert, ER.
    destruct (b >? a); [destruct (add a b (s_acked st)) as [|[fs fe] rest]; [|destruct (fs =? s_start st)]|]; cbn; reflexivity.
Qed.

(* ---------- one step ---------- *)
Lemma step_accounting s op o s' : nreach s -> data_op op -> net_step s op = Some (o, s') ->
  unacked s' + b2z (is_useful s op) <= unacked s + wcost op /\
  (match op with NOutcome _ true => True | _ => unacked s' = unacked s + wcost op end).
Proof.
  intros R D H. pose proof (nreach_inv _ R) as I. destruct (ni_reach _ I) as (outs & Rs & P).
  destruct (ni_noreset _ I) as (N1 & _). pose proof (reach_inv _ _ Rs) as V. cbn [g_written] in *.
  assert (Hsame : forall x, same_acks x s -> unacked x + b2z false <= unacked s + 0 /\ unacked x = unacked s + 0).
  { intros x Hx. rewrite (unacked_same _ _ Hx). cbn. lia. }
  destruct op; cbn [data_op] in D; try contradiction; cbn [net_step] in H; cbn [is_useful wcost].
  - (* write *)
    destruct (is_noneb (s_fin (n_send s)) && is_noneb (s_reset (n_send s))) eqn:G; [|discriminate].
    assert (Gf : s_fin (n_send s) = None) by (destruct (s_fin (n_send s)); [discriminate|reflexivity]).
    destruct (write_keeps_acked (n_send s) d fin) as (K1 & K2 & K3).
    destruct (write_keeps (n_send s) d fin) as (_ & K4). specialize (K4 Gf N1).
    destruct (write (n_send s) d fin) as [so st']. cbn [snd] in *. inversion H; subst o s'. clear H.
    cbn [b2z]. assert (E : unacked (mkNet st' (n_recv s) (n_written s ++ d) (n_racked s) (n_emitted s) (n_resets s)
                                        (n_rreset s) (n_queue s) (n_dbytes s) (n_ends s)) = unacked s + (Zlen d + b2z fin)); [|lia].
    unfold unacked. cbn [n_send n_written]. rewrite Zlen_app.
    pose proof (Zlen_nonneg d) as Hd. pose proof (Zlen_nonneg (n_written s)) as Hw.
    replace (Z.to_nat (Zlen (n_written s) + Zlen d)) with (Z.to_nat (Zlen (n_written s)) + Z.to_nat (Zlen d))%nat by lia.
    rewrite zsum_app.
    assert (E1 : zsum (unacked_at st') 0 (Z.to_nat (Zlen (n_written s))) = zsum (unacked_at (n_send s)) 0 (Z.to_nat (Zlen (n_written s)))).
    { apply zsum_ext. intros o _. unfold unacked_at, ackedb. rewrite K1, K2. reflexivity. }
    assert (E2 : zsum (unacked_at st') (0 + Z.of_nat (Z.to_nat (Zlen (n_written s)))) (Z.to_nat (Zlen d)) = Zlen d).
    { rewrite (zsum_ext _ (inr (Zlen (n_written s)) (Zlen (n_written s) + Zlen d))); [rewrite zsum_inr; lia|].
      intros o Ho. unfold unacked_at, ackedb, inr. rewrite K1, K2.
      pose proof (v_start _ _ V) as Hst. pose proof (v_stop _ _ V) as Hsp. cbn [g_written] in Hsp.
      assert (E3 : o <? s_start (n_send s) = false) by lia. rewrite E3.
      assert (E4 : (Zlen (n_written s) <=? o) && (o <? Zlen (n_written s) + Zlen d) = true) by lia. rewrite E4.
      assert (E5 : b2z (contains o (s_acked (n_send s))) = 0).
      { apply mem_contains_z. intros Hm. pose proof (v_amax _ _ V o Hm). lia. }
      lia. }
    assert (E3 : finbit st' = b2z fin).
    { unfold finbit. rewrite K4, K3. destruct (v_fin_none _ _ V Gf) as (_ & X & _). rewrite X. destruct fin; reflexivity. }
    assert (E4 : finbit (n_send s) = 0) by (unfold finbit; rewrite Gf; reflexivity).
    lia.
  - (* emit *)
    destruct (is_noneb (s_reset (n_send s))); [|discriminate].
    destruct (get_frame_keeps_acked (n_send s) ms mo) as (K1 & K2 & K3).
    destruct (get_frame_keeps (n_send s) ms mo) as (K4 & _).
    destruct (get_frame (n_send s) ms mo) as [so st']. cbn [snd] in *.
    destruct so; inversion H; subst o s'; apply Hsame; unfold same_acks, with_send; cbn [n_send n_recv n_written]; auto 10.
  - (* deliver *)
    destruct (nthE (n_emitted s) i) as [f|] eqn:Ei; [|discriminate].
    destruct (handle_frame (n_recv s) (ef_off f) (ef_data f) (ef_fin f)) as [ro r'].
    assert (Hrep : forall a b c d e, unacked (report a b s c d e) = unacked s).
    { intros a b c d e. destruct (report_fields a b s c d e) as (F1 & _ & _ & F4). unfold unacked. rewrite F1, F4. reflexivity. }
    destruct ro; inversion H; subst o s'; rewrite ?Hrep; cbn; lia.
  - (* outcome *)
    destruct (nthE (n_emitted s) i) as [f|] eqn:Ei; [|discriminate].
    destruct (is_noneb (ef_out f) && (negb acked || ef_deliv f)) eqn:G; [|discriminate].
    assert (Gn : noout f = true) by (unfold noout; destruct (is_noneb (ef_out f)); [reflexivity|discriminate]).
    unfold ef_key in H.
    destruct (nthE_split _ _ _ Ei) as (l1 & l2 & El & Sl).
    assert (Hin : In (ef_key f) outs).
    { eapply Permutation_in; [apply Permutation_sym, P|]. rewrite El, outs_of_app. apply in_or_app. right.
      unfold outs_of. cbn [filter]. rewrite Gn. left. reflexivity. }
    destruct acked.
    + (* ACKED *)
      destruct (ack_exact _ _ _ _ _ Rs N1 Hin) as (A1 & A2 & A3 & A4 & A5 & A6). cbn [g_written] in A4.
      destruct (on_data_delivery (n_send s) true (ef_off f) (ef_off f + Zlen (ef_data f)) (ef_fin f)) as [so st']. cbn [snd] in *.
      inversion H; subst o s'. clear H. split; [|exact Logic.I].
      unfold unacked. cbn [n_send n_written].
      pose proof (Zlen_nonneg (ef_data f)) as Hd. pose proof (Zlen_nonneg (n_written s)) as Hw.
      set (a := ef_off f) in *. set (b := ef_off f + Zlen (ef_data f)) in *.
      assert (E1 : zsum (unacked_at (n_send s)) 0 (Z.to_nat (Zlen (n_written s))) =
                   zsum (unacked_at st') 0 (Z.to_nat (Zlen (n_written s))) + zsum (inr a b) 0 (Z.to_nat (Zlen (n_written s)))).
      { rewrite <- zsum_plus. apply zsum_ext. intros o Ho. unfold unacked_at. rewrite (A1 o ltac:(lia)). unfold a, b. lia. }
      rewrite zsum_inr in E1.
      assert (E2 : finbit st' + b2z (ef_fin f && negb (s_acked_fin (n_send s))) <= finbit (n_send s)).
      { unfold finbit. rewrite A2, A3. destruct (ef_fin f) eqn:Ef.
        - destruct (s_fin (n_send s)); [|exfalso; apply A6; reflexivity]. destruct (s_acked_fin (n_send s)); cbn; lia.
        - destruct (s_fin (n_send s)); [destruct (s_acked_fin (n_send s))|]; cbn; lia. }
      assert (E3 : b2z (0 <? Zlen (ef_data f)) <= Z.max 0 (Z.min b (0 + Z.of_nat (Z.to_nat (Zlen (n_written s)))) - Z.max a 0)).
      { destruct (0 <? Zlen (ef_data f)) eqn:E0; cbn [b2z]; [|lia]. assert (a < b) by (unfold a, b; lia). specialize (A5 H). lia. }
      assert (E4 : b2z ((0 <? Zlen (ef_data f)) || (ef_fin f && negb (s_acked_fin (n_send s)))) <=
                   b2z (0 <? Zlen (ef_data f)) + b2z (ef_fin f && negb (s_acked_fin (n_send s)))).
      { destruct (0 <? Zlen (ef_data f)), (ef_fin f && negb (s_acked_fin (n_send s))); cbn; lia. }
      lia.
    + (* LOST *)
      destruct (lost_keeps_acked (n_send s) (ef_off f) (ef_off f + Zlen (ef_data f)) (ef_fin f)) as (K1 & K2 & K3).
      destruct (deliv_keeps (n_send s) false (ef_off f) (ef_off f + Zlen (ef_data f)) (ef_fin f)) as (K4 & _).
      destruct (on_data_delivery (n_send s) false (ef_off f) (ef_off f + Zlen (ef_data f)) (ef_fin f)) as [so st']. cbn [snd] in *.
      inversion H; subst o s'. apply Hsame. unfold same_acks. cbn [n_send n_recv n_written]. auto 10.
  - (* pop *)
    destruct (n_queue s); [discriminate|]. inversion H; subst. apply Hsame. unfold same_acks. cbn [n_send n_recv n_written]. auto 10.
  - inversion H; subst. cbn. lia.
Qed.

(* ---------- every schedule ---------- *)
Lemma schedule_accounting ops : forall s s', nreach s -> Forall data_op ops -> run_sched s ops = Some s' ->
  unacked s' + useful_acks s ops <= unacked s + wcosts ops.
Proof.
  induction ops as [|op t IH]; intros s s' R F H; cbn [run_sched useful_acks wcosts] in *.
  - inversion H; subst. lia.
  - inversion F; subst. destruct (net_step s op) as [[o s1]|] eqn:E; [|discriminate].
    destruct (step_accounting s op o s1 R H2 E) as (A & _).
    assert (R1 : nreach s1) by (eapply nreach_step; eassumption).
    specialize (IH s1 s' R1 H3 H). lia.
Qed.

(* nothing unacknowledged = complete *)
Lemma unacked_zero_complete s : nreach s -> unacked s = 0 ->
  n_dbytes s = n_written s /\
  (eof s -> n_ends s = 1 /\ s_finished (n_send s) = true) /\ (~ eof s -> n_ends s = 0).
Proof.
  intros R U0. pose proof (nreach_inv _ R) as I. destruct (ni_reach _ I) as (outs & Rs & _).
  unfold unacked in U0. pose proof (finbit_range (n_send s)) as Hfb.
  pose proof (Zlen_nonneg (n_written s)) as Hw.
  assert (Hz : 0 <= zsum (unacked_at (n_send s)) 0 (Z.to_nat (Zlen (n_written s)))) by (apply zsum_nonneg; intros o _; apply unacked_at_range).
  assert (Hall : forall o, 0 <= o < Zlen (n_written s) -> unacked_at (n_send s) o = 0).
  { intros o Ho. apply (zsum_zero_all _ (Z.to_nat (Zlen (n_written s))) 0); [intros o' _; apply unacked_at_range|lia|lia]. }
  assert (Hstart : s_start (n_send s) = Zlen (n_written s)).
  { apply (all_acked_iff _ _ Rs). cbn [g_written]. intros o Ho. specialize (Hall o Ho). unfold unacked_at, ackedb in Hall.
    unfold acked_at. destruct (o <? s_start (n_send s)) eqn:E; [left; lia|]. right. apply contains_mem.
    destruct (contains o (s_acked (n_send s))); [reflexivity|cbn in Hall; lia]. }
  split; [exact (all_acked_delivered s R Hstart)|].
  destruct (delivery_is_prefix s R) as (_ & Hrange & Hone).
  split.
  - intros Hf. unfold eof in Hf.
    assert (Hfin : s_finished (n_send s) = true).
    { apply (finished_iff _ _ Rs). left. cbn [g_written].
      destruct (s_fin (n_send s)) as [f|] eqn:Ef; [|congruence].
      destruct (send_partition _ _ Rs) as (_ & Pf). destruct (Pf f Ef) as (Hfv & _). cbn [g_written] in Hfv.
      split; [f_equal; exact Hfv|]. split; [exact Hstart|].
      unfold finbit in *. rewrite Ef in *. destruct (s_acked_fin (n_send s)); [reflexivity|lia]. }
    split; [|exact Hfin]. exact (proj1 (proj2 (finished_implies_delivered s R Hfin))).
  - intros Hnf. destruct (Z.eq_dec (n_ends s) 1) as [E1|E1]; [destruct (Hone E1) as (X & _); contradiction|lia].
Qed.

(* ---------- rounds ---------- *)
Definition nowrite_op (op : nop) : Prop := match op with NWrite _ _ => False | _ => data_op op end.

Lemma nowrite_data ops : Forall nowrite_op ops -> Forall data_op ops /\ wcosts ops = 0.
Proof.
  induction 1 as [|op t H F IH]; [split; [constructor|reflexivity]|]. destruct IH as (IH1 & IH2).
  split; [constructor; [destruct op; cbn in *; tauto|exact IH1]|]. cbn [wcosts]. rewrite IH2. destruct op; cbn in *; tauto.
Qed.

(* a fair run: a sequence of rounds; each round is ANY schedule of data steps without writes that, as executed,
   contains at least one useful acknowledgement *)
Inductive fair_rounds : net -> list (list nop) -> net -> Prop :=
| fr_nil s : fair_rounds s [] s
| fr_cons s seg s1 segs s2 :
    Forall nowrite_op seg -> run_sched s seg = Some s1 -> 1 <= useful_acks s seg ->
    fair_rounds s1 segs s2 -> fair_rounds s (seg :: segs) s2.

Lemma fair_rounds_progress segs : forall s s', nreach s -> fair_rounds s segs s' ->
  nreach s' /\ unacked s' + Z.of_nat (length segs) <= unacked s /\ n_written s' = n_written s.
Proof.
  induction segs as [|seg segs IH]; intros s s' R F; inversion F as [|? ? s1 ? ? Hnw Hrun Hua Hrest]; subst.
  - cbn [length]. split; [exact R|]. split; [lia|reflexivity].
  - destruct (nowrite_data _ Hnw) as (D & W0).
    pose proof (schedule_accounting seg s s1 R D Hrun) as A.
    assert (R1 : nreach s1) by (exact (run_sched_reach _ _ _ R D Hrun)).
    destruct (IH s1 s' R1 Hrest) as (R' & A' & W').
    split; [exact R'|]. split; [cbn [length]; lia|].
    rewrite W'. clear - Hnw Hrun. revert s Hrun. induction Hnw as [|op t Hop F IH]; intros s H3; cbn [run_sched] in H3.
    + inversion H3; reflexivity.
    + destruct (net_step s op) as [[o sx]|] eqn:E; [|discriminate]. rewrite (IH sx H3).
      destruct op; cbn [nowrite_op data_op] in Hop; try contradiction; cbn [net_step] in E.
      * destruct (is_noneb (s_reset (n_send s))); [|discriminate]. destruct (get_frame (n_send s) ms mo) as [so st'].
        destruct so; inversion E; reflexivity.
      * destruct (nthE (n_emitted s) i) as [f|]; [|discriminate].
        destruct (handle_frame (n_recv s) (ef_off f) (ef_data f) (ef_fin f)) as [ro r'].
        destruct ro; inversion E; try reflexivity;
          match goal with |- context [report ?a ?b ?c ?d ?e ?g] => destruct (report_fields a b c d e g) as (_ & _ & _ & F4); exact F4 end.
      * destruct (nthE (n_emitted s) i) as [f|]; [|discriminate].
        destruct (is_noneb (ef_out f) && (negb acked || ef_deliv f)); [|discriminate]. unfold ef_key in E.
        destruct (on_data_delivery (n_send s) acked (ef_off f) (ef_off f + Zlen (ef_data f)) (ef_fin f)). inversion E; reflexivity.
      * destruct (n_queue s); [discriminate|]. inversion E; reflexivity.
      * inversion E; reflexivity.
Qed.

(* completion after at most [unacked s] <= (unacknowledged bytes + 1) fair rounds, whatever else the schedule does *)
Lemma fair_rounds_complete s segs s' : nreach s -> fair_rounds s segs s' -> unacked s <= Z.of_nat (length segs) ->
  n_written s' = n_written s /\ n_dbytes s' = n_written s /\
  (eof s' -> n_ends s' = 1 /\ s_finished (n_send s') = true) /\ (~ eof s' -> n_ends s' = 0) /\
  Z.of_nat (length segs) = unacked s.
Proof.
  intros R F Hk. destruct (fair_rounds_progress segs s s' R F) as (R' & A & W).
  pose proof (unacked_nonneg s'). assert (U0 : unacked s' = 0) by lia.
  destruct (unacked_zero_complete s' R' U0) as (D & E1 & E2).
  split; [exact W|]. split; [congruence|]. split; [exact E1|]. split; [exact E2|lia].
Qed.

(* ... and such a round exists from every reachable state that is not complete: LOST for every frame without
   outcome, then emit / deliver / acknowledge the lowest pending frame *)
Definition fair_round (ms : Z) (s : net) : list nop := lose_all s ++ round_ops ms (after_loss s).

Lemma quiet_nopending_unacked s : nreach s -> quiet s -> s_pending (n_send s) = [] ->
  unacked s = finbit (n_send s) /\ (s_pending_eof (n_send s) = false -> finbit (n_send s) = 0).
Proof.
  intros R Q Hp. destruct (quiet_partition s R Q) as (P1 & P2). split.
  - unfold unacked. rewrite (zsum_ext _ (inr 0 0)); [rewrite zsum_inr; lia|]. intros o Ho.
    pose proof (Zlen_nonneg (n_written s)). destruct (P1 o ltac:(lia)) as [H1|H1]; [|rewrite Hp in H1; destruct H1].
    assert (E0 : inr 0 0 o = 0) by (unfold inr; destruct ((0 <=? o) && (o <? 0)) eqn:E'; lia). rewrite E0.
    unfold unacked_at, ackedb. destruct H1 as [H1|H1].
    + assert (E : o <? s_start (n_send s) = true) by lia. rewrite E. lia.
    + apply contains_mem in H1. rewrite H1. destruct (o <? s_start (n_send s)); cbn; lia.
  - intros He. unfold finbit. destruct (s_fin (n_send s)) eqn:Ef; [|reflexivity].
    destruct (P2 ltac:(unfold eof; congruence)) as [X|X]; [congruence|rewrite X; reflexivity].
Qed.

Lemma lose_from_nowrite : forall l i, Forall nowrite_op (lose_from i l).
Proof.
  induction l as [|f t IH]; intros i; cbn [lose_from]; [constructor|].
  destruct (noout f); cbn [app]; [constructor; [exact Logic.I|]|]; apply IH.
Qed.

Lemma fair_round_exists s ms : nreach s -> 0 < ms -> 0 < unacked s ->
  exists s', run_sched s (fair_round ms s) = Some s' /\ Forall nowrite_op (fair_round ms s) /\
    1 <= useful_acks s (fair_round ms s) /\
    Z.of_nat (length (fair_round ms s)) <= Zlen (n_emitted s) + 3.
Proof.
  intros R Hm HU. destruct (lose_all_run s R) as (s1 & Hr1 & R1 & Q1 & HS & L1).
  assert (HU1 : 0 < unacked s1) by (rewrite (unacked_same _ _ HS); exact HU).
  unfold fair_round, after_loss. rewrite Hr1.
  pose proof (round_run s1 ms R1 Q1 Hm) as RR.
  destruct (get_frame (n_send s1) ms None) as [so st'].
  assert (Hidle : s_pending (n_send s1) = [] /\ s_pending_eof (n_send s1) = false -> False).
  { intros (P1 & P2). destruct (quiet_nopending_unacked s1 R1 Q1 P1) as (E1 & E2). specialize (E2 P2). lia. }
  destruct so as [|off d fin|c fs|]; try (exfalso; exact (Hidle RR)).
  destruct RR as (s' & Hrun & _ & _ & _ & _ & _ & GU & HUA).
  exists s'. split; [rewrite run_sched_app, Hr1; exact Hrun|]. split; [|split].
  - apply Forall_app. split; [|unfold round_ops; repeat constructor].
    apply lose_from_nowrite.
  - rewrite (useful_acks_app _ _ _ _ Hr1), HUA. pose proof (useful_acks_nonneg (lose_all s) s).
    assert (E : (0 <? Zlen d) || (fin && negb (s_acked_fin (n_send s1))) = true); [|rewrite E; cbn; lia].
    destruct GU as [GU|(GU1 & GU2)]; [apply orb_true_iff; left; lia|]. subst fin.
    destruct (quiet_nopending_unacked s1 R1 Q1 GU2) as (E1 & _). unfold finbit in E1.
    destruct (s_fin (n_send s1)); [|lia]. destruct (s_acked_fin (n_send s1)); [lia|]. apply orb_true_r.
  - rewrite app_length. pose proof (lose_from_length (n_emitted s) 0). unfold lose_all, round_ops, Zlen in *. cbn [length]. lia.
Qed.

(* non-vacuity: three rounds with reordering, duplication, a loss and a retransmission; unacked = 2 bytes + FIN = 3 *)
Definition rounds_state : net :=
  match run_sched net_init [NWrite [1; 2] false; NEmit 1 None; NEmit 1 None; NWrite [] true] with
  | Some s => s | None => net_init end.

Definition rounds_segs : list (list nop) :=
  [ [NDeliver 1; NDeliver 1; NOutcome 1 true];
    [NOutcome 0 false; NEmit 5 None; NDeliver 2; NOutcome 2 true];
    [NEmit 5 None; NDeliver 3; NPop; NOutcome 3 true] ].

Example fair_rounds_example :
  nreach rounds_state /\ unacked rounds_state = 3 /\
  exists s', fair_rounds rounds_state rounds_segs s' /\ n_dbytes s' = [1; 2] /\ n_ends s' = 1 /\ s_finished (n_send s') = true.
Proof.
  split; [|split; [vm_compute; reflexivity|]].
  - apply (run_sched_reach [NWrite [1; 2] false; NEmit 1 None; NEmit 1 None; NWrite [] true] net_init);
      [exact nreach_init|repeat (constructor; [exact Logic.I|]); constructor|vm_compute; reflexivity].
  - eexists. split.
    + unfold rounds_segs.
      eapply fr_cons; [repeat (constructor; [exact Logic.I|]); constructor|vm_compute; reflexivity|vm_compute; discriminate|].
      eapply fr_cons; [repeat (constructor; [exact Logic.I|]); constructor|vm_compute; reflexivity|vm_compute; discriminate|].
      eapply fr_cons; [repeat (constructor; [exact Logic.I|]); constructor|vm_compute; reflexivity|vm_compute; discriminate|].
      apply fr_nil.
    + vm_compute. repeat split; reflexivity.
Qed.

Example fair_round_example :
  fair_round 2 mid_state = [NOutcome 1 false; NOutcome 2 false; NEmit 2 None; NDeliver 3; NOutcome 3 true] /\
  useful_acks mid_state (fair_round 2 mid_state) = 1 /\ unacked mid_state = 8.
Proof. vm_compute. repeat split; reflexivity. Qed.

(* non-vacuity of unacked_zero_complete: the final state of NetSysP2.netsys_example *)
Example unacked_zero_example :
  match run_sched net_init [NWrite [1; 2; 3] false; NEmit 2 None; NWrite [4] true; NEmit 10 None;
                            NDeliver 1; NDeliver 1; NOutcome 0 false; NEmit 10 None; NDeliver 2; NDeliver 0; NDeliver 1;
                            NOutcome 1 true; NOutcome 2 true; NPop; NSync] with
  | Some s => unacked s = 0 /\ n_dbytes s = n_written s
  | None => False
  end.
Proof. vm_compute. split; reflexivity. Qed.
