(* C05: proofs about model/ConnRecv.v.
   - every handler of the PATCHED model ends in: normal return / BufferReadError / StreamFinishedError /
     QuicConnectionError with a documented code -- an escaping exception only if the TLS oracle
     itself answers with one (hgood);
   - _payload_received by induction over the frame loop: totality, classification of parse errors,
     independence of the fuel;
   - concrete witnesses that the PINNED model raises (IndexError in NEW_CONNECTION_ID, AssertionError
     on a non-INITIAL first packet). *)
From AQ Require Import lib.Base lib.Tok model.RangeSet model.StreamRecv model.Frames gen.C05Tables
  model.ConnRecv proofs.FramesP.
From AQ Require gen.C05Tls gen.TlsDispatch model.TlsRecv proofs.TlsRecvP.
From Coq Require Import Lia.

(* ---------- the TLS side of the state: hypotheses of the TLS-level theorems, and what a handler may do to it *)
Definition orc_pool (t : tls_side) : list TlsRecv.orc := concat (ts_orcs t).

(* wf_cfg: every advertised signature algorithm is Ed25519, Ed448 or a key of SIGNATURE_ALGORITHMS;
   wf0: a fresh client Context, or the invariant wf_ctx that handle_message re-establishes *)
Definition tls_ok (t : tls_side) : Prop := TlsRecvP.wf_cfg (ts_cfg t) /\ TlsRecvP.wf0 (ts_ctx t).

Definition tls_next (t t' : tls_side) : Prop :=
  (tls_ok t -> tls_ok t') /\ incl (orc_pool t') (orc_pool t).

(* handlers never set a close initiated by this endpoint: they leave _close_event alone, or (CONNECTION_CLOSE
   frame, first one wins) set the peer's *)
Definition close_step (c c' : option (bool * Z * Z)) : Prop :=
  c' = c \/ (c = None /\ exists code ft, c' = Some (false, code, ft)).

Definition st_next (st st' : cst) : Prop :=
  tls_next (c_tls st) (c_tls st') /\ close_step (c_close st) (c_close st').

Lemma tls_next_refl t : tls_next t t.
Proof. split; [auto|apply incl_refl]. Qed.

Lemma tls_next_trans a b c : tls_next a b -> tls_next b c -> tls_next a c.
Proof. intros [H1 I1] [H2 I2]. split; [auto|]. eapply incl_tran; eauto. Qed.

Lemma close_step_trans a b c : close_step a b -> close_step b c -> close_step a c.
Proof.
  intros [->|[-> (c1 & f1 & ->)]] [->|[E (c2 & f2 & ->)]]; try discriminate; unfold close_step; eauto 8.
Qed.

Lemma st_next_same st st' : c_tls st' = c_tls st -> c_close st' = c_close st -> st_next st st'.
Proof. intros E1 E2. unfold st_next. rewrite E1, E2. split; [apply tls_next_refl|left; reflexivity]. Qed.

Lemma st_next_trans a b c : st_next a b -> st_next b c -> st_next a c.
Proof. intros [T1 C1] [T2 C2]. split; [eapply tls_next_trans|eapply close_step_trans]; eauto. Qed.

(* ---------- what a close code may be: a QuicErrorCode, CRYPTO_ERROR + one of the eight alerts the TLS layer
   raises on network input, CRYPTO_ERROR + missing_extension, or the code with which the transport-parameter
   callback (_alpn_handler -> _parse_transport_parameters, an oracle field) rejected the peer's parameters *)
Definition code_ok (t : tls_side) (code : Z) : Prop :=
  In code all_error_codes
  \/ (exists d, In d TlsRecvP.raised_alerts /\ code = EC_CRYPTO_ERROR + d)
  \/ code = EC_CRYPTO_ERROR + TlsDispatch.AD_missing_extension
  \/ (exists o, In o (orc_pool t) /\ code = TlsRecv.o_tp_code o /\ code <> 0).

Lemma code_ok_incl t t' code : incl (orc_pool t') (orc_pool t) -> code_ok t' code -> code_ok t code.
Proof.
  intros I [H|[H|[H|(o & Ho & H)]]]; unfold code_ok; auto.
  right. right. right. exists o. split; [apply I; exact Ho|exact H].
Qed.

Definition hgood (st : cst) (b : list Z) (r : hres) : Prop :=
  match r with
  | HOk st' rest => st_next st st' /\ (length rest <= length b)%nat
  | HFin st' rest => st_next st st' /\ (length rest <= length b)%nat
  | HBuf => True
  | HErr _ code _ => tls_ok (c_tls st) -> code_ok (c_tls st) code
  | HExn _ _ => ~ tls_ok (c_tls st)
  end.

(* hgood reads the state only through c_tls and c_close *)
Lemma hgood_transport st st' b r :
  c_tls st' = c_tls st -> c_close st' = c_close st -> hgood st' b r -> hgood st b r.
Proof. intros E1 E2. destruct r; unfold hgood, st_next; rewrite ?E1, ?E2; auto. Qed.

Ltac in_codes := intros; left; cbv; repeat (first [left; reflexivity | right]).

Ltac pull_step :=
  match goal with
  | |- context[pull_uint_var ?b] =>
      let E := fresh "E" in destruct (pull_uint_var b) as [? ?|] eqn:E; [apply pull_uint_var_len in E|]
  | |- context[pull_bytes ?n ?b] =>
      let E := fresh "E" in destruct (pull_bytes n b) as [? ?|] eqn:E; [apply pull_bytes_len in E|]
  | |- context[pull_uint8 ?b] =>
      let E := fresh "E" in destruct (pull_uint8 b) as [? ?|] eqn:E; [apply pull_uint8_len in E|]
  | |- context[find_stream ?a ?l] => destruct (find_stream a l) eqn:?
  | |- context[if ?c then _ else _] => destruct c eqn:?
  end; cbv beta iota.

Ltac same := apply st_next_same; reflexivity.
Ltac fin :=
  try exact I;
  try (split; [same | simpl; lia]);
  try solve [in_codes].

(* ---------- streams *)
Lemma gocs_good : forall st sid,
  match get_or_create_stream st sid with
  | GOk st' _ => c_tls st' = c_tls st /\ c_close st' = c_close st
  | GFin => True
  | GErr code => In code all_error_codes
  end.
Proof.
  intros. unfold get_or_create_stream.
  repeat pull_step; try exact I; try (split; reflexivity); cbv; repeat (first [left; reflexivity | right]).
Qed.

Lemma with_stream_good : forall st ft sid rest b k,
  (length rest <= length b)%nat ->
  (forall st' s, c_tls st' = c_tls st -> c_close st' = c_close st -> hgood st' b (k st' s)) ->
  hgood st b (with_stream st ft sid rest k).
Proof.
  intros st ft sid rest b k Hl Hk. unfold with_stream.
  pose proof (gocs_good st sid) as G.
  destruct (get_or_create_stream st sid) as [st' s| |code].
  - destruct G as [G1 G2]. eapply hgood_transport; eauto.
  - simpl. split; [same|assumption].
  - simpl. intros _. left. exact G.
Qed.

(* ---------- the handlers (patched model) *)
Lemma h_padding_good : forall st b, hgood st b (h_padding st b).
Proof. intros. simpl. split; [same|apply skip_zeros_len]. Qed.

Lemma h_ping_good : forall st b, hgood st b (h_ping st b).
Proof. intros. simpl. split; [same|lia]. Qed.

Lemma h_ack_good : forall st ft b, hgood st b (h_ack st ft b).
Proof.
  intros. unfold h_ack. destruct (pull_ack_frame (ft =? FT_ACK_ECN) b) as [[] r|] eqn:E; [|exact I].
  apply pull_ack_frame_len in E. simpl. split; [same|lia].
Qed.

Lemma h_reset_stream_good : forall st ft b, hgood st b (h_reset_stream st ft b).
Proof.
  intros. unfold h_reset_stream. repeat pull_step; fin.
  apply with_stream_good; [lia|]. intros st' s Ho Hc. repeat pull_step; fin.
Qed.

Lemma h_stop_sending_good : forall st ft b, hgood st b (h_stop_sending st ft b).
Proof.
  intros. unfold h_stop_sending. repeat pull_step; fin.
  apply with_stream_good; [lia|]. intros st' s Ho Hc. simpl. split; [same|lia].
Qed.

Lemma in_hd_concat {A} (x : A) l : In x (hd [] l) -> In x (concat l).
Proof. destruct l as [|h r]; cbn [hd concat]; [contradiction|]. intro H. apply in_or_app. left. exact H. Qed.

Lemma incl_tl_concat {A} (l : list (list A)) : incl (concat (tl l)) (concat l).
Proof. destruct l as [|h r]; cbn [tl concat]; [apply incl_refl|apply incl_appr, incl_refl]. Qed.

(* the CRYPTO handler: this is where TlsRecvP.crypto_deliver_total (tls_crypto_frame_total) is used *)
Lemma h_crypto_good : forall st epoch ft b, hgood st b (h_crypto true st epoch ft b).
Proof.
  intros. unfold h_crypto.
  destruct (pull_uint_var b) as [offset b1|] eqn:E1; [apply pull_uint_var_len in E1|exact I].
  destruct (pull_uint_var b1) as [len b2|] eqn:E2; [apply pull_uint_var_len in E2|exact I].
  destruct (offset + len >? UINT_VAR_MAX); [simpl; in_codes|].
  destruct (pull_bytes len b2) as [data rest|] eqn:E3; [apply pull_bytes_len in E3|exact I].
  destruct (offset + len - r_start (crypto_of st epoch) >? MAX_PENDING_CRYPTO); [simpl; in_codes|].
  destruct (offset - r_start (crypto_of st epoch) >? CRYPTO_FAR); [simpl; split; [same|lia]|].
  destruct (handle_frame (crypto_of st epoch) offset data false) as [ro r'] eqn:HF.
  destruct ro as [|out fin| |]; try (simpl; split; [same|lia]).
  cbv zeta.
  pose proof (TlsRecvP.crypto_deliver_total (ts_cfg (c_tls st)) (ts_ctx (c_tls st)) (hd [] (ts_orcs (c_tls st))) ft out) as T.
  destruct (TlsRecv.crypto_deliver true (ts_cfg (c_tls st)) (ts_ctx (c_tls st)) (hd [] (ts_orcs (c_tls st))) ft out)
    as [c'|code ft'| |k].
  - (* delivered: the Context is well-formed again, one list of oracle records is used up *)
    cbn [hgood]. split; [|lia]. split; [|left; reflexivity].
    split.
    + intros [Hg Hw]. specialize (T Hg Hw). split; [exact Hg|right; exact T].
    + unfold orc_pool. apply incl_tl_concat.
  - cbn [hgood]. intros [Hg Hw]. specialize (T Hg Hw). unfold code_ok.
    destruct T as [(d & Hd & Hc & _)|[[Hc _]|[[Hc _]|(o & Ho & Hc & _ & Hn)]]]; subst code.
    + right; left. exists d. split; [exact Hd|reflexivity].
    + right; right; left. reflexivity.
    + in_codes.
    + right; right; right. exists o. split; [apply in_hd_concat; exact Ho|split; [reflexivity|exact Hn]].
  - simpl. in_codes.
  - cbn [hgood]. intros [Hg Hw]. exact (T Hg Hw).
Qed.

Lemma h_new_token_good : forall st ft b, hgood st b (h_new_token st ft b).
Proof. intros. unfold h_new_token. repeat pull_step; fin. Qed.

Lemma h_stream_good : forall st ft b, hgood st b (h_stream st ft b).
Proof.
  intros. unfold h_stream.
  destruct (pull_uint_var b) as [sid b1|] eqn:E1; [apply pull_uint_var_len in E1|exact I].
  assert (H2 : match (if Z.testbit ft 2 then pull_uint_var b1 else POk 0 b1) with
               | POk _ r => (length r <= length b1)%nat | PErr => True end).
  { destruct (Z.testbit ft 2); [|simpl; lia].
    destruct (pull_uint_var b1) eqn:E; [apply pull_uint_var_len in E; lia|exact I]. }
  destruct (if Z.testbit ft 2 then pull_uint_var b1 else POk 0 b1) as [offset b2|]; [|exact I].
  assert (H3 : match (if Z.testbit ft 1 then pull_uint_var b2 else POk (Zlen b2) b2) with
               | POk _ r => (length r <= length b2)%nat | PErr => True end).
  { destruct (Z.testbit ft 1); [|simpl; lia].
    destruct (pull_uint_var b2) eqn:E; [apply pull_uint_var_len in E; lia|exact I]. }
  destruct (if Z.testbit ft 1 then pull_uint_var b2 else POk (Zlen b2) b2) as [len b3|]; [|exact I].
  repeat pull_step; fin.
  all: apply with_stream_good; [lia|]; intros st' s Ho Hc; repeat pull_step; fin.
Qed.

Lemma h_one_varint_good : forall st b, hgood st b (h_one_varint st b).
Proof. intros. unfold h_one_varint. repeat pull_step; fin. Qed.

Lemma h_max_stream_data_good : forall st ft b, hgood st b (h_max_stream_data st ft b).
Proof.
  intros. unfold h_max_stream_data. repeat pull_step; fin.
  apply with_stream_good; [lia|]. intros st' s Ho Hc. simpl. split; [same|lia].
Qed.

Lemma h_stream_count_good : forall st ft b, hgood st b (h_stream_count st ft b).
Proof. intros. unfold h_stream_count. repeat pull_step; fin. Qed.

Lemma h_stream_data_blocked_good : forall st ft b, hgood st b (h_stream_data_blocked st ft b).
Proof.
  intros. unfold h_stream_data_blocked. repeat pull_step; fin.
  apply with_stream_good; [lia|]. intros st' s Ho Hc. simpl. split; [same|lia].
Qed.

Lemma h_new_connection_id_good : forall st ft b, hgood st b (h_new_connection_id true st ft b).
Proof.
  intros. unfold h_new_connection_id. repeat pull_step; fin.
  all: try match goal with |- context[match ?l with [] => _ | _ :: _ => _ end] => destruct l end.
  all: cbv beta iota; repeat pull_step; fin.
Qed.

Lemma h_retire_connection_id_good : forall st ft b, hgood st b (h_retire_connection_id st ft b).
Proof.
  intros. unfold h_retire_connection_id. repeat pull_step; fin.
  destruct (replenish _ _ _) as [hseq cids]. simpl. split; [same|lia].
Qed.

Lemma h_path_challenge_good : forall st b, hgood st b (h_path_challenge st b).
Proof. intros. unfold h_path_challenge. repeat pull_step; fin. Qed.

Lemma h_path_response_good : forall st ft b, hgood st b (h_path_response st ft b).
Proof. intros. unfold h_path_response. repeat pull_step; fin. Qed.

Lemma h_connection_close_good : forall st ft b, hgood st b (h_connection_close st ft b).
Proof.
  intros. unfold h_connection_close.
  destruct (pull_uint_var b) as [code b1|] eqn:E1; [apply pull_uint_var_len in E1|exact I].
  assert (H2 : match (if ft =? FT_TRANSPORT_CLOSE then pull_uint_var b1 else POk (-1) b1) with
               | POk _ r => (length r <= length b1)%nat | PErr => True end).
  { destruct (ft =? FT_TRANSPORT_CLOSE); [|simpl; lia].
    destruct (pull_uint_var b1) eqn:E; [apply pull_uint_var_len in E; lia|exact I]. }
  destruct (if ft =? FT_TRANSPORT_CLOSE then pull_uint_var b1 else POk (-1) b1) as [cft b2|]; [|exact I].
  repeat pull_step; fin.
  all: destruct (c_close st) eqn:Ec; simpl; (split; [|lia]).
  all: try (apply st_next_same; [reflexivity|cbn [c_close set_close]; congruence]).
  all: split; [apply tls_next_refl|right; split; [exact Ec|eexists; eexists; reflexivity]].
Qed.

Lemma h_handshake_done_good : forall st ft b, hgood st b (h_handshake_done st ft b).
Proof. intros. unfold h_handshake_done. repeat pull_step; fin. Qed.

Lemma h_datagram_good : forall st ft b, hgood st b (h_datagram st ft b).
Proof.
  intros. unfold h_datagram.
  assert (H2 : match (if ft =? FT_DATAGRAM_WITH_LENGTH then pull_uint_var b else POk (Zlen b) b) with
               | POk _ r => (length r <= length b)%nat | PErr => True end).
  { destruct (ft =? FT_DATAGRAM_WITH_LENGTH); [|simpl; lia].
    destruct (pull_uint_var b) eqn:E; [apply pull_uint_var_len in E; lia|exact I]. }
  destruct (if ft =? FT_DATAGRAM_WITH_LENGTH then pull_uint_var b else POk (Zlen b) b) as [len b2|]; [|exact I].
  repeat pull_step; fin.
Qed.

Theorem run_handler_good : forall h st epoch ft b, hgood st b (run_handler true h st epoch ft b).
Proof.
  intros. destruct h; simpl.
  - apply h_padding_good.
  - apply h_ping_good.
  - apply h_ack_good.
  - apply h_reset_stream_good.
  - apply h_stop_sending_good.
  - apply h_crypto_good.
  - apply h_new_token_good.
  - apply h_stream_good.
  - apply h_one_varint_good.
  - apply h_max_stream_data_good.
  - apply h_stream_count_good.
  - apply h_stream_count_good.
  - apply h_one_varint_good.
  - apply h_stream_data_blocked_good.
  - apply h_stream_count_good.
  - apply h_new_connection_id_good.
  - apply h_retire_connection_id_good.
  - apply h_path_challenge_good.
  - apply h_path_response_good.
  - apply h_connection_close_good.
  - apply h_handshake_done_good.
  - apply h_datagram_good.
Qed.

(* ---------- both variants: [patched] matters in NEW_CONNECTION_ID and below CRYPTO.  For the pinned variant only
   "a handler that returns has not moved backwards" is needed (termination of the frame loop). *)
Definition hlen (b : list Z) (r : hres) : Prop :=
  match r with
  | HOk _ rest | HFin _ rest => (length rest <= length b)%nat
  | _ => True
  end.

Definition hgoodp (p : bool) (st : cst) (b : list Z) (r : hres) : Prop :=
  if p then hgood st b r else hlen b r.

Lemma hgood_hlen : forall st b r, hgood st b r -> hlen b r.
Proof. intros st b r H. destruct r; simpl in *; tauto. Qed.

Lemma h_new_connection_id_len : forall p st ft b, hlen b (h_new_connection_id p st ft b).
Proof.
  intros. unfold h_new_connection_id. repeat pull_step; try exact I.
  all: try match goal with |- context[match ?l with [] => _ | _ :: _ => _ end] => destruct l end.
  all: cbv beta iota; repeat pull_step; try exact I; simpl; lia.
Qed.

Lemma h_crypto_len : forall p st epoch ft b, hlen b (h_crypto p st epoch ft b).
Proof.
  intros. unfold h_crypto.
  destruct (pull_uint_var b) as [offset b1|] eqn:E1; [apply pull_uint_var_len in E1|exact I].
  destruct (pull_uint_var b1) as [len b2|] eqn:E2; [apply pull_uint_var_len in E2|exact I].
  destruct (offset + len >? UINT_VAR_MAX); [exact I|].
  destruct (pull_bytes len b2) as [data rest|] eqn:E3; [apply pull_bytes_len in E3|exact I].
  destruct (offset + len - r_start (crypto_of st epoch) >? MAX_PENDING_CRYPTO); [exact I|].
  destruct (offset - r_start (crypto_of st epoch) >? CRYPTO_FAR); [simpl; lia|].
  destruct (handle_frame (crypto_of st epoch) offset data false) as [ro r'] eqn:HF.
  destruct ro as [|out fin| |]; try (simpl; lia).
  cbv zeta. destruct (TlsRecv.crypto_deliver _ _ _ _ _ _); simpl; try exact I; lia.
Qed.

Lemma run_handler_goodp : forall p h st epoch ft b, hgoodp p st b (run_handler p h st epoch ft b).
Proof.
  intros. destruct p; [apply run_handler_good|]. unfold hgoodp.
  destruct h;
    try (match goal with |- hlen _ (run_handler _ ?h _ _ _ _) =>
           apply (hgood_hlen st); exact (run_handler_good h st epoch ft b) end).
  - simpl. apply h_crypto_len.
  - simpl. apply h_new_connection_id_len.
Qed.

(* ---------- one iteration of the frame loop *)
Lemma frame_step_goodp : forall p st epoch b,
  match frame_step p st epoch b with
  | SNext st' rest _ => (p = true -> st_next st st') /\ (length rest < length b)%nat
  | SQErr _ code _ => p = true -> tls_ok (c_tls st) -> code_ok (c_tls st) code
  | SExn _ _ => p = false \/ ~ tls_ok (c_tls st)
  end.
Proof.
  intros. unfold frame_step.
  destruct (pull_uint_var b) as [ft b1|] eqn:E; [apply pull_uint_var_len in E|in_codes].
  destruct (lookup_frame ft frame_table) as [[h epochs]|]; [|in_codes].
  destruct (negb (zmem epoch epochs)); [in_codes|].
  pose proof (run_handler_goodp p h st epoch ft b1) as G.
  destruct p; unfold hgoodp in G; destruct (run_handler _ h st epoch ft b1); simpl in G.
  - destruct G; split; [auto|lia].
  - in_codes.
  - intros _. exact G.
  - destruct G; split; [auto|lia].
  - right. exact G.
  - split; [discriminate|lia].
  - in_codes.
  - discriminate.
  - split; [discriminate|lia].
  - left. reflexivity.
Qed.

Lemma frame_step_len : forall p st epoch b st' rest c,
  frame_step p st epoch b = SNext st' rest c -> (length rest < length b)%nat.
Proof.
  intros p st epoch b st' rest c H. pose proof (frame_step_goodp p st epoch b) as G.
  rewrite H in G. tauto.
Qed.

Lemma payload_step : forall fuel p st epoch x b nlog found crypto,
  payload_loop (S fuel) p st epoch (x :: b) nlog found crypto =
  match frame_step p st epoch (x :: b) with
  | SNext st' rest c => payload_loop fuel p st' epoch rest (nlog + 1) true (crypto || c)
  | SQErr lg code ft => PQErr (c_close st) (nlog + b2z lg) code ft
  | SExn lg k => PExn (nlog + b2z lg) k
  end.
Proof. reflexivity. Qed.

(* the loop never runs out of fuel: any fuel above the payload length gives the same result *)
Lemma payload_fuel_any : forall f1 f2 p st epoch b nlog found crypto,
  (length b < f1)%nat -> (length b < f2)%nat ->
  payload_loop f1 p st epoch b nlog found crypto = payload_loop f2 p st epoch b nlog found crypto.
Proof.
  induction f1 as [|f1 IH]; intros f2 p st epoch b nlog found crypto H1 H2; [lia|].
  destruct f2 as [|f2]; [lia|].
  destruct b as [|x b]; [reflexivity|].
  rewrite !payload_step.
  destruct (frame_step p st epoch (x :: b)) as [st' rest c| |] eqn:E; try reflexivity.
  apply frame_step_len in E. simpl in *. apply IH; lia.
Qed.

(* ---------- totality of _payload_received (patched model).
   [prior] of a raised QuicConnectionError is the _close_event at that moment: by close_step it is the one the
   packet started with, or a peer's close. *)
Lemma payload_loop_total : forall fuel st epoch b nlog found crypto,
  tls_ok (c_tls st) ->
  match payload_loop fuel true st epoch b nlog found crypto with
  | PDone st' _ _ _ => st_next st st'
  | PQErr prior _ code _ => code_ok (c_tls st) code /\ close_step (c_close st) prior
  | PExn _ _ => False
  end.
Proof.
  induction fuel as [|f IH]; intros st epoch b nlog found crypto Ho.
  - destruct b; apply st_next_same; reflexivity.
  - destruct b as [|x b]; [apply st_next_same; reflexivity|].
    rewrite payload_step. pose proof (frame_step_goodp true st epoch (x :: b)) as G.
    destruct (frame_step true st epoch (x :: b)) as [st' rest c|lg code ft|lg k].
    + destruct G as [G1 G2]. specialize (G1 eq_refl).
      specialize (IH st' epoch rest (nlog + 1) true (crypto || c)).
      destruct G1 as [[T1 I1] C1]. specialize (IH (T1 Ho)).
      destruct (payload_loop f true st' epoch rest (nlog + 1) true (crypto || c)).
      * eapply st_next_trans; [|exact IH]. split; [split|]; assumption.
      * destruct IH as [IH1 IH2]. split; [eapply code_ok_incl; eauto|eapply close_step_trans; eauto].
      * exact IH.
    + split; [apply G; auto|left; reflexivity].
    + destruct G as [G|G]; [discriminate|contradiction].
Qed.

Lemma payload_received_total : forall st epoch creq b,
  tls_ok (c_tls st) ->
  match payload_received true st epoch creq b with
  | PDone st' _ _ _ => st_next st st'
  | PQErr prior _ code _ => code_ok (c_tls st) code /\ close_step (c_close st) prior
  | PExn _ _ => False
  end.
Proof.
  intros st epoch creq b Ho. unfold payload_received.
  pose proof (payload_loop_total (S (length b)) st epoch b 0 false false Ho) as G.
  destruct (payload_loop (S (length b)) true st epoch b 0 false false) as [st' n fo cr| |]; try assumption.
  destruct G as [G1 G2].
  destruct (negb fo); [split; [in_codes|exact G2]|]. destruct (creq && negb cr); [split; [in_codes|exact G2]|].
  split; assumption.
Qed.

(* receive_datagram below decryption: returns normally, possibly having decided to close *)
Lemma receive_packet_total : forall st epoch creq rbits b,
  tls_ok (c_tls st) ->
  forall n k, receive_packet true st epoch creq rbits b <> OExn n k.
Proof.
  intros st epoch creq rbits b Ho n k. unfold receive_packet.
  destruct rbits; [discriminate|].
  pose proof (payload_received_total st epoch creq b Ho) as G.
  destruct (payload_received true st epoch creq b) as [st' m fo cr|prior m code ft|m kk].
  - destruct (c_close st') as [[[[] c] f]|]; discriminate.
  - destruct prior as [[[[] c] f]|]; discriminate.
  - contradiction.
Qed.

(* goal "own close code": when no close was decided before the packet (receive_datagram's gate), a close
   initiated by this endpoint carries a documented code; the other endings are OOk / the peer's close *)
Lemma receive_packet_close_code : forall st epoch creq rbits b n code ft,
  tls_ok (c_tls st) -> c_close st = None ->
  receive_packet true st epoch creq rbits b = OClosed n code ft -> code_ok (c_tls st) code.
Proof.
  intros st epoch creq rbits b n code ft Ho Hc. unfold receive_packet.
  destruct rbits; [intros H; injection H as _ <- _; in_codes|].
  pose proof (payload_received_total st epoch creq b Ho) as G.
  destruct (payload_received true st epoch creq b) as [st' m fo cr|prior m c0 f0|m kk]; [| |contradiction].
  - destruct G as [_ [G|[_ (c1 & f1 & G)]]]; rewrite G; [rewrite Hc|]; discriminate.
  - destruct G as [G1 [G|[_ (c1 & f1 & G)]]]; rewrite G; [rewrite Hc|discriminate].
    intros H; injection H as _ <- _. exact G1.
Qed.

(* ---------- classification of parse errors, at any frame boundary of any payload *)
Lemma cls_empty_payload : forall p st epoch creq,
  payload_received p st epoch creq [] = PQErr (c_close st) 0 EC_PROTOCOL_VIOLATION FT_PADDING.
Proof. reflexivity. Qed.

Lemma cls_malformed_type : forall p st epoch b,
  pull_uint_var b = PErr -> frame_step p st epoch b = SQErr false EC_FRAME_ENCODING_ERROR (-1).
Proof. intros p st epoch b H. unfold frame_step. rewrite H. reflexivity. Qed.

Lemma cls_unknown_type : forall p st epoch b ft b1,
  pull_uint_var b = POk ft b1 -> lookup_frame ft frame_table = None ->
  frame_step p st epoch b = SQErr false EC_FRAME_ENCODING_ERROR ft.
Proof. intros p st epoch b ft b1 H1 H2. unfold frame_step. rewrite H1, H2. reflexivity. Qed.

Lemma cls_wrong_epoch : forall p st epoch b ft b1 h epochs,
  pull_uint_var b = POk ft b1 -> lookup_frame ft frame_table = Some (h, epochs) ->
  zmem epoch epochs = false ->
  frame_step p st epoch b = SQErr false EC_PROTOCOL_VIOLATION ft.
Proof. intros p st epoch b ft b1 h epochs H1 H2 H3. unfold frame_step. rewrite H1, H2, H3. reflexivity. Qed.

Lemma cls_truncated_frame : forall p st epoch b ft b1 h epochs,
  pull_uint_var b = POk ft b1 -> lookup_frame ft frame_table = Some (h, epochs) ->
  zmem epoch epochs = true -> run_handler p h st epoch ft b1 = HBuf ->
  frame_step p st epoch b = SQErr false EC_FRAME_ENCODING_ERROR ft.
Proof.
  intros p st epoch b ft b1 h epochs H1 H2 H3 H4. unfold frame_step. rewrite H1, H2, H3, H4. reflexivity.
Qed.

(* frames handled successfully from the start of the payload *)
Fixpoint run_frames (n : nat) (p : bool) (st : cst) (epoch : Z) (b : list Z) : option (cst * list Z) :=
  match n with
  | O => Some (st, b)
  | S n =>
      match b with
      | [] => None
      | _ => match frame_step p st epoch b with
             | SNext st' rest _ => run_frames n p st' epoch rest
             | _ => None
             end
      end
  end.

Lemma loop_error_at_boundary : forall n fuel p st epoch b nlog found crypto st' rest lg code ft,
  (length b < fuel)%nat ->
  run_frames n p st epoch b = Some (st', rest) -> rest <> [] ->
  frame_step p st' epoch rest = SQErr lg code ft ->
  exists nlog', payload_loop fuel p st epoch b nlog found crypto = PQErr (c_close st') nlog' code ft.
Proof.
  induction n as [|n IH]; intros fuel p st epoch b nlog found crypto st' rest lg code ft Hf Hr Hne Hs.
  - simpl in Hr. inversion Hr; subst. destruct fuel as [|fuel]; [lia|].
    destruct rest as [|x r]; [contradiction|]. rewrite payload_step, Hs. eexists; reflexivity.
  - simpl in Hr. destruct b as [|x b]; [discriminate|].
    destruct fuel as [|fuel]; [simpl in Hf; lia|]. rewrite payload_step.
    destruct (frame_step p st epoch (x :: b)) as [st1 r1 c| |] eqn:E; try discriminate.
    apply frame_step_len in E. eapply IH; eauto. simpl in *. lia.
Qed.

Theorem payload_error_at_boundary : forall n p st epoch creq payload st' rest lg code ft,
  run_frames n p st epoch payload = Some (st', rest) -> rest <> [] ->
  frame_step p st' epoch rest = SQErr lg code ft ->
  exists nlog, payload_received p st epoch creq payload = PQErr (c_close st') nlog code ft.
Proof.
  intros n p st epoch creq payload st' rest lg code ft Hr Hne Hs.
  destruct (loop_error_at_boundary n (S (length payload)) p st epoch payload 0 false false st' rest lg code ft)
    as [nlog' H]; auto.
  exists nlog'. unfold payload_received. rewrite H. reflexivity.
Qed.

(* ---------- header decisions *)
Lemma header_total : forall is_client ff ptype len known vs k,
  recv_header_decide true is_client ff ptype len known vs <> DExn k.
Proof.
  intros. unfold recv_header_decide.
  repeat match goal with |- context[if ?c then _ else _] => destruct c end; discriminate.
Qed.

Lemma header_pinned_raises :
  recv_header_decide false false true 5 31 false true = DExn EXN_AssertionError /\
  recv_header_decide false false true 1 48 false true = DExn EXN_AssertionError /\
  recv_header_decide true false true 5 31 false true = DDrop 6.
Proof. repeat split. Qed.

(* ---------- the pinned NEW_CONNECTION_ID handler raises IndexError: concrete witness
   (state reached on a real server by docs/C05.md finding N1: active CID 10, none available,
   sequence number 20 already seen; frame NEW_CONNECTION_ID(seq=20, retire_prior_to=11)) *)
Definition tls_server_done : tls_side :=
  mkTls TlsRecvP.cfg_default_server
        (TlsRecv.mkCtx TlsDispatch.SERVER_POST_HANDSHAKE [] false None false 3 false) [].
Definition ncid_witness_state : cst :=
  mkCst false 0 1048576 128 128 1048576 1048576 (-1) 8 0 8 10 7 10 8
        tls_server_done [0; 1; 2; 3; 4; 5; 6; 7] [] [0; 1; 2; 3; 4; 5; 6; 7; 8; 10; 20] [] [] []
        recv_init recv_init recv_init None [].
Definition ncid_witness_payload : list Z :=
  [24; 20; 11; 8; 20; 20; 20; 20; 20; 20; 20; 20; 0; 0; 0; 0; 0; 0; 0; 0; 0; 0; 0; 0; 0; 0; 0; 0].

Lemma ncid_pinned_raises :
  receive_packet false ncid_witness_state EPOCH_ONE_RTT false false ncid_witness_payload
    = OExn 1 EXN_IndexError.
Proof. vm_compute. reflexivity. Qed.

Lemma ncid_patched_closes :
  receive_packet true ncid_witness_state EPOCH_ONE_RTT false false ncid_witness_payload
    = OClosed 1 EC_PROTOCOL_VIOLATION FT_NEW_CONNECTION_ID.
Proof. vm_compute. reflexivity. Qed.

(* hypotheses of the totality theorems are satisfiable by a non-trivial state *)
Example tls_ok_example : tls_ok (c_tls ncid_witness_state).
Proof. split; [exact TlsRecvP.wf_cfg_default_server|right; vm_compute; reflexivity]. Qed.

(* a client in the middle of its handshake: the CRYPTO frame carries an EncryptedExtensions with QUIC transport
   parameters, which the TLS model accepts (the Ok branch below CRYPTO is inhabited) ... *)
Definition tls_client_ee (orcs : list (list TlsRecv.orc)) : tls_side :=
  mkTls TlsRecvP.cfg_default_client
        (TlsRecv.mkCtx TlsDispatch.CLIENT_EXPECT_ENCRYPTED_EXTENSIONS [] false None false 2 false) orcs.
Definition hs_client_state (orcs : list (list TlsRecv.orc)) : cst :=
  mkCst true 0 1048576 128 128 1048576 1048576 (-1) 1 0 2 0 0 0 8
        (tls_client_ee orcs) [0] [] [0] [] [] [] recv_init recv_init recv_init None [].
Definition crypto_ee_payload : list Z := [6; 0; 13; 8; 0; 0; 9; 0; 7; 0; 57; 0; 3; 1; 2; 3].

Example crypto_frame_accepted :
  tls_ok (c_tls (hs_client_state [[TlsRecv.orc0]])) /\
  receive_packet true (hs_client_state [[TlsRecv.orc0]]) EPOCH_HANDSHAKE false false crypto_ee_payload = OOk 1.
Proof. split; [split; [exact TlsRecvP.wf_cfg_default_client|right; vm_compute; reflexivity]|vm_compute; reflexivity]. Qed.

(* ... a Finished in its place closes with CRYPTO_ERROR + unexpected_message, and parameters the callback rejects
   close with the callback's code *)
Example crypto_frame_rejected :
  receive_packet true (hs_client_state [[TlsRecv.orc0]]) EPOCH_HANDSHAKE false false [6; 0; 4; 20; 0; 0; 0]
    = OClosed 1 (EC_CRYPTO_ERROR + TlsDispatch.AD_unexpected_message) FT_CRYPTO /\
  receive_packet true (hs_client_state [[TlsRecv.mkOrc [] 8 6 (-1) true 1 1 true 0 true]]) EPOCH_HANDSHAKE false false
    crypto_ee_payload = OClosed 1 8 6.
Proof. split; vm_compute; reflexivity. Qed.

Example frames_ok_example :
  receive_packet true ncid_witness_state EPOCH_ONE_RTT false false [1; 16; 64; 100; 8; 0; 1; 2; 3] = OOk 3.
Proof. vm_compute. reflexivity. Qed.

(* ---------- statements used by props/C05.v *)
Definition raises_qerr (p : bool) (st : cst) (epoch : Z) (creq : bool) (payload : list Z)
           (st' : cst) (code ft : Z) : Prop :=
  exists nlog, payload_received p st epoch creq payload = PQErr (c_close st') nlog code ft.

Theorem parse_error_classification_all : forall p st epoch creq,
  raises_qerr p st epoch creq [] st EC_PROTOCOL_VIOLATION FT_PADDING /\
  (forall n payload st' rest,
     run_frames n p st epoch payload = Some (st', rest) -> rest <> [] ->
     (pull_uint_var rest = PErr ->
        raises_qerr p st epoch creq payload st' EC_FRAME_ENCODING_ERROR (-1)) /\
     (forall ft b1, pull_uint_var rest = POk ft b1 ->
        (lookup_frame ft frame_table = None ->
           raises_qerr p st epoch creq payload st' EC_FRAME_ENCODING_ERROR ft) /\
        (forall h epochs, lookup_frame ft frame_table = Some (h, epochs) ->
           (zmem epoch epochs = false ->
              raises_qerr p st epoch creq payload st' EC_PROTOCOL_VIOLATION ft) /\
           (zmem epoch epochs = true -> run_handler p h st' epoch ft b1 = HBuf ->
              raises_qerr p st epoch creq payload st' EC_FRAME_ENCODING_ERROR ft)))).
Proof.
  intros p st epoch creq. split.
  - exists 0. apply cls_empty_payload.
  - intros n payload st' rest Hr Hne. split.
    + intro H. eapply payload_error_at_boundary; eauto. apply cls_malformed_type; assumption.
    + intros ft b1 H1. split.
      * intro H2. eapply payload_error_at_boundary; eauto. eapply cls_unknown_type; eauto.
      * intros h epochs H2. split.
        -- intro H3. eapply payload_error_at_boundary; eauto. eapply cls_wrong_epoch; eauto.
        -- intros H3 H4. eapply payload_error_at_boundary; eauto. eapply cls_truncated_frame; eauto.
Qed.

(* receive_total_tls: the frame layer with the TLS message layer substituted below CRYPTO.  For every state whose
   tls.Context satisfies the hypotheses of tls_handle_message_total, every epoch, flags, payload bytes and every
   valuation of the oracle records: receive_packet is never an escaping exception; a QuicConnectionError raised
   out of _payload_received has a documented code; the state left behind satisfies the hypotheses again. *)
Theorem receive_total_frames : forall st epoch creq rbits payload,
  tls_ok (c_tls st) ->
  (forall n k, receive_packet true st epoch creq rbits payload <> OExn n k) /\
  match payload_received true st epoch creq payload with
  | PDone st' _ _ _ => tls_ok (c_tls st') /\ close_step (c_close st) (c_close st')
  | PQErr prior _ code _ => code_ok (c_tls st) code /\ close_step (c_close st) prior
  | PExn _ _ => False
  end.
Proof.
  intros st epoch creq rbits payload Ho. split; [apply receive_packet_total; assumption|].
  pose proof (payload_received_total st epoch creq payload Ho) as G.
  destruct (payload_received true st epoch creq payload); try exact G.
  destruct G as [[T _] C]. split; [exact (T Ho)|exact C].
Qed.

(* oracle valuations "within their stated range": the transport-parameter callback answers 0 (accepted) or a
   QuicErrorCode.  Then every code is a QuicErrorCode or CRYPTO_ERROR + a TLS alert. *)
Definition orcs_in_range (t : tls_side) : Prop :=
  forall o, In o (orc_pool t) -> TlsRecv.o_tp_code o = 0 \/ In (TlsRecv.o_tp_code o) all_error_codes.

Definition code_documented (code : Z) : Prop :=
  In code all_error_codes \/
  (exists d, In d (TlsDispatch.AD_missing_extension :: TlsRecvP.raised_alerts) /\ code = EC_CRYPTO_ERROR + d).

Lemma code_ok_documented t code : orcs_in_range t -> code_ok t code -> code_documented code.
Proof.
  intros R [H|[(d & Hd & H)|[H|(o & Ho & H & Hn)]]]; unfold code_documented.
  - left. exact H.
  - right. exists d. split; [right; exact Hd|exact H].
  - right. exists TlsDispatch.AD_missing_extension. split; [left; reflexivity|exact H].
  - destruct (R o Ho) as [E|E]; [congruence|]. left. rewrite H. exact E.
Qed.

Theorem receive_close_code : forall st epoch creq rbits payload n code ft,
  tls_ok (c_tls st) -> orcs_in_range (c_tls st) -> c_close st = None ->
  receive_packet true st epoch creq rbits payload = OClosed n code ft -> code_documented code.
Proof.
  intros st epoch creq rbits payload n code ft Ho Hr Hc H.
  eapply code_ok_documented; [exact Hr|]. eapply receive_packet_close_code; eauto.
Qed.

Theorem receive_total_pinned_witnesses :
  (exists st epoch payload n,
     tls_ok (c_tls st) /\ c_close st = None /\
     receive_packet false st epoch false false payload = OExn n EXN_IndexError /\
     receive_packet true st epoch false false payload = OClosed n EC_PROTOCOL_VIOLATION FT_NEW_CONNECTION_ID) /\
  (exists ptype len,
     recv_header_decide false false true ptype len false true = DExn EXN_AssertionError /\
     recv_header_decide true false true ptype len false true = DDrop 6).
Proof.
  split.
  - exists ncid_witness_state, EPOCH_ONE_RTT, ncid_witness_payload, 1.
    split; [exact tls_ok_example|]. split; [reflexivity|].
    split; [apply ncid_pinned_raises|apply ncid_patched_closes].
  - exists 5, 31. split; reflexivity.
Qed.

Theorem payload_fuel_independent : forall fuel p st epoch b,
  (length b < fuel)%nat ->
  payload_loop fuel p st epoch b 0 false false = payload_loop (S (length b)) p st epoch b 0 false false.
Proof. intros. apply payload_fuel_any; lia. Qed.

(* ---------- the generated dispatch table is the one of RFC 9000 section 12.4 (Table 3) plus RFC 9221:
   frame type -> packet types it may appear in (I=0, 0-RTT=1, H=2, 1-RTT=3).  A source change that
   widens or narrows an entry breaks this lemma (the table itself is regenerated, so the model would
   silently follow the source otherwise). *)
Definition rfc9000_table3 : list (Z * list Z) :=
  [(0, [0;1;2;3]); (1, [0;1;2;3]); (2, [0;2;3]); (3, [0;2;3]); (4, [1;3]); (5, [1;3]); (6, [0;2;3]); (7, [3]);
   (8, [1;3]); (9, [1;3]); (10, [1;3]); (11, [1;3]); (12, [1;3]); (13, [1;3]); (14, [1;3]); (15, [1;3]);
   (16, [1;3]); (17, [1;3]); (18, [1;3]); (19, [1;3]); (20, [1;3]); (21, [1;3]); (22, [1;3]); (23, [1;3]);
   (24, [1;3]); (25, [1;3]); (26, [1;3]); (27, [1;3]); (28, [0;1;2;3]); (29, [1;3]); (30, [3]);
   (48, [1;3]); (49, [1;3])].

Lemma frame_table_is_rfc9000 :
  map (fun row => (fst row, snd (snd row))) frame_table = rfc9000_table3.
Proof. reflexivity. Qed.
