(* Send half (model/StreamSend.v): ghost-instrumented runs, the partition invariant and its
   consequences (frames carry exactly the written bytes, nothing is forgotten, completion). *)
From Coq Require Import ZArith List Bool Lia ZifyBool.
From AQ Require Import lib.Base model.RangeSet model.StreamRecv model.StreamSpec model.StreamSend
  proofs.RangeSetP proofs.ListZ.

(* ---------- small helpers ---------- *)
Lemma zdrop_app_l {A} (l1 l2 : list A) n : n <= Zlen l1 -> zdrop n (l1 ++ l2) = zdrop n l1 ++ l2.
Proof.
  unfold zdrop, Zlen. intros H. rewrite skipn_app. replace (Z.to_nat n - length l1)%nat with 0%nat by lia. reflexivity.
Qed.

Lemma zdrop_zdrop {A} (l : list A) n m : 0 <= n -> 0 <= m -> zdrop m (zdrop n l) = zdrop (n + m) l.
Proof.
  unfold zdrop. intros Hn Hm. replace (Z.to_nat (n + m)) with (Z.to_nat m + Z.to_nat n)%nat by lia.
  generalize (Z.to_nat n) (Z.to_nat m). clear. intros n m. revert l.
  induction n as [|n IH]; intros l; [rewrite Nat.add_0_r; reflexivity|].
  replace (m + S n)%nat with (S (m + n)) by lia. destruct l as [|x l]; cbn [skipn]; [destruct m; reflexivity|]. apply IH.
Qed.

Definition slice (l : list Z) (a b : Z) : list Z := ztake (b - a) (zdrop a l).

Lemma pyslice_exact (l : list Z) a b : 0 <= a -> a <= b -> b <= Zlen l -> pyslice l a b = slice l a b.
Proof.
  intros Ha Hab Hb. unfold pyslice, pyidx, slice.
  assert (E1 : a <? 0 = false) by lia. assert (E2 : b <? 0 = false) by lia. rewrite E1, E2.
  replace (Z.min a (Zlen l)) with a by lia. replace (Z.min b (Zlen l)) with b by lia.
  destruct (b <=? a) eqn:E3; [|reflexivity].
  assert (b = a) by lia. subst b. replace (a - a) with 0 by lia. reflexivity.
Qed.

Lemma Zlen_slice l a b : 0 <= a -> a <= b -> b <= Zlen l -> Zlen (slice l a b) = b - a.
Proof. intros. unfold slice. rewrite Zlen_ztake, Zlen_zdrop. lia. Qed.

Lemma mem_contains_z o l : (b2z (contains o l) = 1 <-> mem o l) /\ (b2z (contains o l) = 0 <-> ~ mem o l).
Proof.
  pose proof (contains_mem o l) as H. destruct (contains o l); cbn.
  - assert (mem o l) by (apply H; reflexivity). split; split; intros; try lia; tauto.
  - assert (~ mem o l) by (intros Hm; apply H in Hm; discriminate). split; split; intros; try lia; tauto.
Qed.

Lemma wf_from_raise lo lo' l : wf_from lo l -> (forall o, lo < o <= lo' -> ~ mem o l) -> wf_from lo' l.
Proof.
  destruct l as [|[s e] t]; cbn; [tauto|]. intros (H1 & H2 & H3) Hn. repeat split; try assumption.
  destruct (Z_lt_dec lo' s); [assumption|]. exfalso. apply (Hn s); [lia|]. left. lia.
Qed.

(* ---------- outstanding frames (ghost) ---------- *)
Definition frame := (Z * Z * bool)%type.       (* start, stop, fin *)

Definition inr (a b o : Z) : Z := if (a <=? o) && (o <? b) then 1 else 0.
Fixpoint cover (o : Z) (outs : list frame) : Z :=
  match outs with [] => 0 | (a, b, _) :: t => inr a b o + cover o t end.
Fixpoint cfin (outs : list frame) : Z :=
  match outs with [] => 0 | (_, _, f) :: t => b2z f + cfin t end.

Definition frame_eqb (x y : frame) : bool :=
  let '(a, b, f) := x in let '(a', b', f') := y in (a =? a') && (b =? b') && Bool.eqb f f'.

Lemma frame_eqb_eq x y : frame_eqb x y = true <-> x = y.
Proof.
  destruct x as [[a b] f], y as [[a' b'] f']. cbn. rewrite !andb_true_iff, !Z.eqb_eq, eqb_true_iff.
  split; [intros [[? ?] ?]; subst; reflexivity|intros H; inversion H; auto].
Qed.

Fixpoint remove_one (x : frame) (outs : list frame) : list frame :=
  match outs with [] => [] | y :: t => if frame_eqb x y then t else y :: remove_one x t end.

Lemma inr_range a b o : 0 <= inr a b o <= 1.
Proof. unfold inr. destruct ((a <=? o) && (o <? b)); lia. Qed.

Lemma cover_nonneg o outs : 0 <= cover o outs.
Proof. induction outs as [|[[a b] f] t IH]; cbn [cover]; [lia|]. pose proof (inr_range a b o). lia. Qed.

Lemma cfin_nonneg outs : 0 <= cfin outs.
Proof. induction outs as [|[[a b] f] t IH]; cbn [cfin]; [lia|]. destruct f; cbn [b2z]; lia. Qed.

Lemma cover_remove o a b f outs : In (a, b, f) outs -> cover o (remove_one (a, b, f) outs) = cover o outs - inr a b o.
Proof.
  induction outs as [|y t IH]; cbn [In remove_one]; [tauto|]. intros H.
  destruct (frame_eqb (a, b, f) y) eqn:E.
  - apply frame_eqb_eq in E. subst y. cbn [cover cfin]. lia.
  - destruct H as [H|H]; [subst y; assert (frame_eqb (a, b, f) (a, b, f) = true) by (apply frame_eqb_eq; reflexivity); congruence|].
    destruct y as [[a' b'] f']. cbn [cover cfin]. rewrite IH by assumption. lia.
Qed.

Lemma cfin_remove a b f outs : In (a, b, f) outs -> cfin (remove_one (a, b, f) outs) = cfin outs - b2z f.
Proof.
  induction outs as [|y t IH]; cbn [In remove_one]; [tauto|]. intros H.
  destruct (frame_eqb (a, b, f) y) eqn:E.
  - apply frame_eqb_eq in E. subst y. cbn [cover cfin]. lia.
  - destruct H as [H|H]; [subst y; assert (frame_eqb (a, b, f) (a, b, f) = true) by (apply frame_eqb_eq; reflexivity); congruence|].
    destruct y as [[a' b'] f']. cbn [cover cfin]. rewrite IH by assumption. lia.
Qed.

Lemma In_remove_one x y outs : In y (remove_one x outs) -> In y outs.
Proof.
  induction outs as [|z t IH]; cbn; [tauto|]. destruct (frame_eqb x z); cbn; [tauto|]. intros [H|H]; [tauto|right; apply IH, H].
Qed.

Lemma cover_in_ge a b f outs o : In (a, b, f) outs -> inr a b o <= cover o outs.
Proof.
  induction outs as [|[[a' b'] f'] t IH]; cbn [In cover]; [tauto|]. intros [H|H].
  - inversion H; subst. pose proof (cover_nonneg o t). lia.
  - specialize (IH H). pose proof (inr_range a' b' o). lia.
Qed.

Lemma cfin_in_ge a b outs : In (a, b, true) outs -> 1 <= cfin outs.
Proof.
  induction outs as [|[[a' b'] f'] t IH]; cbn [In cfin]; [tauto|]. intros [H|H].
  - inversion H; subst. pose proof (cfin_nonneg t). cbn [b2z]. lia.
  - specialize (IH H). destruct f'; cbn [b2z]; lia.
Qed.

(* ---------- ghost state, operations, legitimacy ---------- *)
Record ghost := mkGhost { g_written : list Z; g_outs : list frame; g_reset_acked : bool }.
Definition ghost_init : ghost := mkGhost [] [] false.

Inductive sop :=
| WWrite (data : list Z) (fin : bool)
| WGet (max_size : Z) (max_offset : option Z)
| WGetReset
| WDeliv (acked : bool) (a b : Z) (fin : bool)
| WResetDeliv (acked : bool)
| WReset (code : Z).

Definition is_none {A} (o : option A) : bool := match o with None => true | Some _ => false end.

(* API contract of the send half: no write after FIN/reset, no get_frame after reset, reset frames
   only after reset(), and -- the premise discharged by C08 -- a delivery outcome only for a frame
   that was emitted and has had no outcome yet. *)
Definition legit (st : send) (g : ghost) (op : sop) : Prop :=
  match op with
  | WWrite _ _ => s_fin st = None /\ s_reset st = None
  | WGet _ _ => s_reset st = None
  | WGetReset => s_reset st <> None
  | WDeliv _ a b fin => In (a, b, fin) (g_outs g)
  | WResetDeliv _ => s_reset st <> None
  | WReset _ => True
  end.

Definition send_step (st : send) (op : sop) : sout * send :=
  match op with
  | WWrite d f => write st d f
  | WGet ms mo => get_frame st ms mo
  | WGetReset => get_reset_frame st
  | WDeliv k a b f => on_data_delivery st k a b f
  | WResetDeliv k => on_reset_delivery st k
  | WReset c => reset st c
  end.

Definition ghost_step (st : send) (g : ghost) (op : sop) (o : sout) : ghost :=
  match op, o with
  | WWrite d _, _ => mkGhost (g_written g ++ d) (g_outs g) (g_reset_acked g)
  | WGet _ _, SFrame off d f => mkGhost (g_written g) ((off, off + Zlen d, f) :: g_outs g) (g_reset_acked g)
  | WDeliv _ a b f, _ =>
      if is_none (s_reset st) then mkGhost (g_written g) (remove_one (a, b, f) (g_outs g)) (g_reset_acked g) else g
  | WResetDeliv true, _ => mkGhost (g_written g) (g_outs g) true
  | _, _ => g
  end.

Inductive reach : send -> ghost -> Prop :=
| reach_init : reach (send_init true) ghost_init
| reach_step st g op : reach st g -> legit st g op ->
    reach (snd (send_step st op)) (ghost_step st g op (fst (send_step st op))).

(* ---------- the invariant ---------- *)
Record SInv (st : send) (g : ghost) : Prop := {
  v_stop : s_stop st = Zlen (g_written g);
  v_start : 0 <= s_start st <= s_stop st;
  v_buf : s_buf st = zdrop (s_start st) (g_written g);
  v_pwf : wf_from (s_start st - 1) (s_pending st);
  v_pmax : forall o, mem o (s_pending st) -> o < s_stop st;
  v_awf : wf_from (s_start st) (s_acked st);
  v_amax : forall o, mem o (s_acked st) -> o < s_stop st;
  v_outs : forall a b f, In (a, b, f) (g_outs g) -> a <= b <= s_stop st;
  v_part : forall o, s_start st <= o < s_stop st ->
             b2z (contains o (s_pending st)) + b2z (contains o (s_acked st)) + cover o (g_outs g) = 1;
  v_below : forall o, o < s_start st -> cover o (g_outs g) = 0;
  v_fin_none : s_fin st = None -> s_pending_eof st = false /\ s_acked_fin st = false /\ cfin (g_outs g) = 0;
  v_fin_some : forall f, s_fin st = Some f ->
             f = s_stop st /\ (s_pending_eof st = true \/ s_acked_fin st = true \/ 1 <= cfin (g_outs g));
  v_fin_outs : forall a b, In (a, b, true) (g_outs g) -> s_fin st = Some b;
  v_finished : s_finished st =
             (match s_fin st with Some f => (f =? s_start st) && s_acked_fin st | None => false end) || g_reset_acked g;
  v_reset_empty : s_reset st <> None -> s_empty st = true;
  v_reset_acked : g_reset_acked g = true -> s_reset st <> None
}.

Lemma sinv_init : SInv (send_init true) ghost_init.
Proof.
  constructor; cbn; try tauto; try lia; try reflexivity; try discriminate.
Qed.

(* ---------- preservation, one operation at a time ---------- *)
Lemma contains_add o a b l lo : wf_from lo l -> lo < a -> a < b ->
  b2z (contains o (add a b l)) = if (a <=? o) && (o <? b) then 1 else b2z (contains o l).
Proof.
  intros W Hlo Hab. destruct (add_spec l lo a b W Hlo Hab) as (_ & M).
  pose proof (mem_contains_z o (add a b l)) as (C1 & C0). pose proof (mem_contains_z o l) as (D1 & D0).
  specialize (M o). destruct ((a <=? o) && (o <? b)) eqn:E.
  - apply C1, M. left. lia.
  - destruct (contains o l) eqn:Ec; cbn [b2z] in *.
    + apply C1, M. right. apply D1. reflexivity.
    + apply C0. intros Hm. apply M in Hm. destruct Hm as [Hm|Hm]; [lia|]. apply D0 in Hm; [exact Hm|reflexivity].
Qed.

Lemma contains_subtract o a b l lo : wf_from lo l -> a < b ->
  b2z (contains o (subtract a b l)) = if (a <=? o) && (o <? b) then 0 else b2z (contains o l).
Proof.
  intros W Hab. destruct (subtract_spec l lo a b W Hab) as (_ & M).
  pose proof (mem_contains_z o (subtract a b l)) as (C1 & C0). pose proof (mem_contains_z o l) as (D1 & D0).
  specialize (M o). destruct ((a <=? o) && (o <? b)) eqn:E.
  - apply C0. intros Hm. apply M in Hm. lia.
  - destruct (contains o l) eqn:Ec; cbn [b2z] in *.
    + apply C1, M. split; [apply D1; reflexivity|lia].
    + apply C0. intros Hm. apply M in Hm. destruct Hm as [Hm _]. apply D0 in Hm; [exact Hm|reflexivity].
Qed.

Lemma cover_zero_above outs hi o : (forall a b f, In (a, b, f) outs -> b <= hi) -> hi <= o -> cover o outs = 0.
Proof.
  induction outs as [|[[a b] f] t IH]; intros H Ho; cbn [cover]; [reflexivity|].
  rewrite IH; [|intros a' b' f' Hin; apply (H a' b' f'); right; exact Hin|exact Ho].
  pose proof (H a b f (or_introl eq_refl)). unfold inr. destruct ((a <=? o) && (o <? b)) eqn:E; lia.
Qed.

Ltac proj := cbn [s_empty s_highest s_finished s_reset_pending s_acked s_acked_fin s_buf s_fin s_start s_stop
                  s_pending s_pending_eof s_reset g_written g_outs g_reset_acked fst snd].

Lemma write_inv st g d f : SInv st g -> legit st g (WWrite d f) ->
  SInv (snd (write st d f)) (ghost_step st g (WWrite d f) (fst (write st d f))).
Proof.
  intros V (Lf & Lr). unfold write. rewrite Lf, Lr. cbn [fst snd ghost_step].
  pose proof (Zlen_nonneg d) as Hd. pose proof (v_start _ _ V) as Hst. pose proof (v_stop _ _ V) as Hsp.
  destruct (v_fin_none _ _ V Lf) as (F1 & F2 & F3).
  assert (Hfinishd : s_finished st = g_reset_acked g) by (rewrite (v_finished _ _ V), Lf; reflexivity).
  assert (Hnofin : forall a b, In (a, b, true) (g_outs g) -> False).
  { intros a b Hin. rewrite (v_fin_outs _ _ V a b Hin) in Lf. discriminate. }
  (* the state after the optional data part *)
  set (st1 := if negb (Zlen d =? 0)
              then mkSend false (s_highest st) (s_finished st) (s_reset_pending st) (s_acked st) (s_acked_fin st)
                     (s_buf st ++ d) None (s_start st) (s_stop st + Zlen d)
                     (add (s_stop st) (s_stop st + Zlen d) (s_pending st)) (s_pending_eof st) None
              else st).
  set (g1 := mkGhost (g_written g ++ d) (g_outs g) (g_reset_acked g)).
  assert (V1 : SInv st1 g1 /\ s_fin st1 = None /\ s_reset st1 = None /\ s_acked_fin st1 = false /\ s_finished st1 = g_reset_acked g).
  { unfold st1. destruct (negb (Zlen d =? 0)) eqn:Ed.
    - assert (Hlo : s_start st - 1 < s_stop st) by lia. assert (Hlt : s_stop st < s_stop st + Zlen d) by lia.
      destruct (add_spec (s_pending st) (s_start st - 1) (s_stop st) (s_stop st + Zlen d) (v_pwf _ _ V) Hlo Hlt) as (W' & M').
      split; [|proj; auto]. constructor; unfold g1; proj.
      + rewrite Zlen_app. lia.
      + lia.
      + rewrite (v_buf _ _ V). symmetry. apply zdrop_app_l. lia.
      + exact W'.
      + intros o Ho. apply M' in Ho. destruct Ho as [Ho|Ho]; [lia|]. pose proof (v_pmax _ _ V o Ho). lia.
      + exact (v_awf _ _ V).
      + intros o Ho. pose proof (v_amax _ _ V o Ho). lia.
      + intros a b f0 Hin. pose proof (v_outs _ _ V a b f0 Hin). lia.
      + intros o Ho. rewrite (contains_add o _ _ _ _ (v_pwf _ _ V) Hlo Hlt).
        destruct ((s_stop st <=? o) && (o <? s_stop st + Zlen d)) eqn:E.
        * assert (Ha : b2z (contains o (s_acked st)) = 0).
          { apply mem_contains_z. intros Hm. pose proof (v_amax _ _ V o Hm). lia. }
          assert (Hc : cover o (g_outs g) = 0).
          { apply (cover_zero_above _ (s_stop st)); [|lia]. intros a b f0 Hin. apply (v_outs _ _ V a b f0 Hin). }
          lia.
        * apply (v_part _ _ V). lia.
      + exact (v_below _ _ V).
      + intros _. auto.
      + intros f0 Hf0. congruence.
      + intros a b Hin. exfalso. exact (Hnofin a b Hin).
      + rewrite Hfinishd. reflexivity.
      + intros Hr. congruence.
      + intros Hr. pose proof (v_reset_acked _ _ V Hr). congruence.
    - assert (Zlen d = 0) by lia. assert (d = []) by (apply Zlen_zero_nil; assumption). subst d.
      unfold g1. rewrite app_nil_r. replace (mkGhost (g_written g) (g_outs g) (g_reset_acked g)) with g by (destruct g; reflexivity).
      auto. }
  destruct V1 as (V1 & N1 & N2 & N3 & N4).
  change (SInv (if f then mkSend false (s_highest st1) (s_finished st1) (s_reset_pending st1) (s_acked st1) (s_acked_fin st1)
                        (s_buf st1) (Some (s_stop st1)) (s_start st1) (s_stop st1) (s_pending st1) true (s_reset st1) else st1) g1).
  destruct f; [|exact V1].
  destruct (v_fin_none _ _ V1 N1) as (G1 & G2 & G3).
  constructor; proj; try (first [exact (v_stop _ _ V1)|exact (v_start _ _ V1)|exact (v_buf _ _ V1)|exact (v_pwf _ _ V1)|exact (v_pmax _ _ V1)
     |exact (v_awf _ _ V1)|exact (v_amax _ _ V1)|exact (v_outs _ _ V1)|exact (v_part _ _ V1)|exact (v_below _ _ V1)|exact (v_reset_acked _ _ V1)]).
  - discriminate.
  - intros f0 Hf0. inversion Hf0; subst. split; [reflexivity|left; reflexivity].
  - intros a b Hin. exfalso. pose proof (cfin_in_ge a b _ Hin). lia.
  - rewrite N4, N3, andb_false_r. reflexivity.
  - intros Hr. congruence.
Qed.

Lemma buf_slice st g a b : SInv st g -> s_start st <= a -> a <= b -> b <= s_stop st ->
  pyslice (s_buf st) (a - s_start st) (b - s_start st) = slice (g_written g) a b /\ Zlen (slice (g_written g) a b) = b - a.
Proof.
  intros V Ha Hab Hb. pose proof (v_start _ _ V). pose proof (v_stop _ _ V) as Hs.
  split; [|apply Zlen_slice; lia].
  rewrite pyslice_exact; [| lia | lia | rewrite (v_buf _ _ V), Zlen_zdrop; lia].
  unfold slice. rewrite (v_buf _ _ V), zdrop_zdrop by lia. f_equal; [lia|f_equal; lia].
Qed.

Lemma get_inv st g ms mo : SInv st g -> legit st g (WGet ms mo) ->
  SInv (snd (get_frame st ms mo)) (ghost_step st g (WGet ms mo) (fst (get_frame st ms mo))).
Proof.
  intros V Lr. cbn [legit] in Lr. unfold get_frame. rewrite Lr.
  pose proof (v_start _ _ V) as Hst. pose proof (v_stop _ _ V) as Hsp.
  assert (Hra : g_reset_acked g = false) by (destruct (g_reset_acked g) eqn:E; [pose proof (v_reset_acked _ _ V E); congruence|reflexivity]).
  destruct (s_pending st) as [|[start rstop] rest] eqn:EP.
  - destruct (s_pending_eof st) eqn:EE.
    + (* FIN-only frame *)
      destruct (s_fin st) as [f0|] eqn:EF; [|destruct (v_fin_none _ _ V EF) as (X & _); congruence].
      destruct (v_fin_some _ _ V f0 EF) as (Hf0 & _). cbn [fst snd ghost_step]. rewrite Zlen_nil, Z.add_0_r.
      constructor; proj; try (first [exact (v_stop _ _ V)|exact (v_start _ _ V)|exact (v_buf _ _ V)|exact (v_awf _ _ V)|exact (v_amax _ _ V)
         |(intros Hr; rewrite Hra in Hr; discriminate)]).
      * exact Logic.I.
      * intros o Ho. destruct Ho.
      * intros a b f1 [Hin|Hin]; [inversion Hin; subst; lia|exact (v_outs _ _ V a b f1 Hin)].
      * intros o Ho. cbn [cover]. unfold inr. assert (E : (f0 <=? o) && (o <? f0) = false) by lia. rewrite E.
        pose proof (v_part _ _ V o Ho) as P. rewrite EP in P. exact P.
      * intros o Ho. cbn [cover]. unfold inr. assert (E : (f0 <=? o) && (o <? f0) = false) by lia. rewrite E. rewrite (v_below _ _ V o Ho). reflexivity.
      * discriminate.
      * intros f1 Hf1. inversion Hf1; subst. split; [reflexivity|]. right. right. cbn [cfin b2z]. pose proof (cfin_nonneg (g_outs g)). lia.
      * intros a b [Hin|Hin]; [inversion Hin; subst; reflexivity|]. rewrite <- EF. exact (v_fin_outs _ _ V a b Hin).
      * rewrite (v_finished _ _ V), EF. reflexivity.
      * congruence.
    + (* nothing to send *)
      unfold set_empty. cbn [fst snd ghost_step].
      constructor; proj; try (first [exact (v_stop _ _ V)|exact (v_start _ _ V)|exact (v_buf _ _ V)|exact (v_awf _ _ V)|exact (v_amax _ _ V)
         |exact (v_outs _ _ V)|exact (v_below _ _ V)|exact (v_reset_acked _ _ V)|exact (v_fin_outs _ _ V)]).
      * exact (v_pwf _ _ V).
      * exact (v_pmax _ _ V).
      * exact (v_part _ _ V).
      * intros Hn. destruct (v_fin_none _ _ V Hn) as (A & B & C). rewrite EE. auto.
      * intros f0 Hf0. rewrite EE. pose proof (v_fin_some _ _ V f0 Hf0) as P. rewrite EE in P. exact P.
      * exact (v_finished _ _ V).
      * intros _. reflexivity.
  - (* a data frame from the first pending range *)
    pose proof (v_pwf _ _ V) as W. rewrite EP in W. cbn [wf_from] in W. destruct W as (W1 & W2 & W3).
    assert (Hrs : rstop <= s_stop st).
    { pose proof (v_pmax _ _ V (rstop - 1)) as P. rewrite EP in P. cbn [mem] in P.
      assert (Hq : start <= rstop - 1 < rstop) by lia. specialize (P (or_introl Hq)). lia. }
    set (stop0 := Z.min rstop (start + ms)).
    set (stop := match mo with Some m => if stop0 >? m then m else stop0 | None => stop0 end).
    destruct (stop <=? start) eqn:Ele.
    + cbn [fst snd ghost_step]. exact V.
    + assert (Hstop : start < stop <= rstop) by (unfold stop, stop0 in *; destruct mo as [m|]; [destruct (Z.min rstop (start + ms) >? m) eqn:E2|]; lia).
      assert (Hq1 : s_start st <= start) by lia. assert (Hq2 : start <= stop) by lia. assert (Hq3 : stop <= s_stop st) by lia.
      destruct (buf_slice st g start stop V Hq1 Hq2 Hq3) as (Hdata & Hlen).
      rewrite Hdata. cbn [fst snd ghost_step]. rewrite Hlen. replace (start + (stop - start)) with stop by lia.
      set (isfin := match s_fin st with Some f => f =? stop | None => false end).
      pose proof (v_pwf _ _ V) as Wp. 
      assert (Hlt : start < stop) by lia.
      destruct (subtract_spec (s_pending st) (s_start st - 1) start stop Wp Hlt) as (W' & M').
      rewrite <- EP.
      assert (Hmem : forall o, start <= o < stop -> mem o (s_pending st)) by (intros o Ho; rewrite EP; cbn [mem]; left; lia).
      constructor; proj; try (first [exact (v_stop _ _ V)|exact (v_start _ _ V)|exact (v_buf _ _ V)|exact (v_awf _ _ V)|exact (v_amax _ _ V)
         |(intros Hr; rewrite Hra in Hr; discriminate)]).
      * exact W'.
      * intros o Ho. apply M' in Ho. apply (v_pmax _ _ V o). tauto.
      * intros a b f1 [Hin|Hin]; [inversion Hin; subst; lia|exact (v_outs _ _ V a b f1 Hin)].
      * intros o Ho. rewrite (contains_subtract o _ _ _ _ Wp Hlt). cbn [cover]. unfold inr.
        pose proof (v_part _ _ V o Ho) as P.
        destruct ((start <=? o) && (o <? stop)) eqn:E.
        -- assert (b2z (contains o (s_pending st)) = 1) by (apply mem_contains_z, Hmem; lia). lia.
        -- lia.
      * intros o Ho. cbn [cover]. unfold inr. assert (E : (start <=? o) && (o <? stop) = false) by lia. rewrite E.
        rewrite (v_below _ _ V o Ho). reflexivity.
      * intros Hn. unfold isfin. rewrite Hn. destruct (v_fin_none _ _ V Hn) as (A & B & C). cbn [cfin b2z]. repeat split; try assumption; try lia.
      * intros f0 Hf0. destruct (v_fin_some _ _ V f0 Hf0) as (A & B). split; [exact A|]. cbn [cfin].
        pose proof (cfin_nonneg (g_outs g)). destruct isfin; cbn [b2z]; [right; right; lia|].
        destruct B as [B|[B|B]]; [left; exact B|right; left; exact B|right; right; lia].
      * intros a b [Hin|Hin]; [|exact (v_fin_outs _ _ V a b Hin)]. inversion Hin; subst. unfold isfin in H2.
        destruct (s_fin st) as [f0|]; [|discriminate]. f_equal. lia.
      * exact (v_finished _ _ V).
      * congruence.
Qed.

(* the "discard acknowledged prefix" step of on_data_delivery, on range sets only *)
Lemma advance_spec (acked : rs) (s a b : Z) (buf : list Z) : wf_from s acked -> s <= a -> a <= b ->
  exists acked' s',
    (if b >? a then
       match add a b acked with
       | (fs, fe) :: rest => if fs =? s then (rest, s + (fe - fs), zdrop (fe - fs) buf) else (add a b acked, s, buf)
       | [] => (add a b acked, s, buf)
       end
     else (acked, s, buf)) = (acked', s', zdrop (s' - s) buf) /\
    s <= s' /\ wf_from s' acked' /\
    (forall o, s' <= o -> (mem o acked' <-> (a <= o < b \/ mem o acked))) /\
    (forall o, s <= o < s' -> (a <= o < b \/ mem o acked)).
Proof.
  intros W Hs Hab. destruct (b >? a) eqn:E.
  - assert (Hlt : a < b) by lia. assert (Hlo : s - 1 < a) by lia.
    assert (Hw : wf_from (s - 1) acked) by (eapply wf_from_weaken; [exact W|lia]).
    destruct (add_spec acked (s - 1) a b Hw Hlo Hlt) as (W1 & M1).
    destruct (add a b acked) as [|[fs fe] rest] eqn:EA.
    + exists [], s. rewrite Z.sub_diag, zdrop_0 by lia. split; [reflexivity|]. split; [lia|]. split; [exact Logic.I|].
      split; [intros o Ho; apply M1|intros o Ho; lia].
    + cbn [wf_from] in W1. destruct W1 as (X1 & X2 & X3). destruct (fs =? s) eqn:Efs.
      * assert (fs = s) by lia. subst fs. exists rest, (s + (fe - s)). replace (s + (fe - s) - s) with (fe - s) by lia.
        split; [reflexivity|]. split; [lia|]. replace (s + (fe - s)) with fe by lia. split; [exact X3|]. split.
        -- intros o Ho. rewrite <- M1. cbn [mem]. split; [tauto|]. intros [Hx|Hx]; [lia|exact Hx].
        -- intros o Ho. apply M1. cbn [mem]. left. lia.
      * exists ((fs, fe) :: rest), s. rewrite Z.sub_diag, zdrop_0 by lia. split; [reflexivity|]. split; [lia|].
        split; [cbn [wf_from]; repeat split; try assumption; lia|]. split; [intros o Ho; apply M1|intros o Ho; lia].
  - exists acked, s. rewrite Z.sub_diag, zdrop_0 by lia. split; [reflexivity|]. split; [lia|]. split; [exact W|].
    split; [intros o Ho; split; [tauto|intros [Hx|Hx]; [lia|exact Hx]]|intros o Ho; lia].
Qed.


Lemma outstanding_facts st g a b fin : SInv st g -> In (a, b, fin) (g_outs g) ->
  a <= b <= s_stop st /\ (a < b -> s_start st <= a) /\
  (forall o, a <= o < b -> b2z (contains o (s_pending st)) = 0 /\ b2z (contains o (s_acked st)) = 0 /\ cover o (g_outs g) = 1) /\
  (fin = true -> s_fin st = Some b).
Proof.
  intros V Hin. pose proof (v_outs _ _ V a b fin Hin) as Hab.
  assert (Hge : a < b -> s_start st <= a).
  { intros Hlt. destruct (Z_le_dec (s_start st) a); [assumption|exfalso].
    pose proof (v_below _ _ V a ltac:(lia)) as Hc. pose proof (cover_in_ge a b fin _ a Hin) as Hi. unfold inr in Hi.
    assert (E : (a <=? a) && (a <? b) = true) by lia. rewrite E in Hi. lia. }
  split; [exact Hab|]. split; [exact Hge|]. split.
  - intros o Ho. assert (s_start st <= o < s_stop st) by lia.
    pose proof (v_part _ _ V o H) as P. pose proof (cover_in_ge a b fin _ o Hin) as Hi. unfold inr in Hi.
    assert (E : (a <=? o) && (o <? b) = true) by lia. rewrite E in Hi.
    destruct (contains o (s_pending st)), (contains o (s_acked st)); cbn [b2z] in *; lia.
  - intros Hf. subst fin. exact (v_fin_outs _ _ V a b Hin).
Qed.

Lemma contains_eq_of_iff o l (c : bool) (r : Z) :
  (mem o l <-> (c = true \/ r = 1)) -> (r = 0 \/ r = 1) -> b2z (contains o l) = if c then 1 else r.
Proof.
  intros H Hr. pose proof (mem_contains_z o l) as (C1 & C0). destruct c.
  - apply C1, H. left. reflexivity.
  - destruct Hr as [Hr|Hr]; subst r.
    + apply C0. intros Hm. apply H in Hm. destruct Hm; [discriminate|lia].
    + apply C1, H. right. reflexivity.
Qed.

Ltac solve_fin fin st :=
  repeat match goal with |- context [?x =? ?y] => let E := fresh "E" in destruct (x =? y) eqn:E end;
  try lia; destruct fin; destruct (s_acked_fin st); cbn; try reflexivity; try lia.

Lemma deliv_inv st g k a b fin : SInv st g -> legit st g (WDeliv k a b fin) ->
  SInv (snd (on_data_delivery st k a b fin)) (ghost_step st g (WDeliv k a b fin) (fst (on_data_delivery st k a b fin))).
Proof.
  intros V Hin. cbn [legit] in Hin.
  destruct (outstanding_facts st g a b fin V Hin) as (Hab & Hge & Hpart & Hfin).
  pose proof (v_start _ _ V) as Hst. pose proof (v_stop _ _ V) as Hsp.
  unfold on_data_delivery.
  assert (Eassert : fin && negb (match s_fin st with Some f => b =? f | None => false end) = false).
  { destruct fin; [|reflexivity]. rewrite (Hfin eq_refl). cbn. lia. }
  rewrite Eassert.
  destruct (s_reset st) as [code|] eqn:ER.
  { cbn [fst snd ghost_step]. rewrite ER. cbn [is_none]. exact V. }
  assert (Hra : g_reset_acked g = false) by (destruct (g_reset_acked g) eqn:E; [pose proof (v_reset_acked _ _ V E); congruence|reflexivity]).
  assert (Hrm_cover : forall o, cover o (remove_one (a, b, fin) (g_outs g)) = cover o (g_outs g) - inr a b o) by (intros o; apply cover_remove, Hin).
  assert (Hrm_cfin : cfin (remove_one (a, b, fin) (g_outs g)) = cfin (g_outs g) - b2z fin) by (apply cfin_remove, Hin).
  assert (Hinr : forall o, inr a b o = 1 -> a <= o < b) by (intros o; unfold inr; destruct ((a <=? o) && (o <? b)) eqn:E; lia).
  assert (Hinr0 : forall o, inr a b o = 0 -> ~ (a <= o < b)) by (intros o; unfold inr; destruct ((a <=? o) && (o <? b)) eqn:E; lia).
  assert (Hnofin : s_fin st = None -> fin = false) by (intros Hn; destruct fin; [rewrite (Hfin eq_refl) in Hn; discriminate|reflexivity]).
  destruct k.
  - (* ACKED *)
    assert (Hsa : a < b -> s_start st <= a) by exact Hge.
    destruct (Z_lt_dec a b) as [Hlt|Hnlt].
    2:{ (* FIN-only frame: nothing moves *)
      assert (Eba : b >? a = false) by lia. rewrite Eba. cbn [fst snd ghost_step]. rewrite ER. cbn [is_none].
      assert (Hi0 : forall o, inr a b o = 0) by (intros o; unfold inr; destruct ((a <=? o) && (o <? b)) eqn:E; lia).
      constructor; proj; try (first [exact (v_stop _ _ V)|exact (v_start _ _ V)|exact (v_buf _ _ V)|exact (v_awf _ _ V)|exact (v_amax _ _ V)
         |exact (v_pwf _ _ V)|exact (v_pmax _ _ V)]).
      - intros a0 b0 f0 H0. apply (v_outs _ _ V a0 b0 f0), (In_remove_one _ _ _ H0).
      - intros o Ho. rewrite Hrm_cover, Hi0. pose proof (v_part _ _ V o Ho). lia.
      - intros o Ho. rewrite Hrm_cover, Hi0, (v_below _ _ V o Ho). lia.
      - intros Hn. destruct (v_fin_none _ _ V Hn) as (A & B & C). rewrite Hrm_cfin, (Hnofin Hn). cbn [b2z]. repeat split; try assumption; lia.
      - intros f0 Hf0. destruct (v_fin_some _ _ V f0 Hf0) as (A & B). split; [exact A|]. rewrite Hrm_cfin.
        destruct fin; cbn [b2z]; [right; left; reflexivity|]. destruct B as [B|[B|B]]; [left; exact B|right; left; exact B|right; right; lia].
      - intros a0 b0 H0. apply (v_fin_outs _ _ V a0 b0), (In_remove_one _ _ _ H0).
      - rewrite Hra, orb_false_r. rewrite (v_finished _ _ V), Hra, orb_false_r.
        destruct (s_fin st) as [f0|]; [|reflexivity]. solve_fin fin st.
      - congruence.
      - intros Hr. congruence. }
    destruct (advance_spec (s_acked st) (s_start st) a b (s_buf st) (v_awf _ _ V) (Hsa Hlt) ltac:(lia)) as (acked' & s' & Heq & Hs' & Wa' & Ma' & Mb').
    rewrite Heq. cbn [fst snd ghost_step]. rewrite ER. cbn [is_none].
    assert (Hs'le : s' <= s_stop st).
    { destruct (Z_le_dec s' (s_stop st)); [assumption|exfalso].
      destruct (Mb' (s_stop st) ltac:(lia)) as [Hx|Hx]; [lia|pose proof (v_amax _ _ V _ Hx); lia]. }
    assert (Hnopend : forall o, s_start st <= o < s' -> ~ mem o (s_pending st) /\ cover o (g_outs g) - inr a b o = 0).
    { intros o Ho. assert (Ho2 : s_start st <= o < s_stop st) by lia. pose proof (v_part _ _ V o Ho2) as P.
      pose proof (mem_contains_z o (s_pending st)) as (C1 & C0). pose proof (mem_contains_z o (s_acked st)) as (D1 & D0).
      pose proof (cover_nonneg o (g_outs g)). pose proof (inr_range a b o).
      destruct (Mb' o Ho) as [Hx|Hx].
      - destruct (Hpart o Hx) as (P1 & P2 & P3). split; [apply C0; exact P1|].
        unfold inr. assert (E : (a <=? o) && (o <? b) = true) by lia. rewrite E. lia.
      - apply D1 in Hx. assert (b2z (contains o (s_pending st)) = 0) by (destruct (contains o (s_pending st)); cbn [b2z] in *; lia).
        split; [apply C0; assumption|]. assert (cover o (g_outs g) = 0) by lia.
        pose proof (cover_in_ge a b fin _ o Hin). lia. }
    constructor; proj.
    + exact (v_stop _ _ V).
    + lia.
    + rewrite (v_buf _ _ V), zdrop_zdrop by lia. f_equal. lia.
    + apply (wf_from_raise (s_start st - 1)); [exact (v_pwf _ _ V)|]. intros o Ho. apply Hnopend. lia.
    + exact (v_pmax _ _ V).
    + exact Wa'.
    + intros o Ho. pose proof (mem_above _ _ _ Wa' Ho). apply Ma' in Ho; [|lia]. destruct Ho as [Hx|Hx]; [lia|exact (v_amax _ _ V o Hx)].
    + intros a0 b0 f0 H0. apply (v_outs _ _ V a0 b0 f0), (In_remove_one _ _ _ H0).
    + intros o Ho. rewrite Hrm_cover. assert (Ho2 : s_start st <= o < s_stop st) by lia. pose proof (v_part _ _ V o Ho2) as P.
      pose proof (inr_range a b o) as Hi.
      rewrite (contains_eq_of_iff o acked' (Z.eqb (inr a b o) 1) (b2z (contains o (s_acked st)))).
      * destruct (inr a b o =? 1) eqn:E.
        -- assert (Hx : a <= o < b) by (apply Hinr; lia). destruct (Hpart o Hx) as (P1 & P2 & P3). lia.
        -- assert (inr a b o = 0) by lia. lia.
      * rewrite (Ma' o ltac:(lia)). pose proof (mem_contains_z o (s_acked st)) as (D1 & D0). rewrite D1.
        split; (intros [Hx|Hx]; [left|right; exact Hx]).
        -- unfold inr. assert (E : (a <=? o) && (o <? b) = true) by lia. rewrite E. reflexivity.
        -- apply Hinr. lia.
      * destruct (contains o (s_acked st)); cbn [b2z]; lia.
    + intros o Ho. rewrite Hrm_cover. destruct (Z_lt_dec o (s_start st)).
      * rewrite (v_below _ _ V o l). pose proof (inr_range a b o). destruct (Z.eq_dec (inr a b o) 0); [lia|].
        assert (a <= o < b) by (apply Hinr; lia). lia.
      * apply Hnopend. lia.
    + intros Hn. destruct (v_fin_none _ _ V Hn) as (A & B & C). rewrite Hrm_cfin, (Hnofin Hn). cbn [b2z]. repeat split; try assumption; lia.
    + intros f0 Hf0. destruct (v_fin_some _ _ V f0 Hf0) as (A & B). split; [exact A|]. rewrite Hrm_cfin.
      destruct fin; cbn [b2z]; [right; left; reflexivity|]. destruct B as [B|[B|B]]; [left; exact B|right; left; exact B|right; right; lia].
    + intros a0 b0 H0. apply (v_fin_outs _ _ V a0 b0), (In_remove_one _ _ _ H0).
    + rewrite Hra, orb_false_r. rewrite (v_finished _ _ V), Hra, orb_false_r.
      destruct (s_fin st) as [f0|] eqn:EF; [|reflexivity].
      destruct (v_fin_some _ _ V f0 EF) as (A & _). solve_fin fin st.
    + congruence.
    + intros Hr. congruence.
  - (* LOST *)
    set (st1 := if b >? a then mkSend false (s_highest st) (s_finished st) (s_reset_pending st) (s_acked st) (s_acked_fin st) (s_buf st)
               (s_fin st) (s_start st) (s_stop st) (add a b (s_pending st)) (s_pending_eof st) None else st).
    cbn [fst snd ghost_step]. rewrite ER. cbn [is_none].
    assert (Hcore : forall (e : bool) (pe : bool), (fin = false -> pe = s_pending_eof st) -> (fin = true -> pe = true) ->
      SInv (mkSend e (s_highest st) (s_finished st) (s_reset_pending st) (s_acked st) (s_acked_fin st) (s_buf st)
               (s_fin st) (s_start st) (s_stop st) (if b >? a then add a b (s_pending st) else s_pending st) pe None)
           (mkGhost (g_written g) (remove_one (a, b, fin) (g_outs g)) (g_reset_acked g))).
    { intros e pe Hpe Hpefin.
      assert (Hpend : wf_from (s_start st - 1) (if b >? a then add a b (s_pending st) else s_pending st) /\
                      forall o, mem o (if b >? a then add a b (s_pending st) else s_pending st) <-> (a <= o < b \/ mem o (s_pending st))).
      { destruct (b >? a) eqn:E.
        - assert (Hlt : a < b) by lia. assert (Hlo : s_start st - 1 < a) by (specialize (Hge Hlt); lia).
          exact (add_spec _ _ _ _ (v_pwf _ _ V) Hlo Hlt).
        - split; [exact (v_pwf _ _ V)|]. intros o. split; [tauto|]. intros [Hx|Hx]; [lia|exact Hx]. }
      destruct Hpend as (Wp' & Mp').
      constructor; proj; try (first [exact (v_stop _ _ V)|exact (v_start _ _ V)|exact (v_buf _ _ V)|exact (v_awf _ _ V)|exact (v_amax _ _ V)]).
      - exact Wp'.
      - intros o Ho. apply Mp' in Ho. destruct Ho as [Hx|Hx]; [lia|exact (v_pmax _ _ V o Hx)].
      - intros a0 b0 f0 H0. apply (v_outs _ _ V a0 b0 f0), (In_remove_one _ _ _ H0).
      - intros o Ho. rewrite Hrm_cover. pose proof (v_part _ _ V o Ho) as P. pose proof (inr_range a b o) as Hi.
        rewrite (contains_eq_of_iff o _ (Z.eqb (inr a b o) 1) (b2z (contains o (s_pending st)))).
        + destruct (inr a b o =? 1) eqn:E.
          * assert (Hx : a <= o < b) by (apply Hinr; lia). destruct (Hpart o Hx) as (P1 & P2 & P3). lia.
          * assert (inr a b o = 0) by lia. lia.
        + rewrite (Mp' o). pose proof (mem_contains_z o (s_pending st)) as (D1 & D0). rewrite D1.
          split; (intros [Hx|Hx]; [left|right; exact Hx]).
          * unfold inr. assert (E : (a <=? o) && (o <? b) = true) by lia. rewrite E. reflexivity.
          * apply Hinr. lia.
        + destruct (contains o (s_pending st)); cbn [b2z]; lia.
      - intros o Ho. rewrite Hrm_cover, (v_below _ _ V o Ho). pose proof (inr_range a b o). destruct (Z.eq_dec (inr a b o) 0); [lia|].
        assert (Hx : a <= o < b) by (apply Hinr; lia). assert (a < b) by lia. specialize (Hge H0). lia.
      - intros Hn. destruct (v_fin_none _ _ V Hn) as (A & B & C). rewrite Hrm_cfin, (Hnofin Hn). cbn [b2z].
        split; [rewrite (Hpe (Hnofin Hn)); exact A|split; [assumption|lia]].
      - intros f0 Hf0. destruct (v_fin_some _ _ V f0 Hf0) as (A & B). split; [exact A|]. rewrite Hrm_cfin.
        destruct fin; cbn [b2z]; [left; apply Hpefin; reflexivity|].
        destruct B as [B|[B|B]]; [left; rewrite (Hpe eq_refl); exact B|right; left; exact B|right; right; lia].
      - intros a0 b0 H0. apply (v_fin_outs _ _ V a0 b0), (In_remove_one _ _ _ H0).
      - exact (v_finished _ _ V).
      - congruence.
      - intros Hr. congruence. }
    subst st1.
    assert (Hst_eq : mkSend (s_empty st) (s_highest st) (s_finished st) (s_reset_pending st) (s_acked st) (s_acked_fin st) (s_buf st)
               (s_fin st) (s_start st) (s_stop st) (s_pending st) (s_pending_eof st) None = st) by (destruct st; cbn in *; subst; reflexivity).
    destruct (b >? a) eqn:Eba; destruct fin; proj; rewrite ?ER.
    + apply (Hcore false true); [discriminate|reflexivity].
    + apply (Hcore false (s_pending_eof st)); [reflexivity|discriminate].
    + apply (Hcore false true); [discriminate|reflexivity].
    + rewrite <- Hst_eq at 1. apply (Hcore (s_empty st) (s_pending_eof st)); [reflexivity|discriminate].
Qed.

Lemma st_eta st : mkSend (s_empty st) (s_highest st) (s_finished st) (s_reset_pending st) (s_acked st) (s_acked_fin st) (s_buf st)
   (s_fin st) (s_start st) (s_stop st) (s_pending st) (s_pending_eof st) (s_reset st) = st.
Proof. destruct st; reflexivity. Qed.

Lemma sinv_flags st g e fi rp rs' ra :
  SInv st g ->
  fi = (match s_fin st with Some f => (f =? s_start st) && s_acked_fin st | None => false end) || ra ->
  (rs' <> None -> e = true) -> (ra = true -> rs' <> None) ->
  SInv (mkSend e (s_highest st) fi rp (s_acked st) (s_acked_fin st) (s_buf st)
          (s_fin st) (s_start st) (s_stop st) (s_pending st) (s_pending_eof st) rs')
       (mkGhost (g_written g) (g_outs g) ra).
Proof.
  intros V Hfi He Hra. constructor; proj;
  try (first [exact (v_stop _ _ V)|exact (v_start _ _ V)|exact (v_buf _ _ V)|exact (v_awf _ _ V)|exact (v_amax _ _ V)
     |exact (v_pwf _ _ V)|exact (v_pmax _ _ V)|exact (v_outs _ _ V)|exact (v_part _ _ V)|exact (v_below _ _ V)
     |exact (v_fin_none _ _ V)|exact (v_fin_some _ _ V)|exact (v_fin_outs _ _ V)|exact Hfi|exact He|exact Hra]).
Qed.

Lemma g_eta g : mkGhost (g_written g) (g_outs g) (g_reset_acked g) = g.
Proof. destruct g; reflexivity. Qed.

Lemma step_inv st g op : SInv st g -> legit st g op ->
  SInv (snd (send_step st op)) (ghost_step st g op (fst (send_step st op))).
Proof.
  intros V L. destruct op as [d f|ms mo| |k a b f|k|c]; cbn [send_step].
  - apply write_inv; assumption.
  - apply get_inv; assumption.
  - (* get_reset_frame *) cbn [get_reset_frame fst snd ghost_step]. rewrite <- (g_eta g).
    apply sinv_flags; [exact V|exact (v_finished _ _ V)|exact (v_reset_empty _ _ V)|exact (v_reset_acked _ _ V)].
  - apply deliv_inv; assumption.
  - (* on_reset_delivery *) cbn [legit] in L. cbn [on_reset_delivery fst snd ghost_step]. destruct k.
    + apply sinv_flags; [exact V| |exact (v_reset_empty _ _ V)|intros _; exact L]. rewrite orb_true_r. reflexivity.
    + rewrite <- (g_eta g). apply sinv_flags; [exact V|exact (v_finished _ _ V)|exact (v_reset_empty _ _ V)|exact (v_reset_acked _ _ V)].
  - (* reset *) cbn [reset fst snd ghost_step]. destruct (s_reset st) eqn:ER; [exact V|].
    rewrite <- (g_eta g). apply sinv_flags; [exact V|exact (v_finished _ _ V)|reflexivity|].
    intros Hr. pose proof (v_reset_acked _ _ V Hr). congruence.
Qed.

Lemma reach_inv st g : reach st g -> SInv st g.
Proof. induction 1; [exact sinv_init|apply step_inv; assumption]. Qed.

(* ---------- consequences (the statements of C10, send half) ---------- *)

(* every emitted frame carries exactly the written bytes for its offsets, within the caps *)
Lemma send_frames_exact st g ms mo off data fin st' :
  reach st g -> s_reset st = None ->
  get_frame st ms mo = (SFrame off data fin, st') ->
  0 <= off /\ off + Zlen data <= Zlen (g_written g) /\
  data = slice (g_written g) off (off + Zlen data) /\
  (data <> [] -> Zlen data <= ms /\ forall m, mo = Some m -> off + Zlen data <= m) /\
  (fin = true -> s_fin st = Some (Zlen (g_written g)) /\ off + Zlen data = Zlen (g_written g)).
Proof.
  intros R Lr H. pose proof (reach_inv _ _ R) as V. unfold get_frame in H. rewrite Lr in H.
  pose proof (v_start _ _ V) as Hst. pose proof (v_stop _ _ V) as Hsp.
  destruct (s_pending st) as [|[start rstop] rest] eqn:EP.
  - destruct (s_pending_eof st) eqn:EE; [|discriminate].
    destruct (s_fin st) as [f0|] eqn:EF; [|destruct (v_fin_none _ _ V EF) as (X & _); congruence].
    destruct (v_fin_some _ _ V f0 EF) as (Hf0 & _). inversion H; subst off data fin st'. clear H.
    change (Zlen (@nil Z)) with 0. rewrite Z.add_0_r.
    repeat split; try lia.
    + unfold slice. rewrite Z.sub_diag. reflexivity.
    + intros X; contradiction.
    + intros X; contradiction.
    + congruence.
  - pose proof (v_pwf _ _ V) as W. rewrite EP in W. cbn [wf_from] in W. destruct W as (W1 & W2 & W3).
    assert (Hrs : rstop <= s_stop st).
    { pose proof (v_pmax _ _ V (rstop - 1)) as P. rewrite EP in P. cbn [mem] in P.
      assert (Hq : start <= rstop - 1 < rstop) by lia. specialize (P (or_introl Hq)). lia. }
    set (stop0 := Z.min rstop (start + ms)) in H.
    set (stop := match mo with Some m => if stop0 >? m then m else stop0 | None => stop0 end) in H.
    destruct (stop <=? start) eqn:Ele; [discriminate|].
    assert (Hstop : start < stop <= rstop /\ stop <= start + ms /\ forall m, mo = Some m -> stop <= m).
    { unfold stop, stop0 in *. destruct mo as [m|]; [destruct (Z.min rstop (start + ms) >? m) eqn:E2|]; repeat split; try lia;
      intros m' Hm'; inversion Hm'; subst; lia. }
    destruct Hstop as (Hs1 & Hs2 & Hs3).
    assert (Hq1 : s_start st <= start) by lia. assert (Hq2 : start <= stop) by lia. assert (Hq3 : stop <= s_stop st) by lia.
    destruct (buf_slice st g start stop V Hq1 Hq2 Hq3) as (Hdata & Hlen).
    rewrite Hdata in H. inversion H; subst off data fin. clear H. rewrite Hlen.
    replace (start + (stop - start)) with stop by lia.
    repeat split; try lia.
    + intros m Hm. apply Hs3, Hm.
    + destruct (s_fin st) as [f0|] eqn:EF; [|discriminate]. destruct (v_fin_some _ _ V f0 EF) as (A & _).
      f_equal. lia.
    + destruct (s_fin st) as [f0|] eqn:EF; [|discriminate]. destruct (v_fin_some _ _ V f0 EF) as (A & _). lia.
Qed.

(* a legitimate history never trips an assertion of the send half *)
Lemma send_no_assert st g op : reach st g -> legit st g op -> fst (send_step st op) <> SAssert.
Proof.
  intros R L. pose proof (reach_inv _ _ R) as V. destruct op as [d f|ms mo| |k a b f|k|c]; cbn [send_step legit] in *.
  - destruct L as (L1 & L2). unfold write. rewrite L1, L2. cbn. discriminate.
  - unfold get_frame. rewrite L. destruct (s_pending st) as [|[s e] t]; [destruct (s_pending_eof st); cbn; discriminate|].
    match goal with |- context [if ?c then _ else _] => destruct c end; cbn; discriminate.
  - cbn. discriminate.
  - destruct (outstanding_facts st g a b f V L) as (_ & _ & _ & Hfin). unfold on_data_delivery.
    assert (E : f && negb (match s_fin st with Some f0 => b =? f0 | None => false end) = false).
    { destruct f; [|reflexivity]. rewrite (Hfin eq_refl). cbn. lia. }
    rewrite E. destruct (s_reset st); [cbn; discriminate|]. destruct k.
    + destruct (b >? a); [destruct (add a b (s_acked st)) as [|[fs fe] rest]; [|destruct (fs =? s_start st)]|]; cbn; discriminate.
    + cbn. discriminate.
  - cbn. discriminate.
  - cbn. discriminate.
Qed.

(* nothing is forgotten: every written offset is, exactly once, acknowledged, pending or carried
   by an emitted frame without outcome; a written FIN is acknowledged, pending or outstanding *)
Definition ackedb (st : send) (o : Z) : Z := if o <? s_start st then 1 else b2z (contains o (s_acked st)).

Lemma send_partition st g : reach st g ->
  (forall o, 0 <= o < Zlen (g_written g) ->
     ackedb st o + b2z (contains o (s_pending st)) + cover o (g_outs g) = 1) /\
  (forall f, s_fin st = Some f -> f = Zlen (g_written g) /\
     (s_pending_eof st = true \/ s_acked_fin st = true \/ 1 <= cfin (g_outs g))).
Proof.
  intros R. pose proof (reach_inv _ _ R) as V. pose proof (v_stop _ _ V) as Hsp. split.
  - intros o Ho. unfold ackedb. destruct (o <? s_start st) eqn:E.
    + rewrite (v_below _ _ V o ltac:(lia)).
      assert (b2z (contains o (s_pending st)) = 0).
      { apply mem_contains_z. intros Hm. pose proof (mem_above _ _ _ (v_pwf _ _ V) Hm). lia. }
      lia.
    + pose proof (v_part _ _ V o ltac:(lia)). lia.
  - intros f Hf. destruct (v_fin_some _ _ V f Hf) as (A & B). split; [lia|exact B].
Qed.

(* after LOST the frame's bytes and FIN are pending again *)
Lemma lost_reoffered st g a b fin :
  reach st g -> s_reset st = None -> In (a, b, fin) (g_outs g) ->
  let st' := snd (on_data_delivery st false a b fin) in
  (forall o, a <= o < b -> mem o (s_pending st')) /\ (fin = true -> s_pending_eof st' = true) /\
  (a < b \/ fin = true -> s_empty st' = false).
Proof.
  intros R Lr Hin. pose proof (reach_inv _ _ R) as V.
  destruct (outstanding_facts st g a b fin V Hin) as (Hab & Hge & Hpart & Hfin).
  unfold on_data_delivery.
  assert (E : fin && negb (match s_fin st with Some f0 => b =? f0 | None => false end) = false).
  { destruct fin; [|reflexivity]. rewrite (Hfin eq_refl). cbn. lia. }
  rewrite E, Lr. cbn [snd].
  destruct (b >? a) eqn:Eba.
  - assert (Hlt : a < b) by lia. assert (Hlo : s_start st - 1 < a) by (specialize (Hge Hlt); lia).
    destruct (add_spec _ _ _ _ (v_pwf _ _ V) Hlo Hlt) as (_ & M).
    destruct fin; proj; (split; [intros o Ho; apply M; left; exact Ho|]); split; try reflexivity; try discriminate; intros _; reflexivity.
  - destruct fin; proj; (split; [intros o Ho; lia|]); split.
    + intros _; reflexivity.
    + intros _; reflexivity.
    + discriminate.
    + intros [H|H]; [lia|discriminate].
Qed.

(* pending data is offered again as soon as the caps allow; a pending FIN is offered when no data is pending *)
Lemma pending_offered st g ms :
  reach st g -> s_reset st = None -> 0 < ms ->
  match s_pending st with
  | (start, _) :: _ => exists data fin st', get_frame st ms None = (SFrame start data fin, st') /\ data <> []
  | [] => s_pending_eof st = true -> exists f st', get_frame st ms None = (SFrame f [] true, st')
  end.
Proof.
  intros R Lr Hms. pose proof (reach_inv _ _ R) as V. unfold get_frame. rewrite Lr.
  pose proof (v_start _ _ V) as Hst.
  destruct (s_pending st) as [|[start rstop] rest] eqn:EP.
  - intros EE. rewrite EE. eauto.
  - pose proof (v_pwf _ _ V) as W. rewrite EP in W. cbn [wf_from] in W. destruct W as (W1 & W2 & W3).
    assert (Hrs : rstop <= s_stop st).
    { pose proof (v_pmax _ _ V (rstop - 1)) as P. rewrite EP in P. cbn [mem] in P.
      assert (Hq : start <= rstop - 1 < rstop) by lia. specialize (P (or_introl Hq)). lia. }
    assert (E : Z.min rstop (start + ms) <=? start = false) by lia. rewrite E.
    assert (Hq1 : s_start st <= start) by lia. assert (Hq2 : start <= Z.min rstop (start + ms)) by lia.
    assert (Hq3 : Z.min rstop (start + ms) <= s_stop st) by lia.
    destruct (buf_slice st g start _ V Hq1 Hq2 Hq3) as (Hdata & Hlen). rewrite Hdata.
    eexists _, _, _. split; [reflexivity|]. intros Hnil. rewrite Hnil, Zlen_nil in Hlen. lia.
Qed.

(* nothing is offered after a reset *)
Lemma nothing_after_reset st g : reach st g -> s_reset st <> None ->
  s_empty st = true /\ forall ms mo, get_frame st ms mo = (SAssert, st).
Proof.
  intros R Hr. pose proof (reach_inv _ _ R) as V. split; [exact (v_reset_empty _ _ V Hr)|].
  intros ms mo. unfold get_frame. destruct (s_reset st); [reflexivity|congruence].
Qed.

(* completion is reported exactly when all bytes and the FIN, or the reset, have been acknowledged *)
Definition acked_at (st : send) (o : Z) : Prop := o < s_start st \/ mem o (s_acked st).

Lemma all_acked_iff st g : reach st g ->
  (s_start st = Zlen (g_written g) <-> forall o, 0 <= o < Zlen (g_written g) -> acked_at st o).
Proof.
  intros R. pose proof (reach_inv _ _ R) as V. pose proof (v_start _ _ V) as Hst. pose proof (v_stop _ _ V) as Hsp.
  split.
  - intros H o Ho. left. lia.
  - intros H. destruct (Z.eq_dec (s_start st) (Zlen (g_written g))); [assumption|exfalso].
    destruct (H (s_start st) ltac:(lia)) as [Hx|Hx]; [lia|]. pose proof (mem_above _ _ _ (v_awf _ _ V) Hx). lia.
Qed.

Lemma finished_iff st g : reach st g ->
  (s_finished st = true <->
   ((s_fin st = Some (Zlen (g_written g)) /\ s_start st = Zlen (g_written g) /\ s_acked_fin st = true)
    \/ g_reset_acked g = true)).
Proof.
  intros R. pose proof (reach_inv _ _ R) as V. pose proof (v_stop _ _ V) as Hsp. rewrite (v_finished _ _ V).
  rewrite orb_true_iff. split; (intros [H|H]; [left|right; exact H]).
  - destruct (s_fin st) as [f|] eqn:EF; [|discriminate]. destruct (v_fin_some _ _ V f EF) as (A & _).
    apply andb_true_iff in H. destruct H as (H1 & H2). repeat split; [f_equal; lia|lia|exact H2].
  - destruct H as (H1 & H2 & H3). rewrite H1, H3. lia.
Qed.

(* non-vacuity: a legitimate history with partial ack, loss and retransmission reaches completion *)
Definition run_ops (ops : list sop) : send * ghost * list sout :=
  fold_left (fun '(st, g, outs) op => let r := send_step st op in (snd r, ghost_step st g op (fst r), outs ++ [fst r]))
            ops (send_init true, ghost_init, []).

Example send_example :
  let '(st, g, outs) := run_ops [WWrite [1; 2; 3] false; WGet 2 None; WWrite [4] true; WGet 10 None;
                                 WDeliv false 0 2 false; WDeliv true 2 4 true; WGet 10 (Some 1); WGet 10 None;
                                 WDeliv true 1 2 false; WDeliv true 0 1 false] in
  outs = [SNone; SFrame 0 [1; 2] false; SNone; SFrame 2 [3; 4] true; SNone; SNone; SFrame 0 [1] false; SFrame 1 [2] false; SNone; SNone]
  /\ s_finished st = true /\ g_outs g = [].
Proof. vm_compute. auto. Qed.
