(* C14: the stream table of the connection (H3Connection._stream: find_stream / put_stream / get_or_create). *)
From AQ Require Import lib.Base model.H3Parse.
From Coq Require Import ZifyBool.

Lemma find_id : forall l x s, find_stream x l = Some s -> s_id s = x.
Proof.
  induction l as [|a l IH]; intros x s H; cbn in H; [discriminate|].
  destruct (s_id a =? x) eqn:E; [inversion H; subst; lia | eauto].
Qed.

Lemma find_put_same : forall l s, find_stream (s_id s) (put_stream s l) = Some s.
Proof.
  induction l as [|a l IH]; intros s; cbn.
  - rewrite Z.eqb_refl. reflexivity.
  - destruct (s_id a =? s_id s) eqn:E; cbn.
    + rewrite Z.eqb_refl. reflexivity.
    + rewrite E. apply IH.
Qed.

Lemma find_put_other : forall l s x, x <> s_id s -> find_stream x (put_stream s l) = find_stream x l.
Proof.
  induction l as [|a l IH]; intros s x H; cbn.
  - replace (s_id s =? x) with false by lia. reflexivity.
  - destruct (s_id a =? s_id s) eqn:E; cbn.
    + replace (s_id s =? x) with false by lia. replace (s_id a =? x) with false by lia. reflexivity.
    + destruct (s_id a =? x); [reflexivity|]. apply IH. assumption.
Qed.

Lemma find_app_new : forall l s x,
  find_stream x (l ++ [s]) =
  match find_stream x l with Some y => Some y | None => if s_id s =? x then Some s else None end.
Proof.
  induction l as [|a l IH]; intros s x; cbn; [reflexivity|].
  destruct (s_id a =? x); [reflexivity|]. apply IH.
Qed.

(* the table after get_or_create: the stream is there, the others are untouched *)
Lemma goc_find_same : forall c sid, find_stream sid (c_streams (snd (get_or_create c sid))) = Some (fst (get_or_create c sid)).
Proof.
  intros c sid. unfold get_or_create. destruct (find_stream sid (c_streams c)) eqn:E; cbn; [assumption|].
  rewrite find_app_new, E. cbn. rewrite Z.eqb_refl. reflexivity.
Qed.

Lemma goc_find_other : forall c sid x, x <> sid ->
  find_stream x (c_streams (snd (get_or_create c sid))) = find_stream x (c_streams c).
Proof.
  intros c sid x H. unfold get_or_create. destruct (find_stream sid (c_streams c)) eqn:E; cbn; [reflexivity|].
  rewrite find_app_new. destruct (find_stream x (c_streams c)); [reflexivity|].
  cbn [new_stream s_id]. replace (sid =? x) with false by lia. reflexivity.
Qed.

Lemma goc_fields : forall c sid,
  let c' := snd (get_or_create c sid) in
  c_client c' = c_client c /\ c_dgram c' = c_dgram c /\ c_done c' = c_done c /\ c_settings c' = c_settings c /\
  c_ctrl c' = c_ctrl c /\ c_qdec c' = c_qdec c /\ c_qenc c' = c_qenc c /\ c_maxpush c' = c_maxpush c /\
  c_sent_end c' = c_sent_end c.
Proof.
  intros c sid. unfold get_or_create. destruct (find_stream sid (c_streams c)); cbn; repeat split; reflexivity.
Qed.

Lemma goc_id : forall c sid, s_id (fst (get_or_create c sid)) = sid.
Proof.
  intros c sid. unfold get_or_create. destruct (find_stream sid (c_streams c)) eqn:E; cbn; [|reflexivity].
  eapply find_id; eassumption.
Qed.

Lemma goc_pair : forall c sid, get_or_create c sid = (fst (get_or_create c sid), snd (get_or_create c sid)).
Proof. intros; apply surjective_pairing. Qed.

(* pop_if_ended leaves the table alone when the stream is not finished *)
Lemma pop_not_ended : forall c sid s, find_stream sid (c_streams c) = Some s -> is_ended c s = false -> pop_if_ended c sid = c.
Proof. intros c sid s H E. unfold pop_if_ended. rewrite H, E. reflexivity. Qed.

Lemma is_ended_blocked : forall c s, s_blocked s = true -> is_ended c s = false.
Proof. intros c s H. unfold is_ended. rewrite H. cbn. rewrite andb_false_r. reflexivity. Qed.

Lemma is_ended_open : forall c s, s_ended s = false -> is_ended c s = false.
Proof. intros c s H. unfold is_ended. rewrite H. rewrite andb_false_r. reflexivity. Qed.
