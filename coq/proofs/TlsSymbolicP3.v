(* C03: the cryptographic premises bundled ([ideal_crypto]), the theorems in the form exported by props/C03.v, and
   NON-VACUITY: a concrete oracle record (a free "tagging" algebra over byte strings) that satisfies ideal_crypto,
   and an honest client / server pair that completes the handshake in the model with it, both sides releasing the
   same traffic secrets. *)
From AQ Require Import lib.Base gen.TlsDispatch model.TlsSymbolic proofs.TlsDispatchLegal.
From AQ Require Import proofs.TlsSymbolicP1 proofs.TlsSymbolicP2 proofs.TlsSymbolicP4 proofs.TlsSymbolicP5.

Definition ideal_crypto (O : oracles) : Prop :=
  (forall a x y, o_hash O a x = o_hash O a y -> x = y) /\
  (forall a k m a' k' m', o_hmac O a k m = o_hmac O a' k' m' -> a = a' /\ k = k' /\ m = m') /\
  (forall a s l h a' s' l' h', o_expand O a s l h = o_expand O a' s' l' h' -> a = a' /\ s = s' /\ l = l' /\ h = h') /\
  (forall vd, o_parse_fin O (o_build_fin O vd) = POk vd).

Lemma finished_binds_transcript_x : forall O, ideal_crypto O ->
  forall k e k' e', ks_finished O k e = ks_finished O k' e' -> k_alg k = k_alg k' /\ e = e' /\ k_tr k = k_tr k'.
Proof. intros O (A & B & C & D). apply finished_binds_transcript_lemma; assumption. Qed.

Lemma transcript_agreement_client_x : forall O, ideal_crypto O ->
  forall c s m s' out0 kS eS,
    client_handle_finished O c s m = (OOk, s', out0) ->
    m = o_build_fin O (ks_finished O kS eS) ->
    k_tr (the_ks s) = k_tr kS /\ k_alg (the_ks s) = k_alg kS /\ t_dec s = eS /\
    (hs_key_of O (the_ks s) (t_dec s) -> hs_key_of O kS eS -> k_gen kS = 2 ->
     ks_eqv (the_ks s) kS /\
     forall l, ks_derive O (ks_extract O (ks_update (the_ks s) m) None) l = ks_derive O (ks_extract O (ks_update kS m) None) l).
Proof. intros O (A & B & C & D). apply transcript_agreement_client_lemma; assumption. Qed.

Lemma transcript_agreement_server_x : forall O, ideal_crypto O ->
  forall c s0 m s' out0 kC eC,
    server_handle_finished O c (server_expect_finished O s0) m = (OOk, s', out0) ->
    m = o_build_fin O (ks_finished O kC eC) ->
    k_tr (the_ks s0) = k_tr kC /\ k_alg (the_ks s0) = k_alg kC /\ t_dec s0 = eC.
Proof. intros O (A & B & C & D). apply transcript_agreement_server_lemma; assumption. Qed.

Lemma transcript_agreement_run_x : forall O, ideal_crypto O ->
  forall sc ss chm ss' outS,
  server_handle_hello O sc ss chm = (OOk, ss', outS) ->
  exists finm kF eS cS keys0,
    In (EP_HANDSHAKE, finm) outS /\ server_after O ss' keys0 kF eS cS finm /\
    forall cc ms cs' outC,
      let cs := run O cc (client_started O cc) ms in
      t_state cs = CLIENT_EXPECT_FINISHED ->
      client_handle_finished O cc cs finm = (OOk, cs', outC) ->
      k_tr (the_ks cs) = k_tr kF /\ k_alg (the_ks cs) = k_alg kF /\ t_dec cs = eS /\
      exists a b,
        t_keys cs' = t_keys cs ++
          [(DIR_DECRYPT, EP_ONE_RTT, a, ks_derive O (ks_extract O (ks_update kF finm) None) L_s_ap_traffic);
           (DIR_ENCRYPT, EP_ONE_RTT, b, ks_derive O (ks_extract O (ks_update kF finm) None) L_c_ap_traffic)].
Proof. intros O (A & B & C & D). apply transcript_agreement_run_lemma; assumption. Qed.

(* codec premises (what C17 proves about the Gallina codecs): round trips, framed outputs, message types *)
Definition codec_ok (O : oracles) : Prop :=
  (forall v, o_parse_sh O (o_build_sh O v) = POk v) /\ (forall v, o_parse_ee O (o_build_ee O v) = POk v) /\
  (forall v, framed (o_build_sh O v)) /\ (forall v, framed (o_build_ee O v)) /\
  (forall x, msg_type (o_build_fin O x) = 20) /\ (forall v, msg_type (o_build_ee O v) <> 20) /\
  (forall v, msg_type (o_build_cr O v) <> 20) /\ (forall v, msg_type (o_build_ct O v) <> 20) /\
  (forall v, msg_type (o_build_cv O v) <> 20).

Lemma parameters_agreement_x : forall O, ideal_crypto O -> codec_ok O ->
  forall sc ss chm ss' outS,
  t_resumed ss = false -> framed chm ->
  server_handle_hello O sc ss chm = (OOk, ss', outS) ->
  exists finm, In (EP_HANDSHAKE, finm) outS /\
    forall cc ms cs' outC,
      let cs := run O cc (client_started O cc) ms in
      t_state cs = CLIENT_EXPECT_FINISHED ->
      framed (client_hello_tr O cc (t_resumed cs)) ->
      client_handle_finished O cc cs finm = (OOk, cs', outC) ->
      chm = client_hello_tr O cc (t_resumed cs) /\
      k_suite (the_ks cs) = k_suite (the_ks ss') /\ t_resumed cs = t_resumed ss' /\
      t_alpn cs = t_alpn ss' /\ t_early cs = t_early ss'.
Proof.
  intros O (A & B & C & D) (E1 & E2 & E3 & E4 & E5 & E6 & E7 & E8 & E9).
  apply parameters_agreement_lemma; assumption.
Qed.

Lemma server_agreement_run_x : forall O, ideal_crypto O ->
  forall sc ms m ss' out0 kC eC,
  let ss := run O sc (init_server sc) ms in
  t_state ss = SERVER_EXPECT_FINISHED ->
  server_handle_finished O sc ss m = (OOk, ss', out0) ->
  m = o_build_fin O (ks_finished O kC eC) ->
  exists s0, ss = server_expect_finished O s0 /\
             k_tr (the_ks s0) = k_tr kC /\ k_alg (the_ks s0) = k_alg kC /\ t_dec s0 = eC /\
             (forall pre a a' post post', k_tr kC = pre ++ a ++ post -> k_tr (the_ks s0) = pre ++ a' ++ post' ->
                                          framed a -> framed a' -> a = a').
Proof. intros O (A & B & C & D). apply server_agreement_run_lemma; assumption. Qed.

Lemma client_no_altered_message_x : forall O, ideal_crypto O ->
  forall cc ms finm cs' outC kF eS,
  let cs := run O cc (client_started O cc) ms in
  client_handle_finished O cc cs finm = (OOk, cs', outC) ->
  finm = o_build_fin O (ks_finished O kF eS) ->
  forall pre a a' post post', k_tr kF = pre ++ a ++ post -> k_tr (the_ks cs) = pre ++ a' ++ post' ->
                              framed a -> framed a' -> a = a'.
Proof. intros O (A & B & C & D). apply client_no_altered_message; assumption. Qed.

Lemma tamper_detected_x : forall O, ideal_crypto O ->
  forall c pre m m' post post', framed m -> framed m' -> m <> m' ->
  (forall s kS eS, k_tr kS = pre ++ m ++ post -> k_tr (the_ks s) = pre ++ m' ++ post' ->
     forall o s' out0, client_handle_finished O c s (o_build_fin O (ks_finished O kS eS)) = (o, s', out0) ->
     o <> OOk /\ t_state s' = t_state s) /\
  (forall s0 kC eC, k_tr kC = pre ++ m ++ post -> k_tr (the_ks s0) = pre ++ m' ++ post' ->
     forall o s' out0,
       server_handle_finished O c (server_expect_finished O s0) (o_build_fin O (ks_finished O kC eC)) = (o, s', out0) ->
       o = OAlert AD_decrypt_error /\ s' = server_expect_finished O s0).
Proof.
  intros O (A & B & C & D) c pre m m' post post' F F' N. split.
  - intros s kS eS T1 T2. eapply tamper_detected_client_lemma; eauto.
  - intros s0 kC eC T1 T2. eapply tamper_detected_server_lemma; eauto.
Qed.

Lemma no_common_option_x : forall O c,
  (* server: never leaves SERVER_EXPECT_CLIENT_HELLO while every ClientHello it parses shares no option *)
  (forall ms, (forall m v, In m ms -> o_parse_ch O m = POk v -> no_common c v) ->
              t_state (run O c (init_server c) ms) = SERVER_EXPECT_CLIENT_HELLO) /\
  (* client: a ServerHello carrying a suite / TLS version it did not offer is refused, nothing changes *)
  (forall s m v, o_parse_sh O m = POk v ->
     (memz (sh_suite v) (f_suites c) = false \/
      match sh_version v with Some x => memz x (f_versions c) = false | None => True end) ->
     exists d, client_handle_hello O c s m = (OAlert d, s, [])).
Proof.
  intros O c. split.
  - intros ms H. rewrite (no_common_option_server_lemma O c ms (init_server c) eq_refl H). reflexivity.
  - apply client_refuses_unoffered.
Qed.

Lemma version_agreement_x :
  (* client: transport parameters accepted => chosen_version is the version of the packet that carried the
     ServerHello (the version the client adopts) and the three connection IDs are the ones it used *)
  (forall remote_iscid odcid rscid cpv tp chosen avail,
     tp_check true remote_iscid odcid rscid cpv tp = 0 -> tp_vi tp = Some (chosen, avail) ->
     chosen = cpv /\ obeqb (tp_iscid tp) remote_iscid = true /\ obeqb (tp_odcid tp) odcid = true /\
     obeqb (tp_rscid tp) rscid = true) /\
  (* server: accepted => the client's chosen_version is the version of its Initial and is listed as available *)
  (forall remote_iscid cpv tp chosen avail,
     tp_check false remote_iscid None None cpv tp = 0 -> tp_vi tp = Some (chosen, avail) ->
     chosen = cpv /\ In chosen avail) /\
  (* server's choice: stay, or a supported + offered + compatible version *)
  (forall supported current avail,
     let v := server_choose_version supported current avail in
     v = current \/ (In v supported /\ In v avail /\ is_version_compatible current v = true)) /\
  (* Version Negotiation packet: ignored if it lists the current version, fatal if nothing in common, else a
     version both sides support *)
  (forall supported current vn,
     match client_receive_vn supported current vn with
     | None => In current vn
     | Some None => forall v, In v supported -> ~ In v vn
     | Some (Some v) => In v supported /\ In v vn
     end).
Proof.
  split; [exact version_agreement_lemma |]. split; [exact server_tp_version_lemma |].
  split; [exact server_choose_version_sound | exact client_vn_sound].
Qed.

(* ================================ non-vacuity ====================================================== *)
Lemma app_len_inj : forall (a a' b b' : bytes), length a = length a' -> a ++ b = a' ++ b' -> a = a' /\ b = b'.
Proof.
  induction a as [| x a IH]; destruct a' as [| y a']; simpl; intros b b' L E; try discriminate.
  - auto.
  - inversion E; subst. destruct (IH a' b b') as [A B]; auto. subst. auto.
Qed.

Definition toy_hash (a : Z) (x : bytes) : bytes := a :: x.
Definition toy_hmac (a : Z) (k m : bytes) : bytes := a :: Zlen k :: k ++ m.
Definition toy_extract (a : Z) (s k : bytes) : bytes := 7 :: a :: Zlen s :: s ++ k.
Definition toy_expand (a : Z) (s l h : bytes) : bytes := 9 :: a :: Zlen s :: Zlen l :: s ++ l ++ h.
Definition hdr (t : Z) (body : bytes) : bytes :=
  t :: (Zlen body / 65536) :: ((Zlen body / 256) mod 256) :: (Zlen body mod 256) :: body.
Definition zsum (b : bytes) : Z := fold_right Z.add 0 b.

(* fixed views: what the honest peers below put on the wire *)
Definition toy_ch : ch_view :=
  mkCH [1] [] [0x1301] [0] (Some [[104; 51]]) false (Some [(29, [5])]) None None None (Some [0x0403]) (Some [29]) (Some [0x0304]) [].
Definition toy_sh : sh_view := mkSH [2] [] 0x1301 0 (Some (29, [6])) None (Some 0x0304).
Definition toy_ee : ee_view := mkEE (Some [104; 51]) false [].
Definition toy_ct : ct_view := mkCT [] [([77], [])].

Definition toyO : oracles :=
  mkO toy_hash toy_hmac toy_extract toy_expand
      (fun _ p => p) (fun _ _ => 1) (fun _ a b => Some [zsum a + zsum b])
      (fun key _ data => key ++ data) (fun cert _ data sg => beqb sg (cert ++ data))
      (fun _ => true) (fun _ => 2) (fun _ _ => 0) (fun n => beqb n [49])
      (fun _ => POk toy_ch) (fun _ => POk toy_sh) (fun _ => POk toy_ee) (fun _ => POk (mkCR [] None)) (fun _ => POk toy_ct)
      (fun m => POk (mkCV 0x0403 (zdrop 4 m))) (fun m => POk (zdrop 4 m)) (fun _ => POk tt)
      (fun _ => hdr 1 [1]) (fun _ => hdr 2 [2]) (fun _ => hdr 8 [3]) (fun _ => hdr 13 []) (fun _ => hdr 11 [77])
      (fun v => hdr 15 (cv_sig v)) (fun vd => hdr 20 vd).

Lemma toy_ideal : ideal_crypto toyO.
Proof.
  unfold ideal_crypto, toyO; cbn [o_hash o_hmac o_expand o_parse_fin o_build_fin]. repeat split.
  - intros a x y H. unfold toy_hash in H. inversion H. reflexivity.
  - unfold toy_hmac in H. inversion H. reflexivity.
  - unfold toy_hmac in H. inversion H. apply app_len_inj in H3; [tauto | unfold Zlen in *; lia].
  - unfold toy_hmac in H. inversion H. apply app_len_inj in H3; [tauto | unfold Zlen in *; lia].
  - unfold toy_expand in H. inversion H. reflexivity.
  - unfold toy_expand in H. inversion H. apply app_len_inj in H4; [tauto | unfold Zlen in *; lia].
  - unfold toy_expand in H. inversion H. apply app_len_inj in H4; [| unfold Zlen in *; lia].
    destruct H4 as [_ H4]. apply app_len_inj in H4; [tauto | unfold Zlen in *; lia].
  - unfold toy_expand in H. inversion H. apply app_len_inj in H4; [| unfold Zlen in *; lia].
    destruct H4 as [_ H4]. apply app_len_inj in H4; [tauto | unfold Zlen in *; lia].
Qed.

(* honest endpoints *)
Definition no_cb (a : option bytes) (e : list ext) : Z * option (list ext) := (0, None).
Definition toy_client : cfg :=
  mkCfg [0x1301] [0] [0x0304] [0x0403] [1] (Some [[104; 51]]) [] [] [] [] [1]
        [(29, [5])] (Some [101]) true None false []
        false false (fun _ => None) (fun _ => []) no_cb.
Definition toy_server : cfg :=
  mkCfg [0x1301] [0] [0x0304] [0x0403] [1] (Some [[104; 51]]) [] [[77]] [77] [0x0403] [2]
        [] None false None false []
        false false (fun _ => None) (fun _ => [6]) no_cb.

Fixpoint run_out (O : oracles) (c : cfg) (s : tst) (ms : list bytes) : tst * list bytes :=
  match ms with
  | [] => (s, [])
  | m :: r => let '(_, s', o) := step O c s m in
              let '(s'', o') := run_out O c s' r in (s'', map snd o ++ o')
  end.

Definition honest_pair : tst * tst :=
  let cs0 := client_started toyO toy_client in
  let '(ss1, flight) := run_out toyO toy_server (init_server toy_server) [client_hello_msg toyO toy_client] in
  let '(cs1, reply) := run_out toyO toy_client cs0 flight in
  let '(ss2, _) := run_out toyO toy_server ss1 reply in
  (cs1, ss2).

Definition secret_of (d e : Z) (l : list keyev) : list bytes :=
  map (fun k => snd k) (filter (fun k => match k with (d', e', _, _) => (d' =? d) && (e' =? e) end) l).

Example honest_run_completes :
  let '(cs, ss) := honest_pair in
  t_state cs = CLIENT_POST_HANDSHAKE /\ t_state ss = SERVER_POST_HANDSHAKE /\
  t_resumed cs = false /\ t_alpn cs = t_alpn ss /\ t_alpn cs = Some [104; 51] /\
  secret_of DIR_ENCRYPT EP_HANDSHAKE (t_keys cs) = secret_of DIR_DECRYPT EP_HANDSHAKE (t_keys ss) /\
  secret_of DIR_DECRYPT EP_HANDSHAKE (t_keys cs) = secret_of DIR_ENCRYPT EP_HANDSHAKE (t_keys ss) /\
  secret_of DIR_ENCRYPT EP_ONE_RTT (t_keys cs) = secret_of DIR_DECRYPT EP_ONE_RTT (t_keys ss) /\
  secret_of DIR_DECRYPT EP_ONE_RTT (t_keys cs) = secret_of DIR_ENCRYPT EP_ONE_RTT (t_keys ss) /\
  length (secret_of DIR_ENCRYPT EP_ONE_RTT (t_keys cs)) = 1%nat /\
  t_ks cs = t_ks ss.
Proof. vm_compute. repeat split; reflexivity. Qed.

(* the same pair with one byte of the ServerHello / of the server Finished altered in flight: the client stops *)
Definition tampered_pair (which : nat) : tst :=
  let cs0 := client_started toyO toy_client in
  let '(_, flight) := run_out toyO toy_server (init_server toy_server) [client_hello_msg toyO toy_client] in
  let flight' := map (fun im => if Nat.eqb (fst im) which
                                then match snd im with a :: b :: c :: d :: x :: r => a :: b :: c :: d :: (x + 1) :: r | o => o end
                                else snd im)
                     (combine (seq 0 (length flight)) flight) in
  fst (run_out toyO toy_client cs0 flight').

Example tampered_runs_do_not_complete :
  map (fun i => state_val (t_state (tampered_pair i))) [0; 4]%nat
  = [state_val CLIENT_EXPECT_CERTIFICATE_VERIFY; state_val CLIENT_EXPECT_FINISHED].
Proof. vm_compute. reflexivity. Qed.

(* disjoint cipher suites: the server refuses the hello, nobody completes *)
Example disjoint_suites_do_not_complete :
  let sc := mkCfg [0x1302] [0] [0x0304] [0x0403] [1] (Some [[104; 51]]) [] [[77]] [77] [0x0403] [2]
                  [] None false None false [] false false (fun _ => None) (fun _ => [6]) no_cb in
  step toyO sc (init_server sc) (client_hello_msg toyO toy_client) = (OAlert AD_handshake_failure, init_server sc, []).
Proof. vm_compute. reflexivity. Qed.

(* ---------- non-vacuity of codec_ok: a second oracle record with genuine (injective) ServerHello and
   EncryptedExtensions codecs ------------------------------------------------------------------------------- *)
Definition putb (b : bytes) : bytes := Zlen b :: b.
Definition getb (l : bytes) : bytes * bytes :=
  match l with n :: t => (ztake n t, zdrop n t) | [] => ([], []) end.

Lemma getb_putb : forall b r, getb (putb b ++ r) = (b, r).
Proof.
  intros b r. unfold getb, putb. simpl. unfold ztake, zdrop, Zlen. rewrite Nat2Z.id.
  rewrite firstn_app, Nat.sub_diag, firstn_all. simpl. rewrite app_nil_r.
  rewrite skipn_app, Nat.sub_diag, skipn_all. reflexivity.
Qed.

Definition puto (o : option Z) : bytes := match o with None => [0] | Some x => [1; x] end.
Definition geto (l : bytes) : option Z * bytes :=
  match l with 0 :: t => (None, t) | _ :: x :: t => (Some x, t) | _ => (None, []) end.
Lemma geto_puto : forall o r, geto (puto o ++ r) = (o, r).
Proof. intros [x |] r; reflexivity. Qed.

Definition enc_sh (v : sh_view) : bytes :=
  putb (sh_random v) ++ putb (sh_sid v) ++ [sh_suite v; sh_comp v] ++
  (match sh_key_share v with None => [0] | Some (g, pk) => 1 :: g :: putb pk end) ++
  puto (sh_psk v) ++ puto (sh_version v).
Definition dec_sh (l : bytes) : sh_view :=
  let '(r, l1) := getb l in
  let '(sid, l2) := getb l1 in
  match l2 with
  | suite :: comp :: l3 =>
      let '(ks, l4) := match l3 with
                       | 0 :: t => (None, t)
                       | _ :: g :: t => let '(pk, t') := getb t in (Some (g, pk), t')
                       | _ => (None, [])
                       end in
      let '(psk, l5) := geto l4 in
      let '(ver, _) := geto l5 in
      mkSH r sid suite comp ks psk ver
  | _ => mkSH [] [] 0 0 None None None
  end.

Lemma dec_enc_sh : forall v, dec_sh (enc_sh v) = v.
Proof.
  intros [r sid suite comp ks psk ver]. unfold enc_sh, dec_sh. cbn [sh_random sh_sid sh_suite sh_comp sh_key_share sh_psk sh_version].
  rewrite getb_putb. cbv beta iota. rewrite getb_putb. cbv beta iota. cbn [app].
  destruct ks as [[g pk] |]; cbn [app].
  - rewrite getb_putb. cbv beta iota. rewrite geto_puto. cbv beta iota.
    replace (puto ver) with (puto ver ++ []) by apply app_nil_r. rewrite geto_puto. reflexivity.
  - rewrite geto_puto. cbv beta iota.
    replace (puto ver) with (puto ver ++ []) by apply app_nil_r. rewrite geto_puto. reflexivity.
Qed.

Fixpoint enc_exts (l : list ext) : bytes :=
  match l with [] => [] | (t, d) :: r => t :: putb d ++ enc_exts r end.
Fixpoint dec_exts (n : nat) (l : bytes) : list ext :=
  match n with
  | O => []
  | S n' => match l with
            | t :: r => let '(d, r') := getb r in (t, d) :: dec_exts n' r'
            | [] => []
            end
  end.
Lemma dec_enc_exts : forall l, dec_exts (length l) (enc_exts l) = l.
Proof.
  induction l as [| [t d] r IH]; [reflexivity |]. cbn [enc_exts length dec_exts].
  rewrite getb_putb. cbv beta iota. rewrite IH. reflexivity.
Qed.

Definition enc_ee (v : ee_view) : bytes :=
  (match ee_alpn v with None => [0] | Some a => 1 :: putb a end) ++
  [b2z (ee_early v); Zlen (ee_other v)] ++ enc_exts (ee_other v).
Definition dec_ee (l : bytes) : ee_view :=
  let '(a, l1) := match l with
                  | 0 :: t => (None, t)
                  | _ :: t => let '(x, t') := getb t in (Some x, t')
                  | [] => (None, [])
                  end in
  match l1 with
  | e :: n :: l2 => mkEE a (z2b e) (dec_exts (Z.to_nat n) l2)
  | _ => mkEE None false []
  end.
Lemma dec_enc_ee : forall v, dec_ee (enc_ee v) = v.
Proof.
  intros [a e o]. unfold enc_ee, dec_ee. cbn [ee_alpn ee_early ee_other].
  destruct a as [a |]; cbn [app].
  - rewrite getb_putb. cbv beta iota. cbn [app]. unfold Zlen. rewrite Nat2Z.id, dec_enc_exts. destruct e; reflexivity.
  - unfold Zlen. rewrite Nat2Z.id, dec_enc_exts. destruct e; reflexivity.
Qed.

Definition hdr2 (t : Z) (body : bytes) : bytes := t :: 0 :: 0 :: Zlen body :: body.
Lemma hdr2_framed : forall t b, framed (hdr2 t b).
Proof.
  intros t b. unfold framed, framedb, hdr2, be24. apply Z.eqb_eq. unfold Zlen. simpl length. lia.
Qed.

Definition toyO2 : oracles :=
  mkO toy_hash toy_hmac toy_extract toy_expand
      (fun _ p => p) (fun _ _ => 1) (fun _ a b => Some [zsum a + zsum b])
      (fun key _ data => key ++ data) (fun cert _ data sg => beqb sg (cert ++ data))
      (fun _ => true) (fun _ => 2) (fun _ _ => 0) (fun n => beqb n [49])
      (fun _ => POk toy_ch) (fun m => POk (dec_sh (zdrop 4 m))) (fun m => POk (dec_ee (zdrop 4 m)))
      (fun _ => POk (mkCR [] None)) (fun _ => POk toy_ct)
      (fun m => POk (mkCV 0x0403 (zdrop 4 m))) (fun m => POk (zdrop 4 m)) (fun _ => POk tt)
      (fun _ => hdr2 1 [1]) (fun v => hdr2 2 (enc_sh v)) (fun v => hdr2 8 (enc_ee v)) (fun _ => hdr2 13 [])
      (fun _ => hdr2 11 [77]) (fun v => hdr2 15 (cv_sig v)) (fun vd => hdr2 20 vd).

Lemma toy2_ideal : ideal_crypto toyO2.
Proof.
  destruct toy_ideal as (A & B & C & D). unfold ideal_crypto. split; [exact A |]. split; [exact B |]. split; [exact C |].
  intro vd. reflexivity.
Qed.

Lemma toy2_codec : codec_ok toyO2.
Proof.
  unfold codec_ok, toyO2; cbn [o_parse_sh o_build_sh o_parse_ee o_build_ee o_build_fin o_build_cr o_build_ct o_build_cv].
  repeat split; try (intros; apply hdr2_framed); try (intros; simpl; discriminate).
  - intro v. unfold hdr2. change (zdrop 4 (2 :: 0 :: 0 :: Zlen (enc_sh v) :: enc_sh v)) with (enc_sh v).
    rewrite dec_enc_sh. reflexivity.
  - intro v. unfold hdr2. change (zdrop 4 (8 :: 0 :: 0 :: Zlen (enc_ee v) :: enc_ee v)) with (enc_ee v).
    rewrite dec_enc_ee. reflexivity.
Qed.

(* with the genuine codecs the honest pair still completes and agrees *)
Definition honest_pair2 : tst * tst :=
  let cs0 := client_started toyO2 toy_client in
  let '(ss1, flight) := run_out toyO2 toy_server (init_server toy_server) [client_hello_msg toyO2 toy_client] in
  let '(cs1, reply) := run_out toyO2 toy_client cs0 flight in
  let '(ss2, _) := run_out toyO2 toy_server ss1 reply in
  (cs1, ss2).

Example honest_run_completes_2 :
  let '(cs, ss) := honest_pair2 in
  t_state cs = CLIENT_POST_HANDSHAKE /\ t_state ss = SERVER_POST_HANDSHAKE /\
  t_alpn cs = t_alpn ss /\ t_alpn cs = Some [104; 51] /\ t_resumed cs = t_resumed ss /\ t_early cs = t_early ss /\
  t_ks cs = t_ks ss /\
  secret_of DIR_ENCRYPT EP_ONE_RTT (t_keys cs) = secret_of DIR_DECRYPT EP_ONE_RTT (t_keys ss) /\
  secret_of DIR_DECRYPT EP_ONE_RTT (t_keys cs) = secret_of DIR_ENCRYPT EP_ONE_RTT (t_keys ss).
Proof. vm_compute. repeat split; reflexivity. Qed.
