(* C17: when is decode -> re-encode the identity on bytes?  Exactly on the image of the encoder: the consumed input is
   reproduced iff it is the encoding of some well-formed record.  (The decoders accept strictly more: duplicated
   extensions, lying extension lengths (F13), any extension order, skipped ALPN names -- TlsReencodeWitness.v.) *)
From Coq Require Import ZArith List Bool Lia.
From AQ Require Import lib.Base lib.Tok model.Codec model.TlsCodec.
From AQ Require Import proofs.CodecProofs proofs.TlsCodecProofs proofs.TlsListProofs proofs.TlsRoundtrip proofs.TlsDumpInverse
  proofs.TlsReencode proofs.TlsReencodeExt proofs.TlsReencodeExt2 proofs.TlsReencodeCH.

Lemma canonical_iff_gen {M} (pull : list Z -> Res (list Z * list Z)) (tree : M -> list tv) (dump : M -> list Z)
      (wfm : M -> bool) (tk : list Z -> M) :
  (forall m bytes rest, wfm m = true -> enc_seq (tree m) = Ok bytes -> pull (bytes ++ rest) = Ok (dump m, rest)) ->
  (forall m, tk (dump m) = m) ->
  forall (bs d rest : list Z) m0 bytes', pull bs = Ok (d, rest) -> d = dump m0 -> wfm m0 = true ->
    enc_seq (tree m0) = Ok bytes' ->
    (bs = flat_seq (tree (tk d)) ++ rest <->
     exists m, wfm m = true /\ fits_seq (tree m) = true /\ bs = flat_seq (tree m) ++ rest).
Proof.
  intros RT TK bs d rest m0 bytes' P -> Wf E. apply enc_seq_ok in E as [F _]. rewrite TK. split.
  - intros ->. exists m0. auto.
  - intros (m & Wm & Fm & ->). assert (E : enc_seq (tree m) = Ok (flat_seq (tree m))) by (rewrite enc_seq_spec, Fm; reflexivity).
    rewrite (RT m _ rest Wm E) in P. injection P as P. rewrite <- (TK m), P, TK. reflexivity.
Qed.

Theorem server_hello_reencode_canonical_iff bs d rest : bytes_ok bs -> pull_server_hello bs = Ok (d, rest) ->
  (bs = flat_seq (tree_server_hello (tk_server_hello d)) ++ rest <->
   exists m, server_hello_wf m = true /\ fits_seq (tree_server_hello m) = true /\ bs = flat_seq (tree_server_hello m) ++ rest).
Proof.
  intros Hb H. destruct (server_hello_reencode bs d rest Hb H) as (m0 & bytes' & D & Wf & E & _).
  exact (canonical_iff_gen _ _ _ _ _ server_hello_roundtrip tk_dump_server_hello bs d rest m0 bytes' H D Wf E).
Qed.

Theorem encrypted_extensions_reencode_canonical_iff bs d rest : bytes_ok bs -> pull_encrypted_extensions bs = Ok (d, rest) ->
  (bs = flat_seq (tree_encrypted_extensions (tk_encrypted_extensions d)) ++ rest <->
   exists m, encrypted_extensions_wf m = true /\ fits_seq (tree_encrypted_extensions m) = true /\
             bs = flat_seq (tree_encrypted_extensions m) ++ rest).
Proof.
  intros Hb H. destruct (encrypted_extensions_reencode bs d rest Hb H) as (m0 & bytes' & D & Wf & E & _).
  exact (canonical_iff_gen _ _ _ _ _ encrypted_extensions_roundtrip tk_dump_encrypted_extensions bs d rest m0 bytes' H D Wf E).
Qed.

Theorem new_session_ticket_reencode_canonical_iff bs d rest : bytes_ok bs -> pull_new_session_ticket bs = Ok (d, rest) ->
  (bs = flat_seq (tree_new_session_ticket (tk_new_session_ticket d)) ++ rest <->
   exists m, new_session_ticket_wf m = true /\ fits_seq (tree_new_session_ticket m) = true /\
             bs = flat_seq (tree_new_session_ticket m) ++ rest).
Proof.
  intros Hb H. destruct (new_session_ticket_reencode bs d rest Hb H) as (m0 & bytes' & D & Wf & E & _).
  exact (canonical_iff_gen _ _ _ _ _ new_session_ticket_roundtrip tk_dump_new_session_ticket bs d rest m0 bytes' H D Wf E).
Qed.

(* CertificateRequest / ClientHello: for decoded values whose Optional[list] attributes are all set *)
Theorem certificate_request_reencode_canonical_iff bs rest m0 : bytes_ok bs ->
  pull_certificate_request bs = Ok (dump_certificate_request m0, rest) ->
  (bs = flat_seq (tree_certificate_request m0) ++ rest <->
   exists m, certificate_request_wf m = true /\ fits_seq (tree_certificate_request m) = true /\
             bs = flat_seq (tree_certificate_request m) ++ rest).
Proof.
  intros Hb H. destruct (certificate_request_reencode bs _ rest Hb H) as [(m1 & bytes' & D & Wf & E & _)|(ctx & others & D)].
  - pose proof (canonical_iff_gen _ _ _ _ _ certificate_request_roundtrip tk_dump_certificate_request bs _ rest m1 bytes' H D Wf E) as X.
    rewrite tk_dump_certificate_request in X. exact X.
  - exfalso. unfold dump_certificate_request in D.
    apply (f_equal tk_list) in D. rewrite !tk_list_bytes in D. apply (f_equal snd) in D. cbn [snd app] in D. discriminate D.
Qed.

Theorem client_hello_reencode_canonical_iff bs rest m0 : bytes_ok bs ->
  pull_client_hello bs = Ok (dump_client_hello m0, rest) ->
  (bs = flat_seq (tree_client_hello m0) ++ rest <->
   exists m, client_hello_wf m = true /\ fits_seq (tree_client_hello m) = true /\ bs = flat_seq (tree_client_hello m) ++ rest).
Proof.
  intros Hb H. destruct (client_hello_reencode bs _ rest Hb H)
    as [(m1 & bytes' & D & Wf & E & _)|(random & sid & cs & cm & ks & sv & sa & sg & tail & D & N)].
  - pose proof (canonical_iff_gen _ _ _ _ _ client_hello_roundtrip tk_dump_client_hello bs _ rest m1 bytes' H D Wf E) as X.
    rewrite tk_dump_client_hello in X. exact X.
  - exfalso. unfold dump_client_hello in D.
    apply (f_equal tk_list) in D. rewrite !tk_list_bytes in D. apply (f_equal snd) in D. cbn [snd] in D.
    apply (f_equal tk_list) in D. rewrite !tk_list_bytes in D. apply (f_equal snd) in D. cbn [snd] in D.
    apply (f_equal tk_list) in D. rewrite !tk_list_ints in D. apply (f_equal snd) in D. cbn [snd] in D.
    apply (f_equal tk_list) in D. rewrite !tk_list_ints in D. apply (f_equal snd) in D. cbn [snd] in D.
    change (1 :: dump_list dump_ext (ch_key_share m0)) with (dump_opt (dump_list dump_ext) (Some (ch_key_share m0))) in D.
    apply (f_equal (tk_optv (tk_cnt tk_ext))) in D.
    rewrite !(tk_optv_dump (tk_cnt tk_ext) (dump_list dump_ext) _ _ (fun l r => tk_cnt_dump tk_ext dump_ext l r tk_ext_dump)) in D.
    assert (K1 := f_equal fst D). apply (f_equal snd) in D. cbn [fst snd] in D, K1.
    change (1 :: dump_ints (ch_supported_versions m0)) with (dump_opt dump_ints (Some (ch_supported_versions m0))) in D.
    apply (f_equal (tk_optv tk_list)) in D. rewrite !(tk_optv_dump tk_list dump_ints _ _ tk_list_ints) in D. assert (K2 := f_equal fst D). apply (f_equal snd) in D. cbn [fst snd] in D, K2.
    change (1 :: dump_ints (ch_signature_algorithms m0)) with (dump_opt dump_ints (Some (ch_signature_algorithms m0))) in D.
    apply (f_equal (tk_optv tk_list)) in D. rewrite !(tk_optv_dump tk_list dump_ints _ _ tk_list_ints) in D. assert (K3 := f_equal fst D). apply (f_equal snd) in D. cbn [fst snd] in D, K3.
    change (1 :: dump_ints (ch_supported_groups m0)) with (dump_opt dump_ints (Some (ch_supported_groups m0))) in D.
    apply (f_equal (tk_optv tk_list)) in D. rewrite !(tk_optv_dump tk_list dump_ints _ _ tk_list_ints) in D. assert (K4 := f_equal fst D). apply (f_equal snd) in D. cbn [fst snd] in D, K4.
    destruct N as [-> | [-> | [-> | ->]]]; discriminate.
Qed.
