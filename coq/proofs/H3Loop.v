(* C14: the split lemma for the frame loop of a request / push stream (model of the patched code):
   running the loop on x ++ b = running it on x, then delivering b to the state it stopped in. *)
From AQ Require Import lib.Base lib.Tok model.H3Parse proofs.H3Chunk proofs.H3Split.
From Coq Require Import ZifyBool.

(* ------------------------------------------------------------------ small facts *)
Lemma Zlen_ztake : forall {A} n (a : list A), 0 <= n <= Zlen a -> Zlen (ztake n a) = n.
Proof. intros A n a H; unfold ztake, Zlen in *; rewrite firstn_length; lia. Qed.
Lemma Zlen_cons : forall {A} (x : A) l, Zlen (x :: l) = 1 + Zlen l.
Proof. intros; unfold Zlen; cbn [length]; lia. Qed.
Lemma is_nil_false_pos : forall {A} (a : list A), is_nil a = false -> 0 < Zlen a.
Proof. intros A [|x l]; cbn [is_nil]; [discriminate|]. intros _. rewrite Zlen_cons. pose proof (Zlen_nonneg l). lia. Qed.
Lemma is_nil_Zlen0 : forall {A} (a : list A), Zlen a <= 0 -> a = [].
Proof. intros A [|x l]; [reflexivity|]. rewrite Zlen_cons. pose proof (Zlen_nonneg l). lia. Qed.
Lemma ztake_nonpos : forall {A} n (a : list A), n <= 0 -> ztake n a = [].
Proof. intros; unfold ztake. replace (Z.to_nat n) with 0%nat by lia. reflexivity. Qed.

Lemma set_buf_set_buf : forall st a c, set_buf (set_buf st a) c = set_buf st c.
Proof. destruct st; reflexivity. Qed.
Lemma set_cur_set_cur : forall st a c, set_cur (set_cur st a) c = set_cur st c.
Proof. destruct st; reflexivity. Qed.
Lemma set_buf_same : forall st, set_buf st (s_buf st) = st.
Proof. destruct st; reflexivity. Qed.
Lemma s_buf_set_buf : forall st a, s_buf (set_buf st a) = a.
Proof. destruct st; reflexivity. Qed.

(* loop-head invariant without the clause on the frame cursor *)
Definition LH0 (st : hstream) : Prop :=
  s_buf st = [] /\ s_blocked st = false /\ s_session st = None /\ s_ended st = false.

Lemma LH_LH0 : forall st, LH st -> LH0 st.
Proof. intros st (H1 & H2 & H3 & H4 & _). repeat split; assumption. Qed.

(* ------------------------------------------------------------------ one iteration, named *)
Section Loop.
Variable fx : fixes.
Variable O : oracle.
Variable cl : bool.
Hypothesis Htr : fx_trunc fx = true.
Hypothesis Hem : fx_endmark fx = true.

Let loop_fuel' := loop_fuel fx O cl Htr Hem.
Let resume' := resume fx O cl.

(* the part of an iteration behind the frame header *)
Definition body (f : nat) (fin : bool) (st : hstream) (t n : Z) (b2 : list Z) (evs : list event) : rres :=
  let chunk := Z.min n (Zlen b2) in
  if negb (t =? 0) && (chunk <? n) then RVal evs (set_buf (set_cur st (Some (t, n))) b2)
  else
    let data := ztake chunk b2 in
    let b3 := zdrop chunk b2 in
    let n' := n - chunk in
    let cur' := if n' =? 0 then None else Some (t, n') in
    let st1 := set_cur st cur' in
    let ended := s_ended st && is_nil b3 && (negb (fx_trunc fx) || is_none cur') in
    match handle_rp_frame fx O cl t (Some data) st1 ended with
    | HVal e st2 => rq_loop f fx O cl fin st2 b3 (evs ++ e)
    | HBlocked st2 => RVal evs (set_buf (set_btype (set_blocked st2 true) (if fx_pushblock fx then Some t else s_btype st2)) b3)
    | HErr c => RErr c
    | HExn k => RExn k
    end.

Definition hdr_of (st : hstream) (b : list Z) : option (Z * Z * list Z) :=
  match s_cur st with
  | Some (t, n) => Some (t, n, b)
  | None =>
      match pull_uint_var b with
      | None => None
      | Some (t, b1) =>
          match pull_uint_var b1 with
          | None => None
          | Some (n, b2) => Some (t, n, b2)
          end
      end
  end.

Lemma rq_loop_S : forall f fin st b evs,
  rq_loop (S f) fx O cl fin st b evs =
  if is_nil b then RVal evs (set_buf st b) else
  match hdr_of st b with
  | None => RVal evs (set_buf st b)
  | Some (t, n, b2) =>
      if is_none (s_cur st) && (t =? 65) then
        RVal (evs ++ (if negb (is_nil b2) || fin then [EWT (s_id st) n b2 fin] else []))
             (set_buf (set_session (set_cur st None) (Some n)) [])
      else body f fin st t n b2 evs
  end.
Proof. reflexivity. Qed.

Lemma rq_loop_nil : forall f fin st evs, rq_loop f fx O cl fin st [] evs = RVal evs (set_buf st []).
Proof. destruct f; reflexivity. Qed.

(* in the middle of a frame the iteration is the body *)
Lemma rq_loop_in_frame : forall f fin st t n b evs,
  s_cur st = Some (t, n) -> is_nil b = false ->
  rq_loop (S f) fx O cl fin st b evs = body f fin st t n b evs.
Proof.
  intros f fin st t n b evs Hc Hb. rewrite rq_loop_S. unfold hdr_of. rewrite Hb, Hc. reflexivity.
Qed.

(* the body does not look at the frame cursor of the state it is given *)
Lemma body_set_cur : forall f fin st c t n b evs,
  body f fin (set_cur st c) t n b evs = body f fin st t n b evs.
Proof.
  intros. unfold body. rewrite !set_cur_set_cur.
  replace (s_ended (set_cur st c)) with (s_ended st) by (destruct st; reflexivity). reflexivity.
Qed.

(* measure behind a handled chunk *)
Lemma after_measure : forall (f : nat) t n y e evs st st2,
  2 * Zlen y < Z.of_nat f -> 1 < Z.of_nat f ->
  handle_rp_frame fx O cl t (Some (ztake (Z.min n (Zlen y)) y))
     (set_cur st (if n - Z.min n (Zlen y) =? 0 then None else Some (t, n - Z.min n (Zlen y)))) e = HVal evs st2 ->
  measure st2 (zdrop (Z.min n (Zlen y)) y) < Z.of_nat f.
Proof.
  intros f t n y e evs st st2 H2 H1 Hh. apply handle_cur in Hh.
  unfold measure. rewrite Hh. replace (s_cur (set_cur st _)) with
    (if n - Z.min n (Zlen y) =? 0 then None else Some (t, n - Z.min n (Zlen y))) by (destruct st; reflexivity).
  pose proof (Zlen_zdrop_le (Z.min n (Zlen y)) y) as Hle. pose proof (Zlen_nonneg y) as Hy.
  destruct (n - Z.min n (Zlen y) =? 0) eqn:E; cbn [is_none].
  - lia.
  - rewrite zdrop_all by lia. unfold Zlen at 1. cbn [length]. lia.
Qed.

Lemma body_fuel : forall (f1 f2 : nat) fin st t n y evs,
  2 * Zlen y < Z.of_nat f1 -> 1 < Z.of_nat f1 -> 2 * Zlen y < Z.of_nat f2 -> 1 < Z.of_nat f2 ->
  body f1 fin st t n y evs = body f2 fin st t n y evs.
Proof.
  intros f1 f2 fin st t n y evs A1 B1 A2 B2. unfold body.
  destruct (negb (t =? 0) && (Z.min n (Zlen y) <? n)); [reflexivity|].
  match goal with |- (match ?h with _ => _ end) = _ => destruct h eqn:Hh end; try reflexivity.
  apply loop_fuel'; eapply after_measure; eauto.
Qed.

(* ------------------------------------------------------------------ resume *)
Lemma resume_break : forall (f : nat) st t n y b evs,
  LH0 st -> negb (t =? 0) && (Zlen y <? n) = true ->
  2 * Zlen (y ++ b) < Z.of_nat f -> 1 < Z.of_nat f ->
  requiv (body f false st t n (y ++ b) evs)
         (resume' b (RVal evs (set_buf (set_cur st (Some (t, n))) y))).
Proof.
  intros f st t n y b evs (L1 & L2 & L3 & L4) Hbrk A B. unfold resume', resume.
  replace (s_blocked (set_buf (set_cur st (Some (t, n))) y)) with false by (destruct st; cbn in *; congruence).
  replace (s_session (set_buf (set_cur st (Some (t, n))) y)) with (@None Z) by (destruct st; cbn in *; congruence).
  rewrite s_buf_set_buf, set_buf_set_buf.
  replace (set_buf (set_cur st (Some (t, n))) []) with (set_cur st (Some (t, n)))
    by (destruct st; cbn in *; subst; reflexivity).
  destruct (is_nil (y ++ b)) eqn:En.
  - apply is_nil_true in En. rewrite En. rewrite rq_loop_nil. unfold body.
    assert (y = []) by (destruct y; [reflexivity|discriminate]). subst y.
    replace (negb (t =? 0) && (Z.min n (Zlen (@nil Z)) <? n)) with true
      by (unfold Zlen in *; cbn [length] in *; lia).
    cbn [requiv]. split; [reflexivity|]. destruct st; cbn in *; subst; reflexivity.
  - unfold rq_fuel. rewrite (rq_loop_in_frame _ false _ t n) by (try assumption; destruct st; reflexivity).
    rewrite body_set_cur.
    rewrite (body_fuel f (S (length (y ++ b) + length (y ++ b)))); [apply requiv_refl|try assumption..].
    + unfold Zlen. lia.
    + apply is_nil_false_pos in En. unfold Zlen in *. lia.
Qed.

Lemma s_hstate_set_cur : forall st c, s_hstate (set_cur st c) = s_hstate st.
Proof. destruct st; reflexivity. Qed.

(* the state behind a handled frame is a loop head again *)
Lemma handled_LH : forall st st2 c t d evs,
  LH0 st -> handle_rp_frame fx O cl t (Some d) (set_cur st c) false = HVal evs st2 ->
  (forall n, c = Some (0, n) -> t = 0) -> LH st2.
Proof.
  intros st st2 c t d evs (L1 & L2 & L3 & L4) Hh Hc.
  pose proof (handle_pres fx O cl _ _ _ _ _ Hh) as (h & k & e & bp & E).
  assert (Hd : forall n, c = Some (0, n) -> s_hstate st2 = 1).
  { intros n Ec. specialize (Hc n Ec). subst t. rewrite data_eq in Hh.
    destruct (s_hstate (set_cur st c) =? 1) eqn:E1; [|discriminate].
    inversion Hh; subst. destruct st; cbn in *; lia. }
  subst st2. destruct st; cbn in *. repeat split; auto.
Qed.

(* the body on a DATA frame *)
Lemma body_data : forall f st n y evs, s_ended st = false ->
  body f false st 0 n y evs =
  if s_hstate st =? 1 then
    let c := Z.min n (Zlen y) in
    let d := ztake c y in
    rq_loop f fx O cl false
      (set_clen (set_cur st (if n - c =? 0 then None else Some (0, n - c))) (s_clen st + Zlen d)) (zdrop c y)
      (evs ++ (if is_nil d then [] else [EData (s_id st) (s_push st) d false]))
  else RErr H3_FRAME_UNEXPECTED.
Proof.
  intros f st n y evs He. unfold body. cbn [Z.eqb negb andb]. rewrite He. cbn [andb].
  rewrite data_eq, s_hstate_set_cur. destruct (s_hstate st =? 1); [|reflexivity].
  cbv zeta. destruct st; reflexivity.
Qed.

Lemma body_split : forall (f : nat),
  (forall st x b evs, LH st -> measure st (x ++ b) < Z.of_nat f ->
     requiv (rq_loop f fx O cl false st (x ++ b) evs) (resume' b (rq_loop f fx O cl false st x evs))) ->
  forall st t n x b evs,
  LH0 st -> 2 * Zlen (x ++ b) < Z.of_nat f -> 1 < Z.of_nat f ->
  requiv (body f false st t n (x ++ b) evs) (resume' b (body f false st t n x evs)).
Proof.
  intros f IH st t n x b evs HL A B.
  pose proof HL as (L1 & L2 & L3 & L4).
  destruct (negb (t =? 0) && (Zlen x <? n)) eqn:Ebrk.
  { replace (body f false st t n x evs) with (RVal evs (set_buf (set_cur st (Some (t, n))) x)).
    - apply resume_break; assumption.
    - unfold body. replace (Z.min n (Zlen x) <? n) with (Zlen x <? n) by lia. rewrite Ebrk. reflexivity. }
  destruct (Zlen x <? n) eqn:Eshort.
  - (* DATA frame, payload not complete in x *)
    assert (t = 0) by lia. subst t.
    rewrite !body_data by assumption.
    destruct (s_hstate st =? 1) eqn:Eh; [|unfold resume', resume; cbn [requiv]; reflexivity].
    cbv zeta.
    replace (Z.min n (Zlen x)) with (Zlen x) by lia.
    rewrite (ztake_all (Zlen x) x) by lia. rewrite (zdrop_all (Zlen x) x) by lia.
    replace (n - Zlen x =? 0) with false by lia.
    rewrite rq_loop_nil. unfold resume', resume.
    set (s1 := set_clen (set_cur st (Some (0, n - Zlen x))) (s_clen st + Zlen x)).
    replace (s_blocked (set_buf s1 [])) with false by (destruct st; cbn in *; congruence).
    replace (s_session (set_buf s1 [])) with (@None Z) by (destruct st; cbn in *; congruence).
    rewrite s_buf_set_buf, set_buf_set_buf. cbn [app].
    set (c := Z.min n (Zlen (x ++ b))).
    assert (Hc : Zlen x <= c) by (unfold c; rewrite Zlen_app; pose proof (Zlen_nonneg b); lia).
    rewrite (ztake_app_ge c x b Hc), (zdrop_app_ge c x b Hc).
    destruct (is_nil b) eqn:Enb.
    { apply is_nil_true in Enb. subst b.
      assert (Hcx : c = Zlen x) by (unfold c; rewrite app_nil_r; lia). rewrite Hcx.
      replace (Zlen x - Zlen x) with 0 by lia. cbn [ztake zdrop Z.to_nat firstn skipn]. rewrite app_nil_r.
      replace (n - Zlen x =? 0) with false by lia. rewrite !rq_loop_nil. rewrite set_buf_set_buf.
      apply requiv_refl. }
    assert (Hlb : 0 < Zlen b) by (apply is_nil_false_pos; assumption).
    unfold rq_fuel.
    rewrite (rq_loop_in_frame _ false (set_buf s1 []) 0 (n - Zlen x)); [| destruct st; reflexivity | assumption].
    rewrite body_data by (destruct st; cbn in *; assumption).
    replace (s_hstate (set_buf s1 [])) with (s_hstate st) by (destruct st; reflexivity). rewrite Eh. cbv zeta.
    assert (Hcc : Z.min (n - Zlen x) (Zlen b) = c - Zlen x) by (unfold c; rewrite Zlen_app; lia).
    rewrite Hcc.
    replace (n - Zlen x - (c - Zlen x)) with (n - c) by lia.
    rewrite (loop_acc fx O cl f), (loop_acc fx O cl (S (length b + length b))).
    apply requiv_prepend.
    { rewrite !norm_app, <- app_assoc. f_equal. subst s1. destruct st. apply norm_data_split. }
    match goal with |- requiv (rq_loop _ _ _ _ _ ?sL _ _) (rq_loop _ _ _ _ _ ?sR _ _) =>
      assert (Hs : sR = sL); [|rewrite Hs; set (s2 := sL)] end.
    { subst s1. destruct st; cbn -[Zlen Z.add Z.sub Z.min]. unfold set_cur, set_clen, set_buf; cbn -[Zlen Z.add Z.sub Z.min].
      cbn in L1. rewrite L1. f_equal. rewrite Zlen_app. lia. }
    assert (Hm : forall F : nat, 2 * Zlen b < Z.of_nat F -> 1 < Z.of_nat F ->
                 measure s2 (zdrop (c - Zlen x) b) < Z.of_nat F).
    { intros F F1 F2. unfold measure.
      replace (s_cur s2) with (if n - c =? 0 then None else Some (0, n - c)) by (subst s2; destruct st; reflexivity).
      pose proof (Zlen_zdrop_le (c - Zlen x) b).
      destruct (n - c =? 0) eqn:E0; cbn [is_none]; [lia|].
      rewrite zdrop_all by (unfold c in *; rewrite Zlen_app in *; lia). unfold Zlen at 1; cbn [length]. lia. }
    rewrite (loop_fuel' f (S (length b + length b)) false s2 _ []); [apply requiv_refl| |].
    + apply Hm; [rewrite Zlen_app in A; pose proof (Zlen_nonneg x); lia | assumption].
    + apply Hm; unfold Zlen in *; lia.
  - (* the frame payload is complete in x *)
    assert (Hn : n <= Zlen x) by lia.
    unfold body.
    replace (Z.min n (Zlen (x ++ b))) with n by (rewrite Zlen_app; pose proof (Zlen_nonneg b); lia).
    replace (Z.min n (Zlen x)) with n by lia.
    replace (n <? n) with false by lia. rewrite andb_false_r.
    rewrite (ztake_app_le n x b Hn), (zdrop_app_le n x b Hn).
    rewrite L4. cbn [andb].
    destruct (handle_rp_frame fx O cl t (Some (ztake n x)) _ false) eqn:Hh.
    + apply IH.
      * eapply handled_LH; [exact HL | exact Hh |]. intros m Hc. destruct (n - n =? 0) eqn:E0; [discriminate|lia].
      * pose proof (handle_cur fx O cl _ _ _ _ _ _ Hh) as Hcur.
        assert (Hc0 : s_cur st0 = None).
        { rewrite Hcur. replace (n - n =? 0) with true by lia. destruct st; reflexivity. }
        unfold measure. rewrite Hc0. cbn [is_none]. rewrite Zlen_app in *. pose proof (Zlen_zdrop_le n x). lia.
    + apply (handle_blocked_pres fx O cl Htr Hem) in Hh. destruct Hh as [(h & k & e & bp & ->) _].
      unfold resume', resume. cbn. split; [reflexivity|]. destruct st; cbn in *. subst. reflexivity.
    + cbn. reflexivity.
    + cbn. reflexivity.
Qed.

(* ------------------------------------------------------------------ the split lemma for the frame loop *)
Lemma loop_split : forall f st x b evs,
  LH st -> measure st (x ++ b) < Z.of_nat f ->
  requiv (rq_loop f fx O cl false st (x ++ b) evs) (resume' b (rq_loop f fx O cl false st x evs)).
Proof.
  induction f; intros st x b evs HL Hm.
  { unfold measure in Hm. pose proof (Zlen_nonneg (x ++ b)). destruct (is_none (s_cur st)); lia. }
  pose proof HL as (L1 & L2 & L3 & L4 & L5).
  destruct x as [|x0 x'].
  { rewrite rq_loop_nil. apply (break_case fx O cl Htr Hem (S f) st [] b evs HL Hm). }
  remember (x0 :: x') as x eqn:Ex.
  assert (Hx : is_nil x = false) by (subst; reflexivity).
  assert (Hxb : is_nil (x ++ b) = false) by (subst; reflexivity).
  assert (Hlx : 0 < Zlen x) by (apply is_nil_false_pos; assumption).
  assert (BRK : rq_loop (S f) fx O cl false st x evs = RVal evs (set_buf st x) ->
                requiv (rq_loop (S f) fx O cl false st (x ++ b) evs)
                       (resume' b (rq_loop (S f) fx O cl false st x evs))).
  { intros ->. apply (break_case fx O cl Htr Hem); assumption. }
  destruct (s_cur st) as [[t0 n0]|] eqn:Ec.
  - (* in the middle of frame (t0, n0) *)
    rewrite !(rq_loop_in_frame f false st t0 n0) by assumption.
    unfold measure in Hm. rewrite Ec in Hm. cbn [is_none] in Hm.
    apply body_split; [exact IHf | apply LH_LH0; exact HL | lia |].
    rewrite Zlen_app in Hm. pose proof (Zlen_nonneg b). lia.
  - (* at a frame boundary: the header *)
    destruct (pull_uint_var x) as [[t x1]|] eqn:P1.
    2:{ apply BRK. rewrite rq_loop_S, Hx. unfold hdr_of. rewrite Ec, P1. reflexivity. }
    destruct (pull_uint_var x1) as [[n x2]|] eqn:P2.
    2:{ apply BRK. rewrite rq_loop_S, Hx. unfold hdr_of. rewrite Ec, P1, P2. reflexivity. }
    pose proof (pull_app _ b _ _ P1) as Q1. pose proof (pull_app _ b _ _ P2) as Q2.
    rewrite !rq_loop_S, Hx, Hxb. unfold hdr_of. rewrite Ec, P1, P2, Q1, Q2. cbn [is_none andb].
    destruct (t =? 65) eqn:Ewt.
    + (* WEBTRANSPORT_STREAM *)
      unfold resume', resume. rewrite !orb_false_r.
      replace (s_blocked (set_buf (set_session (set_cur st None) (Some n)) [])) with false
        by (destruct st; cbn in *; congruence).
      replace (s_session (set_buf (set_session (set_cur st None) (Some n)) [])) with (Some n)
        by (destruct st; reflexivity).
      rewrite set_buf_set_buf. cbn [requiv]. split; [|reflexivity].
      rewrite !norm_app, <- app_assoc. f_equal.
      replace (s_id (set_buf (set_session (set_cur st None) (Some n)) [])) with (s_id st) by (destruct st; reflexivity).
      destruct x2, b; cbn; rewrite ?app_nil_r, ?map_app; reflexivity.
    + apply pull_len in P1. apply pull_len in P2.
      unfold measure in Hm. rewrite Ec in Hm. cbn [is_none] in Hm. rewrite Zlen_app in *.
      pose proof (Zlen_nonneg b). pose proof (Zlen_nonneg x2).
      apply body_split; [exact IHf | apply LH_LH0; exact HL | rewrite Zlen_app; lia | lia].
Qed.

End Loop.
