(* C08: lemmas about the dict helpers of model/Recovery.v (pop, del_all, dict_set, upd_nth) and the
   per-space transition summary [sp_ok]. *)
From AQ Require Import lib.Base lib.Tok model.RangeSet model.RecBase model.Pacer model.Recovery.
From Coq Require Import ZifyBool.

Section Lemmas.
Context {T C : Type} (F : fops T) (cc : ccops T C).

Notation pktT := (pkt T).

Definition contrib (p : pktT) : Z := if p_inflight p then p_bytes p else 0.

Lemma flight_cons : forall (p : pktT) l, flight (p :: l) = contrib p + flight l.
Proof. reflexivity. Qed.

Lemma aecount_cons : forall (p : pktT) l, aecount (p :: l) = b2z (p_ackel p) + aecount l.
Proof. reflexivity. Qed.

Lemma flight_app : forall l1 l2 : list pktT, flight (l1 ++ l2) = flight l1 + flight l2.
Proof. induction l1; intros; cbn [app]; rewrite ?flight_cons, ?IHl1; cbn; lia. Qed.

Lemma aecount_app : forall l1 l2 : list pktT, aecount (l1 ++ l2) = aecount l1 + aecount l2.
Proof. induction l1; intros; cbn [app]; rewrite ?aecount_cons, ?IHl1; cbn; lia. Qed.

Lemma flight_filter : forall l : list pktT, sum_bytes (filter p_inflight l) = flight l.
Proof.
  induction l as [|p l IH]; [reflexivity|].
  cbn [filter]. rewrite flight_cons. unfold contrib.
  destruct (p_inflight p).
  - change (sum_bytes (p :: filter p_inflight l)) with (p_bytes p + sum_bytes (filter p_inflight l)). lia.
  - lia.
Qed.

Lemma filter_nil_flight : forall l : list pktT, filter p_inflight l = [] -> flight l = 0.
Proof. intros l H. rewrite <- flight_filter, H. reflexivity. Qed.

(* ---------- pop ---------- *)
Lemma pop_some : forall k (l : list pktT) p l',
  pop k l = (Some p, l') ->
  p_pn p = k /\ In p l /\ flight l = contrib p + flight l' /\ aecount l = b2z (p_ackel p) + aecount l'.
Proof.
  induction l as [|q t IH]; intros p l' H; cbn in H; [discriminate|].
  destruct (p_pn q =? k) eqn:E.
  - inversion H; subst. repeat split; auto; [lia | left; reflexivity].
  - destruct (pop k t) as [r t'] eqn:Ep. inversion H; subst.
    destruct (IH p t' eq_refl) as (A & B & D & G).
    repeat split; auto; [right; auto | rewrite !flight_cons; lia | rewrite !aecount_cons; lia].
Qed.

Lemma pop_none : forall k (l : list pktT) l', pop k l = (None, l') -> l' = l.
Proof.
  induction l as [|q t IH]; intros l' H; cbn in H; [inversion H; reflexivity|].
  destruct (p_pn q =? k); [discriminate|].
  destruct (pop k t) as [r t'] eqn:Ep. inversion H; subst. f_equal. apply IH. reflexivity.
Qed.

Lemma pop_incl : forall k (l : list pktT) q, In q (snd (pop k l)) -> In q l.
Proof.
  induction l as [|h t IH]; intros q H; cbn in H; [contradiction|].
  destruct (p_pn h =? k); cbn in H; [right; exact H|].
  destruct (pop k t) as [r t'] eqn:Ep. cbn in H. destruct H as [H|H]; [left; exact H|right; apply IH; exact H].
Qed.

Lemma pop_keys_incl : forall k (l : list pktT), incl (keys (snd (pop k l))) (keys l).
Proof.
  intros k l x H. unfold keys in *. apply in_map_iff in H. destruct H as (q & Hq & Hin).
  apply in_map_iff. exists q. split; auto. eapply pop_incl; eauto.
Qed.

Lemma pop_nodup : forall k (l : list pktT), NoDup (keys l) -> NoDup (keys (snd (pop k l))).
Proof.
  induction l as [|h t IH]; intros H; cbn; [constructor|].
  cbn in H. inversion H as [|? ? Hn Ht]; subst.
  destruct (p_pn h =? k); cbn; [exact Ht|].
  destruct (pop k t) as [r t'] eqn:Ep. cbn. constructor.
  - intro Hc. apply Hn. pose proof (pop_keys_incl k t) as I. rewrite Ep in I. apply I. exact Hc.
  - specialize (IH Ht). exact IH.
Qed.

Lemma pop_notin : forall k (l : list pktT), NoDup (keys l) -> ~ In k (keys (snd (pop k l))).
Proof.
  induction l as [|h t IH]; intros H; cbn; [tauto|].
  cbn in H. inversion H as [|? ? Hn Ht]; subst.
  destruct (p_pn h =? k) eqn:E; cbn.
  - assert (p_pn h = k) by lia. subst k. exact Hn.
  - destruct (pop k t) as [r t'] eqn:Ep. cbn. intros [Hc|Hc]; [lia|].
    specialize (IH Ht). apply IH. exact Hc.
Qed.

Lemma pop_other : forall k (l : list pktT) q, In q l -> p_pn q <> k -> In q (snd (pop k l)).
Proof.
  induction l as [|h t IH]; intros q Hin Hne; [contradiction|]. cbn.
  destruct (p_pn h =? k) eqn:E; cbn.
  - destruct Hin as [->|Hin]; [lia|exact Hin].
  - destruct (pop k t) as [r t'] eqn:Ep. cbn. destruct Hin as [->|Hin]; [left; reflexivity|].
    right. specialize (IH q Hin Hne). exact IH.
Qed.

(* with unique keys, popping the key of a member returns that member *)
Lemma pop_member : forall (l : list pktT) p, NoDup (keys l) -> In p l ->
  exists l', pop (p_pn p) l = (Some p, l').
Proof.
  induction l as [|h t IH]; intros p Hnd Hin; [contradiction|]. cbn.
  cbn in Hnd. inversion Hnd as [|? ? Hn Ht]; subst.
  destruct Hin as [->|Hin].
  - rewrite Z.eqb_refl. eexists; reflexivity.
  - destruct (p_pn h =? p_pn p) eqn:E.
    + exfalso. apply Hn. assert (p_pn h = p_pn p) as -> by lia. apply in_map. exact Hin.
    + destruct (IH p Ht Hin) as (l' & ->). eexists; reflexivity.
Qed.

(* ---------- del_all ---------- *)
Lemma del_all_ok : forall (lost sent : list pktT),
  NoDup (keys sent) -> incl lost sent -> NoDup (keys lost) ->
  flight sent = flight lost + flight (del_all lost sent) /\
  aecount sent = aecount lost + aecount (del_all lost sent) /\
  NoDup (keys (del_all lost sent)) /\
  incl (del_all lost sent) sent /\
  (forall k, In k (keys lost) -> ~ In k (keys (del_all lost sent))).
Proof.
  induction lost as [|p lost IH]; intros sent Hnd Hin Hl.
  - cbn. repeat split; auto; try lia. apply incl_refl.
  - cbn [del_all fold_left]. change (fold_left _ lost ?x) with (del_all lost x).
    cbn in Hl. inversion Hl as [|? ? Hpn Hl']; subst.
    assert (Hp : In p sent) by (apply Hin; left; reflexivity).
    destruct (pop_member sent p Hnd Hp) as (sent' & Ep). rewrite Ep. cbn [snd].
    destruct (pop_some _ _ _ _ Ep) as (_ & _ & Hf & Ha).
    pose proof (pop_nodup (p_pn p) sent Hnd) as Hnd'. rewrite Ep in Hnd'. cbn in Hnd'.
    assert (Hin' : incl lost sent').
    { intros q Hq. pose proof (pop_other (p_pn p) sent q) as O. rewrite Ep in O. apply O.
      - apply Hin. right. exact Hq.
      - intro Hc. apply Hpn. rewrite <- Hc. apply in_map. exact Hq. }
    destruct (IH sent' Hnd' Hin' Hl') as (A & B & D & E & G).
    assert (Hsub : incl sent' sent).
    { intros q Hq. pose proof (pop_incl (p_pn p) sent q) as I. rewrite Ep in I. apply I. exact Hq. }
    repeat split.
    + rewrite flight_cons. lia.
    + rewrite aecount_cons. lia.
    + exact D.
    + intros q Hq. apply Hsub. apply E. exact Hq.
    + intros k [Hk|Hk].
      * subst k. intro Hc. pose proof (pop_notin (p_pn p) sent Hnd) as N. rewrite Ep in N. apply N.
        unfold keys in *. apply in_map_iff in Hc. destruct Hc as (q & Hq1 & Hq2).
        apply in_map_iff. exists q. split; auto.
      * apply G. exact Hk.
Qed.

Lemma incl_keys : forall l1 l2 : list pktT, incl l1 l2 -> incl (keys l1) (keys l2).
Proof.
  intros l1 l2 H k Hk. unfold keys in *. apply in_map_iff in Hk. destruct Hk as (q & <- & Hq).
  apply in_map. apply H. exact Hq.
Qed.

(* sub-selections of a list with unique keys *)
Lemma filter_keys_nodup : forall (f : pktT -> bool) l, NoDup (keys l) -> NoDup (keys (filter f l)).
Proof.
  induction l as [|h t IH]; intros H; cbn; [constructor|].
  cbn in H. inversion H as [|? ? Hn Ht]; subst.
  destruct (f h); cbn; auto. constructor; auto.
  intro Hc. apply Hn. apply (incl_keys (filter f t) t); auto. apply incl_filter.
Qed.

Lemma detect_scan_sub : forall la pth tth delay (l : list pktT) lt lost lt',
  detect_scan F la pth tth delay l lt = (lost, lt') ->
  incl lost l /\ (NoDup (keys l) -> NoDup (keys lost)).
Proof.
  induction l as [|p t IH]; intros lt lost lt' H; cbn in H.
  - inversion H; subst. split; [apply incl_refl|constructor].
  - destruct (p_pn p >? la).
    { inversion H; subst. split; [intros x []|constructor]. }
    destruct ((p_pn p <=? pth) || fleb F (p_time p) tth).
    + destruct (detect_scan F la pth tth delay t lt) as [lost0 lt0] eqn:E.
      inversion H; subst. destruct (IH _ _ _ E) as (I & N). split.
      * intros x [->|Hx]; [left; reflexivity|right; apply I; exact Hx].
      * intro Hnd. cbn in Hnd. inversion Hnd as [|? ? Hn Ht]; subst. cbn. constructor; auto.
        intro Hc. apply Hn. apply (incl_keys lost0 t); auto.
    + destruct (IH _ _ _ H) as (I & N). split.
      * intros x Hx. right. apply I. exact Hx.
      * intro Hnd. cbn in Hnd. inversion Hnd; subst. auto.
Qed.

(* ---------- dict_set ---------- *)
Lemma dict_set_fresh : forall (p : pktT) l, ~ In (p_pn p) (keys l) -> dict_set p l = l ++ [p].
Proof.
  induction l as [|h t IH]; intros H; cbn; [reflexivity|].
  cbn in H. destruct (p_pn h =? p_pn p) eqn:E.
  - exfalso. apply H. left. lia.
  - rewrite IH; auto.
Qed.

Lemma dict_set_in : forall (p : pktT) l q, In q (dict_set p l) -> q = p \/ In q l.
Proof.
  induction l as [|h t IH]; intros q H; cbn in H.
  - destruct H as [<-|[]]. left; reflexivity.
  - destruct (p_pn h =? p_pn p).
    + destruct H as [<-|H]; [left; reflexivity|right; right; exact H].
    + destruct H as [<-|H]; [right; left; reflexivity|].
      destruct (IH q H); [left; assumption|right; right; assumption].
Qed.

(* ---------- upd_nth ---------- *)
Lemma upd_nth_same : forall {A} (f : A -> A) (l : list A) i x,
  nth_error l i = Some x -> nth_error (upd_nth i f l) i = Some (f x).
Proof.
  induction l as [|h t IH]; intros i x H; destruct i; cbn in *; try discriminate.
  - inversion H; reflexivity.
  - apply IH. exact H.
Qed.

Lemma upd_nth_other : forall {A} (f : A -> A) (l : list A) i j, i <> j ->
  nth_error (upd_nth i f l) j = nth_error l j.
Proof.
  induction l as [|h t IH]; intros i j H; destruct i, j; cbn; try reflexivity; try congruence.
  apply IH. congruence.
Qed.

Lemma upd_nth_length : forall {A} (f : A -> A) (l : list A) i, length (upd_nth i f l) = length l.
Proof. induction l; intros; destruct i; cbn; auto. Qed.

Definition tot_flight (sps : list (space (T:=T))) : Z :=
  fold_right (fun s a => flight (sp_sent s) + a) 0 sps.

Lemma tot_flight_upd : forall sps i s (f : space -> space),
  nth_error sps i = Some s ->
  tot_flight (upd_nth i f sps) = tot_flight sps - flight (sp_sent s) + flight (sp_sent (f s)).
Proof.
  induction sps as [|h t IH]; intros i s f H; destruct i; cbn [nth_error upd_nth] in *; try discriminate.
  - inversion H; subst. cbn [tot_flight fold_right]. lia.
  - cbn [tot_flight fold_right]. fold (tot_flight (upd_nth i f t)). fold (tot_flight t).
    rewrite (IH _ _ f H). lia.
Qed.

End Lemmas.
