(* Invariants of the connection-ID bookkeeping model (model/Cid.v) over ALL op sequences. *)
From Coq Require Import ZArith List Bool Lia ZifyBool Sorted.
From AQ Require Import lib.Base gen.C18Consts model.Cid.

(* ---------------------------------------------------------------- small list facts *)
Lemma zlen_nonneg {A} (l : list A) : 0 <= Zlen l.
Proof. unfold Zlen; lia. Qed.
Lemma zlen_app {A} (l1 l2 : list A) : Zlen (l1 ++ l2) = Zlen l1 + Zlen l2.
Proof. unfold Zlen; rewrite app_length; lia. Qed.
Lemma zlen_cons {A} (a : A) (l : list A) : Zlen (a :: l) = 1 + Zlen l.
Proof. unfold Zlen; cbn [length]; lia. Qed.
Lemma zlen_map {A B} (f : A -> B) (l : list A) : Zlen (map f l) = Zlen l.
Proof. unfold Zlen; now rewrite map_length. Qed.
Lemma zlen_filter_le {A} (f : A -> bool) (l : list A) : Zlen (filter f l) <= Zlen l.
Proof. induction l as [|a l IH]; cbn [filter]; [lia|]. destruct (f a); rewrite ?zlen_cons; lia. Qed.

Lemma memz_In x l : memz x l = true <-> In x l.
Proof.
  unfold memz. rewrite existsb_exists. split.
  - intros [y [Hy E]]. apply Z.eqb_eq in E. now subst.
  - intros H. exists x. split; [assumption|apply Z.eqb_refl].
Qed.

Lemma remove1_In x y l : In y (remove1 x l) -> In y l.
Proof.
  induction l as [|a l IH]; cbn [remove1]; [tauto|]. destruct (x =? a); cbn [In]; tauto.
Qed.
Lemma In_remove1 x y l : In y l -> y = x \/ In y (remove1 x l).
Proof.
  induction l as [|a l IH]; cbn [remove1 In]; [tauto|]. intros [E|H].
  - subst a. destruct (x =? y) eqn:E; [left; lia|right; now left].
  - destruct (x =? a) eqn:E; [tauto|]. cbn [In]. tauto.
Qed.

(* ---------------------------------------------------------------- reachable states *)
(* legitimate environment: the handshake completes once (before any 1-RTT traffic); a RETIRE delivery outcome
   refers to a frame that is really outstanding (premise discharged by C08: callbacks at most once per frame) *)
Definition legit (s : st) (o : op) : Prop :=
  match o with
  | Handshake _ => False
  | RetireDelivery q _ => In q (outs s)
  | _ => True
  end.

(* reach c l s: s is reachable for role c and peer limit l *)
Inductive reach (c : bool) (l : Z) : st -> Prop :=
| reach_init : reach c l (handshake_complete (init c) l)
| reach_step s o : reach c l s -> legit s o -> reach c l (snd (step s o)).

Definition plain (o : op) : bool :=
  match o with Handshake _ | RetireDelivery _ _ => false | _ => true end.

Lemma reach_run c l ops : forallb plain ops = true -> forall s, reach c l s -> reach c l (run s ops).
Proof.
  induction ops as [|o ops IH]; cbn [forallb run]; intros H s R; [exact R|].
  apply andb_prop in H. destruct H as [Ho H]. apply IH; [assumption|].
  apply reach_step; [exact R|]. destruct o; cbn in *; try tauto; discriminate.
Qed.

(* ---------------------------------------------------------------- locally issued IDs *)
Lemma replenish_loop_len fuel : forall hs next target,
  Zlen hs <= target -> target - Zlen hs <= Z.of_nat fuel ->
  Zlen (fst (replenish_loop fuel hs next target)) = target.
Proof.
  induction fuel as [|f IH]; intros hs next target H1 H2; cbn [replenish_loop].
  - cbn [fst]. lia.
  - destruct (Zlen hs <? target) eqn:E; cbn [fst]; [|lia].
    apply IH; rewrite zlen_app, zlen_cons; change (Zlen (@nil hcid)) with 0; lia.
Qed.

Lemma replenish_loop_noop fuel hs next target :
  target <= Zlen hs -> replenish_loop fuel hs next target = (hs, next).
Proof. destruct fuel; cbn [replenish_loop]; [reflexivity|]. intros H. destruct (Zlen hs <? target) eqn:E; [lia|reflexivity]. Qed.

(* host IDs: pairwise distinct sequence numbers, all below _host_cid_seq *)
Definition hseqs (hs : list hcid) : list Z := map h_seq hs.
Definition hgood (hs : list hcid) (next : Z) : Prop := NoDup (hseqs hs) /\ Forall (fun q => q < next) (hseqs hs).

Lemma nodup_snoc (l : list Z) a : NoDup l -> ~ In a l -> NoDup (l ++ [a]).
Proof.
  induction l as [|b l IH]; cbn [app]; intros N H.
  - constructor; [tauto|constructor].
  - inversion N; subst. constructor.
    + rewrite in_app_iff. cbn [In]. intros [?|[?|[]]]; [tauto|]. subst. apply H. now left.
    + apply IH; [assumption|]. intros ?. apply H. now right.
Qed.

Lemma hgood_snoc hs next : hgood hs next -> hgood (hs ++ [mkH next false]) (next + 1).
Proof.
  intros [N B]. unfold hgood, hseqs in *. rewrite map_app. cbn [map h_seq]. split.
  - apply nodup_snoc; [assumption|]. intros H. rewrite Forall_forall in B. apply B in H. lia.
  - apply Forall_app. split; [|repeat constructor; lia]. eapply Forall_impl; [|exact B]. cbn. intros; lia.
Qed.

Lemma replenish_loop_good fuel : forall hs next target,
  hgood hs next -> hgood (fst (replenish_loop fuel hs next target)) (snd (replenish_loop fuel hs next target)).
Proof.
  induction fuel as [|f IH]; intros hs next target G; cbn [replenish_loop]; [exact G|].
  destruct (Zlen hs <? target); [|exact G]. apply IH. now apply hgood_snoc.
Qed.

Lemma hseqs_del_incl q hs x : In x (hseqs (del_host q hs)) -> In x (hseqs hs).
Proof.
  unfold hseqs. induction hs as [|h t IH]; cbn [del_host map]; [tauto|].
  destruct (h_seq h =? q); cbn [map In]; tauto.
Qed.

Lemma hgood_del q hs next : hgood hs next -> hgood (del_host q hs) next /\ ~ In q (hseqs (del_host q hs)).
Proof.
  unfold hgood, hseqs. intros [N B]. induction hs as [|h t IH]; cbn [del_host map] in *.
  - repeat split; [constructor|constructor|tauto].
  - inversion N; subst. inversion B; subst. destruct (h_seq h =? q) eqn:E.
    + repeat split; [assumption|assumption|]. assert (h_seq h = q) by lia. subst q. assumption.
    + destruct (IH H2 H4) as [[N' B'] NI]. cbn [map]. repeat split.
      * constructor; [|assumption]. intros H. apply H1. now apply (hseqs_del_incl q t).
      * constructor; assumption.
      * cbn [In]. intros [?|?]; [lia|tauto].
Qed.

Lemma zlen_del_host q hs : has_host q hs = true -> Zlen (del_host q hs) = Zlen hs - 1.
Proof.
  unfold has_host. induction hs as [|h t IH]; cbn [existsb del_host]; [discriminate|].
  destruct (h_seq h =? q) eqn:E; cbn [orb]; rewrite ?zlen_cons; [lia|]. intros H. rewrite IH by assumption. lia.
Qed.
Lemma del_host_absent q hs : has_host q hs = false -> del_host q hs = hs.
Proof.
  unfold has_host. induction hs as [|h t IH]; cbn [existsb del_host]; [reflexivity|].
  destruct (h_seq h =? q) eqn:E; cbn [orb]; [discriminate|]. intros H. now rewrite IH.
Qed.
Lemma has_host_In q hs : has_host q hs = true <-> In q (hseqs hs).
Proof.
  unfold has_host, hseqs. rewrite existsb_exists, in_map_iff. split.
  - intros [h [H E]]. exists h. split; [lia|assumption].
  - intros [h [E H]]. exists h. split; [assumption|lia].
Qed.

(* ---------------------------------------------------------------- the budgeted write loops of send *)
Definition wn_hosts (hs : list hcid) (b : Z) : list hcid := fst (fst (write_news hs b)).
Definition wn_news (hs : list hcid) (b : Z) : list Z := snd (fst (write_news hs b)).
Definition wn_left (hs : list hcid) (b : Z) : option Z := snd (write_news hs b).

Lemma write_rets_split pd : forall b, pd = fst (write_rets pd b) ++ snd (write_rets pd b).
Proof.
  induction pd as [|q t IH]; intros b; cbn [write_rets]; [reflexivity|].
  destruct (b <=? 0); [reflexivity|].
  specialize (IH (b - 1)). destruct (write_rets t (b - 1)) as [w r]. cbn [fst snd app] in *. now rewrite <- IH.
Qed.

Lemma write_rets_len pd : forall b, Zlen (fst (write_rets pd b)) = Z.min (Z.max 0 b) (Zlen pd).
Proof.
  induction pd as [|q t IH]; intros b; cbn [write_rets].
  - cbn [fst]. change (Zlen (@nil Z)) with 0. lia.
  - destruct (b <=? 0) eqn:E.
    + cbn [fst]. change (Zlen (@nil Z)) with 0. pose proof (zlen_nonneg (q :: t)). lia.
    + specialize (IH (b - 1)). destruct (write_rets t (b - 1)) as [w r]. cbn [fst] in *.
      rewrite !zlen_cons, IH. pose proof (zlen_nonneg t). lia.
Qed.

Lemma write_rets_head q t b : 0 < b -> exists w, fst (write_rets (q :: t) b) = q :: w.
Proof.
  intros H. cbn [write_rets]. replace (b <=? 0) with false by lia.
  destruct (write_rets t (b - 1)) as [w r]. exists w. reflexivity.
Qed.

Lemma wn_seqs hs : forall b, hseqs (wn_hosts hs b) = hseqs hs.
Proof.
  unfold wn_hosts, hseqs. induction hs as [|h t IH]; intros b; cbn [write_news]; [reflexivity|].
  destruct (h_sent h).
  - specialize (IH b). destruct (write_news t b) as [[t' w] r]. cbn [fst map] in *. now rewrite IH.
  - destruct (b <=? 0); [reflexivity|].
    specialize (IH (b - 1)). destruct (write_news t (b - 1)) as [[t' w] r]. cbn [fst map h_seq] in *. now rewrite IH.
Qed.

Lemma wn_len hs b : Zlen (wn_hosts hs b) = Zlen hs.
Proof.
  rewrite <- (zlen_map h_seq (wn_hosts hs b)), <- (zlen_map h_seq hs).
  change (Zlen (hseqs (wn_hosts hs b)) = Zlen (hseqs hs)). now rewrite wn_seqs.
Qed.

(* what is owed = what was written ++ what is still owed, in order *)
Lemma wn_unsent_split hs : forall b, unsent hs = wn_news hs b ++ unsent (wn_hosts hs b).
Proof.
  unfold wn_hosts, wn_news, unsent. induction hs as [|h t IH]; intros b; cbn [write_news]; [reflexivity|].
  destruct (h_sent h) eqn:Es.
  - specialize (IH b). destruct (write_news t b) as [[t' w] r]. cbn [fst snd filter] in *. rewrite Es. cbn [negb]. exact IH.
  - destruct (b <=? 0); [reflexivity|].
    specialize (IH (b - 1)). destruct (write_news t (b - 1)) as [[t' w] r]. cbn [fst snd filter h_sent negb] in *.
    rewrite Es. cbn [negb map app]. now rewrite IH.
Qed.

Lemma wn_left_spec hs : forall b,
  match wn_left hs b with
  | None => unsent (wn_hosts hs b) <> [] /\ Zlen (wn_news hs b) = Z.max 0 b
  | Some b' => unsent (wn_hosts hs b) = [] /\ b' = b - Zlen (wn_news hs b)
  end.
Proof.
  unfold wn_hosts, wn_news, wn_left, unsent. induction hs as [|h t IH]; intros b; cbn [write_news].
  - cbn. change (Zlen (@nil Z)) with 0. split; [reflexivity|lia].
  - destruct (h_sent h) eqn:Es.
    + specialize (IH b). destruct (write_news t b) as [[t' w] r]. cbn [fst snd filter] in *. rewrite Es. cbn [negb]. exact IH.
    + destruct (b <=? 0) eqn:Eb.
      * cbn [fst snd filter]. rewrite Es. cbn [negb map]. change (Zlen (@nil Z)) with 0. split; [discriminate|lia].
      * specialize (IH (b - 1)). destruct (write_news t (b - 1)) as [[t' w] r]. cbn [fst snd filter h_sent negb] in *.
        rewrite zlen_cons. destruct r; destruct IH as [A B]; (split; [exact A|lia]).
Qed.

Lemma wn_in hs : forall b h', In h' (wn_hosts hs b) ->
  In h' hs \/ (h_sent h' = true /\ In (h_seq h') (wn_news hs b)).
Proof.
  unfold wn_hosts, wn_news. induction hs as [|h t IH]; intros b h'; cbn [write_news]; [cbn; tauto|].
  destruct (h_sent h) eqn:Es.
  - specialize (IH b h'). destruct (write_news t b) as [[t' w] r]. cbn [fst snd In] in *. intros [E|H]; [tauto|].
    destruct (IH H); tauto.
  - destruct (b <=? 0); [cbn [fst snd]; tauto|].
    specialize (IH (b - 1) h'). destruct (write_news t (b - 1)) as [[t' w] r]. cbn [fst snd In] in *. intros [E|H].
    + subst h'. cbn. right. split; [reflexivity|now left].
    + destruct (IH H) as [A|[A B]]; [tauto|]. right. split; [assumption|now right].
Qed.

Lemma wn_news_in hs : forall b q, In q (wn_news hs b) -> exists h, In h hs /\ h_seq h = q /\ h_sent h = false.
Proof.
  unfold wn_news. induction hs as [|h t IH]; intros b q; cbn [write_news]; [cbn; tauto|].
  destruct (h_sent h) eqn:Es.
  - specialize (IH b q). destruct (write_news t b) as [[t' w] r]. cbn [fst snd] in *. intros H.
    destruct (IH H) as [h0 [A B]]. exists h0. split; [now right|assumption].
  - destruct (b <=? 0); [cbn; tauto|].
    specialize (IH (b - 1) q). destruct (write_news t (b - 1)) as [[t' w] r]. cbn [fst snd In] in *. intros [E|H].
    + exists h. split; [now left|split; assumption].
    + destruct (IH H) as [h0 [A B]]. exists h0. split; [now right|assumption].
Qed.

(* _host_cids is in increasing sequence-number order, so an ID the builder refused lies above every ID written *)
Lemma wn_above hs : forall b h', StronglySorted Z.lt (hseqs hs) -> In h' (wn_hosts hs b) -> h_sent h' = false ->
  Forall (fun q => q < h_seq h') (wn_news hs b).
Proof.
  induction hs as [|h t IH]; intros b h' S; [unfold wn_news; cbn; constructor|].
  unfold hseqs in S. cbn [map] in S. apply StronglySorted_inv in S. destruct S as [S F].
  pose proof (wn_seqs t) as Q.
  unfold wn_hosts, wn_news in *. cbn [write_news].
  destruct (h_sent h) eqn:Es.
  - specialize (IH b h' S). destruct (write_news t b) as [[t' w] r]. cbn [fst snd In] in *.
    intros [E|H] Hs; [congruence|now apply IH].
  - destruct (b <=? 0); [cbn [fst snd]; constructor|].
    specialize (IH (b - 1) h' S). specialize (Q (b - 1)).
    destruct (write_news t (b - 1)) as [[t' w] r]. cbn [fst snd In] in *.
    intros [E|H] Hs; [subst h'; discriminate|]. constructor; [|now apply IH].
    rewrite Forall_forall in F. apply F. fold (hseqs t). rewrite <- Q. unfold hseqs. now apply in_map.
Qed.

Lemma wn_news_len hs : forall b, Zlen (wn_news hs b) <= Z.max 0 b.
Proof.
  unfold wn_news. induction hs as [|h t IH]; intros b; cbn [write_news]; [cbn; change (Zlen (@nil Z)) with 0; lia|].
  destruct (h_sent h).
  - specialize (IH b). destruct (write_news t b) as [[t' w] r]. exact IH.
  - destruct (b <=? 0) eqn:Eb; [cbn; change (Zlen (@nil Z)) with 0; lia|].
    specialize (IH (b - 1)). destruct (write_news t (b - 1)) as [[t' w] r]. cbn [fst snd] in *. rewrite zlen_cons. lia.
Qed.

Lemma zlen_zero_nil {A} (l : list A) : Zlen l = 0 -> l = [].
Proof. destruct l; [reflexivity|]. rewrite zlen_cons. pose proof (zlen_nonneg l). lia. Qed.

(* a budget that covers every owed NEW_CONNECTION_ID: all of them are written, the builder has not stopped *)
Lemma wn_enough hs b : Zlen (unsent hs) <= b ->
  wn_left hs b = Some (b - Zlen (unsent hs)) /\ wn_news hs b = unsent hs /\ unsent (wn_hosts hs b) = [].
Proof.
  intros H. pose proof (wn_left_spec hs b) as L. pose proof (wn_unsent_split hs b) as Sp.
  destruct (wn_left hs b) as [b'|].
  - destruct L as [A B]. rewrite A, app_nil_r in Sp. subst b'. rewrite <- Sp. repeat split; assumption.
  - destruct L as [A B]. exfalso. apply (f_equal Zlen) in Sp. rewrite zlen_app in Sp.
    assert (1 <= Zlen (unsent (wn_hosts hs b))).
    { destruct (unsent (wn_hosts hs b)); [congruence|]. rewrite zlen_cons. pose proof (zlen_nonneg l). lia. }
    lia.
Qed.

Lemma fold_max_cases l : forall m x, x <= fold_left Z.max l m -> x <= m \/ exists y, In y l /\ x <= y.
Proof.
  induction l as [|a l IH]; intros m x H; cbn [fold_left] in H; [now left|].
  destruct (IH _ _ H) as [A|[y [A B]]].
  - destruct (Z.max_spec m a) as [[_ E]|[_ E]]; rewrite E in A; [right; exists a; split; [now left|assumption]|now left].
  - right. exists y. split; [now right|assumption].
Qed.

(* host-side invariant *)
Lemma del_host_In q hs h : In h (del_host q hs) -> In h hs.
Proof.
  induction hs as [|a t IH]; cbn [del_host]; [tauto|]. destruct (h_seq a =? q); cbn [In]; tauto.
Qed.

Lemma replenish_loop_hosts fuel : forall hs next target h,
  In h (fst (replenish_loop fuel hs next target)) -> In h hs \/ (h_sent h = false /\ next <= h_seq h).
Proof.
  induction fuel as [|f IH]; intros hs next target h; cbn [replenish_loop]; [cbn; tauto|].
  destruct (Zlen hs <? target); [|cbn; tauto]. intros H. apply IH in H. destruct H as [H|[H1 H2]]; [|right; split; [assumption|lia]].
  apply in_app_or in H. destruct H as [H|[H|[]]]; [tauto|]. subst h. cbn. right. split; [reflexivity|lia].
Qed.

Lemma replenish_loop_next fuel : forall hs next target, next <= snd (replenish_loop fuel hs next target).
Proof.
  induction fuel as [|f IH]; intros hs next target; cbn [replenish_loop]; [cbn; lia|].
  destruct (Zlen hs <? target); [|cbn; lia]. specialize (IH (hs ++ [mkH next false]) (next + 1) target). lia.
Qed.

Lemma fold_max_ge l : forall m, m <= fold_left Z.max l m /\ (forall x, In x l -> x <= fold_left Z.max l m).
Proof.
  induction l as [|a l IH]; intros m; cbn [fold_left]; [split; [lia|intros x []]|].
  destruct (IH (Z.max m a)) as [A B]. split; [lia|]. intros x [E|H]; [subst; lia|auto].
Qed.
Lemma fold_max_lt l n : forall m, m < n -> Forall (fun x => x < n) l -> fold_left Z.max l m < n.
Proof.
  induction l as [|a l IH]; intros m Hm F; cbn [fold_left]; [assumption|]. inversion F; subst. apply IH; [lia|assumption].
Qed.

(* _host_cids stays in increasing sequence-number order *)
Lemma ssorted_snoc l a : StronglySorted Z.lt l -> Forall (fun q => q < a) l -> StronglySorted Z.lt (l ++ [a]).
Proof.
  induction l as [|b l IH]; cbn [app]; intros S F; [constructor; constructor|].
  apply StronglySorted_inv in S. destruct S as [S Fb]. inversion F; subst.
  constructor; [now apply IH|]. apply Forall_app. split; [assumption|repeat constructor; lia].
Qed.

Lemma replenish_loop_sorted fuel : forall hs next target,
  hgood hs next -> StronglySorted Z.lt (hseqs hs) ->
  StronglySorted Z.lt (hseqs (fst (replenish_loop fuel hs next target))).
Proof.
  induction fuel as [|f IH]; intros hs next target G S; cbn [replenish_loop]; [exact S|].
  destruct (Zlen hs <? target); [|exact S]. apply IH; [now apply hgood_snoc|].
  unfold hseqs. rewrite map_app. cbn [map h_seq]. apply ssorted_snoc; [exact S|]. destruct G as [_ B]. exact B.
Qed.

Lemma ssorted_del q hs : StronglySorted Z.lt (hseqs hs) -> StronglySorted Z.lt (hseqs (del_host q hs)).
Proof.
  induction hs as [|h t IH]; cbn [del_host]; [trivial|]. intros S.
  change (hseqs (h :: t)) with (h_seq h :: hseqs t) in S. apply StronglySorted_inv in S. destruct S as [S F].
  destruct (h_seq h =? q); [assumption|]. change (hseqs (h :: del_host q t)) with (h_seq h :: hseqs (del_host q t)).
  constructor; [now apply IH|]. rewrite Forall_forall in *. intros x Hx. apply F. now apply (hseqs_del_incl q).
Qed.

Lemma hseqs_map f hs : (forall h, h_seq (f h) = h_seq h) -> hseqs (map f hs) = hseqs hs.
Proof. intros Hf. unfold hseqs. rewrite map_map. apply map_ext. intros; now rewrite Hf. Qed.

(* host-side invariant *)
Record HInv (l : Z) (s : st) : Prop := {
  hi_limit : rlimit s = l;
  hi_count : Zlen (hosts s) = Z.min REPLENISH_CAP l;
  hi_good : hgood (hosts s) (hseq s);
  hi_mark : hsent s < hseq s;
  hi_issued : forall h, In h (hosts s) -> h_sent h = true \/ h_seq h <= hsent s -> In (h_seq h) (issued s);
  hi_retired : forall q, In q (retiredev s) -> In q (issued s);
  hi_sorted : StronglySorted Z.lt (hseqs (hosts s))
}.

Lemma replenish_HInv l s : 1 <= l -> rlimit s = l -> Zlen (hosts s) <= Z.min REPLENISH_CAP l ->
  hgood (hosts s) (hseq s) -> hsent s < hseq s ->
  (forall h, In h (hosts s) -> h_sent h = true \/ h_seq h <= hsent s -> In (h_seq h) (issued s)) ->
  (forall q, In q (retiredev s) -> In q (issued s)) ->
  StronglySorted Z.lt (hseqs (hosts s)) ->
  HInv l (replenish s).
Proof.
  intros Hl Hr Hc Hg Hm Hi Hrt Hso. unfold replenish. rewrite Hr.
  pose proof (replenish_loop_sorted (Z.to_nat (Z.min REPLENISH_CAP l)) (hosts s) (hseq s) (Z.min REPLENISH_CAP l) Hg Hso) as So.
  pose proof (replenish_loop_len (Z.to_nat (Z.min REPLENISH_CAP l)) (hosts s) (hseq s) (Z.min REPLENISH_CAP l)) as L.
  pose proof (replenish_loop_good (Z.to_nat (Z.min REPLENISH_CAP l)) (hosts s) (hseq s) (Z.min REPLENISH_CAP l) Hg) as G.
  pose proof (replenish_loop_hosts (Z.to_nat (Z.min REPLENISH_CAP l)) (hosts s) (hseq s) (Z.min REPLENISH_CAP l)) as Hh.
  pose proof (replenish_loop_next (Z.to_nat (Z.min REPLENISH_CAP l)) (hosts s) (hseq s) (Z.min REPLENISH_CAP l)) as Hn.
  destruct (replenish_loop _ _ _ _) as [hs next]. cbn [fst snd] in *.
  constructor; cbn [hosts hseq hsent rlimit issued retiredev set_host]; try assumption.
  - apply L; [assumption|]. pose proof (zlen_nonneg (hosts s)). unfold REPLENISH_CAP in *. lia.
  - lia.
  - intros h Hin Hs. destruct (Hh h Hin) as [H|[H1 H2]]; [now apply Hi|]. destruct Hs as [Hs|Hs]; [congruence|lia].
Qed.

Lemma hgood_map_sent f hs next : (forall h, h_seq (f h) = h_seq h) -> hgood hs next -> hgood (map f hs) next.
Proof.
  intros Hf. unfold hgood, hseqs. rewrite map_map.
  replace (map (fun x => h_seq (f x)) hs) with (map h_seq hs); [tauto|].
  apply map_ext. intros; now rewrite Hf.
Qed.

Lemma init_HInv c l : 1 <= l -> HInv l (handshake_complete (init c) l).
Proof.
  intros Hl. unfold handshake_complete. apply replenish_HInv; cbn; try assumption; try reflexivity; try lia; try tauto.
  all: try (change (Zlen [mkH 0 true]) with 1; unfold REPLENISH_CAP; lia).
  all: try (unfold hgood, hseqs; cbn; split; [constructor; [tauto|constructor]|repeat constructor; lia]).
  all: try (intros h [E|[]] _; subst h; cbn; now left).
  all: try (solve [unfold hseqs; cbn; repeat constructor]).
Qed.

Lemma change_cid_host s : hosts (change_cid s) = hosts s /\ hseq (change_cid s) = hseq s /\ rlimit (change_cid s) = rlimit s
  /\ hsent (change_cid s) = hsent s /\ issued (change_cid s) = issued s /\ retiredev (change_cid s) = retiredev s.
Proof. unfold change_cid. destruct (avail s); cbn; repeat split. Qed.

Lemma HInv_same l s s' : HInv l s -> hosts s' = hosts s -> hseq s' = hseq s -> rlimit s' = rlimit s ->
  hsent s' = hsent s -> issued s' = issued s -> retiredev s' = retiredev s -> HInv l s'.
Proof. intros [A B C D E F G] H1 H2 H3 H4 H5 H6. constructor; rewrite ?H1, ?H2, ?H3, ?H4, ?H5, ?H6; assumption. Qed.

Lemma never_sent_false q hs mark h : never_sent q hs mark = false -> In h hs -> h_seq h = q ->
  h_sent h = true \/ h_seq h <= mark.
Proof.
  unfold never_sent. intros N Hin E. destruct (h_sent h) eqn:Es; [now left|right].
  destruct (h_seq h >? mark) eqn:Em; [|lia]. exfalso.
  assert (X : existsb (fun h0 => (h_seq h0 =? q) && negb (h_sent h0) && (h_seq h0 >? mark)) hs = true).
  { apply existsb_exists. exists h. split; [assumption|]. rewrite Es, Em. cbn. rewrite andb_true_r. lia. }
  congruence.
Qed.

Lemma send_HInv l s b : HInv l s -> HInv l (snd (send s b)).
Proof.
  intros [H1 H2 H3 H4 H5 H6 H7]. unfold send.
  pose proof (wn_seqs (hosts s) b) as Q. pose proof (wn_len (hosts s) b) as Ln.
  pose proof (wn_in (hosts s) b) as Hin. pose proof (wn_news_in (hosts s) b) as Hnw.
  pose proof (wn_above (hosts s) b) as Hab.
  unfold wn_hosts, wn_news in *. destruct (write_news (hosts s) b) as [[hs' news] rest]. cbn [fst snd] in *.
  assert (Fn : Forall (fun x => x < hseq s) news).
  { apply Forall_forall. intros x Hx. destruct (Hnw x Hx) as [h [A [B _]]]. destruct H3 as [_ F].
    rewrite Forall_forall in F. apply F. subst x. unfold hseqs. now apply in_map. }
  assert (HI : HInv l (set_host s hs' (hseq s) (fold_left Z.max news (hsent s)) (issued s ++ news) (retiredev s))).
  { constructor; cbn [hosts hseq hsent rlimit issued retiredev set_host]; try assumption.
    - lia.
    - unfold hgood. rewrite Q. exact H3.
    - now apply fold_max_lt.
    - intros h Hh Hs. apply in_or_app. destruct (Hin h Hh) as [A|[_ A]]; [|now right].
      destruct (h_sent h) eqn:Es; [left; apply H5; auto|].
      destruct Hs as [Hs|Hs]; [discriminate|].
      destruct (fold_max_cases _ _ _ Hs) as [B|[y [B C]]]; [left; apply H5; auto|].
      specialize (Hab h H7 Hh Es). rewrite Forall_forall in Hab. apply Hab in B. lia.
    - intros q Hq. apply in_or_app. left. now apply H6.
    - rewrite Q. exact H7. }
  destruct rest as [b'|]; [|exact HI]. destruct (write_rets (pend s) b') as [rets pend']. cbn [snd].
  eapply HInv_same; [exact HI| | | | | |]; reflexivity.
Qed.

Lemma step_HInv l s o : 1 <= l -> HInv l s -> legit s o -> HInv l (snd (step s o)).
Proof.
  intros Hl I Lg. pose proof I as [H1 H2 H3 H4 H5 H6 H7]. destruct o; cbn [step legit] in *; try tauto.
  - (* RecvPacket *) unfold recv_packet. destruct (closed s); cbn [snd]; [assumption|].
    destruct (is_client s && negb (has_host d (hosts s))); cbn [snd]; eapply HInv_same; try exact I; reflexivity.
  - (* RecvNewCid *) unfold recv_newcid.
    repeat match goal with |- context [match ?x with _ => _ end] => destruct x end; cbn [snd];
      try assumption; eapply HInv_same; try exact I; reflexivity.
  - (* RecvRetire *) unfold recv_retire.
    destruct (closed s); [assumption|]. destruct (pkt s); [|assumption].
    destruct ((q >=? hseq s) || never_sent q (hosts s) (hsent s)) eqn:E0; [cbn [snd]; eapply HInv_same; try exact I; reflexivity|].
    destruct (has_host q (hosts s) && (q =? z)); [cbn [snd]; eapply HInv_same; try exact I; reflexivity|]. cbn [snd].
    apply orb_false_elim in E0. destruct E0 as [E0 E1].
    apply replenish_HInv; cbn; try assumption.
    + destruct (has_host q (hosts s)) eqn:E; [rewrite zlen_del_host by assumption; lia|rewrite del_host_absent by assumption; lia].
    + now apply hgood_del.
    + intros h Hin. apply H5. now apply (del_host_In q).
    + intros q0 Hq. destruct (has_host q (hosts s)) eqn:E; [|now apply H6].
      apply in_app_or in Hq. destruct Hq as [Hq|[Hq|[]]]; [now apply H6|]. subst q0.
      apply has_host_In in E. unfold hseqs in E. apply in_map_iff in E. destruct E as [h [Eh Hin]].
      rewrite <- Eh. apply H5; [assumption|]. eapply never_sent_false; eassumption.
    + now apply ssorted_del.
  - (* PacketDone *) unfold packet_done. destruct (closed s); [cbn [snd]; eapply HInv_same; try exact I; reflexivity|].
    destruct (pkt s); [|cbn [snd]; eapply HInv_same; try exact I; reflexivity].
    destruct (negb (is_client s) && negb (z =? hcur s)); cbn [snd]; [|eapply HInv_same; try exact I; reflexivity].
    destruct (change_cid_host s) as [A [B [C [D [E F]]]]]. eapply HInv_same; try exact I; cbn; assumption.
  - (* LocalChange *) destruct (change_cid_host s) as [A [B [C [D [E F]]]]]. eapply HInv_same; try exact I; cbn; assumption.
  - (* Send *) destruct (closed s); cbn [snd]; [assumption|]. apply send_HInv; assumption.
  - (* RetireDelivery *) unfold retire_delivery. destruct acked; cbn [snd]; eapply HInv_same; try exact I; reflexivity.
  - (* NewCidDelivery *) unfold newcid_delivery. destruct acked; cbn [snd]; [assumption|].
    assert (Hf : forall h, h_seq (if h_seq h =? q then mkH q false else h) = h_seq h)
      by (intros h; destruct (h_seq h =? q) eqn:E; cbn; lia).
    constructor; cbn [hosts hseq hsent rlimit issued retiredev set_host]; try assumption;
      [now rewrite zlen_map| | |now rewrite hseqs_map].
    + apply hgood_map_sent; [|assumption]. exact Hf.
    + intros h Hin Hs. apply in_map_iff in Hin. destruct Hin as [h0 [E Hin]].
      destruct (h_seq h0 =? q) eqn:Eq.
      * subst h. cbn in *. destruct Hs as [Hs|Hs]; [discriminate|]. replace q with (h_seq h0) by lia.
        apply H5; [assumption|]. right. lia.
      * subst h. now apply H5.
Qed.

Lemma reach_HInv c l s : 1 <= l -> reach c l s -> HInv l s.
Proof. intros Hl R. induction R; [now apply init_HInv|now apply step_HInv]. Qed.

(* ---------------------------------------------------------------- peer-issued IDs *)
Definition pcore (cl : option Z) (cur : Z) (avail seen : list Z) (rpt : Z) (pend outs ackd : list Z) : Prop :=
  (cl = None -> rpt <= cur) /\
  Forall (fun q => rpt <= q) avail /\
  (forall q, In q seen -> q = cur \/ In q avail \/ In q pend \/ In q outs \/ In q ackd).

Record PInv (s : st) : Prop := {
  pi_core : pcore (closed s) (cur s) (avail s) (seen s) (rpt s) (pend s) (outs s) (ackd s);
  pi_bound : closed s = None -> 1 + Zlen (avail s) <= LOCAL_ACTIVE_CID_LIMIT;
  pi_recvd : forall q, In q (recvd s) -> In q (seen s)
}.

Section NewCid.
  Variables (cl0 : option Z) (cur0 : Z) (avail0 seen0 : list Z) (rpt0 : Z) (pend0 outs0 ackd0 : list Z) (q r : Z).
  Local Notation rpt' := (Z.max r rpt0).
  Local Notation change := (cur0 <? rpt').
  Local Notation retire0 := (filter (fun c => c <? rpt') avail0).
  Local Notation avail1 := (filter (fun c => c >=? rpt') avail0).
  Local Notation fresh := ((q >=? rpt') && negb (memz q seen0)).
  Local Notation late := ((q <? rpt') && negb (memz q seen0)).
  Local Notation retire := ((if change then cur0 :: retire0 else retire0) ++ (if late then [q] else [])).
  Local Notation avail2 := (if fresh then avail1 ++ [q] else avail1).
  Local Notation seen2 := (if memz q seen0 then seen0 else seen0 ++ [q]).
  Local Notation pend' := (pend0 ++ retire).
  Hypothesis P : pcore cl0 cur0 avail0 seen0 rpt0 pend0 outs0 ackd0.

  Lemma nc_avail2 : Forall (fun c => rpt' <= c) avail2.
  Proof.
    assert (A1 : Forall (fun c => rpt' <= c) avail1).
    { apply Forall_forall. intros c Hc. apply filter_In in Hc. lia. }
    destruct fresh eqn:F; [|exact A1]. apply Forall_app. split; [exact A1|].
    repeat constructor. lia.
  Qed.

  Lemma nc_q_seen2 : In q seen2.
  Proof.
    destruct (memz q seen0) eqn:E; [now apply memz_In|]. apply in_or_app. right. now left.
  Qed.

  Lemma nc_acct c : In c seen2 ->
    (c = cur0 /\ change = false) \/ In c avail2 \/ In c pend' \/ In c outs0 \/ In c ackd0.
  Proof.
    destruct P as [_ [_ A]]. intros Hc.
    assert (Hold : In c seen0 -> (c = cur0 /\ change = false) \/ In c avail2 \/ In c pend' \/ In c outs0 \/ In c ackd0).
    { intros H0. destruct (A c H0) as [E|[H|[H|[H|H]]]]; try tauto.
      - destruct change eqn:Ech; [|tauto]. right; right; left.
        apply in_or_app. right. apply in_or_app. left. left. congruence.
      - destruct (c >=? rpt') eqn:Ec.
        + right; left. assert (In c avail1) by (apply filter_In; split; [assumption|lia]).
          destruct fresh; [apply in_or_app; now left|assumption].
        + right; right; left. apply in_or_app. right. apply in_or_app. left.
          assert (In c retire0) by (apply filter_In; split; [assumption|lia]).
          destruct change; [now right|assumption].
      - right; right; left. apply in_or_app. now left. }
    destruct (memz q seen0) eqn:M; [now apply Hold|].
    apply in_app_or in Hc. destruct Hc as [H0|[E|[]]]; [now apply Hold|]. subst c.
    destruct (q >=? rpt') eqn:Eq.
    - right; left. cbn [andb negb]. apply in_or_app. right. now left.
    - right; right; left. replace (q <? rpt') with true by lia. cbn [andb negb].
      apply in_or_app. right. apply in_or_app. right. now left.
  Qed.

  Lemma nc_nochange cl : change = false -> pcore cl cur0 avail2 seen2 rpt' pend' outs0 ackd0.
  Proof.
    intros Ech. split; [|split].
    - intros _. lia.
    - exact nc_avail2.
    - intros c Hc. destruct (nc_acct c Hc) as [[E _]|H]; tauto.
  Qed.

  Lemma nc_change cl a t : change = true -> avail2 = a :: t -> pcore cl a t seen2 rpt' pend' outs0 ackd0.
  Proof.
    intros Ech Ea. pose proof nc_avail2 as F. rewrite Ea in F. inversion F; subst. split; [|split].
    - intros _. assumption.
    - assumption.
    - intros c Hc. destruct (nc_acct c Hc) as [[_ E]|[H|H]]; [congruence| |tauto].
      rewrite Ea in H. destruct H; [left; congruence|tauto].
  Qed.

  Lemma nc_stranded e : change = true -> avail2 = [] -> pcore (Some e) cur0 [] seen2 rpt' pend' outs0 ackd0.
  Proof.
    intros Ech Ea. split; [|split].
    - discriminate.
    - constructor.
    - intros c Hc. destruct (nc_acct c Hc) as [[_ E]|[H|H]]; [congruence| |tauto]. rewrite Ea in H. destruct H.
  Qed.
End NewCid.

Lemma pcore_close cl e cur avail seen rpt pend outs ackd :
  pcore cl cur avail seen rpt pend outs ackd -> pcore (Some e) cur avail seen rpt pend outs ackd.
Proof. intros [A [B C]]. split; [discriminate|tauto]. Qed.

Lemma PInv_closed s h p e : PInv s -> PInv (set_ctx s h p (Some e)).
Proof. intros [C B R]. constructor; cbn; [eapply pcore_close; exact C|discriminate|exact R]. Qed.
Lemma PInv_ctx s h p : PInv s -> PInv (set_ctx s h p (closed s)).
Proof. intros [C B R]. constructor; cbn; assumption. Qed.
Lemma PInv_ctx_none s h p : closed s = None -> PInv s -> PInv (set_ctx s h p None).
Proof. intros E [C B R]. constructor; cbn; [now rewrite <- E|auto|exact R]. Qed.

Lemma limit_pos : 1 <= LOCAL_ACTIVE_CID_LIMIT.
Proof. unfold LOCAL_ACTIVE_CID_LIMIT. lia. Qed.

Lemma newcid_PInv s q r n : PInv s -> PInv (snd (recv_newcid s q r n)).
Proof.
  intros P. pose proof (pi_core _ P) as C. pose proof (pi_recvd _ P) as Rc. unfold recv_newcid.
  destruct (closed s) eqn:Ec; [exact P|].
  destruct (pkt s); [|exact P].
  destruct ((n =? 0) || (n >? CONNECTION_ID_MAX_SIZE)); [now apply PInv_closed|].
  destruct (r >? q); [now apply PInv_closed|].
  assert (RS : forall c, In c (recvd s ++ [q]) -> In c (if memz q (seen s) then seen s else seen s ++ [q])).
  { intros c Hc. apply in_app_or in Hc. destruct Hc as [Hc|[E|[]]].
    - apply Rc in Hc. destruct (memz q (seen s)); [assumption|apply in_or_app; now left].
    - subst c. apply nc_q_seen2. }
  destruct (cur s <? Z.max r (rpt s)) eqn:Ech.
  - match goal with |- context [match ?a2 with [] => _ | _ => _ end] => destruct a2 as [|a t] eqn:Ea end.
    + cbn [snd]. constructor; cbn -[Z.add Z.mul Z.min Zlen].
      * assert (H := nc_stranded _ _ _ _ _ _ _ _ q r C E_PROTOCOL_VIOLATION Ech Ea). rewrite Ech in H. exact H.
      * discriminate.
      * exact RS.
    + destruct (1 + Zlen t >? LOCAL_ACTIVE_CID_LIMIT) eqn:E1; [|destruct (Zlen _ >? _) eqn:E2];
        cbn [snd]; constructor; cbn -[Z.add Z.mul Z.min Zlen]; try exact RS; try discriminate.
      * assert (H := nc_change _ _ _ _ _ _ _ _ q r C (Some E_CONNECTION_ID_LIMIT_ERROR) a t Ech Ea). rewrite Ech in H. exact H.
      * assert (H := nc_change _ _ _ _ _ _ _ _ q r C (Some E_CONNECTION_ID_LIMIT_ERROR) a t Ech Ea). rewrite Ech in H. exact H.
      * assert (H := nc_change _ _ _ _ _ _ _ _ q r C (closed s) a t Ech Ea). rewrite Ech in H. exact H.
      * intros _. lia.
  - match goal with |- context [1 + Zlen ?a2 >? _] => destruct (1 + Zlen a2 >? LOCAL_ACTIVE_CID_LIMIT) eqn:E1 end;
      [|destruct (Zlen _ >? _) eqn:E2]; cbn [snd]; constructor; cbn -[Z.add Z.mul Z.min Zlen]; try exact RS; try discriminate.
    + assert (H := nc_nochange _ _ _ _ _ _ _ _ q r C (Some E_CONNECTION_ID_LIMIT_ERROR) Ech). rewrite Ech in H. exact H.
    + assert (H := nc_nochange _ _ _ _ _ _ _ _ q r C (Some E_CONNECTION_ID_LIMIT_ERROR) Ech). rewrite Ech in H. exact H.
    + assert (H := nc_nochange _ _ _ _ _ _ _ _ q r C (closed s) Ech). rewrite Ech in H. exact H.
    + intros _. lia.
Qed.

Lemma change_cid_closed s : closed (change_cid s) = closed s.
Proof. unfold change_cid. destruct (avail s); reflexivity. Qed.

Lemma change_cid_PInv s : PInv s -> PInv (change_cid s).
Proof.
  intros [[A [B C]] D R]. unfold change_cid. destruct (avail s) as [|a t] eqn:Ea.
  { constructor; [rewrite Ea; repeat split; assumption|rewrite Ea; exact D|exact R]. }
  inversion B; subst. constructor; cbn -[Z.add Zlen].
  - split; [intros _; assumption|split; [assumption|]].
    intros c Hc. destruct (C c Hc) as [E|[[E|H]|[H|H]]]; try tauto.
    + right; right; left. apply in_or_app. right. left. congruence.
    + left. congruence.
    + right; right; left. apply in_or_app. now left.
  - intros E. specialize (D E). rewrite zlen_cons in D. lia.
  - exact R.
Qed.

(* a refused frame never loses a retirement: what was pending is written (now outstanding) or still pending *)
Lemma send_PInv s b : PInv s -> PInv (snd (send s b)).
Proof.
  intros [[A [B C]] D R]. unfold send. destruct (write_news (hosts s) b) as [[hs' news] rest].
  destruct rest as [b'|].
  - pose proof (write_rets_split (pend s) b') as Sp. destruct (write_rets (pend s) b') as [rets pend']. cbn [fst snd] in *.
    constructor; cbn; [|assumption|assumption].
    split; [assumption|split; [assumption|]]. intros c Hc. destruct (C c Hc) as [E|[H|[H|[H|H]]]]; try tauto.
    + rewrite Sp in H. apply in_app_or in H. destruct H as [H|H]; [|tauto].
      right; right; right; left. apply in_or_app. now right.
    + right; right; right; left. apply in_or_app. now left.
  - cbn [snd]. constructor; cbn; [|assumption|assumption]. split; [assumption|split; [assumption|exact C]].
Qed.

Lemma step_PInv s o : PInv s -> legit s o -> PInv (snd (step s o)).
Proof.
  intros P Lg. destruct o; cbn [step legit] in *; try tauto.
  - (* RecvPacket *) unfold recv_packet. destruct (closed s) eqn:Ec; [exact P|].
    destruct (is_client s && negb (has_host d (hosts s))); cbn [snd]; now apply PInv_ctx_none.
  - now apply newcid_PInv.
  - (* RecvRetire *) unfold recv_retire.
    destruct (closed s) eqn:Ec; [exact P|]. destruct (pkt s); [|exact P].
    destruct (_ || _); [now apply PInv_closed|].
    destruct (has_host q (hosts s) && (q =? z)); [now apply PInv_closed|].
    cbn [snd]. destruct P as [C B R]. unfold replenish.
    destruct (replenish_loop _ _ _ _). constructor; cbn; try assumption; try (now rewrite Ec in C).
  - (* PacketDone *) unfold packet_done. destruct (closed s) eqn:Ec.
    + cbn [snd]. rewrite <- Ec. now apply PInv_ctx.
    + destruct (pkt s).
      * destruct (negb (is_client s) && negb (z =? hcur s)); cbn [snd].
        -- apply PInv_ctx_none; [now rewrite change_cid_closed|now apply change_cid_PInv].
        -- now apply PInv_ctx_none.
      * cbn [snd]. rewrite <- Ec. now apply PInv_ctx.
  - (* LocalChange *) cbn. now apply change_cid_PInv.
  - (* Send *) destruct (closed s) eqn:Ec; cbn [snd]; [exact P|]. now apply send_PInv.
  - (* RetireDelivery *) cbn. destruct P as [[A [B C]] D R]. unfold retire_delivery.
    destruct acked; constructor; cbn; try assumption; (split; [assumption|split; [assumption|]]); intros c Hc;
      destruct (C c Hc) as [E|[H|[H|[H|H]]]]; try tauto.
    + destruct (In_remove1 q c _ H) as [E|H']; [|tauto]. subst c. right; right; right; right. apply in_or_app. right. now left.
    + right; right; right; right. apply in_or_app. now left.
    + right; right; left. apply in_or_app. now left.
    + destruct (In_remove1 q c _ H) as [E|H']; [|tauto]. subst c. right; right; left. apply in_or_app. right. now left.
  - (* NewCidDelivery *) cbn. unfold newcid_delivery. destruct acked; [exact P|].
    destruct P as [C B R]. constructor; cbn; assumption.
Qed.

Lemma init_PInv c l : PInv (handshake_complete (init c) l).
Proof.
  unfold handshake_complete, replenish. destruct (replenish_loop _ _ _ _). constructor; cbn.
  - split; [intros _; lia|split; [constructor|]]. intros q [E|[]]. now left.
  - intros _. change (Zlen (@nil Z)) with 0. pose proof limit_pos. lia.
  - tauto.
Qed.

Lemma reach_PInv c l s : reach c l s -> PInv s.
Proof. intros R. induction R; [apply init_PInv|now apply step_PInv]. Qed.

(* ---------------------------------------------------------------- consequences *)
(* dcid_not_retired *)
(* projections of send *)
Lemma send_dcid s b : fst (fst (fst (send s b))) = cur s.
Proof. unfold send. destruct (write_news _ _) as [[? ?] [?|]]; [destruct (write_rets _ _)|]; reflexivity. Qed.
Lemma send_news s b : snd (fst (fst (send s b))) = wn_news (hosts s) b.
Proof. unfold send, wn_news. destruct (write_news _ _) as [[? ?] [?|]]; [destruct (write_rets _ _)|]; reflexivity. Qed.
Lemma send_hosts s b : hosts (snd (send s b)) = wn_hosts (hosts s) b.
Proof. unfold send, wn_hosts. destruct (write_news _ _) as [[? ?] [?|]]; [destruct (write_rets _ _)|]; reflexivity. Qed.
Lemma send_closed s b : closed (snd (send s b)) = closed s.
Proof. unfold send. destruct (write_news _ _) as [[? ?] [?|]]; [destruct (write_rets _ _)|]; reflexivity. Qed.
Lemma send_rets s b :
  match wn_left (hosts s) b with
  | None => snd (fst (send s b)) = [] /\ pend (snd (send s b)) = pend s /\ outs (snd (send s b)) = outs s
  | Some b' => snd (fst (send s b)) = fst (write_rets (pend s) b') /\ pend (snd (send s b)) = snd (write_rets (pend s) b')
               /\ outs (snd (send s b)) = outs s ++ fst (write_rets (pend s) b')
  end.
Proof.
  unfold send, wn_left. destruct (write_news _ _) as [[? ?] [?|]]; cbn [snd]; [destruct (write_rets _ _)|]; cbn; auto.
Qed.

Lemma dcid_not_retired_l c l s b : reach c l s -> closed s = None ->
  rpt s <= cur s /\ Forall (fun q => rpt s <= q) (avail s) /\ rpt s <= fst (fst (fst (send s b))).
Proof.
  intros R Ec. destruct (reach_PInv _ _ _ R) as [[A [B _]] _ _]. specialize (A Ec). rewrite send_dcid. auto.
Qed.

(* the retire_prior_to of an accepted frame is honoured at once *)
Lemma newcid_ok_dcid c l s q r n : reach c l s -> fst (recv_newcid s q r n) = OOk ->
  let s' := snd (recv_newcid s q r n) in r <= rpt s' /\ rpt s' <= cur s' /\ closed s' = None.
Proof.
  intros R Hok. assert (R' : reach c l (snd (step s (RecvNewCid q r n)))) by (apply reach_step; [assumption|exact I]).
  cbn [step] in R'. cbn zeta.
  assert (Hc : closed (snd (recv_newcid s q r n)) = None /\ r <= rpt (snd (recv_newcid s q r n))).
  { revert Hok. unfold recv_newcid. destruct (closed s) eqn:Ec; [cbn; discriminate|]. destruct (pkt s); [|cbn; discriminate].
    destruct (_ || _); [cbn; discriminate|]. destruct (r >? q); [cbn; discriminate|].
    destruct (cur s <? Z.max r (rpt s)).
    - match goal with |- context [match ?a2 with [] => _ | _ => _ end] => destruct a2 as [|a t] end; [cbn; discriminate|].
      destruct (1 + Zlen _ >? _); [cbn; discriminate|]. destruct (Zlen _ >? _); [cbn; discriminate|].
      intros _. cbn [snd closed rpt set_peer]. split; [assumption|lia].
    - destruct (1 + Zlen _ >? _); [cbn; discriminate|]. destruct (Zlen _ >? _); [cbn; discriminate|].
      intros _. cbn [snd closed rpt set_peer]. split; [assumption|lia]. }
  destruct Hc as [Hc Hr]. destruct (dcid_not_retired_l _ _ _ 0 R' Hc) as [A _]. auto.
Qed.

(* a frame that would leave no destination ID closes the connection instead of raising *)
Lemma no_cid_left_closes s q r n d : closed s = None -> pkt s = Some d ->
  (n =? 0) || (n >? CONNECTION_ID_MAX_SIZE) = false -> r <= q ->
  cur s < r -> (forall a, In a (avail s) -> a < r) -> In q (seen s) ->
  fst (recv_newcid s q r n) = OQErr E_PROTOCOL_VIOLATION /\
  closed (snd (recv_newcid s q r n)) = Some E_PROTOCOL_VIOLATION.
Proof.
  intros Ec Ep En Hrq Hc Ha Hs. unfold recv_newcid. rewrite Ec, Ep, En. replace (r >? q) with false by lia.
  replace (cur s <? Z.max r (rpt s)) with true by lia.
  assert (E : filter (fun c => c >=? Z.max r (rpt s)) (avail s) = []).
  { destruct (filter (fun c => c >=? Z.max r (rpt s)) (avail s)) as [|c t] eqn:E; [reflexivity|exfalso].
    assert (H : In c (filter (fun c => c >=? Z.max r (rpt s)) (avail s))) by (rewrite E; now left).
    apply filter_In in H. destruct H as [H1 H2]. apply Ha in H1. lia. }
  rewrite E. apply memz_In in Hs. rewrite Hs. rewrite andb_false_r. cbn. auto.
Qed.

(* peer_ids_bounded *)
Lemma peer_ids_bounded_l c l s : reach c l s -> closed s = None ->
  1 + Zlen (avail s) <= LOCAL_ACTIVE_CID_LIMIT.
Proof. intros R. exact (pi_bound _ (reach_PInv _ _ _ R)). Qed.

Lemma newcid_ok_bounds s q r n : fst (recv_newcid s q r n) = OOk ->
  1 + Zlen (avail (snd (recv_newcid s q r n))) <= LOCAL_ACTIVE_CID_LIMIT /\
  Zlen (pend (snd (recv_newcid s q r n))) <= Z.min (LOCAL_ACTIVE_CID_LIMIT * PENDING_RETIRES_FACTOR) MAX_PENDING_RETIRES.
Proof.
  unfold recv_newcid.
  destruct (closed s); [cbn; discriminate|]. destruct (pkt s); [|cbn; discriminate].
  destruct (_ || _); [cbn; discriminate|]. destruct (r >? q); [cbn; discriminate|].
  destruct (cur s <? Z.max r (rpt s)).
  - match goal with |- context [match ?a2 with [] => _ | _ => _ end] => destruct a2 as [|a t] end; [cbn; discriminate|].
    destruct (1 + Zlen t >? _) eqn:E1; [cbn; discriminate|]. destruct (Zlen _ >? _) eqn:E2; [cbn; discriminate|].
    intros _. cbn [snd avail pend set_peer]. lia.
  - match goal with |- context [1 + Zlen ?a2 >? _] => destruct (1 + Zlen a2 >? LOCAL_ACTIVE_CID_LIMIT) eqn:E1 end; [cbn; discriminate|].
    destruct (Zlen _ >? _) eqn:E2; [cbn; discriminate|]. intros _. cbn [snd avail pend set_peer]. lia.
Qed.

Lemma newcid_over_limit_is_error s q r n : closed s = None ->
  LOCAL_ACTIVE_CID_LIMIT < 1 + Zlen (avail (snd (recv_newcid s q r n))) ->
  fst (recv_newcid s q r n) = OIgn \/ exists code, fst (recv_newcid s q r n) = OQErr code.
Proof.
  intros Ec. unfold recv_newcid. rewrite Ec. destruct (pkt s); [|now left].
  destruct (_ || _); [right; eexists; reflexivity|]. destruct (r >? q); [right; eexists; reflexivity|].
  destruct (cur s <? Z.max r (rpt s)).
  - match goal with |- context [match ?a2 with [] => _ | _ => _ end] => destruct a2 as [|a t] end; [right; eexists; reflexivity|].
    destruct (1 + Zlen t >? _) eqn:E1; [right; eexists; reflexivity|]. destruct (Zlen _ >? _) eqn:E2; [right; eexists; reflexivity|].
    cbn [snd avail set_peer]. lia.
  - match goal with |- context [1 + Zlen ?a2 >? _] => destruct (1 + Zlen a2 >? LOCAL_ACTIVE_CID_LIMIT) eqn:E1 end; [right; eexists; reflexivity|].
    destruct (Zlen _ >? _) eqn:E2; [right; eexists; reflexivity|]. cbn [snd avail set_peer]. lia.
Qed.

(* issued_bounded / retired_replaced *)
Lemma issued_bounded_l c l s : 1 <= l -> reach c l s ->
  Zlen (hosts s) = Z.min REPLENISH_CAP l /\ Zlen (hosts s) <= l.
Proof. intros Hl R. pose proof (hi_count _ _ (reach_HInv _ _ _ Hl R)). lia. Qed.

Lemma unsent_nil_all_sent hs : unsent hs = [] -> Forall (fun h => h_sent h = true) hs.
Proof.
  unfold unsent. induction hs as [|h t IH]; cbn [filter]; [constructor|].
  destruct (h_sent h) eqn:E; cbn [negb map]; [|discriminate]. intros H. constructor; [assumption|now apply IH].
Qed.

Lemma unsent_are_announced s h b : closed s = None -> In h (hosts s) -> h_sent h = false ->
  Zlen (unsent (hosts s)) <= b ->
  In (h_seq h) (snd (fst (fst (send s b)))) /\ Forall (fun h' => h_sent h' = true) (hosts (snd (send s b))).
Proof.
  intros _ Hin Hs Hb. destruct (wn_enough _ _ Hb) as [_ [A B]]. rewrite send_news, send_hosts, A. split.
  - unfold unsent. apply in_map. apply filter_In. split; [assumption|]. now rewrite Hs.
  - now apply unsent_nil_all_sent.
Qed.

Lemma replenish_loop_seqs fuel : forall hs next target x,
  In x (hseqs (fst (replenish_loop fuel hs next target))) -> In x (hseqs hs) \/ next <= x.
Proof.
  induction fuel as [|f IH]; intros hs next target x; cbn [replenish_loop]; [cbn; tauto|].
  destruct (Zlen hs <? target); [|cbn; tauto]. intros H. apply IH in H. unfold hseqs in *. rewrite map_app in H.
  destruct H as [H|H]; [|right; lia]. apply in_app_or in H. destruct H as [H|[H|[]]]; [tauto|]. cbn in H. right. lia.
Qed.

Lemma retired_not_accepted c l s q : 1 <= l -> reach c l s ->
  fst (step s (RecvRetire q)) = OOk ->
  has_host q (hosts (snd (step s (RecvRetire q)))) = false.
Proof.
  intros Hl R. pose proof (hi_good _ _ (reach_HInv _ _ _ Hl R)) as G. cbn [step]. unfold recv_retire.
  destruct (closed s); [cbn; discriminate|]. destruct (pkt s); [|cbn; discriminate].
  destruct ((q >=? hseq s) || _) eqn:E1; [cbn; discriminate|]. destruct (_ && _); [cbn; discriminate|]. intros _.
  apply orb_false_elim in E1. destruct E1 as [E1 _].
  cbn [snd]. unfold replenish. cbn [hosts hseq rlimit set_host].
  destruct (hgood_del q _ _ G) as [_ NI].
  pose proof (replenish_loop_seqs (Z.to_nat (Z.min REPLENISH_CAP (rlimit s))) (del_host q (hosts s)) (hseq s)
                (Z.min REPLENISH_CAP (rlimit s)) q) as S.
  destruct (replenish_loop _ _ _ _) as [hs next]. cbn [fst] in S. cbn [hosts set_host].
  destruct (has_host q hs) eqn:E; [|reflexivity]. apply has_host_In in E. destruct (S E); [tauto|lia].
Qed.

(* issued_accepted *)
Lemma issued_accepted_l s h : closed s = None -> In h (hosts s) -> fst (recv_packet s (h_seq h)) = OOk.
Proof.
  intros Ec Hin. unfold recv_packet. rewrite Ec.
  assert (E : has_host (h_seq h) (hosts s) = true) by (apply has_host_In; unfold hseqs; now apply in_map).
  rewrite E. rewrite andb_false_r. reflexivity.
Qed.

(* retirement_announced, for every sequence number received in a well-formed frame *)
Lemma retirement_announced_l c l s q : reach c l s -> In q (recvd s) ->
  q = cur s \/ In q (avail s) \/ In q (pend s) \/ In q (outs s) \/ In q (ackd s).
Proof. intros R H. destruct (reach_PInv _ _ _ R) as [[_ [_ C]] _ Rc]. apply C. now apply Rc. Qed.

Lemma lost_requeued s q : In q (pend (retire_delivery s q false)).
Proof. cbn. apply in_or_app. right. now left. Qed.

(* whatever the builder accepts: the pending list is split, in order, into the frames written (now outstanding)
   and the retirements still pending -- a refused frame loses nothing *)
Lemma refused_stays_pending s b :
  pend s = snd (fst (send s b)) ++ pend (snd (send s b)) /\ outs (snd (send s b)) = outs s ++ snd (fst (send s b)).
Proof.
  pose proof (send_rets s b) as H. destruct (wn_left (hosts s) b) as [b'|].
  - destruct H as [A [B C]]. rewrite A, B, C. split; [apply write_rets_split|reflexivity].
  - destruct H as [A [B C]]. rewrite A, B, C. now rewrite app_nil_r.
Qed.

(* a budget that covers everything owed: every pending retirement is written *)
Lemma pending_all_written s b : closed s = None -> Zlen (unsent (hosts s)) + Zlen (pend s) <= b ->
  snd (fst (send s b)) = pend s /\ pend (snd (send s b)) = [] /\ forall q, In q (pend s) -> In q (outs (snd (send s b))).
Proof.
  intros _ Hb. pose proof (zlen_nonneg (pend s)) as Np.
  assert (Hu : Zlen (unsent (hosts s)) <= b) by lia. destruct (wn_enough _ _ Hu) as [L _].
  pose proof (send_rets s b) as H. rewrite L in H. destruct H as [A [B C]].
  pose proof (write_rets_split (pend s) (b - Zlen (unsent (hosts s)))) as Sp.
  pose proof (write_rets_len (pend s) (b - Zlen (unsent (hosts s)))) as Ln.
  assert (E : snd (write_rets (pend s) (b - Zlen (unsent (hosts s)))) = []).
  { apply zlen_zero_nil. apply (f_equal Zlen) in Sp. rewrite zlen_app in Sp. lia. }
  rewrite E, app_nil_r in Sp. rewrite A, B, C, E, <- Sp. repeat split. intros q Hq. apply in_or_app. now right.
Qed.

(* whenever the builder still accepts a frame after the owed NEW_CONNECTION_ID frames, the OLDEST pending
   retirement is written *)
Lemma oldest_pending_written s b q t : closed s = None -> pend s = q :: t -> Zlen (unsent (hosts s)) < b ->
  exists w, snd (fst (send s b)) = q :: w.
Proof.
  intros _ Hp Hb. assert (Hu : Zlen (unsent (hosts s)) <= b) by lia. destruct (wn_enough _ _ Hu) as [L _].
  pose proof (send_rets s b) as H. rewrite L in H. destruct H as [A _]. rewrite A, Hp.
  apply write_rets_head. lia.
Qed.

(* progress: the number of CID frames owed shrinks by exactly what the builder accepts *)
Definition owed (s : st) : Z := Zlen (unsent (hosts s)) + Zlen (pend s).

Lemma send_progress s b :
  Zlen (snd (fst (fst (send s b)))) + Zlen (snd (fst (send s b))) = Z.min (Z.max 0 b) (owed s) /\
  owed (snd (send s b)) = owed s - Z.min (Z.max 0 b) (owed s).
Proof.
  unfold owed. rewrite send_news, send_hosts.
  pose proof (wn_left_spec (hosts s) b) as L. pose proof (wn_unsent_split (hosts s) b) as Sp.
  pose proof (wn_news_len (hosts s) b) as Nl. pose proof (send_rets s b) as H.
  apply (f_equal Zlen) in Sp. rewrite zlen_app in Sp.
  pose proof (zlen_nonneg (pend s)). pose proof (zlen_nonneg (wn_news (hosts s) b)).
  pose proof (zlen_nonneg (unsent (wn_hosts (hosts s) b))).
  destruct (wn_left (hosts s) b) as [b'|].
  - destruct L as [A B]. destruct H as [R1 [R2 R3]]. rewrite R1, R2, A in *. change (Zlen (@nil Z)) with 0 in *.
    pose proof (write_rets_split (pend s) b') as Sr. pose proof (write_rets_len (pend s) b') as Lr.
    apply (f_equal Zlen) in Sr. rewrite zlen_app in Sr.
    pose proof (zlen_nonneg (snd (write_rets (pend s) b'))). lia.
  - destruct L as [A B]. destruct H as [R1 [R2 R3]]. rewrite R1, R2. change (Zlen (@nil Z)) with 0.
    assert (1 <= Zlen (unsent (wn_hosts (hosts s) b))).
    { destruct (unsent (wn_hosts (hosts s) b)); [congruence|]. rewrite zlen_cons. pose proof (zlen_nonneg l). lia. }
    lia.
Qed.

(* liveness in the fair phase: once every datagrams_to_send() call accepts at least one frame (window open),
   as many calls as there are owed frames leave no NEW_CONNECTION_ID owed and no retirement pending *)
Lemma fair_sends_drain bs : forall s, closed s = None -> Forall (fun b => 1 <= b) bs -> owed s <= Zlen bs ->
  pend (run s (map Send bs)) = [] /\ unsent (hosts (run s (map Send bs))) = [].
Proof.
  induction bs as [|b bs IH]; intros s Ec F Ho; cbn [map run].
  - change (Zlen (@nil Z)) with 0 in Ho. unfold owed in Ho.
    pose proof (zlen_nonneg (pend s)). pose proof (zlen_nonneg (unsent (hosts s))).
    split; apply zlen_zero_nil; lia.
  - inversion F; subst. cbn [step]. rewrite Ec. cbn [snd]. apply IH; [now rewrite send_closed|assumption|].
    destruct (send_progress s b) as [_ P]. rewrite P. rewrite zlen_cons in Ho. pose proof (zlen_nonneg bs).
    unfold owed in *. pose proof (zlen_nonneg (pend s)). pose proof (zlen_nonneg (unsent (hosts s))). lia.
Qed.

(* ConnectionIdRetired only after ConnectionIdIssued *)
Lemma retired_after_issued_l c l s q : 1 <= l -> reach c l s -> In q (retiredev s) -> In q (issued s).
Proof. intros Hl R. exact (hi_retired _ _ (reach_HInv _ _ _ Hl R) q). Qed.

Lemma retire_never_sent_is_error s q d h : closed s = None -> pkt s = Some d ->
  In h (hosts s) -> h_seq h = q -> h_sent h = false -> hsent s < q ->
  fst (recv_retire s q) = OQErr E_PROTOCOL_VIOLATION /\ hosts (snd (recv_retire s q)) = hosts s.
Proof.
  intros Ec Ep Hin Eq Hs Hm. unfold recv_retire. rewrite Ec, Ep.
  assert (N : never_sent q (hosts s) (hsent s) = true).
  { unfold never_sent. apply existsb_exists. exists h. split; [assumption|]. rewrite Hs. cbn. lia. }
  rewrite N, orb_true_r. cbn. auto.
Qed.

(* ---------------------------------------------------------------- the former counterexamples (docs/C18.md F1-F3) *)
Definition start (c : bool) (l : Z) : st := handshake_complete (init c) l.

Definition w_exn : list op :=
  [RecvPacket 0; RecvNewCid 2 0 8; RecvNewCid 1 0 8; PacketDone; LocalChange; LocalChange; Send 100;
   RecvPacket 0; RecvNewCid 2 2 8].
Example former_f1 : closed (run (start true 8) w_exn) = Some E_PROTOCOL_VIOLATION.
Proof. vm_compute. reflexivity. Qed.

Definition w_late : list op :=
  [RecvPacket 0; RecvNewCid 2 2 8; PacketDone; Send 100; RecvPacket 0; RecvNewCid 1 0 8; PacketDone].
Example former_f2 : let s := run (start true 8) w_late in closed s = None /\ cur s = 2 /\ pend s = [1] /\ outs s = [0].
Proof. vm_compute. repeat split. Qed.

Definition w_unsent : list op := [Send 100; RecvPacket 0; RecvRetire 1; RecvRetire 8].
Example former_f3 : let s := run (start false 8) w_unsent in
  closed s = Some E_PROTOCOL_VIOLATION /\ retiredev s = [1] /\ In 1 (issued s).
Proof. vm_compute. repeat split. tauto. Qed.

Example reach_nontrivial : exists s, reach true 8 s /\ cur s = 2 /\ rpt s = 2 /\ pend s = [] /\ outs s = [0].
Proof.
  exists (run (start true 8) [RecvPacket 0; RecvNewCid 2 2 8; PacketDone; Send 100]). split.
  - apply reach_run; [reflexivity|constructor].
  - vm_compute. repeat split.
Qed.

(* the builder refuses the RETIRE_CONNECTION_ID frame twice (budget 7 = the seven owed NEW_CONNECTION_ID frames, then
   budget 0): the retirement of ID 0 stays pending, and is written by the first call that accepts one more frame *)
Example refused_frame_keeps_retirement :
  let s := run (start true 8) [RecvPacket 0; RecvNewCid 2 2 8; PacketDone; Send 7; Send 0] in
  reach true 8 s /\ cur s = 2 /\ pend s = [0] /\ outs s = [] /\ unsent (hosts s) = [] /\
  pend (run s [Send 1]) = [] /\ outs (run s [Send 1]) = [0].
Proof.
  split; [apply reach_run; [reflexivity|constructor]|]. vm_compute. repeat split.
Qed.

(* a budget that stops inside the NEW_CONNECTION_ID loop: three IDs announced, four still flagged unsent *)
Example partial_budget_news :
  let s := run (start true 8) [Send 3] in unsent (hosts s) = [4; 5; 6; 7] /\ hsent s = 3 /\ issued s = [0; 1; 2; 3].
Proof. vm_compute. repeat split. Qed.
