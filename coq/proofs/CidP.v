(* Invariants of the connection-ID bookkeeping model (model/Cid.v) over ALL op sequences. *)
From Coq Require Import ZArith List Bool Lia ZifyBool.
From AQ Require Import lib.Base gen.C18Consts model.Cid.

(* ---------------------------------------------------------------- small list facts *)
Lemma zlen_nonneg {A} (l : list A) : 0 <= Zlen l.
Proof. unfold Zlen; lia. Qed.
Lemma zlen_app {A} (l1 l2 : list A) : Zlen (l1 ++ l2) = Zlen l1 + Zlen l2.
Proof. unfold Zlen; rewrite app_length; lia. Qed.
Lemma zlen_cons {A} (a : A) (l : list A) : Zlen (a :: l) = 1 + Zlen l.
Proof. unfold Zlen; cbn [length]; lia. Qed.
Lemma zlen_map {A B} (f : A -> B) (l : list A) : Zlen (map f l) = Zlen l.
Proof. unfold Zlen; now rewrite map_length. Qed.
Lemma zlen_filter_le {A} (f : A -> bool) (l : list A) : Zlen (filter f l) <= Zlen l.
Proof. induction l as [|a l IH]; cbn [filter]; [lia|]. destruct (f a); rewrite ?zlen_cons; lia. Qed.

Lemma memz_In x l : memz x l = true <-> In x l.
Proof.
  unfold memz. rewrite existsb_exists. split.
  - intros [y [Hy E]]. apply Z.eqb_eq in E. now subst.
  - intros H. exists x. split; [assumption|apply Z.eqb_refl].
Qed.

Lemma remove1_In x y l : In y (remove1 x l) -> In y l.
Proof.
  induction l as [|a l IH]; cbn [remove1]; [tauto|]. destruct (x =? a); cbn [In]; tauto.
Qed.
Lemma In_remove1 x y l : In y l -> y = x \/ In y (remove1 x l).
Proof.
  induction l as [|a l IH]; cbn [remove1 In]; [tauto|]. intros [E|H].
  - subst a. destruct (x =? y) eqn:E; [left; lia|right; now left].
  - destruct (x =? a) eqn:E; [tauto|]. cbn [In]. tauto.
Qed.

(* ---------------------------------------------------------------- reachable states *)
(* legitimate environment: the handshake completes once (before any 1-RTT traffic); a RETIRE delivery outcome
   refers to a frame that is really outstanding (premise discharged by C08: callbacks at most once per frame) *)
Definition legit (s : st) (o : op) : Prop :=
  match o with
  | Handshake _ => False
  | RetireDelivery q _ => In q (outs s)
  | _ => True
  end.

(* reach c l s: s is reachable for role c and peer limit l *)
Inductive reach (c : bool) (l : Z) : st -> Prop :=
| reach_init : reach c l (handshake_complete (init c) l)
| reach_step s o : reach c l s -> legit s o -> reach c l (snd (step s o)).

Definition plain (o : op) : bool :=
  match o with Handshake _ | RetireDelivery _ _ => false | _ => true end.

Lemma reach_run c l ops : forallb plain ops = true -> forall s, reach c l s -> reach c l (run s ops).
Proof.
  induction ops as [|o ops IH]; cbn [forallb run]; intros H s R; [exact R|].
  apply andb_prop in H. destruct H as [Ho H]. apply IH; [assumption|].
  apply reach_step; [exact R|]. destruct o; cbn in *; try tauto; discriminate.
Qed.

(* ---------------------------------------------------------------- locally issued IDs *)
Lemma replenish_loop_len fuel : forall hs next target,
  Zlen hs <= target -> target - Zlen hs <= Z.of_nat fuel ->
  Zlen (fst (replenish_loop fuel hs next target)) = target.
Proof.
  induction fuel as [|f IH]; intros hs next target H1 H2; cbn [replenish_loop].
  - cbn [fst]. lia.
  - destruct (Zlen hs <? target) eqn:E; cbn [fst]; [|lia].
    apply IH; rewrite zlen_app, zlen_cons; change (Zlen (@nil hcid)) with 0; lia.
Qed.

Lemma replenish_loop_noop fuel hs next target :
  target <= Zlen hs -> replenish_loop fuel hs next target = (hs, next).
Proof. destruct fuel; cbn [replenish_loop]; [reflexivity|]. intros H. destruct (Zlen hs <? target) eqn:E; [lia|reflexivity]. Qed.

(* host IDs: pairwise distinct sequence numbers, all below _host_cid_seq *)
Definition hseqs (hs : list hcid) : list Z := map h_seq hs.
Definition hgood (hs : list hcid) (next : Z) : Prop := NoDup (hseqs hs) /\ Forall (fun q => q < next) (hseqs hs).

Lemma nodup_snoc (l : list Z) a : NoDup l -> ~ In a l -> NoDup (l ++ [a]).
Proof.
  induction l as [|b l IH]; cbn [app]; intros N H.
  - constructor; [tauto|constructor].
  - inversion N; subst. constructor.
    + rewrite in_app_iff. cbn [In]. intros [?|[?|[]]]; [tauto|]. subst. apply H. now left.
    + apply IH; [assumption|]. intros ?. apply H. now right.
Qed.

Lemma hgood_snoc hs next : hgood hs next -> hgood (hs ++ [mkH next false]) (next + 1).
Proof.
  intros [N B]. unfold hgood, hseqs in *. rewrite map_app. cbn [map h_seq]. split.
  - apply nodup_snoc; [assumption|]. intros H. rewrite Forall_forall in B. apply B in H. lia.
  - apply Forall_app. split; [|repeat constructor; lia]. eapply Forall_impl; [|exact B]. cbn. intros; lia.
Qed.

Lemma replenish_loop_good fuel : forall hs next target,
  hgood hs next -> hgood (fst (replenish_loop fuel hs next target)) (snd (replenish_loop fuel hs next target)).
Proof.
  induction fuel as [|f IH]; intros hs next target G; cbn [replenish_loop]; [exact G|].
  destruct (Zlen hs <? target); [|exact G]. apply IH. now apply hgood_snoc.
Qed.

Lemma hseqs_del_incl q hs x : In x (hseqs (del_host q hs)) -> In x (hseqs hs).
Proof.
  unfold hseqs. induction hs as [|h t IH]; cbn [del_host map]; [tauto|].
  destruct (h_seq h =? q); cbn [map In]; tauto.
Qed.

Lemma hgood_del q hs next : hgood hs next -> hgood (del_host q hs) next /\ ~ In q (hseqs (del_host q hs)).
Proof.
  unfold hgood, hseqs. intros [N B]. induction hs as [|h t IH]; cbn [del_host map] in *.
  - repeat split; [constructor|constructor|tauto].
  - inversion N; subst. inversion B; subst. destruct (h_seq h =? q) eqn:E.
    + repeat split; [assumption|assumption|]. assert (h_seq h = q) by lia. subst q. assumption.
    + destruct (IH H2 H4) as [[N' B'] NI]. cbn [map]. repeat split.
      * constructor; [|assumption]. intros H. apply H1. now apply (hseqs_del_incl q t).
      * constructor; assumption.
      * cbn [In]. intros [?|?]; [lia|tauto].
Qed.

Lemma zlen_del_host q hs : has_host q hs = true -> Zlen (del_host q hs) = Zlen hs - 1.
Proof.
  unfold has_host. induction hs as [|h t IH]; cbn [existsb del_host]; [discriminate|].
  destruct (h_seq h =? q) eqn:E; cbn [orb]; rewrite ?zlen_cons; [lia|]. intros H. rewrite IH by assumption. lia.
Qed.
Lemma del_host_absent q hs : has_host q hs = false -> del_host q hs = hs.
Proof.
  unfold has_host. induction hs as [|h t IH]; cbn [existsb del_host]; [reflexivity|].
  destruct (h_seq h =? q) eqn:E; cbn [orb]; [discriminate|]. intros H. now rewrite IH.
Qed.
Lemma has_host_In q hs : has_host q hs = true <-> In q (hseqs hs).
Proof.
  unfold has_host, hseqs. rewrite existsb_exists, in_map_iff. split.
  - intros [h [H E]]. exists h. split; [lia|assumption].
  - intros [h [E H]]. exists h. split; [assumption|lia].
Qed.

(* host-side invariant *)
Lemma del_host_In q hs h : In h (del_host q hs) -> In h hs.
Proof.
  induction hs as [|a t IH]; cbn [del_host]; [tauto|]. destruct (h_seq a =? q); cbn [In]; tauto.
Qed.

Lemma replenish_loop_hosts fuel : forall hs next target h,
  In h (fst (replenish_loop fuel hs next target)) -> In h hs \/ (h_sent h = false /\ next <= h_seq h).
Proof.
  induction fuel as [|f IH]; intros hs next target h; cbn [replenish_loop]; [cbn; tauto|].
  destruct (Zlen hs <? target); [|cbn; tauto]. intros H. apply IH in H. destruct H as [H|[H1 H2]]; [|right; split; [assumption|lia]].
  apply in_app_or in H. destruct H as [H|[H|[]]]; [tauto|]. subst h. cbn. right. split; [reflexivity|lia].
Qed.

Lemma replenish_loop_next fuel : forall hs next target, next <= snd (replenish_loop fuel hs next target).
Proof.
  induction fuel as [|f IH]; intros hs next target; cbn [replenish_loop]; [cbn; lia|].
  destruct (Zlen hs <? target); [|cbn; lia]. specialize (IH (hs ++ [mkH next false]) (next + 1) target). lia.
Qed.

Lemma fold_max_ge l : forall m, m <= fold_left Z.max l m /\ (forall x, In x l -> x <= fold_left Z.max l m).
Proof.
  induction l as [|a l IH]; intros m; cbn [fold_left]; [split; [lia|intros x []]|].
  destruct (IH (Z.max m a)) as [A B]. split; [lia|]. intros x [E|H]; [subst; lia|auto].
Qed.
Lemma fold_max_lt l n : forall m, m < n -> Forall (fun x => x < n) l -> fold_left Z.max l m < n.
Proof.
  induction l as [|a l IH]; intros m Hm F; cbn [fold_left]; [assumption|]. inversion F; subst. apply IH; [lia|assumption].
Qed.

(* host-side invariant *)
Record HInv (l : Z) (s : st) : Prop := {
  hi_limit : rlimit s = l;
  hi_count : Zlen (hosts s) = Z.min REPLENISH_CAP l;
  hi_good : hgood (hosts s) (hseq s);
  hi_mark : hsent s < hseq s;
  hi_issued : forall h, In h (hosts s) -> h_sent h = true \/ h_seq h <= hsent s -> In (h_seq h) (issued s);
  hi_retired : forall q, In q (retiredev s) -> In q (issued s)
}.

Lemma replenish_HInv l s : 1 <= l -> rlimit s = l -> Zlen (hosts s) <= Z.min REPLENISH_CAP l ->
  hgood (hosts s) (hseq s) -> hsent s < hseq s ->
  (forall h, In h (hosts s) -> h_sent h = true \/ h_seq h <= hsent s -> In (h_seq h) (issued s)) ->
  (forall q, In q (retiredev s) -> In q (issued s)) ->
  HInv l (replenish s).
Proof.
  intros Hl Hr Hc Hg Hm Hi Hrt. unfold replenish. rewrite Hr.
  pose proof (replenish_loop_len (Z.to_nat (Z.min REPLENISH_CAP l)) (hosts s) (hseq s) (Z.min REPLENISH_CAP l)) as L.
  pose proof (replenish_loop_good (Z.to_nat (Z.min REPLENISH_CAP l)) (hosts s) (hseq s) (Z.min REPLENISH_CAP l) Hg) as G.
  pose proof (replenish_loop_hosts (Z.to_nat (Z.min REPLENISH_CAP l)) (hosts s) (hseq s) (Z.min REPLENISH_CAP l)) as Hh.
  pose proof (replenish_loop_next (Z.to_nat (Z.min REPLENISH_CAP l)) (hosts s) (hseq s) (Z.min REPLENISH_CAP l)) as Hn.
  destruct (replenish_loop _ _ _ _) as [hs next]. cbn [fst snd] in *.
  constructor; cbn; try assumption.
  - apply L; [assumption|]. pose proof (zlen_nonneg (hosts s)). unfold REPLENISH_CAP in *. lia.
  - lia.
  - intros h Hin Hs. destruct (Hh h Hin) as [H|[H1 H2]]; [now apply Hi|]. destruct Hs as [Hs|Hs]; [congruence|lia].
Qed.

Lemma hgood_map_sent f hs next : (forall h, h_seq (f h) = h_seq h) -> hgood hs next -> hgood (map f hs) next.
Proof.
  intros Hf. unfold hgood, hseqs. rewrite map_map.
  replace (map (fun x => h_seq (f x)) hs) with (map h_seq hs); [tauto|].
  apply map_ext. intros; now rewrite Hf.
Qed.

Lemma init_HInv c l : 1 <= l -> HInv l (handshake_complete (init c) l).
Proof.
  intros Hl. unfold handshake_complete. apply replenish_HInv; cbn; try assumption; try reflexivity; try lia; try tauto.
  all: try (change (Zlen [mkH 0 true]) with 1; unfold REPLENISH_CAP; lia).
  all: try (unfold hgood, hseqs; cbn; split; [constructor; [tauto|constructor]|repeat constructor; lia]).
  all: try (intros h [E|[]] _; subst h; cbn; now left).
Qed.

Lemma change_cid_host s : hosts (change_cid s) = hosts s /\ hseq (change_cid s) = hseq s /\ rlimit (change_cid s) = rlimit s
  /\ hsent (change_cid s) = hsent s /\ issued (change_cid s) = issued s /\ retiredev (change_cid s) = retiredev s.
Proof. unfold change_cid. destruct (avail s); cbn; repeat split. Qed.

Lemma HInv_same l s s' : HInv l s -> hosts s' = hosts s -> hseq s' = hseq s -> rlimit s' = rlimit s ->
  hsent s' = hsent s -> issued s' = issued s -> retiredev s' = retiredev s -> HInv l s'.
Proof. intros [A B C D E F] H1 H2 H3 H4 H5 H6. constructor; rewrite ?H1, ?H2, ?H3, ?H4, ?H5, ?H6; assumption. Qed.

Lemma never_sent_false q hs mark h : never_sent q hs mark = false -> In h hs -> h_seq h = q ->
  h_sent h = true \/ h_seq h <= mark.
Proof.
  unfold never_sent. intros N Hin E. destruct (h_sent h) eqn:Es; [now left|right].
  destruct (h_seq h >? mark) eqn:Em; [|lia]. exfalso.
  assert (X : existsb (fun h0 => (h_seq h0 =? q) && negb (h_sent h0) && (h_seq h0 >? mark)) hs = true).
  { apply existsb_exists. exists h. split; [assumption|]. rewrite Es, Em. cbn. rewrite andb_true_r. lia. }
  congruence.
Qed.

Lemma step_HInv l s o : 1 <= l -> HInv l s -> legit s o -> HInv l (snd (step s o)).
Proof.
  intros Hl I Lg. pose proof I as [H1 H2 H3 H4 H5 H6]. destruct o; cbn [step legit] in *; try tauto.
  - (* RecvPacket *) unfold recv_packet. destruct (closed s); cbn [snd]; [assumption|].
    destruct (is_client s && negb (has_host d (hosts s))); cbn [snd]; eapply HInv_same; try exact I; reflexivity.
  - (* RecvNewCid *) unfold recv_newcid.
    repeat match goal with |- context [match ?x with _ => _ end] => destruct x end; cbn [snd];
      try assumption; eapply HInv_same; try exact I; reflexivity.
  - (* RecvRetire *) unfold recv_retire.
    destruct (closed s); [assumption|]. destruct (pkt s); [|assumption].
    destruct ((q >=? hseq s) || never_sent q (hosts s) (hsent s)) eqn:E0; [cbn [snd]; eapply HInv_same; try exact I; reflexivity|].
    destruct (has_host q (hosts s) && (q =? z)); [cbn [snd]; eapply HInv_same; try exact I; reflexivity|]. cbn [snd].
    apply orb_false_elim in E0. destruct E0 as [E0 E1].
    apply replenish_HInv; cbn; try assumption.
    + destruct (has_host q (hosts s)) eqn:E; [rewrite zlen_del_host by assumption; lia|rewrite del_host_absent by assumption; lia].
    + now apply hgood_del.
    + intros h Hin. apply H5. now apply (del_host_In q).
    + intros q0 Hq. destruct (has_host q (hosts s)) eqn:E; [|now apply H6].
      apply in_app_or in Hq. destruct Hq as [Hq|[Hq|[]]]; [now apply H6|]. subst q0.
      apply has_host_In in E. unfold hseqs in E. apply in_map_iff in E. destruct E as [h [Eh Hin]].
      rewrite <- Eh. apply H5; [assumption|]. eapply never_sent_false; eassumption.
  - (* PacketDone *) unfold packet_done. destruct (closed s); [cbn [snd]; eapply HInv_same; try exact I; reflexivity|].
    destruct (pkt s); [|cbn [snd]; eapply HInv_same; try exact I; reflexivity].
    destruct (negb (is_client s) && negb (z =? hcur s)); cbn [snd]; [|eapply HInv_same; try exact I; reflexivity].
    destruct (change_cid_host s) as [A [B [C [D [E F]]]]]. eapply HInv_same; try exact I; cbn; assumption.
  - (* LocalChange *) destruct (change_cid_host s) as [A [B [C [D [E F]]]]]. eapply HInv_same; try exact I; cbn; assumption.
  - (* Send *) destruct (closed s); cbn [snd]; [assumption|]. unfold send. cbn [snd].
    set (news := map h_seq (filter (fun h => negb (h_sent h)) (hosts s))).
    assert (Fn : Forall (fun x => x < hseq s) news).
    { apply Forall_forall. intros x Hx. unfold news in Hx. apply in_map_iff in Hx. destruct Hx as [h [E Hh]].
      apply filter_In in Hh. destruct Hh as [Hh _]. destruct H3 as [_ B]. rewrite Forall_forall in B. apply B.
      unfold hseqs. subst x. now apply in_map. }
    constructor; cbn; try assumption.
    + now rewrite zlen_map.
    + apply hgood_map_sent; [reflexivity|assumption].
    + now apply fold_max_lt.
    + intros h Hin _. apply in_map_iff in Hin. destruct Hin as [h0 [E Hin]]. subst h. cbn.
      apply in_or_app. destruct (h_sent h0) eqn:Es; [left; apply H5; auto|right].
      unfold news. apply in_map. apply filter_In. split; [assumption|now rewrite Es].
    + intros q Hq. apply in_or_app. left. now apply H6.
  - (* RetireDelivery *) unfold retire_delivery. destruct acked; cbn [snd]; eapply HInv_same; try exact I; reflexivity.
  - (* NewCidDelivery *) unfold newcid_delivery. destruct acked; cbn [snd]; [assumption|].
    constructor; cbn; try assumption; [now rewrite zlen_map| |].
    + apply hgood_map_sent; [|assumption]. intros h. destruct (h_seq h =? q) eqn:E; cbn; lia.
    + intros h Hin Hs. apply in_map_iff in Hin. destruct Hin as [h0 [E Hin]].
      destruct (h_seq h0 =? q) eqn:Eq.
      * subst h. cbn in *. destruct Hs as [Hs|Hs]; [discriminate|]. replace q with (h_seq h0) by lia.
        apply H5; [assumption|]. right. lia.
      * subst h. now apply H5.
Qed.

Lemma reach_HInv c l s : 1 <= l -> reach c l s -> HInv l s.
Proof. intros Hl R. induction R; [now apply init_HInv|now apply step_HInv]. Qed.

(* ---------------------------------------------------------------- peer-issued IDs *)
Definition pcore (cl : option Z) (cur : Z) (avail seen : list Z) (rpt : Z) (pend outs ackd : list Z) : Prop :=
  (cl = None -> rpt <= cur) /\
  Forall (fun q => rpt <= q) avail /\
  (forall q, In q seen -> q = cur \/ In q avail \/ In q pend \/ In q outs \/ In q ackd).

Record PInv (s : st) : Prop := {
  pi_core : pcore (closed s) (cur s) (avail s) (seen s) (rpt s) (pend s) (outs s) (ackd s);
  pi_bound : closed s = None -> 1 + Zlen (avail s) <= LOCAL_ACTIVE_CID_LIMIT;
  pi_recvd : forall q, In q (recvd s) -> In q (seen s)
}.

Section NewCid.
  Variables (cl0 : option Z) (cur0 : Z) (avail0 seen0 : list Z) (rpt0 : Z) (pend0 outs0 ackd0 : list Z) (q r : Z).
  Local Notation rpt' := (Z.max r rpt0).
  Local Notation change := (cur0 <? rpt').
  Local Notation retire0 := (filter (fun c => c <? rpt') avail0).
  Local Notation avail1 := (filter (fun c => c >=? rpt') avail0).
  Local Notation fresh := ((q >=? rpt') && negb (memz q seen0)).
  Local Notation late := ((q <? rpt') && negb (memz q seen0)).
  Local Notation retire := ((if change then cur0 :: retire0 else retire0) ++ (if late then [q] else [])).
  Local Notation avail2 := (if fresh then avail1 ++ [q] else avail1).
  Local Notation seen2 := (if memz q seen0 then seen0 else seen0 ++ [q]).
  Local Notation pend' := (pend0 ++ retire).
  Hypothesis P : pcore cl0 cur0 avail0 seen0 rpt0 pend0 outs0 ackd0.

  Lemma nc_avail2 : Forall (fun c => rpt' <= c) avail2.
  Proof.
    assert (A1 : Forall (fun c => rpt' <= c) avail1).
    { apply Forall_forall. intros c Hc. apply filter_In in Hc. lia. }
    destruct fresh eqn:F; [|exact A1]. apply Forall_app. split; [exact A1|].
    repeat constructor. lia.
  Qed.

  Lemma nc_q_seen2 : In q seen2.
  Proof.
    destruct (memz q seen0) eqn:E; [now apply memz_In|]. apply in_or_app. right. now left.
  Qed.

  Lemma nc_acct c : In c seen2 ->
    (c = cur0 /\ change = false) \/ In c avail2 \/ In c pend' \/ In c outs0 \/ In c ackd0.
  Proof.
    destruct P as [_ [_ A]]. intros Hc.
    assert (Hold : In c seen0 -> (c = cur0 /\ change = false) \/ In c avail2 \/ In c pend' \/ In c outs0 \/ In c ackd0).
    { intros H0. destruct (A c H0) as [E|[H|[H|[H|H]]]]; try tauto.
      - destruct change eqn:Ech; [|tauto]. right; right; left.
        apply in_or_app. right. apply in_or_app. left. left. congruence.
      - destruct (c >=? rpt') eqn:Ec.
        + right; left. assert (In c avail1) by (apply filter_In; split; [assumption|lia]).
          destruct fresh; [apply in_or_app; now left|assumption].
        + right; right; left. apply in_or_app. right. apply in_or_app. left.
          assert (In c retire0) by (apply filter_In; split; [assumption|lia]).
          destruct change; [now right|assumption].
      - right; right; left. apply in_or_app. now left. }
    destruct (memz q seen0) eqn:M; [now apply Hold|].
    apply in_app_or in Hc. destruct Hc as [H0|[E|[]]]; [now apply Hold|]. subst c.
    destruct (q >=? rpt') eqn:Eq.
    - right; left. cbn [andb negb]. apply in_or_app. right. now left.
    - right; right; left. replace (q <? rpt') with true by lia. cbn [andb negb].
      apply in_or_app. right. apply in_or_app. right. now left.
  Qed.

  Lemma nc_nochange cl : change = false -> pcore cl cur0 avail2 seen2 rpt' pend' outs0 ackd0.
  Proof.
    intros Ech. split; [|split].
    - intros _. lia.
    - exact nc_avail2.
    - intros c Hc. destruct (nc_acct c Hc) as [[E _]|H]; tauto.
  Qed.

  Lemma nc_change cl a t : change = true -> avail2 = a :: t -> pcore cl a t seen2 rpt' pend' outs0 ackd0.
  Proof.
    intros Ech Ea. pose proof nc_avail2 as F. rewrite Ea in F. inversion F; subst. split; [|split].
    - intros _. assumption.
    - assumption.
    - intros c Hc. destruct (nc_acct c Hc) as [[_ E]|[H|H]]; [congruence| |tauto].
      rewrite Ea in H. destruct H; [left; congruence|tauto].
  Qed.

  Lemma nc_stranded e : change = true -> avail2 = [] -> pcore (Some e) cur0 [] seen2 rpt' pend' outs0 ackd0.
  Proof.
    intros Ech Ea. split; [|split].
    - discriminate.
    - constructor.
    - intros c Hc. destruct (nc_acct c Hc) as [[_ E]|[H|H]]; [congruence| |tauto]. rewrite Ea in H. destruct H.
  Qed.
End NewCid.

Lemma pcore_close cl e cur avail seen rpt pend outs ackd :
  pcore cl cur avail seen rpt pend outs ackd -> pcore (Some e) cur avail seen rpt pend outs ackd.
Proof. intros [A [B C]]. split; [discriminate|tauto]. Qed.

Lemma PInv_closed s h p e : PInv s -> PInv (set_ctx s h p (Some e)).
Proof. intros [C B R]. constructor; cbn; [eapply pcore_close; exact C|discriminate|exact R]. Qed.
Lemma PInv_ctx s h p : PInv s -> PInv (set_ctx s h p (closed s)).
Proof. intros [C B R]. constructor; cbn; assumption. Qed.
Lemma PInv_ctx_none s h p : closed s = None -> PInv s -> PInv (set_ctx s h p None).
Proof. intros E [C B R]. constructor; cbn; [now rewrite <- E|auto|exact R]. Qed.

Lemma limit_pos : 1 <= LOCAL_ACTIVE_CID_LIMIT.
Proof. unfold LOCAL_ACTIVE_CID_LIMIT. lia. Qed.

Lemma newcid_PInv s q r n : PInv s -> PInv (snd (recv_newcid s q r n)).
Proof.
  intros P. pose proof (pi_core _ P) as C. pose proof (pi_recvd _ P) as Rc. unfold recv_newcid.
  destruct (closed s) eqn:Ec; [exact P|].
  destruct (pkt s); [|exact P].
  destruct ((n =? 0) || (n >? CONNECTION_ID_MAX_SIZE)); [now apply PInv_closed|].
  destruct (r >? q); [now apply PInv_closed|].
  assert (RS : forall c, In c (recvd s ++ [q]) -> In c (if memz q (seen s) then seen s else seen s ++ [q])).
  { intros c Hc. apply in_app_or in Hc. destruct Hc as [Hc|[E|[]]].
    - apply Rc in Hc. destruct (memz q (seen s)); [assumption|apply in_or_app; now left].
    - subst c. apply nc_q_seen2. }
  destruct (cur s <? Z.max r (rpt s)) eqn:Ech.
  - match goal with |- context [match ?a2 with [] => _ | _ => _ end] => destruct a2 as [|a t] eqn:Ea end.
    + cbn [snd]. constructor; cbn -[Z.add Z.mul Z.min Zlen].
      * assert (H := nc_stranded _ _ _ _ _ _ _ _ q r C E_PROTOCOL_VIOLATION Ech Ea). rewrite Ech in H. exact H.
      * discriminate.
      * exact RS.
    + destruct (1 + Zlen t >? LOCAL_ACTIVE_CID_LIMIT) eqn:E1; [|destruct (Zlen _ >? _) eqn:E2];
        cbn [snd]; constructor; cbn -[Z.add Z.mul Z.min Zlen]; try exact RS; try discriminate.
      * assert (H := nc_change _ _ _ _ _ _ _ _ q r C (Some E_CONNECTION_ID_LIMIT_ERROR) a t Ech Ea). rewrite Ech in H. exact H.
      * assert (H := nc_change _ _ _ _ _ _ _ _ q r C (Some E_CONNECTION_ID_LIMIT_ERROR) a t Ech Ea). rewrite Ech in H. exact H.
      * assert (H := nc_change _ _ _ _ _ _ _ _ q r C (closed s) a t Ech Ea). rewrite Ech in H. exact H.
      * intros _. lia.
  - match goal with |- context [1 + Zlen ?a2 >? _] => destruct (1 + Zlen a2 >? LOCAL_ACTIVE_CID_LIMIT) eqn:E1 end;
      [|destruct (Zlen _ >? _) eqn:E2]; cbn [snd]; constructor; cbn -[Z.add Z.mul Z.min Zlen]; try exact RS; try discriminate.
    + assert (H := nc_nochange _ _ _ _ _ _ _ _ q r C (Some E_CONNECTION_ID_LIMIT_ERROR) Ech). rewrite Ech in H. exact H.
    + assert (H := nc_nochange _ _ _ _ _ _ _ _ q r C (Some E_CONNECTION_ID_LIMIT_ERROR) Ech). rewrite Ech in H. exact H.
    + assert (H := nc_nochange _ _ _ _ _ _ _ _ q r C (closed s) Ech). rewrite Ech in H. exact H.
    + intros _. lia.
Qed.

Lemma change_cid_closed s : closed (change_cid s) = closed s.
Proof. unfold change_cid. destruct (avail s); reflexivity. Qed.

Lemma change_cid_PInv s : PInv s -> PInv (change_cid s).
Proof.
  intros [[A [B C]] D R]. unfold change_cid. destruct (avail s) as [|a t] eqn:Ea.
  { constructor; [rewrite Ea; repeat split; assumption|rewrite Ea; exact D|exact R]. }
  inversion B; subst. constructor; cbn -[Z.add Zlen].
  - split; [intros _; assumption|split; [assumption|]].
    intros c Hc. destruct (C c Hc) as [E|[[E|H]|[H|H]]]; try tauto.
    + right; right; left. apply in_or_app. right. left. congruence.
    + left. congruence.
    + right; right; left. apply in_or_app. now left.
  - intros E. specialize (D E). rewrite zlen_cons in D. lia.
  - exact R.
Qed.

Lemma step_PInv s o : PInv s -> legit s o -> PInv (snd (step s o)).
Proof.
  intros P Lg. destruct o; cbn [step legit] in *; try tauto.
  - (* RecvPacket *) unfold recv_packet. destruct (closed s) eqn:Ec; [exact P|].
    destruct (is_client s && negb (has_host d (hosts s))); cbn [snd]; now apply PInv_ctx_none.
  - now apply newcid_PInv.
  - (* RecvRetire *) unfold recv_retire.
    destruct (closed s) eqn:Ec; [exact P|]. destruct (pkt s); [|exact P].
    destruct (_ || _); [now apply PInv_closed|].
    destruct (has_host q (hosts s) && (q =? z)); [now apply PInv_closed|].
    cbn [snd]. destruct P as [C B R]. unfold replenish.
    destruct (replenish_loop _ _ _ _). constructor; cbn; try assumption; try (now rewrite Ec in C).
  - (* PacketDone *) unfold packet_done. destruct (closed s) eqn:Ec.
    + cbn [snd]. rewrite <- Ec. now apply PInv_ctx.
    + destruct (pkt s).
      * destruct (negb (is_client s) && negb (z =? hcur s)); cbn [snd].
        -- apply PInv_ctx_none; [now rewrite change_cid_closed|now apply change_cid_PInv].
        -- now apply PInv_ctx_none.
      * cbn [snd]. rewrite <- Ec. now apply PInv_ctx.
  - (* LocalChange *) cbn. now apply change_cid_PInv.
  - (* Send *) destruct (closed s) eqn:Ec; cbn [snd]; [exact P|].
    destruct P as [[A [B C]] D R]. unfold send. constructor; cbn; [|assumption|assumption].
    split; [first [assumption|now rewrite Ec in A|intros _; apply A; assumption]|split; [assumption|]]. intros c Hc. destruct (C c Hc) as [E|[H|[H|[H|H]]]]; try tauto.
    + right; right; right; left. apply in_or_app. now right.
    + right; right; right; left. apply in_or_app. now left.
  - (* RetireDelivery *) cbn. destruct P as [[A [B C]] D R]. unfold retire_delivery.
    destruct acked; constructor; cbn; try assumption; (split; [assumption|split; [assumption|]]); intros c Hc;
      destruct (C c Hc) as [E|[H|[H|[H|H]]]]; try tauto.
    + destruct (In_remove1 q c _ H) as [E|H']; [|tauto]. subst c. right; right; right; right. apply in_or_app. right. now left.
    + right; right; right; right. apply in_or_app. now left.
    + right; right; left. apply in_or_app. now left.
    + destruct (In_remove1 q c _ H) as [E|H']; [|tauto]. subst c. right; right; left. apply in_or_app. right. now left.
  - (* NewCidDelivery *) cbn. unfold newcid_delivery. destruct acked; [exact P|].
    destruct P as [C B R]. constructor; cbn; assumption.
Qed.

Lemma init_PInv c l : PInv (handshake_complete (init c) l).
Proof.
  unfold handshake_complete, replenish. destruct (replenish_loop _ _ _ _). constructor; cbn.
  - split; [intros _; lia|split; [constructor|]]. intros q [E|[]]. now left.
  - intros _. change (Zlen (@nil Z)) with 0. pose proof limit_pos. lia.
  - tauto.
Qed.

Lemma reach_PInv c l s : reach c l s -> PInv s.
Proof. intros R. induction R; [apply init_PInv|now apply step_PInv]. Qed.

(* ---------------------------------------------------------------- consequences *)
(* dcid_not_retired *)
Lemma dcid_not_retired_l c l s : reach c l s -> closed s = None ->
  rpt s <= cur s /\ Forall (fun q => rpt s <= q) (avail s) /\ rpt s <= fst (fst (fst (send s))).
Proof.
  intros R Ec. destruct (reach_PInv _ _ _ R) as [[A [B _]] _ _]. specialize (A Ec). cbn. auto.
Qed.

(* the retire_prior_to of an accepted frame is honoured at once *)
Lemma newcid_ok_dcid c l s q r n : reach c l s -> fst (recv_newcid s q r n) = OOk ->
  let s' := snd (recv_newcid s q r n) in r <= rpt s' /\ rpt s' <= cur s' /\ closed s' = None.
Proof.
  intros R Hok. assert (R' : reach c l (snd (step s (RecvNewCid q r n)))) by (apply reach_step; [assumption|exact I]).
  cbn [step] in R'. cbn zeta.
  assert (Hc : closed (snd (recv_newcid s q r n)) = None /\ r <= rpt (snd (recv_newcid s q r n))).
  { revert Hok. unfold recv_newcid. destruct (closed s) eqn:Ec; [cbn; discriminate|]. destruct (pkt s); [|cbn; discriminate].
    destruct (_ || _); [cbn; discriminate|]. destruct (r >? q); [cbn; discriminate|].
    destruct (cur s <? Z.max r (rpt s)).
    - match goal with |- context [match ?a2 with [] => _ | _ => _ end] => destruct a2 as [|a t] end; [cbn; discriminate|].
      destruct (1 + Zlen _ >? _); [cbn; discriminate|]. destruct (Zlen _ >? _); [cbn; discriminate|].
      intros _. cbn [snd closed rpt set_peer]. split; [assumption|lia].
    - destruct (1 + Zlen _ >? _); [cbn; discriminate|]. destruct (Zlen _ >? _); [cbn; discriminate|].
      intros _. cbn [snd closed rpt set_peer]. split; [assumption|lia]. }
  destruct Hc as [Hc Hr]. destruct (dcid_not_retired_l _ _ _ R' Hc) as [A _]. auto.
Qed.

(* a frame that would leave no destination ID closes the connection instead of raising *)
Lemma no_cid_left_closes s q r n d : closed s = None -> pkt s = Some d ->
  (n =? 0) || (n >? CONNECTION_ID_MAX_SIZE) = false -> r <= q ->
  cur s < r -> (forall a, In a (avail s) -> a < r) -> In q (seen s) ->
  fst (recv_newcid s q r n) = OQErr E_PROTOCOL_VIOLATION /\
  closed (snd (recv_newcid s q r n)) = Some E_PROTOCOL_VIOLATION.
Proof.
  intros Ec Ep En Hrq Hc Ha Hs. unfold recv_newcid. rewrite Ec, Ep, En. replace (r >? q) with false by lia.
  replace (cur s <? Z.max r (rpt s)) with true by lia.
  assert (E : filter (fun c => c >=? Z.max r (rpt s)) (avail s) = []).
  { destruct (filter (fun c => c >=? Z.max r (rpt s)) (avail s)) as [|c t] eqn:E; [reflexivity|exfalso].
    assert (H : In c (filter (fun c => c >=? Z.max r (rpt s)) (avail s))) by (rewrite E; now left).
    apply filter_In in H. destruct H as [H1 H2]. apply Ha in H1. lia. }
  rewrite E. apply memz_In in Hs. rewrite Hs. rewrite andb_false_r. cbn. auto.
Qed.

(* peer_ids_bounded *)
Lemma peer_ids_bounded_l c l s : reach c l s -> closed s = None ->
  1 + Zlen (avail s) <= LOCAL_ACTIVE_CID_LIMIT.
Proof. intros R. exact (pi_bound _ (reach_PInv _ _ _ R)). Qed.

Lemma newcid_ok_bounds s q r n : fst (recv_newcid s q r n) = OOk ->
  1 + Zlen (avail (snd (recv_newcid s q r n))) <= LOCAL_ACTIVE_CID_LIMIT /\
  Zlen (pend (snd (recv_newcid s q r n))) <= Z.min (LOCAL_ACTIVE_CID_LIMIT * PENDING_RETIRES_FACTOR) MAX_PENDING_RETIRES.
Proof.
  unfold recv_newcid.
  destruct (closed s); [cbn; discriminate|]. destruct (pkt s); [|cbn; discriminate].
  destruct (_ || _); [cbn; discriminate|]. destruct (r >? q); [cbn; discriminate|].
  destruct (cur s <? Z.max r (rpt s)).
  - match goal with |- context [match ?a2 with [] => _ | _ => _ end] => destruct a2 as [|a t] end; [cbn; discriminate|].
    destruct (1 + Zlen t >? _) eqn:E1; [cbn; discriminate|]. destruct (Zlen _ >? _) eqn:E2; [cbn; discriminate|].
    intros _. cbn [snd avail pend set_peer]. lia.
  - match goal with |- context [1 + Zlen ?a2 >? _] => destruct (1 + Zlen a2 >? LOCAL_ACTIVE_CID_LIMIT) eqn:E1 end; [cbn; discriminate|].
    destruct (Zlen _ >? _) eqn:E2; [cbn; discriminate|]. intros _. cbn [snd avail pend set_peer]. lia.
Qed.

Lemma newcid_over_limit_is_error s q r n : closed s = None ->
  LOCAL_ACTIVE_CID_LIMIT < 1 + Zlen (avail (snd (recv_newcid s q r n))) ->
  fst (recv_newcid s q r n) = OIgn \/ exists code, fst (recv_newcid s q r n) = OQErr code.
Proof.
  intros Ec. unfold recv_newcid. rewrite Ec. destruct (pkt s); [|now left].
  destruct (_ || _); [right; eexists; reflexivity|]. destruct (r >? q); [right; eexists; reflexivity|].
  destruct (cur s <? Z.max r (rpt s)).
  - match goal with |- context [match ?a2 with [] => _ | _ => _ end] => destruct a2 as [|a t] end; [right; eexists; reflexivity|].
    destruct (1 + Zlen t >? _) eqn:E1; [right; eexists; reflexivity|]. destruct (Zlen _ >? _) eqn:E2; [right; eexists; reflexivity|].
    cbn [snd avail set_peer]. lia.
  - match goal with |- context [1 + Zlen ?a2 >? _] => destruct (1 + Zlen a2 >? LOCAL_ACTIVE_CID_LIMIT) eqn:E1 end; [right; eexists; reflexivity|].
    destruct (Zlen _ >? _) eqn:E2; [right; eexists; reflexivity|]. cbn [snd avail set_peer]. lia.
Qed.

(* issued_bounded / retired_replaced *)
Lemma issued_bounded_l c l s : 1 <= l -> reach c l s ->
  Zlen (hosts s) = Z.min REPLENISH_CAP l /\ Zlen (hosts s) <= l.
Proof. intros Hl R. pose proof (hi_count _ _ (reach_HInv _ _ _ Hl R)). lia. Qed.

Lemma unsent_are_announced s h : closed s = None -> In h (hosts s) -> h_sent h = false ->
  In (h_seq h) (snd (fst (fst (send s)))) /\ Forall (fun h' => h_sent h' = true) (hosts (snd (send s))).
Proof.
  intros _ Hin Hs. cbn. split.
  - apply in_map. apply filter_In. split; [assumption|]. now rewrite Hs.
  - apply Forall_forall. intros h' H'. apply in_map_iff in H'. destruct H' as [h0 [E _]]. now subst h'.
Qed.

Lemma replenish_loop_seqs fuel : forall hs next target x,
  In x (hseqs (fst (replenish_loop fuel hs next target))) -> In x (hseqs hs) \/ next <= x.
Proof.
  induction fuel as [|f IH]; intros hs next target x; cbn [replenish_loop]; [cbn; tauto|].
  destruct (Zlen hs <? target); [|cbn; tauto]. intros H. apply IH in H. unfold hseqs in *. rewrite map_app in H.
  destruct H as [H|H]; [|right; lia]. apply in_app_or in H. destruct H as [H|[H|[]]]; [tauto|]. cbn in H. right. lia.
Qed.

Lemma retired_not_accepted c l s q : 1 <= l -> reach c l s ->
  fst (step s (RecvRetire q)) = OOk ->
  has_host q (hosts (snd (step s (RecvRetire q)))) = false.
Proof.
  intros Hl R. pose proof (hi_good _ _ (reach_HInv _ _ _ Hl R)) as G. cbn [step]. unfold recv_retire.
  destruct (closed s); [cbn; discriminate|]. destruct (pkt s); [|cbn; discriminate].
  destruct ((q >=? hseq s) || _) eqn:E1; [cbn; discriminate|]. destruct (_ && _); [cbn; discriminate|]. intros _.
  apply orb_false_elim in E1. destruct E1 as [E1 _].
  cbn [snd]. unfold replenish. cbn [hosts hseq rlimit set_host].
  destruct (hgood_del q _ _ G) as [_ NI].
  pose proof (replenish_loop_seqs (Z.to_nat (Z.min REPLENISH_CAP (rlimit s))) (del_host q (hosts s)) (hseq s)
                (Z.min REPLENISH_CAP (rlimit s)) q) as S.
  destruct (replenish_loop _ _ _ _) as [hs next]. cbn [fst] in S. cbn [hosts set_host].
  destruct (has_host q hs) eqn:E; [|reflexivity]. apply has_host_In in E. destruct (S E); [tauto|lia].
Qed.

(* issued_accepted *)
Lemma issued_accepted_l s h : closed s = None -> In h (hosts s) -> fst (recv_packet s (h_seq h)) = OOk.
Proof.
  intros Ec Hin. unfold recv_packet. rewrite Ec.
  assert (E : has_host (h_seq h) (hosts s) = true) by (apply has_host_In; unfold hseqs; now apply in_map).
  rewrite E. rewrite andb_false_r. reflexivity.
Qed.

(* retirement_announced, for every sequence number received in a well-formed frame *)
Lemma retirement_announced_l c l s q : reach c l s -> In q (recvd s) ->
  q = cur s \/ In q (avail s) \/ In q (pend s) \/ In q (outs s) \/ In q (ackd s).
Proof. intros R H. destruct (reach_PInv _ _ _ R) as [[_ [_ C]] _ Rc]. apply C. now apply Rc. Qed.

Lemma lost_requeued s q : In q (pend (retire_delivery s q false)).
Proof. cbn. apply in_or_app. right. now left. Qed.

Lemma pending_all_written s : closed s = None ->
  snd (fst (send s)) = pend s /\ pend (snd (send s)) = [] /\ forall q, In q (pend s) -> In q (outs (snd (send s))).
Proof. intros _. cbn. repeat split. intros q H. apply in_or_app. now right. Qed.

(* ConnectionIdRetired only after ConnectionIdIssued *)
Lemma retired_after_issued_l c l s q : 1 <= l -> reach c l s -> In q (retiredev s) -> In q (issued s).
Proof. intros Hl R. exact (hi_retired _ _ (reach_HInv _ _ _ Hl R) q). Qed.

Lemma retire_never_sent_is_error s q d h : closed s = None -> pkt s = Some d ->
  In h (hosts s) -> h_seq h = q -> h_sent h = false -> hsent s < q ->
  fst (recv_retire s q) = OQErr E_PROTOCOL_VIOLATION /\ hosts (snd (recv_retire s q)) = hosts s.
Proof.
  intros Ec Ep Hin Eq Hs Hm. unfold recv_retire. rewrite Ec, Ep.
  assert (N : never_sent q (hosts s) (hsent s) = true).
  { unfold never_sent. apply existsb_exists. exists h. split; [assumption|]. rewrite Hs. cbn. lia. }
  rewrite N, orb_true_r. cbn. auto.
Qed.

(* ---------------------------------------------------------------- the former counterexamples (docs/C18.md F1-F3) *)
Definition start (c : bool) (l : Z) : st := handshake_complete (init c) l.

Definition w_exn : list op :=
  [RecvPacket 0; RecvNewCid 2 0 8; RecvNewCid 1 0 8; PacketDone; LocalChange; LocalChange; Send;
   RecvPacket 0; RecvNewCid 2 2 8].
Example former_f1 : closed (run (start true 8) w_exn) = Some E_PROTOCOL_VIOLATION.
Proof. vm_compute. reflexivity. Qed.

Definition w_late : list op :=
  [RecvPacket 0; RecvNewCid 2 2 8; PacketDone; Send; RecvPacket 0; RecvNewCid 1 0 8; PacketDone].
Example former_f2 : let s := run (start true 8) w_late in closed s = None /\ cur s = 2 /\ pend s = [1] /\ outs s = [0].
Proof. vm_compute. repeat split. Qed.

Definition w_unsent : list op := [Send; RecvPacket 0; RecvRetire 1; RecvRetire 8].
Example former_f3 : let s := run (start false 8) w_unsent in
  closed s = Some E_PROTOCOL_VIOLATION /\ retiredev s = [1] /\ In 1 (issued s).
Proof. vm_compute. repeat split. tauto. Qed.

Example reach_nontrivial : exists s, reach true 8 s /\ cur s = 2 /\ rpt s = 2 /\ pend s = [] /\ outs s = [0].
Proof.
  exists (run (start true 8) [RecvPacket 0; RecvNewCid 2 2 8; PacketDone; Send]). split.
  - apply reach_run; [reflexivity|constructor].
  - vm_compute. repeat split.
Qed.
