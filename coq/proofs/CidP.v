(* Invariants of the connection-ID bookkeeping model (model/Cid.v) over ALL op sequences. *)
From Coq Require Import ZArith List Bool Lia ZifyBool.
From AQ Require Import lib.Base gen.C18Consts model.Cid.

(* ---------------------------------------------------------------- small list facts *)
Lemma zlen_nonneg {A} (l : list A) : 0 <= Zlen l.
Proof. unfold Zlen; lia. Qed.
Lemma zlen_app {A} (l1 l2 : list A) : Zlen (l1 ++ l2) = Zlen l1 + Zlen l2.
Proof. unfold Zlen; rewrite app_length; lia. Qed.
Lemma zlen_cons {A} (a : A) (l : list A) : Zlen (a :: l) = 1 + Zlen l.
Proof. unfold Zlen; cbn [length]; lia. Qed.
Lemma zlen_map {A B} (f : A -> B) (l : list A) : Zlen (map f l) = Zlen l.
Proof. unfold Zlen; now rewrite map_length. Qed.
Lemma zlen_filter_le {A} (f : A -> bool) (l : list A) : Zlen (filter f l) <= Zlen l.
Proof. induction l as [|a l IH]; cbn [filter]; [lia|]. destruct (f a); rewrite ?zlen_cons; lia. Qed.

Lemma memz_In x l : memz x l = true <-> In x l.
Proof.
  unfold memz. rewrite existsb_exists. split.
  - intros [y [Hy E]]. apply Z.eqb_eq in E. now subst.
  - intros H. exists x. split; [assumption|apply Z.eqb_refl].
Qed.

Lemma remove1_In x y l : In y (remove1 x l) -> In y l.
Proof.
  induction l as [|a l IH]; cbn [remove1]; [tauto|]. destruct (x =? a); cbn [In]; tauto.
Qed.
Lemma In_remove1 x y l : In y l -> y = x \/ In y (remove1 x l).
Proof.
  induction l as [|a l IH]; cbn [remove1 In]; [tauto|]. intros [E|H].
  - subst a. destruct (x =? y) eqn:E; [left; lia|right; now left].
  - destruct (x =? a) eqn:E; [tauto|]. cbn [In]. tauto.
Qed.

(* ---------------------------------------------------------------- reachable states *)
Definition is_exn (o : outc) : bool := match o with OExnIndex => true | _ => false end.

(* legitimate environment: the handshake completes once (before any 1-RTT traffic); a RETIRE delivery outcome
   refers to a frame that is really outstanding (premise discharged by C08: callbacks at most once per frame) *)
Definition legit (s : st) (o : op) : Prop :=
  match o with
  | Handshake _ => False
  | RetireDelivery q _ => In q (outs s)
  | _ => True
  end.

(* reach c l s x: s is reachable for role c and peer limit l; x = an IndexError escaped on the way *)
Inductive reach (c : bool) (l : Z) : st -> bool -> Prop :=
| reach_init : reach c l (handshake_complete (init c) l) false
| reach_step s x o : reach c l s x -> legit s o ->
    reach c l (snd (step s o)) (x || is_exn (fst (step s o))).

Lemma reach_run c l ops : Forall (fun o => match o with Handshake _ | RetireDelivery _ _ => False | _ => True end) ops ->
  forall s x, reach c l s x -> exists x', reach c l (run s ops) x'.
Proof.
  induction 1 as [|o ops Ho _ IH]; intros s x R; cbn [run]; [eauto|].
  eapply IH. eapply reach_step; [exact R|]. destruct o; cbn; tauto.
Qed.

(* ---------------------------------------------------------------- locally issued IDs *)
Lemma replenish_loop_len fuel : forall hs next target,
  Zlen hs <= target -> target - Zlen hs <= Z.of_nat fuel ->
  Zlen (fst (replenish_loop fuel hs next target)) = target.
Proof.
  induction fuel as [|f IH]; intros hs next target H1 H2; cbn [replenish_loop].
  - cbn [fst]. lia.
  - destruct (Zlen hs <? target) eqn:E; cbn [fst]; [|lia].
    apply IH; rewrite zlen_app, zlen_cons; change (Zlen (@nil hcid)) with 0; lia.
Qed.

Lemma replenish_loop_noop fuel hs next target :
  target <= Zlen hs -> replenish_loop fuel hs next target = (hs, next).
Proof. destruct fuel; cbn [replenish_loop]; [reflexivity|]. intros H. destruct (Zlen hs <? target) eqn:E; [lia|reflexivity]. Qed.

(* host IDs: pairwise distinct sequence numbers, all below _host_cid_seq *)
Definition hseqs (hs : list hcid) : list Z := map h_seq hs.
Definition hgood (hs : list hcid) (next : Z) : Prop := NoDup (hseqs hs) /\ Forall (fun q => q < next) (hseqs hs).

Lemma nodup_snoc (l : list Z) a : NoDup l -> ~ In a l -> NoDup (l ++ [a]).
Proof.
  induction l as [|b l IH]; cbn [app]; intros N H.
  - constructor; [tauto|constructor].
  - inversion N; subst. constructor.
    + rewrite in_app_iff. cbn [In]. intros [?|[?|[]]]; [tauto|]. subst. apply H. now left.
    + apply IH; [assumption|]. intros ?. apply H. now right.
Qed.

Lemma hgood_snoc hs next : hgood hs next -> hgood (hs ++ [mkH next false]) (next + 1).
Proof.
  intros [N B]. unfold hgood, hseqs in *. rewrite map_app. cbn [map h_seq]. split.
  - apply nodup_snoc; [assumption|]. intros H. rewrite Forall_forall in B. apply B in H. lia.
  - apply Forall_app. split; [|repeat constructor; lia]. eapply Forall_impl; [|exact B]. cbn. intros; lia.
Qed.

Lemma replenish_loop_good fuel : forall hs next target,
  hgood hs next -> hgood (fst (replenish_loop fuel hs next target)) (snd (replenish_loop fuel hs next target)).
Proof.
  induction fuel as [|f IH]; intros hs next target G; cbn [replenish_loop]; [exact G|].
  destruct (Zlen hs <? target); [|exact G]. apply IH. now apply hgood_snoc.
Qed.

Lemma hseqs_del_incl q hs x : In x (hseqs (del_host q hs)) -> In x (hseqs hs).
Proof.
  unfold hseqs. induction hs as [|h t IH]; cbn [del_host map]; [tauto|].
  destruct (h_seq h =? q); cbn [map In]; tauto.
Qed.

Lemma hgood_del q hs next : hgood hs next -> hgood (del_host q hs) next /\ ~ In q (hseqs (del_host q hs)).
Proof.
  unfold hgood, hseqs. intros [N B]. induction hs as [|h t IH]; cbn [del_host map] in *.
  - repeat split; [constructor|constructor|tauto].
  - inversion N; subst. inversion B; subst. destruct (h_seq h =? q) eqn:E.
    + repeat split; [assumption|assumption|]. assert (h_seq h = q) by lia. subst q. assumption.
    + destruct (IH H2 H4) as [[N' B'] NI]. cbn [map]. repeat split.
      * constructor; [|assumption]. intros H. apply H1. now apply (hseqs_del_incl q t).
      * constructor; assumption.
      * cbn [In]. intros [?|?]; [lia|tauto].
Qed.

Lemma zlen_del_host q hs : has_host q hs = true -> Zlen (del_host q hs) = Zlen hs - 1.
Proof.
  unfold has_host. induction hs as [|h t IH]; cbn [existsb del_host]; [discriminate|].
  destruct (h_seq h =? q) eqn:E; cbn [orb]; rewrite ?zlen_cons; [lia|]. intros H. rewrite IH by assumption. lia.
Qed.
Lemma del_host_absent q hs : has_host q hs = false -> del_host q hs = hs.
Proof.
  unfold has_host. induction hs as [|h t IH]; cbn [existsb del_host]; [reflexivity|].
  destruct (h_seq h =? q) eqn:E; cbn [orb]; [discriminate|]. intros H. now rewrite IH.
Qed.
Lemma has_host_In q hs : has_host q hs = true <-> In q (hseqs hs).
Proof.
  unfold has_host, hseqs. rewrite existsb_exists, in_map_iff. split.
  - intros [h [H E]]. exists h. split; [lia|assumption].
  - intros [h [E H]]. exists h. split; [assumption|lia].
Qed.

(* host-side invariant *)
Record HInv (l : Z) (s : st) : Prop := {
  hi_limit : rlimit s = l;
  hi_count : Zlen (hosts s) = Z.min REPLENISH_CAP l;
  hi_good : hgood (hosts s) (hseq s)
}.

Lemma replenish_HInv l s : 1 <= l -> rlimit s = l -> Zlen (hosts s) <= Z.min REPLENISH_CAP l ->
  hgood (hosts s) (hseq s) -> HInv l (replenish s).
Proof.
  intros Hl Hr Hc Hg. unfold replenish. rewrite Hr.
  pose proof (replenish_loop_len (Z.to_nat (Z.min REPLENISH_CAP l)) (hosts s) (hseq s) (Z.min REPLENISH_CAP l)) as L.
  pose proof (replenish_loop_good (Z.to_nat (Z.min REPLENISH_CAP l)) (hosts s) (hseq s) (Z.min REPLENISH_CAP l) Hg) as G.
  destruct (replenish_loop _ _ _ _) as [hs next]. cbn [fst snd] in *.
  constructor; cbn; [assumption| |assumption].
  apply L; [assumption|]. pose proof (zlen_nonneg (hosts s)). unfold REPLENISH_CAP in *. lia.
Qed.

Lemma hgood_map_sent f hs next : (forall h, h_seq (f h) = h_seq h) -> hgood hs next -> hgood (map f hs) next.
Proof.
  intros Hf. unfold hgood, hseqs. rewrite map_map.
  replace (map (fun x => h_seq (f x)) hs) with (map h_seq hs); [tauto|].
  apply map_ext. intros; now rewrite Hf.
Qed.

Lemma init_HInv c l : 1 <= l -> HInv l (handshake_complete (init c) l).
Proof.
  intros Hl. unfold handshake_complete. apply replenish_HInv; cbn; try assumption; try reflexivity.
  - change (Zlen [mkH 0 true]) with 1. unfold REPLENISH_CAP. lia.
  - unfold hgood, hseqs; cbn. split; [constructor; [tauto|constructor]|repeat constructor; lia].
Qed.

Lemma change_cid_hosts s : hosts (change_cid s) = hosts s /\ hseq (change_cid s) = hseq s /\ rlimit (change_cid s) = rlimit s.
Proof. unfold change_cid. destruct (avail s); cbn; auto. Qed.

Lemma step_HInv l s o : 1 <= l -> HInv l s -> legit s o -> HInv l (snd (step s o)).
Proof.
  intros Hl [H1 H2 H3] Lg. destruct o; cbn [step legit] in *; try tauto.
  - (* RecvPacket *) unfold recv_packet. destruct (closed s); cbn [snd]; [constructor; assumption|].
    destruct (is_client s && negb (has_host d (hosts s))); cbn; constructor; assumption.
  - (* RecvNewCid *) unfold recv_newcid.
    repeat match goal with |- context [match ?x with _ => _ end] => destruct x end; cbn; constructor; assumption.
  - (* RecvRetire *) unfold recv_retire.
    destruct (closed s); [cbn; constructor; assumption|]. destruct (pkt s); [|cbn; constructor; assumption].
    destruct (q >=? hseq s); [cbn; constructor; assumption|].
    destruct (has_host q (hosts s) && (q =? z)); [cbn; constructor; assumption|]. cbn [snd].
    apply replenish_HInv; cbn; try assumption.
    + destruct (has_host q (hosts s)) eqn:E; [rewrite zlen_del_host by assumption; lia|rewrite del_host_absent by assumption; lia].
    + now apply hgood_del.
  - (* PacketDone *) unfold packet_done. destruct (closed s); [cbn; constructor; assumption|].
    destruct (pkt s); [|cbn; constructor; assumption].
    destruct (negb (is_client s) && negb (z =? hcur s)); cbn [snd]; [|cbn; constructor; assumption].
    destruct (change_cid_hosts s) as [A [B C]]. constructor; cbn; rewrite ?A, ?B, ?C; assumption.
  - (* LocalChange *) destruct (change_cid_hosts s) as [A [B C]]. constructor; cbn; rewrite ?A, ?B, ?C; assumption.
  - (* Send *) destruct (closed s); cbn [snd]; [constructor; assumption|]. unfold send. cbn. constructor; cbn; [assumption| |].
    + now rewrite zlen_map.
    + apply hgood_map_sent; [reflexivity|assumption].
  - (* RetireDelivery *) unfold retire_delivery. destruct acked; cbn; constructor; assumption.
  - (* NewCidDelivery *) unfold newcid_delivery. destruct acked; cbn [snd]; [constructor; assumption|].
    constructor; cbn; [assumption|now rewrite zlen_map|].
    apply hgood_map_sent; [|assumption]. intros h. destruct (h_seq h =? q) eqn:E; cbn; lia.
Qed.

Lemma reach_HInv c l s x : 1 <= l -> reach c l s x -> HInv l s.
Proof. intros Hl R. induction R; [now apply init_HInv|now apply step_HInv]. Qed.

(* ---------------------------------------------------------------- peer-issued IDs *)
Definition pcore (x : bool) (cur : Z) (avail seen : list Z) (rpt : Z) (pend outs ackd : list Z) : Prop :=
  (x = false -> rpt <= cur) /\
  Forall (fun q => rpt <= q) avail /\
  (forall q, In q seen -> q = cur \/ In q avail \/ In q pend \/ In q outs \/ In q ackd).

Record PInv (s : st) (x : bool) : Prop := {
  pi_core : pcore x (cur s) (avail s) (seen s) (rpt s) (pend s) (outs s) (ackd s);
  pi_bound : closed s = None -> 1 + Zlen (avail s) <= LOCAL_ACTIVE_CID_LIMIT
}.

Section NewCid.
  Variables (x : bool) (cur0 : Z) (avail0 seen0 : list Z) (rpt0 : Z) (pend0 outs0 ackd0 : list Z) (q r : Z).
  Local Notation rpt' := (Z.max r rpt0).
  Local Notation change := (cur0 <? rpt').
  Local Notation retire0 := (filter (fun c => c <? rpt') avail0).
  Local Notation retire := (if change then cur0 :: retire0 else retire0).
  Local Notation avail1 := (filter (fun c => c >=? rpt') avail0).
  Local Notation fresh := ((q >=? rpt') && negb (memz q seen0)).
  Local Notation avail2 := (if fresh then avail1 ++ [q] else avail1).
  Local Notation seen2 := (if fresh then seen0 ++ [q] else seen0).
  Local Notation pend' := (pend0 ++ retire).
  Hypothesis P : pcore x cur0 avail0 seen0 rpt0 pend0 outs0 ackd0.

  Lemma nc_avail2 : Forall (fun c => rpt' <= c) avail2.
  Proof.
    assert (A1 : Forall (fun c => rpt' <= c) avail1).
    { apply Forall_forall. intros c Hc. apply filter_In in Hc. lia. }
    destruct fresh eqn:F; [|exact A1]. apply Forall_app. split; [exact A1|].
    repeat constructor. lia.
  Qed.

  Lemma nc_acct c : In c seen2 ->
    (c = cur0 /\ change = false) \/ In c avail2 \/ In c pend' \/ In c outs0 \/ In c ackd0.
  Proof.
    destruct P as [_ [_ A]]. intros Hc.
    assert (Hold : In c seen0 -> (c = cur0 /\ change = false) \/ In c avail2 \/ In c pend' \/ In c outs0 \/ In c ackd0).
    { intros H0. destruct (A c H0) as [E|[H|[H|[H|H]]]]; try tauto.
      - destruct change eqn:Ech; [|tauto]. right; right; left.
        apply in_or_app. right. left. congruence.
      - destruct (c >=? rpt') eqn:Ec.
        + right; left. assert (In c avail1) by (apply filter_In; split; [assumption|lia]).
          destruct fresh; [apply in_or_app; now left|assumption].
        + right; right; left. apply in_or_app. right.
          assert (In c retire0) by (apply filter_In; split; [assumption|lia]).
          destruct change; [now right|assumption].
      - right; right; left. apply in_or_app. now left. }
    destruct fresh eqn:F; [|now apply Hold].
    apply in_app_or in Hc. destruct Hc as [H0|[E|[]]]; [now apply Hold|]. subst c.
    right; left. apply in_or_app. right. now left.
  Qed.

  Lemma nc_nochange : change = false -> pcore x cur0 avail2 seen2 rpt' pend' outs0 ackd0.
  Proof.
    intros Ech. split; [|split].
    - intros _. lia.
    - exact nc_avail2.
    - intros c Hc. destruct (nc_acct c Hc) as [[E _]|H]; tauto.
  Qed.

  Lemma nc_change a t : change = true -> avail2 = a :: t -> pcore x a t seen2 rpt' pend' outs0 ackd0.
  Proof.
    intros Ech Ea. pose proof nc_avail2 as F. rewrite Ea in F. inversion F; subst. split; [|split].
    - intros _. assumption.
    - assumption.
    - intros c Hc. destruct (nc_acct c Hc) as [[_ E]|[H|H]]; [congruence| |tauto].
      rewrite Ea in H. destruct H; [left; congruence|tauto].
  Qed.

  Lemma nc_exn : change = true -> avail2 = [] -> pcore (x || true) cur0 [] seen2 rpt' pend' outs0 ackd0.
  Proof.
    intros Ech Ea. split; [|split].
    - rewrite orb_true_r. discriminate.
    - constructor.
    - intros c Hc. destruct (nc_acct c Hc) as [[_ E]|[H|H]]; [congruence| |tauto]. rewrite Ea in H. destruct H.
  Qed.

  (* exactly when _consume_peer_cid pops an empty list *)
  Lemma nc_exn_iff : (change = true /\ avail2 = []) <->
    (cur0 < rpt' /\ (forall c, In c avail0 -> c < rpt') /\ (q < rpt' \/ In q seen0)).
  Proof.
    split.
    - intros [Ech Ea]. split; [lia|]. split.
      + intros c Hc. destruct (c >=? rpt') eqn:E; [|lia]. exfalso.
        assert (H : In c (filter (fun c0 => c0 >=? rpt') avail0)) by (apply filter_In; split; assumption).
        destruct ((q >=? rpt') && negb (memz q seen0)).
        * destruct (filter _ avail0); [destruct H|discriminate].
        * rewrite Ea in H. destruct H.
      + destruct (q >=? rpt') eqn:E1; [|lia]. destruct (memz q seen0) eqn:E2; [right; now apply memz_In|].
        cbn in Ea. destruct (filter _ avail0); discriminate.
    - intros [Hc [Ha Hq]]. split; [lia|].
      assert (E : filter (fun c => c >=? rpt') avail0 = []).
      { destruct (filter (fun c => c >=? rpt') avail0) as [|c t] eqn:E; [reflexivity|exfalso].
        assert (H : In c (filter (fun c => c >=? rpt') avail0)) by (rewrite E; now left).
        apply filter_In in H. destruct H as [H1 H2]. apply Ha in H1. lia. }
      rewrite E. destruct Hq as [Hq|Hq]; [replace (q >=? rpt') with false by lia; reflexivity|].
      apply memz_In in Hq. rewrite Hq. rewrite andb_false_r. reflexivity.
  Qed.
End NewCid.

Lemma PInv_closed s x h p e : PInv s x -> PInv (set_ctx s h p (Some e)) x.
Proof. intros [C B]. constructor; cbn; [exact C|discriminate]. Qed.
Lemma PInv_ctx s x h p : PInv s x -> PInv (set_ctx s h p (closed s)) x.
Proof. intros [C B]. constructor; cbn; [exact C|exact B]. Qed.
Lemma PInv_ctx_none s x h p : closed s = None -> PInv s x -> PInv (set_ctx s h p None) x.
Proof. intros E [C B]. constructor; cbn; [exact C|auto]. Qed.

Lemma pcore_weaken_x x cur avail seen rpt pend outs ackd :
  pcore x cur avail seen rpt pend outs ackd -> pcore (x || true) cur avail seen rpt pend outs ackd.
Proof. intros [A [B C]]. split; [rewrite orb_true_r; discriminate|tauto]. Qed.

Lemma limit_pos : 1 <= LOCAL_ACTIVE_CID_LIMIT.
Proof. unfold LOCAL_ACTIVE_CID_LIMIT. lia. Qed.

Lemma newcid_PInv s x q r n : PInv s x ->
  PInv (snd (recv_newcid s q r n)) (x || is_exn (fst (recv_newcid s q r n))).
Proof.
  intros P. pose proof (pi_core _ _ P) as C. unfold recv_newcid.
  destruct (closed s) eqn:Ec; [cbn; rewrite orb_false_r; exact P|].
  destruct (pkt s); [|cbn; rewrite orb_false_r; exact P].
  destruct ((n =? 0) || (n >? CONNECTION_ID_MAX_SIZE)); [cbn; rewrite orb_false_r; now apply PInv_closed|].
  destruct (r >? q); [cbn; rewrite orb_false_r; now apply PInv_closed|].
  destruct (cur s <? Z.max r (rpt s)) eqn:Ech.
  - match goal with |- context [match ?a2 with [] => _ | _ => _ end] => destruct a2 as [|a t] eqn:Ea end.
    + cbn [fst snd is_exn]. constructor; cbn -[Z.add Z.mul Z.min Zlen].
      * assert (H := nc_exn x _ _ _ _ _ _ _ q r C Ech Ea). rewrite Ech in H. exact H.
      * intros _. change (Zlen (@nil Z)) with 0. pose proof limit_pos. lia.
    + assert (H := nc_change x _ _ _ _ _ _ _ q r C a t Ech Ea). rewrite Ech in H.
      destruct (1 + Zlen t >? LOCAL_ACTIVE_CID_LIMIT) eqn:E1; [|destruct (Zlen _ >? _) eqn:E2];
        cbn [fst snd is_exn]; rewrite ?orb_false_r; constructor; cbn -[Z.add Z.mul Z.min Zlen]; try exact H; try discriminate.
      intros _. lia.
  - assert (H := nc_nochange x _ _ _ _ _ _ _ q r C Ech). rewrite Ech in H.
    match goal with |- context [1 + Zlen ?a2 >? _] => destruct (1 + Zlen a2 >? LOCAL_ACTIVE_CID_LIMIT) eqn:E1 end;
      [|destruct (Zlen _ >? _) eqn:E2]; cbn [fst snd is_exn]; rewrite ?orb_false_r; constructor; cbn -[Z.add Z.mul Z.min Zlen]; try exact H; try discriminate.
    intros _. lia.
Qed.

Lemma change_cid_PInv s x : PInv s x -> PInv (change_cid s) x.
Proof.
  intros [[A [B C]] D]. unfold change_cid. destruct (avail s) as [|a t] eqn:Ea; [constructor; [rewrite Ea; repeat split; assumption|rewrite Ea; exact D]|].
  inversion B; subst. constructor; cbn -[Z.add Zlen].
  - split; [intros _; assumption|split; [assumption|]].
    intros c Hc. destruct (C c Hc) as [E|[[E|H]|[H|H]]]; try tauto.
    + right; right; left. apply in_or_app. right. left. congruence.
    + left. congruence.
    + right; right; left. apply in_or_app. now left.
  - intros E. specialize (D E). rewrite zlen_cons in D. lia.
Qed.

Lemma step_PInv s x o : PInv s x -> legit s o -> PInv (snd (step s o)) (x || is_exn (fst (step s o))).
Proof.
  intros P Lg. destruct o; cbn [step legit] in *; try tauto.
  - (* RecvPacket *) unfold recv_packet. destruct (closed s) eqn:Ec; [cbn; rewrite orb_false_r; exact P|].
    destruct (is_client s && negb (has_host d (hosts s))); cbn [fst snd is_exn]; rewrite orb_false_r; now apply PInv_ctx_none.
  - now apply newcid_PInv.
  - (* RecvRetire *) unfold recv_retire.
    destruct (closed s) eqn:Ec; [cbn; rewrite orb_false_r; exact P|]. destruct (pkt s); [|cbn; rewrite orb_false_r; exact P].
    destruct (q >=? hseq s); [cbn; rewrite orb_false_r; now apply PInv_closed|].
    destruct (has_host q (hosts s) && (q =? z)); [cbn; rewrite orb_false_r; now apply PInv_closed|].
    cbn [fst snd is_exn]. rewrite orb_false_r. destruct P as [C B]. unfold replenish.
    destruct (replenish_loop _ _ _ _). constructor; cbn; assumption.
  - (* PacketDone *) unfold packet_done. destruct (closed s) eqn:Ec.
    + cbn [fst snd is_exn]. rewrite orb_false_r. rewrite <- Ec. now apply PInv_ctx.
    + destruct (pkt s).
      * destruct (negb (is_client s) && negb (z =? hcur s)); cbn [fst snd is_exn]; rewrite orb_false_r.
        -- apply PInv_ctx_none; [unfold change_cid; destruct (avail s); cbn; assumption|now apply change_cid_PInv].
        -- now apply PInv_ctx_none.
      * cbn [fst snd is_exn]. rewrite orb_false_r. rewrite <- Ec. now apply PInv_ctx.
  - (* LocalChange *) cbn. rewrite orb_false_r. now apply change_cid_PInv.
  - (* Send *) destruct (closed s) eqn:Ec; cbn [fst snd is_exn]; rewrite orb_false_r; [exact P|].
    destruct P as [[A [B C]] D]. unfold send. constructor; cbn; [|assumption].
    split; [assumption|split; [assumption|]]. intros c Hc. destruct (C c Hc) as [E|[H|[H|[H|H]]]]; try tauto.
    + right; right; right; left. apply in_or_app. now right.
    + right; right; right; left. apply in_or_app. now left.
  - (* RetireDelivery *) cbn. rewrite orb_false_r. destruct P as [[A [B C]] D]. unfold retire_delivery.
    destruct acked; constructor; cbn; try assumption; (split; [assumption|split; [assumption|]]); intros c Hc;
      destruct (C c Hc) as [E|[H|[H|[H|H]]]]; try tauto.
    + destruct (In_remove1 q c _ H) as [E|H']; [|tauto]. subst c. right; right; right; right. apply in_or_app. right. now left.
    + right; right; right; right. apply in_or_app. now left.
    + right; right; left. apply in_or_app. now left.
    + destruct (In_remove1 q c _ H) as [E|H']; [|tauto]. subst c. right; right; left. apply in_or_app. right. now left.
  - (* NewCidDelivery *) cbn. rewrite orb_false_r. unfold newcid_delivery. destruct acked; [exact P|].
    destruct P as [C B]. constructor; cbn; assumption.
Qed.

Lemma init_PInv c l : PInv (handshake_complete (init c) l) false.
Proof.
  unfold handshake_complete, replenish. destruct (replenish_loop _ _ _ _). constructor; cbn.
  - split; [intros _; lia|split; [constructor|]]. intros q [E|[]]. now left.
  - intros _. change (Zlen (@nil Z)) with 0. pose proof limit_pos. lia.
Qed.

Lemma reach_PInv c l s x : reach c l s x -> PInv s x.
Proof. intros R. induction R; [apply init_PInv|now apply step_PInv]. Qed.

(* ---------------------------------------------------------------- consequences *)
Fixpoint runx (s : st) (x : bool) (ops : list op) : st * bool :=
  match ops with [] => (s, x) | o :: t => runx (snd (step s o)) (x || is_exn (fst (step s o))) t end.

Definition plain (o : op) : bool :=
  match o with Handshake _ | RetireDelivery _ _ => false | _ => true end.

Lemma reach_runx c l ops : forallb plain ops = true ->
  forall s x, reach c l s x -> reach c l (fst (runx s x ops)) (snd (runx s x ops)).
Proof.
  induction ops as [|o ops IH]; cbn [forallb runx]; intros H s x R; [exact R|].
  apply andb_prop in H. destruct H as [Ho H]. apply IH; [assumption|].
  apply reach_step; [exact R|]. destruct o; cbn in *; try tauto; discriminate.
Qed.

(* dcid_not_retired *)
Lemma dcid_not_retired_l c l s : reach c l s false ->
  rpt s <= cur s /\ Forall (fun q => rpt s <= q) (avail s) /\ rpt s <= fst (fst (fst (send s))).
Proof.
  intros R. destruct (reach_PInv _ _ _ _ R) as [[A [B _]] _]. cbn. auto.
Qed.

Lemma only_newcid_raises s o : is_exn (fst (step s o)) = true -> exists q r n, o = RecvNewCid q r n.
Proof.
  destruct o; cbn [step]; try (cbn; discriminate); try eauto.
  - unfold recv_packet. destruct (closed s); [cbn; discriminate|]. destruct (_ && _); cbn; discriminate.
  - unfold recv_retire. destruct (closed s); [cbn; discriminate|]. destruct (pkt s); [|cbn; discriminate].
    destruct (_ >=? _); [cbn; discriminate|]. destruct (_ && _); cbn; discriminate.
  - unfold packet_done. destruct (closed s); [cbn; discriminate|]. destruct (pkt s); [|cbn; discriminate].
    destruct (_ && _); cbn; discriminate.
  - destruct (closed s); cbn; discriminate.
Qed.

Lemma consume_empty_iff c l s q r n : reach c l s false ->
  (fst (recv_newcid s q r n) = OExnIndex <->
   (closed s = None /\ pkt s <> None /\ (n =? 0) || (n >? CONNECTION_ID_MAX_SIZE) = false /\ r <= q /\
    cur s < r /\ (forall a, In a (avail s) -> a < r) /\ In q (seen s))).
Proof.
  intros R. destruct (reach_PInv _ _ _ _ R) as [[A [B _]] _]. specialize (A eq_refl).
  pose proof (nc_exn_iff (cur s) (avail s) (seen s) (rpt s) q r) as I.
  unfold recv_newcid.
  destruct (closed s); [split; [cbn; discriminate|intros [H _]; discriminate]|].
  destruct (pkt s); [|split; [cbn; discriminate|intros [_ [H _]]; congruence]].
  destruct ((n =? 0) || (n >? CONNECTION_ID_MAX_SIZE)); [split; [cbn; discriminate|intros [_ [_ [H _]]]; discriminate]|].
  destruct (r >? q) eqn:Erq; [split; [cbn; discriminate|intros [_ [_ [_ [H _]]]]; lia]|].
  destruct (cur s <? Z.max r (rpt s)) eqn:Ech.
  - match goal with |- context [match ?a2 with [] => _ | _ => _ end] => destruct a2 as [|a t] eqn:Ea end.
    + split; [intros _|reflexivity]. destruct I as [I _]. destruct (I (conj eq_refl eq_refl)) as [H1 [H2 H3]].
      assert (Z.max r (rpt s) = r) by lia. rewrite H in *.
      repeat split; try congruence; try lia; try assumption. destruct H3; [lia|assumption].
    + split.
      * destruct (1 + Zlen _ >? _); [cbn; discriminate|destruct (Zlen _ >? _); cbn; discriminate].
      * intros [_ [_ [_ [_ [H1 [H2 H3]]]]]]. exfalso. destruct I as [_ I].
        assert (Z.max r (rpt s) = r) by lia. rewrite H in *.
        destruct I as [_ I]; [repeat split; [lia|assumption|tauto]|]. congruence.
  - split.
    + destruct (1 + Zlen _ >? _); [cbn; discriminate|destruct (Zlen _ >? _); cbn; discriminate].
    + intros [_ [_ [_ [_ [H1 _]]]]]. lia.
Qed.

(* the repeated sequence number of that frame is one that was already abandoned *)
Lemma consume_empty_repeats_retired c l s q r n : reach c l s false ->
  fst (recv_newcid s q r n) = OExnIndex -> In q (pend s) \/ In q (outs s) \/ In q (ackd s).
Proof.
  intros R H. pose proof (proj1 (consume_empty_iff c l s q r n R) H) as [_ [_ [_ [Hrq [Hc [Ha Hs]]]]]].
  destruct (reach_PInv _ _ _ _ R) as [[_ [_ C]] _]. destruct (C q Hs) as [E|[E|E]]; [lia| |exact E].
  apply Ha in E. lia.
Qed.

(* peer_ids_bounded *)
Lemma peer_ids_bounded_l c l s x : reach c l s x -> closed s = None ->
  1 + Zlen (avail s) <= LOCAL_ACTIVE_CID_LIMIT.
Proof. intros R. exact (pi_bound _ _ (reach_PInv _ _ _ _ R)). Qed.

Lemma newcid_ok_bounds s q r n : fst (recv_newcid s q r n) = OOk ->
  1 + Zlen (avail (snd (recv_newcid s q r n))) <= LOCAL_ACTIVE_CID_LIMIT /\
  Zlen (pend (snd (recv_newcid s q r n))) <= Z.min (LOCAL_ACTIVE_CID_LIMIT * PENDING_RETIRES_FACTOR) MAX_PENDING_RETIRES.
Proof.
  unfold recv_newcid.
  destruct (closed s); [cbn; discriminate|]. destruct (pkt s); [|cbn; discriminate].
  destruct (_ || _); [cbn; discriminate|]. destruct (r >? q); [cbn; discriminate|].
  destruct (cur s <? Z.max r (rpt s)).
  - match goal with |- context [match ?a2 with [] => _ | _ => _ end] => destruct a2 as [|a t] end; [cbn; discriminate|].
    destruct (1 + Zlen t >? _) eqn:E1; [cbn; discriminate|]. destruct (Zlen _ >? _) eqn:E2; [cbn; discriminate|].
    intros _. cbn [snd avail pend set_peer]. lia.
  - match goal with |- context [1 + Zlen ?a2 >? _] => destruct (1 + Zlen a2 >? LOCAL_ACTIVE_CID_LIMIT) eqn:E1 end; [cbn; discriminate|].
    destruct (Zlen _ >? _) eqn:E2; [cbn; discriminate|]. intros _. cbn [snd avail pend set_peer]. lia.
Qed.

Lemma newcid_over_limit_is_error s q r n : closed s = None ->
  LOCAL_ACTIVE_CID_LIMIT < 1 + Zlen (avail (snd (recv_newcid s q r n))) ->
  fst (recv_newcid s q r n) = OIgn \/ exists code, fst (recv_newcid s q r n) = OQErr code.
Proof.
  intros Ec. unfold recv_newcid. rewrite Ec. destruct (pkt s); [|now left].
  destruct (_ || _); [right; eexists; reflexivity|]. destruct (r >? q); [right; eexists; reflexivity|].
  destruct (cur s <? Z.max r (rpt s)).
  - match goal with |- context [match ?a2 with [] => _ | _ => _ end] => destruct a2 as [|a t] end.
    + cbn -[Z.add]. change (Zlen (@nil Z)) with 0. pose proof limit_pos. lia.
    + destruct (1 + Zlen t >? _) eqn:E1; [right; eexists; reflexivity|]. destruct (Zlen _ >? _) eqn:E2; [right; eexists; reflexivity|].
      cbn [snd avail set_peer]. lia.
  - match goal with |- context [1 + Zlen ?a2 >? _] => destruct (1 + Zlen a2 >? LOCAL_ACTIVE_CID_LIMIT) eqn:E1 end; [right; eexists; reflexivity|].
    destruct (Zlen _ >? _) eqn:E2; [right; eexists; reflexivity|]. cbn [snd avail set_peer]. lia.
Qed.

(* issued_bounded / retired_replaced *)
Lemma issued_bounded_l c l s x : 1 <= l -> reach c l s x ->
  Zlen (hosts s) = Z.min REPLENISH_CAP l /\ Zlen (hosts s) <= l.
Proof. intros Hl R. destruct (reach_HInv _ _ _ _ Hl R) as [_ H _]. lia. Qed.

Lemma unsent_are_announced s h : closed s = None -> In h (hosts s) -> h_sent h = false ->
  In (h_seq h) (snd (fst (fst (send s)))) /\ Forall (fun h' => h_sent h' = true) (hosts (snd (send s))).
Proof.
  intros _ Hin Hs. cbn. split.
  - apply in_map. apply filter_In. split; [assumption|]. now rewrite Hs.
  - apply Forall_forall. intros h' H'. apply in_map_iff in H'. destruct H' as [h0 [E _]]. now subst h'.
Qed.

Lemma replenish_loop_seqs fuel : forall hs next target x,
  In x (hseqs (fst (replenish_loop fuel hs next target))) -> In x (hseqs hs) \/ next <= x.
Proof.
  induction fuel as [|f IH]; intros hs next target x; cbn [replenish_loop]; [cbn; tauto|].
  destruct (Zlen hs <? target); [|cbn; tauto]. intros H. apply IH in H. unfold hseqs in *. rewrite map_app in H.
  destruct H as [H|H]; [|right; lia]. apply in_app_or in H. destruct H as [H|[H|[]]]; [tauto|]. cbn in H. right. lia.
Qed.

Lemma retired_not_accepted c l s x q : 1 <= l -> reach c l s x ->
  fst (step s (RecvRetire q)) = OOk ->
  has_host q (hosts (snd (step s (RecvRetire q)))) = false.
Proof.
  intros Hl R. destruct (reach_HInv _ _ _ _ Hl R) as [_ _ G]. cbn [step]. unfold recv_retire.
  destruct (closed s); [cbn; discriminate|]. destruct (pkt s); [|cbn; discriminate].
  destruct (q >=? hseq s) eqn:E1; [cbn; discriminate|]. destruct (_ && _); [cbn; discriminate|]. intros _.
  cbn [snd]. unfold replenish. cbn [hosts hseq rlimit set_host].
  destruct (hgood_del q _ _ G) as [_ NI].
  pose proof (replenish_loop_seqs (Z.to_nat (Z.min REPLENISH_CAP (rlimit s))) (del_host q (hosts s)) (hseq s)
                (Z.min REPLENISH_CAP (rlimit s)) q) as S.
  destruct (replenish_loop _ _ _ _) as [hs next]. cbn [fst] in S. cbn [hosts set_host].
  destruct (has_host q hs) eqn:E; [|reflexivity]. apply has_host_In in E. destruct (S E); [tauto|lia].
Qed.

(* issued_accepted *)
Lemma issued_accepted_l s h : closed s = None -> In h (hosts s) -> fst (recv_packet s (h_seq h)) = OOk.
Proof.
  intros Ec Hin. unfold recv_packet. rewrite Ec.
  assert (E : has_host (h_seq h) (hosts s) = true) by (apply has_host_In; unfold hseqs; now apply in_map).
  rewrite E. rewrite andb_false_r. reflexivity.
Qed.

(* retirement_announced (for the sequence numbers the endpoint adopted) *)
Lemma retirement_accounted c l s x q : reach c l s x -> In q (seen s) ->
  q = cur s \/ In q (avail s) \/ In q (pend s) \/ In q (outs s) \/ In q (ackd s).
Proof. intros R. destruct (reach_PInv _ _ _ _ R) as [[_ [_ C]] _]. apply C. Qed.

Lemma lost_requeued s q : In q (pend (retire_delivery s q false)).
Proof. cbn. apply in_or_app. right. now left. Qed.

Lemma pending_all_written s : closed s = None ->
  snd (fst (send s)) = pend s /\ pend (snd (send s)) = [] /\ forall q, In q (pend s) -> In q (outs (snd (send s))).
Proof. intros _. cbn. repeat split. intros q H. apply in_or_app. now right. Qed.

(* ---------------------------------------------------------------- refutations (concrete witnesses) *)
Definition start (c : bool) (l : Z) : st := handshake_complete (init c) l.

(* F1: NEW_CONNECTION_ID repeating an already retired sequence number with a larger retire_prior_to *)
Definition w_exn : list op :=
  [RecvPacket 0; RecvNewCid 2 0 8; RecvNewCid 1 0 8; PacketDone; LocalChange; LocalChange; Send;
   RecvPacket 0; RecvNewCid 2 2 8].

Lemma dcid_not_retired_refuted_l :
  exists s x, reach true 8 s x /\ closed s = None /\ x = true /\
    cur s < rpt s /\ fst (fst (fst (send s))) < rpt s /\ In (cur s) (pend s).
Proof.
  exists (fst (runx (start true 8) false w_exn)), (snd (runx (start true 8) false w_exn)). split.
  - apply reach_runx; [reflexivity|constructor].
  - vm_compute. repeat split; try reflexivity. tauto.
Qed.

(* F2: a NEW_CONNECTION_ID that arrives after a larger retire_prior_to was processed is neither stored nor retired *)
Definition w_late : list op :=
  [RecvPacket 0; RecvNewCid 2 2 8; PacketDone; Send; RecvPacket 0; RecvNewCid 1 0 8; PacketDone; Send].

Lemma retirement_announced_refuted_l :
  exists s q, reach true 8 s false /\ closed s = None /\ In q (recvd s) /\ q < rpt s /\
    q <> cur s /\ ~ In q (avail s) /\ ~ In q (pend s) /\ ~ In q (outs s) /\ ~ In q (ackd s).
Proof.
  exists (fst (runx (start true 8) false w_late)), 1. split.
  - change false with (snd (runx (start true 8) false w_late)) at 2. apply reach_runx; [reflexivity|constructor].
  - vm_compute. repeat split; try reflexivity; try lia; try (intros H; decompose [or] H; discriminate || contradiction).
Qed.

(* F3: the peer retires a host ID whose NEW_CONNECTION_ID was never written: ConnectionIdRetired without
   ConnectionIdIssued *)
Definition w_unsent : list op := [Send; RecvPacket 0; RecvRetire 1; RecvRetire 8; PacketDone; Send].

Lemma retired_event_without_issued_l :
  exists s q, reach false 8 s false /\ closed s = None /\ In q (retiredev s) /\ ~ In q (issued s).
Proof.
  exists (fst (runx (start false 8) false w_unsent)), 8. split.
  - change false with (snd (runx (start false 8) false w_unsent)) at 3. apply reach_runx; [reflexivity|constructor].
  - vm_compute. repeat split; try reflexivity.
    + right. now left.
    + intros H; decompose [or] H; discriminate || contradiction.
Qed.

(* pending retirements are bounded only at the moment a NEW_CONNECTION_ID frame is accepted: lost frames are
   re-queued without a check *)
Example reach_nontrivial : exists s, reach true 8 s false /\ cur s = 2 /\ rpt s = 2 /\ pend s = [] /\ outs s = [0].
Proof.
  exists (fst (runx (start true 8) false [RecvPacket 0; RecvNewCid 2 2 8; PacketDone; Send])). split.
  - change false with (snd (runx (start true 8) false [RecvPacket 0; RecvNewCid 2 2 8; PacketDone; Send])) at 2.
    apply reach_runx; [reflexivity|constructor].
  - vm_compute. repeat split.
Qed.

(* ---------------------------------------------------------------- a peer that repeats frames verbatim *)
(* [processed s q r n]: the NEW_CONNECTION_ID(q, r, length n) frame gets past the validity checks in state s *)
Definition processed (s : st) (q r n : Z) : bool :=
  match closed s, pkt s with
  | None, Some _ => negb ((n =? 0) || (n >? CONNECTION_ID_MAX_SIZE)) && negb (r >? q)
  | _, _ => false
  end.

Definition hist_step (s : st) (o : op) (H : list (Z * Z)) : list (Z * Z) :=
  match o with
  | RecvNewCid q r n => if processed s q r n then (q, r) :: H else H
  | _ => H
  end.

(* the peer never sends two NEW_CONNECTION_ID frames with the same sequence number but different retire_prior_to
   (RFC 9000 19.15: retransmissions carry the same content) *)
Definition verbatim (H : list (Z * Z)) (o : op) : Prop :=
  match o with
  | RecvNewCid q r _ => forall r0, In (q, r0) H -> r0 = r
  | _ => True
  end.

Inductive reachH (c : bool) (l : Z) : st -> bool -> list (Z * Z) -> Prop :=
| reachH_init : reachH c l (handshake_complete (init c) l) false []
| reachH_step s x H o : reachH c l s x H -> legit s o -> verbatim H o ->
    reachH c l (snd (step s o)) (x || is_exn (fst (step s o))) (hist_step s o H).

Lemma reachH_reach c l s x H : reachH c l s x H -> reach c l s x.
Proof. induction 1; [constructor|now apply reach_step]. Qed.

Lemma change_cid_seen_rpt s : seen (change_cid s) = seen s /\ rpt (change_cid s) = rpt s.
Proof. unfold change_cid. destruct (avail s); cbn; auto. Qed.

Lemma step_other_seen_rpt s o : (forall q r n, o <> RecvNewCid q r n) ->
  seen (snd (step s o)) = seen s /\ rpt (snd (step s o)) = rpt s.
Proof.
  intros Hn. destruct o; cbn [step].
  - unfold handshake_complete, replenish. destruct (replenish_loop _ _ _ _). cbn. auto.
  - unfold recv_packet. destruct (closed s); [cbn; auto|]. destruct (_ && _); cbn; auto.
  - exfalso. eapply Hn. reflexivity.
  - unfold recv_retire. destruct (closed s); [cbn; auto|]. destruct (pkt s); [|cbn; auto].
    destruct (_ >=? _); [cbn; auto|]. destruct (_ && _); [cbn; auto|]. cbn [snd]. unfold replenish.
    destruct (replenish_loop _ _ _ _). cbn. auto.
  - unfold packet_done. destruct (closed s); [cbn; auto|]. destruct (pkt s); [|cbn; auto].
    destruct (_ && _); cbn; [apply change_cid_seen_rpt|auto].
  - cbn. apply change_cid_seen_rpt.
  - destruct (closed s); cbn; auto.
  - unfold retire_delivery. destruct acked; cbn; auto.
  - unfold newcid_delivery. destruct acked; cbn; auto.
Qed.

Lemma newcid_seen_rpt s q r n :
  let s' := snd (recv_newcid s q r n) in
  (processed s q r n = false -> seen s' = seen s /\ rpt s' = rpt s) /\
  (processed s q r n = true -> rpt s' = Z.max r (rpt s) /\ (forall a, In a (seen s') -> In a (seen s) \/ a = q)).
Proof.
  unfold processed, recv_newcid. cbn zeta.
  destruct (closed s); [cbn; split; [auto|discriminate]|]. destruct (pkt s); [|cbn; split; [auto|discriminate]].
  destruct ((n =? 0) || (n >? CONNECTION_ID_MAX_SIZE)); [cbn; split; [auto|discriminate]|].
  destruct (r >? q); [cbn; split; [auto|discriminate]|]. split; [cbn; discriminate|]. intros _.
  assert (S : forall a, In a (if (q >=? Z.max r (rpt s)) && negb (memz q (seen s)) then seen s ++ [q] else seen s) ->
                        In a (seen s) \/ a = q).
  { intros a. destruct (_ && _); [|tauto]. intros Ha. apply in_app_or in Ha. destruct Ha as [?|[?|[]]]; auto. }
  destruct (cur s <? Z.max r (rpt s)).
  - match goal with |- context [match ?a2 with [] => _ | _ => _ end] => destruct a2 as [|a t] end; [cbn; auto|].
    destruct (1 + Zlen _ >? _); [cbn; auto|]. destruct (Zlen _ >? _); cbn; auto.
  - destruct (1 + Zlen _ >? _); [cbn; auto|]. destruct (Zlen _ >? _); cbn; auto.
Qed.

Lemma reachH_inv c l s x H : reachH c l s x H ->
  0 <= rpt s /\
  (forall q r, In (q, r) H -> r <= rpt s) /\ (forall q, In q (seen s) -> q = 0 \/ exists r0, In (q, r0) H).
Proof.
  induction 1 as [|s x H o R [J0 [J1 J2]] Lg V].
  - unfold handshake_complete, replenish. destruct (replenish_loop _ _ _ _). cbn. split; [lia|]. split; [tauto|]. intros q [E|[]]. now left.
  - destruct o as [lim|d|q r n|q0| | | |q0 a0|q0 a0];
      try (match goal with |- context [step s ?o] =>
             destruct (step_other_seen_rpt s o) as [E1 E2]; [intros; discriminate|] end;
           rewrite E1, E2; cbn [hist_step]; repeat split; assumption).
    cbn [step hist_step]. pose proof (newcid_seen_rpt s q r n) as [N1 N2]. cbn zeta in N1, N2.
    destruct (processed s q r n).
    + destruct (N2 eq_refl) as [E2 S]. rewrite E2. split; [lia|]. split.
      * intros q' r' [E|Hin]; [inversion E; subst; lia|]. specialize (J1 _ _ Hin). lia.
      * intros a Ha. destruct (S a Ha) as [Hs|E].
        -- destruct (J2 a Hs) as [?|[r0 ?]]; [now left|right; exists r0; now right].
        -- subst a. right. exists r. now left.
    + destruct (N1 eq_refl) as [E1 E2]. rewrite E1, E2. auto.
Qed.

(* a peer that repeats NEW_CONNECTION_ID frames verbatim can never make _consume_peer_cid pop an empty list *)
Lemma verbatim_peer_no_exn c l s H : reachH c l s false H ->
  forall o, legit s o -> verbatim H o -> is_exn (fst (step s o)) = false.
Proof.
  intros R o Lg V. destruct (is_exn (fst (step s o))) eqn:E; [exfalso|reflexivity].
  destruct (only_newcid_raises _ _ E) as [q [r [n Eo]]]. subst o. cbn [step] in E. cbn [verbatim] in V.
  pose proof (reachH_reach _ _ _ _ _ R) as R'.
  assert (Ex : fst (recv_newcid s q r n) = OExnIndex) by (destruct (fst (recv_newcid s q r n)); cbn in E; congruence).
  destruct (proj1 (consume_empty_iff c l s q r n R') Ex) as [_ [_ [_ [Hrq [Hc [_ Hs]]]]]].
  destruct (reachH_inv _ _ _ _ _ R) as [J0 [J1 J2]]. destruct (dcid_not_retired_l _ _ _ R') as [A _].
  destruct (J2 q Hs) as [E0|[r0 Hin]]; [lia|]. rewrite (V r0 Hin) in Hin. specialize (J1 _ _ Hin). lia.
Qed.

Lemma verbatim_reach_no_exn c l s x H : reachH c l s x H -> x = false.
Proof.
  induction 1 as [|s x H o R IH Lg V]; [reflexivity|]. subst x.
  now rewrite (verbatim_peer_no_exn _ _ _ _ R o Lg V).
Qed.

Lemma dcid_not_retired_verbatim c l s x H : reachH c l s x H ->
  rpt s <= cur s /\ Forall (fun q => rpt s <= q) (avail s) /\ rpt s <= fst (fst (fst (send s))).
Proof.
  intros R. pose proof (verbatim_reach_no_exn _ _ _ _ _ R). subst x.
  apply (dcid_not_retired_l c l). now apply (reachH_reach _ _ _ _ H).
Qed.

Example reachH_nontrivial : exists s x H, reachH true 8 s x H /\ x = false /\ H = [(2, 2)] /\ cur s = 2.
Proof.
  eexists. eexists. eexists. split.
  - eapply (reachH_step true 8 _ _ _ (RecvNewCid 2 2 8)).
    + eapply (reachH_step true 8 _ _ _ (RecvPacket 0)); [constructor|exact I|exact I].
    + exact I.
    + cbn. tauto.
  - vm_compute. repeat split; reflexivity.
Qed.
