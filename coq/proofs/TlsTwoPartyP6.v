(* C03, two-party system: the closed theorems over ALL adversary-scheduled runs (exported by props/C03.v). *)
From AQ Require Import lib.Base gen.TlsDispatch model.TlsSymbolic proofs.TlsDispatchLegal.
From AQ Require Import proofs.TlsSymbolicP1 proofs.TlsSymbolicP2 proofs.TlsSymbolicP4 proofs.TlsSymbolicP5 proofs.TlsSymbolicP3.
From AQ Require Import model.TlsTwoParty proofs.TlsTwoPartyP1 proofs.TlsTwoPartyP2 proofs.TlsTwoPartyP3 proofs.TlsTwoPartyP4
                       proofs.TlsTwoPartyP5.

(* a run of the two-party system from its initial state that the adversary can schedule (every delivered byte string is
   in its Dolev-Yao knowledge at that moment) and in which the symbolic-crypto idealisation dy_sound holds at every
   knowledge state *)
Definition adversary_run (O : oracles) (adv : bytes -> Prop) (cc sc : cfg) (tr : list event) : Prop :=
  valid_run O cc sc adv (sys_init cc sc) tr /\ sound_run O cc sc adv (sys_init cc sc) tr.

(* the server's key log, exactly, and the same secrets in the client's key log with the directions mirrored;
   same cipher suite, resumption flag, ALPN protocol, early-data verdict *)
Definition agreement (O : oracles) (c s : tst) : Prop :=
  k_suite (the_ks c) = k_suite (the_ks s) /\ t_resumed c = t_resumed s /\ t_alpn c = t_alpn s /\ t_early c = t_early s /\
  exists eS cS sAp cAp keys0 a1 a2 a3 a4 b1 b2 b3 b4,
    t_keys s = keys0 ++ [(DIR_ENCRYPT, EP_HANDSHAKE, b1, eS); (DIR_DECRYPT, EP_HANDSHAKE, b2, cS);
                         (DIR_ENCRYPT, EP_ONE_RTT, b3, sAp); (DIR_DECRYPT, EP_ONE_RTT, b4, cAp)] /\
    In (DIR_DECRYPT, EP_HANDSHAKE, a1, eS) (t_keys c) /\ In (DIR_ENCRYPT, EP_HANDSHAKE, a2, cS) (t_keys c) /\
    In (DIR_DECRYPT, EP_ONE_RTT, a3, sAp) (t_keys c) /\ In (DIR_ENCRYPT, EP_ONE_RTT, a4, cAp) (t_keys c).

(* matching conversation: the server really processed the ClientHello chm = the client's own hello bytes, really emitted
   the flight outS, and the client's transcript is that hello followed by exactly that flight (then its own messages) *)
Definition matching (O : oracles) (cc sc : cfg) (y : sys) (chm : bytes) (ss1 : tst) (outS : out) : Prop :=
  framed chm /\ server_handle_hello O sc (init_server sc) chm = (OOk, ss1, outS) /\
  (forall m, In m (map snd outS) -> In m (y_out y)) /\
  chm = client_hello_tr O cc (t_resumed (y_c y)) /\
  exists rest, k_tr (the_ks (y_c y)) = chm ++ concat (map snd outS) ++ rest.

Section P6.
Variable O : oracles.
Variable adv : bytes -> Prop.
Variable cc sc : cfg.
Hypothesis I2 : ideal2 O.
Hypothesis Hpair : sig_pair O (hd [] (f_chain sc)) (f_key sc).

Notation K := (knows O adv).

Lemma secure_mono : forall outs outs' c,
  (forall x, K outs x -> K outs' x) -> secure O adv cc sc outs' c -> secure O adv cc sc outs c.
Proof.
  intros outs outs' c Hm [(A & B & C & D & E) | (A & B & C)]; [left | right].
  - split; [exact A |]. split; [exact B |]. split; [intro X; apply C; apply Hm; exact X |].
    split; [intros g p Hin X; apply (D g p Hin); apply Hm; exact X | intros g X; apply (E g); apply Hm; exact X].
  - split; [exact A |]. split; [exact B | intro X; apply C; apply Hm; exact X].
Qed.

(* the core: a completed, secure client agrees with a flight the server really emitted *)
Lemma completed_client : forall tr,
  adversary_run O adv cc sc tr ->
  let y := sys_run O cc sc (sys_init cc sc) tr in
  t_state (y_c y) = CLIENT_POST_HANDSHAKE -> secure O adv cc sc (y_out y) (y_c y) ->
  exists chm ss1 outS,
    framed chm /\ server_handle_hello O sc (init_server sc) chm = (OOk, ss1, outS) /\ srel ss1 (y_s y) /\
    (forall m, In m (map snd outS) -> In m (y_out y)) /\ agree O cc (y_c y) chm ss1 outS.
Proof.
  intros tr [V Sd] y Hp Hsec.
  destruct (SI_run O adv cc sc I2 Hpair tr _ None (SI_init O adv cc sc) V Sd) as (srv & S). fold y in S.
  destruct (si_ag _ _ _ _ _ _ S Hp) as (outs_t & Hm & Hag).
  destruct (Hag (secure_mono _ _ _ Hm Hsec)) as (chm & ss1 & outS & -> & Ag).
  destruct (si_s _ _ _ _ _ _ S) as (Fc & Hh & R).
  exists chm, ss1, outS. split; [exact Fc |]. split; [exact Hh |]. split; [exact R |].
  split; [exact (si_emit _ _ _ _ _ _ S) | exact Ag].
Qed.

Lemma client_completes_only_with_authentic_peer_lemma : forall tr,
  adversary_run O adv cc sc tr ->
  let y := sys_run O cc sc (sys_init cc sc) tr in
  t_state (y_c y) = CLIENT_POST_HANDSHAKE -> secure O adv cc sc (y_out y) (y_c y) ->
  exists chm ss1 outS, matching O cc sc y chm ss1 outS.
Proof.
  intros tr R y Hp Hsec. destruct (completed_client tr R Hp Hsec) as (chm & ss1 & outS & A & B & _ & D & E1 & E2 & _).
  exists chm, ss1, outS. unfold matching. auto.
Qed.

Lemma both_complete_agree_lemma : forall tr,
  adversary_run O adv cc sc tr ->
  let y := sys_run O cc sc (sys_init cc sc) tr in
  t_state (y_c y) = CLIENT_POST_HANDSHAKE -> t_state (y_s y) = SERVER_POST_HANDSHAKE ->
  secure O adv cc sc (y_out y) (y_c y) ->
  agreement O (y_c y) (y_s y) /\ exists chm ss1 outS, matching O cc sc y chm ss1 outS.
Proof.
  intros tr R y Hp Hsp Hsec.
  destruct (completed_client tr R Hp Hsec) as (chm & ss1 & outS & A & B & Rl & D & E1 & E2 & E3 & E4 & E5 & E6 & E7).
  split; [| exists chm, ss1, outS; unfold matching; auto].
  destruct E7 as (kF & eS & cS & keys0 & finm & a1 & a2 & a3 & a4 & SA & K1 & K2 & K3 & K4).
  destruct SA as ((b1 & b2 & b3 & Ks) & Nd & _).
  destruct Rl as [_ R1 R2 R3 R4 _ R6]. specialize (R6 Hsp).
  subst y. unfold agreement. rewrite R1, R2, R3, R4.
  split; [exact E3 |]. split; [exact E4 |]. split; [exact E5 |]. split; [exact E6 |].
  exists eS, cS. do 2 eexists. exists keys0, a1, a2, a3, a4, b1, b2, b3. eexists.
  split; [rewrite R6, Ks, Nd, <- app_assoc; reflexivity |]. auto.
Qed.

(* a handshake message the client hashed (received or sent) at a position where the honest exchange - the client's hello
   followed by the flight the server emitted - has the framed message a, is a: the adversary cannot have delivered
   anything else there to a client that completes; and the hello the server answered is byte for byte the client's *)
Lemma tamper_detected_two_party_lemma : forall tr,
  adversary_run O adv cc sc tr ->
  let y := sys_run O cc sc (sys_init cc sc) tr in
  t_state (y_c y) = CLIENT_POST_HANDSHAKE -> secure O adv cc sc (y_out y) (y_c y) ->
  exists chm ss1 outS, matching O cc sc y chm ss1 outS /\
    forall pre a a' post post',
      chm ++ concat (map snd outS) = pre ++ a ++ post -> k_tr (the_ks (y_c y)) = pre ++ a' ++ post' ->
      framed a -> framed a' -> a = a'.
Proof.
  intros tr R y Hp Hsec.
  destruct (client_completes_only_with_authentic_peer_lemma tr R Hp Hsec) as (chm & ss1 & outS & M).
  exists chm, ss1, outS. split; [exact M |].
  destruct M as (_ & _ & _ & _ & rest & T).
  intros pre a a' post post' T1 T2 Fa Fa'. subst y. rewrite T, app_assoc, T1, <- !app_assoc in T2.
  apply app_inv_head in T2. apply framed_prefix_eq in T2; auto. destruct T2 as [T2 _]. exact T2.
Qed.

(* no common option: whatever the adversary does, a client whose hello shares no cipher suite / signature algorithm /
   TLS version / ALPN protocol with the server never completes with that server (the server itself never answers a
   hello without a common option: no_common_option_partial) *)
Lemma no_common_option_two_party_lemma : forall tr,
  adversary_run O adv cc sc tr ->
  (forall r v, o_parse_ch O (client_hello_tr O cc r) = POk v -> no_common sc v) ->
  let y := sys_run O cc sc (sys_init cc sc) tr in
  ~ (t_state (y_c y) = CLIENT_POST_HANDSHAKE /\ secure O adv cc sc (y_out y) (y_c y)).
Proof.
  intros tr R Hn y [Hp Hsec].
  destruct (client_completes_only_with_authentic_peer_lemma tr R Hp Hsec) as (chm & ss1 & outS & _ & Hh & _ & Ec & _).
  destruct (o_parse_ch O chm) as [v | d | e] eqn:P.
  - rewrite Ec in P. pose proof (Hn _ _ P) as N. rewrite <- Ec in P.
    destruct (server_hello_no_common O sc (init_server sc) chm v P N) as [d Hd]. congruence.
  - unfold server_handle_hello in Hh. rewrite P in Hh. discriminate.
  - unfold server_handle_hello in Hh. rewrite P in Hh. discriminate.
Qed.

End P6.
