(* C16: handle_event of the H3 / H0 models never yields an escaping exception once the proposed fixes are
   applied; concrete witnesses that it does on the pinned code. *)
From AQ Require Import lib.Base lib.Tok model.H3Parse model.H0.

(* ------------------------------------------------------------------ which fixes the theorem needs *)
Definition c16_fixed (fx : fixes) : Prop :=
  fx_maxpush fx = true /\ fx_settings fx = true /\ fx_pushpromise fx = true.

Lemma all_fixed_c16 : c16_fixed all_fixed.
Proof. repeat split. Qed.

(* ------------------------------------------------------------------ request / push streams *)
Lemma endmark_no_exn : forall fx st e evs k, endmark fx st e evs <> HExn k.
Proof. intros; unfold endmark; destruct (fx_endmark fx && e); [destruct (check_cl st)|]; discriminate. Qed.

Lemma handle_rp_no_exn : forall fx O cl t d st e k,
  fx_pushpromise fx = true -> handle_rp_frame fx O cl t d st e <> HExn k.
Proof.
  intros fx O cl t d st e k Hp. unfold handle_rp_frame.
  destruct (t =? 0).
  { destruct (negb (s_hstate st =? 1)); [discriminate|].
    destruct (e && negb (check_cl _)); [discriminate|].
    destruct (e || negb (is_nil _)); discriminate. }
  destruct (t =? 1).
  { destruct (s_hstate st =? 2); [discriminate|].
    destruct (match d with Some d0 => o_dec O (s_id st) d0 | None => o_resume O (s_id st) end); try discriminate.
    destruct (o_val O _ hid) as [ok cl0]. destruct (negb ok); [discriminate|].
    destruct (e && negb (check_cl _)); discriminate. }
  destruct ((t =? 5) && is_none (s_push st)).
  { destruct (negb cl); [discriminate|].
    destruct d as [d|].
    - destruct (pull_uint_var d) as [[pid rest]|]; [|rewrite Hp; discriminate].
      destruct (o_dec O _ rest); try discriminate.
      destruct (negb (fst (o_val O 3 hid))); [discriminate|]. apply endmark_no_exn.
    - destruct (fx_pushblock fx); [|rewrite Hp; discriminate].
      destruct (o_resume O (s_id st)); try discriminate.
      destruct (negb (fst (o_val O 3 hid))); [discriminate|]. apply endmark_no_exn. }
  destruct (unexpected_rp t); [discriminate|]. apply endmark_no_exn.
Qed.

Lemma rq_loop_no_exn : forall fuel fx O cl fin st b evs k,
  fx_pushpromise fx = true -> rq_loop fuel fx O cl fin st b evs <> RExn k.
Proof.
  induction fuel; intros fx O cl fin st b evs k Hp; cbn [rq_loop]; [discriminate|].
  destruct (is_nil b); [discriminate|].
  match goal with |- (match ?h with _ => _ end) <> _ => destruct h as [[[t n] b2]|] end; [|discriminate].
  destruct (is_none (s_cur st) && (t =? 65)); [discriminate|].
  destruct (negb (t =? 0) && (Z.min n (Zlen b2) <? n)); [discriminate|].
  match goal with |- (match ?h with _ => _ end) <> _ => destruct h eqn:Hh end; try discriminate.
  - apply IHfuel; assumption.
  - apply handle_rp_no_exn in Hh; [contradiction|assumption].
Qed.

Lemma rq_recv_no_exn : forall fx O cl st d fin k,
  fx_pushpromise fx = true -> rq_recv fx O cl st d fin <> RExn k.
Proof.
  intros fx O cl st d fin k Hp. unfold rq_recv.
  match goal with |- (if ?c then _ else _) <> _ => destruct c end; [discriminate|].
  match goal with |- (match ?c with _ => _ end) <> _ => destruct c end; [discriminate|].
  match goal with |- (match ?c with _ => _ end) <> _ => destruct c end; [discriminate|].
  match goal with |- (if ?c then _ else _) <> _ => destruct c end.
  { match goal with |- (if ?c then _ else _) <> _ => destruct c end; discriminate. }
  match goal with |- (match ?c with _ => _ end) <> _ => destruct c eqn:Hl end; try discriminate.
  - match goal with |- (if ?c then _ else _) <> _ => destruct c end; discriminate.
  - apply rq_loop_no_exn in Hl; [contradiction|assumption].
Qed.

(* ------------------------------------------------------------------ control stream *)
Lemma parse_settings_no_exn : forall fuel fx b acc k,
  fx_settings fx = true -> parse_settings fuel fx b acc <> Exn k.
Proof.
  induction fuel; intros fx b acc k Hs; cbn [parse_settings]; [discriminate|].
  destruct (is_nil b); [discriminate|].
  destruct (pull_uint_var b) as [[s b1]|]; [|rewrite Hs; discriminate].
  destruct (pull_uint_var b1) as [[v b2]|]; [|rewrite Hs; discriminate].
  destruct (reserved_setting s); [discriminate|].
  destruct (negb (is_none (assoc s acc))); [discriminate|].
  apply IHfuel; assumption.
Qed.

Lemma control_frame_no_exn : forall fx c t d k,
  fx_maxpush fx = true -> fx_settings fx = true -> handle_control_frame fx c t d <> Exn k.
Proof.
  intros fx c t d k Hm Hs. unfold handle_control_frame.
  destruct (negb (t =? 4) && is_none (c_settings c)); [discriminate|].
  destruct (t =? 4).
  { destruct (negb (is_none (c_settings c))); [discriminate|].
    destruct (parse_settings _ fx d []) eqn:Hp; try discriminate.
    - destruct (validate_settings _ a); discriminate.
    - apply parse_settings_no_exn in Hp; [contradiction|assumption]. }
  destruct (t =? 13).
  { destruct (c_client c); [discriminate|].
    unfold parse_max_push_id. rewrite Hm.
    destruct (pull_uint_var d) as [[v r]|]; [|discriminate].
    destruct (is_nil r); discriminate. }
  destruct ((t =? 0) || (t =? 1) || (t =? 5) || (t =? 14)); discriminate.
Qed.

Lemma uni_loop_no_exn : forall fuel fx O fin st c b unb k,
  fx_maxpush fx = true -> fx_settings fx = true -> uni_loop fuel fx O fin st c b unb <> UExn k.
Proof.
  induction fuel; intros fx O fin st c b unb k Hm Hs; cbn [uni_loop]; [discriminate|].
  destruct (negb (stream_loops (s_stype st) || negb (is_nil b))); [discriminate|].
  match goal with |- (match ?h with _ => _ end) <> _ => destruct h as [[[[t b'] c']|u]|] end; try discriminate.
  destruct (t =? 0).
  { destruct fin; [discriminate|].
    destruct (pull_frame b') as [[[ft fd] b'']|]; [|discriminate].
    destruct (handle_control_frame fx c' ft fd) eqn:Hc; try discriminate.
    - apply IHfuel; assumption.
    - apply control_frame_no_exn in Hc; [contradiction|assumption|assumption]. }
  destruct (t =? 1).
  { match goal with |- (match ?h with _ => _ end) <> _ => destruct h as [[s1 b1]|] end; discriminate. }
  destruct (t =? 84).
  { match goal with |- (match ?h with _ => _ end) <> _ => destruct h as [[s1 b1]|] end; discriminate. }
  destruct (t =? 3).
  { destruct (o_ds O b'); [apply IHfuel; assumption|discriminate]. }
  destruct (t =? 2).
  { destruct (o_enc O b'); [apply IHfuel; assumption|discriminate]. }
  apply IHfuel; assumption.
Qed.

(* what the uni loop can report as unblocked comes from the encoder oracle *)
Definition enc_reports (O : oracle) (x : Z) : Prop := exists d l, o_enc O d = EUnblocked l /\ In x l.

Lemma uni_loop_unb : forall fuel fx O fin st c b unb st' c' unb',
  uni_loop fuel fx O fin st c b unb = ULoop st' c' unb' ->
  forall x, In x unb' -> In x unb \/ enc_reports O x.
Proof.
  induction fuel; intros fx O fin st c b unb st' c' unb'; cbn [uni_loop]; intros H x Hx.
  { inversion H; subst; auto. }
  destruct (negb (stream_loops (s_stype st) || negb (is_nil b))). { inversion H; subst; auto. }
  match type of H with (match ?h with _ => _ end) = _ => destruct h as [[[[t b1] c1]|u]|] end;
    try discriminate; [|inversion H; subst; auto].
  destruct (t =? 0).
  { destruct fin; [discriminate|].
    destruct (pull_frame b1) as [[[ft fd] b2]|]; [|inversion H; subst; auto].
    destruct (handle_control_frame fx c1 ft fd); try discriminate. eapply IHfuel; eauto. }
  destruct (t =? 1).
  { match type of H with (match ?h with _ => _ end) = _ => destruct h as [[s1 b2]|] end;
      [discriminate|inversion H; subst; auto]. }
  destruct (t =? 84).
  { match type of H with (match ?h with _ => _ end) = _ => destruct h as [[s1 b2]|] end;
      [discriminate|inversion H; subst; auto]. }
  destruct (t =? 3).
  { destruct (o_ds O b1); [|discriminate]. eapply IHfuel; eauto. }
  destruct (t =? 2).
  { destruct (o_enc O b1) eqn:He; [|discriminate].
    destruct (IHfuel _ _ _ _ _ _ _ _ _ _ H x Hx) as [Hin|Hr]; [|auto].
    apply in_app_or in Hin. destruct Hin; [auto|]. right. exists b1, sids. auto. }
  eapply IHfuel; eauto.
Qed.

(* the stream ids present in _stream *)
Definition has_stream (l : list hstream) (x : Z) : Prop := find_stream x l <> None.

Lemma put_stream_keeps : forall l s x, has_stream l x -> has_stream (put_stream s l) x.
Proof.
  unfold has_stream. induction l as [|a l IH]; intros s x H; cbn in *; [congruence|].
  destruct (s_id a =? s_id s) eqn:E; cbn.
  - destruct (s_id a =? x) eqn:E2.
    + apply Z.eqb_eq in E, E2. assert (s_id s =? x = true) by (apply Z.eqb_eq; lia). rewrite H0. discriminate.
    + destruct (s_id s =? x); [discriminate|assumption].
  - destruct (s_id a =? x); [discriminate|]. apply IH; assumption.
Qed.

Lemma app_stream_keeps : forall l s x, has_stream l x -> has_stream (l ++ [s]) x.
Proof.
  unfold has_stream. induction l as [|a l IH]; intros s x H; cbn in *; [congruence|].
  destruct (s_id a =? x); [discriminate|]. apply IH; assumption.
Qed.

(* the QPACK contract the theorem assumes, relative to the streams the connection knows *)
Definition qpack_contract (c : conn) (O : oracle) : Prop :=
  forall x, enc_reports O x -> has_stream (c_streams c) x /\ o_resume O x <> DBlocked.

Lemma handle_rp_resume_not_blocked : forall fx O cl t s e s',
  o_resume O (s_id s) <> DBlocked -> handle_rp_frame fx O cl t None s e <> HBlocked s'.
Proof.
  intros fx O cl t s e s' Hr. unfold handle_rp_frame.
  destruct (t =? 0).
  { destruct (negb (s_hstate s =? 1)); [discriminate|].
    destruct (e && negb (check_cl s)); [discriminate|]. destruct (e || negb (is_nil [])); discriminate. }
  destruct (t =? 1).
  { destruct (s_hstate s =? 2); [discriminate|].
    destruct (o_resume O (s_id s)); try discriminate; [|congruence].
    destruct (o_val O _ hid) as [ok cl0]. destruct (negb ok); [discriminate|].
    destruct (e && negb (check_cl _)); discriminate. }
  destruct ((t =? 5) && is_none (s_push s)).
  { destruct (negb cl); [discriminate|].
    destruct (fx_pushblock fx).
    - destruct (o_resume O (s_id s)); try discriminate; [|congruence].
      destruct (negb (fst (o_val O 3 hid))); [discriminate|].
      unfold endmark. destruct (fx_endmark fx && e); [destruct (check_cl s)|]; discriminate.
    - destruct (fx_pushpromise fx); discriminate. }
  destruct (unexpected_rp t); [discriminate|].
  unfold endmark. destruct (fx_endmark fx && e); [destruct (check_cl s)|]; discriminate.
Qed.

Lemma find_stream_id : forall l x s, find_stream x l = Some s -> s_id s = x.
Proof.
  induction l as [|a l IH]; intros x s H; cbn in H; [discriminate|].
  destruct (s_id a =? x) eqn:E; [inversion H; subst; apply Z.eqb_eq; assumption|apply IH; assumption].
Qed.

Lemma unblock_no_exn : forall fx O unb c evs k,
  fx_pushpromise fx = true ->
  (forall x, In x unb -> has_stream (c_streams c) x /\ o_resume O x <> DBlocked) ->
  unblock fx O c unb evs <> SExn k.
Proof.
  intros fx O unb. induction unb as [|sid rest IH]; intros c evs k Hp Hc; cbn [unblock]; [discriminate|].
  destruct (Hc sid (or_introl eq_refl)) as [Hs Hr].
  unfold has_stream in Hs. destruct (find_stream sid (c_streams c)) as [s|] eqn:Hf; [|congruence].
  pose proof (find_stream_id _ _ _ Hf) as Hid.
  match goal with |- (match ?h with _ => _ end) <> _ => destruct h eqn:Hh end; try discriminate.
  - match goal with |- (if ?b then _ else _) <> _ => destruct b end.
    + match goal with |- (match ?h with _ => _ end) <> _ => destruct h eqn:Hq end; try discriminate.
      * apply IH; [assumption|]. intros x Hx. destruct (Hc x (or_intror Hx)). split; [|assumption].
        cbn. apply put_stream_keeps; assumption.
      * apply rq_recv_no_exn in Hq; [contradiction|assumption].
    + apply IH; [assumption|]. intros x Hx. destruct (Hc x (or_intror Hx)). split; [|assumption].
      cbn. apply put_stream_keeps; assumption.
  - apply handle_rp_resume_not_blocked in Hh; [contradiction|]. rewrite Hid. assumption.
  - apply handle_rp_no_exn in Hh; [contradiction|assumption].
Qed.

(* streams known after get_or_create *)
Lemma get_or_create_keeps : forall c sid x, has_stream (c_streams c) x -> has_stream (c_streams (snd (get_or_create c sid))) x.
Proof.
  intros c sid x H. unfold get_or_create. destruct (find_stream sid (c_streams c)); cbn; [assumption|].
  apply app_stream_keeps; assumption.
Qed.

(* the uni loop only changes the connection's scalar fields, not _stream *)
Lemma handle_control_streams : forall fx c t d c', handle_control_frame fx c t d = Val c' -> c_streams c' = c_streams c.
Proof.
  intros fx c t d c'. unfold handle_control_frame.
  destruct (negb (t =? 4) && is_none (c_settings c)); [discriminate|].
  destruct (t =? 4).
  { destruct (negb (is_none (c_settings c))); [discriminate|].
    destruct (parse_settings _ fx d []); try discriminate.
    destruct (validate_settings _ a); [|discriminate]. intros H; inversion H; reflexivity. }
  destruct (t =? 13).
  { destruct (c_client c); [discriminate|]. destruct (parse_max_push_id fx d); try discriminate.
    intros H; inversion H; reflexivity. }
  destruct ((t =? 0) || (t =? 1) || (t =? 5) || (t =? 14)); [discriminate|]. intros H; inversion H; reflexivity.
Qed.

Lemma uni_loop_streams : forall fuel fx O fin st c b unb st' c' unb',
  uni_loop fuel fx O fin st c b unb = ULoop st' c' unb' -> c_streams c' = c_streams c.
Proof.
  induction fuel; intros fx O fin st c b unb st' c' unb'; cbn [uni_loop]; intros H.
  { inversion H; reflexivity. }
  destruct (negb (stream_loops (s_stype st) || negb (is_nil b))). { inversion H; reflexivity. }
  assert (Ht : forall t b1 c1,
    match s_stype st with
    | Some t0 => Some (inl (t0, b, c))
    | None => match pull_uint_var b with
              | None => None
              | Some (t0, b0) =>
                  if t0 =? 0 then if is_none (c_ctrl c) then Some (inl (t0, b0, set_ctrl c (Some (s_id st)))) else Some (inr tt)
                  else if t0 =? 3 then if is_none (c_qdec c) then Some (inl (t0, b0, set_qdec c (Some (s_id st)))) else Some (inr tt)
                  else if t0 =? 2 then if is_none (c_qenc c) then Some (inl (t0, b0, set_qenc c (Some (s_id st)))) else Some (inr tt)
                  else Some (inl (t0, b0, c))
              end
    end = Some (inl (t, b1, c1)) -> c_streams c1 = c_streams c).
  { intros t b1 c1 E. destruct (s_stype st). { inversion E; reflexivity. }
    destruct (pull_uint_var b) as [[t0 b0]|]; [|discriminate].
    destruct (t0 =? 0). { destruct (is_none (c_ctrl c)); inversion E; reflexivity. }
    destruct (t0 =? 3). { destruct (is_none (c_qdec c)); inversion E; reflexivity. }
    destruct (t0 =? 2). { destruct (is_none (c_qenc c)); inversion E; reflexivity. }
    inversion E; reflexivity. }
  match type of H with (match ?h with _ => _ end) = _ => destruct h as [[[[t b1] c1]|u]|] eqn:E end;
    try discriminate; [|inversion H; reflexivity].
  specialize (Ht _ _ _ eq_refl).
  destruct (t =? 0).
  { destruct fin; [discriminate|].
    destruct (pull_frame b1) as [[[ft fd] b2]|]; [|inversion H; subst; assumption].
    destruct (handle_control_frame fx c1 ft fd) eqn:Hc; try discriminate.
    apply IHfuel in H. apply handle_control_streams in Hc. congruence. }
  destruct (t =? 1).
  { match type of H with (match ?h with _ => _ end) = _ => destruct h as [[s1 b2]|] end;
      [discriminate|inversion H; subst; assumption]. }
  destruct (t =? 84).
  { match type of H with (match ?h with _ => _ end) = _ => destruct h as [[s1 b2]|] end;
      [discriminate|inversion H; subst; assumption]. }
  destruct (t =? 3). { destruct (o_ds O b1); [|discriminate]. apply IHfuel in H. congruence. }
  destruct (t =? 2). { destruct (o_enc O b1); [|discriminate]. apply IHfuel in H. congruence. }
  apply IHfuel in H. congruence.
Qed.

Lemma receive_stream_data0_no_exn : forall fx O c sid d fin k,
  c16_fixed fx -> qpack_contract c O -> receive_stream_data0 fx O c sid d fin <> SExn k.
Proof.
  intros fx O c sid d fin k (Hm & Hs & Hp) Hq. unfold receive_stream_data0.
  pose proof (get_or_create_keeps c sid) as Hk.
  destruct (get_or_create c sid) as [s0 c1] eqn:Hg. cbn [snd] in Hk.
  destruct (is_uni sid).
  - match goal with |- (match ?h with _ => _ end) <> _ => destruct h eqn:Hu end; try discriminate.
    + apply unblock_no_exn; [assumption|]. intros x Hx.
      pose proof (uni_loop_unb _ _ _ _ _ _ _ _ _ _ _ Hu x Hx) as [[]|Hr].
      destruct (Hq x Hr) as [Hh Hb]. split; [|assumption]. cbn.
      apply put_stream_keeps. apply uni_loop_streams in Hu. rewrite Hu. apply Hk; assumption.
    + destruct (s_stype st) as [z|]; [|discriminate].
      destruct z as [|p|p]; try discriminate. destruct p; try discriminate.
      destruct (rq_recv fx O (c_client c0) st [] fin) eqn:Hr; try discriminate.
      apply rq_recv_no_exn in Hr; [contradiction|assumption].
    + apply uni_loop_no_exn in Hu; [contradiction|assumption|assumption].
  - destruct (rq_recv fx O (c_client c1) s0 d fin) eqn:Hr; try discriminate.
    apply rq_recv_no_exn in Hr; [contradiction|assumption].
Qed.

Lemma receive_stream_data_no_exn : forall fx O c sid d fin k,
  c16_fixed fx -> qpack_contract c O -> receive_stream_data fx O c sid d fin <> SExn k.
Proof.
  intros fx O c sid d fin k Hf Hq. unfold receive_stream_data.
  destruct (receive_stream_data0 fx O c sid d fin) eqn:Hr; try discriminate.
  apply receive_stream_data0_no_exn in Hr; [contradiction|assumption|assumption].
Qed.

(* the exit of the context manager never drops a stream that waits for the encoder stream: the KeyError of the
   resume loop needs a stream that is blocked AND absent from _stream *)
Lemma remove_other : forall l sid x, x <> sid -> has_stream l x -> has_stream (remove_stream sid l) x.
Proof.
  unfold has_stream. induction l as [|a l IH]; intros sid x Hne H; cbn in *; [congruence|].
  destruct (s_id a =? sid) eqn:E.
  - destruct (s_id a =? x) eqn:E2; [lia|assumption].
  - cbn. destruct (s_id a =? x); [discriminate|]. apply IH; assumption.
Qed.

Lemma pop_keeps_blocked : forall c sid x s,
  find_stream x (c_streams c) = Some s -> s_blocked s = true -> has_stream (c_streams (pop_if_ended c sid)) x.
Proof.
  intros c sid x s Hf Hb. unfold pop_if_ended.
  destruct (find_stream sid (c_streams c)) as [s'|] eqn:Hs; [|unfold has_stream; congruence].
  destruct (is_ended c s') eqn:He; [|unfold has_stream; congruence].
  cbn. destruct (Z.eq_dec x sid) as [->|Hne].
  - rewrite Hf in Hs. inversion Hs; subst. unfold is_ended in He. rewrite Hb in He.
    rewrite andb_false_r in He. discriminate.
  - apply remove_other; [assumption|]. unfold has_stream. congruence.
Qed.

Lemma handle_event_no_raise : forall fx O c ev k,
  c16_fixed fx -> qpack_contract c O -> fst (handle_event fx O c ev) <> Raised k.
Proof.
  intros fx O c ev k Hf Hq. unfold handle_event.
  destruct ev as [sid d fin|d| |sid]; try (cbn; discriminate); (destruct (c_done c); [discriminate|]); cbn.
  - destruct (receive_stream_data fx O c sid d fin) eqn:Hr; cbn; try discriminate.
    apply receive_stream_data_no_exn in Hr; [contradiction|assumption|assumption].
  - unfold receive_datagram. destruct (pull_uint_var d) as [[q r]|]; discriminate.
  - discriminate.
Qed.

(* the contract holds at every step of a trace *)
Fixpoint trace_ok (fx : fixes) (c : conn) (tr : list (qevent * oracle)) : Prop :=
  match tr with
  | [] => True
  | (ev, orc) :: rest => qpack_contract c orc /\ trace_ok fx (snd (handle_event fx orc c ev)) rest
  end.

Theorem run_total : forall fx tr c,
  c16_fixed fx -> trace_ok fx c tr ->
  forall o, In o (run fx c tr) -> exists evs_or_code, o = Events (fst evs_or_code) \/ o = Closed (snd evs_or_code).
Proof.
  intros fx tr. induction tr as [|[ev orc] rest IH]; intros c Hf Hok o Hin; cbn in *; [contradiction|].
  destruct Hok as [Hq Hrest].
  pose proof (handle_event_no_raise fx orc c ev) as Hn.
  destruct (handle_event fx orc c ev) as [o1 c1] eqn:He. cbn in *.
  destruct o1 as [evs|code|k].
  - destruct Hin as [<-|Hin]; [exists (evs, 0); auto|eapply IH; eauto].
  - destruct Hin as [<-|Hin]; [exists ([], code); auto|eapply IH; eauto].
  - exfalso. eapply Hn; eauto.
Qed.

Theorem h3_total : forall tr client dgram,
  trace_ok all_fixed (conn_init client dgram) tr ->
  forall o, In o (run all_fixed (conn_init client dgram) tr) -> forall k, o <> Raised k.
Proof.
  intros tr client dgram Hok o Hin k.
  destruct (run_total all_fixed tr _ all_fixed_c16 Hok o Hin) as [[e c] [->| ->]]; discriminate.
Qed.

(* hypotheses are satisfiable by a non-trivial trace: a control stream with SETTINGS then a request *)
Definition quiet_oracle : oracle :=
  mkO (fun _ _ => DHeaders 1) (fun _ => DFailed) (fun _ _ => (true, None)) (fun _ => EUnblocked []) (fun _ => true).

Example trace_ok_example :
  trace_ok all_fixed (conn_init false true)
    [(QStream 2 [0; 4; 2; 1; 0] false, quiet_oracle); (QStream 0 [1; 1; 0; 0; 1; 97] true, quiet_oracle)].
Proof.
  assert (Hq : forall c, qpack_contract c quiet_oracle).
  { intros c x [d [l [H Hin]]]; cbn in H; inversion H; subst; contradiction. }
  cbn [trace_ok]. repeat (split; [apply Hq|]). exact I.
Qed.

(* ------------------------------------------------------------------ refutation on the pinned code *)
Definition ctl_prefix : list Z := [0; 4; 0].   (* stream type CONTROL, empty SETTINGS frame *)

Definition witness_maxpush_assert : list (qevent * oracle) :=
  [(QStream 2 (ctl_prefix ++ [13; 2; 1; 0]) false, quiet_oracle)].
Definition witness_maxpush_read : list (qevent * oracle) :=
  [(QStream 2 (ctl_prefix ++ [13; 0]) false, quiet_oracle)].
Definition witness_settings : list (qevent * oracle) :=
  [(QStream 2 [0; 4; 1; 6] false, quiet_oracle)].
Definition witness_pushpromise : list (qevent * oracle) :=
  [(QStream 0 [5; 0] false, quiet_oracle)].

Theorem h3_total_refuted :
  run unfixed (conn_init false true) witness_maxpush_assert = [Raised X_MAXPUSH_ASSERT] /\
  run unfixed (conn_init false true) witness_maxpush_read = [Raised X_MAXPUSH_READ] /\
  run unfixed (conn_init false true) witness_settings = [Raised X_SETTINGS_READ] /\
  run unfixed (conn_init true true) witness_pushpromise = [Raised X_PUSHPROMISE_READ] /\
  trace_ok unfixed (conn_init false true) witness_maxpush_assert /\
  trace_ok unfixed (conn_init false true) witness_maxpush_read /\
  trace_ok unfixed (conn_init false true) witness_settings /\
  trace_ok unfixed (conn_init true true) witness_pushpromise.
Proof.
  assert (Hq : forall c, qpack_contract c quiet_oracle).
  { intros c x [d [l [H Hin]]]; cbn in H; inversion H; subst; contradiction. }
  repeat (split; [vm_compute; reflexivity|]).
  unfold witness_maxpush_assert, witness_maxpush_read, witness_settings, witness_pushpromise.
  cbn [trace_ok]. repeat match goal with |- _ /\ _ => split end; try exact I; apply Hq.
Qed.

(* the same inputs on the fixed model close the connection with H3_FRAME_ERROR *)
Theorem h3_witnesses_fixed :
  run all_fixed (conn_init false true) witness_maxpush_assert = [Closed H3_FRAME_ERROR] /\
  run all_fixed (conn_init false true) witness_maxpush_read = [Closed H3_FRAME_ERROR] /\
  run all_fixed (conn_init false true) witness_settings = [Closed H3_FRAME_ERROR] /\
  run all_fixed (conn_init true true) witness_pushpromise = [Closed H3_FRAME_ERROR].
Proof. repeat split; vm_compute; reflexivity. Qed.

(* ------------------------------------------------------------------ HTTP/0.9 *)
Theorem h0_total : forall tr c o k, In o (h0_run true c tr) -> o <> H0Raised k.
Proof.
  induction tr as [|[[sid d] fin] rest IH]; intros c o k Hin; cbn in Hin; [contradiction|].
  assert (Hne : forall k', fst (h0_handle true c sid d fin) <> H0Raised k').
  { intros k'. unfold h0_handle. destruct (negb (sid mod 4 =? 0)); [discriminate|].
    destruct (pop_buf sid (h_bufs c)) as [old bufs].
    destruct (memz sid (h_recvd c)); [discriminate|].
    destruct (h_client c); [discriminate|].
    destruct (ends_crlf (old ++ d) || fin); [|discriminate].
    destruct (split_sp (rstrip (old ++ d))) as [[m p]|]; discriminate. }
  destruct (h0_handle true c sid d fin) as [o1 c1]. cbn in Hne.
  destruct o1 as [evs|k1]; [|exfalso; eapply Hne; eauto].
  destruct Hin as [<-|Hin]; [discriminate|eapply IH; eauto].
Qed.

Theorem h0_total_refuted :
  h0_run false (h0_init false) [(0, [71; 69; 84; 13; 10], false)] = [H0Raised 51].
Proof. vm_compute; reflexivity. Qed.
