(* Link between the composed timer model (model/TimersFull.v) and C08's model of recovery.py (model/Recovery.v):
   TimersFull.loss_time_of -- which source the loss detection timer consults, in which state -- is
   Recovery.loss_detection_time on the projection of the recovery state, for every float interface whose `<` on times
   is the order of Z; the PTO deadline VALUE is the float expression of recovery.py. *)
From AQ Require Import lib.Base lib.Tok model.Timers model.RecBase model.Recovery model.TimersFull.

Section Link.
Context {C : Type} (F : fops Z) (cc : ccops Z C).

(* the timer-relevant projection of a QuicPacketSpace of model/Recovery.v; ack_at / discarded are not recovery state *)
Definition abs_space (s : Recovery.space (T:=Z)) : tspace := mkTs None (sp_loss_time s) (sp_aeif s) false 0.

Definition abs_rec (c : conn) (st : Recovery.rec (T:=Z) (C:=C)) : full :=
  mkFull c (map abs_space (r_spaces st)) (r_pcav st) (r_pto st) None false false false (r_probes st).

(* _time_of_last_sent_ack_eliciting_packet + get_probe_timeout() * 2**_pto_count *)
Definition pto_deadline (st : Recovery.rec (T:=Z) (C:=C)) : Z :=
  fadd F (r_tlast st) (fmul F (probe_timeout F st) (fofZ F (2 ^ r_pto st))).

Lemma loss_space_link (Hlt : forall a b, fltb F a b = (a <? b)) l : forall i best,
  loss_space_from F i l best = lspace_from i (map abs_space l) best.
Proof.
  induction l as [|s t IH]; intros i best; [reflexivity|]. cbn [loss_space_from lspace_from map abs_space ts_loss_time].
  rewrite <- IH. destruct (sp_loss_time s) as [lt|]; [|reflexivity]. destruct best as [[j b]|]; [|reflexivity].
  now rewrite Hlt.
Qed.

Lemma sum_aeif_link l : Recovery.sum_aeif l = TimersFull.sum_aeif (map abs_space l).
Proof. induction l as [|s t IH]; [reflexivity|]. cbn. unfold Recovery.sum_aeif, TimersFull.sum_aeif in *. cbn. now rewrite IH. Qed.

Lemma loss_time_link_lemma : (forall a b, fltb F a b = (a <? b)) -> forall c st,
  Recovery.loss_detection_time F st = loss_time_of (abs_rec c st) (pto_deadline st).
Proof.
  intros Hlt c st. unfold Recovery.loss_detection_time, loss_time_of, Recovery.loss_space, lspace, abs_rec. cbn [f_sp f_pcav].
  rewrite (loss_space_link Hlt). destruct (lspace_from 0 (map abs_space (r_spaces st)) None) as [[i lt]|]; [reflexivity|].
  rewrite sum_aeif_link. reflexivity.
Qed.
End Link.
