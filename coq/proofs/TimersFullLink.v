(* Link between the composed timer model (model/TimersFull.v) and C08's model of recovery.py (model/Recovery.v):
   TimersFull.loss_time_of -- which source the loss detection timer consults, in which state -- is
   Recovery.loss_detection_time on the projection of the recovery state, for every float interface whose `<` on times
   is the order of Z; the PTO deadline VALUE is the float expression of recovery.py. *)
From AQ Require Import lib.Base lib.Tok model.Timers model.RecBase model.Recovery model.TimersFull.

Section Link.
Context {C : Type} (F : fops Z) (cc : ccops Z C).

(* the timer-relevant projection of a QuicPacketSpace of model/Recovery.v; ack_at / discarded are not recovery state *)
Definition abs_space (s : Recovery.space (T:=Z)) : tspace := mkTs None (sp_loss_time s) (sp_aeif s) false 0.

Definition abs_rec (c : conn) (st : Recovery.rec (T:=Z) (C:=C)) : full :=
  mkFull c (map abs_space (r_spaces st)) (r_pcav st) (r_pto st) None false false false (r_probes st).

(* _time_of_last_sent_ack_eliciting_packet + get_probe_timeout() * 2**_pto_count *)
Definition pto_deadline (st : Recovery.rec (T:=Z) (C:=C)) : Z :=
  fadd F (r_tlast st) (fmul F (probe_timeout F st) (fofZ F (2 ^ r_pto st))).

Lemma loss_space_link (Hlt : forall a b, fltb F a b = (a <? b)) l : forall i best,
  loss_space_from F i l best = lspace_from i (map abs_space l) best.
Proof.
  induction l as [|s t IH]; intros i best; [reflexivity|]. cbn [loss_space_from lspace_from map abs_space ts_loss_time].
  rewrite <- IH. destruct (sp_loss_time s) as [lt|]; [|reflexivity]. destruct best as [[j b]|]; [|reflexivity].
  now rewrite Hlt.
Qed.

Lemma sum_aeif_link l : Recovery.sum_aeif l = TimersFull.sum_aeif (map abs_space l).
Proof. induction l as [|s t IH]; [reflexivity|]. cbn. unfold Recovery.sum_aeif, TimersFull.sum_aeif in *. cbn. now rewrite IH. Qed.

Lemma loss_time_link_lemma : (forall a b, fltb F a b = (a <? b)) -> forall c st,
  Recovery.loss_detection_time F st = loss_time_of (abs_rec c st) (pto_deadline st).
Proof.
  intros Hlt c st. unfold Recovery.loss_detection_time, loss_time_of, Recovery.loss_space, lspace, abs_rec. cbn [f_sp f_pcav].
  rewrite (loss_space_link Hlt). destruct (lspace_from 0 (map abs_space (r_spaces st)) None) as [[i lt]|]; [reflexivity|].
  rewrite sum_aeif_link. reflexivity.
Qed.
End Link.

(* _detect_loss at now: in EXACT arithmetic every packet it keeps has sent_time + loss_delay > now, so the loss_time it
   stores is None or later than now: firing the loss timer at loss_time advances it.  (With floats sent_time + delay == now
   and sent_time > now - delay can both hold: C19's O3(a).) *)
Section Adv.
Context (F : fops Z).

Definition exact_arith : Prop :=
  (forall a b, fadd F a b = a + b) /\ (forall a b, fleb F a b = (a <=? b)) /\ (forall a b, fltb F a b = (a <? b)).

Lemma detect_scan_advances_lemma : exact_arith -> forall la pth now delay l lt0 lost x,
  (forall y, lt0 = Some y -> now < y) ->
  detect_scan F la pth (now - delay) delay l lt0 = (lost, Some x) -> now < x.
Proof.
  intros (Hadd & Hle & Hlt) la pth now delay l. induction l as [|p t IH]; intros lt0 lost x H0 H; cbn [detect_scan] in H.
  - inversion H; subst. now apply H0.
  - destruct (p_pn p >? la); [inversion H; subst; now apply H0|].
    destruct ((p_pn p <=? pth) || fleb F (p_time p) (now - delay)) eqn:E.
    + destruct (detect_scan F la pth (now - delay) delay t lt0) as [lost' lt'] eqn:Er. inversion H; subst. eapply IH; eauto.
    + apply orb_false_iff in E. destruct E as [_ E]. rewrite Hle in E. apply Z.leb_gt in E.
      eapply IH; [|exact H]. intros y Hy. rewrite Hadd in Hy. destruct lt0 as [x0|].
      * rewrite Hlt in Hy. destruct (p_time p + delay <? x0); inversion Hy; subst; [lia|now apply H0].
      * inversion Hy; subst. lia.
Qed.
End Adv.
