(* C05: receive_datagram from the raw datagram bytes (model/ConnDgram.v) never lets an exception escape.
   Puts together: HeaderProofs.header_pull_total (C17: pull_quic_header raises ValueError classes only and the packet
   length it returns lies inside the datagram), ConnRecvP.header_total (header decisions), ConnRecvP (frame loop with the
   TLS message layer below CRYPTO), and the invariants that make the KeyError / seek / data_slice sites dead. *)
From AQ Require Import lib.Base lib.Tok model.RangeSet model.StreamRecv model.Frames gen.C05Tables
  model.ConnRecv proofs.FramesP proofs.ConnRecvP model.ConnDgram.
From AQ Require model.Codec model.Varint model.Header model.TlsRecv gen.TlsDispatch proofs.CodecProofs
  proofs.HeaderProofs proofs.TlsRecvP.
From Coq Require Import Lia.

(* ---------- how many bytes a successfully parsed header has consumed (no hypothesis on the bytes) *)
Lemma pull_be_len n bs v rest : Codec.pull_be n bs = Ok (v, rest) -> Zlen rest = Zlen bs - Z.of_nat n.
Proof.
  unfold Codec.pull_be. destruct (Zlen bs <? Z.of_nat n) eqn:E; [discriminate|].
  intros H; injection H as _ <-. unfold Zlen in *. rewrite skipn_length. lia.
Qed.

Lemma pull_bytes_len2 n bs v rest : Codec.pull_bytes n bs = Ok (v, rest) -> Zlen rest = Zlen bs - n /\ 0 <= n.
Proof.
  unfold Codec.pull_bytes. destruct ((n <? 0) || (Zlen bs <? n)) eqn:E; [discriminate|].
  intros H; injection H as _ <-. unfold Zlen, zdrop in *. rewrite skipn_length. lia.
Qed.

Lemma pull_uint_var_len2 bs v rest : Varint.pull_uint_var bs = Ok (v, rest) -> Zlen rest <= Zlen bs.
Proof.
  unfold Varint.pull_uint_var. destruct bs as [|b0 t]; [discriminate|].
  destruct (Zlen (b0 :: t) <? Z.of_nat (Varint.var_len b0)); [discriminate|].
  intros H; injection H as _ <-. unfold Zlen. rewrite skipn_length. lia.
Qed.

Ltac hstep H :=
  match type of H with
  | context [bind (Codec.pull_uint8 ?b) _] =>
      let E := fresh "E" in destruct (Codec.pull_uint8 b) as [[? ?]|?] eqn:E; cbn [bind] in H; [apply pull_be_len in E|discriminate]
  | context [bind (Codec.pull_uint32 ?b) _] =>
      let E := fresh "E" in destruct (Codec.pull_uint32 b) as [[? ?]|?] eqn:E; cbn [bind] in H; [apply pull_be_len in E|discriminate]
  | context [bind (Codec.pull_bytes ?n ?b) _] =>
      let E := fresh "E" in destruct (Codec.pull_bytes n b) as [[? ?]|?] eqn:E; cbn [bind] in H; [apply pull_bytes_len2 in E|discriminate]
  | context [bind (Varint.pull_uint_var ?b) _] =>
      let E := fresh "E" in destruct (Varint.pull_uint_var b) as [[? ?]|?] eqn:E; cbn [bind] in H; [apply pull_uint_var_len2 in E|discriminate]
  end.

(* 0 <= Zlen r for every buffer remainder named in a length equation (no auto-generated names in the script) *)
Ltac nonnegs :=
  repeat match goal with
  | H : Zlen ?r = _ |- _ =>
      lazymatch goal with
      | _ : 0 <= Zlen r |- _ => fail
      | _ => pose proof (CodecProofs.Zlen_nonneg r)
      end
  end.

Lemma finish_long_inv total version ptype dcid scid token tag rl r h rest :
  Header.finish_long total version ptype dcid scid token tag rl r = Ok (h, rest) ->
  rest = r /\ Header.h_type h = ptype.
Proof.
  unfold Header.finish_long. destruct (rl >? Zlen r); [discriminate|]. intros H; injection H as <- <-. auto.
Qed.

(* at least one byte; a Retry header has consumed its 16-byte integrity tag *)
Lemma header_consumed hcl bs h rest :
  Header.pull_quic_header hcl bs = Ok (h, rest) ->
  Zlen rest + (if Header.h_type h =? Header.PT_RETRY then 16 else 1) <= Zlen bs.
Proof.
  intros H. unfold Header.pull_quic_header in H.
  hstep H.
  destruct (Header.is_long_header _).
  2:{ destruct (negb (Header.has_fixed_bit _)); [discriminate|]. hstep H.
      injection H as <- <-. cbn [Header.h_type]. change (Header.PT_ONE_RTT =? Header.PT_RETRY) with false. cbv iota. lia. }
  hstep H. hstep H.
  destruct (_ >? Header.CONNECTION_ID_MAX_SIZE); [discriminate|]. hstep H. hstep H.
  destruct (_ >? Header.CONNECTION_ID_MAX_SIZE); [discriminate|]. hstep H.
  destruct (_ =? 0).
  { destruct (Header.pull_versions _); cbn [bind] in H; [|discriminate]. injection H as <- <-.
    cbn [Header.h_type]. change (Header.PT_VERSION_NEGOTIATION =? Header.PT_RETRY) with false. cbv iota.
    change (Zlen (@nil Z)) with 0. nonnegs. simpl in *. lia. }
  destruct (negb (Header.has_fixed_bit _)); [discriminate|].
  match type of H with context [if ?p =? Header.PT_INITIAL then _ else _] => set (ptype := p) in * end.
  destruct (ptype =? Header.PT_INITIAL) eqn:EI.
  { hstep H. hstep H. hstep H. apply finish_long_inv in H. destruct H as [-> ->].
    assert (ptype = Header.PT_INITIAL) by lia. rewrite H. change (Header.PT_INITIAL =? Header.PT_RETRY) with false. cbv iota.
    simpl in *. lia. }
  destruct ((ptype =? Header.PT_ZERO_RTT) || (ptype =? Header.PT_HANDSHAKE)) eqn:EZ.
  { hstep H. apply finish_long_inv in H. destruct H as [-> ->].
    assert (ptype = Header.PT_ZERO_RTT \/ ptype = Header.PT_HANDSHAKE) as [->| ->] by lia;
      [change (Header.PT_ZERO_RTT =? Header.PT_RETRY) with false|change (Header.PT_HANDSHAKE =? Header.PT_RETRY) with false];
      cbv iota; simpl in *; lia. }
  hstep H. hstep H. apply finish_long_inv in H. destruct H as [-> ->].
  unfold Header.RETRY_INTEGRITY_TAG_SIZE in *.
  destruct (ptype =? Header.PT_RETRY); simpl in *; lia.
Qed.

(* ---------- header decisions: which verdicts are possible where *)
Lemma decide_process_false ic ff pt len k vs :
  recv_header_decide true ic ff pt len k vs = DProcess false -> negb ic && ff = false.
Proof.
  unfold recv_header_decide.
  repeat match goal with |- context [if ?c then _ else _] => destruct c eqn:? end; try discriminate; auto.
Qed.

Lemma decide_process_true ic ff pt len k vs :
  recv_header_decide true ic ff pt len k vs = DProcess true -> ic = false /\ ff = true /\ pt = 0.
Proof.
  unfold recv_header_decide.
  repeat match goal with |- context [if ?c then _ else _] => destruct c eqn:? end; try discriminate.
  intros _. destruct ic, ff; try discriminate. repeat split; lia.
Qed.

Lemma decide_negotiate ic ff pt len k vs :
  recv_header_decide true ic ff pt len k vs = DNegotiate -> pt = 4 \/ pt = 3.
Proof.
  unfold recv_header_decide.
  repeat match goal with |- context [if ?c then _ else _] => destruct c eqn:? end; try discriminate; lia.
Qed.

(* ---------- the invariant of a connection between API calls *)
Definition dconn_ok (c : dconn) : Prop :=
  tls_ok (c_tls (d_st c)) /\
  (d_init c = true \/ (c_is_client (d_st c) = false /\ d_state c = Q_FIRSTFLIGHT)) /\
  (q_end (d_state c) = false -> d_pending c = false -> c_close (d_st c) = None).

(* documented codes at datagram level: the oracle pool is that of all packets of the datagram *)
Definition dcode_ok (orcs : list pkt_orc) (code : Z) : Prop :=
  In code all_error_codes
  \/ (exists d, In d TlsRecvP.raised_alerts /\ code = EC_CRYPTO_ERROR + d)
  \/ code = EC_CRYPTO_ERROR + TlsDispatch.AD_missing_extension
  \/ (exists po o, In po orcs /\ In o (concat (po_tls po)) /\ code = TlsRecv.o_tp_code o /\ code <> 0).

Definition own_close_ok (orcs : list pkt_orc) (ev : option (bool * Z * Z)) : Prop :=
  forall code ft, ev = Some (true, code, ft) -> dcode_ok orcs code.

Lemma code_ok_dcode orcs po t code :
  In po orcs -> orc_pool t = concat (po_tls po) -> code_ok t code -> dcode_ok orcs code.
Proof.
  intros Hin Hp [H|[H|[H|(o & Ho & H)]]]; unfold dcode_ok; auto.
  right. right. right. exists po, o. rewrite <- Hp. auto.
Qed.

Lemma fresh_ctx_wf ic g : TlsRecvP.wf0 (fresh_ctx ic g).
Proof. destruct ic; right; cbn; auto. Qed.

Lemma initialize_props c :
  TlsRecvP.wf_cfg (ts_cfg (c_tls (d_st c))) ->
  tls_ok (c_tls (d_st (initialize c))) /\ d_init (initialize c) = true /\
  c_close (d_st (initialize c)) = c_close (d_st c) /\ d_state (initialize c) = d_state c /\
  d_pending (initialize c) = d_pending c /\ c_is_client (d_st (initialize c)) = c_is_client (d_st c).
Proof.
  intros Hg. unfold initialize. cbn. repeat split; auto. apply fresh_ctx_wf.
Qed.

Lemma bytes_ok_zdrop n bs : CodecProofs.bytes_ok bs -> CodecProofs.bytes_ok (zdrop n bs).
Proof.
  intros H. unfold zdrop. rewrite <- (firstn_skipn (Z.to_nat n) bs) in H.
  apply CodecProofs.bytes_ok_app in H. tauto.
Qed.

(* ---------- one decrypted packet *)
Lemma packet_step_total st epoch creq b :
  tls_ok (c_tls st) -> c_close st = None ->
  match packet_step true st epoch creq false b with
  | P2Ok st' _ =>
      tls_ok (c_tls st') /\
      (c_close st' = None \/ (exists code ft, c_close st' = Some (false, code, ft)) \/
       (exists code ft, c_close st' = Some (true, code, ft) /\ code_ok (c_tls st) code))
  | P2Exn _ _ => False
  end.
Proof.
  intros Ho Hc. unfold packet_step.
  pose proof (payload_received_total st epoch creq b Ho) as G.
  destruct (payload_received true st epoch creq b) as [st' n fo cr|prior n code ft|n k]; [| |exact G].
  - destruct G as [[T _] C]. split; [exact (T Ho)|].
    destruct C as [C|[_ (c1 & f1 & C)]]; rewrite C; [left; exact Hc|right; left; eauto].
  - destruct G as [G1 C]. split.
    + unfold close_of. destruct (c_close (set_close st prior)); cbn; exact Ho.
    + rewrite Hc in C. destruct C as [->|[_ (c1 & f1 & ->)]]; unfold close_of; cbn.
      * right. right. exists code, ft. split; [reflexivity|exact G1].
      * right. left. eauto.
Qed.

Lemma change_cid_props st : c_tls (change_connection_id st) = c_tls st /\ c_close (change_connection_id st) = c_close st
  /\ c_is_client (change_connection_id st) = c_is_client st.
Proof. unfold change_connection_id. destruct (c_peer_avail st); auto. Qed.

(* ---------- one iteration of the loop over the coalesced packets *)
Lemma zdrop_shorter (n : Z) (bs : list Z) : 1 <= n -> bs <> [] -> (length (zdrop n bs) < length bs)%nat.
Proof.
  intros Hn Hb. unfold zdrop. rewrite skipn_length. destruct bs as [|x r]; [contradiction|]. cbn [length]. lia.
Qed.

Definition step_ok (all : list pkt_orc) (bs : list Z) (r : dstep) : Prop :=
  match r with
  | SDone (DOk c' _) => dconn_ok c' /\ own_close_ok (po0 :: all) (c_close (d_st c'))
  | SDone (DRaise _ _) => False
  | SNextPkt c' next orcs' _ =>
      dconn_ok c' /\ q_end (d_state c') = false /\ d_pending c' = false /\
      CodecProofs.bytes_ok next /\ incl orcs' all /\ (length next < length bs)%nat
  end.

Lemma dgram_step_total : forall total c bs orcs all tr,
  bs <> [] -> CodecProofs.bytes_ok bs -> dconn_ok c -> q_end (d_state c) = false -> d_pending c = false ->
  incl orcs all ->
  step_ok all bs (dgram_step true total c bs orcs tr).
Proof.
  intros total c bs2 orcs all tr Hne Hb Hc Hq Hp Hi.
    assert (Hn : c_close (d_st c) = None) by (destruct Hc as (_ & _ & G); auto).
    assert (Here : dconn_ok c /\ own_close_ok (po0 :: all) (c_close (d_st c))).
    { split; [exact Hc|]. intros code ft E. rewrite Hn in E. discriminate. }
    unfold dgram_step.
    pose proof (HeaderProofs.header_pull_total (d_hcl c) bs2 Hb) as HP.
    pose proof (header_consumed (d_hcl c) bs2) as HC.
    destruct (Header.pull_quic_header (d_hcl c) bs2) as [[h rest]|k].
    2:{ destruct HP as [-> | ->]; cbn; exact Here. }
    specialize (HC h rest eq_refl). destruct HP as (Hsuf & Hlen & _).
    pose proof (HeaderProofs.suffix_len _ _ Hsuf) as Hsl.
    set (o := hd po0 orcs).
    assert (Ho : In o (po0 :: all)).
    { unfold o. destruct orcs as [|o1 r]; cbn [hd]; [left; reflexivity|right; apply Hi; left; reflexivity]. }
    assert (Hi' : incl (tl orcs) all).
    { destruct orcs as [|o1 r]; cbn [tl]; [exact Hi|]. intros x Hx. apply Hi. right. exact Hx. }
    cbv zeta.
    destruct (recv_header_decide true (c_is_client (d_st c)) (q_first (d_state c)) (Header.h_type h) total
                (0 <=? po_dcid_seq o)
                match Header.h_version h with Some v => zmem v (d_versions c) | None => true end) as [why| |creq|k] eqn:ED.
    + exact Here.
    + (* Version Negotiation / Retry *)
      destruct Hc as (Ht & Hinit & Hgate).
      destruct (Header.h_type h =? Header.PT_VERSION_NEGOTIATION) eqn:EV.
      * unfold vn_packet.
        destruct (c_is_client (d_st c) && q_first (d_state c) && negb (d_vn_done c)) eqn:E1; [|exact Here].
        destruct (zmem (d_version c) (Header.h_versions h)); [exact Here|].
        destruct (find _ (d_versions c)) as [v|].
        -- pose proof (initialize_props (with_version c v true (d_retry_count c)) (proj1 Ht)) as (P1 & P2 & P3 & P4 & P5 & P6).
           split; [|intros code ft E; rewrite P3 in E; cbn in E; rewrite Hn in E; discriminate].
           split; [exact P1|]. split; [left; exact P2|]. rewrite P3, P4, P5. exact Hgate.
        -- unfold vn_terminate. split.
           ++ assert (Hi2 : d_init c = true).
              { destruct Hinit as [X|[X _]]; [exact X|]. rewrite X in E1. discriminate. }
              split; [exact Ht|]. split; [left; cbn; exact Hi2|]. cbn. discriminate.
           ++ intros code ft E. cbn in E. injection E as <- _. left. cbv. auto 20.
      * apply decide_negotiate in ED. assert (Header.h_type h = Header.PT_RETRY) as ER by (unfold Header.PT_VERSION_NEGOTIATION, Header.PT_RETRY in *; lia).
        rewrite ER in HC. change (Header.PT_RETRY =? Header.PT_RETRY) with true in HC. cbv iota in HC.
        destruct (Zlen bs2 - Zlen rest - Header.RETRY_INTEGRITY_TAG_SIZE <? 0) eqn:ES;
          [unfold Header.RETRY_INTEGRITY_TAG_SIZE in ES; lia|].
        unfold retry_packet.
        destruct (c_is_client (d_st c) && (d_retry_count c =? 0) && po_retry_ok o); [|exact Here].
        pose proof (initialize_props (with_version c (d_version c) (d_vn_done c) (d_retry_count c + 1)) (proj1 Ht))
          as (P1 & P2 & P3 & P4 & P5 & P6).
        split; [|intros code ft E; rewrite P3 in E; cbn in E; rewrite Hn in E; discriminate].
        split; [exact P1|]. split; [left; exact P2|]. rewrite P3, P4, P5. exact Hgate.
    + (* DProcess *)
      set (c1 := if creq then initialize (with_version c match Header.h_version h with Some v => v | None => d_version c end
                                                       (d_vn_done c) (d_retry_count c)) else c).
      assert (H1 : dconn_ok c1 /\ d_init c1 = true /\ c_close (d_st c1) = None /\ d_state c1 = d_state c /\
                   d_pending c1 = false /\ c_is_client (d_st c1) = c_is_client (d_st c)).
      { destruct Hc as (Ht & Hinit & Hgate). unfold c1. destruct creq.
        - pose proof (initialize_props (with_version c match Header.h_version h with Some v => v | None => d_version c end
                                                     (d_vn_done c) (d_retry_count c)) (proj1 Ht)) as (P1 & P2 & P3 & P4 & P5 & P6).
          split; [split; [exact P1|split; [left; exact P2|intros _ _; rewrite P3; exact Hn]]|].
          split; [exact P2|]. split; [rewrite P3; exact Hn|]. split; [exact P4|]. split; [rewrite P5; exact Hp|exact P6].
        - apply decide_process_false in ED.
          assert (d_init c = true).
          { destruct Hinit as [E|[E1 E2]]; [exact E|]. rewrite E1, E2 in ED. discriminate. }
          split; [split; [exact Ht|split; [exact Hinit|exact Hgate]]|]. repeat split; auto. }
      clearbody c1. destruct H1 as (Hc1 & Hin1 & Hn1 & Hs1 & Hp1 & Hcl1).
      rewrite Hin1. cbn [negb].
      destruct ((Header.h_length h <? 0) || (Header.h_length h >? Zlen bs2)) eqn:ESK; [lia|].
      pose proof (bytes_ok_zdrop (Header.h_length h) bs2 Hb) as Hb'.
      assert (Hq1 : q_end (d_state c1) = false) by (rewrite Hs1; exact Hq).
      assert (Hsh : (length (zdrop (Header.h_length h) bs2) < length bs2)%nat).
      { apply zdrop_shorter; [|exact Hne]. destruct (Header.h_type h =? Header.PT_RETRY); lia. }
      destruct (po_decrypt o =? 1); [cbn [step_ok]; repeat split; auto; apply Hc1|].
      destruct (po_decrypt o =? 2); [cbn [step_ok]; repeat split; auto; apply Hc1|].
      destruct (po_reserved o).
      { (* reserved bits: close(PROTOCOL_VIOLATION) *)
        unfold do_close. rewrite Hn1, Hq1. destruct Hc1 as (Ht & Hinit & Hgate). split.
        - split; [exact Ht|]. split; [exact Hinit|]. cbn. discriminate.
        - intros code ft E. cbn in E. injection E as <- _. left. cbv. auto 20. }
      set (c2 := if q_first (d_state c1) then with_state c1 Q_CONNECTED else c1).
      assert (H2 : dconn_ok c2 /\ c_close (d_st c2) = None /\ q_end (d_state c2) = false /\ d_pending c2 = false
                   /\ d_st c2 = d_st c1 /\ d_init c2 = true).
      { destruct Hc1 as (Ht & Hinit & Hgate). unfold c2. destruct (q_first (d_state c1)) eqn:EF.
        - split; [split; [exact Ht|split; [left; exact Hin1|intros _ _; exact Hn1]]|]. cbn. repeat split; auto.
        - split; [split; [exact Ht|split; [exact Hinit|exact Hgate]]|]. repeat split; auto. }
      clearbody c2. destruct H2 as (Hc2 & Hn2 & Hq2 & Hp2 & Hst2 & Hin2).
      set (st := set_ctx_cid (d_st c2) (po_dcid_seq o) (po_tls o)).
      assert (Hst : tls_ok (c_tls st) /\ c_close st = None /\ orc_pool (c_tls st) = concat (po_tls o) /\
                    c_is_client st = c_is_client (d_st c2)).
      { unfold st, set_ctx_cid. cbn. destruct Hc2 as (Ht & _). repeat split; try apply Ht. exact Hn2. }
      destruct Hst as (Hst1 & Hst2' & Hst3 & Hst4).
      pose proof (packet_step_total st (epoch_of (Header.h_type h)) creq (po_payload o) Hst1 Hst2') as PS.
      destruct (packet_step true st (epoch_of (Header.h_type h)) creq false (po_payload o)) as [st' nlog|nlog k]; [|exact PS].
      destruct PS as (Ht' & Hcl').
      unfold after_packet. cbn [d_st with_st]. rewrite Hst2'.
      destruct Hcl' as [E|[(code & ft & E)|(code & ft & E & Hcode)]]; rewrite E.
      * (* no close: gate stays open, possibly migrate, next packet *)
        cbn [d_state d_pending with_st]. rewrite Hq2, Hp2. cbn [orb].
        match goal with |- context [SNextPkt ?cc _ _ _] => set (c3 := cc) end.
        cbn [step_ok]. split; [|split; [|split; [|auto]]].
        -- unfold c3. destruct (_ && _ && _).
           ++ pose proof (change_cid_props st') as (Q1 & Q2 & Q3).
              split; [cbn [d_st with_host_cid with_st]; rewrite Q1; exact Ht'|].
              split; [left; exact Hin2|]. cbn [d_st with_host_cid with_st]. intros _ _. rewrite Q2. exact E.
           ++ split; [exact Ht'|]. split; [left; exact Hin2|]. intros _ _. exact E.
        -- unfold c3. destruct (_ && _ && _); exact Hq2.
        -- unfold c3. destruct (_ && _ && _); exact Hp2.
      * (* the peer's CONNECTION_CLOSE: DRAINING *)
        cbn [d_state d_pending with_st with_state q_end orb]. split.
        -- split; [exact Ht'|]. split; [left; exact Hin2|]. intros X; discriminate X.
        -- intros code0 ft0 E0. cbn [d_st with_st with_state] in E0. rewrite E in E0. discriminate.
      * (* close() by this endpoint: pending *)
        change (d_state (with_st c2 st)) with (d_state c2). rewrite Hq2.
        cbn [d_state d_pending with_pending with_st]. rewrite Hq2. cbn [orb]. split.
        -- split; [exact Ht'|]. split; [left; exact Hin2|]. intros _ X; discriminate X.
        -- intros code0 ft0 E0. cbn [d_st with_st with_pending] in E0. rewrite E in E0. injection E0 as <- _.
           eapply code_ok_dcode; [exact Ho|exact Hst3|exact Hcode].
    + exfalso. exact (header_total _ _ _ _ _ _ _ ED).
Qed.

(* ---------- the loop *)
Lemma dgram_loop_total : forall fuel total c bs orcs all tr,
  CodecProofs.bytes_ok bs -> dconn_ok c -> q_end (d_state c) = false -> d_pending c = false ->
  incl orcs all ->
  match dgram_loop fuel true total c bs orcs tr with
  | DOk c' _ => dconn_ok c' /\ own_close_ok (po0 :: all) (c_close (d_st c'))
  | DRaise _ _ => False
  end.
Proof.
  induction fuel as [|fuel IH]; intros total c bs orcs all tr Hb Hc Hq Hp Hi.
  - assert (Hn : c_close (d_st c) = None) by (destruct Hc as (_ & _ & G); auto).
    destruct bs; cbn; (split; [exact Hc|]); intros code ft E; rewrite Hn in E; discriminate.
  - assert (Hn : c_close (d_st c) = None) by (destruct Hc as (_ & _ & G); auto).
    destruct bs as [|b0 bs']; [cbn; split; [exact Hc|]; intros code ft E; rewrite Hn in E; discriminate|].
    cbn [dgram_loop].
    pose proof (dgram_step_total total c (b0 :: bs') orcs all tr ltac:(discriminate) Hb Hc Hq Hp Hi) as HS.
    destruct (dgram_step true total c (b0 :: bs') orcs tr) as [[c' tr'|k tr']|c' next orcs' tr']; cbn [step_ok] in HS.
    + exact HS.
    + exact HS.
    + destruct HS as (H1 & H2 & H3 & H4 & H5 & _). apply IH; auto.
Qed.

(* the fuel is never exhausted: any two fuels above the number of remaining bytes give the same result *)
Lemma dgram_fuel_any : forall f1 f2 total c bs orcs all tr,
  CodecProofs.bytes_ok bs -> dconn_ok c -> q_end (d_state c) = false -> d_pending c = false -> incl orcs all ->
  (length bs < f1)%nat -> (length bs < f2)%nat ->
  dgram_loop f1 true total c bs orcs tr = dgram_loop f2 true total c bs orcs tr.
Proof.
  induction f1 as [|f1 IH]; intros f2 total c bs orcs all tr Hb Hc Hq Hp Hi H1 H2; [lia|].
  destruct f2 as [|f2]; [lia|].
  destruct bs as [|b0 bs']; [reflexivity|]. cbn [dgram_loop].
  pose proof (dgram_step_total total c (b0 :: bs') orcs all tr ltac:(discriminate) Hb Hc Hq Hp Hi) as HS.
  destruct (dgram_step true total c (b0 :: bs') orcs tr) as [r|c' next orcs' tr']; [reflexivity|].
  cbn [step_ok] in HS. destruct HS as (A1 & A2 & A3 & A4 & A5 & A6).
  eapply IH; eauto; cbn [length] in *; lia.
Qed.

Theorem dgram_fuel_independent : forall f1 f2 total c bs orcs tr,
  CodecProofs.bytes_ok bs -> dconn_ok c -> q_end (d_state c) = false -> d_pending c = false ->
  (length bs < f1)%nat -> (length bs < f2)%nat ->
  dgram_loop f1 true total c bs orcs tr = dgram_loop f2 true total c bs orcs tr.
Proof. intros. eapply dgram_fuel_any; eauto. apply incl_refl. Qed.

(* ---------- receive_datagram *)
Theorem receive_datagram_total_all : forall c data orcs,
  CodecProofs.bytes_ok data -> dconn_ok c ->
  match receive_datagram true c data orcs with
  | DOk c' _ => dconn_ok c' /\ (c_close (d_st c) = None -> own_close_ok (po0 :: orcs) (c_close (d_st c')))
  | DRaise _ _ => False
  end.
Proof.
  intros c data orcs Hb Hc. unfold receive_datagram.
  destruct (q_end (d_state c) || d_pending c) eqn:G.
  - split; [exact Hc|]. intros Hn code ft E. rewrite Hn in E. discriminate.
  - apply Bool.orb_false_iff in G. destruct G as [G1 G2].
    pose proof (dgram_loop_total (S (length data)) (Zlen data) c data orcs orcs [] Hb Hc G1 G2 (incl_refl _)) as H.
    destruct (dgram_loop _ _ _ _ _ _ _); [|exact H]. destruct H as [H1 H2]. split; [exact H1|intros _; exact H2].
Qed.

(* any sequence of datagrams, each with its own oracle answers: the invariant is re-established, so nothing ever
   escapes (the gate of 54d8ff0 is part of receive_datagram) *)
Fixpoint receive_all (p : bool) (c : dconn) (ds : list (list Z * list pkt_orc)) : option dconn :=
  match ds with
  | [] => Some c
  | (data, orcs) :: r =>
      match receive_datagram p c data orcs with
      | DOk c' _ => receive_all p c' r
      | DRaise _ _ => None
      end
  end.

Theorem receive_all_total : forall ds c,
  Forall (fun d => CodecProofs.bytes_ok (fst d)) ds -> dconn_ok c ->
  exists c', receive_all true c ds = Some c' /\ dconn_ok c'.
Proof.
  induction ds as [|[data orcs] r IH]; intros c Hb Hc; [exists c; auto|].
  inversion Hb as [|x l Hb1 Hb2]; subst. cbn [receive_all].
  pose proof (receive_datagram_total_all c data orcs Hb1 Hc) as H.
  destruct (receive_datagram true c data orcs); [|contradiction]. apply IH; tauto.
Qed.

(* the packet-level function used by the loop agrees with ConnRecv.receive_packet on the outcome *)
Lemma packet_step_outcome p st epoch creq b :
  c_close st = None ->
  match receive_packet p st epoch creq false b, packet_step p st epoch creq false b with
  | OOk n, P2Ok st' m => n = m /\ c_close st' = None
  | OClosed n code ft, P2Ok st' m => n = m /\ c_close st' = Some (true, code, ft)
  | OPeerClosed n code ft, P2Ok st' m => n = m /\ c_close st' = Some (false, code, ft)
  | OExn n k, P2Exn m k' => n = m /\ k = k'
  | _, _ => False
  end.
Proof.
  intros Hn. unfold receive_packet, packet_step.
  destruct (payload_received p st epoch creq b) as [st' n fo cr|prior n code ft|n k]; [| |auto].
  - destruct (c_close st') as [[[[] c] f]|]; auto.
  - unfold close_of. destruct prior as [[[[] c] f]|]; cbn; auto.
Qed.

(* ---------- the hypotheses are satisfiable, and the loop really walks over coalesced packets:
   a client in its handshake receives [Handshake packet that does not decrypt][1-RTT packet carrying PING] *)
Definition ex_client : dconn := mkD (hs_client_state []) Q_CONNECTED false true 8 [1] 1 false 0 0.
Definition ex_dgram : list Z :=
  [224; 0; 0; 0; 1; 8; 1; 2; 3; 4; 5; 6; 7; 8; 0; 5; 0; 0; 0; 0; 0] ++ [64; 1; 2; 3; 4; 5; 6; 7; 8; 0; 0; 0].

Example dconn_ok_example : dconn_ok ex_client /\ CodecProofs.bytes_ok ex_dgram.
Proof.
  split.
  - split; [split; [exact TlsRecvP.wf_cfg_default_client|right; vm_compute; reflexivity]|].
    split; [left; reflexivity|reflexivity].
  - unfold CodecProofs.bytes_ok, ex_dgram. repeat constructor; unfold CodecProofs.byte_ok; lia.
Qed.

Example coalesced_example :
  match receive_datagram true ex_client ex_dgram [mkPO 0 false 2 false [] []; mkPO 0 false 0 false [1] []] with
  | DOk c' tr => tr = [T_DECRYPT; T_PACKET + 1] /\ d_state c' = Q_CONNECTED /\ d_pending c' = false
  | DRaise _ _ => False
  end.
Proof. vm_compute. auto. Qed.

(* reserved bits, a frame error and garbage: close pending with PROTOCOL_VIOLATION / FRAME_ENCODING_ERROR / dropped *)
Example close_examples :
  (match receive_datagram true ex_client [64; 1; 2; 3; 4; 5; 6; 7; 8; 0; 0; 0] [mkPO 0 false 0 true [1] []] with
   | DOk c' _ => d_pending c' = true /\ c_close (d_st c') = Some (true, EC_PROTOCOL_VIOLATION, FT_PADDING)
   | DRaise _ _ => False end) /\
  (match receive_datagram true ex_client [64; 1; 2; 3; 4; 5; 6; 7; 8; 0; 0; 0] [mkPO 0 false 0 false [33] []] with
   | DOk c' _ => d_pending c' = true /\ c_close (d_st c') = Some (true, EC_FRAME_ENCODING_ERROR, 33)
   | DRaise _ _ => False end) /\
  (match receive_datagram true ex_client [0; 1; 2] [] with
   | DOk c' tr => tr = [T_HEADER] /\ d_pending c' = false
   | DRaise _ _ => False end).
Proof. vm_compute. auto 10. Qed.

(* ---------- the packet loop with the network-path table (round s05) *)
From AQ Require model.ConnPaths proofs.ConnPathsP.

Lemma dgram_loop_paths_total : forall fuel total c bs orcs all tr tab cur vs,
  CodecProofs.bytes_ok bs -> dconn_ok c -> q_end (d_state c) = false -> d_pending c = false ->
  incl orcs all -> ConnPathsP.tab_ok tab ->
  match dgram_loop_paths fuel true total c bs orcs tr tab cur vs with
  | (DOk c' _, ConnPaths.UOk tab' _) =>
      dconn_ok c' /\ own_close_ok (po0 :: all) (c_close (d_st c')) /\ ConnPathsP.tab_ok tab'
  | _ => False
  end.
Proof.
  induction fuel as [|fuel IH]; intros total c bs orcs all tr tab cur vs Hb Hc Hq Hp Hi Ht.
  - assert (Hn : c_close (d_st c) = None) by (destruct Hc as (_ & _ & G); auto).
    destruct bs; cbn; (split; [exact Hc|split; [|exact Ht]]); intros code ft E; rewrite Hn in E; discriminate.
  - assert (Hn : c_close (d_st c) = None) by (destruct Hc as (_ & _ & G); auto).
    destruct bs as [|b0 bs'].
    { cbn. split; [exact Hc|split; [|exact Ht]]. intros code ft E; rewrite Hn in E; discriminate. }
    cbn [dgram_loop_paths]. cbv zeta.
    pose proof (dgram_step_total total c (b0 :: bs') orcs all tr ltac:(discriminate) Hb Hc Hq Hp Hi) as HS.
    set (first := negb (c_is_client (d_st c)) && q_first (d_state c)).
    destruct (dgram_step true total c (b0 :: bs') orcs tr) as [[c' tr'|k tr']|c' next orcs' tr']; cbn [step_ok] in HS.
    + set (tab0 := if first && processed tr tr' then [cur] else tab).
      assert (Ht0 : ConnPathsP.tab_ok tab0).
      { unfold tab0. destruct (first && processed tr tr'); [apply ConnPathsP.tab_ok_single | exact Ht]. }
      destruct (handled tr tr').
      * destruct (ConnPathsP.path_packet_total tab0 cur (verdict (hd vk0 vs) false) Ht0) as (tab' & cur' & -> & Hok' & _).
        split; [apply HS|]. split; [apply HS|exact Hok'].
      * split; [apply HS|]. split; [apply HS|exact Ht0].
    + exact HS.
    + set (tab0 := if first && processed tr tr' then [cur] else tab).
      assert (Ht0 : ConnPathsP.tab_ok tab0).
      { unfold tab0. destruct (first && processed tr tr'); [apply ConnPathsP.tab_ok_single | exact Ht]. }
      destruct HS as (H1 & H2 & H3 & H4 & H5 & _).
      destruct (handled tr tr').
      * destruct (ConnPathsP.path_packet_total tab0 cur (verdict (hd vk0 vs) true) Ht0) as (tab' & cur' & -> & Hok' & _).
        apply IH; auto.
      * apply IH; auto.
Qed.

(* receive_datagram with the table inside: for all datagram bytes, all connection states with dconn_ok, all oracle answers,
   all tables with tab_ok, all source addresses and all packet verdicts: neither the receive path nor the network-path
   bookkeeping raises; both invariants hold again; a close decided by the call has a documented code *)
Theorem receive_datagram_paths_total_all : forall c data orcs s addr vs,
  CodecProofs.bytes_ok data -> dconn_ok c -> ConnPathsP.tab_ok (ConnPaths.ps_tab s) ->
  match receive_datagram_paths true c data orcs s addr vs with
  | (DOk c' _, ConnPaths.PROk s') =>
      dconn_ok c' /\
      (c_close (d_st c) = None -> own_close_ok (po0 :: orcs) (c_close (d_st c'))) /\
      ConnPathsP.tab_ok (ConnPaths.ps_tab s')
  | _ => False
  end.
Proof.
  intros c data orcs s addr vs Hb Hc Ht. unfold receive_datagram_paths.
  destruct (q_end (d_state c) || d_pending c) eqn:G.
  - split; [exact Hc|]. split; [|exact Ht]. intros Hn code ft E. rewrite Hn in E. discriminate.
  - apply orb_false_iff in G. destruct G as (Hq & Hp).
    destruct (ConnPaths.find_network_path s addr) as [cur next].
    pose proof (dgram_loop_paths_total (S (length data)) (Zlen data) c data orcs orcs [] (ConnPaths.ps_tab s) cur vs
                  Hb Hc Hq Hp (incl_refl _) Ht) as H.
    destruct (dgram_loop_paths (S (length data)) true (Zlen data) c data orcs [] (ConnPaths.ps_tab s) cur vs) as [r u].
    destruct r as [c' tr'|k tr']; destruct u as [tab' cur'|k']; try contradiction.
    destruct H as (H1 & H2 & H3). split; [exact H1|]. split; [intros _; exact H2 | exact H3].
Qed.
