(* C18: global bounds of the connection-ID bookkeeping (model/Cid.v) over ALL op sequences and builder budgets.
   Host side : _host_cid_seq counts the IDs ever created (= held + retired); a NEW_CONNECTION_ID on the wire whose
               RETIRE_CONNECTION_ID has not been processed is still held (so at most min(8, peer limit) are active ON THE
               WIRE); an ID is retired at most once.
   Peer side : every sequence number sits in at most ONE of current / spare / pending retirement / outstanding RETIRE /
               acknowledged RETIRE (no retirement is queued or announced twice), all of them were received, so
               |pending| + |outstanding| + |acknowledged| + |spare| + 1 <= 1 + number of well-formed NEW_CONNECTION_ID frames;
               _peer_cid_sequence_numbers grows by at most one entry per frame. *)
From Coq Require Import ZArith List Bool Lia ZifyBool Sorted.
From AQ Require Import lib.Base gen.C18Consts model.Cid proofs.CidP.

(* ---------------------------------------------------------------- counting occurrences *)
Fixpoint cnt (x : Z) (l : list Z) : Z :=
  match l with [] => 0 | y :: t => b2z (x =? y) + cnt x t end.

Lemma cnt_nonneg x l : 0 <= cnt x l.
Proof. induction l as [|y t IH]; cbn [cnt]; [lia|]. unfold b2z. destruct (x =? y); lia. Qed.
Lemma cnt_app x l1 l2 : cnt x (l1 ++ l2) = cnt x l1 + cnt x l2.
Proof. induction l1 as [|y t IH]; cbn [cnt app]; lia. Qed.
Lemma cnt_pos_In x l : 0 < cnt x l <-> In x l.
Proof.
  induction l as [|y t IH]; cbn [cnt In]; [lia|]. unfold b2z. pose proof (cnt_nonneg x t).
  destruct (x =? y) eqn:E; split; intros H0; try (left; lia); try lia.
  - right. apply IH. lia.
  - destruct H0 as [H0|H0]; [lia|]. apply IH in H0. lia.
Qed.
Lemma cnt_zero_notin x l : ~ In x l -> cnt x l = 0.
Proof. intros H. pose proof (cnt_nonneg x l). destruct (Z.eq_dec (cnt x l) 0); [assumption|]. exfalso. apply H, cnt_pos_In. lia. Qed.
Lemma cnt_memz x l : memz x l = false -> cnt x l = 0.
Proof. intros H. apply cnt_zero_notin. intros I. apply memz_In in I. congruence. Qed.
Lemma cnt_memz_true x l : memz x l = true -> 1 <= cnt x l.
Proof. intros H. apply memz_In, cnt_pos_In in H. lia. Qed.

Lemma cnt_filter_split x (f g : Z -> bool) l : (forall c, g c = negb (f c)) ->
  cnt x (filter f l) + cnt x (filter g l) = cnt x l.
Proof.
  intros Hg. induction l as [|y t IH]; cbn [filter cnt]; [lia|]. rewrite Hg. destruct (f y); cbn [negb cnt]; lia.
Qed.

Lemma cnt_remove1 x q l : In q l -> cnt x (remove1 q l) = cnt x l - b2z (x =? q).
Proof.
  induction l as [|y t IH]; cbn [remove1 In cnt]; [tauto|]. intros H. destruct (q =? y) eqn:E.
  - assert (q = y) by lia. subst y. lia.
  - destruct H as [H|H]; [lia|]. cbn [cnt]. rewrite IH by assumption. lia.
Qed.

Lemma cnt_le1_NoDup l : (forall x, cnt x l <= 1) -> NoDup l.
Proof.
  induction l as [|y t IH]; intros H; constructor.
  - intros I. apply cnt_pos_In in I. specialize (H y). cbn [cnt] in H. rewrite Z.eqb_refl in H. unfold b2z in H. lia.
  - apply IH. intros x. specialize (H x). cbn [cnt] in H. unfold b2z in H. destruct (x =? y); lia.
Qed.

Lemma NoDup_incl_zlen (l m : list Z) : NoDup l -> incl l m -> Zlen l <= Zlen m.
Proof. intros N I. unfold Zlen. apply Nat2Z.inj_le. now apply NoDup_incl_length. Qed.

(* ---------------------------------------------------------------- peer side *)
(* the current ID is counted unless the connection is closing with no spare ID (after "No connection ID left" the
   current ID is also on the pending list) *)
Definition stranded (s : st) : bool :=
  match closed s, avail s with Some _, [] => true | _, _ => false end.
Definition curterm (s : st) (x : Z) : Z := if stranded s then 0 else b2z (x =? cur s).

Definition held (s : st) (x : Z) : Z := cnt x (avail s) + cnt x (pend s) + cnt x (outs s) + cnt x (ackd s).

Record CInv (s : st) : Prop := {
  ci_once : forall x, held s x + curterm s x <= cnt x (seen s);
  ci_seen : forall x, cnt x (seen s) <= 1;
  ci_len : Zlen (seen s) <= Zlen (recvd s)
}.

Lemma curterm_le s x : 0 <= curterm s x <= 1.
Proof. unfold curterm, b2z. destruct (stranded s); [lia|]. destruct (x =? cur s); lia. Qed.

Lemma curterm_open s x : closed s = None -> curterm s x = b2z (x =? cur s).
Proof. intros E. unfold curterm, stranded. now rewrite E. Qed.

(* changing only the receive context: the term can only drop *)
Lemma CInv_ctx s h p cl : (cl = None -> closed s = None) -> CInv s -> CInv (set_ctx s h p cl).
Proof.
  intros Hc [A B C]. constructor; cbn [seen recvd set_ctx]; try assumption.
  intros x. specialize (A x). unfold held, curterm, stranded in *. cbn [avail pend outs ackd closed cur set_ctx].
  destruct cl as [e|].
  - destruct (closed s); destruct (avail s); unfold b2z in *; destruct (x =? cur s); lia.
  - rewrite (Hc eq_refl) in A. exact A.
Qed.

Lemma change_cid_CInv s : CInv s -> CInv (change_cid s).
Proof.
  intros [A B C]. unfold change_cid. destruct (avail s) as [|a t] eqn:Ea; [constructor; assumption|].
  constructor; cbn [seen recvd set_peer]; try assumption.
  intros x. specialize (A x). unfold held, curterm, stranded in *. rewrite Ea in A.
  cbn [avail pend outs ackd closed cur set_peer cnt] in *. rewrite cnt_app. cbn [cnt].
  pose proof (cnt_nonneg x t).
  destruct (closed s); destruct t; unfold b2z in *; cbn [cnt] in *; destruct (x =? a); destruct (x =? cur s); lia.
Qed.

Lemma send_peer s b : let s' := snd (send s b) in
  cur s' = cur s /\ avail s' = avail s /\ seen s' = seen s /\ recvd s' = recvd s /\ ackd s' = ackd s /\ closed s' = closed s.
Proof.
  unfold send. destruct (write_news _ _) as [[? ?] [?|]]; [destruct (write_rets _ _)|]; cbn; repeat split.
Qed.

Lemma send_CInv s b : CInv s -> CInv (snd (send s b)).
Proof.
  intros [A B C]. destruct (send_peer s b) as (E1 & E2 & E3 & E4 & E5 & E6).
  destruct (refused_stays_pending s b) as [Sp So].
  constructor; rewrite ?E3, ?E4; try assumption.
  intros x. specialize (A x). unfold held, curterm, stranded in *. rewrite E1, E2, E5, E6, So. rewrite Sp in A.
  rewrite !cnt_app in *. lia.
Qed.

Section NewCidCount.
  Variables (avail0 seen0 : list Z) (rpt' q x : Z).
  Local Notation retire0 := (filter (fun c => c <? rpt') avail0).
  Local Notation avail1 := (filter (fun c => c >=? rpt') avail0).
  Local Notation fresh := ((q >=? rpt') && negb (memz q seen0)).
  Local Notation late := ((q <? rpt') && negb (memz q seen0)).
  Local Notation avail2 := (if fresh then avail1 ++ [q] else avail1).
  Local Notation seen2 := (if memz q seen0 then seen0 else seen0 ++ [q]).

  Lemma nc_cnt_split : cnt x avail1 + cnt x retire0 = cnt x avail0.
  Proof. apply cnt_filter_split. intros c. lia. Qed.

  Lemma nc_cnt_avail2 : cnt x avail2 = cnt x avail1 + b2z fresh * b2z (x =? q).
  Proof. destruct fresh; rewrite ?cnt_app; cbn [cnt]; unfold b2z; destruct (x =? q); lia. Qed.

  Lemma nc_cnt_late : cnt x (if late then [q] else []) = b2z late * b2z (x =? q).
  Proof. destruct late; cbn [cnt]; unfold b2z; destruct (x =? q); lia. Qed.

  Lemma nc_cnt_seen2 : cnt x seen2 = cnt x seen0 + b2z (negb (memz q seen0)) * b2z (x =? q).
  Proof. destruct (memz q seen0); rewrite ?cnt_app; cbn [cnt negb]; unfold b2z; destruct (x =? q); lia. Qed.

  Lemma nc_fresh_late : b2z fresh + b2z late = b2z (negb (memz q seen0)).
  Proof. unfold b2z. destruct (memz q seen0); cbn [negb]; rewrite ?andb_false_r, ?andb_true_r; [lia|]. destruct (q >=? rpt') eqn:E1, (q <? rpt') eqn:E2; lia. Qed.

  Lemma nc_seen2_le1 : cnt x seen0 <= 1 -> cnt x seen2 <= 1.
  Proof.
    intros H. rewrite nc_cnt_seen2. destruct (memz q seen0) eqn:M; cbn [negb]; unfold b2z; [lia|].
    destruct (x =? q) eqn:E; [|lia]. assert (x = q) by lia. subst x. rewrite (cnt_memz _ _ M). lia.
  Qed.

  Lemma nc_seen2_len : Zlen seen2 <= Zlen seen0 + 1.
  Proof. destruct (memz q seen0); rewrite ?zlen_app, ?zlen_cons; change (Zlen (@nil Z)) with 0; lia. Qed.
End NewCidCount.

Lemma newcid_CInv s q r n : CInv s -> CInv (snd (recv_newcid s q r n)).
Proof.
  intros P. pose proof P as [A B C]. unfold recv_newcid.
  destruct (closed s) eqn:Ec; [exact P|].
  destruct (pkt s); [|exact P].
  destruct ((n =? 0) || (n >? CONNECTION_ID_MAX_SIZE)); [apply CInv_ctx; [discriminate|exact P]|].
  destruct (r >? q); [apply CInv_ctx; [discriminate|exact P]|].
  set (rpt' := Z.max r (rpt s)).
  assert (Len : Zlen (if memz q (seen s) then seen s else seen s ++ [q]) <= Zlen (recvd s ++ [q])).
  { pose proof (nc_seen2_len (seen s) q). rewrite zlen_app, zlen_cons. change (Zlen (@nil Z)) with 0. lia. }
  assert (Cur : forall x, curterm s x = b2z (x =? cur s)) by (intros; now apply curterm_open).
  (* the arithmetic common to all branches *)
  assert (K : forall x,
     cnt x (filter (fun c => c >=? rpt') (avail s)) + cnt x (filter (fun c => c <? rpt') (avail s)) = cnt x (avail s) /\
     cnt x (if (q >=? rpt') && negb (memz q (seen s)) then filter (fun c => c >=? rpt') (avail s) ++ [q]
            else filter (fun c => c >=? rpt') (avail s))
       = cnt x (filter (fun c => c >=? rpt') (avail s)) + b2z ((q >=? rpt') && negb (memz q (seen s))) * b2z (x =? q) /\
     cnt x (if (q <? rpt') && negb (memz q (seen s)) then [q] else []) = b2z ((q <? rpt') && negb (memz q (seen s))) * b2z (x =? q) /\
     cnt x (if memz q (seen s) then seen s else seen s ++ [q]) = cnt x (seen s) + b2z (negb (memz q (seen s))) * b2z (x =? q) /\
     b2z ((q >=? rpt') && negb (memz q (seen s))) + b2z ((q <? rpt') && negb (memz q (seen s))) = b2z (negb (memz q (seen s))) /\
     0 <= b2z (x =? q) <= 1 /\ 0 <= b2z (x =? cur s) <= 1).
  { intros x. split; [apply nc_cnt_split|]. split; [apply nc_cnt_avail2|]. split; [apply nc_cnt_late|].
    split; [apply nc_cnt_seen2|]. split; [apply nc_fresh_late|]. unfold b2z. destruct (x =? q), (x =? cur s); lia. }
  destruct (cur s <? rpt') eqn:Ech.
  - match goal with |- context [match ?a2 with [] => _ | _ => _ end] => destruct a2 as [|a t] eqn:Ea end.
    + (* no connection ID left *)
      cbn [snd]. constructor; cbn [seen recvd set_ctx set_peer]; [|intros x; apply nc_seen2_le1; apply B|exact Len].
      intros x. specialize (A x). rewrite Cur in A. destruct (K x) as (K1 & K2 & K3 & K4 & K5 & K6 & K7).
      cbn [cnt] in K2.
      unfold held, curterm, stranded in *. cbn [avail pend outs ackd closed cur set_ctx set_peer cnt].
      rewrite K4, !cnt_app. cbn [cnt]. rewrite ?cnt_app, K3.
      assert (N : 0 <= b2z ((q >=? rpt') && negb (memz q (seen s))) * b2z (x =? q)) by (unfold b2z; destruct (_ && _), (x =? q); lia).
      nia.
    + assert (Hs : forall cl', CInv (set_ctx (set_peer s a t (if memz q (seen s) then seen s else seen s ++ [q]) rpt'
                     (pend s ++ (cur s :: filter (fun c => c <? rpt') (avail s)) ++ (if (q <? rpt') && negb (memz q (seen s)) then [q] else []))
                     (recvd s ++ [q])) (hcur s) None cl')).
      { intros cl'. constructor; cbn [seen recvd set_ctx set_peer]; [|intros x; apply nc_seen2_le1; apply B|exact Len].
        intros x. specialize (A x). rewrite Cur in A. destruct (K x) as (K1 & K2 & K3 & K4 & K5 & K6 & K7).
        cbn [cnt] in K2.
        unfold held, curterm, stranded in *. cbn [avail pend outs ackd closed cur set_ctx set_peer cnt].
        rewrite K4, !cnt_app. cbn [cnt]. rewrite ?cnt_app, K3.
        assert (T : (if match cl' with Some _ => match t with [] => true | _ :: _ => false end | None => false end
                     then 0 else b2z (x =? a)) <= b2z (x =? a)).
        { destruct cl'; [destruct t|]; unfold b2z; destruct (x =? a); lia. }
        destruct cl'; [destruct t|]; nia. }
      destruct (1 + Zlen t >? LOCAL_ACTIVE_CID_LIMIT); [exact (Hs _)|].
      destruct (Zlen _ >? _); [exact (Hs _)|].
      cbn [snd]. specialize (Hs None).
      constructor; [intros x; pose proof (ci_once _ Hs x) as H; unfold held, curterm, stranded in *;
                    cbn [avail pend outs ackd closed cur set_ctx set_peer] in *; rewrite Ec; exact H
                   |exact (ci_seen _ Hs)|exact (ci_len _ Hs)].
  - assert (Hs : forall cl', CInv (set_ctx (set_peer s (cur s)
                     (if (q >=? rpt') && negb (memz q (seen s)) then filter (fun c => c >=? rpt') (avail s) ++ [q]
                      else filter (fun c => c >=? rpt') (avail s))
                     (if memz q (seen s) then seen s else seen s ++ [q]) rpt'
                     (pend s ++ filter (fun c => c <? rpt') (avail s) ++ (if (q <? rpt') && negb (memz q (seen s)) then [q] else []))
                     (recvd s ++ [q])) (hcur s) None cl')).
    { intros cl'. constructor; cbn [seen recvd set_ctx set_peer]; [|intros x; apply nc_seen2_le1; apply B|exact Len].
      intros x. specialize (A x). rewrite Cur in A. destruct (K x) as (K1 & K2 & K3 & K4 & K5 & K6 & K7).
      unfold held, curterm, stranded in *. cbn [avail pend outs ackd closed cur set_ctx set_peer].
      rewrite K4, K2, !cnt_app, K3.
      match goal with |- context [if ?b then 0 else b2z (x =? cur s)] => assert (T : (if b then 0 else b2z (x =? cur s)) <= b2z (x =? cur s)) by (destruct b; lia) end.
      nia. }
    match goal with |- context [1 + Zlen ?a2 >? _] => destruct (1 + Zlen a2 >? LOCAL_ACTIVE_CID_LIMIT) end; [exact (Hs _)|].
    destruct (Zlen _ >? _); [exact (Hs _)|].
    cbn [snd]. specialize (Hs None).
    constructor; [intros x; pose proof (ci_once _ Hs x) as H; unfold held, curterm, stranded in *;
                  cbn [avail pend outs ackd closed cur set_ctx set_peer] in *; rewrite Ec; exact H
                 |exact (ci_seen _ Hs)|exact (ci_len _ Hs)].
Qed.

Lemma replenish_peer s : let s' := replenish s in
  cur s' = cur s /\ avail s' = avail s /\ seen s' = seen s /\ recvd s' = recvd s /\ pend s' = pend s /\ outs s' = outs s /\
  ackd s' = ackd s /\ closed s' = closed s.
Proof. unfold replenish. destruct (replenish_loop _ _ _ _). cbn. repeat split. Qed.

Lemma CInv_same s s' : CInv s -> cur s' = cur s -> avail s' = avail s -> seen s' = seen s -> recvd s' = recvd s ->
  pend s' = pend s -> outs s' = outs s -> ackd s' = ackd s -> closed s' = closed s -> CInv s'.
Proof.
  intros [A B C] E1 E2 E3 E4 E5 E6 E7 E8. constructor; rewrite ?E3, ?E4; try assumption.
  intros x. specialize (A x). unfold held, curterm, stranded in *. now rewrite E1, E2, E5, E6, E7, E8.
Qed.

Lemma step_CInv s o : CInv s -> legit s o -> CInv (snd (step s o)).
Proof.
  intros P Lg. destruct o; cbn [step legit] in *; try tauto.
  - (* RecvPacket *) unfold recv_packet. destruct (closed s) eqn:Ec; [exact P|].
    destruct (is_client s && negb (has_host d (hosts s))); cbn [snd]; apply CInv_ctx; auto.
  - now apply newcid_CInv.
  - (* RecvRetire *) unfold recv_retire.
    destruct (closed s) eqn:Ec; [exact P|]. destruct (pkt s); [|exact P].
    destruct (_ || _); [apply CInv_ctx; [discriminate|exact P]|].
    destruct (has_host q (hosts s) && (q =? z)); [apply CInv_ctx; [discriminate|exact P]|].
    cbn [snd]. match goal with |- CInv (replenish ?t) => destruct (replenish_peer t) as (E1 & E2 & E3 & E4 & E5 & E6 & E7 & E8) end.
    eapply CInv_same; [exact P|..]; assumption.
  - (* PacketDone *) unfold packet_done. destruct (closed s) eqn:Ec.
    + cbn [snd]. apply CInv_ctx; [intros H; congruence|exact P].
    + destruct (pkt s).
      * destruct (negb (is_client s) && negb (z =? hcur s)); cbn [snd].
        -- apply CInv_ctx; [intros _; now rewrite change_cid_closed|now apply change_cid_CInv].
        -- apply CInv_ctx; auto.
      * cbn [snd]. apply CInv_ctx; auto.
  - (* LocalChange *) cbn. now apply change_cid_CInv.
  - (* Send *) destruct (closed s) eqn:Ec; cbn [snd]; [exact P|]. now apply send_CInv.
  - (* RetireDelivery *) cbn [snd]. destruct P as [A B C]. unfold retire_delivery.
    destruct acked; constructor; cbn [seen recvd set_deliv]; try assumption; intros x; specialize (A x);
      unfold held, curterm, stranded in *; cbn [avail pend outs ackd closed cur set_deliv];
      rewrite (cnt_remove1 x q _ Lg), ?cnt_app; cbn [cnt]; lia.
  - (* NewCidDelivery *) cbn [snd]. unfold newcid_delivery. destruct acked; [exact P|].
    eapply CInv_same; [exact P|..]; reflexivity.
Qed.

Lemma init_CInv c l : CInv (handshake_complete (init c) l).
Proof.
  unfold handshake_complete.
  match goal with |- CInv (replenish ?t) => destruct (replenish_peer t) as (E1 & E2 & E3 & E4 & E5 & E6 & E7 & E8);
    apply (CInv_same t); try assumption end.
  constructor; cbn.
  - intros x. unfold held, curterm, stranded. cbn. lia.
  - intros x. unfold b2z. destruct (x =? 0); lia.
  - lia.
Qed.

Lemma reach_CInv c l s : reach c l s -> CInv s.
Proof. intros R. induction R; [apply init_CInv|now apply step_CInv]. Qed.

(* ---------- consequences (peer side) *)
(* no sequence number is queued for retirement, outstanding in a RETIRE_CONNECTION_ID, acknowledged or spare twice, nor in
   two of these places at once; while the connection is not closing none of them is the current destination ID *)
Lemma retire_once_l c l s : reach c l s ->
  NoDup (avail s ++ pend s ++ outs s ++ ackd s) /\
  (closed s = None -> ~ In (cur s) (avail s ++ pend s ++ outs s ++ ackd s)).
Proof.
  intros R. destruct (reach_CInv _ _ _ R) as [A B C]. split.
  - apply cnt_le1_NoDup. intros x. specialize (A x). specialize (B x). pose proof (curterm_le s x).
    unfold held in A. rewrite !cnt_app. lia.
  - intros Ec I. apply cnt_pos_In in I. specialize (A (cur s)). specialize (B (cur s)).
    rewrite curterm_open in A by assumption. rewrite Z.eqb_refl in A. unfold held, b2z in A. rewrite !cnt_app in I. lia.
Qed.

(* every such sequence number was received: the total is bounded by the number of well-formed NEW_CONNECTION_ID frames
   processed (|recvd| = 1 + that number: the initial ID) -- the only global bound on _retire_connection_ids there is *)
Lemma pending_global_bound_l c l s : reach c l s ->
  Zlen (avail s) + Zlen (pend s) + Zlen (outs s) + Zlen (ackd s) + (if closed s then 0 else 1) <= Zlen (seen s) /\
  Zlen (seen s) <= Zlen (recvd s).
Proof.
  intros R. pose proof (reach_CInv _ _ _ R) as [A B C]. split; [|exact C].
  destruct (retire_once_l _ _ _ R) as [N Nc].
  assert (Inc : incl (avail s ++ pend s ++ outs s ++ ackd s) (seen s)).
  { intros x I. apply cnt_pos_In in I. apply cnt_pos_In. specialize (A x). pose proof (curterm_le s x).
    unfold held in A. rewrite !cnt_app in I. lia. }
  destruct (closed s) eqn:Ec.
  - pose proof (NoDup_incl_zlen _ _ N Inc) as H. rewrite !zlen_app in H. lia.
  - specialize (Nc eq_refl).
    assert (N2 : NoDup (cur s :: avail s ++ pend s ++ outs s ++ ackd s)) by (constructor; assumption).
    assert (Inc2 : incl (cur s :: avail s ++ pend s ++ outs s ++ ackd s) (seen s)).
    { intros x [E|I]; [|now apply Inc]. subst x. apply cnt_pos_In. specialize (A (cur s)).
      rewrite curterm_open in A by assumption. rewrite Z.eqb_refl in A. unfold held, b2z in A.
      pose proof (cnt_nonneg (cur s) (avail s)). pose proof (cnt_nonneg (cur s) (pend s)).
      pose proof (cnt_nonneg (cur s) (outs s)). pose proof (cnt_nonneg (cur s) (ackd s)). lia. }
    pose proof (NoDup_incl_zlen _ _ N2 Inc2) as H. rewrite zlen_cons, !zlen_app in H. lia.
Qed.

(* _peer_cid_sequence_numbers: a set (no duplicates); one NEW_CONNECTION_ID frame adds at most one entry, no other
   operation adds any *)
Lemma seen_same_ok (l l' : list Z) : l' = l -> Zlen l' <= Zlen l + 1 /\ l' = l.
Proof. intros ->. split; [lia|reflexivity]. Qed.

Lemma seen_growth_l s o : Zlen (seen (snd (step s o))) <= Zlen (seen s) + 1 /\
  (match o with RecvNewCid _ _ _ | Handshake _ => True | _ => seen (snd (step s o)) = seen s end).
Proof.
  destruct o; cbn [step].
  - split; [|exact I]. cbn [snd]. unfold handshake_complete.
    match goal with |- context [replenish ?t] => destruct (replenish_peer t) as (_ & _ & E3 & _) end. rewrite E3. cbn [seen]. lia.
  - apply seen_same_ok. unfold recv_packet. destruct (closed s); [reflexivity|]. destruct (_ && _); reflexivity.
  - split; [|exact I]. unfold recv_newcid. pose proof (nc_seen2_len (seen s) q) as L.
    repeat match goal with |- context [match ?x with _ => _ end] => destruct x end; cbn [snd seen set_ctx set_peer]; lia.
  - apply seen_same_ok. unfold recv_retire. destruct (closed s); [reflexivity|]. destruct (pkt s); [|reflexivity].
    destruct (_ || _); [reflexivity|]. destruct (_ && _); [reflexivity|].
    cbn [snd]. match goal with |- context [replenish ?t] => destruct (replenish_peer t) as (_ & _ & E3 & _) end.
    rewrite E3. reflexivity.
  - apply seen_same_ok. unfold packet_done, change_cid. destruct (closed s); [reflexivity|].
    destruct (pkt s); [|reflexivity]. destruct (_ && _); [|reflexivity]. destruct (avail s); reflexivity.
  - apply seen_same_ok. unfold local_change, change_cid. destruct (avail s); reflexivity.
  - apply seen_same_ok. destruct (closed s); cbn [snd]; [reflexivity|]. destruct (send_peer s b) as (_ & _ & E3 & _). exact E3.
  - apply seen_same_ok. unfold retire_delivery. destruct acked; reflexivity.
  - apply seen_same_ok. unfold newcid_delivery. destruct acked; reflexivity.
Qed.

Lemma seen_nodup_l c l s : reach c l s -> NoDup (seen s).
Proof. intros R. apply cnt_le1_NoDup. exact (ci_seen _ (reach_CInv _ _ _ R)). Qed.

(* a frame that repeats a known sequence number (whatever connection ID / reset token it carries) adds no connection ID:
   the spare list only loses the IDs below retire_prior_to, the set of known sequence numbers is unchanged *)
Lemma duplicate_seq_adds_nothing_l s q r n : In q (seen s) ->
  let s' := snd (recv_newcid s q r n) in
  seen s' = seen s /\ (forall a, In a (avail s') -> In a (avail s)) /\ (cur s' = cur s \/ In (cur s') (avail s)).
Proof.
  intros Hq. apply memz_In in Hq. unfold recv_newcid.
  destruct (closed s); [cbn; auto|]. destruct (pkt s); [|cbn; auto].
  destruct (_ || _); [cbn; auto|]. destruct (r >? q); [cbn; auto|].
  rewrite Hq. rewrite !andb_false_r.
  assert (F : forall a, In a (filter (fun c => c >=? Z.max r (rpt s)) (avail s)) -> In a (avail s))
    by (intros a H; apply filter_In in H; tauto).
  destruct (cur s <? Z.max r (rpt s)).
  - destruct (filter (fun c => c >=? Z.max r (rpt s)) (avail s)) as [|a t] eqn:Ea; [cbn; auto|].
    assert (Fa : In a (avail s)) by (apply F; now left).
    assert (Ft : forall b, In b t -> In b (avail s)) by (intros b H; apply F; now right).
    destruct (1 + Zlen t >? _); [cbn; auto|]. destruct (Zlen _ >? _); cbn; auto.
  - destruct (1 + Zlen _ >? _); [cbn; auto|]. destruct (Zlen _ >? _); cbn; auto.
Qed.

(* ---------------------------------------------------------------- host side *)
Record BInv (s : st) : Prop := {
  bi_count : hseq s = Zlen (hosts s) + Zlen (retiredev s);
  bi_issued : forall q, In q (issued s) -> In q (hseqs (hosts s)) \/ In q (retiredev s);
  bi_nodup : NoDup (retiredev s);
  bi_disj : forall q, In q (retiredev s) -> ~ In q (hseqs (hosts s)) /\ q < hseq s
}.

Lemma replenish_loop_count fuel : forall hs next target,
  snd (replenish_loop fuel hs next target) - next = Zlen (fst (replenish_loop fuel hs next target)) - Zlen hs.
Proof.
  induction fuel as [|f IH]; intros hs next target; cbn [replenish_loop]; [cbn [fst snd]; lia|].
  destruct (Zlen hs <? target); [|cbn [fst snd]; lia].
  specialize (IH (hs ++ [mkH next false]) (next + 1) target). rewrite zlen_app, zlen_cons in IH.
  change (Zlen (@nil hcid)) with 0 in IH. lia.
Qed.

Lemma replenish_loop_prefix fuel : forall hs next target h, In h hs -> In h (fst (replenish_loop fuel hs next target)).
Proof.
  induction fuel as [|f IH]; intros hs next target h H; cbn [replenish_loop]; [exact H|].
  destruct (Zlen hs <? target); [|exact H]. apply IH. apply in_or_app. now left.
Qed.

Lemma BInv_same s s' : BInv s -> hosts s' = hosts s -> hseq s' = hseq s -> issued s' = issued s ->
  retiredev s' = retiredev s -> BInv s'.
Proof. intros [A B C D] E1 E2 E3 E4. constructor; rewrite ?E1, ?E2, ?E3, ?E4; assumption. Qed.

Lemma replenish_BInv s : BInv s -> BInv (replenish s).
Proof.
  intros [A B C D]. unfold replenish.
  pose proof (replenish_loop_count (Z.to_nat (Z.min REPLENISH_CAP (rlimit s))) (hosts s) (hseq s) (Z.min REPLENISH_CAP (rlimit s))) as Cn.
  pose proof (replenish_loop_prefix (Z.to_nat (Z.min REPLENISH_CAP (rlimit s))) (hosts s) (hseq s) (Z.min REPLENISH_CAP (rlimit s))) as Pf.
  pose proof (replenish_loop_seqs (Z.to_nat (Z.min REPLENISH_CAP (rlimit s))) (hosts s) (hseq s) (Z.min REPLENISH_CAP (rlimit s))) as Sq.
  pose proof (replenish_loop_next (Z.to_nat (Z.min REPLENISH_CAP (rlimit s))) (hosts s) (hseq s) (Z.min REPLENISH_CAP (rlimit s))) as Nx.
  destruct (replenish_loop _ _ _ _) as [hs next]. cbn [fst snd] in *.
  constructor; cbn [hosts hseq issued retiredev set_host].
  - lia.
  - intros q Hq. destruct (B q Hq) as [H|H]; [left|now right].
    unfold hseqs in *. apply in_map_iff in H. destruct H as [h [E H]]. apply in_map_iff. exists h. split; [assumption|now apply Pf].
  - exact C.
  - intros q Hq. destruct (D q Hq) as [D1 D2]. split; [|lia]. intros H. destruct (Sq q H); [tauto|lia].
Qed.

Lemma hseqs_del_other q x hs : In x (hseqs hs) -> x <> q -> In x (hseqs (del_host q hs)).
Proof.
  unfold hseqs. induction hs as [|h t IH]; cbn [del_host map In]; [tauto|]. intros [E|H] Hn.
  - destruct (h_seq h =? q) eqn:Eq; [lia|]. now left.
  - destruct (h_seq h =? q); [assumption|]. right. now apply IH.
Qed.

Lemma step_BInv l s o : 1 <= l -> HInv l s -> BInv s -> legit s o -> BInv (snd (step s o)).
Proof.
  intros Hl HI P Lg. pose proof HI as [H1 H2 H3 H4 H5 H6 H7]. destruct o; cbn [step legit] in *; try tauto.
  - unfold recv_packet. destruct (closed s); cbn [snd]; [assumption|].
    destruct (_ && _); cbn [snd]; eapply BInv_same; try exact P; reflexivity.
  - unfold recv_newcid.
    repeat match goal with |- context [match ?x with _ => _ end] => destruct x end; cbn [snd];
      try assumption; eapply BInv_same; try exact P; reflexivity.
  - (* RecvRetire *) unfold recv_retire.
    destruct (closed s); [assumption|]. destruct (pkt s); [|assumption].
    destruct ((q >=? hseq s) || never_sent q (hosts s) (hsent s)) eqn:E0; [cbn [snd]; eapply BInv_same; try exact P; reflexivity|].
    destruct (has_host q (hosts s) && (q =? z)); [cbn [snd]; eapply BInv_same; try exact P; reflexivity|]. cbn [snd].
    apply orb_false_elim in E0. destruct E0 as [E0 _].
    apply replenish_BInv. destruct P as [A B C D].
    destruct (hgood_del q _ _ H3) as [_ NI].
    constructor; cbn [hosts hseq issued retiredev set_host].
    + destruct (has_host q (hosts s)) eqn:E.
      * rewrite zlen_del_host by assumption. rewrite zlen_app, zlen_cons. change (Zlen (@nil Z)) with 0. lia.
      * rewrite del_host_absent by assumption. exact A.
    + intros x Hx. destruct (B x Hx) as [H|H].
      * destruct (Z.eq_dec x q) as [->|Hn].
        -- apply has_host_In in H. rewrite H. right. apply in_or_app. right. now left.
        -- left. now apply hseqs_del_other.
      * right. destruct (has_host q (hosts s)); [apply in_or_app; now left|assumption].
    + destruct (has_host q (hosts s)) eqn:E; [|exact C].
      apply nodup_snoc; [exact C|]. intros Hq. apply has_host_In in E. destruct (D q Hq). tauto.
    + intros x Hx. assert (Hx' : In x (retiredev s) \/ (has_host q (hosts s) = true /\ x = q)).
      { destruct (has_host q (hosts s)); [|now left]. apply in_app_or in Hx. destruct Hx as [Hx|[Hx|[]]]; [now left|right; auto]. }
      destruct Hx' as [Hx'|[_ ->]].
      * destruct (D x Hx') as [D1 D2]. split; [|exact D2]. intros H. apply D1. now apply (hseqs_del_incl q).
      * split; [exact NI|lia].
  - unfold packet_done. destruct (closed s); [cbn [snd]; eapply BInv_same; try exact P; reflexivity|].
    destruct (pkt s); [|cbn [snd]; eapply BInv_same; try exact P; reflexivity].
    destruct (_ && _); cbn [snd]; [|eapply BInv_same; try exact P; reflexivity].
    destruct (change_cid_host s) as [A [B [C [D [E F]]]]]. eapply BInv_same; try exact P; cbn; assumption.
  - destruct (change_cid_host s) as [A [B [C [D [E F]]]]]. eapply BInv_same; try exact P; cbn; assumption.
  - (* Send *) destruct (closed s); cbn [snd]; [assumption|]. destruct P as [A B C D].
    pose proof (send_hosts s b) as Eh. pose proof (send_news s b) as En.
    pose proof (wn_seqs (hosts s) b) as Q. pose proof (wn_len (hosts s) b) as Ln. pose proof (wn_news_in (hosts s) b) as Hnw.
    assert (Ei : issued (snd (send s b)) = issued s ++ wn_news (hosts s) b /\ hseq (snd (send s b)) = hseq s /\
                 retiredev (snd (send s b)) = retiredev s).
    { rewrite <- En. unfold send. destruct (write_news _ _) as [[? ?] [?|]]; [destruct (write_rets _ _)|]; cbn; auto. }
    destruct Ei as (Ei & Eq & Er).
    constructor; rewrite ?Eh, ?Ei, ?Eq, ?Er, ?Q, ?Ln; try assumption.
    intros x Hx. apply in_app_or in Hx. destruct Hx as [Hx|Hx]; [now apply B|].
    left. destruct (Hnw x Hx) as [h [I1 [I2 _]]]. subst x. unfold hseqs. now apply in_map.
  - unfold retire_delivery. destruct acked; cbn [snd]; eapply BInv_same; try exact P; reflexivity.
  - unfold newcid_delivery. destruct acked; cbn [snd]; [assumption|]. destruct P as [A B C D].
    assert (Hf : forall h, h_seq (if h_seq h =? q then mkH q false else h) = h_seq h)
      by (intros h; destruct (h_seq h =? q) eqn:E; cbn; lia).
    constructor; cbn [hosts hseq issued retiredev set_host]; rewrite ?zlen_map, ?(hseqs_map _ _ Hf); assumption.
Qed.

Lemma init_BInv c l : BInv (handshake_complete (init c) l).
Proof.
  unfold handshake_complete. apply replenish_BInv. constructor; cbn.
  - reflexivity.
  - intros q [E|[]]. left. now left.
  - constructor.
  - intros q [].
Qed.

Lemma reach_BInv c l s : 1 <= l -> reach c l s -> BInv s.
Proof.
  intros Hl R. induction R; [apply init_BInv|].
  apply (step_BInv l); try assumption. now apply (reach_HInv c).
Qed.

(* ---------- consequences (host side) *)
(* _host_cid_seq = number of connection IDs ever created = IDs held + IDs the peer retired *)
Lemma host_seq_counts_l c l s : 1 <= l -> reach c l s ->
  hseq s = Zlen (hosts s) + Zlen (retiredev s) /\ hseq s = Z.min REPLENISH_CAP l + Zlen (retiredev s) /\
  StronglySorted Z.lt (hseqs (hosts s)) /\ Forall (fun q => q < hseq s) (hseqs (hosts s)).
Proof.
  intros Hl R. pose proof (reach_BInv _ _ _ Hl R) as [A _ _ _]. pose proof (reach_HInv _ _ _ Hl R) as [H1 H2 [_ H3] _ _ _ H7].
  repeat split; try assumption. lia.
Qed.

(* ConnectionIdRetired is emitted at most once per sequence number, never for an ID still held *)
Lemma retired_once_l c l s : 1 <= l -> reach c l s ->
  NoDup (retiredev s) /\ forall q, In q (retiredev s) -> has_host q (hosts s) = false /\ q < hseq s.
Proof.
  intros Hl R. pose proof (reach_BInv _ _ _ Hl R) as [_ _ C D]. split; [exact C|].
  intros q Hq. destruct (D q Hq) as [D1 D2]. split; [|exact D2].
  destruct (has_host q (hosts s)) eqn:E; [|reflexivity]. apply has_host_In in E. tauto.
Qed.

(* the active_connection_id_limit of the peer, counted ON THE WIRE: the sequence numbers announced in NEW_CONNECTION_ID
   frames (or the initial ID) whose RETIRE_CONNECTION_ID has not been processed are all still held, so any duplicate-free
   list of them has at most min(8, limit) <= limit entries -- at every point of every history *)
Lemma wire_active_bounded_l c l s L : 1 <= l -> reach c l s -> NoDup L ->
  (forall q, In q L -> In q (issued s) /\ ~ In q (retiredev s)) ->
  incl L (hseqs (hosts s)) /\ Zlen L <= Z.min REPLENISH_CAP l /\ Zlen L <= l.
Proof.
  intros Hl R N HL. pose proof (reach_BInv _ _ _ Hl R) as [_ B _ _]. pose proof (reach_HInv _ _ _ Hl R) as [_ H2 _ _ _ _ _].
  assert (Inc : incl L (hseqs (hosts s))).
  { intros q Hq. destruct (HL q Hq) as [I1 I2]. destruct (B q I1); tauto. }
  split; [exact Inc|]. pose proof (NoDup_incl_zlen _ _ N Inc) as Le. unfold hseqs in Le. rewrite zlen_map in Le. lia.
Qed.

(* every announced sequence number is below _host_cid_seq: sequence numbers are never reused *)
Lemma issued_below_seq_l c l s q : 1 <= l -> reach c l s -> In q (issued s) -> q < hseq s.
Proof.
  intros Hl R Hq. pose proof (reach_BInv _ _ _ Hl R) as [_ B _ D]. pose proof (reach_HInv _ _ _ Hl R) as [_ _ [_ H3] _ _ _ _].
  destruct (B q Hq) as [H|H]; [|now apply D]. rewrite Forall_forall in H3. now apply H3.
Qed.

Example bounds_nontrivial :
  let s := run (start false 8) [Send 100; RecvPacket 0; RecvRetire 1; RecvRetire 3; PacketDone; Send 2] in
  reach false 8 s /\ hseq s = 10 /\ retiredev s = [1; 3] /\ issued s = [0; 1; 2; 3; 4; 5; 6; 7; 8; 9] /\ Zlen (hosts s) = 8.
Proof. split; [apply reach_run; [reflexivity|constructor]|]. vm_compute. repeat split. Qed.
