(* C01: sender completion implies complete delivery (acknowledgements are only given to delivered frames). *)
From Coq Require Import ZArith List Bool Lia ZifyBool Permutation.
From AQ Require Import lib.Base model.RangeSet model.StreamRecv model.StreamSpec model.StreamSend model.NetSys model.NetSysLive
  proofs.RangeSetP proofs.ListZ proofs.StreamRecvP proofs.StreamSendP proofs.NetSysP proofs.NetSysP2.

Definition recvd (r : recv) (o : Z) : Prop := o < r_start r \/ mem o (r_ranges r).
Definition recvd_sp (sp : rspec) (o : Z) : Prop := o < sp_del sp \/ sp_map sp o <> None.

Lemma recvd_iff r sp o : Inv true r sp -> (recvd r o <-> recvd_sp sp o).
Proof.
  intros V. unfold recvd, recvd_sp. rewrite <- (i_start _ _ _ V). split; (intros [H|H]; [left; exact H|]).
  - right. rewrite (i_val _ _ _ V o H). discriminate.
  - destruct (Z_lt_dec o (r_start r)); [left; assumption|]. right.
    destruct (contains o (r_ranges r)) eqn:C; [apply contains_mem; exact C|]. exfalso. apply H. apply (i_none _ _ _ V o); [lia|].
    intros M. apply contains_mem in M. congruence.
Qed.

(* the abstract receiver only learns: what it has stays, the frame's range is added, the final size stays known *)
Lemma spec_frame_recvd w eofp sp off data fin :
  SpecOk w eofp sp -> consistent w eofp off data fin ->
  let sp' := snd (spec_frame sp off data fin) in
  (forall o, recvd_sp sp o -> recvd_sp sp' o) /\
  (forall o, off <= o < off + Zlen data -> recvd_sp sp' o) /\
  (sp_final sp <> None -> sp_final sp' <> None) /\ (fin = true -> sp_final sp' <> None).
Proof.
  intros S (C1 & C2 & C3 & C4). pose proof (Zlen_nonneg data) as Hdl.
  unfold spec_frame. set (e := off + Zlen data).
  assert (Ebad : match sp_final sp with Some f => (e >? f) || (fin && negb (e =? f)) | None => false end = false).
  { destruct (sp_final sp) as [f|] eqn:F; [|reflexivity]. destruct (so_final _ _ _ S f F) as (_ & Hf).
    destruct fin; [destruct (C4 eq_refl) as (_ & C5); unfold e; lia|unfold e; lia]. }
  rewrite Ebad. cbn [snd]. unfold recvd_sp. cbn [sp_del sp_map sp_final].
  set (m' := fun o => if (off <=? o) && (o <? e) && (sp_del sp <=? o) then Some (nthZ data (o - off)) else sp_map sp o).
  set (d := run m' (sp_del sp) _). pose proof (Zlen_nonneg d) as Hd.
  split; [|split; [|split]].
  - intros o [H|H]; [left; lia|]. right. destruct ((off <=? o) && (o <? e) && (sp_del sp <=? o)); [discriminate|exact H].
  - intros o Ho. destruct (Z_lt_dec o (sp_del sp)); [left; lia|]. right.
    assert (E1 : (off <=? o) && (o <? e) && (sp_del sp <=? o) = true) by (unfold e; lia). rewrite E1. discriminate.
  - intros H. destruct fin; [discriminate|exact H].
  - intros ->. discriminate.
Qed.

(* ---------- what the sender's operations do to the acknowledged set ---------- *)
Lemma write_keeps_acked st d f :
  s_start (snd (write st d f)) = s_start st /\ s_acked (snd (write st d f)) = s_acked st /\
  s_acked_fin (snd (write st d f)) = s_acked_fin st.
Proof. unfold write. split_ifs; cbn; auto. Qed.

Lemma get_frame_keeps_acked st ms mo :
  s_start (snd (get_frame st ms mo)) = s_start st /\ s_acked (snd (get_frame st ms mo)) = s_acked st /\
  s_acked_fin (snd (get_frame st ms mo)) = s_acked_fin st.
Proof. unfold get_frame, set_empty. split_ifs; cbn; auto. Qed.

Lemma lost_keeps_acked st a b f :
  s_start (snd (on_data_delivery st false a b f)) = s_start st /\ s_acked (snd (on_data_delivery st false a b f)) = s_acked st /\
  s_acked_fin (snd (on_data_delivery st false a b f)) = s_acked_fin st.
Proof. unfold on_data_delivery. split_ifs; cbn; auto. Qed.

Lemma ack_grows st g a b fin : reach st g -> s_reset st = None -> In (a, b, fin) (g_outs g) ->
  let st' := snd (on_data_delivery st true a b fin) in
  (forall o, acked_at st' o -> acked_at st o \/ a <= o < b) /\
  (s_acked_fin st' = true -> s_acked_fin st = true \/ fin = true).
Proof.
  intros R ER Hin. pose proof (reach_inv _ _ R) as V.
  destruct (outstanding_facts st g a b fin V Hin) as (Hab & Hge & _ & Hfin).
  unfold on_data_delivery.
  assert (Eassert : fin && negb (match s_fin st with Some f => b =? f | None => false end) = false).
  { destruct fin; [|reflexivity]. rewrite (Hfin eq_refl). cbn. lia. }
  rewrite Eassert, ER.
  destruct (Z_lt_dec a b) as [Hlt|Hnlt].
  - destruct (advance_spec (s_acked st) (s_start st) a b (s_buf st) (v_awf _ _ V) (Hge Hlt) ltac:(lia)) as (acked' & s' & Heq & Hs' & Wa' & Ma' & Mb').
    rewrite Heq. cbn [snd s_start s_acked s_acked_fin]. unfold acked_at. cbn [s_start s_acked]. split.
    + intros o [Ho|Ho].
      * destruct (Z_lt_dec o (s_start st)); [left; left; assumption|]. destruct (Mb' o ltac:(lia)) as [X|X]; [right; exact X|left; right; exact X].
      * pose proof (mem_above _ _ _ Wa' Ho). apply Ma' in Ho; [|lia]. destruct Ho as [X|X]; [right; exact X|left; right; exact X].
    + destruct fin; [right; reflexivity|left; assumption].
  - assert (E : b >? a = false) by lia. rewrite E. cbn [snd s_start s_acked s_acked_fin]. unfold acked_at. cbn [s_start s_acked]. split.
    + intros o Ho. left. exact Ho.
    + destruct fin; [right; reflexivity|left; assumption].
Qed.

(* ---------- the invariant linking acknowledgements to what the receiver holds ---------- *)
Record AInv (s : net) : Prop := {
  ai_acked : forall o, acked_at (n_send s) o -> 0 <= o -> recvd (n_recv s) o;
  ai_fin : s_acked_fin (n_send s) = true -> r_final (n_recv s) <> None;
  ai_deliv : forall f, In f (n_emitted s) -> ef_deliv f = true ->
             (forall o, ef_off f <= o < ef_off f + Zlen (ef_data f) -> recvd (n_recv s) o) /\
             (ef_fin f = true -> r_final (n_recv s) <> None)
}.

Lemma ainv_init : AInv net_init.
Proof.
  constructor; cbn.
  - unfold acked_at. cbn. intros o [H|[]] H0. lia.
  - discriminate.
  - tauto.
Qed.

Lemma ainv_same_recv s s' :
  AInv s -> n_recv s' = n_recv s -> n_emitted s' = n_emitted s ->
  s_start (n_send s') = s_start (n_send s) -> s_acked (n_send s') = s_acked (n_send s) ->
  s_acked_fin (n_send s') = s_acked_fin (n_send s) -> AInv s'.
Proof.
  intros A E1 E2 E3 E4 E5. constructor.
  - intros o Ho. unfold acked_at in Ho. rewrite E3, E4 in Ho. rewrite E1. apply (ai_acked _ A o Ho).
  - rewrite E5, E1. exact (ai_fin _ A).
  - rewrite E2, E1. exact (ai_deliv _ A).
Qed.

Lemma report_fields wf o s r' em rr :
  n_send (report wf o s r' em rr) = n_send s /\ n_recv (report wf o s r' em rr) = r' /\
  n_emitted (report wf o s r' em rr) = em /\ n_written (report wf o s r' em rr) = n_written s.
Proof. unfold report. destruct wf; [cbn; auto|]. destruct o; cbn; auto. Qed.

Lemma ainv_step s op o s' : NInv s -> AInv s -> data_op op -> net_step s op = Some (o, s') -> AInv s'.
Proof.
  intros I A D H. destruct op; cbn [data_op] in D; try contradiction; cbn [net_step] in H.
  - (* write *)
    destruct (is_noneb (s_fin (n_send s)) && is_noneb (s_reset (n_send s))); [|discriminate].
    destruct (write_keeps_acked (n_send s) d fin) as (K1 & K2 & K3).
    destruct (write (n_send s) d fin) as [so st']. cbn [snd] in *. inversion H; subst.
    apply (ainv_same_recv s); auto.
  - (* emit *)
    destruct (is_noneb (s_reset (n_send s))); [|discriminate].
    destruct (get_frame_keeps_acked (n_send s) ms mo) as (K1 & K2 & K3).
    destruct (get_frame (n_send s) ms mo) as [so st']. cbn [snd] in *.
    destruct so; inversion H; subst; try (apply (ainv_same_recv s); auto; fail).
    constructor; cbn [n_send n_recv n_emitted].
    + intros o0 Ho. unfold acked_at in Ho. rewrite K1, K2 in Ho. apply (ai_acked _ A o0 Ho).
    + rewrite K3. exact (ai_fin _ A).
    + intros f Hf Hd. apply in_app_or in Hf. destruct Hf as [Hf|[Hf|[]]]; [exact (ai_deliv _ A f Hf Hd)|subst f; discriminate].
  - (* deliver *)
    destruct (nthE (n_emitted s) i) as [f|] eqn:Ei; [|discriminate].
    pose proof (nthE_In _ _ _ Ei) as Hf.
    destruct (ni_recv _ I) as (sp & V & S & _ & _).
    pose proof (frame_refines_strict (n_recv s) sp (ef_off f) (ef_data f) (ef_fin f) V) as FR.
    pose proof (spec_frame_recvd _ _ sp _ _ _ S (ni_emitted _ I f Hf)) as SR.
    pose proof (spec_frame_consistent _ _ sp _ _ _ S (ni_emitted _ I f Hf)) as SC.
    destruct (handle_frame (n_recv s) (ef_off f) (ef_data f) (ef_fin f)) as [ro r'].
    destruct (spec_frame sp (ef_off f) (ef_data f) (ef_fin f)) as [o' sp']. cbn [snd] in SR.
    destruct FR as (Eo & V'). subst o'. destruct SR as (M1 & M2 & M3 & M4).
    assert (Hne : ro <> RFinalSizeError) by (destruct SC as (_ & _ & [(X & _)|(d & X & _)] & _); rewrite X; discriminate).
    assert (Hmono : forall x, recvd (n_recv s) x -> recvd r' x).
    { intros x Hx. apply (recvd_iff _ _ _ V'). apply M1. apply (recvd_iff _ _ _ V). exact Hx. }
    assert (Hfinal : r_final (n_recv s) <> None -> r_final r' <> None).
    { rewrite (i_final _ _ _ V), (i_final _ _ _ V'). exact M3. }
    set (f' := mkEF (ef_off f) (ef_data f) (ef_fin f) true (ef_out f)) in *.
    assert (Hs' : exists q, s' = report (r_finished (n_recv s)) ro s r' (set_nth i f' (n_emitted s)) (n_rreset s) /\ q = tt).
    { destruct ro; try (inversion H; subst; exists tt; split; reflexivity). contradiction Hne. reflexivity. }
    destruct Hs' as (_ & -> & _).
    destruct (report_fields (r_finished (n_recv s)) ro s r' (set_nth i f' (n_emitted s)) (n_rreset s)) as (F1 & F2 & F3 & _).
    constructor; rewrite ?F1, ?F2, ?F3.
    + intros x Hx H0. apply Hmono. apply (ai_acked _ A x Hx H0).
    + intros Hx. apply Hfinal. apply (ai_fin _ A Hx).
    + intros x Hx Hd. destruct (in_set_nth _ _ _ _ _ Ei Hx) as [->|Hx'].
      * cbn [ef_off ef_data ef_fin]. split.
        -- intros y Hy. apply (recvd_iff _ _ _ V'). apply M2. exact Hy.
        -- intros Hfi. rewrite (i_final _ _ _ V'). apply M4. exact Hfi.
      * destruct (ai_deliv _ A x Hx' Hd) as (X1 & X2). split; [intros y Hy; apply Hmono, X1, Hy|intros Hfi; apply Hfinal, X2, Hfi].
  - (* outcome *)
    destruct (nthE (n_emitted s) i) as [f|] eqn:Ei; [|discriminate].
    destruct (is_noneb (ef_out f) && (negb acked || ef_deliv f)) eqn:G; [|discriminate].
    assert (Gn : noout f = true) by (unfold noout; destruct (is_noneb (ef_out f)); [reflexivity|discriminate]).
    unfold ef_key in H.
    destruct (ni_reach _ I) as (outs & R & P). destruct (ni_noreset _ I) as (N1 & _).
    destruct (nthE_split _ _ _ Ei) as (l1 & l2 & El & Sl).
    assert (Hin : In (ef_key f) outs).
    { eapply Permutation_in; [apply Permutation_sym, P|]. rewrite El, outs_of_app. apply in_or_app. right.
      unfold outs_of. cbn [filter]. rewrite Gn. left. reflexivity. }
    set (f' := mkEF (ef_off f) (ef_data f) (ef_fin f) (ef_deliv f) (Some acked)) in *.
    assert (Hdel : forall x, In x (set_nth i f' (n_emitted s)) -> ef_deliv x = true ->
              (forall y, ef_off x <= y < ef_off x + Zlen (ef_data x) -> recvd (n_recv s) y) /\ (ef_fin x = true -> r_final (n_recv s) <> None)).
    { intros x Hx Hd. destruct (in_set_nth _ _ _ _ _ Ei Hx) as [->|Hx']; [exact (ai_deliv _ A f (nthE_In _ _ _ Ei) Hd)|exact (ai_deliv _ A x Hx' Hd)]. }
    destruct acked.
    + assert (Gd : ef_deliv f = true) by (destruct (ef_deliv f); [reflexivity|rewrite andb_false_r in G; discriminate]).
      destruct (ack_grows _ _ _ _ _ R N1 Hin) as (G1 & G2). cbn zeta in G1, G2.
      destruct (on_data_delivery (n_send s) true (ef_off f) (ef_off f + Zlen (ef_data f)) (ef_fin f)) as [so st']. cbn [snd] in *.
      inversion H; subst. destruct (ai_deliv _ A f (nthE_In _ _ _ Ei) Gd) as (X1 & X2).
      constructor; cbn [n_send n_recv n_emitted].
      * intros x Hx H0. destruct (G1 x Hx) as [Y|Y]; [exact (ai_acked _ A x Y H0)|exact (X1 x Y)].
      * intros Hx. destruct (G2 Hx) as [Y|Y]; [exact (ai_fin _ A Y)|exact (X2 Y)].
      * exact Hdel.
    + destruct (lost_keeps_acked (n_send s) (ef_off f) (ef_off f + Zlen (ef_data f)) (ef_fin f)) as (K1 & K2 & K3).
      destruct (on_data_delivery (n_send s) false (ef_off f) (ef_off f + Zlen (ef_data f)) (ef_fin f)) as [so st']. cbn [snd] in *.
      inversion H; subst. constructor; cbn [n_send n_recv n_emitted].
      * intros x Hx. unfold acked_at in Hx. rewrite K1, K2 in Hx. apply (ai_acked _ A x Hx).
      * rewrite K3. exact (ai_fin _ A).
      * exact Hdel.
  - destruct (n_queue s); [discriminate|]. inversion H; subst. apply (ainv_same_recv s); auto.
  - inversion H; subst. exact A.
Qed.

Lemma nreach_ainv s : nreach s -> AInv s.
Proof.
  induction 1; [exact ainv_init|]. eapply ainv_step; [apply nreach_inv; eassumption|eassumption|eassumption|eassumption].
Qed.

(* the sender reports completion only when the receiver has reported every written byte and the end marker *)
Lemma finished_implies_delivered s : nreach s -> s_finished (n_send s) = true ->
  n_dbytes s = n_written s /\ n_ends s = 1 /\ eof s.
Proof.
  intros R Hfin. pose proof (nreach_inv _ R) as I. pose proof (nreach_ainv _ R) as A.
  destruct (ni_reach _ I) as (outs & Rs & _).
  destruct (proj1 (finished_iff _ _ Rs) Hfin) as [(F1 & F2 & F3)|F]; [|discriminate]. cbn [g_written] in *.
  destruct (ni_recv _ I) as (sp & V & S & D & E). pose proof (so_del _ _ _ S) as Hdel.
  assert (Hall : sp_del sp = Zlen (n_written s)).
  { destruct (Z.eq_dec (sp_del sp) (Zlen (n_written s))); [assumption|exfalso].
    assert (Hr : recvd (n_recv s) (sp_del sp)) by (apply (ai_acked _ A); [left; lia|lia]).
    destruct Hr as [Hr|Hr]; [rewrite (i_start _ _ _ V) in Hr; lia|].
    pose proof (mem_above _ _ _ (i_wf _ _ _ V) Hr) as Hm. rewrite (i_start _ _ _ V) in Hm. lia. }
  assert (Hf : sp_final sp = Some (Zlen (n_written s))).
  { pose proof (ai_fin _ A F3) as X. rewrite (i_final _ _ _ V) in X. destruct (sp_final sp) as [f|] eqn:Ef; [|congruence].
    destruct (so_final _ _ _ S f Ef) as (_ & ->). reflexivity. }
  split; [rewrite D, Hall; apply ztake_ztake_all|]. split.
  - rewrite E, (i_finished _ _ _ V eq_refl), (i_final _ _ _ V), (i_start _ _ _ V), Hf, Hall. cbn. rewrite Z.eqb_refl. reflexivity.
  - unfold eof. congruence.
Qed.
