(* C08 flight budget, variant that matches the wording of the property ("apart from acknowledgement-only packets"):
   WITHOUT clause 3 of the flight discipline (one-byte ACK / CLOSE-only packets are allowed; _end_packet pads them and
   marks them in flight outside any flight check), the sent_bytes of the ACK-ELICITING in-flight packets still sum up to
   at most max(0, max_flight_bytes).  Packets that are in flight but not ack-eliciting (PADDING / ACK / CLOSE only) are the
   exempted ones here; with clause 3, BuilderFlight.flight_le_budget_all needs no exemption at all. *)
From Coq Require Import ZArith List Bool Lia ZifyBool.
From AQ Require Import lib.Base lib.Tok gen.C13Consts model.Builder proofs.BuilderProofs proofs.BuilderFlight.
Import ListNotations.
Open Scope Z_scope.

Definition ae_bytes (p : spkt) : Z := let '(_, sent, inf, ae, _, _) := p in if inf && ae then sent else 0.
Definition ae_sum (l : list spkt) : Z := fold_right (fun p a => ae_bytes p + a) 0 l.

Lemma ae_sum_app a b : ae_sum (a ++ b) = ae_sum a + ae_sum b.
Proof. induction a; simpl; lia. Qed.

(* flight clauses 1 and 2 only *)
Definition op_fl12 (s : st) (o : op) : bool :=
  match o with
  | OpStartFrame _ _ | OpPush _ => op_fl s o
  | OpStartPacket _ | OpFlush => true
  end.

Fixpoint fl12_disciplined (c : cfg) (s : st) (ops : list op) : bool :=
  match ops with
  | [] => true
  | o :: t => op_disciplined s o && op_fl12 s o && (let '(_, s', _) := step c s o in fl12_disciplined c s' t)
  end.

Section FlightAE.
Variable c : cfg.
Variable mf : Z.
Hypothesis Hmf : c_max_flight c = Some mf.
Hypothesis Hwf : wf_cfg c.
Hypothesis Hfit : crypto_fits c.

(* P = ack-eliciting in-flight bytes of the packets already handed out by flush();
   d = ack-eliciting in-flight bytes of the completed packets of the datagram under construction *)
Definition AInv (P d : Z) (s : st) : Prop :=
  0 <= b_tell s /\
  b_fcap s <= b_bcap s /\
  b_bcap s <= c_mds c /\
  (b_dginit s = true -> b_tell s = 0 /\ b_cur s = None) /\
  (b_cur s = None -> b_tell s = 0 \/ b_tell s <= b_bcap s) /\
  (forall p, b_cur s = Some p ->
     0 <= p_start p /\ 0 <= p_hdr p /\ p_start p + p_hdr p < b_bcap s /\
     (b_tell s <= p_start p + p_hdr p \/ b_tell s + AEAD_TAG_SIZE <= b_bcap s) /\
     p_start p + p_hdr p <= b_tell s /\
     (p_start p + p_hdr p < b_tell s -> p_start p + p_hdr p + MIN_PAYLOAD + AEAD_TAG_SIZE <= b_bcap s) /\
     (p_inflight p = true ->
        b_tell s + AEAD_TAG_SIZE <= b_fcap s /\ p_start p + p_hdr p + MIN_PAYLOAD + AEAD_TAG_SIZE <= b_fcap s) /\
     (p_ackel p = true -> p_inflight p = true)) /\
  0 <= b_flight s /\
  (b_dginit s = false -> b_fcap s <= mf - b_flight s /\ 0 <= b_dgflight s) /\
  0 <= d /\
  (b_dginit s = true -> d = 0) /\
  (b_dginit s = false -> d <= b_dgflight s /\ d <= base s /\ (d = 0 \/ d <= b_fcap s)) /\
  P + ae_sum (b_pkts s) - d <= b_flight s /\
  0 <= P + ae_sum (b_pkts s) - d /\
  (P + ae_sum (b_pkts s) - d = 0 \/ P + ae_sum (b_pkts s) - d <= mf).

Lemma flush_current_ae s o s' :
  0 <= b_tell s -> b_fcap s <= b_bcap s -> b_bcap s <= c_mds c -> b_dginit s = false -> b_tell s <= b_bcap s ->
  0 <= b_flight s -> 0 <= b_dgflight s ->
  flush_current c s = (o, s') ->
  o = ODone /\
  ((s' = s /\ b_tell s = 0) \/
   (b_tell s' = 0 /\ b_dginit s' = true /\ b_cur s' = b_cur s /\ b_bcap s' = b_bcap s /\ b_fcap s' = b_fcap s /\
    b_pkts s' = b_pkts s /\ b_flight s + b_dgflight s <= b_flight s')).
Proof.
  unfold flush_current. intros H0 H1 H2 DI H3 H4 H5 E.
  destruct (b_tell s =? 0) eqn:T0; [inversion E; subst; split; auto; left; split; auto; lia|].
  cbv zeta in E.
  destruct (b_dgpad s); [destruct (b_fcap s - b_tell s >? 0) eqn:X|simpl in E];
  match type of E with context[if ?b then _ else _] => destruct b eqn:G end;
  try (exfalso; lia);
  inversion E; subst; clear E; simpl; (split; [reflexivity|]); right; repeat split; try lia.
Qed.

Ltac asolve Hnone :=
  repeat split; try lia; auto; try discriminate; try (apply Hnone);
  try (match goal with H : Some _ = Some _ |- _ => inversion H; subst; clear H end; simpl in *; auto; lia);
  try (let q := fresh "q" in let Hq := fresh "Hq" in
       intros q Hq; inversion Hq; subst; simpl in *; repeat split; auto; try lia; intros; try discriminate; lia).

Lemma flush_current_ainv P d s o s' :
  AInv P d s -> b_cur s = None -> flush_current c s = (o, s') ->
  AInv P 0 s' /\ b_cur s' = None /\ o = ODone /\ b_pkts s' = b_pkts s.
Proof.
  intros HI Hc E. pose proof HI as HI0.
  destruct HI as (H0&H1&H2&H3&H4&H5&H6&H7&D0&D1&D2&A1&A2&A3).
  destruct (b_dginit s) eqn:DI.
  { destruct (H3 eq_refl) as [T0 _]. unfold flush_current in E. rewrite T0 in E. simpl in E. inversion E; subst.
    rewrite (D1 eq_refl) in HI0. split; [exact HI0|repeat split; auto]. }
  destruct (H7 eq_refl) as (F1&F2). destruct (D2 eq_refl) as (G1&G2&G3). unfold base in G2. rewrite Hc in G2.
  specialize (H4 Hc).
  assert (Hnone : forall (Q : pkt -> Prop) q, @None pkt = Some q -> Q q) by (intros; discriminate).
  destruct (Z.eq_dec (b_tell s) 0) as [T0|T0].
  { unfold flush_current in E. rewrite T0 in E. simpl in E. inversion E; subst.
    assert (d = 0) by lia. subst d. split; [exact HI0|repeat split; auto]. }
  pose proof E as E'.
  apply flush_current_ae in E'; auto; try lia.
  destruct E' as [EO [[ES T] | (K1&K2&K3&K4&K5&K6&K7)]]; [lia|].
  rewrite Hc in K3. split; [|repeat split; auto].
  unfold AInv, base. rewrite K1, K2, K3, K4, K5, K6.
  repeat split; try lia; auto; try discriminate; try (apply Hnone).
Qed.

Lemma end_packet_ainv P d s p o s' :
  AInv P d s -> b_cur s = Some p ->
  end_packet c s p = (o, s') -> exists d', AInv P d' s' /\ o = ODone /\ b_cur s' = None.
Proof.
  intros HI Hc E.
  destruct HI as (H0&H1&H2&H3&H4&H5&H6&H7&D0&D1&D2&A1&A2&A3).
  destruct (H5 p Hc) as (P0&P1&P2&P3&P4&P5&P6&P7).
  destruct (b_dginit s) eqn:DI; [destruct (H3 eq_refl); congruence|].
  destruct (H7 eq_refl) as (F1&F2). destruct (D2 eq_refl) as (G1&G2&G3). unfold base in G2. rewrite Hc in G2.
  assert (Hnone : forall (Q : pkt -> Prop) q, @None pkt = Some q -> Q q) by (intros; discriminate).
  unfold end_packet in E.
  destruct (b_tell s - p_start p >? p_hdr p) eqn:SZ.
  2:{ inversion E; subst; clear E. exists d. split; [|split; reflexivity].
      unfold AInv, set_cur, set_tell, base; simpl. rewrite DI. asolve Hnone. }
  cbv zeta in E.
  match type of E with context[let '(_, _) := ?X in _] => destruct X as [padding pad2] eqn:PP end.
  assert (PB : padding <= 0 \/ (0 < padding /\ b_tell s + padding + AEAD_TAG_SIZE <= b_bcap s)).
  { assert (P5' := P5). unfold MIN_PAYLOAD in P5'.
    unfold remaining_flight_space in *.
    destruct (_ && (p_type p =? PT_ONE_RTT)) in PP.
    - destruct (_ >? _) eqn:RF in PP; apply pair_equal_spec in PP; destruct PP as [<- <-]; lia.
    - apply pair_equal_spec in PP; destruct PP as [<- <-]. lia. }
  (* a packet with an in-flight frame ends inside the flight capacity, padded or not *)
  assert (PF : p_inflight p = true -> b_tell s + Z.max padding 0 + AEAD_TAG_SIZE <= b_fcap s).
  { unfold MIN_PAYLOAD, PACKET_NUMBER_MAX_SIZE, PACKET_NUMBER_SEND_SIZE in *. unfold remaining_flight_space in *.
    intros PI. destruct (P6 PI) as [Q1 Q2].
    destruct (_ && (p_type p =? PT_ONE_RTT)) in PP.
    + destruct (_ >? _) eqn:RF in PP; apply pair_equal_spec in PP; destruct PP as [<- <-]; lia.
    + apply pair_equal_spec in PP; destruct PP as [<- <-]. lia. }
  assert (PB2 : (p_type p =? PT_ONE_RTT) = true -> pad2 = false).
  { intros T1. rewrite T1 in PP. rewrite andb_true_r in PP.
    destruct (b_dgpad s || _) in PP; apply pair_equal_spec in PP; destruct PP as [_ <-]; reflexivity. }
  assert (TB : b_tell s + AEAD_TAG_SIZE <= b_bcap s) by lia.
  clear PP.
  destruct ((padding >? 0) && (b_tell s + padding >? c_mds c)) eqn:PE.
  { exfalso. unfold AEAD_TAG_SIZE in *. lia. }
  match type of E with context[let '(_, _) := ?X in _] => destruct X as [psz infl] eqn:PS end.
  assert (PZ : psz = b_tell s - p_start p + Z.max padding 0 /\ (p_inflight p = true -> infl = true)).
  { destruct (padding >? 0) eqn:G in PS; apply pair_equal_spec in PS; destruct PS as [<- <-]; split; try lia; auto. }
  destruct PZ as [PZ PI]. clear PS.
  destruct (match c_cmax c with Some m => psz + AEAD_TAG_SIZE >? m | None => false end) eqn:CE.
  { exfalso. unfold crypto_fits in Hfit. destruct (c_cmax c); [|discriminate]. unfold AEAD_TAG_SIZE in *. lia. }
  destruct (p_start p + (psz + AEAD_TAG_SIZE) >? c_mds c) eqn:EE.
  { exfalso. unfold AEAD_TAG_SIZE in *. lia. }
  (* the ack-eliciting in-flight bytes of this packet *)
  set (ae := if infl && p_ackel p then psz + AEAD_TAG_SIZE else 0).
  assert (AE : 0 <= ae /\ (ae = 0 \/ (ae = psz + AEAD_TAG_SIZE /\ infl = true /\ p_start p + ae <= b_fcap s))).
  { unfold ae. destruct (p_ackel p) eqn:AK.
    - specialize (P7 eq_refl). rewrite (PI P7). simpl. specialize (PF P7). unfold AEAD_TAG_SIZE in *. split; [lia|right; lia].
    - rewrite andb_false_r. lia. }
  assert (DA : d + ae = 0 \/ d + ae <= b_fcap s) by (destruct AE as [? [?|(?&?&?)]]; lia).
  assert (AL : ae <= (if infl then psz + AEAD_TAG_SIZE else 0)).
  { destruct AE as [? [->|(-> & -> & _)]]; [destruct infl; unfold AEAD_TAG_SIZE; lia|lia]. }
  assert (AS : ae_sum (b_pkts s ++ [(p_type p, psz + AEAD_TAG_SIZE, infl, p_ackel p, p_crypto p, p_pn p)]) = ae_sum (b_pkts s) + ae).
  { rewrite ae_sum_app. simpl. fold ae. lia. }
  unfold AEAD_TAG_SIZE in *.
  destruct (p_type p =? PT_ONE_RTT) eqn:T1.
  - match type of E with context[flush_current c ?s2] => destruct (flush_current c s2) as [o3 s3] eqn:F end.
    apply flush_current_ae in F; simpl; auto; try (destruct infl; lia).
    destruct F as [EO [[ES T] | (K1&K2&K3&K4&K5&K6&K7)]]; subst o3; [simpl in T; lia|].
    simpl in *. inversion E; subst; clear E.
    (* a 1-RTT packet ends its datagram: its ack-eliciting bytes move to the flushed part *)
    exists 0. split; [|split; reflexivity].
    unfold AInv, base; simpl. rewrite K1, K2, K4, K5, K6. rewrite AS.
    destruct infl; asolve Hnone.
  - inversion E; subst; clear E. exists (d + ae). split; [|split; reflexivity].
    unfold AInv, base; simpl. rewrite DI. rewrite AS.
    destruct infl; asolve Hnone.
Qed.

Lemma end_current_ainv P d s o s' :
  AInv P d s -> end_current c s = (o, s') -> exists d', AInv P d' s' /\ o = ODone /\ b_cur s' = None.
Proof.
  unfold end_current. intros HI E. destruct (b_cur s) as [p|] eqn:Hc.
  - eapply end_packet_ainv; eauto.
  - inversion E; subst. exists d. auto.
Qed.

Lemma datagram_init_ainv P s :
  AInv P 0 s -> b_cur s = None -> b_dginit s = true ->
  AInv P 0 (datagram_init c s) /\ b_cur (datagram_init c s) = None /\
  b_dginit (datagram_init c s) = false /\ b_tell (datagram_init c s) = b_tell s.
Proof.
  unfold datagram_init. intros HI Hc DI. rewrite DI.
  destruct HI as (H0&H1&H2&H3&H4&H5&H6&H7&D0&D1&D2&A1&A2&A3). destruct (H3 DI) as [T0 _].
  rewrite Hmf. simpl. repeat split; auto; unfold AInv, base; simpl; rewrite ?Hc, ?T0.
  all: repeat split; try lia; auto; try discriminate;
    try (destruct (c_max_total c); destr; lia); try (destr; lia); try (intros; simpl in *; congruence).
Qed.

Lemma start_packet_tail_ae P d s2 t o s' :
  AInv P d s2 -> b_cur s2 = None ->
  (let packet_start := b_tell s2 in
   let s3 := datagram_init c s2 in
   let h := header_size c t in
   if packet_start + h >=? b_bcap s3 then (OStop, s3) else
   (ODone,
    mkSt (packet_start + h) (b_bcap s3) (b_fcap s3) (b_dgflight s3) (b_dginit s3) (b_dgpad s3) (b_flight s3)
         (b_total s3) (Some (mkPkt t packet_start h false false false (b_pn s3))) true (b_pn s3)
         (b_dgrams s3) (b_pkts s3) (g_hasinit s3) (g_log s3))) = (o, s') -> exists d', AInv P d' s'.
Proof.
  intros I2 C2 E. cbv zeta in E.
  assert (I3 : exists d3, AInv P d3 (datagram_init c s2) /\ b_cur (datagram_init c s2) = None /\
                          b_dginit (datagram_init c s2) = false /\ b_tell (datagram_init c s2) = b_tell s2).
  { destruct (b_dginit s2) eqn:DI.
    - pose proof I2 as I2'. destruct I2' as (_&_&_&_&_&_&_&_&_&D1&_). rewrite (D1 DI) in I2.
      exists 0. apply datagram_init_ainv; auto.
    - exists d. unfold datagram_init. rewrite DI. auto. }
  destruct I3 as (d3 & I3 & C3 & D3 & T3).
  destruct (b_tell s2 + header_size c t >=? b_bcap (datagram_init c s2)) eqn:G; inversion E; subst; clear E; [exists d3; auto|].
  exists d3.
  destruct I3 as (H0&H1&H2&H3&H4&H5&H6&H7&D0&D1&D2&A1&A2&A3).
  pose proof (header_size_nonneg c t Hwf).
  destruct (H7 D3) as (F1&F2). destruct (D2 D3) as (G1&G2&G3). unfold base in G2. rewrite C3 in G2.
  unfold AInv, base; simpl. rewrite D3 in *. rewrite T3 in *.
  repeat split; try lia; auto; try discriminate.
  all: match goal with H : Some _ = Some _ |- _ => inversion H; subst; clear H end; simpl in *; try lia; try discriminate.
Qed.

Lemma start_packet_ainv P d s t o s' :
  AInv P d s -> start_packet c s t = (o, s') -> exists d', AInv P d' s'.
Proof.
  unfold start_packet. intros HI E.
  destruct (negb (valid_ptype t)); [inversion E; subst; eauto|].
  destruct (end_current c s) as [o1 s1] eqn:E1.
  destruct (end_current_ainv P d _ _ _ HI E1) as (d1 & I1 & O1 & C1). subst o1.
  destruct (b_bcap s1 - b_tell s1 <? DATAGRAM_MIN_SPACE).
  - destruct (flush_current c s1) as [o2 s2] eqn:F. destruct (flush_current_ainv P d1 _ _ _ I1 C1 F) as (I2 & C2 & O2 & _).
    subst o2. eapply start_packet_tail_ae; eauto.
  - eapply start_packet_tail_ae; eauto.
Qed.

Lemma nif_nae ft : zmem ft NON_ACK_ELICITING = false -> zmem ft NON_IN_FLIGHT = false.
Proof. unfold zmem, NON_IN_FLIGHT, NON_ACK_ELICITING. simpl. lia. Qed.

Lemma start_frame_ainv P d s ft cap o s' :
  AInv P d s -> op_disciplined s (OpStartFrame ft cap) = true -> op_fl s (OpStartFrame ft cap) = true ->
  start_frame c s ft cap = (o, s') -> AInv P d s'.
Proof.
  unfold start_frame, op_disciplined, op_fl, remaining_buffer_space, remaining_flight_space. intros HI HD HF E.
  destruct (b_cur s) as [p|] eqn:Hc; [|discriminate].
  destruct (size_uint_var _) as [sz|] eqn:SZ; [|discriminate].
  assert (1 <= sz) by (unfold size_uint_var in SZ; revert SZ; destr; intros SZ; inversion SZ; lia).
  cbv zeta in E.
  destruct (negb (b_hascrypto s)); [inversion E; subst; auto|].
  destruct (_ || _) eqn:ST in E; [inversion E; subst; auto|].
  destruct (b_tell s + sz >? c_mds c); inversion E; subst; clear E; auto.
  destruct HI as (H0&H1&H2&H3&H4&H5&H6&H7&D0&D1&D2&A1&A2&A3). destruct (H5 p Hc) as (P0&P1&P2&P3&P4&P5&P6&P7).
  pose proof reserve_covers_sample as RS. fold MIN_PAYLOAD in RS.
  apply orb_false_iff in ST. destruct ST as [ST1 ST2].
  assert (SP : b_tell s + sz + AEAD_TAG_SIZE <= b_bcap s /\
               (b_tell s <= p_start p + p_hdr p -> b_tell s + MIN_PAYLOAD + AEAD_TAG_SIZE <= b_bcap s)).
  { destruct (b_tell s - p_start p <=? p_hdr p) eqn:EM.
    - destruct (cap <? START_FRAME_EMPTY_RESERVE) eqn:CR; lia.
    - lia. }
  assert (SF : zmem ft NON_IN_FLIGHT = false ->
               b_tell s + sz + AEAD_TAG_SIZE <= b_fcap s /\
               (b_tell s <= p_start p + p_hdr p -> b_tell s + MIN_PAYLOAD + AEAD_TAG_SIZE <= b_fcap s)).
  { intros NF. rewrite NF in ST2. simpl in ST2.
    destruct (b_tell s - p_start p <=? p_hdr p) eqn:EM.
    - destruct (cap <? START_FRAME_EMPTY_RESERVE) eqn:CR; lia.
    - lia. }
  destruct SP as [SP1 SP2].
  destruct (b_dginit s) eqn:DI; [destruct (H3 eq_refl); congruence|].
  pose proof (nif_nae ft) as NN.
  unfold AInv, set_cur, set_tell, base; simpl. rewrite DI. unfold base in D2. rewrite Hc in D2.
  unfold MIN_PAYLOAD, PACKET_NUMBER_MAX_SIZE, PACKET_NUMBER_SEND_SIZE, START_FRAME_EMPTY_RESERVE, AEAD_TAG_SIZE in *.
  repeat split; try lia; auto; try discriminate.
  all: try (match goal with H : Some _ = Some _ |- _ => inversion H; subst; clear H end);
       cbn [Builder.p_start Builder.p_hdr Builder.p_inflight Builder.p_type Builder.p_ackel] in *; intros; try lia.
  all: destruct (zmem ft NON_IN_FLIGHT) eqn:NF; destruct (Builder.p_inflight p) eqn:PI;
       destruct (zmem ft NON_ACK_ELICITING) eqn:NA; destruct (Builder.p_ackel p) eqn:PA; simpl in *; try discriminate; try lia; auto.
  all: try (destruct (P6 eq_refl); lia); try (destruct (SF eq_refl); lia); try (specialize (NN eq_refl); discriminate);
       try (specialize (P7 eq_refl); discriminate).
Qed.

Lemma push_ainv P d s n o s' :
  AInv P d s -> op_disciplined s (OpPush n) = true -> op_fl s (OpPush n) = true -> push c s n = (o, s') -> AInv P d s'.
Proof.
  unfold push, op_disciplined, op_fl, cur_nonempty, remaining_buffer_space, remaining_flight_space. intros HI HD HF E.
  destruct (b_cur s) as [p|] eqn:Hc; [|discriminate].
  destruct (n <? 0); [inversion E; subst; auto|].
  destruct (b_tell s + n >? c_mds c); inversion E; subst; clear E; auto.
  destruct HI as (H0&H1&H2&H3&H4&H5&H6&H7&D0&D1&D2&A1&A2&A3). destruct (H5 p Hc) as (P0&P1&P2&P3&P4&P5&P6&P7).
  destruct (b_dginit s) eqn:DI; [destruct (H3 eq_refl); congruence|].
  unfold AInv, set_tell, base; simpl. rewrite Hc, DI. unfold base in D2. rewrite Hc in D2.
  repeat split; try lia; auto; try discriminate.
  all: match goal with H : Some _ = Some _ |- _ => inversion H; subst; clear H end; simpl in *; try lia; auto.
  all: match goal with H : p_inflight _ = true |- _ => rewrite H in *; destruct (P6 eq_refl); lia end.
Qed.

Lemma flush_ainv P d s o s' dg pk :
  AInv P d s -> flush c s = (o, s', dg, pk) -> AInv (P + ae_sum pk) 0 s'.
Proof.
  unfold flush. intros HI E.
  destruct (end_current c s) as [o1 s1] eqn:E1.
  destruct (end_current_ainv P d _ _ _ HI E1) as (d1 & I1 & O1 & C1). subst o1.
  destruct (flush_current c s1) as [o2 s2] eqn:F. destruct (flush_current_ainv P d1 _ _ _ I1 C1 F) as (I2 & C2 & O2 & PK).
  subst o2. inversion E; subst; clear E.
  destruct I2 as (H0&H1&H2&H3&H4&H5&H6&H7&D0&D1&D2&A1&A2&A3).
  unfold AInv, base in *; simpl in *. rewrite C2 in *. repeat split; auto; try lia.
  all: try (match goal with DI : b_dginit _ = true |- _ => destruct (H3 DI); auto end).
  all: try (intros; discriminate).
  all: try (match goal with DI : b_dginit _ = false |- _ => destruct (H7 DI) as (?&?); destruct (D2 DI) as (?&?&?); auto; lia end).
Qed.

Lemma step_ainv P d s o r s' pk :
  AInv P d s -> op_disciplined s o = true -> op_fl12 s o = true -> step_pk c s o = (r, s', pk) ->
  exists d', AInv (P + ae_sum pk) d' s'.
Proof.
  intros HI HD HF E. destruct o; simpl in E.
  - destruct (start_packet c s t) eqn:F. inversion E; subst. simpl. rewrite Z.add_0_r. eapply start_packet_ainv; eauto.
  - destruct (start_frame c s ft cap) eqn:F. inversion E; subst. simpl. rewrite Z.add_0_r. exists d. eapply start_frame_ainv; eauto.
  - destruct (push c s n) eqn:F. inversion E; subst. simpl. rewrite Z.add_0_r. exists d. eapply push_ainv; eauto.
  - destruct (flush c s) as [[[r0 s0] d0] p0] eqn:F. inversion E; subst. exists 0. eapply flush_ainv; eauto.
Qed.

Lemma run_ainv ops : forall P d s,
  AInv P d s -> fl12_disciplined c s ops = true ->
  exists d', AInv (P + ae_sum (snd (run_pk c s ops))) d' (fst (run_pk c s ops)).
Proof.
  induction ops as [|o t IH]; intros P d s HI HD; simpl; [rewrite Z.add_0_r; eauto|].
  simpl in HD. apply andb_true_iff in HD. destruct HD as [HD1 HD2]. apply andb_true_iff in HD1. destruct HD1 as [HD0 HD1].
  pose proof (step_pk_state c s o) as ES.
  destruct (step_pk c s o) as [[r s'] pk] eqn:E. destruct (step c s o) as [[r2 s2] d2]. simpl in ES. subst s2.
  destruct (step_ainv _ _ _ _ _ _ _ HI HD0 HD1 E) as (d1 & I').
  destruct (IH _ d1 s' I' HD2) as (d' & IH'). exists d'.
  destruct (run_pk c s' t); simpl in *. rewrite ae_sum_app. rewrite Z.add_assoc. auto.
Qed.

Lemma init_ainv pn : AInv 0 0 (init_st c pn).
Proof.
  unfold AInv, init_st; simpl. repeat split; try lia; auto; try discriminate.
Qed.
End FlightAE.

(* flight_le_budget for the ack-eliciting packets, without clause 3 of the discipline *)
Theorem flight_le_budget_ack_eliciting :
  forall (c : cfg) (mf pn : Z) (ops : list op),
    c_max_flight c = Some mf -> wf_cfg c -> crypto_fits c ->
    fl12_disciplined c (init_st c pn) ops = true ->
    ae_sum (snd (run_pk c (init_st c pn) ops)) + ae_sum (b_pkts (fst (run_pk c (init_st c pn) ops))) <= Z.max 0 mf.
Proof.
  intros c mf pn ops Hmf Hwf Hfit HD.
  destruct (run_ainv c mf Hmf Hwf Hfit ops 0 0 (init_st c pn) (init_ainv c mf pn) HD) as (d & HI).
  destruct HI as (H0&H1&H2&H3&H4&H5&H6&H7&D0&D1&D2&A1&A2&A3). simpl in *.
  destruct (b_dginit (fst (run_pk c (init_st c pn) ops))) eqn:DI; [rewrite (D1 eq_refl) in *; lia|].
  destruct (H7 eq_refl) as (F1&F2). destruct (D2 eq_refl) as (G1&G2&G3). lia.
Qed.

(* the one-byte ACK history that is outside flight_le_budget_all is inside this theorem: its 29-byte packet is in flight
   but not ack-eliciting *)
Example ack_one_byte_is_exempt :
  let ops := [OpStartPacket PT_ONE_RTT; OpStartFrame FT_ACK 1; OpFlush] in
  fl12_disciplined (fl_cfg 0) (init_st (fl_cfg 0) 0) ops = true /\
  fl_sum (snd (run_pk (fl_cfg 0) (init_st (fl_cfg 0) 0) ops)) = 29 /\
  ae_sum (snd (run_pk (fl_cfg 0) (init_st (fl_cfg 0) 0) ops)) = 0.
Proof. repeat split; vm_compute; reflexivity. Qed.
