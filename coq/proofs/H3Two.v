(* C14: SEVERAL streams waiting for the QPACK encoder stream: two request / response streams whose HEADERS blocks need
   encoder-stream data, resumed by one encoder-stream delivery (in the decoder's order), versus the encoder stream
   delivered first.  Model of the patched code. *)
From AQ Require Import lib.Base lib.Tok model.H3Parse proofs.H3Chunk proofs.H3Split proofs.H3Loop proofs.H3Recv proofs.H3Fin
  proofs.H3Uni proofs.H3Table proofs.H3Push proofs.H3Hdr proofs.H3Conn proofs.H3Inter.
From Coq Require Import ZifyBool.

Section Two.
Variable fx : fixes.
Hypothesis Htr : fx_trunc fx = true.
Hypothesis Hem : fx_endmark fx = true.
Hypothesis Hpb : fx_pushblock fx = true.

(* a delivery that leaves the stream blocked: no events, the connection differs only by that stream's entry *)
Lemma blocked_delivery : forall O c sid data block rest fin,
  c_done c = false -> c_sent_end c = [] -> is_uni sid = false ->
  hd_ready c sid -> frame_at data 1 block rest -> o_dec O sid block = DBlocked ->
  exists c', handle_event fx O c (QStream sid data fin) = (Events [], c') /\
    c_done c' = false /\ c_sent_end c' = [] /\ c_client c' = c_client c /\ c_qenc c' = c_qenc c /\
    find_stream sid (c_streams c') =
      Some (set_buf (set_btype (set_blocked (hd_state (fst (get_or_create c sid)) fin) true) (Some 1)) rest) /\
    (forall x, x <> sid -> find_stream x (c_streams c') = find_stream x (c_streams c)).
Proof.
  intros O c sid data block rest fin Hd Hs Hu Hr Hf Hb.
  set (s0 := fst (get_or_create c sid)).
  assert (Hb0 : hd_boundary s0) by (apply hd_ready_goc; assumption).
  assert (Hid : s_id s0 = sid) by apply goc_id.
  assert (ER : rq_recv fx O (c_client c) s0 data fin =
               RVal [] (set_buf (set_btype (set_blocked (hd_state s0 fin) true) (Some 1)) rest)).
  { rewrite (hd_recv fx Htr Hem Hpb O (c_client c) s0 data block rest fin Hb0 Hf). rewrite Hid, Hb. reflexivity. }
  destruct (step_bidi_fwd fx O c sid data fin [] _ Hd Hs Hu ER) as (c' & HE).
  exists c'. split; [exact HE|].
  (* what the connection looks like afterwards *)
  rewrite (he_stream fx O c sid data fin Hd) in HE. unfold receive_stream_data in HE.
  rewrite (recv_bidi fx O c sid data fin Hu) in HE. fold s0 in HE. rewrite ER in HE. cbn [to_rsd] in HE.
  set (sB := set_buf (set_btype (set_blocked (hd_state s0 fin) true) (Some 1)) rest) in *.
  assert (HsB : s_id sB = sid) by (subst sB; destruct s0; cbn in *; assumption).
  assert (HbB : s_blocked sB = true) by (subst sB; destruct s0; reflexivity).
  set (cg := snd (get_or_create c sid)) in *.
  set (cB := set_streams cg (put_stream sB (c_streams cg))) in *.
  assert (FB : find_stream sid (c_streams cB) = Some sB).
  { subst cB. cbn [c_streams set_streams]. rewrite <- HsB. apply find_put_same. }
  rewrite (pop_not_ended cB sid sB FB (is_ended_blocked _ _ HbB)) in HE. inversion HE; subst c'.
  pose proof (goc_fields c sid) as (K1 & _ & K3 & _ & _ & _ & K7 & _ & K9). cbv zeta in K1, K3, K7, K9.
  fold cg in K1, K3, K7, K9.
  repeat split.
  - subst cB; cbn [c_done set_streams]; congruence.
  - subst cB. destruct cg; cbn in *; congruence.
  - subst cB; cbn [c_client set_streams]; congruence.
  - subst cB; cbn [c_qenc set_streams]; congruence.
  - exact FB.
  - intros x Hx. subst cB. cbn [c_streams set_streams]. rewrite find_put_other by (rewrite HsB; assumption).
    subst cg. apply goc_find_other. assumption.
Qed.


(* the stream a decoded HEADERS frame leaves behind keeps its id *)
Lemma hd_decoded_id : forall O cl s0 fin rest r e s', hd_decoded fx O cl s0 fin rest r = RVal e s' -> s_id s' = s_id s0.
Proof.
  intros O cl s0 fin rest r e s' H. unfold hd_decoded in H. destruct r as [hid| |]; try discriminate. cbv zeta in H.
  destruct (negb (fst (o_val O (if s_hstate s0 =? 0 then if cl then 1 else 0 else 2) hid))); [discriminate|].
  match type of H with (if ?b then _ else _) = _ => destruct b end; [discriminate|].
  unfold hd_tail in H.
  match type of H with match rq_loop ?f fx O cl fin ?st ?b ?ev with _ => _ end = _ =>
    destruct (rq_loop f fx O cl fin st b ev) as [e1 s1| |] eqn:EL end; try discriminate.
  apply (rq_loop_id fx O) in EL.
  match type of H with (if ?b then _ else _) = _ => destruct b end; [discriminate|]. inversion H; subst.
  rewrite EL. unfold hd_state. destruct (s_hstate s0 =? 0); destruct s0; reflexivity.
Qed.

(* resuming one more stream with events already collected *)
Lemma unblock_one_acc : forall O c sid evs e c', unblock fx O c [sid] [] = SVal e c' -> unblock fx O c [sid] evs = SVal (evs ++ e) c'.
Proof.
  intros O c sid evs e c' H. rewrite (unblock_unb fx O) in *. rewrite (unb_acc fx O) .
  destruct (unb fx O (c_client c) (c_streams c) [sid] []) as [e1 l1|k l1|k]; cbn [of_tres tprep] in *; try discriminate.
  inversion H; subst. reflexivity.
Qed.

(* TWO BLOCKED STREAMS.  Streams A and B each receive a HEADERS frame (plus any further bytes) whose block needs
   encoder-stream data.  Either both are delivered first (both wait; one encoder-stream delivery then reports [A; B] and
   they are resumed in that order inside that one call), or the encoder stream is delivered first (nothing waits).  When
   both header lists are accepted and what follows them parses (the two hd_decoded hypotheses), the events are the same:
   eA ++ eB in one call, or eA and eB in the calls of the two streams. *)
Theorem two_blocked : forall c0 A B es dataA blockA restA finA dataB blockB restB finB encdata encpayload OA OB O2 eA sA' eB sB',
  c_done c0 = false -> c_sent_end c0 = [] -> is_uni A = false -> is_uni B = false -> is_uni es = true -> A <> B ->
  hd_ready c0 A -> hd_ready c0 B -> enc_ready c0 es encdata encpayload ->
  frame_at dataA 1 blockA restA -> frame_at dataB 1 blockB restB ->
  o_enc OA encpayload = EUnblocked [] ->
  o_dec OB A blockA = DBlocked -> o_dec OB B blockB = DBlocked ->
  o_enc O2 encpayload = EUnblocked [A; B] ->
  o_resume O2 A = o_dec O2 A blockA -> o_resume O2 B = o_dec O2 B blockB ->
  hd_decoded fx O2 (c_client c0) (fst (get_or_create c0 A)) finA restA (o_dec O2 A blockA) = RVal eA sA' ->
  hd_decoded fx O2 (c_client c0) (fst (get_or_create c0 B)) finB restB (o_dec O2 B blockB) = RVal eB sB' ->
  run fx c0 [(QStream A dataA finA, OB); (QStream B dataB finB, OB); (QStream es encdata false, O2)]
    = [Events []; Events []; Events (eA ++ eB)] /\
  run fx c0 [(QStream es encdata false, OA); (QStream A dataA finA, O2); (QStream B dataB finB, O2)]
    = [Events []; Events eA; Events eB].
Proof.
  intros c0 A B es dataA blockA restA finA dataB blockB restB finB encdata encpayload OA OB O2 eA sA' eB sB'
         Hd Hs HuA HuB Hue Hab HrA HrB Henc HfA HfB HoA HbA HbB Ho2 HresA HresB HdA HdB.
  assert (HAe : A <> es) by (intros ->; congruence). assert (HBe : B <> es) by (intros ->; congruence).
  set (sA := fst (get_or_create c0 A)) in *. set (sB := fst (get_or_create c0 B)) in *.
  assert (HbA0 : hd_boundary sA) by (apply hd_ready_goc; assumption).
  assert (HbB0 : hd_boundary sB) by (apply hd_ready_goc; assumption).
  assert (IdA : s_id sA = A) by apply goc_id. assert (IdB : s_id sB = B) by apply goc_id.
  split.
  - (* both streams first *)
    cbn [run].
    destruct (blocked_delivery OB c0 A dataA blockA restA finA Hd Hs HuA HrA HfA HbA) as (c1 & E1 & D1 & S1 & C1 & Q1 & FA1 & FO1).
    rewrite E1.
    assert (HrB1 : hd_ready c1 B) by (unfold hd_ready in *; rewrite FO1 by congruence; assumption).
    destruct (blocked_delivery OB c1 B dataB blockB restB finB D1 S1 HuB HrB1 HfB HbB) as (c2 & E2 & D2 & S2 & C2 & Q2 & FB2 & FO2).
    rewrite E2.
    replace (fst (get_or_create c1 B)) with sB in FB2 by (symmetry; apply goc_fst_ext; apply FO1; congruence).
    fold sA in FA1.
    rewrite (he_stream fx O2 c2 es encdata false D2). unfold receive_stream_data.
    assert (Henc2 : enc_ready c2 es encdata encpayload).
    { apply (enc_ready_ext c0); [| congruence | assumption]. rewrite FO2, FO1 by congruence. reflexivity. }
    destruct (enc_step fx Htr Hem Hpb O2 c2 es encdata encpayload [A; B] Hue Henc2 Ho2) as (c3 & E3 & C3 & D3 & SE3 & F3 & (se' & G1 & G2)).
    rewrite E3.
    change [A; B] with ([A] ++ [B]). rewrite unblock_app.
    assert (FA3 : find_stream (s_id sA) (c_streams c3) =
                  Some (set_buf (set_btype (set_blocked (hd_state sA finA) true) (Some 1)) restA)).
    { rewrite IdA, F3, FO2 by congruence. exact FA1. }
    rewrite <- IdA at 1. rewrite (hd_unblock fx Htr Hem Hpb O2 c3 sA restA finA HbA0 FA3).
    rewrite IdA, HresA, C3, C2, C1, HdA. cbn [to_rsd].
    set (c4 := set_streams c3 (put_stream sA' (c_streams c3))).
    assert (IdA' : s_id sA' = A) by (rewrite (hd_decoded_id _ _ _ _ _ _ _ _ HdA); exact IdA).
    assert (FB4 : find_stream (s_id sB) (c_streams c4) =
                  Some (set_buf (set_btype (set_blocked (hd_state sB finB) true) (Some 1)) restB)).
    { subst c4. cbn [c_streams set_streams]. rewrite IdB, find_put_other by (rewrite IdA'; congruence).
      rewrite F3 by congruence. exact FB2. }
    assert (U4 : unblock fx O2 c4 [B] [] = SVal eB (set_streams c4 (put_stream sB' (c_streams c4)))).
    { rewrite <- IdB at 1. rewrite (hd_unblock fx Htr Hem Hpb O2 c4 sB restB finB HbB0 FB4).
      rewrite IdB, HresB. replace (c_client c4) with (c_client c0) by (subst c4; cbn [c_client set_streams]; congruence).
      rewrite HdB. reflexivity. }
    rewrite (unblock_one_acc O2 c4 B eA eB _ U4). reflexivity.
  - (* encoder stream first *)
    cbn [run]. rewrite (he_stream fx OA c0 es encdata false Hd). unfold receive_stream_data.
    destruct (enc_step fx Htr Hem Hpb OA c0 es encdata encpayload [] Hue Henc HoA) as (c1 & E1 & C1 & D1 & SE1 & F1 & (se' & G1 & G2)).
    rewrite E1. cbn [unblock]. rewrite (pop_not_ended c1 es se' G1 (is_ended_open _ _ G2)).
    assert (Dn1 : c_done c1 = false) by congruence. assert (Sn1 : c_sent_end c1 = []) by congruence.
    assert (GA1 : fst (get_or_create c1 A) = sA) by (apply goc_fst_ext; apply F1; assumption).
    assert (ERA : rq_recv fx O2 (c_client c1) (fst (get_or_create c1 A)) dataA finA = RVal eA sA').
    { rewrite GA1, C1. rewrite (hd_recv fx Htr Hem Hpb O2 (c_client c0) sA dataA blockA restA finA HbA0 HfA). rewrite IdA.
      destruct (o_dec O2 A blockA) eqn:EA; try exact HdA. cbn in HdA. discriminate. }
    destruct (step_bidi_fwd fx O2 c1 A dataA finA eA sA' Dn1 Sn1 HuA ERA) as (c2 & HE2). rewrite HE2.
    destruct (step_bidi fx O2 c1 A dataA finA eA c2 Dn1 Sn1 HuA HE2) as (st2 & _ & Dn2 & Sn2 & C2 & _ & GO2).
    assert (GB2 : fst (get_or_create c2 B) = sB).
    { rewrite GO2 by congruence. apply goc_fst_ext. apply F1. assumption. }
    assert (ERB : rq_recv fx O2 (c_client c2) (fst (get_or_create c2 B)) dataB finB = RVal eB sB').
    { rewrite GB2, C2, C1. rewrite (hd_recv fx Htr Hem Hpb O2 (c_client c0) sB dataB blockB restB finB HbB0 HfB). rewrite IdB.
      destruct (o_dec O2 B blockB) eqn:EB; try exact HdB. cbn in HdB. discriminate. }
    destruct (step_bidi_fwd fx O2 c2 B dataB finB eB sB' Dn2 Sn2 HuB ERB) as (c3 & HE3). rewrite HE3. reflexivity.
Qed.

End Two.
