(* C08: the CUBIC window floor for the executable PrimFloat instance FF, WITHOUT the FloatAnomaly guard.
   The only remaining premise is [cb_anom = false]: no int() was applied to an infinity or a NaN, i.e. the Python
   code raised no OverflowError / ValueError inside the controller (the model then continues with 0, the code does not
   continue at all).  Uses the IEEE-754 facts of proofs/FloatMono.v. *)
From AQ Require Import lib.Base model.RecBase model.Cubic model.Recovery model.RecoveryFloat gen.C08Consts
  proofs.RecoveryProofs proofs.RecoveryPres proofs.CubicProofs proofs.FloatMono.
From Coq Require Import ZifyBool.

(* trunc_flag never clears the anomaly flag *)
Lemma trunc_flag_mono (x : PrimFloat.float) a z a' : trunc_flag FF x a = (z, a') -> a' = false -> a = false.
Proof. unfold trunc_flag. destruct (ftrunc FF x); intros E H; inversion E; subst; auto; discriminate. Qed.

Lemma trunc_flag_some (x : PrimFloat.float) a z : trunc_flag FF x a = (z, false) -> f_trunc x = Some z.
Proof. unfold trunc_flag. cbn [ftrunc FF]. destruct (f_trunc x); intros E; inversion E; subst; auto. Qed.

Lemma w_cubic_mono wmax mss K t o a w o' a' :
  w_cubic FF wmax mss K t o a = (w, o', a') -> a' = false -> a = false.
Proof.
  unfold w_cubic. destruct (ask FF 1 _ o) as [cube o1]. destruct (trunc_flag FF _ a) as [w0 a0] eqn:E.
  intros H Ha. inversion H; subst. eapply trunc_flag_mono; eauto.
Qed.

Section Floor.
Variable mss : Z.
Hypothesis Hmss : 0 < mss < 2 ^ 52.

Let L := K_MINIMUM_WINDOW * mss.

Lemma L_range : 0 < L < 2 ^ 53.
Proof. unfold L. assert (K_MINIMUM_WINDOW = 2) by reflexivity. lia. Qed.

(* int(float(w) + float(a) * (float(b) / float(c))) >= L  for w >= L, a, b, c >= 0 *)
Lemma add_term_ge w a b c an z :
  L <= w -> 0 <= a -> 0 <= b -> 0 <= c ->
  trunc_flag FF (fadd FF (fofZ FF w) (fmul FF (fofZ FF a) (fdiv FF (fofZ FF b) (fofZ FF c)))) an = (z, false) ->
  L <= z.
Proof.
  intros Hw Ha Hb Hc E. apply trunc_flag_some in E. cbn [fadd fmul fdiv fofZ FF] in E.
  pose proof L_range as LR.
  eapply trunc_add_ge; [exact LR| | |exact E].
  - apply (proj2 (ofZ_pos w ltac:(lia))); lia.
  - apply mul_sign; [apply (ofZ_pos a Ha)|]. apply div_sign; [apply (ofZ_pos b Hb)|apply (ofZ_pos c Hc)].
Qed.

(* the choice of target in on_packet_acked: target >= cwnd *)
Lemma target_ge cwnd wc1 an target an' :
  1 <= cwnd ->
  (if wc1 <? cwnd then (cwnd, an)
   else if fltb FF (fmul FF (fconstv FF C1_5) (fofZ FF cwnd)) (fofZ FF wc1)
        then trunc_flag FF (fmul FF (fofZ FF cwnd) (fconstv FF C1_5)) an
        else (wc1, an)) = (target, an') ->
  an' = false -> cwnd <= target.
Proof.
  intros Hc E Ha. destruct (wc1 <? cwnd) eqn:C1; [inversion E; lia|].
  destruct (fltb FF _ _).
  - subst an'. apply trunc_flag_some in E. cbn [fmul fofZ fconstv FF] in E. apply trunc_mul15_ge in E; auto.
  - inversion E; lia.
Qed.

(* invariant behind the floor *)
Definition cubic_Q (c : cubic (T:=PrimFloat.float)) : Prop :=
  cb_mss c = mss /\ cb_aif c = mss /\
  (cb_anom c = false ->
   L <= cb_cwnd c /\ (cb_first_ss c = false -> cb_starting c = false -> L <= cb_West c)).

Lemma cubic_window_floor_ff cwnd west' wc2 target an fanom w an' fa :
  L <= cwnd -> L <= west' -> cwnd <= target ->
  cubic_window FF cwnd west' wc2 target mss an fanom = (w, an', fa) -> an' = false -> L <= w.
Proof.
  intros Hc Hw Ht E Ha. unfold cubic_window in E. destruct (wc2 <? west'); [inversion E; subst; auto|].
  destruct (trunc_flag FF _ an) as [w0 a0] eqn:TF. inversion E; subst. clear E.
  pose proof L_range. eapply (add_term_ge cwnd (target - cwnd) mss cwnd an w); try lia. exact TF.
Qed.

Lemma cubic_pres_ff : cc_pres (cubic_cc FF) cubic_Q.
Proof.
  pose proof L_range as LR.
  assert (Hk : L <= K_INITIAL_WINDOW * mss).
  { unfold L. assert (K_MINIMUM_WINDOW <= K_INITIAL_WINDOW) by (vm_compute; discriminate). nia. }
  unfold cubic_Q.
  constructor; intros; cbn [cubic_cc cc_on_sent cc_on_acked cc_on_expired cc_on_lost cc_on_rtt].
  - (* on_packet_sent *)
    destruct H as (Hm & Ha & Hc). unfold cubic_on_sent.
    destruct (feqb FF _ _); [cbn [cb_mss cb_aif cb_anom cb_cwnd cb_first_ss cb_starting cb_West]; auto|].
    destruct (fleb FF _ _); [|cbn [cb_mss cb_aif cb_anom cb_cwnd cb_first_ss cb_starting cb_West]; auto].
    unfold cubic_reset. cbn [cb_mss cb_aif cb_anom cb_cwnd cb_first_ss cb_starting cb_West].
    repeat split; auto. rewrite Hm. exact Hk. discriminate.
  - (* on_packet_acked *)
    destruct H as (Hm & Ha & Hc). unfold cubic_on_acked.
    destruct (match cb_ssthresh c with None => true | Some s => cb_cwnd c <? s end).
    + cbn [cb_mss cb_aif cb_anom cb_cwnd cb_first_ss cb_starting cb_West]. repeat split; auto.
      * destruct (Hc H); lia.
      * destruct (Hc H); auto.
    + destruct (cubic_epoch FF c now _) as [[[[[[fs wmax] te] ce] west] K] o] eqn:Ee.
      destruct (trunc_flag FF _ (cb_anom c)) as [west' anom] eqn:TW.
      destruct (w_cubic FF wmax (cb_mss c) K _ o anom) as [[wc1 o1] anom1] eqn:W1.
      match goal with |- context [let '(target, anom) := ?e in _] => destruct e as [target anom2] eqn:TG end.
      destruct (w_cubic FF wmax (cb_mss c) K _ o1 anom2) as [[wc2 o2] anom3] eqn:W2.
      destruct (cubic_window FF _ _ _ _ _ _ _) as [[cw an] fa] eqn:Ew.
      cbn [cb_mss cb_aif cb_anom cb_cwnd cb_first_ss cb_starting cb_West].
      split; auto. split; auto. intros Han.
      (* the anomaly flag is sticky along the whole computation *)
      assert (A3 : anom3 = false).
      { unfold cubic_window in Ew. destruct (wc2 <? west'); [inversion Ew; subst; auto|].
        destruct (trunc_flag FF _ anom3) as [w0 a0] eqn:TF. inversion Ew; subst. eapply trunc_flag_mono; eauto. }
      assert (A2 : anom2 = false) by (eapply w_cubic_mono; eauto).
      assert (A1 : anom1 = false).
      { destruct (wc1 <? cb_cwnd c); [inversion TG; subst; auto|].
        destruct (fltb FF _ _); [|inversion TG; subst; auto]. eapply trunc_flag_mono; eauto. }
      assert (A0 : anom = false) by (eapply w_cubic_mono; eauto).
      assert (AC : cb_anom c = false) by (eapply trunc_flag_mono; eauto).
      destruct (Hc AC) as (B1 & B2).
      assert (Hwest : L <= west).
      { destruct (cubic_epoch_west FF _ _ _ _ _ _ _ _ _ _ Ee) as [->|(E1 & E2 & ->)]; auto. }
      assert (Hwest' : L <= west').
      { subst anom. eapply (add_term_ge west (cb_aif c) (p_bytes p) (cb_cwnd c)); try lia. exact TW. }
      assert (Htarget : cb_cwnd c <= target).
      { eapply target_ge; [|exact TG|exact A2]. lia. }
      split; [|intros _ _; exact Hwest'].
      rewrite Hm in Ew. eapply cubic_window_floor_ff; [exact B1|exact Hwest'|exact Htarget|exact Ew|exact Han].
  - exact H.
  - (* on_packets_lost *)
    destruct H as (Hm & Ha & Hc). unfold cubic_on_lost.
    destruct (fltb FF (cb_start c) _); [|cbn [cb_mss cb_aif cb_anom cb_cwnd cb_first_ss cb_starting cb_West]; auto].
    match goal with |- context [let '(wmax, anom) := ?e in _] => destruct e as [wmax anom] end.
    destruct (trunc_flag FF _ _) as [red anom']. cbn [cb_mss cb_aif cb_anom cb_cwnd cb_first_ss cb_starting cb_West].
    split; auto. split; auto. intros _. rewrite Hm. fold L. split; [lia|discriminate].
  - (* on_rtt_measurement *)
    destruct H as (Hm & Ha & Hc). unfold cubic_on_rtt.
    destruct (cb_ssthresh c); [cbn [cb_mss cb_aif cb_anom cb_cwnd cb_first_ss cb_starting cb_West]; auto|].
    destruct (is_rtt_increasing FF (cb_mon c) now r). cbn [cb_mss cb_aif cb_anom cb_cwnd cb_first_ss cb_starting cb_West]. auto.
Qed.

Lemma cubic_init_Q o : cubic_Q (cubic_init FF mss o).
Proof.
  unfold cubic_Q, cubic_init. cbn [cb_mss cb_aif cb_anom cb_cwnd cb_first_ss cb_starting cb_West].
  split; auto. split; auto. intros _.
  assert (K_MINIMUM_WINDOW <= K_INITIAL_WINDOW) by (vm_compute; discriminate).
  split; [unfold L; nia|discriminate].
Qed.
End Floor.

(* cwnd_floor_cubic: for the PrimFloat instance that is executed against the code, the CUBIC window never drops below
   K_MINIMUM_WINDOW = 2 datagrams on any history, as long as no int(inf / nan) occurred (Python: no exception). *)
Theorem cwnd_floor_cubic_ff : forall n irtt mss pcav o ops st evs,
  0 < mss < 2 ^ 52 -> Forall (op_nn (T:=PrimFloat.float)) ops ->
  run FF (cubic_cc FF) (rec_init FF n irtt mss pcav (cubic_init FF mss o)) ops = (st, evs) ->
  cb_anom (r_cc st) = false ->
  K_MINIMUM_WINDOW * mss <= cb_cwnd (r_cc st) /\ K_MINIMUM_WINDOW = 2.
Proof.
  intros n irtt mss pcav o ops st evs Hm Hn Hr Hf.
  pose proof (run_pres FF (cubic_cc FF) (cubic_Q mss) (cubic_pres_ff mss Hm) ops _ _ _
                (init_pgood FF (cubic_Q mss) n irtt mss pcav _ (cubic_init_Q mss Hm o)) Hn Hr) as (Pc & _).
  destruct Pc as (_ & _ & Pc). split; [apply Pc; exact Hf|reflexivity].
Qed.

(* the hypotheses are satisfiable by a history that reaches congestion avoidance (loss by packet threshold, then an
   ack in the congestion-avoidance branch; the libm oracle stream is empty, which only sets the oracle-miss flag) *)
From Coq Require Import PrimFloat.
Definition floor_ex_ops : list (rop (T:=PrimFloat.float)) :=
  [fSend 0 0 true true false 1 1200; fSend 0 1 true true false 1 1200; fSend 0 2 true true false 1 1200;
   fSend 0 3 true true false 1 1200; fSend 0 4 true true false 1 1200; fSend 0 5 true true false 1 1200;
   fAck 0 [(4, 6)] 0 0x1.2p+0; fAck 0 [(3, 4)] 0 0x1.4p+0].

Example floor_hyps_satisfiable :
  let st := fst (run FF (cubic_cc FF) (rec_init FF 3 0x1p-3%float 1200 true (cubic_init FF 1200 [])) floor_ex_ops) in
  Forall (op_nn (T:=PrimFloat.float)) floor_ex_ops /\
  cb_anom (r_cc st) = false /\ cb_ssthresh (r_cc st) = Some 2400 /\ cb_starting (r_cc st) = false /\ cb_cwnd (r_cc st) = 3000.
Proof.
  cbv zeta. split; [repeat constructor; cbn; lia|]. repeat split; vm_compute; reflexivity.
Qed.
