(* The token dump of a TLS message determines the message: tk_X (dump_X m) = m.  Hence dump_X is
   injective, and the round trips of TlsRoundtrip.v can be read at the level of records:
   pull_X followed by tk_X returns the message that was encoded. *)
From AQ Require Import lib.Base lib.Tok model.Codec model.TlsCodec proofs.CodecProofs proofs.HeaderProofs
  proofs.TlsCodecProofs proofs.TlsListProofs proofs.TlsRoundtrip.
From Coq Require Import ZifyBool.

Lemma zdrop_app_exact {A} (a b : list A) : zdrop (Zlen a) (a ++ b) = b.
Proof. unfold zdrop, Zlen. rewrite Nat2Z.id. apply skipn_app_exact. Qed.

Lemma tk_list_bytes b rest : tk_list (out_bytes b ++ rest) = (b, rest).
Proof. unfold out_bytes, tk_list, tk_take. cbn [app]. now rewrite ztake_app_exact, zdrop_app_exact. Qed.

Lemma flat_map_single (l : list Z) : flat_map (fun v => [v]) l = l.
Proof. induction l as [|v t IH]; [reflexivity|]. cbn [flat_map app]. now rewrite IH. Qed.

Lemma tk_list_ints l rest : tk_list (dump_ints l ++ rest) = (l, rest).
Proof.
  unfold dump_ints, dump_list. rewrite flat_map_single. change (Zlen l :: l) with (out_bytes l). apply tk_list_bytes.
Qed.

Lemma tk_n_dump {A} (f : list Z -> A * list Z) (g : A -> list Z) :
  (forall x r, f (g x ++ r) = (x, r)) ->
  forall l rest, tk_n f (length l) (flat_map g l ++ rest) = (l, rest).
Proof.
  intros H. induction l as [|x t IH]; intros rest; [reflexivity|].
  cbn [length tk_n flat_map]. rewrite <- app_assoc, H, IH. reflexivity.
Qed.

Lemma tk_cnt_dump {A} (f : list Z -> A * list Z) (g : A -> list Z) l rest :
  (forall x r, f (g x ++ r) = (x, r)) -> tk_cnt f (dump_list g l ++ rest) = (l, rest).
Proof.
  intros H. unfold dump_list, tk_cnt, Zlen. cbn [app]. rewrite Nat2Z.id. now apply tk_n_dump.
Qed.

Lemma tk_optv_dump {A} (f : list Z -> A * list Z) (g : A -> list Z) o rest :
  (forall x r, f (g x ++ r) = (x, r)) -> tk_optv f (dump_opt g o ++ rest) = (o, rest).
Proof. intros H. destruct o as [a|]; cbn [dump_opt app tk_optv]; [now rewrite H|reflexivity]. Qed.

Lemma tk_ext_dump e r : tk_ext (dump_ext e ++ r) = (e, r).
Proof. destruct e as [t d]. unfold tk_ext, dump_ext. cbn [fst snd app tk_z]. now rewrite tk_list_bytes. Qed.

Lemma tk_flag_dump b r : tk_flag (dump_flag b ++ r) = (b, r).
Proof. destruct b; reflexivity. Qed.

Lemma tk_z_one v r : tk_z ([v] ++ r) = (v, r).
Proof. reflexivity. Qed.

Lemma tk_psk_identity_dump i r : tk_psk_identity (dump_psk_identity i ++ r) = (i, r).
Proof.
  destruct i as [d a]. unfold tk_psk_identity, dump_psk_identity. cbn [fst snd].
  rewrite <- app_assoc, tk_list_bytes. reflexivity.
Qed.

Lemma tk_pair_dump e r : tk_pair (dump_cert_entry e ++ r) = (e, r).
Proof.
  destruct e as [a b]. unfold tk_pair, dump_cert_entry. cbn [fst snd].
  rewrite <- app_assoc, tk_list_bytes, tk_list_bytes. reflexivity.
Qed.

Lemma tk_psks_dump p r : tk_psks (dump_psks p ++ r) = (p, r).
Proof.
  destruct p as [ids bd]. unfold tk_psks, dump_psks. cbn [fst snd]. rewrite <- app_assoc.
  rewrite (tk_cnt_dump _ _ _ _ tk_psk_identity_dump), (tk_cnt_dump _ _ _ _ tk_list_bytes). reflexivity.
Qed.

Ltac norm := repeat (cbn [app]; rewrite <- app_assoc); cbn [app].

Theorem tk_dump_certificate_verify m : tk_certificate_verify (dump_certificate_verify m) = m.
Proof.
  destruct m as [alg sig]. unfold tk_certificate_verify, dump_certificate_verify. cbn [cv_algorithm cv_signature tk_z].
  rewrite <- (app_nil_r (out_bytes sig)), tk_list_bytes. reflexivity.
Qed.

Theorem tk_dump_certificate m : tk_certificate (dump_certificate m) = m.
Proof.
  destruct m as [ctx certs]. unfold tk_certificate, dump_certificate. cbn [cert_request_context cert_certificates].
  rewrite tk_list_bytes. rewrite <- (app_nil_r (dump_list _ _)), (tk_cnt_dump _ _ _ _ tk_pair_dump). reflexivity.
Qed.

Theorem tk_dump_server_hello m : tk_server_hello (dump_server_hello m) = m.
Proof.
  destruct m as [random sid cs cm sv ks psk other]. unfold tk_server_hello, dump_server_hello.
  cbn [sh_random sh_session_id sh_cipher_suite sh_compression_method sh_supported_version sh_key_share
       sh_pre_shared_key sh_other_extensions].
  norm. rewrite !tk_list_bytes. cbn [tk_z].
  rewrite (tk_optv_dump tk_z (fun v => [v]) sv _ tk_z_one).
  rewrite (tk_optv_dump tk_ext dump_ext ks _ tk_ext_dump).
  rewrite (tk_optv_dump tk_z (fun v => [v]) psk _ tk_z_one).
  rewrite <- (app_nil_r (dump_list _ _)), (tk_cnt_dump _ _ _ _ tk_ext_dump). reflexivity.
Qed.

Theorem tk_dump_new_session_ticket m : tk_new_session_ticket (dump_new_session_ticket m) = m.
Proof.
  destruct m as [lt aa nonce ticket med other]. unfold tk_new_session_ticket, dump_new_session_ticket.
  cbn [nst_lifetime nst_age_add nst_nonce nst_ticket nst_max_early_data_size nst_other_extensions].
  norm. cbn [tk_z]. rewrite !tk_list_bytes.
  rewrite (tk_optv_dump tk_z (fun v => [v]) med _ tk_z_one).
  rewrite <- (app_nil_r (dump_list _ _)), (tk_cnt_dump _ _ _ _ tk_ext_dump). reflexivity.
Qed.

Theorem tk_dump_encrypted_extensions m : tk_encrypted_extensions (dump_encrypted_extensions m) = m.
Proof.
  destruct m as [alpn early other]. unfold tk_encrypted_extensions, dump_encrypted_extensions.
  cbn [ee_alpn_protocol ee_early_data ee_other_extensions].
  rewrite (tk_optv_dump tk_list out_bytes alpn _ tk_list_bytes), tk_flag_dump.
  rewrite <- (app_nil_r (dump_list _ _)), (tk_cnt_dump _ _ _ _ tk_ext_dump). reflexivity.
Qed.

Theorem tk_dump_certificate_request m : tk_certificate_request (dump_certificate_request m) = m.
Proof.
  destruct m as [ctx sa other]. unfold tk_certificate_request, dump_certificate_request.
  cbn [cr_request_context cr_signature_algorithms cr_other_extensions].
  rewrite tk_list_bytes.
  change (1 :: dump_ints sa) with (dump_opt dump_ints (Some sa)).
  rewrite (tk_optv_dump tk_list dump_ints (Some sa) _ tk_list_ints).
  rewrite <- (app_nil_r (dump_list _ _)), (tk_cnt_dump _ _ _ _ tk_ext_dump). reflexivity.
Qed.

Theorem tk_dump_client_hello m : tk_client_hello (dump_client_hello m) = m.
Proof.
  destruct m as [random sid cs cm ks sv sa sg modes sni alpn early psk other].
  unfold tk_client_hello, dump_client_hello.
  cbn [ch_random ch_session_id ch_cipher_suites ch_compression_methods ch_key_share ch_supported_versions
       ch_signature_algorithms ch_supported_groups ch_psk_key_exchange_modes ch_server_name ch_alpn_protocols
       ch_early_data ch_pre_shared_key ch_other_extensions].
  change (1 :: dump_list dump_ext ks) with (dump_opt (dump_list dump_ext) (Some ks)).
  change (1 :: dump_ints sv) with (dump_opt dump_ints (Some sv)).
  change (1 :: dump_ints sa) with (dump_opt dump_ints (Some sa)).
  change (1 :: dump_ints sg) with (dump_opt dump_ints (Some sg)).
  rewrite !tk_list_bytes, !tk_list_ints.
  rewrite (tk_optv_dump (tk_cnt tk_ext) (dump_list dump_ext) (Some ks) _
             (fun l r => tk_cnt_dump tk_ext dump_ext l r tk_ext_dump)).
  rewrite (tk_optv_dump tk_list dump_ints (Some sv) _ tk_list_ints).
  rewrite (tk_optv_dump tk_list dump_ints (Some sa) _ tk_list_ints).
  rewrite (tk_optv_dump tk_list dump_ints (Some sg) _ tk_list_ints).
  rewrite (tk_optv_dump tk_list dump_ints modes _ tk_list_ints).
  rewrite (tk_optv_dump tk_list out_bytes sni _ tk_list_bytes).
  rewrite (tk_optv_dump (tk_cnt tk_list) (dump_list out_bytes) alpn _
             (fun l r => tk_cnt_dump tk_list out_bytes l r tk_list_bytes)).
  rewrite tk_flag_dump.
  change (fun p : list (list Z * Z) * list (list Z) => dump_list dump_psk_identity (fst p) ++ dump_list out_bytes (snd p))
    with dump_psks.
  rewrite (tk_optv_dump tk_psks dump_psks psk _ tk_psks_dump).
  rewrite <- (app_nil_r (dump_list _ _)), (tk_cnt_dump _ _ _ _ tk_ext_dump). reflexivity.
Qed.

Theorem tk_dump_inverse :
  (forall m, tk_client_hello (dump_client_hello m) = m) /\ (forall m, tk_server_hello (dump_server_hello m) = m) /\
  (forall m, tk_new_session_ticket (dump_new_session_ticket m) = m) /\
  (forall m, tk_encrypted_extensions (dump_encrypted_extensions m) = m) /\
  (forall m, tk_certificate (dump_certificate m) = m) /\
  (forall m, tk_certificate_request (dump_certificate_request m) = m) /\
  (forall m, tk_certificate_verify (dump_certificate_verify m) = m).
Proof.
  repeat split; intros m.
  - apply tk_dump_client_hello. - apply tk_dump_server_hello. - apply tk_dump_new_session_ticket.
  - apply tk_dump_encrypted_extensions. - apply tk_dump_certificate. - apply tk_dump_certificate_request.
  - apply tk_dump_certificate_verify.
Qed.

(* ---- the round trips at the level of records -------------------------------------------------------------- *)
Definition decode_as {M} (pull : list Z -> Res (list Z * list Z)) (tk : list Z -> M) (bs : list Z) : Res (M * list Z) :=
  '(toks, r) <- pull bs ;; Ok (tk toks, r).

Theorem tls_roundtrip_records :
  (forall m bytes rest, client_hello_wf m = true -> enc_seq (tree_client_hello m) = Ok bytes ->
     decode_as pull_client_hello tk_client_hello (bytes ++ rest) = Ok (m, rest)) /\
  (forall m bytes rest, server_hello_wf m = true -> enc_seq (tree_server_hello m) = Ok bytes ->
     decode_as pull_server_hello tk_server_hello (bytes ++ rest) = Ok (m, rest)) /\
  (forall m bytes rest, new_session_ticket_wf m = true -> enc_seq (tree_new_session_ticket m) = Ok bytes ->
     decode_as pull_new_session_ticket tk_new_session_ticket (bytes ++ rest) = Ok (m, rest)) /\
  (forall m bytes rest, encrypted_extensions_wf m = true -> enc_seq (tree_encrypted_extensions m) = Ok bytes ->
     decode_as pull_encrypted_extensions tk_encrypted_extensions (bytes ++ rest) = Ok (m, rest)) /\
  (forall m bytes rest, enc_seq (tree_certificate m) = Ok bytes ->
     decode_as pull_certificate tk_certificate (bytes ++ rest) = Ok (m, rest)) /\
  (forall m bytes rest, certificate_request_wf m = true -> enc_seq (tree_certificate_request m) = Ok bytes ->
     decode_as pull_certificate_request tk_certificate_request (bytes ++ rest) = Ok (m, rest)) /\
  (forall m bytes rest, certificate_verify_wf m = true -> enc_seq (tree_certificate_verify m) = Ok bytes ->
     decode_as pull_certificate_verify tk_certificate_verify (bytes ++ rest) = Ok (m, rest)).
Proof.
  unfold decode_as. repeat split; intros.
  - rewrite (client_hello_roundtrip m bytes rest) by assumption. cbn [bind]. now rewrite tk_dump_client_hello.
  - rewrite (server_hello_roundtrip m bytes rest) by assumption. cbn [bind]. now rewrite tk_dump_server_hello.
  - rewrite (new_session_ticket_roundtrip m bytes rest) by assumption. cbn [bind]. now rewrite tk_dump_new_session_ticket.
  - rewrite (encrypted_extensions_roundtrip m bytes rest) by assumption. cbn [bind]. now rewrite tk_dump_encrypted_extensions.
  - rewrite (certificate_roundtrip m bytes rest) by assumption. cbn [bind]. now rewrite tk_dump_certificate.
  - rewrite (certificate_request_roundtrip m bytes rest) by assumption. cbn [bind]. now rewrite tk_dump_certificate_request.
  - rewrite (certificate_verify_roundtrip m bytes rest) by assumption. cbn [bind]. now rewrite tk_dump_certificate_verify.
Qed.
