(* Proofs about model/RecvAck.v (C12): the receive path composed with the acknowledgement bookkeeping.
   1. the order of the model is the order of the source (generated fragment gen/C12RecvOrder.v);
   2. closed forms of one packet in the order of the code and in the variant "record first";
   3. the invariant of AckQueueP (Inv = soundness + "an armed ACK timer has something to report") for all three spaces
      of a connection, over ALL sequences of packets (any decryption verdict, any packet number in [0, 2^62), any payload
      effects incl. acknowledgements of our ACK frames, errors, discards in the middle of a payload) and sends;
   4. consequences: ack_at_implies_queue_nonempty, ack_writer_never_raises_composed, recorded_only_after_processing;
   5. the variant: record_before_payload_refuted;
   6. the atomic Recv op of model/AckQueue.v is the composed packet (recv_packet_refines). *)
From Coq Require Import ZArith List Bool Lia ZifyBool.
From AQ Require Import lib.Base lib.Tok model.Codec model.Varint model.RangeSet model.AckFrame gen.C12Consts gen.C12RecvOrder
  model.AckQueue model.RecvAck proofs.RangeSetP proofs.AckQueueP.

(* ---- 1. the source has the order the model has ------------------------------------------------------------------------ *)
Lemma recv_order_as_modelled_l : RECV_ORDER = source_order code_order.
Proof. vm_compute. reflexivity. Qed.

Lemma ack_handler_as_modelled_l : HANDLER_PRUNE_OK = true /\ HANDLER_ARGS_OK = true /\ WRITER_ORDER = [1; 2; 3; 4].
Proof. repeat split; vm_compute; reflexivity. Qed.

(* ---- spaces of a connection ------------------------------------------------------------------------------------------- *)
Lemma sid_eqb_eq a b : sid_eqb a b = true <-> a = b.
Proof. destruct a, b; cbn; split; congruence. Qed.

Lemma rget_rupd c i f j : rget (rupd c i f) j = if sid_eqb i j then f (rget c i) else rget c j.
Proof. destruct c as [[a b] d]. destruct i, j; reflexivity. Qed.
Lemma rget_rall c f j : rget (rall c f) j = f (rget c j).
Proof. destruct c as [[a b] d]. destruct j; reflexivity. Qed.
Lemma rupd_rupd c i f g : rupd (rupd c i f) i g = rupd c i (fun r => g (f r)).
Proof. destruct c as [[a b] d]. destruct i; reflexivity. Qed.

Lemma spc_rupd c i f j : spc (rupd c i (on_sp f)) j = if sid_eqb i j then f (spc c i) else spc c j.
Proof. unfold spc. rewrite rget_rupd. destruct (sid_eqb i j); reflexivity. Qed.
Lemma spc_rall c f j : spc (rall c (on_sp f)) j = f (spc c j).
Proof. unfold spc. rewrite rget_rall. reflexivity. Qed.
Lemma sid_eqb_refl i : sid_eqb i i = true.
Proof. destruct i; reflexivity. Qed.

(* ---- 2. closed forms ------------------------------------------------------------------------------------------------------ *)
Lemma guarded_live f s : disc s = false -> guarded f s = f s.
Proof. unfold guarded. intros ->. reflexivity. Qed.
Lemma guarded_disc f s : disc s = true -> guarded f s = s.
Proof. unfold guarded. intros ->. reflexivity. Qed.

Lemma tail_record s pn elic t d : tail s pn elic t d = record s pn elic t d.
Proof.
  unfold tail, record. destruct (disc s) eqn:D.
  - rewrite !(guarded_disc _ s D). reflexivity.
  - rewrite (guarded_live _ s D).
    rewrite (guarded_live _ (st_largest s pn elic t)) by exact D.
    rewrite (guarded_live _ (st_add (st_largest s pn elic t) pn)) by exact D.
    rewrite (guarded_live _ (st_arm (st_add (st_largest s pn elic t) pn) elic t d)) by exact D.
    unfold st_cap, set_ack_at, st_arm, set_ack_at, st_add, st_largest. cbn. rewrite D. reflexivity.
Qed.

Lemma ev_run_dead i v fs t d ord : forall x, p_live x = false -> ev_run i v fs t d x ord = Ok x.
Proof.
  induction ord as [|e r IH]; intros x H; cbn; [reflexivity|].
  unfold ev_step. rewrite H. cbn. apply IH, H.
Qed.

Definition bump (pn : Z) (r : rsp) : rsp := mkRS (sp r) (if pn >? expd r then pn + 1 else expd r).

(* one packet in the order of the code *)
Definition recv_closed (c : rconn) (i : sid) (v : verdict) (fs : list fx) (t d : Z) : Res rconn :=
  if closing (spc c i) then Ok c else
  match v with
  | VKeyUnavailable | VCryptoError => Ok c
  | VPlain pn true => Ok (rall c (on_sp set_closing))
  | VPlain pn false =>
      r <- payload_received (rupd (rupd c i (bump pn)) i (on_sp (fun s => set_clk s t))) i fs ;;
      let '(c2, elic, raised) := r in
      let c3 := if raised then rall c2 (on_sp set_closing) else c2 in
      if closing (spc c3 i) then Ok c3 else Ok (rupd c3 i (on_sp (fun s => tail s pn elic t d)))
  end.

Lemma ev_run_cons i v fs t d x e r :
  ev_run i v fs t d x (e :: r) = (x' <- ev_step i v fs t d x e ;; ev_run i v fs t d x' r).
Proof. reflexivity. Qed.

Ltac ev_next := rewrite ev_run_cons; unfold ev_step at 1; cbn [p_live negb p_c p_with p_pn p_elic].
Ltac ev_dead := cbn [bind]; rewrite ev_run_dead by reflexivity; reflexivity.

Lemma recv_packet_closed c i v fs t d : recv_packet c i v fs t d = recv_closed c i v fs t d.
Proof.
  unfold recv_packet, recv_ord, recv_closed, code_order.
  ev_next. destruct (closing (spc c i)) eqn:C0; [ev_dead|].
  cbn [bind]. ev_next.
  destruct v as [| |pn rsv]; [ev_dead|ev_dead|].
  cbn [bind]. ev_next.
  destruct rsv; [ev_dead|].
  cbn [bind]. ev_next. cbn [bind]. ev_next.
  fold (bump pn).
  destruct (payload_received _ i fs) as [[[c2 elic] raised]|k]; [|reflexivity].
  cbn [bind].
  set (c3 := if raised then rall c2 (on_sp set_closing) else c2).
  ev_next. destruct (closing (spc c3 i)) eqn:C3; [ev_dead|].
  cbn [bind]. ev_next. cbn [bind]. ev_next. cbn [bind]. ev_next. cbn [bind]. ev_next. cbn [bind ev_run p_c].
  rewrite !rupd_rupd. unfold tail. reflexivity.
Qed.

(* ---- 3. invariants -------------------------------------------------------------------------------------------------------- *)
(* between packets: the invariant of AckQueueP in every space *)
Definition CInv (c : rconn) : Prop := forall j, Inv (spc c j).
(* while the payload of a packet of space i is processed: soundness everywhere, but "an armed timer has something to
   report" only in the OTHER spaces -- an acknowledgement of our ACK frame may just have emptied the queue of space i *)
Definition PInv (i : sid) (c : rconn) : Prop :=
  (forall j, Inv0 (spc c j)) /\ (forall j, j <> i -> NonEmpty (spc c j)).

Lemma cinv_pinv i c : CInv c -> PInv i c.
Proof. intros H. split; intros j; [apply H|intros _; apply H]. Qed.

Lemma inv0_set_complete s : Inv0 s -> Inv0 (set_complete s).
Proof. intros [W Sb R Dc Fr L]. constructor; cbn; auto. Qed.
Lemma inv0_set_closing s : Inv0 s -> Inv0 (set_closing s).
Proof. intros [W Sb R Dc Fr L]. constructor; cbn; auto. Qed.
Lemma inv0_discard s : Inv0 s -> Inv0 (discard s).
Proof. intros [W Sb R Dc Fr L]. constructor; cbn; auto. Qed.
Lemma inv0_set_clk s t : Inv0 s -> Inv0 (set_clk s t).
Proof. intros [W Sb R Dc Fr L]. constructor; cbn; auto. Qed.
Lemma nonempty_set_complete s : NonEmpty s -> NonEmpty (set_complete s).
Proof. unfold NonEmpty. cbn. auto. Qed.
Lemma nonempty_set_clk s t : NonEmpty s -> NonEmpty (set_clk s t).
Proof. unfold NonEmpty. cbn. auto. Qed.
Lemma nonempty_set_closing s : NonEmpty (set_closing s).
Proof. unfold NonEmpty. cbn. congruence. Qed.
Lemma nonempty_discard s : NonEmpty (discard s).
Proof. unfold NonEmpty. cbn. congruence. Qed.
Lemma inv_reinit r : Inv (sp (reinit r)).
Proof. split; [constructor|intros _]; cbn; try tauto; try lia; try congruence. Qed.

(* one acknowledgement of one of our ACK frames *)
Lemma known_handler_nonneg s h : Inv0 s -> known_handler s h = true -> 0 <= h.
Proof.
  intros I H. unfold known_handler in H. apply existsb_exists in H. destruct H as ([q h'] & Hin & E). cbn in E.
  destruct (i_frames _ I q h' Hin) as (A & _). lia.
Qed.

Lemma ack_of_spec s h s' : Inv0 s -> ack_of s h = Ok s' ->
  Inv0 s' /\ (forall x, mem x (aq s') -> mem x (aq s)).
Proof.
  intros I H. unfold ack_of in H. destruct (known_handler s h).
  - destruct (deliver (aq s) h) as [q|] eqn:E; [|discriminate]. cbn in H. inversion H; subst; clear H.
    destruct (deliver_spec _ _ _ (i_wf _ I) E) as (W & M).
    assert (Sub : forall x, mem x q -> mem x (aq s)) by (intros x Hx; apply M in Hx; tauto).
    split; [apply inv0_set_aq; auto|exact Sub].
  - inversion H; subst. split; auto.
Qed.

Lemma ack_of_total s h : Inv0 s -> exists s', ack_of s h = Ok s'.
Proof.
  intros I. unfold ack_of. destruct (known_handler s h) eqn:K; [|eauto].
  pose proof (known_handler_nonneg _ _ I K). unfold deliver. destruct (h + 1 >? 0) eqn:E; [|lia]. cbn. eauto.
Qed.

Lemma nonempty_other c i j f : sid_eqb i j = false -> NonEmpty (spc c j) -> NonEmpty (spc (rupd c i (on_sp f)) j).
Proof. intros E H. rewrite spc_rupd, E. exact H. Qed.

Lemma sid_neq i j : j <> i -> sid_eqb i j = false.
Proof. intros H. destruct (sid_eqb i j) eqn:E; [|reflexivity]. apply sid_eqb_eq in E. congruence. Qed.

(* one effect: PInv is kept, no queue gains a member, the flags of space i only move towards closing / discarded *)
Lemma fx_apply_spec c i f c' : PInv i c -> fx_apply c i f = Ok c' ->
  PInv i c' /\ (forall j x, mem x (aq (spc c' j)) -> mem x (aq (spc c j))).
Proof.
  intros [I0 Ne] H. destruct f; cbn [fx_apply] in H.
  - destruct (ack_of (spc c i) h) as [s'|] eqn:E; [|discriminate]. cbn in H. inversion H; subst; clear H.
    destruct (ack_of_spec _ _ _ (I0 i) E) as (I1 & Sub).
    split; [split|].
    + intros j. rewrite spc_rupd. destruct (sid_eqb i j); auto.
    + intros j Hj. rewrite spc_rupd, (sid_neq _ _ Hj). auto.
    + intros j x. rewrite spc_rupd. destruct (sid_eqb i j) eqn:E1; auto. apply sid_eqb_eq in E1. subst. auto.
  - inversion H; subst; clear H. split; [split|].
    + intros j. rewrite spc_rall. apply inv0_set_complete, I0.
    + intros j Hj. rewrite spc_rall. apply nonempty_set_complete, Ne, Hj.
    + intros j x. rewrite spc_rall. auto.
  - inversion H; subst; clear H. split; [split|].
    + intros k. rewrite spc_rupd. destruct (sid_eqb j k) eqn:E1; auto. apply inv0_discard, I0.
    + intros k Hk. rewrite spc_rupd. destruct (sid_eqb j k) eqn:E1; auto. apply nonempty_discard.
    + intros k x. rewrite spc_rupd. destruct (sid_eqb j k) eqn:E1; auto. apply sid_eqb_eq in E1. subst. auto.
  - inversion H; subst; clear H. split; [split|].
    + intros j. rewrite spc_rall. apply inv0_set_closing, I0.
    + intros j Hj. rewrite spc_rall. apply nonempty_set_closing.
    + intros j x. rewrite spc_rall. auto.
  - inversion H; subst. split; [split|]; auto.
  - inversion H; subst. split; [split|]; auto.
Qed.

Lemma fx_apply_total c i f : PInv i c -> exists c', fx_apply c i f = Ok c'.
Proof.
  intros [I0 _]. destruct f; cbn [fx_apply]; eauto.
  destruct (ack_of_total (spc c i) h (I0 i)) as [s' E]. rewrite E. cbn. eauto.
Qed.

Lemma payload_loop_spec i fs : forall c e f c' elic raised, PInv i c -> payload_loop c i fs e f = Ok (c', elic, raised) ->
  PInv i c' /\ (forall j x, mem x (aq (spc c' j)) -> mem x (aq (spc c j))).
Proof.
  induction fs as [|fx0 r IH]; intros c e f c' elic raised P H; cbn [payload_loop] in H.
  - inversion H; subst. split; auto.
  - assert (K : forall c1, fx_apply c i fx0 = Ok c1 -> payload_loop c1 i r e f = Ok (c', elic, raised) ->
              PInv i c' /\ (forall j x, mem x (aq (spc c' j)) -> mem x (aq (spc c j)))).
    { intros c1 E1 H1. destruct (fx_apply_spec _ _ _ _ P E1) as (P1 & S1).
      destruct (IH _ _ _ _ _ _ P1 H1) as (P2 & S2). split; auto. }
    destruct fx0.
    + destruct (fx_apply c i (FxAck h)) as [c1|] eqn:E1; [|discriminate]. cbn [bind] in H. eapply K; eauto.
    + destruct (fx_apply c i FxComplete) as [c1|] eqn:E1; [|discriminate]. cbn [bind] in H. eapply K; eauto.
    + destruct (fx_apply c i (FxDiscard j)) as [c1|] eqn:E1; [|discriminate]. cbn [bind] in H. eapply K; eauto.
    + destruct (fx_apply c i FxPeerClose) as [c1|] eqn:E1; [|discriminate]. cbn [bind] in H. eapply K; eauto.
    + eapply IH; eauto.
    + inversion H; subst. split; auto.
Qed.

Lemma payload_loop_total i fs : forall c e f, PInv i c -> exists r, payload_loop c i fs e f = Ok r.
Proof.
  induction fs as [|fx0 r IH]; intros c e f P; cbn [payload_loop]; [eauto|].
  assert (K : forall g, (exists r0, (c' <- fx_apply c i fx0 ;; payload_loop c' i r e g) = Ok r0)).
  { intros g. destruct (fx_apply_total c i fx0 P) as [c1 E1]. rewrite E1. cbn [bind].
    apply IH. eapply fx_apply_spec; eauto. }
  destruct fx0; eauto.
Qed.

(* one packet *)
Definition pn_ok_v (v : verdict) : Prop := match v with VPlain pn _ => pn_ok pn | _ => True end.

Lemma pinv_closing_all i c : PInv i c -> PInv i (rall c (on_sp set_closing)).
Proof.
  intros [I0 Ne]. split; intros j.
  - rewrite spc_rall. apply inv0_set_closing, I0.
  - intros _. rewrite spc_rall. apply nonempty_set_closing.
Qed.

Lemma pre_payload_pinv c i pn t : CInv c -> PInv i (rupd (rupd c i (bump pn)) i (on_sp (fun s => set_clk s t))).
Proof.
  intros H. rewrite rupd_rupd. split; intros j.
  - unfold spc. rewrite rget_rupd. destruct (sid_eqb i j) eqn:E; [|apply H].
    cbn. apply inv0_set_clk, H.
  - intros Hj. unfold spc. rewrite rget_rupd, (sid_neq _ _ Hj). apply H.
Qed.

Lemma recv_closed_inv c i v fs t d c' : CInv c -> pn_ok_v v -> recv_closed c i v fs t d = Ok c' -> CInv c'.
Proof.
  intros I Hp H. unfold recv_closed in H.
  destruct (closing (spc c i)) eqn:C0; [inversion H; subst; exact I|].
  destruct v as [| |pn rsv]; [inversion H; subst; exact I|inversion H; subst; exact I|].
  destruct rsv.
  { inversion H; subst. intros j. rewrite spc_rall. split; [apply inv0_set_closing, I|apply nonempty_set_closing]. }
  destruct (payload_received _ i fs) as [[[c2 elic] raised]|k] eqn:E; [|discriminate]. cbn [bind] in H.
  destruct (payload_loop_spec _ _ _ _ _ _ _ _ (pre_payload_pinv c i pn t I) E) as (P2 & _).
  set (c3 := if raised then rall c2 (on_sp set_closing) else c2) in *.
  assert (P3 : PInv i c3) by (subst c3; destruct raised; [apply pinv_closing_all|]; exact P2).
  destruct P3 as [I3 Ne3].
  destruct (closing (spc c3 i)) eqn:C3; inversion H; subst; clear H; intros j.
  - split; [apply I3|]. destruct (sid_eqb i j) eqn:E1.
    + apply sid_eqb_eq in E1. subst j. unfold NonEmpty. congruence.
    + apply Ne3. intros ->. rewrite sid_eqb_refl in E1. discriminate.
  - rewrite spc_rupd. destruct (sid_eqb i j) eqn:E1.
    + rewrite tail_record. split; [apply inv_record; [apply I3|exact Hp]|apply nonempty_record, I3].
    + split; [apply I3|]. apply Ne3. intros ->. rewrite sid_eqb_refl in E1. discriminate.
Qed.

Lemma recv_closed_total c i v fs t d : CInv c -> exists c', recv_closed c i v fs t d = Ok c'.
Proof.
  intros I. unfold recv_closed.
  destruct (closing (spc c i)); [eauto|]. destruct v as [| |pn rsv]; eauto. destruct rsv; eauto.
  destruct (payload_loop_total i fs _ false false (pre_payload_pinv c i pn t I)) as [[[c2 elic] raised] E].
  unfold payload_received. rewrite E. cbn [bind]. destruct (closing _); eauto.
Qed.

(* reachability: ANY sequence of operations; the only premise is that a decrypted packet number is a packet number *)
Definition wf_cop (o : cop) : Prop := match o with CPacket _ v _ _ _ => pn_ok_v v | _ => True end.

Inductive creach : rconn -> Prop :=
| creach_init : creach rinit
| creach_step c o : creach c -> wf_cop o -> creach (snd (cstep c o)).

Lemma cinv_init : CInv rinit.
Proof. intros j. destruct j; apply inv_init. Qed.

Lemma cinv_step c o : CInv c -> wf_cop o -> CInv (snd (cstep c o)).
Proof.
  intros I Hw. destruct o; cbn [cstep cstep_ord].
  - change (recv_ord code_order) with recv_packet. rewrite recv_packet_closed.
    destruct (recv_closed c i v fs t d) as [c'|k] eqn:E; cbn [snd]; [|exact I].
    eapply recv_closed_inv; eauto.
  - destruct (send (spc c i) t delay room blocked) as [r s'] eqn:E. cbn [snd]. intros j. rewrite spc_rupd.
    destruct (sid_eqb i j); [|apply I]. eapply inv_send; [apply I|exact E].
  - cbn [snd]. intros j. rewrite spc_rall. destruct (I j) as [I0 Ne]. split; [apply inv0_set_complete|apply nonempty_set_complete]; auto.
  - cbn [snd]. intros k. rewrite spc_rupd. destruct (sid_eqb j k); [|apply I]. split; [apply inv0_discard, I|apply nonempty_discard].
  - cbn [snd]. intros j. rewrite spc_rall. split; [apply inv0_set_closing, I|apply nonempty_set_closing].
  - cbn [snd]. intros j. unfold spc. rewrite rget_rall. apply inv_reinit.
Qed.

Lemma creach_inv c : creach c -> CInv c.
Proof. induction 1; [apply cinv_init|apply cinv_step; auto]. Qed.

Fixpoint wf_cops (ops : list cop) : Prop := match ops with [] => True | o :: t => wf_cop o /\ wf_cops t end.
Lemma crun_reach ops : forall c, creach c -> wf_cops ops -> creach (crun c ops).
Proof.
  induction ops as [|o r IH]; intros c R H; cbn; [exact R|]. destruct H as (H1 & H2).
  apply IH; [|exact H2]. apply creach_step; auto.
Qed.

(* ---- 4. the statements ---------------------------------------------------------------------------------------------------- *)
(* (a) an armed ACK timer has something to report, in every space, in every reachable state of a live connection *)
Theorem ack_at_implies_queue_nonempty_l c : creach c -> forall i, closing (spc c i) = false ->
  ack_at (spc c i) <> None -> aq (spc c i) <> [].
Proof. intros R i. apply (creach_inv _ R i). Qed.

(* no operation raises: deliveries (subtract's assertion) cannot, the ACK writer cannot *)
Theorem recv_packet_total_l c i v fs t d : creach c -> exists c', recv_packet c i v fs t d = Ok c'.
Proof. intros R. rewrite recv_packet_closed. apply recv_closed_total, creach_inv, R. Qed.

Theorem ack_writer_never_raises_composed_l c i t delay room blocked : creach c -> 0 <= delay < 2 ^ 62 ->
  forall k, fst (send (spc c i) t delay room blocked) <> SExn k.
Proof. intros R. apply send_never_raises_inv. apply (creach_inv _ R i). Qed.

Theorem cstep_never_raises_l c o : creach c -> (forall i t delay room b, o = CSend i t delay room b -> 0 <= delay < 2 ^ 62) ->
  (forall k, fst (cstep c o) <> CExn k) /\ (forall k, fst (cstep c o) <> CSent (SExn k)).
Proof.
  intros R Hd. destruct o; cbn [cstep cstep_ord]; try (split; intros; cbn; congruence).
  - change (recv_ord code_order) with recv_packet.
    destruct (recv_packet_total_l c i v fs t d R) as [c' E]. rewrite E. split; intros; cbn; congruence.
  - pose proof (ack_writer_never_raises_composed_l c i t delay room blocked R (Hd _ _ _ _ _ eq_refl)) as W.
    destruct (send (spc c i) t delay room blocked) as [r s'] eqn:E. cbn [fst] in *. split; intros k; [congruence|].
    intros H. inversion H. apply (W k). assumption.
Qed.

(* (b) how a packet number gets into an ack_queue *)
Definition pre_payload (c : rconn) (i : sid) (pn t : Z) : rconn :=
  rupd (rupd c i (bump pn)) i (on_sp (fun s => set_clk s t)).

Lemma write_ack_aq s delay room r s' : write_ack s delay room = (r, s') -> aq s' = cap_ranges (aq s).
Proof.
  unfold write_ack. destruct (room <? _); [intros H; inversion H; reflexivity|].
  destruct (w_chunks _ _ _); intros H; inversion H; reflexivity.
Qed.

Lemma send_mem s t delay room blocked r s' x : wf (aq s) -> send s t delay room blocked = (r, s') ->
  mem x (aq s') -> mem x (aq s).
Proof.
  intros W H. unfold send in H.
  assert (K : forall r s', write_ack (set_clk s t) delay room = (r, s') -> mem x (aq s') -> mem x (aq s)).
  { intros r0 s0 H0. rewrite (write_ack_aq _ _ _ _ _ H0). cbn. apply cap_ranges_spec, W. }
  destruct (closing (set_clk s t)); [inversion H; subst; auto|].
  destruct (disc (set_clk s t)); [inversion H; subst; auto|].
  destruct (app (set_clk s t)).
  - destruct (negb _ && blocked); [inversion H; subst; auto|].
    destruct (complete (set_clk s t)); [|inversion H; subst; auto].
    destruct (ack_at (set_clk s t)); [|inversion H; subst; auto].
    destruct (z <=? t); [|inversion H; subst; auto]. eapply K; eauto.
  - destruct (ack_at (set_clk s t)); [|inversion H; subst; auto]. eapply K; eauto.
Qed.

Lemma pre_payload_aq c i pn t j : aq (spc (pre_payload c i pn t) j) = aq (spc c j).
Proof.
  unfold pre_payload. rewrite rupd_rupd. unfold spc. rewrite rget_rupd. destruct (sid_eqb i j) eqn:E; [|reflexivity].
  apply sid_eqb_eq in E. subst. reflexivity.
Qed.

(* a packet number x enters the ack_queue of space j only through a packet of space j that decrypted to packet number x
   with clear reserved bits on a live connection, whose payload was processed to the end without a connection error and
   without closing the connection or discarding the space; and it is added to the queue AS LEFT BY the payload, i.e.
   after every in-payload pruning *)
Theorem recorded_only_after_processing_l c o j x : creach c ->
  mem x (aq (spc (snd (cstep c o)) j)) -> ~ mem x (aq (spc c j)) ->
  exists fs t d c2 elic,
    o = CPacket j (VPlain x false) fs t d /\ closing (spc c j) = false /\
    payload_received (pre_payload c j x t) j fs = Ok (c2, elic, false) /\
    closing (spc c2 j) = false /\ disc (spc c2 j) = false /\
    aq (spc (snd (cstep c o)) j) = add x (x + 1) (aq (spc c2 j)).
Proof.
  intros R Hin Hnot. pose proof (creach_inv _ R) as I.
  destruct o; cbn [cstep cstep_ord] in *.
  - change (recv_ord code_order) with recv_packet in *. rewrite recv_packet_closed in *.
    destruct (recv_closed c i v fs t d) as [c'|k] eqn:E; cbn [snd] in *; [|tauto].
    unfold recv_closed in E.
    destruct (closing (spc c i)) eqn:C0; [inversion E; subst; tauto|].
    destruct v as [| |pn rsv]; [inversion E; subst; tauto|inversion E; subst; tauto|].
    destruct rsv. { inversion E; subst. rewrite spc_rall in Hin. cbn in Hin. tauto. }
    fold (pre_payload c i pn t) in E.
    destruct (payload_received (pre_payload c i pn t) i fs) as [[[c2 elic] raised]|k] eqn:EP; [|discriminate].
    cbn [bind] in E.
    destruct (payload_loop_spec _ _ _ _ _ _ _ _ (pre_payload_pinv c i pn t I) EP) as (P2 & S2).
    assert (Hn2 : ~ mem x (aq (spc c2 j))).
    { intros Hx. apply S2 in Hx. fold (pre_payload c i pn t) in Hx. rewrite pre_payload_aq in Hx. tauto. }
    destruct raised.
    { rewrite spc_rall in E. cbn [closing set_closing] in E. inversion E; subst. rewrite spc_rall in Hin. cbn in Hin. tauto. }
    destruct (closing (spc c2 i)) eqn:C2; inversion E; subst; clear E; [tauto|].
    rewrite spc_rupd in Hin |- *. destruct (sid_eqb i j) eqn:E1; [|tauto].
    apply sid_eqb_eq in E1. subst j. rewrite tail_record in Hin |- *. unfold record in Hin |- *.
    destruct (disc (spc c2 i)) eqn:D2; [tauto|]. cbn [aq] in Hin |- *.
    apply add_mem in Hin; [|apply (proj1 P2 i)|lia]. destruct Hin as [Hin|Hin]; [|tauto].
    assert (x = pn) by lia. subst pn.
    exists fs, t, d, c2, elic. repeat split; auto.
  - destruct (send (spc c i) t delay room blocked) as [r s'] eqn:E. cbn [snd] in *. rewrite spc_rupd in Hin.
    destruct (sid_eqb i j) eqn:E1; [|tauto]. apply sid_eqb_eq in E1. subst j.
    exfalso. apply Hnot. eapply send_mem; eauto. apply (I i).
  - cbn [snd] in Hin. rewrite spc_rall in Hin. cbn in Hin. tauto.
  - cbn [snd] in Hin. rewrite spc_rupd in Hin. destruct (sid_eqb j0 j) eqn:E1; [|tauto].
    apply sid_eqb_eq in E1. subst j0. cbn in Hin. tauto.
  - cbn [snd] in Hin. rewrite spc_rall in Hin. cbn in Hin. tauto.
  - cbn [snd] in Hin. unfold spc in Hin. rewrite rget_rall in Hin. cbn in Hin. tauto.
Qed.

(* ... so an acknowledgement inside the payload can never remove the number of the packet that carries it: whatever the
   payload acknowledges, a packet processed to the end is in the queue afterwards, and its ACK timer is armed if it is
   ack-eliciting *)
Theorem carrier_survives_prunes_l c i pn fs t d c2 elic : creach c -> pn_ok pn -> closing (spc c i) = false ->
  payload_received (pre_payload c i pn t) i fs = Ok (c2, elic, false) ->
  closing (spc c2 i) = false -> disc (spc c2 i) = false ->
  exists c', recv_packet c i (VPlain pn false) fs t d = Ok c' /\ mem pn (aq (spc c' i)) /\
             (elic = true -> ack_at (spc c' i) <> None).
Proof.
  intros R Hp C0 EP C2 D2. pose proof (creach_inv _ R) as I.
  destruct (payload_loop_spec _ _ _ _ _ _ _ _ (pre_payload_pinv c i pn t I) EP) as (P2 & _).
  rewrite recv_packet_closed. unfold recv_closed. rewrite C0. fold (pre_payload c i pn t). rewrite EP. cbn [bind].
  rewrite C2. eexists. split; [reflexivity|]. rewrite spc_rupd, sid_eqb_refl, tail_record. unfold record. rewrite D2.
  cbn [aq ack_at]. split.
  - apply add_mem; [apply (proj1 P2 i)|lia|left; lia].
  - intros ->. destruct (ack_at (spc c2 i)) as [a|]; unfold cap_now; destruct (CAP_ACK_NOW && _); congruence.
Qed.

(* ---- 5. the order matters --------------------------------------------------------------------------------------------------- *)
(* the variant "ack_queue.add(packet_number) right after decryption" (seeded/C05/seed3).  Witness: packet 10 (PING) is
   received and acknowledged by an ACK frame (handler argument 10); then a packet that RE-USES number 10 carries the
   acknowledgement of that ACK frame and a PING: 10 is queued first, the in-payload pruning subtract(0, 11) removes it, the
   tail arms the timer: ack_at is set over an empty queue and the next send raises IndexError (rangeset[-1]) -- on every
   later call as well.  In the order of the code the same sequence leaves {10} queued and the send writes a frame. *)
Definition first_witness : list cop :=
  [CComplete;
   CPacket SApp (VPlain 10 false) [FxFrame true] 1000 10;
   CSend SApp 1010 0 1200 false;
   CPacket SApp (VPlain 10 false) [FxAck 10; FxFrame false; FxFrame true] 2000 10].

Theorem record_before_payload_refuted_l : exists ops i, wf_cops ops /\
  (let c := crun_ord first_order rinit ops in
   closing (spc c i) = false /\ ack_at (spc c i) <> None /\ aq (spc c i) = [] /\
   fst (cstep_first c (CSend i 2010 0 1200 false)) = CSent (SExn E_INDEX) /\
   (let c1 := snd (cstep_first c (CSend i 2010 0 1200 false)) in ack_at (spc c1 i) <> None /\ aq (spc c1 i) = [])) /\
  (let c := crun rinit ops in
   aq (spc c i) = [(10, 11)] /\ exists bytes q, fst (cstep c (CSend i 2010 0 1200 false)) = CSent (SFrame bytes q)).
Proof.
  exists first_witness, SApp. split; [|split].
  - cbn. unfold pn_ok. repeat split; lia.
  - vm_compute. split; [reflexivity|]. split; [discriminate|]. split; [reflexivity|]. split; [reflexivity|].
    split; [discriminate|reflexivity].
  - vm_compute. split; [reflexivity|]. eexists _, _. reflexivity.
Qed.

(* the guard `closing = false` of (a) is needed: a connection error after an in-payload pruning leaves ack_at set over an
   empty queue -- harmless, because a closing connection never reaches the ACK writer *)
Definition closing_witness : list cop :=
  [CComplete;
   CPacket SApp (VPlain 5 false) [FxFrame true] 1000 10;
   CSend SApp 1010 0 1200 false;
   CPacket SApp (VPlain 3 false) [FxFrame true] 2000 10;
   CPacket SApp (VPlain 9 false) [FxAck 5; FxFrame false; FxError] 2001 10].

Theorem ack_at_nonempty_closing_refuted_l : exists ops i, wf_cops ops /\
  let c := crun rinit ops in
  closing (spc c i) = true /\ ack_at (spc c i) <> None /\ aq (spc c i) = [] /\
  forall t delay room blocked, fst (send (spc c i) t delay room blocked) = SNothing 0.
Proof.
  exists closing_witness, SApp. split.
  - cbn. unfold pn_ok. repeat split; lia.
  - split; [vm_compute; reflexivity|]. split; [vm_compute; discriminate|]. split; [vm_compute; reflexivity|].
    intros t delay room blocked. unfold send.
    replace (closing (set_clk (spc (crun rinit closing_witness) SApp) t)) with true by (vm_compute; reflexivity).
    reflexivity.
Qed.

(* non-vacuity of creach: the witnesses above are reachable states (frames written, prunes performed) *)
Example ex_creach : creach (crun rinit closing_witness) /\ creach (crun rinit first_witness).
Proof.
  split; (apply crun_reach; [apply creach_init|]); cbn; unfold pn_ok; repeat split; lia.
Qed.

(* ---- 6. the atomic Recv op of model/AckQueue.v IS the composed packet -------------------------------------------------- *)
(* payloads that touch the acknowledgement state only through acknowledgements of our ACK frames *)
Fixpoint fx_plain (fs : list fx) : bool :=
  match fs with
  | [] => true
  | FxAck _ :: t | FxFrame _ :: t => fx_plain t
  | FxError :: _ => true
  | _ => false
  end.
Fixpoint fx_acks (fs : list fx) : list Z :=
  match fs with
  | FxAck h :: t => h :: fx_acks t
  | FxFrame _ :: t => fx_acks t
  | _ => []
  end.
Fixpoint fx_elic (fs : list fx) (e : bool) : bool :=
  match fs with
  | FxAck _ :: t => fx_elic t e
  | FxFrame b :: t => fx_elic t (e || b)
  | _ => e
  end.
Fixpoint fx_raised (fs : list fx) (found : bool) : bool :=
  match fs with
  | [] => negb found
  | FxAck _ :: t => fx_raised t found
  | FxFrame _ :: t => fx_raised t true
  | _ => true
  end.

Lemma rupd_ext c i f g : f (rget c i) = g (rget c i) -> rupd c i f = rupd c i g.
Proof. destruct c as [[a b] d]. destruct i; cbn; intros ->; reflexivity. Qed.
Lemma rupd_same c i f : f (rget c i) = rget c i -> rupd c i f = c.
Proof. destruct c as [[a b] d]. destruct i; cbn; intros ->; reflexivity. Qed.

Lemma payload_loop_plain i fs : forall c e f, fx_plain fs = true ->
  (forall h, In h (fx_acks fs) -> known_handler (spc c i) h = true) ->
  match delivers (aq (spc c i)) (fx_acks fs) with
  | Ok q => payload_loop c i fs e f = Ok (rupd c i (on_sp (fun s => set_aq s q)), fx_elic fs e, fx_raised fs f)
  | Err k => payload_loop c i fs e f = Err k
  end.
Proof.
  induction fs as [|x r IH]; intros c e f P K.
  - cbn. rewrite rupd_same; [reflexivity|]. unfold on_sp, spc. destruct (rget c i) as [s ex]. cbn. destruct s; reflexivity.
  - destruct x; cbn [fx_plain] in P; try discriminate.
    + cbn [fx_acks delivers payload_loop fx_apply fx_elic fx_raised]. unfold ack_of.
      rewrite (K h (or_introl eq_refl)).
      destruct (deliver (aq (spc c i)) h) as [q1|k] eqn:E; cbn [bind]; [|reflexivity].
      set (c1 := rupd c i (on_sp (fun _ => set_aq (spc c i) q1))).
      assert (S1 : spc c1 i = set_aq (spc c i) q1) by (subst c1; rewrite spc_rupd, sid_eqb_refl; reflexivity).
      specialize (IH c1 e f P). rewrite S1 in IH. cbn [aq set_aq] in IH.
      assert (K1 : forall h0, In h0 (fx_acks r) -> known_handler (set_aq (spc c i) q1) h0 = true).
      { intros h0 H0. apply (K h0). right. exact H0. }
      specialize (IH K1).
      destruct (delivers q1 (fx_acks r)) as [q|k]; [|exact IH].
      rewrite IH. subst c1. rewrite rupd_rupd. f_equal. f_equal. f_equal. apply rupd_ext. reflexivity.
    + cbn [fx_acks payload_loop fx_elic fx_raised]. apply IH; auto.
    + cbn. rewrite rupd_same; [reflexivity|]. unfold on_sp, spc. destruct (rget c i) as [s ex]. cbn. destruct s; reflexivity.
Qed.

Lemma spc_pre_payload c i pn t j :
  spc (pre_payload c i pn t) j = if sid_eqb i j then set_clk (spc c i) t else spc c j.
Proof.
  unfold pre_payload. rewrite rupd_rupd. unfold spc. rewrite rget_rupd. destruct (sid_eqb i j); reflexivity.
Qed.

(* for a payload that only acknowledges ACK frames that were written (the premise of AckQueueP.reach) the state of the
   packet's space after the composed packet is exactly AckQueue.recv with dels = the acknowledgements in payload order,
   elic / ok as the frame loop computes them; the other spaces only learn about a close *)
Theorem recv_packet_refines_l c i pn fs t d : fx_plain fs = true ->
  (forall h, In h (fx_acks fs) -> known_handler (spc c i) h = true) -> closing (spc c i) = false ->
  let elic := fx_elic fs false in
  let ok := negb (fx_raised fs false) in
  match recv (spc c i) pn elic t d (fx_acks fs) ok with
  | Ok s' => exists c', recv_packet c i (VPlain pn false) fs t d = Ok c' /\ spc c' i = s' /\
               forall j, j <> i -> spc c' j = if ok then spc c j else set_closing (spc c j)
  | Err k => recv_packet c i (VPlain pn false) fs t d = Err k
  end.
Proof.
  intros P K C0 elic ok. rewrite recv_packet_closed. unfold recv_closed. rewrite C0. fold (pre_payload c i pn t).
  pose proof (payload_loop_plain i fs (pre_payload c i pn t) false false P) as L.
  rewrite spc_pre_payload, sid_eqb_refl in L. cbn [aq set_clk] in L.
  specialize (L K). unfold recv. unfold payload_received.
  destruct (delivers (aq (spc c i)) (fx_acks fs)) as [q|k]; [|rewrite L; reflexivity].
  rewrite L. cbn [bind]. subst elic ok. rewrite C0.
  destruct (fx_raised fs false) eqn:R; cbn [negb andb].
  - rewrite spc_rall, spc_rupd, sid_eqb_refl. cbn [closing set_closing]. eexists. split; [reflexivity|]. split.
    + rewrite spc_rall, spc_rupd, sid_eqb_refl, spc_pre_payload, sid_eqb_refl. reflexivity.
    + intros j Hj. rewrite spc_rall, spc_rupd, (sid_neq _ _ Hj), spc_pre_payload, (sid_neq _ _ Hj). reflexivity.
  - rewrite spc_rupd, sid_eqb_refl, spc_pre_payload, sid_eqb_refl. cbn [closing set_aq set_clk]. rewrite C0.
    eexists. split; [reflexivity|]. split.
    + rewrite spc_rupd, sid_eqb_refl, spc_rupd, sid_eqb_refl, spc_pre_payload, sid_eqb_refl, tail_record. reflexivity.
    + intros j Hj. rewrite spc_rupd, (sid_neq _ _ Hj), spc_rupd, (sid_neq _ _ Hj), spc_pre_payload, (sid_neq _ _ Hj). reflexivity.
Qed.

(* what tools/gen/c12_recv_order.py reads from the tree with seeded/C05/seed3 applied is the order of the variant *)
Example first_order_is_seed3 : CAP_ACK_NOW = true -> source_order first_order =
  [(1, 10); (2, 0); (3, 11); (4, 12); (7, 20); (5, 13); (1, 10); (6, 21); (8, 22); (9, 23)].
Proof. unfold source_order. intros ->. reflexivity. Qed.
